(* Proofs of groups A, B, C and H of Comp/CoreStatements.v for the task-record model of Comp/Core.v.

   core_client_copy and core_convergence are FALSE of this model as they are stated in CoreStatements.v (a subscribe request
   waiting for the answer to a re-validation can coexist with subscriptions the client holds; an unsubscribe of all the
   client holds then makes the client drop its copy while the gateway keeps the subscription for the waiting request, whose
   response later carries an empty resource set: see [copy_refute_ops] and [core_client_copy_without_premise_refuted] at the end).  They are
   proved here under one extra hypothesis, [no_bare_resp]: the client is never sent an empty resource set while it holds no
   subscription.  Everything else is proved exactly as stated. *)
From Coq Require Import List Arith Lia Bool Permutation.
From RG Require Import Comp.Conv Comp.Core.
Import ListNotations.

Section CoreProofs.
Variables (val upd : Type) (app : upd -> val -> val) (norm : upd -> val -> option upd) (d : val).
Hypothesis norm_none : forall u v, norm u v = None -> app u v = v.
Hypothesis norm_some : forall u v u', norm u v = Some u' -> app u' v = app u v.

Notation csubs := (Conv.subs val upd).
Notation exec := (Core.exec val upd app norm d).
Notation cv := (Core.cv val upd).
Notation conns := (Core.conns val upd).
Notation insts := (Core.insts val upd).
Notation client := (Core.client val upd app).
Notation resps := (Core.resps val upd).
Notation quiescent := (Core.quiescent val upd).
Notation no_underflow := (Core.no_underflow val upd app).

Notation step := (Core.step val upd app norm).
Notation cstep := (Conv.step val upd app norm).
Notation acts_of := (Core.acts_of val upd app norm).
Notation conn_task := (Core.conn_task val upd app norm).
Notation next := (Core.next val upd).
Notation getreq := (Core.getreq val upd).
Notation mqsub := (Core.mqsub val upd).
Notation exec1 := (Core.exec1 val upd app norm).
Notation st_ := (Core.st val upd).
Notation out_ := (Core.out val upd).
Notation act_ := (Conv.action upd).
Notation cst := (Conv.st val upd).
Notation CInv := (Conv.Inv val upd app).
Notation tk_ := (Core.tk val upd).
Notation ts := (Core.ts val upd).
Notation ta := (Core.ta val upd).
Notation tx := (Core.tx val upd).
Notation ty := (Core.ty val upd).
Notation to := (Core.to val upd).
Notation actk := (Core.act val upd app norm).
Notation emit := (Core.emit val upd).
Notation setx := (Core.setx val upd).
Notation sety := (Core.sety val upd).
Notation me := (Core.me val upd).
Notation gone_ := (Core.gone_ val upd).
Notation loaded_ := (Core.loaded_ val upd).
Notation sent_ := (Core.sent_ val upd).
Notation flag_ := (Core.flag_ val upd).
Notation dispose_t := (Core.dispose_t val upd app norm).
Notation remove_direct := (Core.remove_direct val upd app norm).
Notation unsubscribe_direct := (Core.unsubscribe_direct val upd app norm).
Notation load_access := (Core.load_access val upd).
Notation handle_reaccess := (Core.handle_reaccess val upd app norm).
Notation reaccess := (Core.reaccess val upd app norm).
Notation respond := (Core.respond val upd app norm).
Notation on_ready := (Core.on_ready val upd app norm).
Notation unqueue_reaccess := (Core.unqueue_reaccess val upd app norm).
Notation run_cb := (Core.run_cb val upd app norm).
Notation drained := (Core.drained val upd app).
Notation K0 s x y := (Core.Build_tk val upd (cv s) [] x y []).

Notation sgone x := (Conv.gone val upd x).
Notation ssent x := (Conv.sent val upd x).
Notation ssubscribed x := (Conv.subscribed val upd x).
Notation sloaded x := (Conv.loaded val upd x).
Notation scq x := (Conv.cq val upd x).
Notation sflag x := (Conv.flag val upd x).
Notation ssval x := (Conv.sval val upd x).
Notation ssver x := (Conv.sver val upd x).
Notation seq_ x := (Conv.eq val upd x).
Notation sclosed x := (Conv.closed val upd x).
Notation cqe σ := (Conv.qe val upd σ).

Notation OResp := (Core.OResp val upd).
Notation OErr := (Core.OErr val upd).
Notation OAck := (Core.OAck val upd).
Notation OEvent := (Core.OEvent val upd).
Notation OCustom := (Core.OCustom val upd).
Notation OUnsubEv := (Core.OUnsubEv val upd).
Notation OAccessReq := (Core.OAccessReq val upd).
Notation OMqSub := (Core.OMqSub val upd).
Notation OGetReq := (Core.OGetReq val upd).
Notation OConnUnsub := (Core.OConnUnsub val upd).

(* ================= A: plumbing ================= *)
Lemma exec_snoc t ops o : exec t (ops ++ [o]) = exec1 (exec t ops) o.
Proof. unfold Core.exec. rewrite fold_left_app. reflexivity. Qed.

Lemma run_fold : forall ops s outs0,
  fst (Core.run val upd app norm s ops) = fst (fold_left exec1 ops (s, outs0)) /\
  outs0 ++ concat (snd (Core.run val upd app norm s ops)) = snd (fold_left exec1 ops (s, outs0)).
Proof.
  induction ops as [|o ops IH]; intros s outs0.
  - cbn. rewrite app_nil_r. split; reflexivity.
  - cbn [Core.run fold_left]. unfold Core.exec1 at 2 4.
    destruct (step s o) as [s1 o1] eqn:E.
    specialize (IH s1 (outs0 ++ o1)). destruct (Core.run val upd app norm s1 ops) as [s2 outs].
    cbn [fst snd concat] in *. rewrite app_assoc. exact IH.
Qed.

Theorem run_exec : forall t ops,
  fst (Core.run val upd app norm (Core.init val upd d t) ops) = fst (exec t ops) /\
  concat (snd (Core.run val upd app norm (Core.init val upd d t) ops)) = snd (exec t ops).
Proof. intros t ops. exact (run_fold ops (Core.init val upd d t) []). Qed.

Lemma task_empty s c : cqueue (conns s c) = [] -> conn_task s c = (K0 s (conns s c) inst0, None, next s, mqsub s).
Proof. intros E. unfold Core.conn_task. rewrite E. reflexivity. Qed.

Lemma step_cv s o : cv (fst (step s o)) = fold_left cstep (acts_of s o) (cv s).
Proof.
  unfold Core.step. destruct o as [c id|c id k|c|c t|i g| |u| | | |c].
  - destruct (disc (conns s c)); reflexivity.
  - destruct (disc (conns s c)); reflexivity.
  - destruct (disc (conns s c)); reflexivity.
  - destruct (Core.is_done (conns s c)); reflexivity.
  - cbn [Core.acts_of]. destruct (Nat.ltb i (next s) && Core.unanswered (insts s i)); reflexivity.
  - reflexivity.
  - reflexivity.
  - reflexivity.
  - reflexivity.
  - reflexivity.
  - destruct (cqueue (conns s c)) as [|it q] eqn:Eq.
    + cbn [Core.acts_of]. rewrite (task_empty s c Eq). reflexivity.
    + destruct (conn_task s c) as [[[k oi] nx] ms]. reflexivity.
Qed.

Theorem core_reachable_conv : forall t ops, exists acts, cv (fst (exec t ops)) = Conv.run val upd app norm d t acts.
Proof.
  intros t ops. induction ops as [|o ops IH] using rev_ind.
  - exists []. reflexivity.
  - destruct IH as [acts IH]. rewrite exec_snoc. destruct (exec t ops) as [s outs]. unfold Core.exec1.
    pose proof (step_cv s o) as Hc. destruct (step s o) as [s' o']. cbn [fst] in *.
    exists (acts ++ acts_of s o). rewrite Hc, IH. unfold Conv.run. rewrite fold_left_app. reflexivity.
Qed.

Theorem core_conv_inv : forall t ops, Conv.Inv val upd app (cv (fst (exec t ops))).
Proof.
  intros t ops. destruct (core_reachable_conv t ops) as [acts ->].
  apply (Conv.run_inv val upd app norm d norm_none norm_some).
Qed.

Lemma cstep_inv σ a : CInv σ -> CInv (cstep σ a).
Proof. apply (Conv.step_inv val upd app norm norm_none norm_some). Qed.
Lemma acts_inv σ acts : CInv σ -> CInv (fold_left cstep acts σ).
Proof.
  revert σ. induction acts as [|a acts IH]; intros σ H; [exact H|]. cbn [fold_left]. apply IH, cstep_inv, H.
Qed.
Lemma step_inv' s o : CInv (cv s) -> CInv (cv (fst (step s o))).
Proof. intros H. rewrite step_cv. apply acts_inv, H. Qed.

(* generic induction along an execution *)
Lemma exec_ind (P : st_ -> list out_ -> Prop) t :
  P (Core.init val upd d t) [] ->
  (forall ops o, let s := fst (exec t ops) in let outs := snd (exec t ops) in
     P s outs -> P (fst (step s o)) (outs ++ snd (step s o))) ->
  forall ops, P (fst (exec t ops)) (snd (exec t ops)).
Proof.
  intros H0 Hs ops. induction ops as [|o ops IH] using rev_ind; [exact H0|].
  specialize (Hs ops o IH). rewrite exec_snoc. destruct (exec t ops) as [s outs]. unfold Core.exec1.
  cbn [fst snd] in Hs. destruct (step s o) as [s' o']. exact Hs.
Qed.
Lemma exec_state_ind (P : st_ -> Prop) t :
  P (Core.init val upd d t) ->
  (forall ops o, let s := fst (exec t ops) in P s -> P (fst (step s o))) ->
  forall ops, P (fst (exec t ops)).
Proof.
  intros H0 Hs ops. induction ops as [|o ops IH] using rev_ind; [exact H0|].
  specialize (Hs ops o IH). rewrite exec_snoc. destruct (exec t ops) as [s outs]. unfold Core.exec1.
  cbn [fst snd] in Hs. destruct (step s o) as [s' o']. exact Hs.
Qed.

(* ================= connection tasks: what every handler does, whatever the state ================= *)
(* [m]: mild handlers neither dispose nor touch the connection record *)
Definition hact (m : bool) (i : nat) (a : act_) : Prop :=
  match a with
  | Conv.Dispose _ j cl => j = i /\ cl = false /\ m = false
  | Conv.StartQueue _ j | Conv.Respond _ j _ | Conv.Unqueue _ j _ => j = i
  | _ => False
  end.
Definition hout (c i : nat) (o : out_) : Prop :=
  match o with
  | Core.OResp _ _ c' _ _ | Core.OErr _ _ c' _ _ | Core.OAck _ _ c' _ _ | Core.OEvent _ _ c' _ | Core.OCustom _ _ c'
  | Core.OUnsubEv _ _ c' => c' = c
  | Core.OAccessReq _ _ c' i' _ => c' = c /\ i' = i
  | _ => False
  end.

(* k' is k after some handler actions on instance i and some frames to connection c *)
Record ext (m : bool) (c i : nat) (k k' : tk_) : Prop := {
  e_acts : exists la, ta k' = ta k ++ la /\ ts k' = fold_left cstep la (ts k) /\ Forall (hact m i) la;
  e_outs : exists lo, to k' = to k ++ lo /\ Forall (hout c i) lo;
  e_tx : m = true -> tx k' = tx k;
  e_q : cqueue (tx k') = cqueue (tx k);
  e_disc : disc (tx k') = disc (tx k);
  e_tokset : tokset (tx k') = tokset (tx k);
  e_tok : tok (tx k') = tok (tx k);
  e_own : owner (ty k') = owner (ty k) }.

Lemma ext_refl m c i k : ext m c i k k.
Proof.
  constructor; try reflexivity.
  - exists []. rewrite app_nil_r. repeat split. constructor.
  - exists []. rewrite app_nil_r. repeat split. constructor.
Qed.
Lemma ext_trans m c i k1 k2 k3 : ext m c i k1 k2 -> ext m c i k2 k3 -> ext m c i k1 k3.
Proof.
  intros [(la&A1&A2&A3) (lo&B1&B2) T C D E F G] [(la'&A1'&A2'&A3') (lo'&B1'&B2') T' C' D' E' F' G'].
  constructor; try congruence.
  - exists (la ++ la'). rewrite A1', A1, A2', A2, fold_left_app, app_assoc. repeat split. apply Forall_app; auto.
  - exists (lo ++ lo'). rewrite B1', B1, app_assoc. split; [reflexivity|]. apply Forall_app; auto.
  - intros Hm. rewrite (T' Hm). exact (T Hm).
Qed.
Lemma ext_weaken m c i k k' : ext m c i k k' -> ext false c i k k'.
Proof.
  intros [(la&A1&A2&A3) B T C D E F G]. constructor; auto; [|discriminate].
  exists la. repeat split; auto. eapply Forall_impl; [|exact A3]. intros a. destruct a; cbn [hact]; auto. intros (X&Y&Z). subst m. auto.
Qed.
Lemma x_act m c i k K a : ext m c i k K -> hact m i a -> ext m c i k (actk K a).
Proof.
  intros H Ha. apply (ext_trans m c i k K); [exact H|]. constructor; try reflexivity.
  - exists [a]. repeat split. constructor; [exact Ha|constructor].
  - exists []. cbn [Core.act Core.to]. rewrite app_nil_r. repeat split. constructor.
Qed.
Lemma x_emit m c i k K o : ext m c i k K -> Forall (hout c i) o -> ext m c i k (emit K o).
Proof.
  intros H Ho. apply (ext_trans m c i k K); [exact H|]. constructor; try reflexivity.
  - exists []. cbn [Core.emit Core.ta]. rewrite app_nil_r. repeat split. constructor.
  - exists o. split; [reflexivity|exact Ho].
Qed.
Lemma x_setx c i k K x : ext false c i k K -> cqueue x = cqueue (tx K) -> disc x = disc (tx K) ->
  tokset x = tokset (tx K) -> tok x = tok (tx K) -> ext false c i k (setx K x).
Proof.
  intros H H1 H2 H3 H4. apply (ext_trans false c i k K); [exact H|]. constructor; try reflexivity; try assumption; try discriminate.
  - exists []. cbn [Core.setx Core.ta]. rewrite app_nil_r. repeat split. constructor.
  - exists []. cbn [Core.setx Core.to]. rewrite app_nil_r. repeat split. constructor.
Qed.
Lemma x_sety m c i k K y : ext m c i k K -> owner y = owner (ty K) -> ext m c i k (sety K y).
Proof.
  intros H H1. apply (ext_trans m c i k K); [exact H|]. constructor; try reflexivity; try assumption.
  - exists []. cbn [Core.sety Core.ta]. rewrite app_nil_r. repeat split. constructor.
  - exists []. cbn [Core.sety Core.to]. rewrite app_nil_r. repeat split. constructor.
Qed.

Ltac xt :=
  repeat first
    [ apply ext_refl
    | assumption
    | apply x_setx; [ | reflexivity | reflexivity | reflexivity | reflexivity ]
    | apply x_sety; [ | reflexivity ]
    | apply x_emit; [ | repeat constructor ]
    | apply x_act; [ | cbn [hact]; auto ] ].

Lemma x_dispose c i k K : ext false c i k K -> ext false c i k (dispose_t i K).
Proof. intros H. unfold Core.dispose_t. destruct (gone_ i K); [exact H|]. cbv zeta. xt. Qed.
Lemma x_remove c i k K n : ext false c i k K -> ext false c i k (remove_direct i K n).
Proof.
  intros H. unfold Core.remove_direct. destruct (Nat.eqb (direct (tx K)) 0); [exact H|]. cbv zeta.
  match goal with |- context [if ?b then _ else _] => destruct b end; [apply x_dispose|]; xt.
Qed.
Lemma x_unsubd c i k K : ext false c i k K -> ext false c i k (unsubscribe_direct c i K).
Proof.
  intros H. unfold Core.unsubscribe_direct. destruct (Nat.ltb 0 (direct (tx K))); [|exact H].
  apply x_emit; [apply x_remove; exact H|repeat constructor].
Qed.
Lemma x_load m c i k K b : ext m c i k K -> ext m c i k (load_access c i K b).
Proof. intros H. unfold Core.load_access. cbv zeta. destruct (inflight (ty K)); xt. Qed.
Lemma x_hreacc m c i k K : ext m c i k K -> ext m c i k (handle_reaccess c i K).
Proof.
  intros H. unfold Core.handle_reaccess. cbv zeta.
  match goal with |- context [if ?b then _ else _] => destruct b end; [xt|]. apply x_load. xt.
Qed.
Lemma x_reacc m c i k K : ext m c i k K -> ext m c i k (reaccess c i K).
Proof.
  intros H. unfold Core.reaccess. destruct (gone_ i K); [exact H|]. destruct (flag_ i K); [xt|apply x_hreacc; exact H].
Qed.

Lemma hout_proc_o c i p e : Forall (hout c i) (snd (Core.proc_o val upd app c p e)).
Proof.
  destruct p as [ver v]. unfold Core.proc_o. destruct (Nat.eqb ver (Conv.e_ver upd e)); [|constructor].
  destruct (Conv.e_upd upd e); cbn [snd]; repeat constructor.
Qed.
Lemma hout_replay_o c i l : forall p, Forall (hout c i) (Core.replay_o val upd app c p l).
Proof.
  induction l as [|e l IH]; intros p; cbn [Core.replay_o]; [constructor|].
  pose proof (hout_proc_o c i p e) as Hp. destruct (Core.proc_o val upd app c p e) as [p' o]. cbn [snd] in Hp.
  apply Forall_app. split; [exact Hp|apply IH].
Qed.
Lemma hout_map_resp c i (l : list nat) : Forall (hout c i) (map (fun id' => OResp c id' None) l).
Proof. induction l; cbn [map]; repeat constructor; assumption. Qed.

Lemma x_respond m c i k K ids : ext m c i k K -> ext m c i k (respond c i K ids).
Proof.
  intros H. unfold Core.respond. destruct ids as [|id r]; [exact H|]. cbv zeta.
  apply x_emit; [|apply hout_map_resp].
  destruct (sent_ i K); [xt|]. cbn [Core.emit Core.ty].
  destruct (reflag (ty K)).
  - apply x_hreacc. xt.
  - apply x_emit; [xt|apply hout_replay_o].
Qed.
Lemma x_ready m c i k K id : ext m c i k K -> ext m c i k (on_ready c i K id).
Proof. intros H. unfold Core.on_ready. destruct (loaded_ i K); [apply x_respond; exact H|]. cbv zeta. xt. Qed.
Lemma x_unqueue m c i k K : ext m c i k K -> ext m c i k (unqueue_reaccess c i K).
Proof.
  intros H. unfold Core.unqueue_reaccess. cbv zeta.
  match goal with |- context [if gone_ i ?k then _ else _] => destruct (gone_ i k) end; [xt|].
  match goal with |- context [if reflag ?y then _ else _] => destruct (reflag y) end.
  - apply x_hreacc. xt.
  - apply x_emit; [xt|apply hout_replay_o].
Qed.
Lemma x_run_cb c i g k K b : ext false c i k K -> ext false c i k (run_cb c i g K b).
Proof.
  intros H. unfold Core.run_cb. destruct b as [id|].
  - destruct g; [destruct (gone_ i K); [exact H|apply x_ready; exact H]|apply x_remove; xt].
  - apply x_unqueue. destruct g; [exact H|apply x_unsubd; exact H].
Qed.
Lemma x_run_cbs c i g l : forall k K, ext false c i k K -> ext false c i k (fold_left (run_cb c i g) l K).
Proof. induction l as [|b l IH]; intros k K H; [exact H|]. cbn [fold_left]. apply IH, x_run_cb, H. Qed.

(* ---- the task of a grant, by the head of the connection's queue ---- *)
Definition ynew (c : nat) : inst :=
  {| owner := c; acb := []; rcb := []; acc := None; inflight := false; ans := None; reflag := false; rq := false; lost := [] |}.
Notation res_ := (tk_ * option nat * nat * bool)%type.

Definition body_req (s : st_) (c : nat) (x : conn) (id : nat) (q : list qitem) (i : nat) : tk_ :=
  let k := K0 s (Core.with_cd (Core.with_q x q) (Some i) (S (direct x))) (insts s i) in
  match acc (insts s i) with
  | Some true => on_ready c i k id
  | Some false => remove_direct i (emit k [OErr c id Core.EDenied]) 1
  | None => load_access c i k (AReq id)
  end.
Definition body_unsub (s : st_) (c : nat) (x : conn) (id cnt : nat) (q : list qitem) (i : nat) : tk_ :=
  let k := K0 s (Core.with_q x q) (insts s i) in
  if Nat.eqb cnt 0 then emit k [OErr c id Core.EInvalid]
  else if Nat.leb cnt (direct x) then
    let k := emit k [OAck c id cnt] in
    let k := if Nat.eqb (direct x - cnt) 0
             then let y := ty k in sety k (Core.upd_y y [] (rcb y) (acc y) (inflight y) (ans y) (reflag y) (rq y) (lost y ++ Core.ids_of (acb y)))
             else k in
    remove_direct i k cnt
  else emit k [OErr c id Core.ENoSub].
Definition xtok (x : conn) (q : list qitem) (t : nat) : conn :=
  {| cqueue := q; cur := cur x; direct := direct x; tokset := true; tok := t; disc := disc x |}.
Definition body_access (s : st_) (c : nat) (x : conn) (q : list qitem) (i : nat) : tk_ :=
  let y := insts s i in
  let k := K0 s (Core.with_q x q) y in
  match ans y with
  | Some g =>
      let k := sety k (Core.upd_y y [] (rcb y) (Some g) false None (reflag y) (rq y) (lost y)) in
      fold_left (run_cb c i g) (acb y) k
  | None => k
  end.
Definition body_sub (s : st_) (c : nat) (x : conn) (q : list qitem) (i : nat) : tk_ :=
  let y := csubs (cv s) i in
  let k := K0 s (Core.with_q x q) (insts s i) in
  match Conv.cq val upd y with
  | Conv.CEvent _ e :: _ =>
      let o := if Conv.loaded val upd y && negb (Conv.flag val upd y)
               then snd (Core.proc_o val upd app c (Conv.sver val upd y, Conv.sval val upd y) e) else [] in
      emit (actk k (Conv.RunC upd i)) o
  | Conv.CLoaded _ :: _ =>
      let k := actk k (Conv.RunC upd i) in
      if Conv.gone val upd y then k
      else let z := ty k in
           respond c i (sety k (Core.upd_y z (acb z) [] (acc z) (inflight z) (ans z) (reflag z) (rq z) (lost z))) (rcb z)
  | Conv.CReacc _ :: _ => reaccess c i (actk k (Conv.RunC upd i))
  | [] => actk k (Conv.RunC upd i)
  end.
Definition body_dispose (s : st_) (c : nat) (x : conn) (q : list qitem) : tk_ :=
  let k := K0 s (Core.with_cd (Core.with_q x q) None 0) (match cur x with Some i => insts s i | None => inst0 end) in
  let k := fold_left actk (map (fun j => Conv.Dispose upd j true) (Core.insts_of val upd s c)) k in
  let y := ty k in
  let k := sety k (Core.upd_y y [] [] (acc y) (inflight y) (ans y) (reflag y) (rq y) (lost y ++ Core.ids_of (acb y) ++ rcb y)) in
  emit k [OConnUnsub c].

Inductive CT (s : st_) (c : nat) (x : conn) : res_ -> Prop :=
| CT_empty : cqueue x = [] -> CT s c x (K0 s x inst0, None, next s, mqsub s)
| CT_req_new id q : cqueue x = QReq id :: q -> cur x = None ->
    CT s c x (load_access c (next s)
                (emit (actk (K0 s (Core.with_cd (Core.with_q x q) (Some (next s)) 1) (ynew c)) (Conv.Subscribe upd (next s)))
                      (if mqsub s then [] else [OMqSub])) (AReq id), Some (next s), S (next s), true)
| CT_req_cur id q i : cqueue x = QReq id :: q -> cur x = Some i -> CT s c x (body_req s c x id q i, Some i, next s, mqsub s)
| CT_unsub_cur id cnt q i : cqueue x = QUnsub id cnt :: q -> cur x = Some i -> CT s c x (body_unsub s c x id cnt q i, Some i, next s, mqsub s)
| CT_unsub_none id cnt q : cqueue x = QUnsub id cnt :: q -> cur x = None ->
    CT s c x (emit (K0 s (Core.with_q x q) inst0) [OErr c id (if Nat.eqb cnt 0 then Core.EInvalid else Core.ENoSub)], None, next s, mqsub s)
| CT_token_cur t q i : cqueue x = QToken t :: q -> cur x = Some i ->
    CT s c x (if tokset x then reaccess c i (K0 s (xtok x q t) (insts s i)) else K0 s (xtok x q t) (insts s i), Some i, next s, mqsub s)
| CT_token_none t q : cqueue x = QToken t :: q -> cur x = None -> CT s c x (K0 s (xtok x q t) inst0, None, next s, mqsub s)
| CT_access_gone i q : cqueue x = QAccess i :: q -> sgone (csubs (cv s) i) = true ->
    CT s c x (K0 s (Core.with_q x q) (insts s i), Some i, next s, mqsub s)
| CT_access_live i q : cqueue x = QAccess i :: q -> sgone (csubs (cv s) i) = false ->
    CT s c x (body_access s c x q i, Some i, next s, mqsub s)
| CT_sub i q : cqueue x = QSub i :: q -> CT s c x (body_sub s c x q i, Some i, next s, mqsub s)
| CT_dispose q : cqueue x = QDispose :: q -> CT s c x (body_dispose s c x q, cur x, next s, mqsub s).

Lemma ct_spec s c : CT s c (conns s c) (conn_task s c).
Proof.
  unfold Core.conn_task. cbv zeta. generalize (conns s c). intros x.
  destruct x as [cq cu di tks tk dc]. destruct cq as [|[id|id cnt|t|i|i|] q].
  - apply CT_empty. reflexivity.
  - destruct cu as [i|]; match goal with |- CT _ _ ?X _ =>
      first [apply (CT_req_cur s c X id q i eq_refl eq_refl)|apply (CT_req_new s c X id q eq_refl eq_refl)] end.
  - destruct cu as [i|]; match goal with |- CT _ _ ?X _ =>
      first [apply (CT_unsub_cur s c X id cnt q i eq_refl eq_refl)|apply (CT_unsub_none s c X id cnt q eq_refl eq_refl)] end.
  - destruct cu as [i|]; match goal with |- CT _ _ ?X _ =>
      first [apply (CT_token_cur s c X t q i eq_refl eq_refl)|apply (CT_token_none s c X t q eq_refl eq_refl)] end.
  - cbn [cqueue Core.with_q Core.ts Core.cv]. unfold Core.is_gone. destruct (sgone (csubs (cv s) i)) eqn:Eg;
      match goal with |- CT _ _ ?X _ =>
        first [apply (CT_access_gone s c X i q eq_refl Eg)|apply (CT_access_live s c X i q eq_refl Eg)] end.
  - match goal with |- CT _ _ ?X _ => apply (CT_sub s c X i q eq_refl) end.
  - match goal with |- CT _ _ ?X _ => apply (CT_dispose s c X q eq_refl) end.
Qed.

(* ---- the bodies extend their starting task ---- *)
Lemma ext_body_req s c x id q i :
  ext false c i (K0 s (Core.with_cd (Core.with_q x q) (Some i) (S (direct x))) (insts s i)) (body_req s c x id q i).
Proof.
  unfold body_req. cbv zeta. destruct (acc (insts s i)) as [[|]|].
  - apply x_ready, ext_refl.
  - apply x_remove. xt.
  - apply x_load, ext_refl.
Qed.
Lemma ext_body_unsub s c x id cnt q i : ext false c i (K0 s (Core.with_q x q) (insts s i)) (body_unsub s c x id cnt q i).
Proof.
  unfold body_unsub. cbv zeta. destruct (Nat.eqb cnt 0); [xt|]. destruct (Nat.leb cnt (direct x)); [|xt].
  apply x_remove. destruct (Nat.eqb (direct x - cnt) 0); xt.
Qed.
Lemma ext_body_access s c x q i : ext false c i (K0 s (Core.with_q x q) (insts s i)) (body_access s c x q i).
Proof.
  unfold body_access. cbv zeta. destruct (ans (insts s i)) as [g|]; [|apply ext_refl].
  apply x_run_cbs. xt.
Qed.
Lemma ext_body_sub s c x q i : ext false c i (actk (K0 s (Core.with_q x q) (insts s i)) (Conv.RunC upd i)) (body_sub s c x q i).
Proof.
  unfold body_sub. cbv zeta. destruct (scq (csubs (cv s) i)) as [|[|e|] q'].
  - apply ext_refl.
  - destruct (sgone (csubs (cv s) i)); [apply ext_refl|]. apply x_respond. xt.
  - apply x_emit; [apply ext_refl|]. destruct (_ && _); [apply hout_proc_o|constructor].
  - apply x_reacc, ext_refl.
Qed.

Definition sync (σ : cst) (k : tk_) : Prop := ts k = fold_left cstep (ta k) σ.
Lemma sync_ext σ m c i k1 k : sync σ k1 -> ext m c i k1 k -> sync σ k.
Proof.
  unfold sync. intros H [(la&A1&A2&_) _ _ _ _ _ _ _]. rewrite A1, A2, fold_left_app, H. reflexivity.
Qed.
Lemma sync_act σ k a : sync σ k -> sync σ (actk k a).
Proof. unfold sync. intros H. cbn [Core.act Core.ts Core.ta]. rewrite fold_left_app, <- H. reflexivity. Qed.
Lemma sync_acts σ l : forall k, sync σ k -> sync σ (fold_left actk l k).
Proof. induction l as [|a l IH]; intros k H; [exact H|]. cbn [fold_left]. apply IH, sync_act, H. Qed.
Lemma acts_ta l : forall k, ta (fold_left actk l k) = ta k ++ l.
Proof.
  induction l as [|a l IH]; intros k; cbn [fold_left]; [rewrite app_nil_r; reflexivity|].
  rewrite IH. cbn [Core.act Core.ta]. rewrite <- app_assoc. reflexivity.
Qed.
Lemma acts_frame l : forall k, tx (fold_left actk l k) = tx k /\ ty (fold_left actk l k) = ty k /\ to (fold_left actk l k) = to k.
Proof. induction l as [|a l IH]; intros k; cbn [fold_left]; [auto|]. destruct (IH (actk k a)) as (A&B&C). rewrite A, B, C. auto. Qed.

Definition tact (oi : option nat) (a : act_) : Prop :=
  match a with
  | Conv.RunC _ j | Conv.StartQueue _ j | Conv.Respond _ j _ | Conv.Unqueue _ j _ => oi = Some j
  | Conv.Dispose _ j cl => oi = Some j /\ cl = false
  | _ => False
  end.
Definition tout (c : nat) (oi : option nat) (o : out_) : Prop :=
  match o with
  | Core.OResp _ _ c' _ _ | Core.OErr _ _ c' _ _ | Core.OAck _ _ c' _ _ | Core.OEvent _ _ c' _ | Core.OCustom _ _ c'
  | Core.OUnsubEv _ _ c' => c' = c
  | Core.OAccessReq _ _ c' i' _ => c' = c /\ oi = Some i'
  | _ => False
  end.
Lemma hact_tact m i a : hact m i a -> tact (Some i) a.
Proof. destruct a; cbn [hact tact]; try contradiction; intros; try congruence. destruct H as (-> & -> & _). auto. Qed.
Lemma hout_tout c i o : hout c i o -> tout c (Some i) o.
Proof. destruct o; cbn [hout tout]; try contradiction; intros; try congruence. destruct H as [-> ->]. auto. Qed.

Lemma shape_ext σ m c i k1 k : ext m c i k1 k -> sync σ k1 -> Forall (tact (Some i)) (ta k1) -> Forall (tout c (Some i)) (to k1) ->
  sync σ k /\ cqueue (tx k) = cqueue (tx k1) /\ disc (tx k) = disc (tx k1) /\ Forall (tact (Some i)) (ta k) /\ Forall (tout c (Some i)) (to k).
Proof.
  intros He Hs Ha Ho. split; [eapply sync_ext; eassumption|]. destruct He as [(la&A1&A2&A3) (lo&B1&B2) _ C D _ _ _].
  repeat split; auto.
  - rewrite A1. apply Forall_app. split; [exact Ha|]. eapply Forall_impl; [|exact A3]. apply hact_tact.
  - rewrite B1. apply Forall_app. split; [exact Ho|]. eapply Forall_impl; [|exact B2]. apply hout_tout.
Qed.

Definition head_dispose (q : list qitem) : Prop := exists q', q = QDispose :: q'.
Definition task_plain (s : st_) (c : nat) (r : res_) : Prop :=
  let '(k, oi, nx, ms) := r in
  nx = next s /\ ms = mqsub s /\ Forall (tact oi) (ta k) /\ Forall (tout c oi) (to k).
Definition task_new (s : st_) (c : nat) (r : res_) : Prop :=
  let '(k, oi, nx, ms) := r in
  (exists id q, cqueue (conns s c) = QReq id :: q) /\ cur (conns s c) = None /\ oi = Some (next s) /\ nx = S (next s) /\ ms = true /\
  ta k = [Conv.Subscribe upd (next s)] /\ to k = (if mqsub s then [] else [OMqSub]) ++ [OAccessReq c (next s) (tok (conns s c))] /\
  tx k = Core.with_cd (Core.with_q (conns s c) (tl (cqueue (conns s c)))) (Some (next s)) 1.
Definition task_disp (s : st_) (c : nat) (r : res_) : Prop :=
  let '(k, oi, nx, ms) := r in
  head_dispose (cqueue (conns s c)) /\ nx = next s /\ ms = mqsub s /\ oi = cur (conns s c) /\
  ta k = map (fun j => Conv.Dispose upd j true) (Core.insts_of val upd s c) /\ to k = [OConnUnsub c] /\
  cur (tx k) = None /\ direct (tx k) = 0.

Lemma task_shape s c : 
  let r := conn_task s c in let k := fst (fst (fst r)) in
  sync (cv s) k /\ cqueue (tx k) = tl (cqueue (conns s c)) /\ disc (tx k) = disc (conns s c) /\
  (task_plain s c r \/ task_new s c r \/ task_disp s c r).
Proof.
  cbv zeta. destruct (ct_spec s c) as [Eq|id q Eq Ec|id q i Eq Ec|id cnt q i Eq Ec|id cnt q Eq Ec|t q i Eq Ec|t q Eq Ec|i q Eq Eg|i q Eq Eg|i q Eq|q Eq];
    cbn [fst]; rewrite Eq; cbn [tl]; (split; [|split; [|split]]).
  - reflexivity.
  - exact Eq.
  - reflexivity.
  - left. repeat split; constructor.
  - unfold Core.load_access. cbn. reflexivity.
  - unfold Core.load_access. cbn. reflexivity.
  - unfold Core.load_access. cbn. reflexivity.
  - right; left. unfold task_new, Core.load_access. rewrite Eq. cbn. repeat split; auto. exists id, q. reflexivity.
  - eapply sync_ext; [|apply ext_body_req]. reflexivity.
  - rewrite (e_q _ _ _ _ _ (ext_body_req s c (conns s c) id q i)). reflexivity.
  - rewrite (e_disc _ _ _ _ _ (ext_body_req s c (conns s c) id q i)). reflexivity.
  - destruct (shape_ext (cv s) false c i _ _ (ext_body_req s c (conns s c) id q i)) as (A&B&C&D&E); [reflexivity|constructor|constructor|].
    left. repeat split; auto.
  - eapply sync_ext; [|apply ext_body_unsub]. reflexivity.
  - rewrite (e_q _ _ _ _ _ (ext_body_unsub s c (conns s c) id cnt q i)). reflexivity.
  - rewrite (e_disc _ _ _ _ _ (ext_body_unsub s c (conns s c) id cnt q i)). reflexivity.
  - destruct (shape_ext (cv s) false c i _ _ (ext_body_unsub s c (conns s c) id cnt q i)) as (A&B&C&D&E); [reflexivity|constructor|constructor|].
    left. repeat split; auto.
  - reflexivity.
  - reflexivity.
  - reflexivity.
  - left. repeat split; repeat constructor.
  - destruct (tokset (conns s c)); [|reflexivity]. eapply (sync_ext _ false); [|apply x_reacc, ext_refl]. reflexivity.
  - destruct (tokset (conns s c)); [|reflexivity]. rewrite (e_q _ _ _ _ _ (x_reacc false c i _ _ (ext_refl false c i _))). reflexivity.
  - destruct (tokset (conns s c)); [|reflexivity]. rewrite (e_disc _ _ _ _ _ (x_reacc false c i _ _ (ext_refl false c i _))). reflexivity.
  - assert (X : ext false c i (K0 s (xtok (conns s c) q t) (insts s i))
                  (if tokset (conns s c) then reaccess c i (K0 s (xtok (conns s c) q t) (insts s i)) else K0 s (xtok (conns s c) q t) (insts s i))).
    { destruct (tokset (conns s c)); [apply x_reacc|]; apply ext_refl. }
    destruct (shape_ext (cv s) false c i _ _ X) as (A&B&C&D&E); [reflexivity|constructor|constructor|].
    left. repeat split; auto.
  - reflexivity.
  - reflexivity.
  - reflexivity.
  - left. repeat split; constructor.
  - reflexivity.
  - reflexivity.
  - reflexivity.
  - left. repeat split; constructor.
  - eapply sync_ext; [|apply ext_body_access]. reflexivity.
  - rewrite (e_q _ _ _ _ _ (ext_body_access s c (conns s c) q i)). reflexivity.
  - rewrite (e_disc _ _ _ _ _ (ext_body_access s c (conns s c) q i)). reflexivity.
  - destruct (shape_ext (cv s) false c i _ _ (ext_body_access s c (conns s c) q i)) as (A&B&C&D&E); [reflexivity|constructor|constructor|].
    left. repeat split; auto.
  - eapply sync_ext; [|apply ext_body_sub]. apply sync_act. reflexivity.
  - rewrite (e_q _ _ _ _ _ (ext_body_sub s c (conns s c) q i)). reflexivity.
  - rewrite (e_disc _ _ _ _ _ (ext_body_sub s c (conns s c) q i)). reflexivity.
  - destruct (shape_ext (cv s) false c i _ _ (ext_body_sub s c (conns s c) q i)) as (A&B&C&D&E);
      [apply sync_act; reflexivity|repeat constructor|constructor|].
    left. repeat split; auto.
  - unfold body_dispose. cbv zeta. cbn [Core.emit Core.sety Core.ts Core.ta Core.tx Core.to].
    apply sync_acts. reflexivity.
  - unfold body_dispose. cbv zeta. cbn [Core.emit Core.sety Core.ts Core.ta Core.tx Core.to].
    match goal with |- context [fold_left actk ?l ?k0] => destruct (acts_frame l k0) as (S3&S4&S5) end. rewrite S3. reflexivity.
  - unfold body_dispose. cbv zeta. cbn [Core.emit Core.sety Core.ts Core.ta Core.tx Core.to].
    match goal with |- context [fold_left actk ?l ?k0] => destruct (acts_frame l k0) as (S3&S4&S5) end. rewrite S3. reflexivity.
  - right; right. unfold task_disp, body_dispose. cbv zeta. cbn [Core.emit Core.sety Core.ts Core.ta Core.tx Core.to].
    match goal with |- context [fold_left actk ?l ?k0] => pose proof (acts_ta l k0) as S2; destruct (acts_frame l k0) as (S3&S4&S5) end.
    rewrite S2, S3, S5, Eq. cbn. repeat split; auto. eexists; reflexivity.
Qed.

Lemma step_conn_empty s c : cqueue (conns s c) = [] -> step s (Core.GrantConn upd c) = (s, []).
Proof. intros E. unfold Core.step. rewrite E. reflexivity. Qed.
Lemma step_conn s c : cqueue (conns s c) <> [] ->
  step s (Core.GrantConn upd c) =
  let '(k, oi, nx, ms) := conn_task s c in
  ({| Core.cv := ts k; Core.conns := Core.set_conn (conns s) c (tx k);
      Core.insts := match oi with Some i => Core.set_inst (insts s) i (ty k) | None => insts s end;
      Core.next := nx; Core.mqsub := ms; Core.getreq := getreq s |}, to k).
Proof.
  intros Hne. unfold Core.step. destruct (cqueue (conns s c)) as [|it q] eqn:Eq; [contradiction|].
  cbn [Core.acts_of]. destruct (task_shape s c) as (Hs&_). cbv zeta in Hs. unfold sync in Hs.
  destruct (conn_task s c) as [[[k oi] nx] ms]. cbn [fst] in *. rewrite <- Hs. reflexivity.
Qed.

(* ---------------- what an action adds to the resource's queue ---------------- *)
Notation eitem_ := (Conv.eitem val upd).
Definition intro_by (a : act_) (it : eitem_) : Prop :=
  match a with
  | Conv.SvcUpdate _ u => it = Conv.IEvent val upd u
  | Conv.SvcCustom _ => it = Conv.ICustom val upd
  | Conv.SvcAnswer _ => exists v, it = Conv.IGetResp val upd v
  | Conv.SvcNop _ n => it = Conv.INop val upd n
  | Conv.SvcReacc _ => it = Conv.IReacc val upd
  | Conv.Subscribe _ k => it = Conv.IAddSub val upd k
  | Conv.Dispose _ k _ | Conv.RunC _ k => it = Conv.IRemSub val upd k
  | Conv.RunE _ => exists k, it = Conv.IRemSub val upd k
  | _ => False
  end.
Lemma in_snoc {A} (x y : A) l : In x (l ++ [y]) -> In x l \/ x = y.
Proof. intros H. apply in_app_or in H. destruct H as [H|[H|[]]]; auto. Qed.
Lemma qe_step σ a it : In it (cqe (cstep σ a)) -> In it (cqe σ) \/ intro_by a it.
Proof.
  destruct a as [u| | |n| |k|k cl| |k|k n|k n|k]; cbn [Conv.step intro_by].
  - cbn [Conv.qe]. intros H. apply in_snoc in H. tauto.
  - cbn [Conv.qe]. intros H. apply in_snoc in H. tauto.
  - destruct (Conv.answered val upd σ); [auto|]. cbn [Conv.qe]. intros H. apply in_snoc in H. destruct H as [H|H]; [auto|right; eexists; exact H].
  - cbn [Conv.qe]. intros H. apply in_snoc in H. tauto.
  - cbn [Conv.qe]. intros H. apply in_snoc in H. tauto.
  - destruct (ssubscribed (csubs σ k)); [auto|]. cbn [Conv.qe]. intros H. apply in_snoc in H. tauto.
  - destruct (sgone (csubs σ k)); [destruct cl; cbn [Conv.qe]; auto|]. cbn [Conv.qe]. destruct (sloaded (csubs σ k)); [|auto].
    intros H. apply in_snoc in H. tauto.
  - destruct (cqe σ) as [|[u| |v|k|k| |n] q] eqn:Eq; cbn [Conv.qe].
    + intros H. rewrite Eq in H. destruct H.
    + destruct (Conv.rs_loaded val upd σ); [destruct (norm u (Conv.rs_val val upd σ))|]; cbn [Conv.qe]; intros H; left; right; exact H.
    + intros H; left; right; exact H.
    + intros H. apply in_app_or in H. destruct H as [H|H]; [left; right; exact H|]. right.
      unfold Conv.refused in H. apply in_map_iff in H. destruct H as (x & E & _). exists x. symmetry. exact E.
    + destruct (Conv.rs_loaded val upd σ && sclosed (csubs σ k)); intros H; [|left; right; exact H].
      apply in_snoc in H. destruct H as [H|H]; [left; right; exact H|right; eexists; exact H].
    + intros H; left; right; exact H.
    + intros H; left; right; exact H.
    + intros H; left; right; exact H.
  - destruct (scq (csubs σ k)) as [|[|e|] q]; [auto|destruct (sgone (csubs σ k))| |]; cbn [Conv.qe]; auto.
    intros H. apply in_snoc in H. tauto.
  - destruct (_ && _); cbn [Conv.qe]; auto.
  - destruct (_ && _); cbn [Conv.qe]; auto.
  - destruct (_ && _); cbn [Conv.qe]; auto.
Qed.
Lemma qe_steps acts : forall σ it, In it (cqe (fold_left cstep acts σ)) -> In it (cqe σ) \/ exists a, In a acts /\ intro_by a it.
Proof.
  induction acts as [|a acts IH]; intros σ it H; [left; exact H|]. cbn [fold_left] in H.
  apply IH in H. destruct H as [H|(a'&H1&H2)]; [|right; exists a'; split; [right; exact H1|exact H2]].
  apply qe_step in H. destruct H as [H|H]; [left; exact H|right; exists a; split; [left; reflexivity|exact H]].
Qed.
Lemma add_steps acts σ j : In (Conv.IAddSub val upd j) (cqe (fold_left cstep acts σ)) ->
  In (Conv.IAddSub val upd j) (cqe σ) \/ In (Conv.Subscribe upd j) acts.
Proof.
  intros H. apply qe_steps in H. destruct H as [H|(a&H1&H2)]; [left; exact H|right].
  destruct a as [u| | |n| |k|k cl| |k|k n|k n|k]; cbn [intro_by] in H2; try discriminate H2; try contradiction.
  - destruct H2 as [v H2]. discriminate H2.
  - injection H2 as ->. exact H1.
  - destruct H2 as [v H2]. discriminate H2.
Qed.
Lemma nop_steps acts σ i : In (Conv.INop val upd i) (cqe (fold_left cstep acts σ)) ->
  In (Conv.INop val upd i) (cqe σ) \/ In (Conv.SvcNop upd i) acts.
Proof.
  intros H. apply qe_steps in H. destruct H as [H|(a&H1&H2)]; [left; exact H|right].
  destruct a as [u| | |n| |k|k cl| |k|k n|k n|k]; cbn [intro_by] in H2; try discriminate H2; try contradiction.
  - destruct H2 as [v H2]. discriminate H2.
  - injection H2 as ->. exact H1.
  - destruct H2 as [v H2]. discriminate H2.
Qed.

(* ================= A: one get request, under the subscription ================= *)
Notation isget := (Core.is_getreq val upd).
Notation issub := (Core.is_mqsub val upd).
Notation cnt_get := (Core.count_out val upd (Core.is_getreq val upd)).
Notation cnt_sub := (Core.count_out val upd (Core.is_mqsub val upd)).

Definition plain (o : out_) : Prop := isget o = false /\ issub o = false.

Lemma count_app (f : out_ -> bool) l1 l2 : Core.count_out val upd f (l1 ++ l2) = Core.count_out val upd f l1 + Core.count_out val upd f l2.
Proof. unfold Core.count_out. rewrite filter_app, app_length. reflexivity. Qed.
Lemma count_plain l : Forall plain l -> cnt_get l = 0 /\ cnt_sub l = 0.
Proof.
  induction 1 as [|x l [Hg Hs] _ [IH1 IH2]]; [split; reflexivity|].
  unfold Core.count_out in *. cbn [filter]. rewrite Hg, Hs. split; assumption.
Qed.
Lemma split_in {A} (outs o pre post : list A) x : outs ++ o = pre ++ x :: post ->
  (exists post', outs = pre ++ x :: post') \/ (exists l post', pre = outs ++ l /\ o = l ++ x :: post').
Proof.
  intros H. apply app_eq_app in H. destruct H as [l [[H1 H2]|[H1 H2]]].
  - destruct l as [|y l].
    + right. exists [], post. rewrite app_nil_r in H1. subst. split; [rewrite app_nil_r; reflexivity|]. cbn in H2. symmetry. exact H2.
    + cbn in H2. injection H2 as <- H2. left. exists l. exact H1.
  - right. exists l, post. split; assumption.
Qed.
Lemma tout_plain c oi o : tout c oi o -> plain o.
Proof. destruct o; cbn [tout]; try contradiction; intros; split; reflexivity. Qed.

Record GO (s : st_) (outs : list out_) : Prop := {
  g_get : cnt_get outs = Conv.b2n (getreq s);
  g_sub : cnt_sub outs = Conv.b2n (mqsub s);
  g_gs : getreq s = true -> mqsub s = true;
  g_pre : forall pre o post, outs = pre ++ o :: post -> isget o = true -> cnt_sub pre = 1;
  g_0 : mqsub s = false -> next s = 0 /\ forall j, ~ In (Conv.IAddSub val upd j) (cqe (cv s)) }.

Lemma go_frame s outs s' o : GO s outs -> Forall plain o -> getreq s' = getreq s -> mqsub s' = mqsub s ->
  (mqsub s = false -> next s' = 0 /\ forall j, ~ In (Conv.IAddSub val upd j) (cqe (cv s'))) ->
  GO s' (outs ++ o).
Proof.
  intros [H1 H2 H3 H4 H5] Hp Eg Em H0. destruct (count_plain o Hp) as [Cg Cs].
  constructor.
  - rewrite count_app, Cg, Eg, H1. lia.
  - rewrite count_app, Cs, Em, H2. lia.
  - rewrite Eg, Em. exact H3.
  - intros pre x post E Hx. apply split_in in E. destruct E as [[post' E]|(l & post' & E1 & E2)].
    + eapply H4; eassumption.
    + exfalso. rewrite Forall_forall in Hp. destruct (Hp x) as [Hg _]; [rewrite E2; apply in_or_app; right; left; reflexivity|]. congruence.
  - rewrite Em. exact H0.
Qed.
Lemma go_frame2 s outs s' o acts : GO s outs -> Forall plain o -> getreq s' = getreq s -> mqsub s' = mqsub s -> next s' = next s ->
  cv s' = fold_left cstep acts (cv s) -> (forall j, ~ In (Conv.Subscribe upd j) acts) -> GO s' (outs ++ o).
Proof.
  intros H Hp Eg Em En Ec Ha. apply (go_frame s); auto. intros Hm. destruct (g_0 _ _ H Hm) as [A B]. split; [congruence|].
  intros j Hin. rewrite Ec in Hin. apply add_steps in Hin. destruct Hin as [Hin|Hin]; [exact (B j Hin)|exact (Ha j Hin)].
Qed.

Lemma go_step s outs o : GO s outs -> GO (fst (step s o)) (outs ++ snd (step s o)).
Proof.
  intros H. destruct o as [c id|c id k|c|c t|i g| |u| | | |c].
  - unfold Core.step. destruct (disc (conns s c)); cbn [fst snd]; [rewrite app_nil_r; exact H|].
    eapply (go_frame2 s outs _ _ []); [exact H|constructor|reflexivity|reflexivity|reflexivity|reflexivity|intros j []].
  - unfold Core.step. destruct (disc (conns s c)); cbn [fst snd]; [rewrite app_nil_r; exact H|].
    eapply (go_frame2 s outs _ _ []); [exact H|constructor|reflexivity|reflexivity|reflexivity|reflexivity|intros j []].
  - unfold Core.step. destruct (disc (conns s c)); cbn [fst snd]; [rewrite app_nil_r; exact H|].
    eapply (go_frame2 s outs _ _ []); [exact H|constructor|reflexivity|reflexivity|reflexivity|reflexivity|intros j []].
  - unfold Core.step. destruct (Core.is_done (conns s c)); cbn [fst snd]; [rewrite app_nil_r; exact H|].
    eapply (go_frame2 s outs _ _ []); [exact H|constructor|reflexivity|reflexivity|reflexivity|reflexivity|intros j []].
  - unfold Core.step. cbn [Core.acts_of]. destruct (Nat.ltb i (next s) && Core.unanswered (insts s i)); cbn [fst snd]; [|rewrite app_nil_r; exact H].
    eapply (go_frame2 s outs _ _ [Conv.SvcNop upd i]); [exact H|constructor|reflexivity|reflexivity|reflexivity|reflexivity|].
    intros j [E|[]]. discriminate E.
  - unfold Core.step. cbn [fst snd]. eapply (go_frame2 s outs); [exact H|constructor|reflexivity|reflexivity|reflexivity|reflexivity|].
    cbn [Core.acts_of]. intros j Hin. destruct (_ && _); [destruct Hin as [E|[]]; discriminate E|destruct Hin].
  - unfold Core.step. cbn [fst snd]. eapply (go_frame2 s outs); [exact H|constructor|reflexivity|reflexivity|reflexivity|reflexivity|].
    cbn [Core.acts_of]. intros j Hin. destruct (mqsub s); [destruct Hin as [E|[]]; discriminate E|destruct Hin as [E|[E|[]]]; discriminate E].
  - unfold Core.step. cbn [fst snd]. eapply (go_frame2 s outs); [exact H|constructor|reflexivity|reflexivity|reflexivity|reflexivity|].
    cbn [Core.acts_of]. intros j Hin. destruct (mqsub s); [destruct Hin as [E|[]]; discriminate E|destruct Hin as [E|[E|[]]]; discriminate E].
  - unfold Core.step. cbn [fst snd]. eapply (go_frame2 s outs); [exact H|constructor|reflexivity|reflexivity|reflexivity|reflexivity|].
    cbn [Core.acts_of]. intros j Hin. destruct (mqsub s); [destruct Hin as [E|[]]; discriminate E|destruct Hin as [E|[E|[]]]; discriminate E].
  - (* GrantEs *)
    pose proof H as [H1 H2 H3 H4 H5]. unfold Core.step. cbn [fst snd Core.acts_of].
    destruct (Core.is_add_head val upd (cv s)) eqn:Eh.
    + assert (Hm : mqsub s = true).
      { destruct (mqsub s) eqn:Em; [reflexivity|]. destruct (H5 eq_refl) as (A&B). unfold Core.is_add_head in Eh.
        destruct (cqe (cv s)) as [|[u| |v|k|k| |n] q] eqn:Eq; try discriminate Eh. exfalso. apply (B k). left; reflexivity. }
      destruct (getreq s) eqn:Eg; cbn [andb negb orb].
      * apply (go_frame s); [exact H|constructor|cbn [Core.getreq]; symmetry; exact Eg|reflexivity|].
        intros Hm'. congruence.
      * constructor; cbn [Core.getreq Core.mqsub].
        -- rewrite count_app, H1. reflexivity.
        -- rewrite count_app, H2. cbn. lia.
        -- intros _. exact Hm.
        -- intros pre x post E Hx. apply split_in in E. destruct E as [[post' E]|(l & post' & E1 & E2)].
           ++ eapply H4; eassumption.
           ++ destruct l as [|y l]; [|destruct l; discriminate E2]. rewrite app_nil_r in E1. subst pre. rewrite H2, Hm. reflexivity.
        -- intros Hm'. congruence.
    + cbn [andb orb]. eapply (go_frame2 s outs _ _ [Conv.RunE upd]); [exact H|constructor|cbn [Core.getreq]; apply orb_false_r|reflexivity|reflexivity|reflexivity|].
      intros j [E|[]]. discriminate E.
  - (* GrantConn *)
    destruct (cqueue (conns s c)) as [|it q] eqn:Eq; [rewrite step_conn_empty by exact Eq; cbn [fst snd]; rewrite app_nil_r; exact H|].
    rewrite step_conn by (rewrite Eq; discriminate).
    destruct (task_shape s c) as (Hs&_&_&Hc). cbv zeta in Hs, Hc. unfold sync in Hs.
    destruct (conn_task s c) as [[[k oi] nx] ms]. cbn [fst snd] in *.
    destruct Hc as [(A1&A2&A3&A4)|[(_&A1&A2&A3&A4&A5&A6&A7)|((q'&A0)&A1&A2&A3&A4&A5&A6)]].
    + subst nx ms. apply (go_frame2 s outs _ _ (ta k)); auto.
      * eapply Forall_impl; [|exact A4]. apply tout_plain.
      * intros j Hin. rewrite Forall_forall in A3. apply A3 in Hin. exact Hin.
    + subst nx ms. pose proof H as [H1 H2 H3 H4 H5]. rewrite A6. destruct (mqsub s) eqn:Em.
      * apply (go_frame s); [exact H|repeat constructor|reflexivity|cbn [Core.mqsub]; congruence|intros Hm'; congruence].
      * constructor; cbn [Core.getreq Core.mqsub].
        -- rewrite count_app, H1. cbn. lia.
        -- rewrite count_app, H2. reflexivity.
        -- reflexivity.
        -- intros pre x post E Hx. apply split_in in E. destruct E as [[post' E]|(l & post' & E1 & E2)].
           ++ eapply H4; eassumption.
           ++ exfalso. assert (Hin : In x ([OMqSub] ++ [OAccessReq c (next s) (tok (conns s c))])) by (rewrite E2; apply in_or_app; right; left; reflexivity).
              cbn in Hin. destruct Hin as [<-|[<-|[]]]; discriminate Hx.
        -- discriminate.
    + subst nx ms. rewrite A5. apply (go_frame2 s outs _ _ (ta k)); auto.
      * repeat constructor.
      * rewrite A4. intros j Hin. apply in_map_iff in Hin. destruct Hin as (x&E&_). discriminate E.
Qed.

Lemma go_init t : GO (Core.init val upd d t) [].
Proof.
  constructor; cbn; try reflexivity; auto.
  - intros pre o post E. destruct pre; discriminate E.
Qed.
Lemma go_exec t ops : GO (fst (exec t ops)) (snd (exec t ops)).
Proof. apply exec_ind; [apply go_init|]. intros ops' o s outs H. apply go_step, H. Qed.

Theorem core_get_once_under_subscription : forall t ops,
  let outs := snd (exec t ops) in
  Core.count_out val upd (Core.is_getreq val upd) outs <= 1 /\
  Core.count_out val upd (Core.is_mqsub val upd) outs <= 1 /\
  forall pre o post, outs = pre ++ o :: post -> Core.is_getreq val upd o = true ->
    Core.count_out val upd (Core.is_mqsub val upd) pre = 1.
Proof.
  intros t ops outs. destruct (go_exec t ops) as [H1 H2 H3 H4 H5]. fold outs in H1, H2, H4.
  split; [rewrite H1; apply Conv.b2n_le|]. split; [rewrite H2; apply Conv.b2n_le|]. exact H4.
Qed.

(* ================= frame lemmas about Conv actions ================= *)
Definition tgt (a : act_) : option nat :=
  match a with
  | Conv.Subscribe _ k | Conv.Dispose _ k _ | Conv.RunC _ k | Conv.Respond _ k _ | Conv.Unqueue _ k _ | Conv.StartQueue _ k => Some k
  | _ => None
  end.

Lemma subs_other σ a j : tgt a <> Some j -> a <> Conv.RunE upd -> csubs (cstep σ a) j = csubs σ j.
Proof.
  intros Ht Hr. destruct a as [u| | |n| |k|k cl| |k|k n|k n|k]; cbn [tgt] in Ht; cbn [Conv.step]; try reflexivity.
  - destruct (Conv.answered val upd σ); reflexivity.
  - destruct (ssubscribed (csubs σ k)); [reflexivity|]. cbn [Conv.subs]. apply Conv.set_sub_neq. congruence.
  - destruct (sgone (csubs σ k)); [destruct cl|]; cbn [Conv.subs]; try reflexivity; apply Conv.set_sub_neq; congruence.
  - contradiction.
  - destruct (scq (csubs σ k)) as [|[|e|] q]; [reflexivity|destruct (sgone (csubs σ k))| |]; cbn [Conv.subs]; apply Conv.set_sub_neq; congruence.
  - destruct (sloaded (csubs σ k) && negb (ssent (csubs σ k))); [|reflexivity]. cbn [Conv.subs]. apply Conv.set_sub_neq; congruence.
  - destruct (sloaded (csubs σ k) && ssent (csubs σ k) && sflag (csubs σ k)); [|reflexivity]. cbn [Conv.subs]. apply Conv.set_sub_neq; congruence.
  - destruct (sloaded (csubs σ k) && ssent (csubs σ k)); [|reflexivity]. cbn [Conv.subs]. apply Conv.set_sub_neq; congruence.
Qed.
Lemma subs_others σ acts j : Forall (fun a => tgt a <> Some j /\ a <> Conv.RunE upd) acts ->
  csubs (fold_left cstep acts σ) j = csubs σ j.
Proof.
  revert σ. induction acts as [|a acts IH]; intros σ H; [reflexivity|]. cbn [fold_left].
  inversion H as [|? ? [H1 H2] H3]; subst. rewrite IH by assumption. apply subs_other; assumption.
Qed.

(* the cache worker only appends to the connection queues *)
Lemma rune_fields σ j :
  let x := csubs σ j in let x' := csubs (cstep σ (Conv.RunE upd)) j in
  ssubscribed x' = ssubscribed x /\ sloaded x' = sloaded x /\ ssver x' = ssver x /\ ssval x' = ssval x /\
  sflag x' = sflag x /\ seq_ x' = seq_ x /\ ssent x' = ssent x /\ sgone x' = sgone x /\ sclosed x' = sclosed x /\
  (scq x' = scq x \/ exists it, scq x' = scq x ++ [it]).
Proof.
  cbn zeta. cbn [Conv.step].
  assert (PA : forall it, let x' := Conv.push_all val upd (csubs σ) (Conv.rs_subs val upd σ) it j in
    ssubscribed x' = ssubscribed (csubs σ j) /\ sloaded x' = sloaded (csubs σ j) /\ ssver x' = ssver (csubs σ j) /\ ssval x' = ssval (csubs σ j) /\
    sflag x' = sflag (csubs σ j) /\ seq_ x' = seq_ (csubs σ j) /\ ssent x' = ssent (csubs σ j) /\ sgone x' = sgone (csubs σ j) /\ sclosed x' = sclosed (csubs σ j) /\
    (scq x' = scq (csubs σ j) \/ exists it, scq x' = scq (csubs σ j) ++ [it])).
  { intros it. cbn zeta. unfold Conv.push_all. destruct (_ && _);
      cbn [Conv.push_c Conv.subscribed Conv.loaded Conv.sver Conv.sval Conv.flag Conv.eq Conv.sent Conv.gone Conv.closed Conv.cq];
      repeat split; [right; eexists; reflexivity|left; reflexivity]. }
  assert (ID : let x := csubs σ j in ssubscribed x = ssubscribed x /\ sloaded x = sloaded x /\ ssver x = ssver x /\ ssval x = ssval x /\
    sflag x = sflag x /\ seq_ x = seq_ x /\ ssent x = ssent x /\ sgone x = sgone x /\ sclosed x = sclosed x /\
    (scq x = scq x \/ exists it, scq x = scq x ++ [it])) by (cbn zeta; repeat split; left; reflexivity).
  destruct (cqe σ) as [|[u| |v|k|k| |n] q]; cbn [Conv.subs]; try exact ID.
  - destruct (Conv.rs_loaded val upd σ); [|exact ID]. destruct (norm u (Conv.rs_val val upd σ)); cbn [Conv.subs]; [apply PA|exact ID].
  - destruct (Conv.rs_loaded val upd σ); [apply PA|exact ID].
  - apply PA.
  - destruct (Conv.rs_loaded val upd σ && negb (sclosed (csubs σ k))); [|exact ID].
    unfold Conv.set_sub. destruct (Nat.eqb j k) eqn:E; [|exact ID]. apply Nat.eqb_eq in E. subst k.
    cbn [Conv.push_c Conv.subscribed Conv.loaded Conv.sver Conv.sval Conv.flag Conv.eq Conv.sent Conv.gone Conv.closed Conv.cq].
    repeat split. right. eexists; reflexivity.
  - apply PA.
Qed.

Lemma mem_false_fresh σ j : CInv σ -> ssubscribed (csubs σ j) = false -> Conv.mem j (Conv.rs_subs val upd σ) = false.
Proof.
  intros H Hs. pose proof (Conv.i3g _ _ _ _ H j) as H3. rewrite Hs in H3. cbn [Conv.b2n] in H3.
  destruct (Conv.mem j (Conv.rs_subs val upd σ)); [cbn in H3; lia|reflexivity].
Qed.

Lemma rune_cq_fresh σ j : CInv σ -> ssubscribed (csubs σ j) = false -> scq (csubs (cstep σ (Conv.RunE upd)) j) = scq (csubs σ j).
Proof.
  intros H Hs. pose proof (mem_false_fresh σ j H Hs) as Hm.
  assert (PA : forall it, scq (Conv.push_all val upd (csubs σ) (Conv.rs_subs val upd σ) it j) = scq (csubs σ j)).
  { intros it. unfold Conv.push_all. rewrite Hm. reflexivity. }
  cbn [Conv.step]. destruct (cqe σ) as [|[u| |v|k|k| |n] q] eqn:Eq; cbn [Conv.subs]; try reflexivity.
  - destruct (Conv.rs_loaded val upd σ); [|reflexivity]. destruct (norm u (Conv.rs_val val upd σ)); cbn [Conv.subs]; [apply PA|reflexivity].
  - destruct (Conv.rs_loaded val upd σ); [apply PA|reflexivity].
  - apply PA.
  - destruct (Conv.rs_loaded val upd σ && negb (sclosed (csubs σ k))); [|reflexivity].
    unfold Conv.set_sub. destruct (Nat.eqb_spec j k) as [->|Hne]; [|reflexivity]. exfalso.
    pose proof (Conv.i3g _ _ _ _ H k) as H3. rewrite Eq, Hs, Conv.cnt_cons in H3. cbn [Conv.is_add] in H3. rewrite Nat.eqb_refl in H3. cbn in H3. lia.
  - apply PA.
Qed.

(* ---------------- what the actions of a subscription do to its record ---------------- *)
Lemma gone_step σ a j :
  sgone (csubs (cstep σ a) j) = match a with Conv.Dispose _ k _ => Nat.eqb j k || sgone (csubs σ j) | _ => sgone (csubs σ j) end.
Proof.
  destruct a as [u| | |n| |k|k cl| |k|k n|k n|k];
    try (rewrite subs_other by (cbn [tgt]; congruence); reflexivity).
  - (* Subscribe *) destruct (Nat.eqb_spec j k) as [->|Hne]; [|rewrite subs_other by (cbn [tgt]; congruence); reflexivity].
    cbn [Conv.step]. destruct (ssubscribed (csubs σ k)); [reflexivity|]. cbn [Conv.subs]. rewrite Conv.set_sub_eq. reflexivity.
  - (* Dispose *) destruct (Nat.eqb_spec j k) as [->|Hne]; [|rewrite subs_other by (cbn [tgt]; congruence); reflexivity].
    cbn [Conv.step orb]. destruct (sgone (csubs σ k)) eqn:Eg; [destruct cl|]; cbn [Conv.subs]; rewrite ?Conv.set_sub_eq; cbn [Conv.dispose Conv.gone]; auto.
  - (* RunE *) destruct (rune_fields σ j) as (_&_&_&_&_&_&_&G&_). exact G.
  - (* RunC *) destruct (Nat.eqb_spec j k) as [->|Hne]; [|rewrite subs_other by (cbn [tgt]; congruence); reflexivity].
    cbn [Conv.step]. destruct (scq (csubs σ k)) as [|[|e|] q]; [reflexivity|destruct (sgone (csubs σ k)) eqn:Eg| |]; cbn [Conv.subs]; rewrite Conv.set_sub_eq; cbn [Conv.gone]; auto.
    destruct (negb (sloaded (csubs σ k))); [reflexivity|]. destruct (sflag (csubs σ k)); [reflexivity|].
    destruct (Conv.proc val upd app (ssver (csubs σ k), ssval (csubs σ k)) e). reflexivity.
  - (* Respond *) destruct (Nat.eqb_spec j k) as [->|Hne]; [|rewrite subs_other by (cbn [tgt]; congruence); reflexivity].
    cbn [Conv.step]. destruct (_ && _); [|reflexivity]. cbn [Conv.subs]. rewrite Conv.set_sub_eq.
    match goal with |- sgone (Conv.drain val upd app ?x n) = _ => destruct (Conv.drain_fields val upd app x n) as (_&_&_&_&_&_&G&_); rewrite G end. reflexivity.
  - destruct (Nat.eqb_spec j k) as [->|Hne]; [|rewrite subs_other by (cbn [tgt]; congruence); reflexivity].
    cbn [Conv.step]. destruct (_ && _); [|reflexivity]. cbn [Conv.subs]. rewrite Conv.set_sub_eq.
    match goal with |- sgone (Conv.drain val upd app ?x n) = _ => destruct (Conv.drain_fields val upd app x n) as (_&_&_&_&_&_&G&_); rewrite G end. reflexivity.
  - destruct (Nat.eqb_spec j k) as [->|Hne]; [|rewrite subs_other by (cbn [tgt]; congruence); reflexivity].
    cbn [Conv.step]. destruct (_ && _); [|reflexivity]. cbn [Conv.subs]. rewrite Conv.set_sub_eq. reflexivity.
Qed.

Definition fresh (σ : cst) (i : nat) : Prop :=
  ssubscribed (csubs σ i) = false /\ ssent (csubs σ i) = false /\ sgone (csubs σ i) = false /\ scq (csubs σ i) = [].

Lemma fresh_step σ a i : CInv σ -> tgt a <> Some i -> fresh σ i -> fresh (cstep σ a) i.
Proof.
  intros H Ht (A&B&C&D).
  assert (Hr : a = Conv.RunE upd \/ a <> Conv.RunE upd) by (destruct a; auto; right; discriminate).
  destruct Hr as [->|Hr].
  - destruct (rune_fields σ i) as (A'&_&_&_&_&_&B'&C'&_). unfold fresh. rewrite A', B', C', (rune_cq_fresh σ i H A). auto.
  - unfold fresh. rewrite subs_other by assumption. auto.
Qed.
Lemma fresh_steps acts : forall σ i, CInv σ -> Forall (fun a => tgt a <> Some i) acts -> fresh σ i -> fresh (fold_left cstep acts σ) i.
Proof.
  induction acts as [|a acts IH]; intros σ i H Ha Hf; [exact Hf|]. cbn [fold_left]. inversion Ha; subst.
  apply IH; [apply cstep_inv, H|assumption|apply fresh_step; assumption].
Qed.
Lemma gone_steps acts : forall σ j, Forall (fun a => forall k cl, a = Conv.Dispose upd k cl -> k <> j) acts ->
  sgone (csubs (fold_left cstep acts σ) j) = sgone (csubs σ j).
Proof.
  induction acts as [|a acts IH]; intros σ j Ha; [reflexivity|]. cbn [fold_left]. inversion Ha as [|? ? H1 H2]; subst.
  rewrite IH by assumption. rewrite gone_step. destruct a; try reflexivity.
  assert (Hne : s <> j) by (eapply H1; reflexivity). destruct (Nat.eqb_spec j s); [congruence|reflexivity].
Qed.

(* the actions of a mild handler: StartQueue, Respond, Unqueue *)
Definition is_mild (i : nat) (a : act_) : Prop :=
  match a with Conv.StartQueue _ j | Conv.Respond _ j _ | Conv.Unqueue _ j _ => j = i | _ => False end.
Lemma mild_step σ i a : is_mild i a ->
  let x := csubs σ i in let x' := csubs (cstep σ a) i in
  ssubscribed x' = ssubscribed x /\ sloaded x' = sloaded x /\ scq x' = scq x /\ sgone x' = sgone x /\ sclosed x' = sclosed x /\
  cqe (cstep σ a) = cqe σ.
Proof.
  cbn zeta. destruct a as [u| | |n| |k|k cl| |k|k n|k n|k]; cbn [is_mild]; try contradiction; intros ->; cbn [Conv.step].
  - destruct (_ && _); [|repeat split]. cbn [Conv.subs Conv.qe]. rewrite Conv.set_sub_eq.
    match goal with |- context [Conv.drain val upd app ?x n] => destruct (Conv.drain_fields val upd app x n) as (A&B&C&_&_&_&G&Gc) end.
    rewrite A, B, C, G, Gc. repeat split.
  - destruct (_ && _); [|repeat split]. cbn [Conv.subs Conv.qe]. rewrite Conv.set_sub_eq.
    match goal with |- context [Conv.drain val upd app ?x n] => destruct (Conv.drain_fields val upd app x n) as (A&B&C&_&_&_&G&Gc) end.
    rewrite A, B, C, G, Gc. repeat split.
  - destruct (_ && _); [|repeat split]. cbn [Conv.subs Conv.qe]. rewrite Conv.set_sub_eq. repeat split.
Qed.
Lemma mild_steps la : forall σ i, Forall (is_mild i) la ->
  let x := csubs σ i in let x' := csubs (fold_left cstep la σ) i in
  ssubscribed x' = ssubscribed x /\ sloaded x' = sloaded x /\ scq x' = scq x /\ sgone x' = sgone x /\ sclosed x' = sclosed x /\
  cqe (fold_left cstep la σ) = cqe σ.
Proof.
  induction la as [|a la IH]; intros σ i H; cbn zeta; [repeat split|]. cbn [fold_left]. inversion H as [|? ? H1 H2]; subst.
  destruct (IH (cstep σ a) i H2) as (A&B&C&D&E&F). destruct (mild_step σ i a H1) as (A'&B'&C'&D'&E'&F'). cbn zeta in *.
  rewrite A, B, C, D, E, F. repeat split; assumption.
Qed.
Lemma hact_mild i a : hact true i a -> is_mild i a.
Proof. destruct a; cbn [hact is_mild]; auto. intros (_&_&X). discriminate X. Qed.

(* what a mild handler leaves alone *)
Lemma ext_mild c i k k' : ext true c i k k' ->
  tx k' = tx k /\ gone_ i k' = gone_ i k /\ loaded_ i k' = loaded_ i k /\ scq (me i k') = scq (me i k) /\ cqe (ts k') = cqe (ts k).
Proof.
  intros [(la&A1&A2&A3) _ T _ _ _ _ _]. split; [apply T; reflexivity|].
  assert (Hm : Forall (is_mild i) la) by (eapply Forall_impl; [|exact A3]; apply hact_mild).
  destruct (mild_steps la (ts k) i Hm) as (A&B&C&D&E&F). cbn zeta in *.
  unfold Core.gone_, Core.loaded_, Core.me. rewrite A2. auto.
Qed.

(* ================= the subscription a task serves and the connection's record ================= *)
Definition SH (i : nat) (k : tk_) : Prop :=
  (gone_ i k = false /\ cur (tx k) = Some i /\ 0 < direct (tx k)) \/ (gone_ i k = true /\ cur (tx k) = None /\ direct (tx k) = 0).

Lemma gone_act i k a :
  gone_ i (actk k a) = match a with Conv.Dispose _ j _ => Nat.eqb i j || gone_ i k | _ => gone_ i k end.
Proof. unfold Core.gone_, Core.me. cbn [Core.act Core.ts]. apply gone_step. Qed.

Lemma sh_mild c i k k' : ext true c i k k' -> SH i k -> SH i k'.
Proof. intros He H. destruct (ext_mild c i k k' He) as (A&B&_). unfold SH. rewrite A, B. exact H. Qed.
Lemma sh_emit i k o : SH i k -> SH i (emit k o).
Proof. intros H. exact H. Qed.
Lemma sh_sety i k y : SH i k -> SH i (sety k y).
Proof. intros H. exact H. Qed.

Lemma sh_remove i k n : SH i k -> SH i (remove_direct i k n).
Proof.
  intros H. unfold Core.remove_direct. destruct (Nat.eqb_spec (direct (tx k)) 0) as [E0|E0]; [exact H|]. cbv zeta.
  cbn [Core.setx Core.tx Core.with_cd direct].
  destruct H as [(G&C&D)|(G&C&D)]; [|congruence].
  destruct (Nat.eqb_spec (direct (tx k) - n) 0) as [Ez|Ez].
  - unfold Core.dispose_t.
    change (gone_ i (setx k (Core.with_cd (tx k) (cur (tx k)) (direct (tx k) - n)))) with (gone_ i k). rewrite G. cbv zeta.
    right. cbn [Core.setx Core.sety Core.tx Core.ty Core.with_cd cur direct Core.act].
    split; [|split; [reflexivity|exact Ez]].
    change (gone_ i (actk k (Conv.Dispose upd i false)) = true). rewrite gone_act, Nat.eqb_refl. reflexivity.
  - left. cbn [Core.setx Core.tx Core.with_cd cur direct]. repeat split; [exact G|exact C|lia].
Qed.
Lemma sh_unsubd c i k : SH i k -> SH i (unsubscribe_direct c i k).
Proof. intros H. unfold Core.unsubscribe_direct. destruct (Nat.ltb 0 (direct (tx k))); [|exact H]. apply sh_emit, sh_remove, H. Qed.
Lemma sh_run_cb c i g k b : SH i k -> SH i (run_cb c i g k b).
Proof.
  intros H. unfold Core.run_cb. destruct b as [id|].
  - destruct g.
    + destruct (gone_ i k); [exact H|]. eapply sh_mild; [apply x_ready, ext_refl|exact H].
    + apply sh_remove, sh_emit, H.
  - eapply sh_mild; [apply x_unqueue, ext_refl|]. destruct g; [exact H|apply sh_unsubd, H].
Qed.
Lemma sh_run_cbs c i g l : forall k, SH i k -> SH i (fold_left (run_cb c i g) l k).
Proof. induction l as [|b l IH]; intros k H; [exact H|]. cbn [fold_left]. apply IH, sh_run_cb, H. Qed.

Lemma sh_body_req s c x id q i : sgone (csubs (cv s) i) = false -> SH i (body_req s c x id q i).
Proof.
  intros G. assert (H0 : SH i (K0 s (Core.with_cd (Core.with_q x q) (Some i) (S (direct x))) (insts s i))).
  { left. repeat split; [exact G|cbn; lia]. }
  unfold body_req. cbv zeta. destruct (acc (insts s i)) as [[|]|].
  - eapply sh_mild; [apply x_ready, ext_refl|exact H0].
  - apply sh_remove, sh_emit, H0.
  - eapply sh_mild; [apply x_load, ext_refl|exact H0].
Qed.
Lemma sh_body_unsub s c x id cnt q i : sgone (csubs (cv s) i) = false -> cur x = Some i -> 0 < direct x ->
  SH i (body_unsub s c x id cnt q i).
Proof.
  intros G C D. assert (H0 : SH i (K0 s (Core.with_q x q) (insts s i))) by (left; repeat split; assumption).
  unfold body_unsub. cbv zeta. destruct (Nat.eqb cnt 0); [exact H0|]. destruct (Nat.leb cnt (direct x)); [|exact H0].
  apply sh_remove. destruct (Nat.eqb (direct x - cnt) 0); exact H0.
Qed.
Lemma sh_body_access s c x q i : sgone (csubs (cv s) i) = false -> cur x = Some i -> 0 < direct x ->
  SH i (body_access s c x q i).
Proof.
  intros G C D. assert (H0 : SH i (K0 s (Core.with_q x q) (insts s i))) by (left; repeat split; assumption).
  unfold body_access. cbv zeta. destruct (ans (insts s i)) as [g|]; [|exact H0]. apply sh_run_cbs. exact H0.
Qed.
Lemma sh_body_sub s c x q i : sgone (csubs (cv s) i) = false -> cur x = Some i -> 0 < direct x ->
  SH i (body_sub s c x q i).
Proof.
  intros G C D. assert (H0 : SH i (actk (K0 s (Core.with_q x q) (insts s i)) (Conv.RunC upd i))).
  { left. rewrite gone_act. repeat split; assumption. }
  unfold body_sub. cbv zeta. destruct (scq (csubs (cv s) i)) as [|[|e|] q'].
  - exact H0.
  - rewrite G. eapply sh_mild; [apply x_respond, ext_refl|]. exact H0.
  - exact H0.
  - eapply sh_mild; [apply x_reacc, ext_refl|exact H0].
Qed.

(* ================= structure of the reachable states ================= *)
Definition okitem (s : st_) (c : nat) (it : qitem) : Prop :=
  match it with
  | QReq _ | QUnsub _ _ | QToken _ => True
  | QDispose => disc (conns s c) = true
  | QAccess i | QSub i => i < next s /\ owner (insts s i) = c
  end.

Record WF (s : st_) : Prop := {
  w_cur : forall c i, cur (conns s c) = Some i ->
            i < next s /\ owner (insts s i) = c /\ sgone (csubs (cv s) i) = false /\ 0 < direct (conns s c);
  w_live : forall i, i < next s -> sgone (csubs (cv s) i) = false -> cur (conns s (owner (insts s i))) = Some i;
  w_fresh : forall i, next s <= i -> fresh (cv s) i;
  w_q : forall c it, In it (cqueue (conns s c)) -> okitem s c it;
  w_dir : forall c, cur (conns s c) = None -> direct (conns s c) = 0;
  w_nop : forall i, In (Conv.INop val upd i) (cqe (cv s)) -> i < next s;
  w_ms : mqsub s = false -> next s = 0 }.

Lemma wf_frame s s' : WF s ->
  next s' = next s -> mqsub s' = mqsub s ->
  (forall c, cur (conns s' c) = cur (conns s c)) ->
  (forall c, direct (conns s' c) = direct (conns s c)) ->
  (forall i, owner (insts s' i) = owner (insts s i)) ->
  (forall i, sgone (csubs (cv s') i) = sgone (csubs (cv s) i)) ->
  (forall i, next s <= i -> fresh (cv s) i -> fresh (cv s') i) ->
  (forall c it, In it (cqueue (conns s' c)) -> In it (cqueue (conns s c)) \/ okitem s' c it) ->
  (forall c, disc (conns s c) = true -> disc (conns s' c) = true) ->
  (forall i, In (Conv.INop val upd i) (cqe (cv s')) -> In (Conv.INop val upd i) (cqe (cv s)) \/ i < next s) ->
  WF s'.
Proof.
  intros [W1 W2 W3 W4 W5 W6 W7] En Em Ec Ed Eo Eg Ef Eq Edc Eno.
  constructor.
  - intros c i Hc. rewrite Ec in Hc. rewrite En, Eo, Eg, Ed. apply W1, Hc.
  - intros i Hi Hg. rewrite En in Hi. rewrite Eg in Hg. rewrite Eo, Ec. apply W2; assumption.
  - intros i Hi. rewrite En in Hi. apply Ef; [exact Hi|apply W3, Hi].
  - intros c it Hin. apply Eq in Hin. destruct Hin as [Hin|Hin]; [|exact Hin].
    apply W4 in Hin. destruct it; cbn [okitem] in *; auto; rewrite ?En, ?Eo; auto.
  - intros c Hc. rewrite Ec in Hc. rewrite Ed. apply W5, Hc.
  - intros i Hin. rewrite En. apply Eno in Hin. destruct Hin as [Hin|Hin]; [apply W6, Hin|exact Hin].
  - rewrite Em, En. exact W7.
Qed.

Definition benign (n : nat) (a : act_) : Prop :=
  match a with
  | Conv.Dispose _ _ _ | Conv.Subscribe _ _ | Conv.Unqueue _ _ _ | Conv.StartQueue _ _ | Conv.Respond _ _ _ => False
  | Conv.RunC _ j => j < n
  | Conv.SvcNop _ i => i < n
  | _ => True
  end.

Lemma benign_steps n acts : forall σ, CInv σ -> Forall (benign n) acts ->
  let σ' := fold_left cstep acts σ in
  (forall i, sgone (csubs σ' i) = sgone (csubs σ i)) /\
  (forall i, n <= i -> fresh σ i -> fresh σ' i) /\
  (forall i, In (Conv.INop val upd i) (cqe σ') -> In (Conv.INop val upd i) (cqe σ) \/ i < n).
Proof.
  induction acts as [|a acts IH]; intros σ H Hb; cbn [fold_left]; cbn zeta.
  - split; [reflexivity|split; [intros i _ Hf; exact Hf|intros i Hin; left; exact Hin]].
  - inversion Hb as [|? ? Ha Hb']; subst. destruct (IH (cstep σ a) (cstep_inv σ a H) Hb') as (G&F&N). cbn zeta in *.
    split; [|split].
    + intros i. rewrite G, gone_step. destruct a; try reflexivity. destruct Ha.
    + intros i Hi Hf. apply F; [exact Hi|]. apply fresh_step; [exact H| |exact Hf].
      destruct a; cbn [tgt benign] in *; try discriminate; try contradiction; intros E; injection E as ->; lia.
    + intros i Hin. apply N in Hin. destruct Hin as [Hin|Hin]; [|right; exact Hin].
      apply (nop_steps [a]) in Hin. destruct Hin as [Hin|[Hin|[]]]; [left; exact Hin|right]. subst a. exact Ha.
Qed.

Ltac conn_at c' c := unfold Core.set_conn; destruct (Nat.eqb_spec c' c) as [->|?];
  cbn [Core.push_q Core.with_q Core.with_cd xtok cur direct disc cqueue tokset tok].
Ltac inst_at j i := unfold Core.set_inst; destruct (Nat.eqb_spec j i) as [->|?];
  cbn [Core.upd_y owner acb rcb acc inflight ans reflag rq lost].

Lemma existsb_eqb_false j l : (forall x, In x l -> x <> j) -> existsb (Nat.eqb j) l = false.
Proof.
  intros H. destruct (existsb (Nat.eqb j) l) eqn:E; [|reflexivity]. apply existsb_exists in E. destruct E as (x & Hx & E).
  apply Nat.eqb_eq in E. subst x. exfalso. exact (H j Hx eq_refl).
Qed.
Lemma existsb_eqb_true j l : In j l -> existsb (Nat.eqb j) l = true.
Proof. intros H. apply existsb_exists. exists j. split; [exact H|apply Nat.eqb_refl]. Qed.

Lemma dispose_list cl l : forall σ, CInv σ ->
  let σ' := fold_left cstep (map (fun i => Conv.Dispose upd i cl) l) σ in
  (forall j, sgone (csubs σ' j) = existsb (Nat.eqb j) l || sgone (csubs σ j)) /\
  (forall j, ~ In j l -> fresh σ j -> fresh σ' j) /\
  (forall k, In (Conv.INop val upd k) (cqe σ') -> In (Conv.INop val upd k) (cqe σ)).
Proof.
  induction l as [|a l IH]; intros σ H; cbn [map fold_left]; cbn zeta.
  - split; [reflexivity|split; auto].
  - destruct (IH (cstep σ (Conv.Dispose upd a cl)) (cstep_inv _ _ H)) as (G&F&N). cbn zeta in *. split; [|split].
    + intros j. rewrite G, gone_step. cbn [existsb]. destruct (Nat.eqb j a), (existsb (Nat.eqb j) l), (sgone (csubs σ j)); reflexivity.
    + intros j Hn Hf. apply F; [intros Hin; apply Hn; right; exact Hin|].
      apply fresh_step; [exact H|cbn [tgt]; intros E; injection E as ->; apply Hn; left; reflexivity|exact Hf].
    + intros k Hin. apply N in Hin. apply (nop_steps [_]) in Hin. destruct Hin as [Hin|[Hin|[]]]; [exact Hin|discriminate Hin].
Qed.

Lemma tact_tgt oi a : tact oi a -> tgt a = oi /\ a <> Conv.RunE upd /\ (forall n, a <> Conv.SvcNop upd n) /\ (forall j, a <> Conv.Subscribe upd j).
Proof.
  destruct a as [u| | |n| |k|k cl| |k|k n|k n|k]; cbn [tact tgt]; try contradiction; intros X;
    (split; [|split; [discriminate|split; intros; discriminate]]); try (symmetry; exact X).
  destruct X as [X _]. symmetry; exact X.
Qed.

(* a task that served the connection's current subscription *)
Lemma wf_upd s c i k nq : WF s -> CInv (cv s) -> cur (conns s c) = Some i ->
  sync (cv s) k -> Forall (tact (Some i)) (ta k) -> SH i k ->
  (forall it, In it (cqueue (tx k)) -> In it (cqueue (conns s c))) -> disc (tx k) = disc (conns s c) -> owner (ty k) = c ->
  WF {| Core.cv := ts k; Core.conns := Core.set_conn (conns s) c (tx k); Core.insts := Core.set_inst (insts s) i (ty k);
        Core.next := next s; Core.mqsub := mqsub s; Core.getreq := nq |}.
Proof.
  intros Hw Hinv Hc Hs Ha Hsh Hq Hd Ho. pose proof Hw as [W1 W2 W3 W4 W5 W6 W7]. destruct (W1 c i Hc) as (Hi&Hoi&Hg&Hdir).
  assert (Hoth : forall j, j <> i -> csubs (ts k) j = csubs (cv s) j).
  { intros j Hne. rewrite Hs. apply subs_others. eapply Forall_impl; [|exact Ha].
    intros a X. destruct (tact_tgt _ a X) as (T1&T2&_). split; [congruence|exact T2]. }
  assert (Hown : forall j, owner (Core.set_inst (insts s) i (ty k) j) = owner (insts s j)).
  { intros j. inst_at j i; congruence. }
  constructor; cbn [Core.cv Core.conns Core.insts Core.next Core.mqsub].
  - intros c' i'. rewrite Hown. conn_at c' c.
    + intros Hc'. destruct Hsh as [(G&C&D)|(G&C&D)]; [|congruence]. rewrite C in Hc'. injection Hc' as <-. auto.
    + intros Hc'. destruct (W1 c' i' Hc') as (A&B&C&D). rewrite Hoth by congruence. auto.
  - intros j Hj. rewrite Hown. destruct (Nat.eq_dec j i) as [->|Hne].
    + intros G. rewrite Hoi. unfold Core.set_conn. rewrite Nat.eqb_refl. destruct Hsh as [(G'&C&D)|(G'&C&D)]; [exact C|].
      unfold Core.gone_, Core.me in G'. congruence.
    + rewrite Hoth by exact Hne. intros G. pose proof (W2 j Hj G) as Hcj. unfold Core.set_conn.
      destruct (Nat.eqb_spec (owner (insts s j)) c) as [E|E]; [rewrite E in Hcj; congruence|exact Hcj].
  - intros j Hj. rewrite Hs. apply fresh_steps; [exact Hinv| |apply W3, Hj].
    eapply Forall_impl; [|exact Ha]. intros a X. destruct (tact_tgt _ a X) as (T1&_). rewrite T1. intros E; injection E as ->; lia.
  - intros c' it. conn_at c' c.
    + intros Hin. apply Hq, W4 in Hin. destruct it; cbn [okitem] in *; cbn [Core.next Core.insts Core.conns]; rewrite ?Hown; auto.
      unfold Core.set_conn. rewrite Nat.eqb_refl. congruence.
    + intros Hin. apply W4 in Hin. destruct it; cbn [okitem] in *; cbn [Core.next Core.insts Core.conns]; rewrite ?Hown; auto.
      unfold Core.set_conn. destruct (Nat.eqb_spec c' c); [contradiction|exact Hin].
  - intros c'. conn_at c' c; [|apply W5]. intros Hc'. destruct Hsh as [(G&C&D)|(G&C&D)]; [congruence|exact D].
  - intros j Hin. rewrite Hs in Hin. apply nop_steps in Hin. destruct Hin as [Hin|Hin]; [apply W6, Hin|].
    rewrite Forall_forall in Ha. apply Ha in Hin. destruct Hin.
  - exact W7.
Qed.

Lemma body_sub_gone s c x q i : CInv (cv s) -> sgone (csubs (cv s) i) = true ->
  let k := body_sub s c x q i in
  tx k = Core.with_q x q /\ ty k = insts s i /\ to k = [] /\ ta k = [Conv.RunC upd i] /\ ts k = cstep (cv s) (Conv.RunC upd i).
Proof.
  intros Hinv G. cbv zeta. unfold body_sub. cbv zeta. destruct (scq (csubs (cv s) i)) as [|[|e|] q'].
  - repeat split.
  - rewrite G. repeat split.
  - rewrite (Conv.igl _ _ _ _ Hinv i G). cbn [andb]. repeat split.
  - unfold Core.reaccess. rewrite gone_act. unfold Core.gone_, Core.me. cbn [Core.ts]. rewrite G. repeat split.
Qed.

(* the disposal task, and an unsubscribe or denial that gives the subscription up *)
Lemma wf_drop s s' c (l : list nat) : WF s ->
  next s' = next s -> mqsub s' = mqsub s ->
  (forall j, In j l -> j < next s /\ owner (insts s j) = c) ->
  (forall i, cur (conns s c) = Some i -> In i l) ->
  cur (conns s' c) = None -> direct (conns s' c) = 0 -> disc (conns s' c) = disc (conns s c) ->
  (forall c', c' <> c -> conns s' c' = conns s c') ->
  (forall it, In it (cqueue (conns s' c)) -> In it (cqueue (conns s c))) ->
  (forall j, owner (insts s' j) = owner (insts s j)) ->
  (forall j, sgone (csubs (cv s') j) = existsb (Nat.eqb j) l || sgone (csubs (cv s) j)) ->
  (forall j, next s <= j -> fresh (cv s') j) ->
  (forall k, In (Conv.INop val upd k) (cqe (cv s')) -> In (Conv.INop val upd k) (cqe (cv s))) ->
  WF s'.
Proof.
  intros [W1 W2 W3 W4 W5 W6 W7] En Em Hl Hcl Ec Ed Edc Eo Eq Eow Eg Ef Eno.
  constructor.
  - intros c' i' Hc. destruct (Nat.eq_dec c' c) as [->|Hne]; [congruence|]. rewrite (Eo c' Hne) in Hc.
    destruct (W1 c' i' Hc) as (A&B&C&D). rewrite En, Eow, Eg, C, (Eo c' Hne). repeat split; auto.
    rewrite existsb_eqb_false; [reflexivity|]. intros x Hx ->. destruct (Hl i' Hx) as [_ Ho]. congruence.
  - intros j Hj Hg. rewrite En in Hj. rewrite Eg in Hg. apply orb_false_elim in Hg. destruct Hg as [Hg1 Hg2].
    pose proof (W2 j Hj Hg2) as Hc. rewrite Eow.
    destruct (Nat.eq_dec (owner (insts s j)) c) as [E|Hne].
    + rewrite E in Hc. apply Hcl in Hc. rewrite (existsb_eqb_true _ _ Hc) in Hg1. discriminate.
    + rewrite (Eo _ Hne). exact Hc.
  - intros j Hj. rewrite En in Hj. apply Ef, Hj.
  - intros c' it Hin. assert (Hin' : In it (cqueue (conns s c')) /\ disc (conns s' c') = disc (conns s c')).
    { destruct (Nat.eq_dec c' c) as [->|Hne]; [split; [apply Eq, Hin|exact Edc]|rewrite (Eo c' Hne) in *; auto]. }
    destruct Hin' as [Hin' Hd]. apply W4 in Hin'. destruct it; cbn [okitem] in *; rewrite ?En, ?Eow, ?Hd; auto.
  - intros c' Hc. destruct (Nat.eq_dec c' c) as [->|Hne]; [exact Ed|]. rewrite (Eo c' Hne) in *. apply W5, Hc.
  - intros k Hin. rewrite En. apply W6, Eno, Hin.
  - rewrite Em, En. exact W7.
Qed.

Lemma in_seq0 j n : In j (seq 0 n) <-> j < n.
Proof. rewrite in_seq. lia. Qed.

(* ---------------- the two ways the cache worker reaches the connection queues ---------------- *)
Definition qsubs_for (σ σ' : cst) (own : nat -> nat) (c : nat) (l : list nat) : list qitem :=
  map QSub (filter (fun i => Core.grew val upd σ σ' i && Nat.eqb (own i) c) l).
Definition same_rec (x' x : conn) : Prop :=
  cur x' = cur x /\ direct x' = direct x /\ disc x' = disc x /\ tokset x' = tokset x /\ tok x' = tok x.
Lemma same_rec_refl x : same_rec x x.
Proof. repeat split. Qed.
Lemma same_rec_trans x y z : same_rec x y -> same_rec y z -> same_rec x z.
Proof. unfold same_rec. intros (A&B&C&D&E) (A'&B'&C'&D'&E'). repeat split; congruence. Qed.

Lemma fan_gen σ σ' own : forall l f c,
  let f' := fold_left (fun g i => if Core.grew val upd σ σ' i then Core.set_conn g (own i) (Core.push_q (g (own i)) (QSub i)) else g) l f in
  cqueue (f' c) = cqueue (f c) ++ qsubs_for σ σ' own c l /\ same_rec (f' c) (f c).
Proof.
  induction l as [|a l IH]; intros f c; cbn [fold_left].
  - unfold qsubs_for. cbn. rewrite app_nil_r. split; [reflexivity|apply same_rec_refl].
  - cbn zeta in IH. destruct (IH (if Core.grew val upd σ σ' a then Core.set_conn f (own a) (Core.push_q (f (own a)) (QSub a)) else f) c) as (A&B).
    rewrite A. unfold qsubs_for. cbn [filter]. destruct (Core.grew val upd σ σ' a); cbn [andb]; [|auto].
    split.
    + unfold Core.set_conn. rewrite (Nat.eqb_sym (own a) c). destruct (Nat.eqb c (own a)) eqn:E; [|reflexivity].
      apply Nat.eqb_eq in E. subst c. cbn [map Core.push_q Core.with_q cqueue]. rewrite <- app_assoc. reflexivity.
    + eapply same_rec_trans; [exact B|]. unfold Core.set_conn. destruct (Nat.eqb c (own a)) eqn:E; [|apply same_rec_refl].
      apply Nat.eqb_eq in E. subst c. repeat split.
Qed.
Lemma fan_spec σ σ' own n f c :
  let f' := Core.fan val upd σ σ' own n f in
  cqueue (f' c) = cqueue (f c) ++ qsubs_for σ σ' own c (seq 0 n) /\ same_rec (f' c) (f c).
Proof. apply fan_gen. Qed.

Definition qacc_for (σ : cst) (own : nat -> nat) (c : nat) : list qitem :=
  match Core.nop_head val upd σ with
  | Some i => if Core.is_closed val upd σ i then [] else if Nat.eqb c (own i) then [QAccess i] else []
  | None => []
  end.
Lemma pass_spec σ own f c :
  let f' := Core.pass val upd σ own f in
  cqueue (f' c) = cqueue (f c) ++ qacc_for σ own c /\ same_rec (f' c) (f c).
Proof.
  cbn zeta. unfold Core.pass, qacc_for. destruct (Core.nop_head val upd σ) as [i|]; [|rewrite app_nil_r; split; [reflexivity|apply same_rec_refl]].
  destruct (Core.is_closed val upd σ i); [rewrite app_nil_r; split; [reflexivity|apply same_rec_refl]|].
  unfold Core.set_conn. destruct (Nat.eqb c (own i)) eqn:E; [|rewrite app_nil_r; split; [reflexivity|apply same_rec_refl]].
  apply Nat.eqb_eq in E. subst c. cbn [Core.push_q Core.with_q cqueue]. split; [reflexivity|repeat split].
Qed.
Lemma grant_conns σ σ' own n f c :
  let f' := Core.pass val upd σ own (Core.fan val upd σ σ' own n f) in
  cqueue (f' c) = (cqueue (f c) ++ qsubs_for σ σ' own c (seq 0 n)) ++ qacc_for σ own c /\ same_rec (f' c) (f c).
Proof.
  cbn zeta. destruct (pass_spec σ own (Core.fan val upd σ σ' own n f) c) as (A&B).
  destruct (fan_spec σ σ' own n f c) as (A'&B'). rewrite A, A'. split; [reflexivity|eapply same_rec_trans; eassumption].
Qed.
Lemma in_qsubs_for σ σ' own c n it : In it (qsubs_for σ σ' own c (seq 0 n)) -> exists i, it = QSub i /\ i < n /\ own i = c.
Proof.
  unfold qsubs_for. intros H. apply in_map_iff in H. destruct H as (i & <- & H). apply filter_In in H. destruct H as [H1 H2].
  apply in_seq in H1. apply andb_prop in H2. destruct H2 as [_ H2]. apply Nat.eqb_eq in H2. exists i. repeat split; [lia|exact H2].
Qed.
Lemma in_qacc_for σ own c it : In it (qacc_for σ own c) -> exists i, it = QAccess i /\ own i = c /\ In (Conv.INop val upd i) (cqe σ).
Proof.
  unfold qacc_for, Core.nop_head. destruct (cqe σ) as [|[u| |v|k|k| |n] q]; try (intros []).
  destruct (Core.is_closed val upd σ n); [intros []|]. destruct (Nat.eqb_spec c (own n)) as [->|]; [|intros []].
  intros [<-|[]]. exists n. repeat split. left; reflexivity.
Qed.

Lemma wf_step_conn s c : CInv (cv s) -> WF s -> WF (fst (step s (Core.GrantConn upd c))).
Proof.
  intros Hinv Hw. pose proof Hw as [W1 W2 W3 W4 W5 W6 W7].
  destruct (cqueue (conns s c)) as [|it0 q0] eqn:Eq0; [rewrite step_conn_empty by exact Eq0; exact Hw|].
  rewrite step_conn by (rewrite Eq0; discriminate).
  pose proof (task_shape s c) as Hsh. cbv zeta in Hsh. revert Hsh.
  destruct (ct_spec s c) as [Eq|id q Eq Ec|id q i Eq Ec|id cnt q i Eq Ec|id cnt q Eq Ec|t q i Eq Ec|t q Eq Ec|i q Eq Eg|i q Eq Eg|i q Eq|q Eq];
    cbn [fst snd]; intros (Hs&Hq&Hd&Hc);
    try (destruct Hc as [(_&_&Ha&_)|[((id'&q'&X)&Y&_)|((q'&X)&_)]]; [|exfalso; congruence|exfalso; congruence]).
  - (* empty *) congruence.
  - (* new instance *)
    destruct Hc as [(X&_)|[(_&_&_&_&_&A5&A6&A7)|((q'&X)&_)]]; [exfalso; lia| |exfalso; congruence].
    match goal with |- WF {| Core.cv := ts ?K; Core.conns := _; Core.insts := _; Core.next := _; Core.mqsub := _; Core.getreq := _ |} => set (k := K) in * end.
    assert (Ets : ts k = cstep (cv s) (Conv.Subscribe upd (next s))) by (rewrite Hs, A5; reflexivity).
    assert (Eow : owner (ty k) = c).
    { unfold k. rewrite (e_own _ _ _ _ _ (x_load false c (next s) _ _ (AReq id) (ext_refl false c (next s) _))). reflexivity. }
    rewrite Ets, A7, Eq. cbn [tl].
    assert (G : forall j, sgone (csubs (cstep (cv s) (Conv.Subscribe upd (next s))) j) = sgone (csubs (cv s) j)) by (intros j; rewrite gone_step; reflexivity).
    constructor; cbn [Core.next Core.conns Core.insts Core.cv Core.mqsub].
    + intros c' i'. conn_at c' c.
      * intros E; injection E as <-. split; [lia|]. split; [unfold Core.set_inst; rewrite Nat.eqb_refl; exact Eow|].
        rewrite G. destruct (W3 (next s)) as (_&_&A&_); [lia|]. split; [exact A|lia].
      * intros Hc. destruct (W1 c' i' Hc) as (A&B&C&D). split; [lia|]. split; [inst_at i' (next s); [lia|exact B]|rewrite G; auto].
    + intros j Hj Hg. rewrite G in Hg. inst_at j (next s).
      * rewrite Eow. unfold Core.set_conn. rewrite Nat.eqb_refl. reflexivity.
      * assert (Hj' : j < next s) by lia. pose proof (W2 j Hj' Hg) as Hc.
        unfold Core.set_conn. destruct (Nat.eqb_spec (owner (insts s j)) c) as [E|E]; [rewrite E in Hc; congruence|exact Hc].
    + intros j Hj. apply fresh_step; [exact Hinv|cbn [tgt]; intros E; injection E as E; lia|apply W3; lia].
    + intros c' it Hin.
      assert (Hin' : In it (cqueue (conns s c'))).
      { revert Hin. conn_at c' c; intros Hin; [rewrite Eq; right; exact Hin|exact Hin]. }
      apply W4 in Hin'. destruct it; cbn [okitem] in *; auto.
      * destruct Hin' as [A B]. cbn [Core.next Core.insts]. split; [lia|]. inst_at i (next s); [lia|exact B].
      * destruct Hin' as [A B]. cbn [Core.next Core.insts]. split; [lia|]. inst_at i (next s); [lia|exact B].
      * revert Hin'. cbn [Core.conns]. conn_at c' c; auto.
    + intros c'. conn_at c' c; [discriminate|apply W5].
    + intros j Hin. apply (nop_steps [_]) in Hin. destruct Hin as [Hin|[Hin|[]]]; [apply W6 in Hin; lia|discriminate Hin].
    + discriminate.
  - (* request on the current subscription *)
    destruct (W1 c i Ec) as (Hi&Ho&Hg&Hdir).
    apply wf_upd; auto.
    + apply sh_body_req, Hg.
    + rewrite Hq, Eq. cbn [tl]. intros it Hin; right; exact Hin.
    + rewrite (e_own _ _ _ _ _ (ext_body_req s c (conns s c) id q i)). exact Ho.
  - (* unsubscribe *)
    destruct (W1 c i Ec) as (Hi&Ho&Hg&Hdir).
    apply wf_upd; auto.
    + apply sh_body_unsub; assumption.
    + rewrite Hq, Eq. cbn [tl]. intros it Hin; right; exact Hin.
    + rewrite (e_own _ _ _ _ _ (ext_body_unsub s c (conns s c) id cnt q i)). exact Ho.
  - (* unsubscribe without a subscription *)
    cbn [Core.emit Core.ts Core.tx].
    apply (wf_frame _ _ Hw); cbn [Core.next Core.conns Core.insts Core.cv Core.mqsub]; try reflexivity; auto.
    + intros c'; conn_at c' c; reflexivity.
    + intros c'; conn_at c' c; reflexivity.
    + intros c' it; conn_at c' c; intros Hin; left; [rewrite Eq; right|]; exact Hin.
    + intros c'; conn_at c' c; auto.
  - (* token with a subscription *)
    destruct (W1 c i Ec) as (Hi&Ho&Hg&Hdir).
    assert (X : ext true c i (K0 s (xtok (conns s c) q t) (insts s i))
                  (if tokset (conns s c) then reaccess c i (K0 s (xtok (conns s c) q t) (insts s i)) else K0 s (xtok (conns s c) q t) (insts s i))).
    { destruct (tokset (conns s c)); [apply x_reacc|]; apply ext_refl. }
    apply wf_upd; auto.
    + eapply sh_mild; [exact X|]. left. repeat split; assumption.
    + rewrite Hq, Eq. cbn [tl]. intros it Hin; right; exact Hin.
    + rewrite (e_own _ _ _ _ _ X). exact Ho.
  - (* token without *)
    cbn [Core.ts Core.tx].
    apply (wf_frame _ _ Hw); cbn [Core.next Core.conns Core.insts Core.cv Core.mqsub]; try reflexivity; auto.
    + intros c'; conn_at c' c; reflexivity.
    + intros c'; conn_at c' c; reflexivity.
    + intros c' it; conn_at c' c; intros Hin; left; [rewrite Eq; right|]; exact Hin.
    + intros c'; conn_at c' c; auto.
  - (* access answer for a disposed subscription *)
    cbn [Core.ts Core.tx Core.ty].
    apply (wf_frame _ _ Hw); cbn [Core.next Core.conns Core.insts Core.cv Core.mqsub]; try reflexivity; auto.
    + intros c'; conn_at c' c; reflexivity.
    + intros c'; conn_at c' c; reflexivity.
    + intros j. inst_at j i; reflexivity.
    + intros c' it; conn_at c' c; intros Hin; left; [rewrite Eq; right|]; exact Hin.
    + intros c'; conn_at c' c; auto.
  - (* access answer *)
    destruct (W4 c (QAccess i)) as [Hi Ho]; [rewrite Eq; left; reflexivity|].
    assert (Ec : cur (conns s c) = Some i) by (rewrite <- Ho; apply W2; assumption).
    destruct (W1 c i Ec) as (_&_&_&Hdir).
    apply wf_upd; auto.
    + apply sh_body_access; assumption.
    + rewrite Hq, Eq. cbn [tl]. intros it Hin; right; exact Hin.
    + rewrite (e_own _ _ _ _ _ (ext_body_access s c (conns s c) q i)). exact Ho.
  - (* item of a subscription's queue *)
    destruct (W4 c (QSub i)) as [Hi Ho]; [rewrite Eq; left; reflexivity|].
    destruct (sgone (csubs (cv s) i)) eqn:Eg.
    + destruct (body_sub_gone s c (conns s c) q i Hinv Eg) as (T1&T2&T3&T4&T5). cbv zeta in *. rewrite T1, T2, T5.
      destruct (benign_steps (next s) [Conv.RunC upd i] (cv s) Hinv) as (BG&BF&BN); [repeat constructor; exact Hi|].
      apply (wf_frame _ _ Hw); cbn [Core.next Core.conns Core.insts Core.cv Core.mqsub]; try reflexivity; auto.
      * intros c'; conn_at c' c; reflexivity.
      * intros c'; conn_at c' c; reflexivity.
      * intros j. inst_at j i; reflexivity.
      * intros c' it; conn_at c' c; intros Hin; left; [rewrite Eq; right|]; exact Hin.
      * intros c'; conn_at c' c; auto.
    + assert (Ec : cur (conns s c) = Some i) by (rewrite <- Ho; apply W2; assumption).
      destruct (W1 c i Ec) as (_&_&_&Hdir).
      apply wf_upd; auto.
      * apply sh_body_sub; assumption.
      * rewrite Hq, Eq. cbn [tl]. intros it Hin; right; exact Hin.
      * rewrite (e_own _ _ _ _ _ (ext_body_sub s c (conns s c) q i)). exact Ho.
  - (* disposal *)
    destruct Hc as [(_&_&_&Ho)|[((id'&q'&X)&_)|(_&_&_&_&A4&A5&A6&A7)]]; [exfalso|exfalso; congruence|].
    { rewrite Forall_forall in Ho. apply (Ho (OConnUnsub c)). unfold body_dispose. cbv zeta. cbn [Core.emit Core.to].
      apply in_or_app. right. left. reflexivity. }
    destruct (dispose_list true (Core.insts_of val upd s c) (cv s) Hinv) as (G&F&N).
    assert (Hl : forall j, In j (Core.insts_of val upd s c) <-> j < next s /\ owner (insts s j) = c).
    { intros j. unfold Core.insts_of. rewrite filter_In, in_seq0, Nat.eqb_eq. tauto. }
    unfold sync in Hs. rewrite A4 in Hs.
    apply (wf_drop s _ c (Core.insts_of val upd s c) Hw); cbn [Core.next Core.conns Core.insts Core.cv Core.mqsub].
    + reflexivity.
    + reflexivity.
    + intros j Hj. apply Hl, Hj.
    + intros i' E. apply Hl. destruct (W1 c i' E) as (A&B&_). auto.
    + unfold Core.set_conn. rewrite Nat.eqb_refl. exact A6.
    + unfold Core.set_conn. rewrite Nat.eqb_refl. exact A7.
    + unfold Core.set_conn. rewrite Nat.eqb_refl. exact Hd.
    + intros c' Hne. unfold Core.set_conn. rewrite (proj2 (Nat.eqb_neq c' c) Hne). reflexivity.
    + intros it. unfold Core.set_conn. rewrite Nat.eqb_refl. rewrite Hq, Eq. cbn [tl]. intros Hin. right; exact Hin.
    + intros j. destruct (cur (conns s c)) as [i|] eqn:Ec; [|reflexivity]. inst_at j i; [|reflexivity].
      unfold body_dispose. cbv zeta. cbn [Core.emit Core.sety Core.ty Core.upd_y owner].
      match goal with |- context [fold_left actk ?l ?k0] => destruct (acts_frame l k0) as (_&S4&_) end. rewrite S4. cbn [Core.ty]. rewrite Ec. reflexivity.
    + rewrite Hs. exact G.
    + intros j Hj. rewrite Hs. apply F; [intros Hin; apply Hl in Hin; lia|apply W3, Hj].
    + rewrite Hs. exact N.
Qed.

Lemma wf_step s o : CInv (cv s) -> WF s -> WF (fst (step s o)).
Proof.
  intros Hinv Hw. pose proof Hw as [W1 W2 W3 W4 W5 W6 W7].
  destruct o as [c id|c id k|c|c t|i g| |u| | | |c].
  - (* CSub *)
    unfold Core.step. destruct (disc (conns s c)) eqn:Ed; [exact Hw|]. cbn [fst Core.acts_of fold_left].
    apply (wf_frame _ _ Hw); cbn [Core.next Core.conns Core.insts Core.cv Core.mqsub]; try reflexivity; auto.
    + intros c'; conn_at c' c; reflexivity.
    + intros c'; conn_at c' c; reflexivity.
    + intros c' it; conn_at c' c; intros Hin; [|left; exact Hin]. apply in_snoc in Hin. destruct Hin as [Hin| ->]; [left; exact Hin|right; exact I].
    + intros c'; conn_at c' c; auto.
  - (* CUnsub *)
    unfold Core.step. destruct (disc (conns s c)) eqn:Ed; [exact Hw|]. cbn [fst Core.acts_of fold_left].
    apply (wf_frame _ _ Hw); cbn [Core.next Core.conns Core.insts Core.cv Core.mqsub]; try reflexivity; auto.
    + intros c'; conn_at c' c; reflexivity.
    + intros c'; conn_at c' c; reflexivity.
    + intros c' it; conn_at c' c; intros Hin; [|left; exact Hin]. apply in_snoc in Hin. destruct Hin as [Hin| ->]; [left; exact Hin|right; exact I].
    + intros c'; conn_at c' c; auto.
  - (* Disc *)
    unfold Core.step. destruct (disc (conns s c)) eqn:Ed; [exact Hw|]. cbn [fst Core.acts_of fold_left].
    apply (wf_frame _ _ Hw); cbn [Core.next Core.conns Core.insts Core.cv Core.mqsub]; try reflexivity; auto.
    + intros c'; conn_at c' c; reflexivity.
    + intros c'; conn_at c' c; reflexivity.
    + intros c' it; conn_at c' c; intros Hin; [|left; exact Hin]. apply in_snoc in Hin. destruct Hin as [Hin| ->]; [left; exact Hin|right].
      cbn [okitem Core.conns]. unfold Core.set_conn. rewrite Nat.eqb_refl. reflexivity.
    + intros c'; conn_at c' c; auto.
  - (* ConnToken *)
    unfold Core.step. destruct (Core.is_done (conns s c)) eqn:Ed; [exact Hw|]. cbn [fst Core.acts_of fold_left].
    apply (wf_frame _ _ Hw); cbn [Core.next Core.conns Core.insts Core.cv Core.mqsub]; try reflexivity; auto.
    + intros c'; conn_at c' c; reflexivity.
    + intros c'; conn_at c' c; reflexivity.
    + intros c' it; conn_at c' c; intros Hin; [|left; exact Hin]. apply in_snoc in Hin. destruct Hin as [Hin| ->]; [left; exact Hin|right; exact I].
    + intros c'; conn_at c' c; auto.
  - (* MqAccess *)
    unfold Core.step. cbn [Core.acts_of]. destruct (Nat.ltb i (next s) && Core.unanswered (insts s i)) eqn:Et; [|exact Hw]. cbn [fst].
    apply andb_prop in Et. destruct Et as [Et1 Et2]. apply Nat.ltb_lt in Et1.
    destruct (benign_steps (next s) [Conv.SvcNop upd i] (cv s) Hinv) as (BG&BF&BN); [repeat constructor; exact Et1|].
    apply (wf_frame _ _ Hw); cbn [Core.next Core.conns Core.insts Core.cv Core.mqsub]; try reflexivity; auto.
    intros j. inst_at j i; reflexivity.
  - (* MqGet *)
    unfold Core.step. cbn [Core.acts_of fst].
    match goal with |- context [fold_left cstep ?A (cv s)] => destruct (benign_steps (next s) A (cv s) Hinv) as (BG&BF&BN) end;
      [destruct (_ && _); repeat constructor|].
    apply (wf_frame _ _ Hw); cbn [Core.next Core.conns Core.insts Core.cv Core.mqsub]; try reflexivity; auto.
  - (* MqEvent *)
    unfold Core.step. cbn [Core.acts_of fst].
    match goal with |- context [fold_left cstep ?A (cv s)] => destruct (benign_steps (next s) A (cv s) Hinv) as (BG&BF&BN) end;
      [destruct (mqsub s); repeat constructor|].
    apply (wf_frame _ _ Hw); cbn [Core.next Core.conns Core.insts Core.cv Core.mqsub]; try reflexivity; auto.
  - (* MqCustom *)
    unfold Core.step. cbn [Core.acts_of fst].
    match goal with |- context [fold_left cstep ?A (cv s)] => destruct (benign_steps (next s) A (cv s) Hinv) as (BG&BF&BN) end;
      [destruct (mqsub s); repeat constructor|].
    apply (wf_frame _ _ Hw); cbn [Core.next Core.conns Core.insts Core.cv Core.mqsub]; try reflexivity; auto.
  - (* MqReacc *)
    unfold Core.step. cbn [Core.acts_of fst].
    match goal with |- context [fold_left cstep ?A (cv s)] => destruct (benign_steps (next s) A (cv s) Hinv) as (BG&BF&BN) end;
      [destruct (mqsub s); repeat constructor|].
    apply (wf_frame _ _ Hw); cbn [Core.next Core.conns Core.insts Core.cv Core.mqsub]; try reflexivity; auto.
  - (* GrantEs *)
    unfold Core.step. cbn [Core.acts_of fst].
    destruct (benign_steps (next s) [Conv.RunE upd] (cv s) Hinv) as (BG&BF&BN); [repeat constructor|].
    apply (wf_frame _ _ Hw); cbn [Core.next Core.conns Core.insts Core.cv Core.mqsub]; try reflexivity; auto.
    + intros c. match goal with |- cur (Core.pass _ _ ?σ ?own (Core.fan _ _ _ ?σ' _ ?n ?f) _) = _ => destruct (grant_conns σ σ' own n f c) as (_&B&_) end. exact B.
    + intros c. match goal with |- direct (Core.pass _ _ ?σ ?own (Core.fan _ _ _ ?σ' _ ?n ?f) _) = _ => destruct (grant_conns σ σ' own n f c) as (_&_&B&_) end. exact B.
    + intros c it. match goal with |- In _ (cqueue (Core.pass _ _ ?σ ?own (Core.fan _ _ _ ?σ' _ ?n ?f) _)) -> _ => destruct (grant_conns σ σ' own n f c) as (B&_) end.
      rewrite B. intros Hin. apply in_app_or in Hin. destruct Hin as [Hin|Hin]; [apply in_app_or in Hin; destruct Hin as [Hin|Hin]|].
      * left; exact Hin.
      * right. apply in_qsubs_for in Hin. destruct Hin as (i & -> & Hi & Ho). cbn [okitem]. auto.
      * right. apply in_qacc_for in Hin. destruct Hin as (i & -> & Ho & Hn). cbn [okitem]. split; [apply W6, Hn|exact Ho].
    + intros c. match goal with |- _ -> disc (Core.pass _ _ ?σ ?own (Core.fan _ _ _ ?σ' _ ?n ?f) _) = _ => destruct (grant_conns σ σ' own n f c) as (_&_&_&B&_) end. rewrite B. auto.
  - (* GrantConn *)
    apply wf_step_conn; assumption.
Qed.

Lemma wf_init t : WF (Core.init val upd d t).
Proof.
  constructor; cbn; try discriminate; try contradiction; try lia; auto.
  intros i _. repeat split.
Qed.
Lemma wf_exec t ops : WF (fst (exec t ops)).
Proof.
  apply exec_state_ind; [apply wf_init|]. intros ops' o s H. apply wf_step; [apply core_conv_inv|exact H].
Qed.

(* ================= B: the outcome of an unsubscribe request ================= *)
Lemma remove_direct_spec i K n :
  to (remove_direct i K n) = to K /\ ty (remove_direct i K n) = ty (remove_direct i K n) /\
  (direct (tx K) <> 0 -> direct (tx (remove_direct i K n)) = direct (tx K) - n).
Proof.
  unfold Core.remove_direct. destruct (Nat.eqb_spec (direct (tx K)) 0) as [E|E]; [repeat split; contradiction|]. cbv zeta.
  cbn [Core.setx Core.tx Core.with_cd direct]. destruct (Nat.eqb (direct (tx K) - n) 0).
  - unfold Core.dispose_t. match goal with |- context [if ?b then _ else _] => destruct b end; cbv zeta; cbn; repeat split.
  - cbn. repeat split.
Qed.

Theorem core_unsubscribe_outcome : forall t ops c id k q,
  let s := fst (exec t ops) in
  Core.cqueue (conns s c) = Core.QUnsub id k :: q ->
  let '(s', o) := Core.step val upd app norm s (Core.GrantConn upd c) in
  let n := Core.direct (conns s c) in
  (k = 0 -> o = [Core.OErr val upd c id Core.EInvalid] /\ Core.direct (conns s' c) = n) /\
  (0 < k -> n < k -> o = [Core.OErr val upd c id Core.ENoSub] /\ Core.direct (conns s' c) = n) /\
  (0 < k -> k <= n -> o = [Core.OAck val upd c id k] /\ Core.direct (conns s' c) = n - k).
Proof.
  intros t ops c id k q s Hq. pose proof (w_dir _ (wf_exec t ops) c) as Hd. fold s in Hd.
  rewrite step_conn by (rewrite Hq; discriminate).
  destruct (ct_spec s c) as [Eq|id' q' Eq Ec|id' q' i Eq Ec|id' cnt q' i Eq Ec|id' cnt q' Eq Ec|t' q' i Eq Ec|t' q' Eq Ec|i q' Eq Eg|i q' Eq Eg|i q' Eq|q' Eq];
    try congruence; rewrite Hq in Eq; injection Eq as <- <- <-; cbn [Core.conns]; unfold Core.set_conn; rewrite Nat.eqb_refl.
  - unfold body_unsub. cbv zeta. destruct (Nat.eqb_spec k 0) as [->|Hk].
    + cbn. repeat split; intros; try lia; reflexivity.
    + destruct (Nat.leb_spec k (direct (conns s c))) as [Hle|Hgt].
      * match goal with |- context [remove_direct i ?K k] => destruct (remove_direct_spec i K k) as (A&_&B) end.
        rewrite A. assert (Hnz : direct (conns s c) <> 0) by lia.
        destruct (Nat.eqb (direct (conns s c) - k) 0); cbn [Core.emit Core.sety Core.tx Core.to Core.with_q direct] in *;
          rewrite (B Hnz); repeat split; intros; try lia; reflexivity.
      * cbn. repeat split; intros; try lia; reflexivity.
  - specialize (Hd Ec). cbn. destruct (Nat.eqb_spec k 0) as [->|Hk]; repeat split; intros; try lia; reflexivity.
Qed.

(* ================= the client's ledger ================= *)
Notation ledger_ := (Core.ledger val).
Notation lstep := (Core.lstep val upd app).
Notation lcnt_ L := (Core.lcnt val L).
Notation lcopy_ L := (Core.lcopy val L).
Notation mkL n v := (Core.Build_ledger val n v).

Lemma client_app c outs o : client c (outs ++ o) = fold_left (lstep c) o (client c outs).
Proof. unfold Core.client. apply fold_left_app. Qed.
Lemma ledger_eta (L : ledger_) : L = mkL (lcnt_ L) (lcopy_ L).
Proof. destruct L; reflexivity. Qed.

Lemma fold_resp_none c r : forall L,
  fold_left (lstep c) (map (fun id' => OResp c id' None) r) L = mkL (lcnt_ L + length r) (lcopy_ L).
Proof.
  induction r as [|a r IH]; intros L; cbn [map fold_left length].
  - rewrite Nat.add_0_r. apply ledger_eta.
  - rewrite IH. cbn [Core.lstep]. rewrite Nat.eqb_refl. cbn [Core.lcnt Core.lcopy]. f_equal. lia.
Qed.
Lemma proc_o_fst c p e : fst (Core.proc_o val upd app c p e) = Conv.proc val upd app p e.
Proof.
  destruct p as [ver v]. unfold Core.proc_o, Conv.proc. destruct (Nat.eqb ver (Conv.e_ver upd e)); [|reflexivity].
  destruct (Conv.e_upd upd e); reflexivity.
Qed.
Lemma proc_o_ledger c ver v e n :
  fold_left (lstep c) (snd (Core.proc_o val upd app c (ver, v) e)) (mkL n (Some v)) = mkL n (Some (snd (Conv.proc val upd app (ver, v) e))).
Proof.
  unfold Core.proc_o, Conv.proc. destruct (Nat.eqb ver (Conv.e_ver upd e)); [|reflexivity].
  destruct (Conv.e_upd upd e); cbn [snd fold_left Core.lstep]; [rewrite Nat.eqb_refl|]; reflexivity.
Qed.
Lemma proc_o_lcnt c p e L : lcnt_ (fold_left (lstep c) (snd (Core.proc_o val upd app c p e)) L) = lcnt_ L.
Proof.
  destruct p as [ver v]. unfold Core.proc_o. destruct (Nat.eqb ver (Conv.e_ver upd e)); [|reflexivity].
  destruct (Conv.e_upd upd e); cbn [snd fold_left Core.lstep]; [rewrite Nat.eqb_refl|]; reflexivity.
Qed.
Lemma fold_replay_o c l : forall ver v n,
  fold_left (lstep c) (Core.replay_o val upd app c (ver, v) l) (mkL n (Some v)) =
  mkL n (Some (snd (Conv.replay val upd app (ver, v) l))).
Proof.
  induction l as [|e l IH]; intros ver v n; [reflexivity|]. cbn [Core.replay_o]. unfold Conv.replay. cbn [fold_left].
  pose proof (proc_o_fst c (ver, v) e) as Hf. pose proof (proc_o_ledger c ver v e n) as Hl.
  destruct (Core.proc_o val upd app c (ver, v) e) as [[ver' v'] o]. cbn [fst snd] in *. rewrite <- Hf.
  rewrite fold_left_app, Hl, <- Hf. cbn [snd]. apply IH.
Qed.
Lemma lcnt_replay_o c l : forall p L, lcnt_ (fold_left (lstep c) (Core.replay_o val upd app c p l) L) = lcnt_ L.
Proof.
  induction l as [|e l IH]; intros p L; [reflexivity|]. cbn [Core.replay_o].
  pose proof (proc_o_lcnt c p e L) as Hp. destruct (Core.proc_o val upd app c p e) as [p' o]. cbn [snd] in Hp.
  rewrite fold_left_app, IH. exact Hp.
Qed.

(* outputs addressed to another connection *)
Definition addr (c0 : nat) (o : out_) : Prop :=
  match o with
  | Core.OResp _ _ c' _ _ | Core.OErr _ _ c' _ _ | Core.OAck _ _ c' _ _ | Core.OEvent _ _ c' _ | Core.OUnsubEv _ _ c' => c' = c0
  | _ => True
  end.
Lemma fold_other c c0 o : c <> c0 -> Forall (addr c0) o -> forall L, fold_left (lstep c) o L = L.
Proof.
  intros Hne H. induction H as [|x o Hx _ IH]; intros L; [reflexivity|]. cbn [fold_left].
  assert (E : lstep c L x = L).
  { destruct x; cbn [addr] in Hx; cbn [Core.lstep]; try reflexivity; subst;
      (assert (E : Nat.eqb c0 c = false) by (apply Nat.eqb_neq; congruence)); rewrite E; reflexivity. }
  rewrite E. apply IH.
Qed.
Lemma tout_addr c oi o : tout c oi o -> addr c o.
Proof. destruct o; cbn [tout addr]; auto. Qed.

(* ================= B: the count of direct subscriptions, along a task ================= *)
Section Count.
Variables (c i : nat) (L0 : ledger_).
Definition Lk (k : tk_) : ledger_ := fold_left (lstep c) (to k) L0.
Definition pend (y : inst) : nat := length (Core.ids_of (acb y)) + length (rcb y).

Lemma Lk_emit k o : Lk (emit k o) = fold_left (lstep c) o (Lk k).
Proof. unfold Lk. cbn [Core.emit Core.to]. apply fold_left_app. Qed.
Lemma Lk_act k a : Lk (actk k a) = Lk k.
Proof. reflexivity. Qed.
Lemma Lk_sety k y : Lk (sety k y) = Lk k.
Proof. reflexivity. Qed.
Lemma Lk_setx k x : Lk (setx k x) = Lk k.
Proof. reflexivity. Qed.
Lemma ids_of_app l1 l2 : Core.ids_of (l1 ++ l2) = Core.ids_of l1 ++ Core.ids_of l2.
Proof. unfold Core.ids_of. apply flat_map_app. Qed.

Lemma cnt_load k b : Lk (load_access c i k b) = Lk k /\ pend (ty (load_access c i k b)) = pend (ty k) + length (Core.ids_of [b]).
Proof.
  unfold Core.load_access. cbv zeta. destruct (inflight (ty k)).
  - split; [reflexivity|]. unfold pend. cbn [Core.sety Core.ty Core.upd_y acb rcb]. rewrite ids_of_app, app_length. lia.
  - split; [rewrite Lk_emit; reflexivity|]. unfold pend. cbn [Core.emit Core.sety Core.ty Core.upd_y acb rcb]. rewrite ids_of_app, app_length. lia.
Qed.
Lemma cnt_hreacc k : Lk (handle_reaccess c i k) = Lk k /\ pend (ty (handle_reaccess c i k)) = pend (ty k).
Proof.
  unfold Core.handle_reaccess. cbv zeta. cbn [Core.sety Core.tx].
  destruct (Nat.eqb (direct (tx k)) 0); [split; reflexivity|].
  match goal with |- context [load_access c i ?K AVal] => destruct (cnt_load K AVal) as [A B] end.
  change (length (Core.ids_of [AVal])) with 0 in B.
  rewrite A, B. split; [reflexivity|]. unfold pend. cbn [Core.act Core.sety Core.ty Core.upd_y acb rcb]. lia.
Qed.
Lemma cnt_reacc k : Lk (reaccess c i k) = Lk k /\ pend (ty (reaccess c i k)) = pend (ty k).
Proof.
  unfold Core.reaccess. destruct (gone_ i k); [split; reflexivity|]. destruct (flag_ i k); [split; reflexivity|apply cnt_hreacc].
Qed.
Lemma cnt_respond k ids : lcnt_ (Lk (respond c i k ids)) = lcnt_ (Lk k) + length ids /\ pend (ty (respond c i k ids)) = pend (ty k).
Proof.
  unfold Core.respond. destruct ids as [|id r]; [split; [cbn; lia|reflexivity]|]. cbv zeta.
  rewrite Lk_emit, fold_resp_none. cbn [Core.lcnt Core.emit Core.ty length].
  destruct (sent_ i k).
  - rewrite Lk_emit. cbn [fold_left Core.lstep]. rewrite Nat.eqb_refl. cbn [Core.lcnt Core.emit Core.ty]. split; [lia|reflexivity].
  - cbn [Core.emit Core.ty]. destruct (reflag (ty k)).
    + match goal with |- context [handle_reaccess c i ?K] => destruct (cnt_hreacc K) as [A B] end.
      rewrite A, B, Lk_act, Lk_emit. cbn [fold_left Core.lstep]. rewrite Nat.eqb_refl. cbn [Core.lcnt]. split; [lia|reflexivity].
    + rewrite Lk_emit. unfold Core.drained. rewrite lcnt_replay_o, Lk_act, Lk_emit. cbn [fold_left Core.lstep]. rewrite Nat.eqb_refl. cbn [Core.lcnt]. split; [lia|reflexivity].
Qed.
Lemma cnt_ready k id :
  lcnt_ (Lk (on_ready c i k id)) + pend (ty (on_ready c i k id)) = lcnt_ (Lk k) + pend (ty k) + 1.
Proof.
  unfold Core.on_ready. destruct (loaded_ i k).
  - destruct (cnt_respond k [id]) as [A B]. rewrite A, B. cbn [length]. lia.
  - cbv zeta. rewrite Lk_sety. unfold pend. cbn [Core.sety Core.ty Core.upd_y acb rcb]. rewrite app_length. cbn [length]. lia.
Qed.
Lemma cnt_unqueue k : lcnt_ (Lk (unqueue_reaccess c i k)) = lcnt_ (Lk k) /\ pend (ty (unqueue_reaccess c i k)) = pend (ty k).
Proof.
  unfold Core.unqueue_reaccess. cbv zeta.
  match goal with |- context [if gone_ i ?K then _ else _] => destruct (gone_ i K) end; [split; reflexivity|].
  match goal with |- context [if reflag ?y then _ else _] => destruct (reflag y) end.
  - match goal with |- context [handle_reaccess c i ?K] => destruct (cnt_hreacc K) as [A B] end. rewrite A, B. split; reflexivity.
  - rewrite Lk_emit. unfold Core.drained. rewrite lcnt_replay_o. split; reflexivity.
Qed.

(* the invariant: [n] requests are in hand (taken from the waiting lists, not yet answered or put back) *)
Definition JC (b : bool) (n : nat) (k : tk_) : Prop :=
  (cur (tx k) = Some i -> if b then direct (tx k) = lcnt_ (Lk k) + pend (ty k) + n else direct (tx k) <= lcnt_ (Lk k) + pend (ty k) + n) /\
  (cur (tx k) = None -> b = true -> lcnt_ (Lk k) = 0).

Lemma jc_mild b n dl k k' : ext true c i k k' ->
  lcnt_ (Lk k') + pend (ty k') = lcnt_ (Lk k) + pend (ty k) + dl ->
  (cur (tx k) = None -> lcnt_ (Lk k') = lcnt_ (Lk k)) ->
  JC b (n + dl) k -> JC b n k'.
Proof.
  intros He Hp Hn [J1 J2]. unfold JC. rewrite (e_tx _ _ _ _ _ He eq_refl). split.
  - intros Hc. specialize (J1 Hc). destruct b; lia.
  - intros Hc Hb. rewrite (Hn Hc). auto.
Qed.
Lemma jc_emit_err b n k id e : JC b n k -> JC b n (emit k [OErr c id e]).
Proof. unfold JC. rewrite Lk_emit. cbn [fold_left Core.lstep Core.emit Core.tx Core.ty]. auto. Qed.
Lemma jc_remove b n m k : SH i k -> JC b (n + m) k -> JC b n (remove_direct i k m).
Proof.
  intros Hsh [J1 J2]. pose proof (sh_remove i k m Hsh) as Hsh'. destruct (remove_direct_spec i k m) as (A&_&B).
  assert (EL : Lk (remove_direct i k m) = Lk k) by (unfold Lk; rewrite A; reflexivity).
  assert (ET : cur (tx (remove_direct i k m)) = Some i -> ty (remove_direct i k m) = ty k).
  { unfold Core.remove_direct. destruct (Nat.eqb (direct (tx k)) 0); [reflexivity|]. cbv zeta.
    match goal with |- context [if ?b then _ else _] => destruct b end; [|reflexivity].
    unfold Core.dispose_t. match goal with |- context [if ?b then _ else _] => destruct b end; [reflexivity|]. cbv zeta. cbn. discriminate. }
  destruct Hsh as [(G&C&D)|(G&C&D)].
  - split.
    + intros Hc. rewrite EL, (ET Hc), B by lia. specialize (J1 C). destruct b; lia.
    + intros Hc Hb. rewrite EL. destruct Hsh' as [(G'&C'&D')|(G'&C'&D')]; [congruence|]. rewrite B in D' by lia.
      specialize (J1 C). subst b. lia.
  - assert (E : remove_direct i k m = k) by (unfold Core.remove_direct; rewrite D; reflexivity). rewrite E. split; [congruence|exact J2].
Qed.
Lemma jc_unsubd b n k : SH i k -> JC b n k -> JC b n (unsubscribe_direct c i k).
Proof.
  intros Hsh HJ. unfold Core.unsubscribe_direct. destruct (Nat.ltb_spec 0 (direct (tx k))) as [Hd|Hd]; [|exact HJ].
  pose proof (sh_remove i k (direct (tx k)) Hsh) as Hsh'. destruct (remove_direct_spec i k (direct (tx k))) as (_&_&B).
  unfold SH in Hsh'. rewrite B in Hsh' by lia. destruct Hsh' as [(G'&C'&D')|(G'&C'&D')]; [lia|].
  split; cbn [Core.emit Core.tx]; [congruence|]. intros _ _. rewrite Lk_emit. cbn [fold_left Core.lstep]. rewrite Nat.eqb_refl. reflexivity.
Qed.
Lemma jc_run_cb b n g k bb : SH i k -> JC b (n + length (Core.ids_of [bb])) k -> JC b n (run_cb c i g k bb).
Proof.
  intros Hsh HJ. unfold Core.run_cb. destruct bb as [id|].
  - change (length (Core.ids_of [AReq id])) with 1 in HJ. destruct g.
    + destruct (gone_ i k) eqn:G.
      * destruct Hsh as [(G'&C&D)|(G'&C&D)]; [congruence|]. destruct HJ as [J1 J2]. split; [congruence|exact J2].
      * eapply (jc_mild b n 1); [apply x_ready, ext_refl|apply cnt_ready| |exact HJ].
        destruct Hsh as [(G'&C&D)|(G'&C&D)]; congruence.
    + apply jc_remove; [apply sh_emit, Hsh|]. apply jc_emit_err, HJ.
  - change (length (Core.ids_of [AVal])) with 0 in HJ. rewrite Nat.add_0_r in HJ.
    assert (HJ' : JC b (n + 0) (if g then k else unsubscribe_direct c i k)).
    { rewrite Nat.add_0_r. destruct g; [exact HJ|apply jc_unsubd; assumption]. }
    match type of HJ' with JC _ _ ?K => destruct (cnt_unqueue K) as [A B] end.
    eapply (jc_mild b n 0); [apply x_unqueue, ext_refl| |intros _; exact A|exact HJ']. rewrite A, B. lia.
Qed.
Lemma jc_run_cbs b g l : forall n k, SH i k -> JC b (n + length (Core.ids_of l)) k -> JC b n (fold_left (run_cb c i g) l k).
Proof.
  induction l as [|bb l IH]; intros n k Hsh HJ; cbn [fold_left].
  - cbn in HJ. rewrite Nat.add_0_r in HJ. exact HJ.
  - apply IH; [apply sh_run_cb, Hsh|]. apply jc_run_cb; [exact Hsh|].
    change (bb :: l) with ([bb] ++ l) in HJ. rewrite ids_of_app, app_length in HJ.
    replace (n + length (Core.ids_of l) + length (Core.ids_of [bb])) with (n + (length (Core.ids_of [bb]) + length (Core.ids_of l))) by lia. exact HJ.
Qed.
End Count.

(* ---- the bodies keep the count ---- *)
Lemma jc_body_req b s c x id q i L : sgone (csubs (cv s) i) = false ->
  JC c i L b 1 (K0 s (Core.with_cd (Core.with_q x q) (Some i) (S (direct x))) (insts s i)) -> JC c i L b 0 (body_req s c x id q i).
Proof.
  intros G HJ. assert (H0 : SH i (K0 s (Core.with_cd (Core.with_q x q) (Some i) (S (direct x))) (insts s i))).
  { left. repeat split; [exact G|cbn; lia]. }
  unfold body_req. cbv zeta. destruct (acc (insts s i)) as [[|]|].
  - eapply (jc_mild c i L b 0 1); [apply x_ready, ext_refl|apply cnt_ready|cbn; discriminate|exact HJ].
  - apply (jc_remove c i L b 0 1); [apply sh_emit, H0|]. apply jc_emit_err, HJ.
  - match goal with |- JC _ _ _ _ _ (load_access c i ?K ?B) => destruct (cnt_load c i L K B) as [A1 A2] end.
    change (length (Core.ids_of [AReq id])) with 1 in A2.
    eapply (jc_mild c i L b 0 1); [apply x_load, ext_refl| |cbn; discriminate|exact HJ]. rewrite A1, A2. lia.
Qed.

Lemma jc_body_unsub b s c x id cnt q i L : sgone (csubs (cv s) i) = false -> cur x = Some i -> 0 < direct x ->
  JC c i L b 0 (K0 s (Core.with_q x q) (insts s i)) ->
  (b = true -> 0 < cnt -> cnt <= direct x -> cnt <= lcnt_ L) ->
  JC c i L b 0 (body_unsub s c x id cnt q i).
Proof.
  intros G C D HJ Hnu. assert (H0 : SH i (K0 s (Core.with_q x q) (insts s i))) by (left; repeat split; assumption).
  unfold body_unsub. cbv zeta. destruct (Nat.eqb_spec cnt 0) as [E0|E0]; [apply jc_emit_err, HJ|].
  destruct (Nat.leb_spec cnt (direct x)) as [Hle|Hgt]; [|apply jc_emit_err, HJ].
  destruct HJ as [J1 J2]. specialize (J1 C). unfold Lk in J1. cbn [Core.to Core.tx Core.ty Core.with_q direct fold_left] in J1.
  destruct (Nat.eqb_spec (direct x - cnt) 0) as [Ez|Ez].
  - match goal with |- JC _ _ _ _ _ (remove_direct i ?K cnt) =>
      pose proof (sh_remove i K cnt H0) as Hsh'; destruct (remove_direct_spec i K cnt) as (A&_&B) end.
    unfold SH in Hsh'. cbn [Core.sety Core.emit Core.tx Core.with_q direct] in B, Hsh'. rewrite B in Hsh' by lia.
    destruct Hsh' as [(G'&C'&D')|(G'&C'&D')]; [lia|]. split; [congruence|]. intros _ Hb. unfold Lk. rewrite A.
    cbn [Core.sety Core.emit Core.to List.app fold_left Core.lstep]. rewrite Nat.eqb_refl. cbn [Core.lcnt]. subst b. lia.
  - apply (jc_remove c i L b 0 cnt); [exact H0|]. split; [|cbn; congruence]. intros _.
    unfold Lk. cbn [Core.emit Core.to Core.tx Core.ty Core.with_q direct List.app fold_left Core.lstep]. rewrite Nat.eqb_refl. cbn [Core.lcnt].
    destruct b; [specialize (Hnu eq_refl); lia|lia].
Qed.

Lemma jc_body_access b s c x q i L : sgone (csubs (cv s) i) = false -> cur x = Some i -> 0 < direct x ->
  JC c i L b 0 (K0 s (Core.with_q x q) (insts s i)) -> JC c i L b 0 (body_access s c x q i).
Proof.
  intros G C D HJ. assert (H0 : SH i (K0 s (Core.with_q x q) (insts s i))) by (left; repeat split; assumption).
  unfold body_access. cbv zeta. destruct (ans (insts s i)) as [g|]; [|exact HJ].
  apply jc_run_cbs; [exact H0|]. destruct HJ as [J1 J2]. split; [|exact J2]. intros Hc. specialize (J1 Hc).
  unfold Lk, pend in *. cbn [Core.sety Core.to Core.tx Core.ty Core.upd_y acb rcb Core.ids_of flat_map length] in *.
  destruct b; lia.
Qed.

Lemma jc_body_sub b s c x q i L : sgone (csubs (cv s) i) = false -> cur x = Some i -> 0 < direct x ->
  JC c i L b 0 (K0 s (Core.with_q x q) (insts s i)) -> JC c i L b 0 (body_sub s c x q i).
Proof.
  intros G C D HJ. assert (HJ1 : JC c i L b 0 (actk (K0 s (Core.with_q x q) (insts s i)) (Conv.RunC upd i))) by exact HJ.
  unfold body_sub. cbv zeta. destruct (scq (csubs (cv s) i)) as [|[|e|] q'].
  - exact HJ1.
  - rewrite G. cbn [Core.act Core.ty].
    match goal with |- JC _ _ _ _ _ (respond c i ?K ?ids) => destruct (cnt_respond c i L K ids) as [A1 A2] end.
    eapply (jc_mild c i L b 0 (length (rcb (insts s i)))); [apply x_respond, ext_refl|rewrite A1, A2; lia|cbn; congruence|].
    destruct HJ as [J1 J2]. split; [|exact J2]. intros Hc. specialize (J1 Hc).
    unfold Lk, pend in *. cbn [Core.sety Core.act Core.to Core.tx Core.ty Core.upd_y acb rcb length] in *. destruct b; lia.
  - destruct HJ as [J1 J2]. split.
    + intros Hc. specialize (J1 Hc). rewrite Lk_emit. cbn [Core.emit Core.act Core.tx Core.ty].
      match goal with |- context [fold_left (lstep c) ?o _] => assert (E : lcnt_ (fold_left (lstep c) o (Lk c L (K0 s (Core.with_q x q) (insts s i)))) = lcnt_ (Lk c L (K0 s (Core.with_q x q) (insts s i)))) end.
      { destruct (_ && _); [apply proc_o_lcnt|reflexivity]. }
      rewrite Lk_act, E. exact J1.
    + cbn [Core.emit Core.act Core.tx Core.with_q cur]. congruence.
  - match goal with |- JC _ _ _ _ _ (reaccess c i ?K) => destruct (cnt_reacc c i L K) as [A1 A2] end.
    eapply (jc_mild c i L b 0 0); [apply x_reacc, ext_refl|rewrite A1, A2; lia|intros _; rewrite A1; reflexivity|exact HJ1].
Qed.

(* ---- along an execution ---- *)
Definition LGC (b : bool) (c : nat) (s : st_) (L : ledger_) : Prop :=
  (forall i, cur (conns s c) = Some i ->
     if b then direct (conns s c) = lcnt_ L + pend (insts s i) else direct (conns s c) <= lcnt_ L + pend (insts s i)) /\
  (cur (conns s c) = None -> b = true -> lcnt_ L = 0).

Lemma lgc_transfer b c s s' L : LGC b c s L ->
  cur (conns s' c) = cur (conns s c) -> direct (conns s' c) = direct (conns s c) ->
  (forall i, cur (conns s c) = Some i -> acb (insts s' i) = acb (insts s i) /\ rcb (insts s' i) = rcb (insts s i)) ->
  LGC b c s' L.
Proof.
  intros [L1 L2] Ec Ed Hi. split.
  - intros i Hc. rewrite Ec in Hc. destruct (Hi i Hc) as [A B]. unfold pend. rewrite Ed, A, B. apply L1, Hc.
  - rewrite Ec. exact L2.
Qed.

Lemma lgc_task b c s i k L cvx nx ms gq : SH i k -> JC c i L b 0 k ->
  LGC b c {| Core.cv := cvx; Core.conns := Core.set_conn (conns s) c (tx k); Core.insts := Core.set_inst (insts s) i (ty k);
             Core.next := nx; Core.mqsub := ms; Core.getreq := gq |} (fold_left (lstep c) (to k) L).
Proof.
  intros Hsh [J1 J2]. unfold LGC. cbn [Core.conns Core.insts]. unfold Core.set_conn. rewrite Nat.eqb_refl. split.
  - intros i' Hc. destruct Hsh as [(G&C&D)|(G&C&D)]; [|congruence]. rewrite C in Hc. injection Hc as <-.
    unfold Core.set_inst. rewrite Nat.eqb_refl. specialize (J1 C). rewrite Nat.add_0_r in J1. exact J1.
  - exact J2.
Qed.

Lemma jc_start b c s x' i L : cur x' = Some i -> LGC b c s L -> cur (conns s c) = Some i -> direct x' = direct (conns s c) ->
  JC c i L b 0 (K0 s x' (insts s i)).
Proof.
  intros C [L1 L2] Ec Ed. split; cbn [Core.tx Core.ty]; [|congruence]. intros _. unfold Lk. cbn [Core.to fold_left].
  rewrite Ed, Nat.add_0_r. apply L1, Ec.
Qed.

Lemma lgc_step_conn b c s L : CInv (cv s) -> WF s -> LGC b c s L -> disc (conns s c) = false ->
  (b = true -> forall id k, snd (step s (Core.GrantConn upd c)) = [OAck c id k] -> k <= lcnt_ L) ->
  LGC b c (fst (step s (Core.GrantConn upd c))) (fold_left (lstep c) (snd (step s (Core.GrantConn upd c))) L).
Proof.
  intros Hinv Hw HL Hd. pose proof Hw as [W1 W2 W3 W4 W5 W6 W7]. pose proof HL as [L1 L2].
  destruct (cqueue (conns s c)) as [|it0 q0] eqn:Eq0; [rewrite step_conn_empty by exact Eq0; intros _; exact HL|].
  rewrite step_conn by (rewrite Eq0; discriminate).
  destruct (ct_spec s c) as [Eq|id q Eq Ec|id q i Eq Ec|id cnt q i Eq Ec|id cnt q Eq Ec|t q i Eq Ec|t q Eq Ec|i q Eq Eg|i q Eq Eg|i q Eq|q Eq];
    cbn [fst snd]; intros Hnu.
  - congruence.
  - (* new instance *)
    apply lgc_task.
    + eapply sh_mild; [apply x_load, ext_refl|]. left. cbn [Core.emit Core.act Core.tx Core.with_cd cur direct].
      repeat split; [|lia]. change (gone_ (next s) (actk (K0 s (Core.with_cd (Core.with_q (conns s c) q) (Some (next s)) 1) (ynew c)) (Conv.Subscribe upd (next s))) = false).
      rewrite gone_act. destruct (W3 (next s)) as (_&_&A&_); [lia|exact A].
    + match goal with |- JC _ _ _ _ _ (load_access c ?n ?K ?B) => destruct (cnt_load c n L K B) as [A1 A2] end.
      change (length (Core.ids_of [AReq id])) with 1 in A2.
      eapply (jc_mild c (next s) L b 0 1); [apply x_load, ext_refl|rewrite A1, A2; lia|cbn; discriminate|].
      split; [|cbn; discriminate]. intros _. rewrite Lk_emit, Lk_act. unfold Lk, pend. cbn [Core.emit Core.act Core.to Core.tx Core.ty Core.with_cd direct ynew acb rcb Core.ids_of flat_map length].
      assert (E : lcnt_ (fold_left (lstep c) (if mqsub s then [] else [OMqSub]) (fold_left (lstep c) [] L)) = lcnt_ L) by (destruct (mqsub s); reflexivity).
      rewrite E. destruct b; [rewrite (L2 Ec eq_refl); reflexivity|lia].
  - (* request *)
    destruct (W1 c i Ec) as (Hi&Ho&Hg&Hdir). apply lgc_task; [apply sh_body_req, Hg|]. apply jc_body_req; [exact Hg|].
    split; cbn [Core.tx Core.ty Core.with_cd cur direct]; [|discriminate]. intros _. unfold Lk. cbn [Core.to fold_left].
    specialize (L1 i Ec). destruct b; lia.
  - (* unsubscribe *)
    destruct (W1 c i Ec) as (Hi&Ho&Hg&Hdir). apply lgc_task; [apply sh_body_unsub; assumption|].
    apply jc_body_unsub; try assumption; [apply (jc_start b c s _ i L); auto|].
    intros Hb Hpos Hle. apply (Hnu Hb id cnt). unfold body_unsub. cbv zeta.
    destruct (Nat.eqb_spec cnt 0) as [E0|E0]; [lia|]. destruct (Nat.leb_spec cnt (direct (conns s c))) as [_|Hgt]; [|lia].
    match goal with |- to (remove_direct i ?K cnt) = _ => destruct (remove_direct_spec i K cnt) as (A&_) end. rewrite A.
    destruct (Nat.eqb (direct (conns s c) - cnt) 0); reflexivity.
  - (* unsubscribe without a subscription *)
    cbn [Core.emit Core.to Core.tx Core.ts List.app fold_left Core.lstep].
    apply (lgc_transfer b c s _ L HL); cbn [Core.conns Core.insts]; auto; unfold Core.set_conn; rewrite Nat.eqb_refl; reflexivity.
  - (* token *)
    destruct (W1 c i Ec) as (Hi&Ho&Hg&Hdir).
    assert (H0 : SH i (K0 s (xtok (conns s c) q t) (insts s i))) by (left; repeat split; assumption).
    assert (HJ : JC c i L b 0 (K0 s (xtok (conns s c) q t) (insts s i))) by (apply (jc_start b c s _ i L); auto).
    apply lgc_task.
    + destruct (tokset (conns s c)); [|exact H0]. eapply sh_mild; [apply x_reacc, ext_refl|exact H0].
    + destruct (tokset (conns s c)); [|exact HJ].
      match goal with |- JC _ _ _ _ _ (reaccess c i ?K) => destruct (cnt_reacc c i L K) as [A1 A2] end.
      eapply (jc_mild c i L b 0 0); [apply x_reacc, ext_refl|rewrite A1, A2; lia|intros _; rewrite A1; reflexivity|exact HJ].
  - (* token without *)
    cbn [Core.to Core.tx Core.ts fold_left].
    apply (lgc_transfer b c s _ L HL); cbn [Core.conns Core.insts]; auto; unfold Core.set_conn; rewrite Nat.eqb_refl; reflexivity.
  - (* answer for a disposed subscription *)
    cbn [Core.to Core.tx Core.ts Core.ty fold_left].
    apply (lgc_transfer b c s _ L HL); cbn [Core.conns Core.insts]; try (unfold Core.set_conn; rewrite Nat.eqb_refl; reflexivity).
    intros j _. inst_at j i; auto.
  - (* access answer *)
    destruct (W4 c (QAccess i)) as [Hi Ho]; [rewrite Eq; left; reflexivity|].
    assert (Ec : cur (conns s c) = Some i) by (rewrite <- Ho; apply W2; assumption).
    destruct (W1 c i Ec) as (_&_&_&Hdir).
    apply lgc_task; [apply sh_body_access; assumption|]. apply jc_body_access; try assumption. apply (jc_start b c s _ i L); auto.
  - (* item of a subscription's queue *)
    destruct (W4 c (QSub i)) as [Hi Ho]; [rewrite Eq; left; reflexivity|].
    destruct (sgone (csubs (cv s) i)) eqn:Eg.
    + destruct (body_sub_gone s c (conns s c) q i Hinv Eg) as (T1&T2&T3&T4&T5). cbv zeta in *. rewrite T1, T2, T3. cbn [fold_left].
      apply (lgc_transfer b c s _ L HL); cbn [Core.conns Core.insts]; try (unfold Core.set_conn; rewrite Nat.eqb_refl; reflexivity).
      intros j _. inst_at j i; auto.
    + assert (Ec : cur (conns s c) = Some i) by (rewrite <- Ho; apply W2; assumption).
      destruct (W1 c i Ec) as (_&_&_&Hdir).
      apply lgc_task; [apply sh_body_sub; assumption|]. apply jc_body_sub; try assumption. apply (jc_start b c s _ i L); auto.
  - (* disposal *)
    exfalso. specialize (W4 c QDispose). cbn [okitem] in W4. rewrite W4 in Hd; [discriminate|rewrite Eq; left; reflexivity].
Qed.

(* ---------------- a connection worker leaves the other connections alone ---------------- *)
Lemma task_oi s c : WF s ->
  forall i, snd (fst (fst (conn_task s c))) = Some i -> (i < next s /\ owner (insts s i) = c) \/ i = next s.
Proof.
  intros [W1 W2 W3 W4 W5 W6 W7] i0.
  destruct (ct_spec s c) as [Eq|id q Eq Ec|id q i Eq Ec|id cnt q i Eq Ec|id cnt q Eq Ec|t q i Eq Ec|t q Eq Ec|i q Eq Eg|i q Eq Eg|i q Eq|q Eq];
    cbn [fst snd]; intros E; try discriminate E; try (injection E as <-).
  - right; reflexivity.
  - left. destruct (W1 c i Ec) as (A&B&_). auto.
  - left. destruct (W1 c i Ec) as (A&B&_). auto.
  - left. destruct (W1 c i Ec) as (A&B&_). auto.
  - left. apply (W4 c (QAccess i)). rewrite Eq. left; reflexivity.
  - left. apply (W4 c (QAccess i)). rewrite Eq. left; reflexivity.
  - left. apply (W4 c (QSub i)). rewrite Eq. left; reflexivity.
  - left. destruct (W1 c i0 E) as (A&B&_). auto.
Qed.

Lemma outs_addr s c0 : Forall (addr c0) (snd (step s (Core.GrantConn upd c0))).
Proof.
  destruct (cqueue (conns s c0)) as [|it q] eqn:Eq; [rewrite step_conn_empty by exact Eq; constructor|].
  rewrite step_conn by (rewrite Eq; discriminate).
  destruct (task_shape s c0) as (_&_&_&Hc). cbv zeta in Hc. destruct (conn_task s c0) as [[[k oi] nx] ms]. cbn [fst snd] in *.
  destruct Hc as [(_&_&_&A4)|[(_&_&_&_&_&_&A6&_)|(_&_&_&_&_&A5&_)]].
  - eapply Forall_impl; [|exact A4]. apply tout_addr.
  - rewrite A6. destruct (mqsub s); repeat constructor.
  - rewrite A5. repeat constructor.
Qed.

Lemma conns_other s c0 c : c <> c0 -> conns (fst (step s (Core.GrantConn upd c0))) c = conns s c.
Proof.
  intros Hne. destruct (cqueue (conns s c0)) as [|it q] eqn:Eq; [rewrite step_conn_empty by exact Eq; reflexivity|].
  rewrite step_conn by (rewrite Eq; discriminate). destruct (conn_task s c0) as [[[k oi] nx] ms]. cbn [fst Core.conns].
  unfold Core.set_conn. destruct (Nat.eqb_spec c c0); [contradiction|reflexivity].
Qed.

Lemma insts_other s c0 j : WF s -> j < next s -> owner (insts s j) <> c0 ->
  insts (fst (step s (Core.GrantConn upd c0))) j = insts s j.
Proof.
  intros Hw Hj Ho. destruct (cqueue (conns s c0)) as [|it q] eqn:Eq; [rewrite step_conn_empty by exact Eq; reflexivity|].
  rewrite step_conn by (rewrite Eq; discriminate). pose proof (task_oi s c0 Hw) as Hoi.
  destruct (conn_task s c0) as [[[k oi] nx] ms]. cbn [fst snd Core.insts] in *.
  destruct oi as [i|]; [|reflexivity]. unfold Core.set_inst. destruct (Nat.eqb_spec j i) as [->|]; [|reflexivity].
  destruct (Hoi i eq_refl) as [[_ E]|E]; [congruence|lia].
Qed.

Lemma subs_other_conn s c0 j : WF s -> j < next s -> owner (insts s j) <> c0 ->
  csubs (cv (fst (step s (Core.GrantConn upd c0)))) j = csubs (cv s) j.
Proof.
  intros Hw Hj Ho. rewrite step_cv. cbn [Core.acts_of]. pose proof (task_oi s c0 Hw) as Hoi.
  destruct (task_shape s c0) as (_&_&_&Hc). cbv zeta in Hc. destruct (conn_task s c0) as [[[k oi] nx] ms]. cbn [fst snd] in *.
  apply subs_others.
  destruct Hc as [(_&_&A3&_)|[(_&_&A2&_&_&A5&_)|(_&_&_&_&A4&_)]].
  - eapply Forall_impl; [|exact A3]. intros a X. destruct (tact_tgt _ a X) as (T1&T2&_). split; [|exact T2].
    rewrite T1. intros E. destruct (Hoi j E) as [[_ E']|E']; [congruence|lia].
  - rewrite A5. constructor; [|constructor]. split; [|discriminate]. cbn [tgt]. intros E. injection E as E. lia.
  - rewrite A4. apply Forall_forall. intros a Hin. apply in_map_iff in Hin. destruct Hin as (j' & <- & Hin).
    unfold Core.insts_of in Hin. apply filter_In in Hin. destruct Hin as [_ H2]. apply Nat.eqb_eq in H2.
    split; [|discriminate]. cbn [tgt]. intros E. injection E as ->. congruence.
Qed.

Lemma disc_mono s o c : disc (conns s c) = true -> disc (conns (fst (step s o)) c) = true.
Proof.
  intros H. rename c into cl. destruct o as [c id|c id k|c|c t|i g| |u| | | |c]; unfold Core.step.
  - destruct (disc (conns s c)); [exact H|]. cbn [fst Core.conns]. conn_at cl c; auto.
  - destruct (disc (conns s c)); [exact H|]. cbn [fst Core.conns]. conn_at cl c; auto.
  - destruct (disc (conns s c)); [exact H|]. cbn [fst Core.conns]. conn_at cl c; auto.
  - destruct (Core.is_done (conns s c)); [exact H|]. cbn [fst Core.conns]. conn_at cl c; auto.
  - destruct (_ && _); exact H.
  - exact H.
  - exact H.
  - exact H.
  - exact H.
  - cbn [fst Core.conns].
    match goal with |- disc (Core.pass _ _ ?σ ?own (Core.fan _ _ _ ?σ' _ ?n ?f) _) = _ => destruct (grant_conns σ σ' own n f cl) as (_&_&_&B&_) end.
    rewrite B. exact H.
  - fold (step s (Core.GrantConn upd c)). destruct (Nat.eq_dec cl c) as [->|Hne]; [|rewrite conns_other by exact Hne; exact H].
    destruct (cqueue (conns s c)) as [|it q] eqn:Eq; [rewrite step_conn_empty by exact Eq; exact H|].
    rewrite step_conn by (rewrite Eq; discriminate). destruct (task_shape s c) as (_&_&Hd&_). cbv zeta in Hd.
    destruct (conn_task s c) as [[[k oi] nx] ms]. cbn [fst Core.conns] in *. unfold Core.set_conn. rewrite Nat.eqb_refl, Hd. exact H.
Qed.

Lemma lgc_step_nonconn b cl s o L : (forall c0, o <> Core.GrantConn upd c0) -> LGC b cl s L ->
  LGC b cl (fst (step s o)) (fold_left (lstep cl) (snd (step s o)) L).
Proof.
  intros Ho HL. destruct o as [c id|c id k|c|c t|i g| |u| | | |c]; unfold Core.step; try (exfalso; eapply Ho; reflexivity).
  - destruct (disc (conns s c)); [exact HL|]. cbn [fst snd fold_left].
    apply (lgc_transfer b cl s _ L HL); cbn [Core.conns Core.insts]; auto; conn_at cl c; reflexivity.
  - destruct (disc (conns s c)); [exact HL|]. cbn [fst snd fold_left].
    apply (lgc_transfer b cl s _ L HL); cbn [Core.conns Core.insts]; auto; conn_at cl c; reflexivity.
  - destruct (disc (conns s c)); [exact HL|]. cbn [fst snd fold_left].
    apply (lgc_transfer b cl s _ L HL); cbn [Core.conns Core.insts]; auto; conn_at cl c; reflexivity.
  - destruct (Core.is_done (conns s c)); [exact HL|]. cbn [fst snd fold_left].
    apply (lgc_transfer b cl s _ L HL); cbn [Core.conns Core.insts]; auto; conn_at cl c; reflexivity.
  - destruct (_ && _); [|exact HL]. cbn [fst snd fold_left].
    apply (lgc_transfer b cl s _ L HL); cbn [Core.conns Core.insts]; auto. intros j _. inst_at j i; auto.
  - cbn [fst snd fold_left]. apply (lgc_transfer b cl s _ L HL); cbn [Core.conns Core.insts]; auto.
  - cbn [fst snd fold_left]. apply (lgc_transfer b cl s _ L HL); cbn [Core.conns Core.insts]; auto.
  - cbn [fst snd fold_left]. apply (lgc_transfer b cl s _ L HL); cbn [Core.conns Core.insts]; auto.
  - cbn [fst snd fold_left]. apply (lgc_transfer b cl s _ L HL); cbn [Core.conns Core.insts]; auto.
  - cbn [fst snd].
    assert (E : forall bb : bool, fold_left (lstep cl) (if bb then [OGetReq] else []) L = L) by (intros []; reflexivity).
    rewrite E. apply (lgc_transfer b cl s _ L HL); cbn [Core.conns Core.insts]; auto.
    + match goal with |- cur (Core.pass _ _ ?σ ?own (Core.fan _ _ _ ?σ' _ ?n ?f) _) = _ => destruct (grant_conns σ σ' own n f cl) as (_&B&_) end. exact B.
    + match goal with |- direct (Core.pass _ _ ?σ ?own (Core.fan _ _ _ ?σ' _ ?n ?f) _) = _ => destruct (grant_conns σ σ' own n f cl) as (_&_&B&_) end. exact B.
Qed.

Lemma lgc_step_otherconn b cl c0 s L : WF s -> cl <> c0 -> LGC b cl s L ->
  LGC b cl (fst (step s (Core.GrantConn upd c0))) (fold_left (lstep cl) (snd (step s (Core.GrantConn upd c0))) L).
Proof.
  intros Hw Hne HL. rewrite (fold_other cl c0 _ Hne (outs_addr s c0)).
  apply (lgc_transfer b cl s _ L HL).
  - rewrite conns_other by exact Hne. reflexivity.
  - rewrite conns_other by exact Hne. reflexivity.
  - intros i Hc. destruct (w_cur _ Hw cl i Hc) as (Hi & Ho & _). rewrite insts_other by (auto; congruence). auto.
Qed.

Lemma nu_prefix c outs o : no_underflow c (outs ++ o) -> no_underflow c outs.
Proof. intros H pre id k post E. apply (H pre id k (post ++ o)). rewrite E, <- app_assoc. reflexivity. Qed.

Lemma lgc_exec b t ops c :
  let s := fst (exec t ops) in let outs := snd (exec t ops) in
  disc (conns s c) = false -> (b = true -> no_underflow c outs) -> LGC b c s (client c outs).
Proof.
  apply (exec_ind (fun s outs => disc (conns s c) = false -> (b = true -> no_underflow c outs) -> LGC b c s (client c outs))).
  - intros _ _. split; cbn; [discriminate|reflexivity].
  - intros ops' o s outs IH Hd Hnu.
    assert (Hd0 : disc (conns s c) = false).
    { destruct (disc (conns s c)) eqn:E; [|reflexivity]. rewrite (disc_mono s o c E) in Hd. discriminate. }
    specialize (IH Hd0 (fun Hb => nu_prefix _ _ _ (Hnu Hb))). rewrite client_app.
    assert (Ho : (exists c0, o = Core.GrantConn upd c0) \/ forall c0, o <> Core.GrantConn upd c0).
    { destruct o; try (right; intros; discriminate). left; eexists; reflexivity. }
    destruct Ho as [[c0 ->]|Ho]; [|apply lgc_step_nonconn; assumption].
    destruct (Nat.eq_dec c c0) as [<-|Hne]; [|apply lgc_step_otherconn; [apply wf_exec|exact Hne|exact IH]].
    apply lgc_step_conn; [apply core_conv_inv|apply wf_exec|exact IH|exact Hd0|].
    intros Hb id k E. apply (Hnu Hb outs id k []). rewrite E. reflexivity.
Qed.

Theorem core_direct_count : forall t ops c,
  let s := fst (exec t ops) in let outs := snd (exec t ops) in
  Core.disc (conns s c) = false -> no_underflow c outs ->
  Core.direct (conns s c) = Core.lcnt val (client c outs) + Core.pending val upd s c.
Proof.
  intros t ops c. cbv zeta. intros Hd Hnu. destruct (lgc_exec true t ops c Hd (fun _ => Hnu)) as [L1 L2].
  unfold Core.pending. destruct (cur (conns (fst (exec t ops)) c)) as [i|] eqn:Ec.
  - rewrite (L1 i eq_refl). unfold pend. lia.
  - rewrite (L2 eq_refl eq_refl), (w_dir _ (wf_exec t ops) c Ec). reflexivity.
Qed.

Theorem core_direct_le : forall t ops c,
  let s := fst (exec t ops) in let outs := snd (exec t ops) in
  Core.disc (conns s c) = false ->
  Core.direct (conns s c) <= Core.lcnt val (client c outs) + Core.pending val upd s c.
Proof.
  intros t ops c. cbv zeta. intros Hd. destruct (lgc_exec false t ops c Hd) as [L1 L2]; [discriminate|].
  unfold Core.pending. destruct (cur (conns (fst (exec t ops)) c)) as [i|] eqn:Ec.
  - specialize (L1 i eq_refl). unfold pend in L1. cbv beta iota in L1. lia.
  - rewrite (w_dir _ (wf_exec t ops) c Ec). lia.
Qed.

(* ================= C: the client's copy ================= *)
(* the effect of the handler actions on the subscription *)
Lemma respond_all_sub σ i : sloaded (csubs σ i) = true -> ssent (csubs σ i) = false ->
  let x := csubs σ i in let x' := csubs (cstep σ (Conv.Respond upd i (length (seq_ x)))) i in
  ssent x' = true /\ sloaded x' = true /\ sflag x' = false /\
  ssval x' = snd (Conv.replay val upd app (ssver x, ssval x) (seq_ x)).
Proof.
  intros Hl Hs. cbn zeta. cbn [Conv.step]. rewrite Hl, Hs. cbn [andb negb Conv.subs]. rewrite Conv.set_sub_eq.
  unfold Conv.drain. cbn [Conv.with_sub Conv.eq Conv.sver Conv.sval Conv.sent].
  rewrite firstn_all, skipn_all.
  destruct (Conv.replay val upd app (ssver (csubs σ i), ssval (csubs σ i)) (seq_ (csubs σ i))) as [ver v].
  cbn [Conv.with_sub Conv.sent Conv.loaded Conv.flag Conv.gone Conv.sval snd]. auto.
Qed.
Lemma respond_none_sub σ i : sloaded (csubs σ i) = true -> ssent (csubs σ i) = false ->
  let x := csubs σ i in let x' := csubs (cstep σ (Conv.Respond upd i 0)) i in
  ssent x' = true /\ sloaded x' = true /\ ssval x' = ssval x.
Proof.
  intros Hl Hs. cbn zeta. cbn [Conv.step]. rewrite Hl, Hs. cbn [andb negb Conv.subs]. rewrite Conv.set_sub_eq.
  unfold Conv.drain. cbn [Conv.with_sub Conv.eq Conv.sver Conv.sval Conv.sent firstn skipn Conv.replay fold_left].
  cbn [Conv.with_sub Conv.sent Conv.loaded Conv.flag Conv.gone Conv.sval snd]. auto.
Qed.
Lemma respond_noop σ i n : sloaded (csubs σ i) && negb (ssent (csubs σ i)) = false -> cstep σ (Conv.Respond upd i n) = σ.
Proof. intros H. cbn [Conv.step]. rewrite H. reflexivity. Qed.
Lemma unqueue_all_sub σ i : sloaded (csubs σ i) = true -> ssent (csubs σ i) = true -> sflag (csubs σ i) = true ->
  let x := csubs σ i in let x' := csubs (cstep σ (Conv.Unqueue upd i (length (seq_ x)))) i in
  ssent x' = true /\ sloaded x' = true /\ sflag x' = false /\
  ssval x' = snd (Conv.replay val upd app (ssver x, ssval x) (seq_ x)).
Proof.
  intros Hl Hs Hf. cbn zeta. cbn [Conv.step]. rewrite Hl, Hs, Hf. cbn [andb negb Conv.subs]. rewrite Conv.set_sub_eq.
  unfold Conv.drain. rewrite firstn_all, skipn_all.
  destruct (Conv.replay val upd app (ssver (csubs σ i), ssval (csubs σ i)) (seq_ (csubs σ i))) as [ver v].
  cbn [Conv.with_sub Conv.sent Conv.loaded Conv.flag Conv.gone Conv.sval snd]. auto.
Qed.
Lemma unqueue_noop σ i n : sloaded (csubs σ i) && ssent (csubs σ i) && sflag (csubs σ i) = false -> cstep σ (Conv.Unqueue upd i n) = σ.
Proof. intros H. cbn [Conv.step]. rewrite H. reflexivity. Qed.
Lemma startq_sub σ i :
  let x := csubs σ i in let x' := csubs (cstep σ (Conv.StartQueue upd i)) i in
  ssent x' = ssent x /\ sloaded x' = sloaded x /\ ssval x' = ssval x /\ seq_ x' = seq_ x /\
  sflag x' = (sloaded x && ssent x || sflag x).
Proof.
  cbn zeta. cbn [Conv.step]. destruct (sloaded (csubs σ i) && ssent (csubs σ i)) eqn:E; [|repeat split].
  cbn [Conv.subs]. rewrite Conv.set_sub_eq. cbn. repeat split.
Qed.

Notation no_bare_resp := (Core.no_bare_resp val upd app).

Section Copy.
Variables (c i : nat) (L0 : ledger_).
Notation Lk := (Lk c L0).
Definition NB (lo : list out_) : Prop :=
  forall pre id post, lo = pre ++ OResp c id None :: post -> 0 < lcnt_ (fold_left (lstep c) pre L0).
Definition JVB (k : tk_) : Prop :=
  cur (tx k) = Some i -> 0 < lcnt_ (Lk k) ->
  sent_ i k = true /\ loaded_ i k = true /\ lcopy_ (Lk k) = Some (ssval (me i k)).
Definition JV (k : tk_) : Prop := CInv (ts k) /\ (NB (to k) -> JVB k).

Lemma nb_prefix l1 l2 : NB (l1 ++ l2) -> NB l1.
Proof. intros H pre id post E. apply (H pre id (post ++ l2)). rewrite E, <- app_assoc. reflexivity. Qed.
Lemma nb_ext m k k' : ext m c i k k' -> NB (to k') -> NB (to k).
Proof. intros [_ (lo&B1&_) _ _ _ _ _ _] H. rewrite B1 in H. eapply nb_prefix, H. Qed.
Lemma inv_ext m k k' : ext m c i k k' -> CInv (ts k) -> CInv (ts k').
Proof. intros [(la&_&A2&_) _ _ _ _ _ _ _] H. rewrite A2. apply acts_inv, H. Qed.
Lemma nb_last l id : NB (l ++ [OResp c id None]) -> 0 < lcnt_ (fold_left (lstep c) l L0).
Proof. intros H. apply (H l id []). reflexivity. Qed.

(* fields of the subscription as a task sees them *)
Definition same_fields (k' k : tk_) : Prop :=
  sent_ i k' = sent_ i k /\ loaded_ i k' = loaded_ i k /\ ssval (me i k') = ssval (me i k).

Lemma jvb_same k k' : tx k' = tx k -> Lk k' = Lk k -> same_fields k' k -> JVB k -> JVB k'.
Proof. unfold JVB. intros E1 E2 (A&B&C) H. rewrite E1, E2, A, B, C. exact H. Qed.

Lemma load_fields k b : tx (load_access c i k b) = tx k /\ ts (load_access c i k b) = ts k.
Proof. unfold Core.load_access. cbv zeta. destruct (inflight (ty k)); split; reflexivity. Qed.
Lemma hreacc_fields k : tx (handle_reaccess c i k) = tx k /\ same_fields (handle_reaccess c i k) k.
Proof.
  unfold Core.handle_reaccess. cbv zeta. cbn [Core.sety Core.tx]. destruct (Nat.eqb (direct (tx k)) 0); [split; [|split; [|split]]; reflexivity|].
  match goal with |- context [load_access c i ?K AVal] => destruct (load_fields K AVal) as [A B] end.
  rewrite A. split; [reflexivity|]. unfold same_fields, Core.sent_, Core.loaded_, Core.me. rewrite B. cbn [Core.act Core.sety Core.ts].
  destruct (startq_sub (ts k) i) as (S1&S2&S3&_). cbn zeta in *. rewrite S1, S2, S3. repeat split.
Qed.
Lemma jv_load k b : JV k -> JV (load_access c i k b).
Proof.
  intros [Hi HJ]. split; [eapply inv_ext; [apply (x_load true), ext_refl|exact Hi]|]. intros HNB.
  specialize (HJ (nb_ext _ _ _ (x_load true c i k k b (ext_refl _ _ _ _)) HNB)).
  destruct (load_fields k b) as [A B]. destruct (cnt_load c i L0 k b) as [C _].
  apply (jvb_same k); auto. unfold same_fields, Core.sent_, Core.loaded_, Core.me. rewrite B. repeat split.
Qed.
Lemma jv_hreacc k : JV k -> JV (handle_reaccess c i k).
Proof.
  intros [Hi HJ]. split; [eapply inv_ext; [apply (x_hreacc true), ext_refl|exact Hi]|]. intros HNB.
  specialize (HJ (nb_ext _ _ _ (x_hreacc true c i k k (ext_refl _ _ _ _)) HNB)).
  destruct (hreacc_fields k) as [A B]. destruct (cnt_hreacc c i L0 k) as [C _]. apply (jvb_same k); auto.
Qed.
Lemma jv_reacc k : JV k -> JV (reaccess c i k).
Proof.
  intros H. unfold Core.reaccess. destruct (gone_ i k); [exact H|]. destruct (flag_ i k); [exact H|apply jv_hreacc, H].
Qed.
Lemma jvb_emit_bare K r :
  (cur (tx K) = Some i -> sent_ i K = true /\ loaded_ i K = true /\ lcopy_ (Lk K) = Some (ssval (me i K))) ->
  JVB (emit K (map (fun id' => OResp c id' None) r)).
Proof. intros H Hc _. rewrite Lk_emit, fold_resp_none. cbn [Core.lcopy]. exact (H Hc). Qed.

Lemma jv_respond k ids : loaded_ i k = true -> JV k -> JV (respond c i k ids).
Proof.
  intros Hl [Hi HJ]. split; [eapply inv_ext; [apply (x_respond true), ext_refl|exact Hi]|]. intros HNB.
  specialize (HJ (nb_ext _ _ _ (x_respond true c i k k ids (ext_refl _ _ _ _)) HNB)).
  unfold Core.respond in *. destruct ids as [|id r]; [exact HJ|]. cbv zeta in *.
  apply nb_prefix in HNB. apply jvb_emit_bare. unfold Core.sent_, Core.loaded_, Core.me in *.
  destruct (ssent (csubs (ts k) i)) eqn:Es.
  - intros Hc. cbn [Core.emit Core.to] in HNB. apply nb_last in HNB. destruct (HJ Hc HNB) as (A&B&C).
    cbn [Core.emit Core.ts]. rewrite Lk_emit. cbn [fold_left Core.lstep]. rewrite Nat.eqb_refl. cbn [Core.lcopy]. auto.
  - cbn [Core.emit Core.ty Core.ts]. destruct (reflag (ty k)).
    + intros Hc. destruct (hreacc_fields (actk (emit k [OResp c id (Some (ssval (csubs (ts k) i)))]) (Conv.Respond upd i 0))) as [_ (F1&F2&F3)].
      unfold Core.sent_, Core.loaded_, Core.me in F1, F2, F3. rewrite F1, F2, F3.
      match goal with |- context [Lk (handle_reaccess c i ?K)] => destruct (cnt_hreacc c i L0 K) as [C _] end. rewrite C.
      cbn [Core.act Core.emit Core.ts]. destruct (respond_none_sub (ts k) i Hl Es) as (R1&R2&R3). cbn zeta in *.
      rewrite R1, R2, R3, Lk_act, Lk_emit. cbn [fold_left Core.lstep]. rewrite Nat.eqb_refl. cbn [Core.lcopy]. auto.
    + intros Hc. cbn [Core.act Core.emit Core.ts]. destruct (respond_all_sub (ts k) i Hl Es) as (R1&R2&R3&R4). cbn zeta in *.
      rewrite R1, R2, R4. repeat split. rewrite Lk_emit, Lk_act, Lk_emit. cbn [fold_left Core.lstep]. rewrite Nat.eqb_refl.
      unfold Core.drained. cbn [Core.emit Core.ts]. rewrite fold_replay_o. reflexivity.
Qed.
Lemma jv_ready k id : JV k -> JV (on_ready c i k id).
Proof.
  intros H. unfold Core.on_ready. destruct (loaded_ i k) eqn:El; [apply jv_respond; assumption|]. cbv zeta. exact H.
Qed.
Lemma jv_emit k o : (forall L, fold_left (lstep c) o L = L) -> JV k -> JV (emit k o).
Proof.
  intros Ho [Hi HJ]. split; [exact Hi|]. intros HNB. cbn [Core.emit Core.to] in HNB. apply nb_prefix in HNB. specialize (HJ HNB).
  apply (jvb_same k); [reflexivity|rewrite Lk_emit; apply Ho|repeat split|exact HJ].
Qed.
Lemma jv_unqueue k : JV k -> JV (unqueue_reaccess c i k).
Proof.
  intros H. pose proof H as [Hi HJ]. unfold Core.unqueue_reaccess. cbv zeta.
  match goal with |- context [if gone_ i ?K then _ else _] => destruct (gone_ i K) end; [exact H|].
  match goal with |- context [if reflag ?y then _ else _] => destruct (reflag y) end; [apply jv_hreacc; exact H|].
  split; [cbn [Core.emit Core.act Core.sety Core.ts]; apply cstep_inv, Hi|]. intros HNB.
  cbn [Core.emit Core.act Core.sety Core.to] in HNB. apply nb_prefix in HNB. specialize (HJ HNB).
  intros Hc Hp. rewrite Lk_emit, Lk_act, Lk_sety in *. unfold Core.drained in *. rewrite lcnt_replay_o in Hp.
  destruct (HJ Hc Hp) as (A&B&C). unfold Core.sent_, Core.loaded_, Core.me in *. cbn [Core.emit Core.act Core.sety Core.ts] in *.
  destruct (sflag (csubs (ts k) i)) eqn:Ef.
  - destruct (unqueue_all_sub (ts k) i B A Ef) as (R1&R2&R3&R4). cbn zeta in *. rewrite R1, R2, R4. repeat split.
    rewrite (ledger_eta (Lk k)), C, fold_replay_o. reflexivity.
  - rewrite unqueue_noop by (rewrite Ef; destruct (sloaded _), (ssent _); reflexivity).
    rewrite (Conv.i8 _ _ _ _ Hi i Ef). cbn [Core.replay_o fold_left]. auto.
Qed.
Lemma remove_keep K n : cur (tx (remove_direct i K n)) = Some i ->
  ts (remove_direct i K n) = ts K /\ ty (remove_direct i K n) = ty K /\ to (remove_direct i K n) = to K /\ cur (tx K) = Some i.
Proof.
  unfold Core.remove_direct. destruct (Nat.eqb (direct (tx K)) 0); [auto|]. cbv zeta.
  match goal with |- context [if ?b then _ else _] => destruct b end; [|cbn; auto].
  unfold Core.dispose_t. match goal with |- context [if ?b then _ else _] => destruct b end; [cbn; auto|]. cbv zeta. cbn. discriminate.
Qed.
Lemma jv_remove k n : JV k -> JV (remove_direct i k n).
Proof.
  intros [Hi HJ]. split; [eapply inv_ext; [apply x_remove, ext_refl|exact Hi]|]. intros HNB.
  intros Hc. destruct (remove_keep k n Hc) as (A&B&C&D).
  assert (EL : Lk (remove_direct i k n) = Lk k)
    by (change (fold_left (lstep c) (to (remove_direct i k n)) L0 = fold_left (lstep c) (to k) L0); rewrite C; reflexivity).
  rewrite C in HNB. rewrite EL. unfold Core.sent_, Core.loaded_, Core.me in *. rewrite A. exact (HJ HNB D).
Qed.
Lemma jv_unsubd k : JV k -> JV (unsubscribe_direct c i k).
Proof.
  intros H. pose proof H as [Hi HJ]. unfold Core.unsubscribe_direct. destruct (Nat.ltb 0 (direct (tx k))); [|exact H].
  split; [eapply (inv_ext false k); [apply x_emit; [apply x_remove, ext_refl|repeat constructor]|exact Hi]|]. intros _ _.
  rewrite Lk_emit. cbn [fold_left Core.lstep]. rewrite Nat.eqb_refl. cbn [Core.lcnt]. lia.
Qed.
Lemma jv_run_cb g k b : JV k -> JV (run_cb c i g k b).
Proof.
  intros H. unfold Core.run_cb. destruct b as [id|].
  - destruct g; [destruct (gone_ i k); [exact H|apply jv_ready, H]|]. apply jv_remove, jv_emit; [reflexivity|exact H].
  - apply jv_unqueue. destruct g; [exact H|apply jv_unsubd, H].
Qed.
Lemma jv_run_cbs g l : forall k, JV k -> JV (fold_left (run_cb c i g) l k).
Proof. induction l as [|b l IH]; intros k H; [exact H|]. cbn [fold_left]. apply IH, jv_run_cb, H. Qed.
End Copy.

(* ---- the head item of a subscription's queue ---- *)
Lemma runc_nil σ i : scq (csubs σ i) = [] -> cstep σ (Conv.RunC upd i) = σ.
Proof. intros H. cbn [Conv.step]. rewrite H. reflexivity. Qed.
Lemma loaded_head σ i q : CInv σ -> scq (csubs σ i) = Conv.CLoaded upd :: q -> sloaded (csubs σ i) = false.
Proof.
  intros H E. pose proof (Conv.i4 _ _ _ _ H i) as H4. rewrite E, Conv.cnt_cons in H4. cbn [Conv.is_ld Conv.b2n] in H4.
  pose proof (Conv.b2n_le (Conv.mem i (Conv.rs_subs val upd σ) && Conv.rs_loaded val upd σ)).
  destruct (sloaded (csubs σ i)); [cbn [Conv.b2n] in H4; lia|reflexivity].
Qed.
Lemma runc_loaded_fields σ i q : scq (csubs σ i) = Conv.CLoaded upd :: q -> sgone (csubs σ i) = false ->
  let x1 := csubs (cstep σ (Conv.RunC upd i)) i in
  sloaded x1 = true /\ ssent x1 = false /\ seq_ x1 = [] /\ sflag x1 = true.
Proof. intros E G. cbn zeta. cbn [Conv.step]. rewrite E, G. cbn [Conv.subs]. rewrite Conv.set_sub_eq. cbn. auto. Qed.
Lemma runc_event_fields σ i e q : scq (csubs σ i) = Conv.CEvent upd e :: q ->
  let x := csubs σ i in let x1 := csubs (cstep σ (Conv.RunC upd i)) i in
  sloaded x1 = sloaded x /\ ssent x1 = ssent x /\
  (sloaded x && negb (sflag x) = true -> sflag x1 = false /\ ssval x1 = snd (Conv.proc val upd app (ssver x, ssval x) e)) /\
  (sloaded x && negb (sflag x) = false -> sflag x1 = sflag x /\ ssval x1 = ssval x).
Proof.
  intros E. cbn zeta. cbn [Conv.step]. rewrite E. cbn [Conv.subs]. rewrite Conv.set_sub_eq.
  destruct (sloaded (csubs σ i)) eqn:El; cbn [negb andb].
  - destruct (sflag (csubs σ i)) eqn:Ef; cbn [negb].
    + cbn. repeat split; auto; discriminate.
    + destruct (Conv.proc val upd app (ssver (csubs σ i), ssval (csubs σ i)) e) as [ver v]. cbn. repeat split; auto; discriminate.
  - cbn. repeat split; auto; discriminate.
Qed.
Lemma runc_reacc_fields σ i q : scq (csubs σ i) = Conv.CReacc upd :: q ->
  let x := csubs σ i in let x1 := csubs (cstep σ (Conv.RunC upd i)) i in
  sloaded x1 = sloaded x /\ ssent x1 = ssent x /\ sflag x1 = sflag x /\ ssval x1 = ssval x /\ seq_ x1 = seq_ x.
Proof. intros E. cbn zeta. cbn [Conv.step]. rewrite E. cbn [Conv.subs]. rewrite Conv.set_sub_eq. cbn. auto. Qed.

(* ---- the bodies keep the copy ---- *)
Lemma jv_body_req s c x id q i L :
  JV c i L (K0 s (Core.with_cd (Core.with_q x q) (Some i) (S (direct x))) (insts s i)) -> JV c i L (body_req s c x id q i).
Proof.
  intros H. unfold body_req. cbv zeta. destruct (acc (insts s i)) as [[|]|].
  - apply jv_ready, H.
  - apply jv_remove, jv_emit; [reflexivity|exact H].
  - apply jv_load, H.
Qed.
Lemma jv_body_unsub s c x id cnt q i L : JV c i L (K0 s (Core.with_q x q) (insts s i)) -> JV c i L (body_unsub s c x id cnt q i).
Proof.
  intros H. unfold body_unsub. cbv zeta. destruct (Nat.eqb cnt 0); [apply jv_emit; [reflexivity|exact H]|].
  destruct (Nat.leb cnt (direct x)); [|apply jv_emit; [reflexivity|exact H]].
  apply jv_remove.
  assert (H1 : JV c i L (emit (K0 s (Core.with_q x q) (insts s i)) [OAck c id cnt])).
  { destruct H as [Hi HJ]. split; [exact Hi|]. intros _. specialize (HJ ltac:(intros pre id' post E; destruct pre; discriminate E)).
    intros Hc. rewrite Lk_emit. unfold Lk in *. cbn [Core.to Core.emit Core.tx fold_left Core.lstep] in *. rewrite Nat.eqb_refl. cbn [Core.lcnt Core.lcopy].
    intros Hp. unfold JVB, Lk in HJ. cbn [Core.to Core.tx fold_left] in HJ. destruct (HJ Hc) as (A&B&C); [lia|]. repeat split; auto.
    destruct (Nat.eqb_spec (lcnt_ L - cnt) 0); [lia|exact C]. }
  destruct (Nat.eqb (direct x - cnt) 0); exact H1.
Qed.
Lemma jv_body_access s c x q i L : JV c i L (K0 s (Core.with_q x q) (insts s i)) -> JV c i L (body_access s c x q i).
Proof.
  intros H. unfold body_access. cbv zeta. destruct (ans (insts s i)) as [g|]; [|exact H]. apply jv_run_cbs. exact H.
Qed.
Lemma jv_body_sub s c x q i L : sgone (csubs (cv s) i) = false ->
  JV c i L (K0 s (Core.with_q x q) (insts s i)) -> JV c i L (body_sub s c x q i).
Proof.
  intros G H. pose proof H as [Hi HJ]. cbn [Core.ts] in Hi.
  specialize (HJ ltac:(intros pre id' post E; destruct pre; discriminate E)).
  unfold JVB, Lk, Core.sent_, Core.loaded_, Core.me in HJ. cbn [Core.tx Core.ts Core.to fold_left] in HJ.
  unfold body_sub. cbv zeta. destruct (scq (csubs (cv s) i)) as [|[|e|] q'] eqn:Ecq.
  - split; [cbn [Core.act Core.ts]; apply cstep_inv, Hi|]. intros _. unfold JVB, Lk, Core.sent_, Core.loaded_, Core.me.
    cbn [Core.act Core.tx Core.ts Core.to fold_left]. rewrite (runc_nil _ _ Ecq). exact HJ.
  - rewrite G. apply jv_respond.
    + unfold Core.loaded_, Core.me. cbn [Core.act Core.sety Core.ts]. destruct (runc_loaded_fields _ _ _ Ecq G) as (F1&_). exact F1.
    + split; [cbn [Core.act Core.sety Core.ts]; apply cstep_inv, Hi|]. intros _. unfold JVB, Lk, Core.sent_, Core.loaded_, Core.me.
      cbn [Core.act Core.sety Core.tx Core.ts Core.to fold_left]. intros Hc Hp. destruct (HJ Hc Hp) as (_&B&_).
      rewrite (loaded_head _ _ _ Hi Ecq) in B. discriminate.
  - split; [cbn [Core.emit Core.act Core.ts]; apply cstep_inv, Hi|]. intros _. unfold JVB, Core.sent_, Core.loaded_, Core.me.
    rewrite Lk_emit, Lk_act. unfold Lk. cbn [Core.emit Core.act Core.tx Core.ts Core.to]. change (fold_left (lstep c) [] L) with L.
    destruct (runc_event_fields _ _ _ _ Ecq) as (F1&F2&F3&F4). cbn zeta in *. rewrite F1, F2.
    destruct (sloaded (csubs (cv s) i) && negb (sflag (csubs (cv s) i))) eqn:Ef.
    + destruct (F3 eq_refl) as [_ F6]. rewrite F6. intros Hc. rewrite proc_o_lcnt. intros Hp. destruct (HJ Hc Hp) as (A&B&C).
      repeat split; auto. rewrite (ledger_eta L), C, proc_o_ledger. reflexivity.
    + destruct (F4 eq_refl) as [_ F6]. rewrite F6. exact HJ.
  - apply jv_reacc. split; [cbn [Core.act Core.ts]; apply cstep_inv, Hi|]. intros _. unfold JVB, Lk, Core.sent_, Core.loaded_, Core.me.
    cbn [Core.act Core.tx Core.ts Core.to fold_left]. destruct (runc_reacc_fields _ _ _ Ecq) as (F1&F2&_&F4&_). cbn zeta in *.
    rewrite F1, F2, F4. exact HJ.
Qed.

(* ---- along an execution ---- *)
Definition LGV (c : nat) (s : st_) (L : ledger_) : Prop :=
  forall i, cur (conns s c) = Some i -> 0 < lcnt_ L ->
    ssent (csubs (cv s) i) = true /\ sloaded (csubs (cv s) i) = true /\ lcopy_ L = Some (ssval (csubs (cv s) i)).

Lemma lgv_transfer c s s' L : LGV c s L -> cur (conns s' c) = cur (conns s c) ->
  (forall i, cur (conns s c) = Some i ->
     ssent (csubs (cv s') i) = ssent (csubs (cv s) i) /\ sloaded (csubs (cv s') i) = sloaded (csubs (cv s) i) /\
     ssval (csubs (cv s') i) = ssval (csubs (cv s) i)) ->
  LGV c s' L.
Proof. intros H Ec Hi i Hc Hp. rewrite Ec in Hc. destruct (Hi i Hc) as (A&B&C). rewrite A, B, C. apply H; assumption. Qed.

Lemma jv_start c s x' i L : CInv (cv s) -> LGV c s L -> cur (conns s c) = Some i -> JV c i L (K0 s x' (insts s i)).
Proof. intros Hi H Ec. split; [exact Hi|]. intros _ _ Hp. exact (H i Ec Hp). Qed.

Lemma lgv_task c s i k L ins nx ms gq : SH i k -> JV c i L k -> NB c L (to k) ->
  LGV c {| Core.cv := ts k; Core.conns := Core.set_conn (conns s) c (tx k); Core.insts := ins;
           Core.next := nx; Core.mqsub := ms; Core.getreq := gq |} (fold_left (lstep c) (to k) L).
Proof.
  intros Hsh [_ HJ] HNB i' Hc Hp. cbn [Core.conns Core.cv] in *. unfold Core.set_conn in Hc. rewrite Nat.eqb_refl in Hc.
  destruct Hsh as [(G&C&D)|(G&C&D)]; [|congruence]. rewrite C in Hc. injection Hc as <-. exact (HJ HNB C Hp).
Qed.

Lemma lgv_step_conn c s L : CInv (cv s) -> WF s -> LGV c s L -> (cur (conns s c) = None -> lcnt_ L = 0) ->
  disc (conns s c) = false -> NB c L (snd (step s (Core.GrantConn upd c))) ->
  LGV c (fst (step s (Core.GrantConn upd c))) (fold_left (lstep c) (snd (step s (Core.GrantConn upd c))) L).
Proof.
  intros Hinv Hw HL HN Hd. pose proof Hw as [W1 W2 W3 W4 W5 W6 W7].
  destruct (cqueue (conns s c)) as [|it0 q0] eqn:Eq0; [rewrite step_conn_empty by exact Eq0; intros _; exact HL|].
  rewrite step_conn by (rewrite Eq0; discriminate).
  pose proof (task_shape s c) as Hsh. cbv zeta in Hsh. revert Hsh.
  destruct (ct_spec s c) as [Eq|id q Eq Ec|id q i Eq Ec|id cnt q i Eq Ec|id cnt q Eq Ec|t q i Eq Ec|t q Eq Ec|i q Eq Eg|i q Eq Eg|i q Eq|q Eq];
    cbn [fst snd]; intros (_&_&_&Hc) HNB.
  - congruence.
  - (* new instance: the client holds nothing *)
    destruct Hc as [(X&_)|[(_&_&_&_&_&_&A6&_)|((q'&X)&_)]]; [exfalso; lia| |exfalso; congruence].
    intros i' _ Hp. exfalso. rewrite A6 in Hp.
    assert (E : fold_left (lstep c) ((if mqsub s then [] else [OMqSub]) ++ [OAccessReq c (next s) (tok (conns s c))]) L = L) by (destruct (mqsub s); reflexivity).
    rewrite E, (HN Ec) in Hp. lia.
  - destruct (W1 c i Ec) as (Hi&Ho&Hg&Hdir). apply (lgv_task c s i); [apply sh_body_req, Hg| |exact HNB].
    apply jv_body_req, (jv_start c s _ i L); assumption.
  - destruct (W1 c i Ec) as (Hi&Ho&Hg&Hdir). apply (lgv_task c s i); [apply sh_body_unsub; assumption| |exact HNB].
    apply jv_body_unsub, (jv_start c s _ i L); assumption.
  - cbn [Core.emit Core.to Core.tx Core.ts List.app fold_left Core.lstep].
    apply (lgv_transfer c s _ L HL); cbn [Core.conns Core.cv]; auto. unfold Core.set_conn; rewrite Nat.eqb_refl; reflexivity.
  - destruct (W1 c i Ec) as (Hi&Ho&Hg&Hdir).
    assert (H0 : SH i (K0 s (xtok (conns s c) q t) (insts s i))) by (left; repeat split; assumption).
    assert (HJ : JV c i L (K0 s (xtok (conns s c) q t) (insts s i))) by (apply (jv_start c s _ i L); assumption).
    apply (lgv_task c s i); [| |exact HNB].
    + destruct (tokset (conns s c)); [|exact H0]. eapply sh_mild; [apply x_reacc, ext_refl|exact H0].
    + destruct (tokset (conns s c)); [|exact HJ]. apply jv_reacc, HJ.
  - cbn [Core.to Core.tx Core.ts fold_left].
    apply (lgv_transfer c s _ L HL); cbn [Core.conns Core.cv]; auto. unfold Core.set_conn; rewrite Nat.eqb_refl; reflexivity.
  - cbn [Core.to Core.tx Core.ts Core.ty fold_left].
    apply (lgv_transfer c s _ L HL); cbn [Core.conns Core.cv]; auto. unfold Core.set_conn; rewrite Nat.eqb_refl; reflexivity.
  - destruct (W4 c (QAccess i)) as [Hi Ho]; [rewrite Eq; left; reflexivity|].
    assert (Ec : cur (conns s c) = Some i) by (rewrite <- Ho; apply W2; assumption).
    destruct (W1 c i Ec) as (_&_&_&Hdir).
    apply (lgv_task c s i); [apply sh_body_access; assumption| |exact HNB]. apply jv_body_access, (jv_start c s _ i L); assumption.
  - destruct (W4 c (QSub i)) as [Hi Ho]; [rewrite Eq; left; reflexivity|].
    destruct (sgone (csubs (cv s) i)) eqn:Eg.
    + destruct (body_sub_gone s c (conns s c) q i Hinv Eg) as (T1&T2&T3&T4&T5). cbv zeta in *. rewrite T1, T3, T5. cbn [fold_left].
      apply (lgv_transfer c s _ L HL); cbn [Core.conns Core.cv]; [unfold Core.set_conn; rewrite Nat.eqb_refl; reflexivity|].
      intros i' Hc'. assert (Hne : i' <> i) by (intros ->; destruct (W1 c i Hc') as (_&_&G&_); congruence).
      rewrite subs_other by (cbn [tgt]; congruence || discriminate). repeat split.
    + assert (Ec : cur (conns s c) = Some i) by (rewrite <- Ho; apply W2; assumption).
      destruct (W1 c i Ec) as (_&_&_&Hdir).
      apply (lgv_task c s i); [apply sh_body_sub; assumption| |exact HNB]. apply jv_body_sub; [exact Eg|]. apply (jv_start c s _ i L); assumption.
  - exfalso. specialize (W4 c QDispose). cbn [okitem] in W4. rewrite W4 in Hd; [discriminate|rewrite Eq; left; reflexivity].
Qed.

(* service events and the cache worker leave these fields of every subscription alone *)
Lemma svc_steps acts : Forall (fun a => tgt a = None) acts -> forall σ j,
  ssent (csubs (fold_left cstep acts σ) j) = ssent (csubs σ j) /\ sloaded (csubs (fold_left cstep acts σ) j) = sloaded (csubs σ j) /\
  sflag (csubs (fold_left cstep acts σ) j) = sflag (csubs σ j) /\ ssval (csubs (fold_left cstep acts σ) j) = ssval (csubs σ j).
Proof.
  induction 1 as [|a acts Ha _ IH]; intros σ j; cbn [fold_left]; [auto|].
  destruct (IH (cstep σ a) j) as (A&B&C&D). rewrite A, B, C, D.
  assert (Hr : a = Conv.RunE upd \/ a <> Conv.RunE upd) by (destruct a; auto; right; discriminate).
  destruct Hr as [->|Hr].
  - destruct (rune_fields σ j) as (_&B'&_&D'&E'&_&G'&_). auto.
  - rewrite subs_other; [auto|congruence|exact Hr].
Qed.
Lemma nonconn_acts s o : (forall c0, o <> Core.GrantConn upd c0) -> Forall (fun a => tgt a = None) (acts_of s o).
Proof.
  intros Ho. destruct o as [c id|c id k|c|c t|i g| |u| | | |c]; cbn [Core.acts_of]; try (repeat constructor; fail).
  - destruct (_ && _); repeat constructor.
  - destruct (_ && _); repeat constructor.
  - destruct (mqsub s); repeat constructor.
  - destruct (mqsub s); repeat constructor.
  - destruct (mqsub s); repeat constructor.
  - exfalso. eapply Ho; reflexivity.
Qed.
Lemma nonconn_cur s o cl : (forall c0, o <> Core.GrantConn upd c0) ->
  cur (conns (fst (step s o)) cl) = cur (conns s cl) /\ direct (conns (fst (step s o)) cl) = direct (conns s cl) /\
  (forall L, fold_left (lstep cl) (snd (step s o)) L = L).
Proof.
  intros Ho. destruct o as [c id|c id k|c|c t|i g| |u| | | |c]; unfold Core.step; try (exfalso; eapply Ho; reflexivity);
    try (repeat split; fail).
  - destruct (disc (conns s c)); [repeat split|]. cbn [fst snd Core.conns]. conn_at cl c; repeat split.
  - destruct (disc (conns s c)); [repeat split|]. cbn [fst snd Core.conns]. conn_at cl c; repeat split.
  - destruct (disc (conns s c)); [repeat split|]. cbn [fst snd Core.conns]. conn_at cl c; repeat split.
  - destruct (Core.is_done (conns s c)); [repeat split|]. cbn [fst snd Core.conns]. conn_at cl c; repeat split.
  - destruct (_ && _); repeat split.
  - cbn [fst snd Core.conns].
    match goal with |- cur (Core.pass _ _ ?σ ?own (Core.fan _ _ _ ?σ' _ ?n ?f) _) = _ /\ _ => destruct (grant_conns σ σ' own n f cl) as (_&B1&B2&_) end.
    repeat split; auto. intros L; destruct (_ && _); reflexivity.
Qed.

Lemma lgv_step_nonconn cl s o L : (forall c0, o <> Core.GrantConn upd c0) -> LGV cl s L ->
  LGV cl (fst (step s o)) (fold_left (lstep cl) (snd (step s o)) L).
Proof.
  intros Ho HL. destruct (nonconn_cur s o cl Ho) as (A&_&C). rewrite C.
  apply (lgv_transfer cl s _ L HL A). intros i _. rewrite step_cv.
  destruct (svc_steps (acts_of s o) (nonconn_acts s o Ho) (cv s) i) as (S1&S2&_&S4). auto.
Qed.
Lemma lgv_step_otherconn cl c0 s L : WF s -> cl <> c0 -> LGV cl s L ->
  LGV cl (fst (step s (Core.GrantConn upd c0))) (fold_left (lstep cl) (snd (step s (Core.GrantConn upd c0))) L).
Proof.
  intros Hw Hne HL. rewrite (fold_other cl c0 _ Hne (outs_addr s c0)).
  apply (lgv_transfer cl s _ L HL).
  - rewrite conns_other by exact Hne. reflexivity.
  - intros i Hc. destruct (w_cur _ Hw cl i Hc) as (Hi & Ho & _). rewrite subs_other_conn by (auto; congruence). auto.
Qed.

Lemma nbr_prefix c outs o : no_bare_resp c (outs ++ o) -> no_bare_resp c outs.
Proof. intros H pre id post E. apply (H pre id (post ++ o)). rewrite E, <- app_assoc. reflexivity. Qed.
Lemma nbr_nb c outs o : no_bare_resp c (outs ++ o) -> NB c (client c outs) o.
Proof.
  intros H pre id post E. rewrite <- client_app. apply (H (outs ++ pre) id post). rewrite E, <- app_assoc. reflexivity.
Qed.

Lemma lgv_exec t ops c :
  let s := fst (exec t ops) in let outs := snd (exec t ops) in
  disc (conns s c) = false -> no_underflow c outs -> no_bare_resp c outs -> LGV c s (client c outs).
Proof.
  cbv zeta. intros Hd Hnu Hnb. pose proof (conj Hd (conj Hnu Hnb)) as H. clear Hd Hnu Hnb. revert H.
  pattern (fst (exec t ops)), (snd (exec t ops)). revert ops.
  assert (X : forall ops, (fun s outs => disc (conns s c) = false /\ no_underflow c outs /\ no_bare_resp c outs -> LGV c s (client c outs))
                 (fst (exec t ops)) (snd (exec t ops))); [|exact X].
  intros ops. induction ops as [|o ops IH] using rev_ind.
  - intros _ i Hc. cbn in Hc. discriminate.
  - rewrite exec_snoc. pose proof (wf_exec t ops) as Hw. pose proof (core_conv_inv t ops) as Hinv.
    pose proof (lgc_exec true t ops c) as Hcnt. cbv zeta in Hcnt.
    destruct (exec t ops) as [s outs]. unfold Core.exec1. cbn [fst snd] in *.
    destruct (step s o) as [s' o'] eqn:Est. cbn [fst snd]. intros (Hd&Hnu&Hnb).
    assert (Es' : s' = fst (step s o)) by (rewrite Est; reflexivity). assert (Eo' : o' = snd (step s o)) by (rewrite Est; reflexivity).
    assert (Hd0 : disc (conns s c) = false).
    { destruct (disc (conns s c)) eqn:E; [|reflexivity]. rewrite Es', (disc_mono s o c E) in Hd. discriminate. }
    specialize (IH (conj Hd0 (conj (nu_prefix _ _ _ Hnu) (nbr_prefix _ _ _ Hnb)))). rewrite client_app. subst s' o'.
    assert (Ho : (exists c0, o = Core.GrantConn upd c0) \/ forall c0, o <> Core.GrantConn upd c0).
    { destruct o; try (right; intros; discriminate). left; eexists; reflexivity. }
    destruct Ho as [[c0 ->]|Ho]; [|apply lgv_step_nonconn; assumption].
    destruct (Nat.eq_dec c c0) as [<-|Hne]; [|apply lgv_step_otherconn; assumption].
    destruct (Hcnt Hd0 (fun _ => nu_prefix _ _ _ Hnu)) as [_ L2].
    apply lgv_step_conn; auto. apply nbr_nb, Hnb.
Qed.

(* The statement of CoreStatements.v,
     forall t ops c, let s := fst (exec t ops) in let outs := snd (exec t ops) in
       Core.disc (conns s c) = false -> no_underflow c outs -> 0 < Core.lcnt val (client c outs) ->
       exists i, Core.cur (conns s c) = Some i /\ Conv.sent val upd (csubs (cv s) i) = true /\
                 Core.lcopy val (client c outs) = Some (Conv.sval val upd (csubs (cv s) i)),
   is false of this model (see core_client_copy_without_premise_refuted below); it holds with the extra premise [no_bare_resp]. *)
Theorem core_client_copy : forall t ops c,
  let s := fst (exec t ops) in let outs := snd (exec t ops) in
  Core.disc (conns s c) = false -> no_underflow c outs -> no_bare_resp c outs -> 0 < Core.lcnt val (client c outs) ->
  exists i, Core.cur (conns s c) = Some i /\ Conv.sent val upd (csubs (cv s) i) = true /\
            Core.lcopy val (client c outs) = Some (Conv.sval val upd (csubs (cv s) i)).
Proof.
  intros t ops c. cbv zeta. intros Hd Hnu Hnb Hp. destruct (lgc_exec true t ops c Hd (fun _ => Hnu)) as [_ L2].
  pose proof (lgv_exec t ops c Hd Hnu Hnb) as HV. cbv zeta in HV.
  destruct (cur (conns (fst (exec t ops)) c)) as [i|] eqn:Ec; [|rewrite (L2 eq_refl eq_refl) in Hp; lia].
  exists i. destruct (HV i Ec Hp) as (A&_&C). auto.
Qed.

(* ================= C: held events and the re-validation that holds them ================= *)
Section Reval.
Variables (c i : nat).
(* [l]: the continuations of the access answer being handled that have not run yet *)
Definition RQk (l : list acbk) (k : tk_) : Prop :=
  (acb (ty k) <> [] -> inflight (ty k) = true) /\
  (gone_ i k = false ->
     (sent_ i k = true -> flag_ i k = true -> rq (ty k) = true) /\
     (rq (ty k) = true -> In AVal (acb (ty k) ++ l)) /\
     (sent_ i k = true -> loaded_ i k = true)).

Lemma rq_load l k b : RQk l k -> RQk l (load_access c i k b).
Proof.
  intros [H1 H2]. unfold Core.load_access. cbv zeta. destruct (inflight (ty k)) eqn:Ei.
  - split; [intros _; reflexivity|]. intros G. destruct (H2 G) as (A&B&C). repeat split; auto.
    cbn [Core.sety Core.ty Core.upd_y rq acb]. intros Hr. specialize (B Hr). rewrite <- app_assoc. apply in_app_or in B.
    apply in_or_app. destruct B as [B|B]; [left; exact B|right; apply in_or_app; right; exact B].
  - split; [intros _; reflexivity|]. intros G. destruct (H2 G) as (A&B&C). repeat split; auto.
    cbn [Core.emit Core.sety Core.ty Core.upd_y rq acb]. intros Hr. specialize (B Hr). rewrite <- app_assoc. apply in_app_or in B.
    apply in_or_app. destruct B as [B|B]; [left; exact B|right; apply in_or_app; right; exact B].
Qed.
(* what handle_reaccess needs: it sets the reason itself *)
Definition RQw (k : tk_) : Prop :=
  (acb (ty k) <> [] -> inflight (ty k) = true) /\ (gone_ i k = false -> sent_ i k = true -> loaded_ i k = true).
Lemma rqk_w l k : RQk l k -> RQw k.
Proof. intros [H1 H2]. split; [exact H1|]. intros G. apply H2, G. Qed.
Lemma rq_hreacc l k : SH i k -> RQw k -> RQk l (handle_reaccess c i k).
Proof.
  intros Hsh [H1 H2]. unfold Core.handle_reaccess. cbv zeta. cbn [Core.sety Core.tx].
  destruct (Nat.eqb_spec (direct (tx k)) 0) as [E0|E0].
  - split; [exact H1|]. intros G. destruct Hsh as [(G'&C&D)|(G'&C&D)]; [lia|]. change (gone_ i k = false) in G. congruence.
  - unfold Core.load_access. cbv zeta. cbn [Core.act Core.sety Core.ty Core.upd_y inflight].
    assert (X : forall K : tk_, ts K = cstep (ts k) (Conv.StartQueue upd i) -> acb (ty K) = acb (ty k) ++ [AVal] -> rq (ty K) = true ->
                inflight (ty K) = true -> RQk l K).
    { intros K Et Ea Er Ei. split; [intros _; exact Ei|]. intros G. unfold Core.gone_, Core.sent_, Core.loaded_, Core.flag_, Core.me in *. rewrite Et in *.
      rewrite gone_step in G. destruct (startq_sub (ts k) i) as (S1&S2&_). cbn zeta in *. rewrite S1, S2.
      repeat split; auto. intros _. rewrite Ea, <- app_assoc. apply in_or_app. right. left. reflexivity. }
    destruct (inflight (ty k)) eqn:Ei; apply X; reflexivity || assumption.
Qed.
Lemma rq_reacc l k : SH i k -> RQk l k -> RQk l (reaccess c i k).
Proof.
  intros Hsh H. unfold Core.reaccess. destruct (gone_ i k); [exact H|]. destruct (flag_ i k); [exact H|].
  apply rq_hreacc; [exact Hsh|eapply rqk_w, H].
Qed.
Lemma rq_respond l k ids : SH i k -> loaded_ i k = true -> RQk l k -> RQk l (respond c i k ids).
Proof.
  intros Hsh Hl H. unfold Core.respond. destruct ids as [|id r]; [exact H|]. cbv zeta.
  match goal with |- RQk l (emit ?K _) => change (RQk l K) end.
  destruct (sent_ i k) eqn:Es; [exact H|]. cbn [Core.emit Core.ty].
  unfold Core.sent_, Core.loaded_, Core.me in Es, Hl.
  destruct (reflag (ty k)).
  - apply rq_hreacc.
    + eapply sh_mild; [|exact Hsh]. apply x_act; [apply x_emit; [apply ext_refl|repeat constructor]|cbn; auto].
    + destruct H as [H1 H2]. split; [exact H1|]. intros G _. unfold Core.loaded_, Core.me.
      cbn [Core.act Core.emit Core.ts]. destruct (respond_none_sub (ts k) i Hl Es) as (_&R2&_). exact R2.
  - destruct H as [H1 H2]. split; [exact H1|]. intros G. unfold Core.gone_, Core.sent_, Core.loaded_, Core.flag_, Core.me in *.
    cbn [Core.act Core.emit Core.ts Core.ty] in *. rewrite gone_step in G. destruct (H2 G) as (A&B&C).
    destruct (respond_all_sub (ts k) i Hl Es) as (R1&R2&R3&_). cbn zeta in *. rewrite R1, R2, R3. repeat split; auto. discriminate.
Qed.
Lemma rq_ready l k id : SH i k -> RQk l k -> RQk l (on_ready c i k id).
Proof.
  intros Hsh H. unfold Core.on_ready. destruct (loaded_ i k) eqn:El; [apply rq_respond; assumption|]. cbv zeta. exact H.
Qed.
Lemma rq_unqueue l k : SH i k -> RQk (AVal :: l) k -> RQk l (unqueue_reaccess c i k).
Proof.
  intros Hsh [H1 H2]. unfold Core.unqueue_reaccess. cbv zeta.
  match goal with |- context [if gone_ i ?K then _ else _] => change (gone_ i K) with (gone_ i k) end.
  destruct (gone_ i k) eqn:G; [split; [exact H1|]; intros G'; change (gone_ i k = false) in G'; congruence|].
  destruct (H2 eq_refl) as (A&B&C).
  cbn [Core.sety Core.ty Core.upd_y reflag]. destruct (reflag (ty k)).
  - apply rq_hreacc; [exact Hsh|]. split; [exact H1|]. intros _. exact C.
  - split; [exact H1|]. intros G'. unfold Core.gone_, Core.sent_, Core.loaded_, Core.flag_, Core.me in *.
    cbn [Core.emit Core.act Core.sety Core.ts Core.ty Core.upd_y rq] in *.
    destruct (ssent (csubs (ts k) i)) eqn:Es; [destruct (sflag (csubs (ts k) i)) eqn:Ef|].
    + destruct (unqueue_all_sub (ts k) i (C eq_refl) Es Ef) as (R1&R2&R3&_). cbn zeta in *. rewrite R1, R2, R3.
      repeat split; auto; discriminate.
    + rewrite unqueue_noop by (rewrite Es, Ef; destruct (sloaded _); reflexivity). rewrite Es, Ef. repeat split; auto; discriminate.
    + rewrite unqueue_noop by (rewrite Es; destruct (sloaded _); reflexivity). rewrite Es. repeat split; auto; discriminate.
Qed.
Lemma rq_remove l k n : RQk l k -> RQk l (remove_direct i k n).
Proof.
  intros [H1 H2]. unfold Core.remove_direct. destruct (Nat.eqb (direct (tx k)) 0); [split; assumption|]. cbv zeta.
  match goal with |- context [if ?b then _ else _] => destruct b end; [|split; assumption].
  unfold Core.dispose_t. match goal with |- context [if ?b then _ else _] => destruct b eqn:G end; [split; assumption|]. cbv zeta.
  split; [exact H1|]. intros G'. exfalso. unfold Core.gone_, Core.me in G'. cbn [Core.setx Core.sety Core.act Core.ts] in G'.
  rewrite gone_step, Nat.eqb_refl in G'. discriminate.
Qed.
Lemma rq_unsubd l k : RQk l k -> RQk l (unsubscribe_direct c i k).
Proof. intros H. unfold Core.unsubscribe_direct. destruct (Nat.ltb 0 (direct (tx k))); [|exact H]. exact (rq_remove l k _ H). Qed.
Lemma rq_weaken l b k : RQk (b :: l) k -> b <> AVal -> RQk l k.
Proof.
  intros [H1 H2] Hb. split; [exact H1|]. intros G. destruct (H2 G) as (A&B&C). repeat split; auto.
  intros Hr. specialize (B Hr). apply in_app_or in B. apply in_or_app. destruct B as [B|[B|B]]; [left; exact B|congruence|right; exact B].
Qed.
Lemma rq_run_cb g l k b : SH i k -> RQk (b :: l) k -> RQk l (run_cb c i g k b).
Proof.
  intros Hsh H. unfold Core.run_cb. destruct b as [id|].
  - apply rq_weaken in H; [|discriminate]. destruct g.
    + destruct (gone_ i k); [exact H|apply rq_ready; assumption].
    + apply rq_remove. exact H.
  - apply rq_unqueue.
    + destruct g; [exact Hsh|apply sh_unsubd, Hsh].
    + destruct g; [exact H|apply rq_unsubd, H].
Qed.
Lemma rq_run_cbs g l : forall k, SH i k -> RQk l k -> RQk [] (fold_left (run_cb c i g) l k).
Proof.
  induction l as [|b l IH]; intros k Hsh H; [exact H|]. cbn [fold_left]. apply IH; [apply sh_run_cb, Hsh|apply rq_run_cb; assumption].
Qed.
End Reval.

Lemma remove_acb i K n : acb (ty (remove_direct i K n)) = acb (ty K) /\ inflight (ty (remove_direct i K n)) = inflight (ty K).
Proof.
  unfold Core.remove_direct. destruct (Nat.eqb (direct (tx K)) 0); [auto|]. cbv zeta.
  match goal with |- context [if ?b then _ else _] => destruct b end; [|auto].
  unfold Core.dispose_t. match goal with |- context [if ?b then _ else _] => destruct b end; auto.
Qed.

Lemma rq_k0 s x' i l : (acb (insts s i) <> [] -> inflight (insts s i) = true) ->
  (sgone (csubs (cv s) i) = false ->
     (ssent (csubs (cv s) i) = true -> sflag (csubs (cv s) i) = true -> rq (insts s i) = true) /\
     (rq (insts s i) = true -> In AVal (acb (insts s i) ++ l)) /\
     (ssent (csubs (cv s) i) = true -> sloaded (csubs (cv s) i) = true)) ->
  RQk i l (K0 s x' (insts s i)).
Proof. intros H1 H2. split; assumption. Qed.

Lemma rq_body_req s c x id q i : sgone (csubs (cv s) i) = false ->
  RQk i [] (K0 s (Core.with_cd (Core.with_q x q) (Some i) (S (direct x))) (insts s i)) -> RQk i [] (body_req s c x id q i).
Proof.
  intros G H. assert (H0 : SH i (K0 s (Core.with_cd (Core.with_q x q) (Some i) (S (direct x))) (insts s i))).
  { left. repeat split; [exact G|cbn; lia]. }
  unfold body_req. cbv zeta. destruct (acc (insts s i)) as [[|]|].
  - apply rq_ready; assumption.
  - apply rq_remove. exact H.
  - apply rq_load, H.
Qed.
Lemma rq_body_unsub s c x id cnt q i : sgone (csubs (cv s) i) = false -> cur x = Some i -> 0 < direct x ->
  RQk i [] (K0 s (Core.with_q x q) (insts s i)) -> RQk i [] (body_unsub s c x id cnt q i).
Proof.
  intros G C D H. assert (H0 : SH i (K0 s (Core.with_q x q) (insts s i))) by (left; repeat split; assumption).
  unfold body_unsub. cbv zeta. destruct (Nat.eqb_spec cnt 0) as [E0|E0]; [exact H|].
  destruct (Nat.leb_spec cnt (direct x)) as [Hle|Hgt]; [|exact H].
  destruct (Nat.eqb_spec (direct x - cnt) 0) as [Ez|Ez]; [|apply rq_remove; exact H].
  match goal with |- RQk i [] (remove_direct i ?K cnt) =>
    pose proof (sh_remove i K cnt H0) as Hsh'; destruct (remove_direct_spec i K cnt) as (_&_&B); destruct (remove_acb i K cnt) as (A1&A2) end.
  unfold SH in Hsh'. cbn [Core.sety Core.emit Core.tx Core.with_q direct] in B. rewrite B in Hsh' by (cbn [Core.sety Core.emit Core.tx Core.with_q direct]; lia).
  destruct Hsh' as [(G'&C'&D')|(G'&C'&D')]; [lia|]. split; [rewrite A1; cbn [Core.sety Core.ty Core.upd_y acb]; intros X; contradiction|]. intros G''. congruence.
Qed.
Lemma rq_body_access s c x q i : sgone (csubs (cv s) i) = false -> cur x = Some i -> 0 < direct x ->
  RQk i [] (K0 s (Core.with_q x q) (insts s i)) -> RQk i [] (body_access s c x q i).
Proof.
  intros G C D H. assert (H0 : SH i (K0 s (Core.with_q x q) (insts s i))) by (left; repeat split; assumption).
  unfold body_access. cbv zeta. destruct (ans (insts s i)) as [g|]; [|exact H].
  apply rq_run_cbs; [exact H0|]. destruct H as [H1 H2]. split; [cbn; intros X; contradiction|]. intros G'.
  destruct (H2 G') as (A&B&Cc). cbn [Core.sety Core.ty Core.upd_y rq acb] in *. repeat split; auto.
  intros Hr. specialize (B Hr). rewrite app_nil_r in B. exact B.
Qed.
Lemma rq_body_sub s c x q i : CInv (cv s) -> sgone (csubs (cv s) i) = false -> cur x = Some i -> 0 < direct x ->
  RQk i [] (K0 s (Core.with_q x q) (insts s i)) -> RQk i [] (body_sub s c x q i).
Proof.
  intros Hinv G C D H. pose proof H as [H1 H2]. specialize (H2 G). destruct H2 as (A&B&P).
  unfold Core.sent_, Core.loaded_, Core.flag_, Core.me in A, B, P. cbn [Core.ts Core.ty] in A, B, P.
  assert (H0 : SH i (actk (K0 s (Core.with_q x q) (insts s i)) (Conv.RunC upd i))).
  { left. rewrite gone_act. repeat split; assumption. }
  unfold body_sub. cbv zeta. destruct (scq (csubs (cv s) i)) as [|[|e|] q'] eqn:Ecq.
  - split; [exact H1|]. intros _. unfold Core.sent_, Core.loaded_, Core.flag_, Core.me. cbn [Core.act Core.ts Core.ty].
    rewrite (runc_nil _ _ Ecq). auto.
  - rewrite G. destruct (runc_loaded_fields _ _ _ Ecq G) as (F1&F2&F3&F4). cbn zeta in *. apply rq_respond.
    + exact H0.
    + unfold Core.loaded_, Core.me. cbn [Core.act Core.sety Core.ts]. exact F1.
    + split; [exact H1|]. intros _. unfold Core.sent_, Core.loaded_, Core.flag_, Core.me. cbn [Core.act Core.sety Core.ts Core.ty Core.upd_y rq acb].
      rewrite F2. repeat split; auto; discriminate.
  - split; [exact H1|]. intros _. unfold Core.sent_, Core.loaded_, Core.flag_, Core.me. cbn [Core.emit Core.act Core.ts Core.ty].
    destruct (runc_event_fields _ _ _ _ Ecq) as (F1&F2&F3&F4). cbn zeta in *. rewrite F1, F2.
    destruct (sloaded (csubs (cv s) i) && negb (sflag (csubs (cv s) i))) eqn:Ef.
    + destruct (F3 eq_refl) as [F5 _]. rewrite F5. repeat split; auto; discriminate.
    + destruct (F4 eq_refl) as [F5 _]. rewrite F5. auto.
  - apply rq_reacc; [exact H0|]. split; [exact H1|]. intros _. unfold Core.sent_, Core.loaded_, Core.flag_, Core.me. cbn [Core.act Core.ts Core.ty].
    destruct (runc_reacc_fields _ _ _ Ecq) as (F1&F2&F3&_). cbn zeta in *. rewrite F1, F2, F3. auto.
Qed.

Definition IAS (s : st_) : Prop := forall i, acb (insts s i) <> [] -> inflight (insts s i) = true.
Definition RQ1 (s : st_) (i : nat) : Prop :=
  (ssent (csubs (cv s) i) = true -> sflag (csubs (cv s) i) = true -> rq (insts s i) = true) /\
  (rq (insts s i) = true -> In AVal (acb (insts s i))) /\
  (ssent (csubs (cv s) i) = true -> sloaded (csubs (cv s) i) = true).
Definition RQS (s : st_) : Prop := forall c i, cur (conns s c) = Some i -> RQ1 s i.

Lemma rqk_start s c x' i : IAS s -> RQS s -> cur (conns s c) = Some i -> RQk i [] (K0 s x' (insts s i)).
Proof.
  intros HI HR Ec. apply rq_k0; [apply HI|]. intros _. destruct (HR c i Ec) as (A&B&C). repeat split; auto.
  intros Hr. rewrite app_nil_r. auto.
Qed.

Lemma rq_fin s c i k cvx nx ms gq : IAS s -> SH i k -> RQk i [] k -> cvx = ts k ->
  let s' := {| Core.cv := cvx; Core.conns := Core.set_conn (conns s) c (tx k); Core.insts := Core.set_inst (insts s) i (ty k);
               Core.next := nx; Core.mqsub := ms; Core.getreq := gq |} in
  IAS s' /\ (forall i', cur (conns s' c) = Some i' -> RQ1 s' i').
Proof.
  intros HI Hsh [H1 H2] ->. cbv zeta. split.
  - intros j. cbn [Core.insts]. unfold Core.set_inst. destruct (Nat.eqb_spec j i) as [->|]; [exact H1|apply HI].
  - intros i'. cbn [Core.conns]. unfold Core.set_conn. rewrite Nat.eqb_refl. intros Hc.
    destruct Hsh as [(G&C&D)|(G&C&D)]; [|congruence]. rewrite C in Hc. injection Hc as <-.
    destruct (H2 G) as (A&B&P). unfold RQ1. cbn [Core.cv Core.insts]. unfold Core.set_inst. rewrite Nat.eqb_refl.
    repeat split; auto. intros Hr. specialize (B Hr). rewrite app_nil_r in B. exact B.
Qed.

Lemma rq_keep s c x' ins cvx nx ms gq : IAS s -> RQS s -> cur x' = cur (conns s c) ->
  (forall j, acb (ins j) = acb (insts s j) /\ inflight (ins j) = inflight (insts s j) /\ rq (ins j) = rq (insts s j)) ->
  (forall j, cur (conns s c) = Some j -> csubs cvx j = csubs (cv s) j) ->
  let s' := {| Core.cv := cvx; Core.conns := Core.set_conn (conns s) c x'; Core.insts := ins;
               Core.next := nx; Core.mqsub := ms; Core.getreq := gq |} in
  IAS s' /\ (forall i', cur (conns s' c) = Some i' -> RQ1 s' i').
Proof.
  intros HI HR Ec Hins Hcv. cbv zeta. split.
  - intros j. cbn [Core.insts]. destruct (Hins j) as (A&B&_). rewrite A, B. apply HI.
  - intros i'. cbn [Core.conns]. unfold Core.set_conn. rewrite Nat.eqb_refl, Ec. intros Hc.
    unfold RQ1. cbn [Core.cv Core.insts]. destruct (Hins i') as (A&_&C). rewrite A, C, (Hcv i' Hc). apply (HR c i' Hc).
Qed.

Lemma rq_local s c : CInv (cv s) -> WF s -> IAS s -> RQS s ->
  let s' := fst (step s (Core.GrantConn upd c)) in
  IAS s' /\ (forall i', cur (conns s' c) = Some i' -> RQ1 s' i').
Proof.
  intros Hinv Hw HI HR. pose proof Hw as [W1 W2 W3 W4 W5 W6 W7]. cbv zeta.
  destruct (cqueue (conns s c)) as [|it0 q0] eqn:Eq0.
  { rewrite step_conn_empty by exact Eq0. cbn [fst]. split; [exact HI|intros i' Hc; exact (HR c i' Hc)]. }
  rewrite step_conn by (rewrite Eq0; discriminate).
  destruct (ct_spec s c) as [Eq|id q Eq Ec|id q i Eq Ec|id cnt q i Eq Ec|id cnt q Eq Ec|t q i Eq Ec|t q Eq Ec|i q Eq Eg|i q Eq Eg|i q Eq|q Eq];
    cbn [fst snd].
  - congruence.
  - (* new instance *)
    apply rq_fin; [exact HI| | |reflexivity].
    + eapply sh_mild; [apply x_load, ext_refl|]. left. cbn [Core.emit Core.act Core.tx Core.with_cd cur direct].
      repeat split; [|lia]. change (gone_ (next s) (actk (K0 s (Core.with_cd (Core.with_q (conns s c) q) (Some (next s)) 1) (ynew c)) (Conv.Subscribe upd (next s))) = false).
      rewrite gone_act. destruct (W3 (next s)) as (_&_&A&_); [lia|exact A].
    + apply rq_load. split; [cbn; intros X; contradiction|]. intros _. unfold Core.sent_, Core.me. cbn [Core.emit Core.act Core.ts Core.ty ynew rq].
      assert (Es : ssent (csubs (cstep (cv s) (Conv.Subscribe upd (next s))) (next s)) = false).
      { destruct (W3 (next s)) as (A&B&_); [lia|]. cbn [Conv.step]. rewrite A. cbn [Conv.subs]. rewrite Conv.set_sub_eq. exact B. }
      rewrite Es. repeat split; discriminate.
  - destruct (W1 c i Ec) as (Hi&Ho&Hg&Hdir). apply rq_fin; [exact HI|apply sh_body_req, Hg| |reflexivity].
    apply rq_body_req; [exact Hg|]. apply (rqk_start s c); assumption.
  - destruct (W1 c i Ec) as (Hi&Ho&Hg&Hdir). apply rq_fin; [exact HI|apply sh_body_unsub; assumption| |reflexivity].
    apply rq_body_unsub; try assumption. apply (rqk_start s c); assumption.
  - apply rq_keep; auto.
  - destruct (W1 c i Ec) as (Hi&Ho&Hg&Hdir).
    assert (H0 : SH i (K0 s (xtok (conns s c) q t) (insts s i))) by (left; repeat split; assumption).
    assert (HK : RQk i [] (K0 s (xtok (conns s c) q t) (insts s i))) by (apply (rqk_start s c); assumption).
    apply rq_fin; [exact HI| | |reflexivity].
    + destruct (tokset (conns s c)); [|exact H0]. eapply sh_mild; [apply x_reacc, ext_refl|exact H0].
    + destruct (tokset (conns s c)); [|exact HK]. apply rq_reacc; assumption.
  - apply rq_keep; auto.
  - apply rq_keep; auto. intros j. inst_at j i; auto.
  - destruct (W4 c (QAccess i)) as [Hi Ho]; [rewrite Eq; left; reflexivity|].
    assert (Ec : cur (conns s c) = Some i) by (rewrite <- Ho; apply W2; assumption).
    destruct (W1 c i Ec) as (_&_&_&Hdir).
    apply rq_fin; [exact HI|apply sh_body_access; assumption| |reflexivity].
    apply rq_body_access; try assumption. apply (rqk_start s c); assumption.
  - destruct (W4 c (QSub i)) as [Hi Ho]; [rewrite Eq; left; reflexivity|].
    destruct (sgone (csubs (cv s) i)) eqn:Eg.
    + destruct (body_sub_gone s c (conns s c) q i Hinv Eg) as (T1&T2&T3&T4&T5). cbv zeta in *. rewrite T1, T2, T5.
      apply rq_keep; auto.
      * intros j. inst_at j i; auto.
      * intros j Hc'. assert (Hne : j <> i) by (intros ->; destruct (W1 c i Hc') as (_&_&G&_); congruence).
        rewrite subs_other by (cbn [tgt]; congruence || discriminate). reflexivity.
    + assert (Ec : cur (conns s c) = Some i) by (rewrite <- Ho; apply W2; assumption).
      destruct (W1 c i Ec) as (_&_&_&Hdir).
      apply rq_fin; [exact HI|apply sh_body_sub; assumption| |reflexivity].
      apply rq_body_sub; try assumption. apply (rqk_start s c); assumption.
  - (* disposal *)
    unfold body_dispose. cbv zeta. cbn [Core.emit Core.sety Core.ts Core.tx Core.ty].
    match goal with |- context [fold_left actk ?l ?k0] => destruct (acts_frame l k0) as (S3&S4&S5) end. rewrite S3, S4. cbn [Core.tx Core.ty].
    split.
    + intros j. cbn [Core.insts]. destruct (cur (conns s c)) as [i|]; [|apply HI]. inst_at j i; [intros X; contradiction|apply HI].
    + intros i'. cbn [Core.conns]. unfold Core.set_conn. rewrite Nat.eqb_refl. cbn. discriminate.
Qed.

Lemma nonconn_insts s o j : (forall c0, o <> Core.GrantConn upd c0) ->
  acb (insts (fst (step s o)) j) = acb (insts s j) /\ inflight (insts (fst (step s o)) j) = inflight (insts s j) /\
  rq (insts (fst (step s o)) j) = rq (insts s j) /\ owner (insts (fst (step s o)) j) = owner (insts s j) /\
  next (fst (step s o)) = next s.
Proof.
  intros Ho. destruct o as [c id|c id k|c|c t|i g| |u| | | |c]; unfold Core.step; try (exfalso; eapply Ho; reflexivity);
    try (repeat split; fail).
  - destruct (disc (conns s c)); repeat split.
  - destruct (disc (conns s c)); repeat split.
  - destruct (disc (conns s c)); repeat split.
  - destruct (Core.is_done (conns s c)); repeat split.
  - destruct (_ && _); [|repeat split]. cbn [fst Core.insts Core.next]. inst_at j i; repeat split.
Qed.

Lemma rqi_step s o : CInv (cv s) -> WF s -> IAS s /\ RQS s -> IAS (fst (step s o)) /\ RQS (fst (step s o)).
Proof.
  intros Hinv Hw [HI HR].
  assert (Ho : (exists c0, o = Core.GrantConn upd c0) \/ forall c0, o <> Core.GrantConn upd c0).
  { destruct o; try (right; intros; discriminate). left; eexists; reflexivity. }
  destruct Ho as [[c ->]|Ho].
  - destruct (rq_local s c Hinv Hw HI HR) as [A B]. cbv zeta in *. split; [exact A|].
    intros c' i' Hc'. destruct (Nat.eq_dec c' c) as [->|Hne]; [apply B, Hc'|].
    rewrite conns_other in Hc' by exact Hne. destruct (w_cur _ Hw c' i' Hc') as (Hi&Hoi&_).
    unfold RQ1. rewrite insts_other, subs_other_conn by (auto; congruence). apply (HR c' i' Hc').
  - split.
    + intros j. destruct (nonconn_insts s o j Ho) as (A&B&_). rewrite A, B. apply HI.
    + intros c i Hc. destruct (nonconn_cur s o c Ho) as (A&_). rewrite A in Hc.
      destruct (nonconn_insts s o i Ho) as (A1&_&A3&_). unfold RQ1. rewrite A1, A3, step_cv.
      destruct (svc_steps (acts_of s o) (nonconn_acts s o Ho) (cv s) i) as (S1&S2&S3&_). rewrite S1, S2, S3. apply (HR c i Hc).
Qed.
Lemma rqi_exec t ops : IAS (fst (exec t ops)) /\ RQS (fst (exec t ops)).
Proof.
  apply exec_state_ind.
  - split; [intros i X; cbn in X; contradiction|intros c i X; cbn in X; discriminate].
  - intros ops' o s H. apply rqi_step; [apply core_conv_inv|apply wf_exec|exact H].
Qed.

(* ================= every item of a subscription's queue has its task on the owner's connection queue ================= *)
Definition is_qsub (i : nat) (it : qitem) : bool := match it with QSub j => Nat.eqb j i | _ => false end.
Definition cntq (i : nat) (q : list qitem) : nat := length (filter (is_qsub i) q).
Definition QL (s : st_) : Prop :=
  forall i, i < next s -> length (scq (csubs (cv s) i)) <= cntq i (cqueue (conns s (owner (insts s i)))).

Lemma cntq_app i q1 q2 : cntq i (q1 ++ q2) = cntq i q1 + cntq i q2.
Proof. unfold cntq. rewrite filter_app, app_length. reflexivity. Qed.
Lemma cntq_in i q : In (QSub i) q -> 1 <= cntq i q.
Proof.
  induction q as [|a q IH]; [intros []|]. intros [->|H]; unfold cntq in *; cbn [filter is_qsub].
  - rewrite Nat.eqb_refl. cbn [length]. lia.
  - destruct (is_qsub i a); cbn [length]; specialize (IH H); lia.
Qed.

Definition nocq (a : act_) : Prop := a <> Conv.RunE upd /\ forall j, a <> Conv.RunC upd j.
Lemma cq_other σ a j : nocq a -> scq (csubs (cstep σ a) j) = scq (csubs σ j).
Proof.
  intros [Hr Hc]. destruct a as [u| | |n| |k|k cl| |k|k n|k n|k];
    try (rewrite subs_other by (cbn [tgt]; congruence); reflexivity).
  - destruct (Nat.eqb_spec j k) as [->|Hne]; [|rewrite subs_other by (cbn [tgt]; congruence); reflexivity].
    cbn [Conv.step]. destruct (ssubscribed (csubs σ k)); [reflexivity|]. cbn [Conv.subs]. rewrite Conv.set_sub_eq. reflexivity.
  - destruct (Nat.eqb_spec j k) as [->|Hne]; [|rewrite subs_other by (cbn [tgt]; congruence); reflexivity].
    cbn [Conv.step]. destruct (sgone (csubs σ k)); [destruct cl|]; cbn [Conv.subs]; rewrite ?Conv.set_sub_eq; reflexivity.
  - destruct (Nat.eqb_spec j k) as [->|Hne]; [|rewrite subs_other by (cbn [tgt]; congruence); reflexivity].
    destruct (mild_step σ k (Conv.Respond upd k n) eq_refl) as (_&_&C&_). exact C.
  - destruct (Nat.eqb_spec j k) as [->|Hne]; [|rewrite subs_other by (cbn [tgt]; congruence); reflexivity].
    destruct (mild_step σ k (Conv.Unqueue upd k n) eq_refl) as (_&_&C&_). exact C.
  - destruct (Nat.eqb_spec j k) as [->|Hne]; [|rewrite subs_other by (cbn [tgt]; congruence); reflexivity].
    destruct (mild_step σ k (Conv.StartQueue upd k) eq_refl) as (_&_&C&_). exact C.
Qed.
Lemma cq_others acts : Forall nocq acts -> forall σ j, scq (csubs (fold_left cstep acts σ) j) = scq (csubs σ j).
Proof.
  induction 1 as [|a acts Ha _ IH]; intros σ j; cbn [fold_left]; [reflexivity|]. rewrite IH. apply cq_other, Ha.
Qed.
Lemma cq_runc σ i : scq (csubs (cstep σ (Conv.RunC upd i)) i) = tl (scq (csubs σ i)).
Proof.
  cbn [Conv.step]. destruct (scq (csubs σ i)) as [|[|e|] q] eqn:E; [rewrite E; reflexivity|destruct (sgone (csubs σ i))| |];
    cbn [Conv.subs]; rewrite Conv.set_sub_eq; cbn [Conv.cq tl]; try reflexivity.
  destruct (negb (sloaded (csubs σ i))); [reflexivity|]. destruct (sflag (csubs σ i)); [reflexivity|].
  destruct (Conv.proc val upd app (ssver (csubs σ i), ssval (csubs σ i)) e). reflexivity.
Qed.
Lemma cq_runc_other σ i j : j <> i -> scq (csubs (cstep σ (Conv.RunC upd i)) j) = scq (csubs σ j).
Proof. intros H. rewrite subs_other by (cbn [tgt]; congruence || discriminate). reflexivity. Qed.

Lemma hact_nocq m i a : hact m i a -> nocq a.
Proof. destruct a; cbn [hact]; try contradiction; intros _; split; try discriminate; intros; discriminate. Qed.
Lemma ext_cq m c i k1 k j : ext m c i k1 k -> scq (csubs (ts k) j) = scq (csubs (ts k1) j).
Proof.
  intros [(la&_&A2&A3) _ _ _ _ _ _ _]. rewrite A2. apply cq_others. eapply Forall_impl; [|exact A3]. apply hact_nocq.
Qed.

Definition head_sub (q : list qitem) (j : nat) : bool := match q with QSub i :: _ => Nat.eqb j i | _ => false end.

Lemma task_cq s c j :
  let k := fst (fst (fst (conn_task s c))) in
  scq (csubs (ts k) j) = if head_sub (cqueue (conns s c)) j then tl (scq (csubs (cv s) j)) else scq (csubs (cv s) j).
Proof.
  cbv zeta. destruct (ct_spec s c) as [Eq|id q Eq Ec|id q i Eq Ec|id cnt q i Eq Ec|id cnt q Eq Ec|t q i Eq Ec|t q Eq Ec|i q Eq Eg|i q Eq Eg|i q Eq|q Eq];
    cbn [fst]; rewrite Eq; cbn [head_sub]; try reflexivity.
  - rewrite (ext_cq _ _ _ _ _ j (x_load false c (next s) _ _ (AReq id) (ext_refl _ _ _ _))). cbn [Core.emit Core.act Core.ts].
    apply cq_other. split; [discriminate|intros; discriminate].
  - rewrite (ext_cq _ _ _ _ _ j (ext_body_req s c (conns s c) id q i)). reflexivity.
  - rewrite (ext_cq _ _ _ _ _ j (ext_body_unsub s c (conns s c) id cnt q i)). reflexivity.
  - destruct (tokset (conns s c)); [|reflexivity]. rewrite (ext_cq _ _ _ _ _ j (x_reacc false c i _ _ (ext_refl _ _ _ _))). reflexivity.
  - rewrite (ext_cq _ _ _ _ _ j (ext_body_access s c (conns s c) q i)). reflexivity.
  - rewrite (ext_cq _ _ _ _ _ j (ext_body_sub s c (conns s c) q i)). cbn [Core.act Core.ts].
    destruct (Nat.eqb_spec j i) as [->|Hne]; [apply cq_runc|apply cq_runc_other, Hne].
  - unfold body_dispose. cbv zeta. cbn [Core.emit Core.sety Core.ts].
    match goal with |- context [fold_left actk ?l ?k0] => pose proof (sync_acts (cv s) l k0 eq_refl) as S1; pose proof (acts_ta l k0) as S2 end.
    unfold sync in S1. rewrite S1, S2. cbn [Core.ta List.app]. apply cq_others. apply Forall_forall. intros a Hin.
    apply in_map_iff in Hin. destruct Hin as (j' & <- & _). split; [discriminate|intros; discriminate].
Qed.

Lemma task_owner s c i : snd (fst (fst (conn_task s c))) = Some i -> i < next s ->
  owner (ty (fst (fst (fst (conn_task s c))))) = owner (insts s i).
Proof.
  destruct (ct_spec s c) as [Eq|id q Eq Ec|id q i' Eq Ec|id cnt q i' Eq Ec|id cnt q Eq Ec|t q i' Eq Ec|t q Eq Ec|i' q Eq Eg|i' q Eq Eg|i' q Eq|q Eq];
    cbn [fst snd]; intros E Hi; try discriminate E; try (injection E as <-).
  - lia.
  - apply (e_own _ _ _ _ _ (ext_body_req s c (conns s c) id q i')).
  - apply (e_own _ _ _ _ _ (ext_body_unsub s c (conns s c) id cnt q i')).
  - destruct (tokset (conns s c)); [|reflexivity].
    exact (e_own _ _ _ _ _ (x_reacc false c i' _ (K0 s (xtok (conns s c) q t) (insts s i')) (ext_refl _ _ _ _))).
  - reflexivity.
  - apply (e_own _ _ _ _ _ (ext_body_access s c (conns s c) q i')).
  - apply (e_own _ _ _ _ _ (ext_body_sub s c (conns s c) q i')).
  - unfold body_dispose. cbv zeta. cbn [Core.emit Core.sety Core.ty Core.upd_y owner].
    match goal with |- context [fold_left actk ?l ?k0] => destruct (acts_frame l k0) as (_&S4&_) end. rewrite S4. cbn [Core.ty]. rewrite E. reflexivity.
Qed.

Lemma ql_frame s s' : QL s -> next s' = next s -> (forall i, i < next s -> owner (insts s' i) = owner (insts s i)) ->
  (forall i, i < next s -> length (scq (csubs (cv s') i)) <= length (scq (csubs (cv s) i))) ->
  (forall i c, cntq i (cqueue (conns s c)) <= cntq i (cqueue (conns s' c))) -> QL s'.
Proof.
  intros H En Eo Ecq Eq i Hi. rewrite En in Hi. rewrite Eo by exact Hi.
  specialize (H i Hi). specialize (Ecq i Hi). specialize (Eq i (owner (insts s i))). lia.
Qed.

Lemma ql_step_simple s o : CInv (cv s) -> WF s -> QL s ->
  (forall c0, o <> Core.GrantConn upd c0) -> o <> Core.GrantEs upd -> QL (fst (step s o)).
Proof.
  intros Hinv Hw H Ho He. destruct (mqsub s) eqn:Em.
  - apply (ql_frame s _ H).
    + apply (nonconn_insts s o 0 Ho).
    + intros i _. apply (nonconn_insts s o i Ho).
    + intros i _. rewrite step_cv, cq_others; [lia|].
      destruct o as [c id|c id k|c|c t|i' g| |u| | | |c]; cbn [Core.acts_of]; try (repeat constructor; fail); try congruence.
      * destruct (_ && _); repeat constructor; try discriminate; intros; discriminate.
      * destruct (_ && _); repeat constructor; try discriminate; intros; discriminate.
      * rewrite Em. repeat constructor; try discriminate; intros; discriminate.
      * rewrite Em. repeat constructor; try discriminate; intros; discriminate.
      * rewrite Em. repeat constructor; try discriminate; intros; discriminate.
    + intros i c. destruct o as [c' id|c' id k|c'|c' t|i' g| |u| | | |c']; unfold Core.step; try congruence; try (cbn [fst Core.conns]; lia).
      * destruct (disc (conns s c')); cbn [fst Core.conns]; [lia|]. conn_at c c'; [rewrite cntq_app|]; lia.
      * destruct (disc (conns s c')); cbn [fst Core.conns]; [lia|]. conn_at c c'; [rewrite cntq_app|]; lia.
      * destruct (disc (conns s c')); cbn [fst Core.conns]; [lia|]. conn_at c c'; [rewrite cntq_app|]; lia.
      * destruct (Core.is_done (conns s c')); cbn [fst Core.conns]; [lia|]. conn_at c c'; [rewrite cntq_app|]; lia.
      * destruct (_ && _); cbn [fst Core.conns]; lia.
  - intros i Hi. destruct (nonconn_insts s o 0 Ho) as (_&_&_&_&En). rewrite En, (w_ms _ Hw Em) in Hi. lia.
Qed.

Lemma ql_step_es s : CInv (cv s) -> WF s -> QL s -> QL (fst (step s (Core.GrantEs upd))).
Proof.
  intros Hinv Hw H. unfold Core.step. cbn [fst Core.acts_of fold_left].
  intros j Hj. cbn [Core.next Core.insts Core.cv Core.conns] in *.
  match goal with |- _ <= cntq _ (cqueue (Core.pass _ _ ?σ ?own (Core.fan _ _ _ ?σ' _ ?n ?f) ?c')) => destruct (grant_conns σ σ' own n f c') as (B&_) end.
  rewrite B, !cntq_app. specialize (H j Hj).
  destruct (rune_fields (cv s) j) as (_&_&_&_&_&_&_&_&_&[Hcq|[it Hcq]]).
  - rewrite Hcq. lia.
  - rewrite Hcq, app_length. cbn [length].
    match goal with |- _ <= _ + cntq j ?Q + _ => assert (Hq : 1 <= cntq j Q) end; [|lia].
    apply cntq_in. unfold qsubs_for. apply in_map. apply filter_In. split; [apply in_seq; lia|].
    rewrite Nat.eqb_refl, andb_true_r. unfold Core.grew. rewrite Hcq, app_length. cbn [length]. apply Nat.ltb_lt. lia.
Qed.

Lemma cntq_tl j q : cntq j (tl q) = cntq j q - (if head_sub q j then 1 else 0).
Proof.
  destruct q as [|[id|id cnt|t|i|i|] q]; cbn [tl head_sub]; unfold cntq; cbn [filter is_qsub length]; try lia.
  rewrite (Nat.eqb_sym i j). destruct (Nat.eqb j i); cbn [length]; lia.
Qed.

Lemma ql_step_conn s c : CInv (cv s) -> WF s -> QL s -> QL (fst (step s (Core.GrantConn upd c))).
Proof.
  intros Hinv Hw H. pose proof Hw as [W1 W2 W3 W4 W5 W6 W7].
  destruct (cqueue (conns s c)) as [|it0 q0] eqn:Eq0; [rewrite step_conn_empty by exact Eq0; exact H|].
  rewrite step_conn by (rewrite Eq0; discriminate).
  pose proof (task_cq s c) as Hcq. pose proof (task_owner s c) as Hown. pose proof (task_oi s c Hw) as Hoi.
  destruct (task_shape s c) as (_&Hq&_&Hc). cbv zeta in *.
  destruct (conn_task s c) as [[[k oi] nx] ms]. cbn [fst snd] in *.
  assert (Hnx : nx = next s \/ (nx = S (next s) /\ oi = Some (next s) /\ scq (csubs (ts k) (next s)) = [])).
  { destruct Hc as [(A&_)|[(_&_&A2&A3&_&A5&_)|(_&A&_)]]; auto. right. repeat split; auto.
    rewrite Hcq, Eq0. destruct (W3 (next s)) as (_&_&_&A); [lia|]. rewrite A. destruct (head_sub _ _); reflexivity. }
  intros j Hj. cbn [Core.next Core.insts Core.cv Core.conns] in *.
  assert (Hj' : j < next s \/ (j = next s /\ oi = Some j /\ scq (csubs (ts k) j) = [])).
  { destruct Hnx as [->|(->&A&B)]; [left; exact Hj|]. destruct (Nat.eq_dec j (next s)) as [->|]; [right; auto|left; lia]. }
  destruct Hj' as [Hj'|(->&A&B)]; [|rewrite B; cbn [length]; lia].
  assert (Eo : owner (match oi with Some i => Core.set_inst (insts s) i (ty k) | None => insts s end j) = owner (insts s j)).
  { destruct oi as [i|]; [|reflexivity]. unfold Core.set_inst. destruct (Nat.eqb_spec j i) as [->|]; [|reflexivity]. apply Hown; auto. }
  rewrite Eo. specialize (H j Hj'). rewrite Hcq, Eq0.
  unfold Core.set_conn. destruct (Nat.eqb_spec (owner (insts s j)) c) as [E|E].
  - rewrite Hq, Eq0, cntq_tl. rewrite E, Eq0 in H.
    destruct (head_sub (it0 :: q0) j); [|lia]. destruct (scq (csubs (cv s) j)); cbn [tl length] in *; lia.
  - destruct (head_sub (it0 :: q0) j) eqn:Eh; [|exact H]. exfalso. apply E.
    destruct it0; cbn [head_sub] in Eh; try discriminate Eh. apply Nat.eqb_eq in Eh. subst i.
    apply (W4 c (QSub j)). rewrite Eq0. left; reflexivity.
Qed.

Lemma ql_step s o : CInv (cv s) -> WF s -> QL s -> QL (fst (step s o)).
Proof.
  intros Hinv Hw H.
  assert (Ho : (exists c0, o = Core.GrantConn upd c0) \/ o = Core.GrantEs upd \/ ((forall c0, o <> Core.GrantConn upd c0) /\ o <> Core.GrantEs upd)).
  { destruct o; try (right; right; split; intros; discriminate); [right; left; reflexivity|left; eexists; reflexivity]. }
  destruct Ho as [[c0 ->]|[->|[Ho He]]]; [apply ql_step_conn|apply ql_step_es|apply ql_step_simple]; assumption.
Qed.
Lemma ql_exec t ops : QL (fst (exec t ops)).
Proof.
  apply exec_state_ind.
  - intros i Hi. cbn in Hi. lia.
  - intros ops' o s H. apply ql_step; [apply core_conv_inv|apply wf_exec|exact H].
Qed.

(* The statement of CoreStatements.v,
     forall t ops c, let s := fst (exec t ops) in let outs := snd (exec t ops) in
       quiescent s -> Core.disc (conns s c) = false -> no_underflow c outs -> 0 < Core.lcnt val (client c outs) ->
       Core.lcopy val (client c outs) = Some (Conv.truth val upd (cv s)),
   is false of this model for the same reason as core_client_copy; it holds with the extra premise [no_bare_resp]. *)
Theorem core_convergence : forall t ops c,
  let s := fst (exec t ops) in let outs := snd (exec t ops) in
  quiescent s -> Core.disc (conns s c) = false -> no_underflow c outs -> no_bare_resp c outs -> 0 < Core.lcnt val (client c outs) ->
  Core.lcopy val (client c outs) = Some (Conv.truth val upd (cv s)).
Proof.
  intros t ops c. cbv zeta. intros (Hq & Hcq & _ & Hfl) Hd Hnu Hnb Hp.
  destruct (lgc_exec true t ops c Hd (fun _ => Hnu)) as [_ L2].
  pose proof (lgv_exec t ops c Hd Hnu Hnb) as HV. pose proof (wf_exec t ops) as Hw. pose proof (core_conv_inv t ops) as Hinv.
  pose proof (ql_exec t ops) as Hql. destruct (rqi_exec t ops) as [HI HR]. cbv zeta in HV. set (s := fst (exec t ops)) in *.
  destruct (cur (conns s c)) as [i|] eqn:Ec; [|rewrite (L2 eq_refl eq_refl) in Hp; lia].
  destruct (HV i Ec Hp) as (A1&A2&A4).
  destruct (w_cur _ Hw c i Ec) as (Hi&Ho&Hg&_).
  destruct (HR c i Ec) as (R1&R2&_).
  assert (A3 : sflag (csubs (cv s) i) = false).
  { destruct (sflag (csubs (cv s) i)) eqn:Ef; [|reflexivity]. exfalso.
    specialize (R2 (R1 A1 eq_refl)). assert (Hne : acb (insts s i) <> []) by (intros E; rewrite E in R2; destruct R2).
    specialize (HI i Hne). rewrite (Hfl i Hi) in HI. discriminate. }
  assert (Hc0 : scq (csubs (cv s) i) = []).
  { specialize (Hql i Hi). rewrite Ho, Hcq in Hql. cbn in Hql. destruct (scq (csubs (cv s) i)); [reflexivity|cbn in Hql; lia]. }
  pose proof (Conv.i5 _ _ _ _ Hinv i A2) as H5. rewrite (Conv.i8 _ _ _ _ Hinv i A3), Hc0 in H5. cbn in H5.
  destruct (Conv.loaded_mem val upd app _ i Hinv A2) as [_ Hrl].
  pose proof (Conv.i1 _ _ _ _ Hinv) as H1. rewrite Hq, Hrl in H1. cbn in H1.
  destruct (Conv.answered val upd (cv s)); [|discriminate H1]. injection H1 as H1. injection H5 as _ H5.
  rewrite A4. congruence.
Qed.
End CoreProofs.

Print Assumptions run_exec.
Print Assumptions core_reachable_conv.
Print Assumptions core_conv_inv.
Print Assumptions core_get_once_under_subscription.
Print Assumptions core_direct_count.
Print Assumptions core_direct_le.
Print Assumptions core_unsubscribe_outcome.
Print Assumptions core_client_copy.
Print Assumptions core_convergence.

(* ================= H: without the premises the statements fail ================= *)
(* subscribe twice, then unsubscribe one while both subscribe requests still wait for the access answer: the gateway's count
   drops to 1 although two requests are pending and the client holds nothing (finding KF-PENDING-DROPPED) *)
Definition refute_ops1 : list (Core.op nat) :=
  [Core.CSub nat 0 1; Core.GrantConn nat 0; Core.CSub nat 0 2; Core.GrantConn nat 0; Core.CUnsub nat 0 3 1; Core.GrantConn nat 0].
(* ... both requests are then answered (client holds 2, gateway counts 1), one more unsubscribe disposes the subscription
   while the client still counts 1; a later event never reaches it *)
Definition refute_ops3 : list (Core.op nat) :=
  refute_ops1 ++
  [Core.GrantEs nat; Core.MqGet nat; Core.GrantEs nat; Core.MqAccess nat 0 true; Core.GrantEs nat; Core.GrantConn nat 0; Core.GrantConn nat 0;
   Core.CUnsub nat 0 4 1; Core.GrantConn nat 0; Core.GrantEs nat; Core.MqEvent nat 5; Core.GrantEs nat].

Theorem core_direct_count_refuted :
  exists ops : list (Core.op nat),
    let s := fst (Core.exec nat nat Nat.add (fun u _ => Some u) 0 100 ops) in
    let outs := snd (Core.exec nat nat Nat.add (fun u _ => Some u) 0 100 ops) in
    Core.disc (Core.conns nat nat s 0) = false /\ Core.direct (Core.conns nat nat s 0) = 1 /\
    Core.lcnt nat (Core.client nat nat Nat.add 0 outs) = 0 /\ Core.pending nat nat s 0 = 2.
Proof. exists refute_ops1. vm_compute. repeat split. Qed.

Theorem core_convergence_refuted :
  exists ops : list (Core.op nat),
    let s := fst (Core.exec nat nat Nat.add (fun u _ => Some u) 0 100 ops) in
    let outs := snd (Core.exec nat nat Nat.add (fun u _ => Some u) 0 100 ops) in
    Core.quiescent nat nat s /\ Core.disc (Core.conns nat nat s 0) = false /\ 0 < Core.lcnt nat (Core.client nat nat Nat.add 0 outs) /\
    Core.lcopy nat (Core.client nat nat Nat.add 0 outs) <> Some (Conv.truth nat nat (Core.cv nat nat s)).
Proof.
  exists refute_ops3. cbn zeta. split; [|vm_compute; repeat split; try lia; discriminate].
  split; [vm_compute; reflexivity|]. split; [|split].
  - intros c. vm_compute. destruct c; reflexivity.
  - intros _. vm_compute. reflexivity.
  - intros i Hi. assert (E : i = 0) by (vm_compute in Hi; lia). subst i. vm_compute. reflexivity.
Qed.

(* core_client_copy and core_convergence need the premise [no_bare_resp]: a token event starts a re-validation of a
   subscription the client holds (count 1); a second subscribe request joins the waiting continuations; the client unsubscribes
   the one it holds (acknowledged: its count is 0, it drops its copy) but the gateway keeps the subscription for the waiting
   request; the re-validation is granted and the request is answered with an empty resource set, the resource counting as sent.
   No unsubscribe was acknowledged beyond what the client held, nothing is left to do, the client counts 1 and has no copy. *)
Definition copy_refute_ops : list (Core.op nat) :=
  [Core.CSub nat 0 1; Core.GrantConn nat 0; Core.GrantEs nat; Core.MqGet nat; Core.GrantEs nat; Core.MqAccess nat 0 true; Core.GrantEs nat;
   Core.GrantConn nat 0; Core.GrantConn nat 0;
   Core.ConnToken nat 0 7; Core.GrantConn nat 0; Core.ConnToken nat 0 8; Core.GrantConn nat 0;
   Core.CSub nat 0 2; Core.GrantConn nat 0; Core.CUnsub nat 0 3 1; Core.GrantConn nat 0;
   Core.MqAccess nat 0 true; Core.GrantEs nat; Core.GrantConn nat 0].

Theorem core_client_copy_without_premise_refuted :
  exists ops : list (Core.op nat),
    let s := fst (Core.exec nat nat Nat.add (fun u _ => Some u) 0 100 ops) in
    let outs := snd (Core.exec nat nat Nat.add (fun u _ => Some u) 0 100 ops) in
    Core.quiescent nat nat s /\ Core.disc (Core.conns nat nat s 0) = false /\ Core.no_underflow nat nat Nat.add 0 outs /\
    0 < Core.lcnt nat (Core.client nat nat Nat.add 0 outs) /\ Core.lcopy nat (Core.client nat nat Nat.add 0 outs) = None /\
    Conv.sent nat nat (Conv.subs nat nat (Core.cv nat nat s) 0) = true /\
    ~ no_bare_resp nat nat Nat.add 0 outs.
Proof.
  exists copy_refute_ops. cbn zeta. split; [|split; [vm_compute; reflexivity|split; [|split; [vm_compute; lia|split; [vm_compute; reflexivity|split; [vm_compute; reflexivity|]]]]]].
  - split; [vm_compute; reflexivity|]. split; [|split].
    + intros c. vm_compute. destruct c; reflexivity.
    + intros _. vm_compute. reflexivity.
    + intros i Hi. assert (E : i = 0) by (vm_compute in Hi; lia). subst i. vm_compute. reflexivity.
  - assert (Eo : snd (Core.exec nat nat Nat.add (fun u _ => Some u) 0 100 copy_refute_ops) =
                 [Core.OMqSub nat nat; Core.OAccessReq nat nat 0 0 0; Core.OGetReq nat nat; Core.OResp nat nat 0 1 (Some 100);
                  Core.OAccessReq nat nat 0 0 8; Core.OAck nat nat 0 3 1; Core.OResp nat nat 0 2 None]) by (vm_compute; reflexivity).
    rewrite Eo. intros pre id k post E.
    do 7 (destruct pre as [|o pre]; [cbn in E; try discriminate E; try (injection E as <- <- <-; vm_compute; lia)|cbn in E; injection E as <- E]).
    destruct pre; discriminate E.
  - assert (Eo : snd (Core.exec nat nat Nat.add (fun u _ => Some u) 0 100 copy_refute_ops) =
                 [Core.OMqSub nat nat; Core.OAccessReq nat nat 0 0 0; Core.OGetReq nat nat; Core.OResp nat nat 0 1 (Some 100);
                  Core.OAccessReq nat nat 0 0 8; Core.OAck nat nat 0 3 1] ++ Core.OResp nat nat 0 2 None :: []) by (vm_compute; reflexivity).
    intros H. specialize (H _ _ _ Eo). vm_compute in H. lia.
Qed.

Print Assumptions core_direct_count_refuted.
Print Assumptions core_convergence_refuted.
Print Assumptions core_client_copy_without_premise_refuted.
