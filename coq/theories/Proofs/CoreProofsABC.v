From Coq Require Import List Arith Lia Bool Permutation.
From RG Require Import Comp.Conv Comp.Core.
Import ListNotations.

Section CoreProofs.
Variables (val upd : Type) (app : upd -> val -> val) (norm : upd -> val -> option upd) (d : val).
Hypothesis norm_none : forall u v, norm u v = None -> app u v = v.
Hypothesis norm_some : forall u v u', norm u v = Some u' -> app u' v = app u v.

Notation csubs := (Conv.subs val upd).
Notation exec := (Core.exec val upd app norm d).
Notation cv := (Core.cv val upd).
Notation conns := (Core.conns val upd).
Notation insts := (Core.insts val upd).
Notation client := (Core.client val upd app).
Notation resps := (Core.resps val upd).
Notation quiescent := (Core.quiescent val upd).
Notation step := (Core.step val upd app norm).
Notation cstep := (Conv.step val upd app norm).
Notation acts_of := (Core.acts_of val upd app norm).
Notation next := (Core.next val upd).
Notation exec1 := (Core.exec1 val upd app norm).

Notation no_underflow := (Core.no_underflow val upd app).

Lemma exec_snoc t ops o : exec t (ops ++ [o]) = exec1 (exec t ops) o.
Proof. unfold Core.exec. rewrite fold_left_app. reflexivity. Qed.

Lemma run_fold : forall ops s outs0,
  fst (Core.run val upd app norm s ops) = fst (fold_left exec1 ops (s, outs0)) /\
  outs0 ++ concat (snd (Core.run val upd app norm s ops)) = snd (fold_left exec1 ops (s, outs0)).
Proof.
  induction ops as [|o ops IH]; intros s outs0.
  - cbn. rewrite app_nil_r. split; reflexivity.
  - cbn [Core.run fold_left]. unfold Core.exec1 at 2 4.
    destruct (step s o) as [s1 o1] eqn:E.
    specialize (IH s1 (outs0 ++ o1)). destruct (Core.run val upd app norm s1 ops) as [s2 outs].
    cbn [fst snd concat] in *. rewrite app_assoc. exact IH.
Qed.

Theorem run_exec : forall t ops,
  fst (Core.run val upd app norm (Core.init val upd d t) ops) = fst (exec t ops) /\
  concat (snd (Core.run val upd app norm (Core.init val upd d t) ops)) = snd (exec t ops).
Proof. intros t ops. exact (run_fold ops (Core.init val upd d t) []). Qed.

Lemma leb1 k : Nat.leb 1 k = negb (Nat.eqb k 0).
Proof. destruct k; reflexivity. Qed.

Lemma step_cv s o : cv (fst (step s o)) = fold_left cstep (acts_of s o) (cv s).
Proof.
  unfold Core.step. destruct o as [c id|c id k|c|i g| |u| | |c]; cbn [Core.acts_of].
  - destruct (disc (conns s c)); reflexivity.
  - destruct (disc (conns s c)); reflexivity.
  - destruct (disc (conns s c)); reflexivity.
  - destruct (Nat.ltb i (next s) && Core.unanswered (insts s i)); reflexivity.
  - reflexivity.
  - reflexivity.
  - reflexivity.
  - reflexivity.
  - destruct (cqueue (conns s c)) as [|[id|id k|i|i|] q] eqn:Eq.
    + reflexivity.
    + destruct (cur (conns s c)) as [i|]; [|reflexivity].
      destruct (acc (insts s i)) as [[|]|]; try reflexivity.
      destruct (Core.is_live val upd (cv s) i); reflexivity.
    + destruct (cur (conns s c)) as [i|].
      * rewrite leb1. destruct (Nat.eqb k 0); [reflexivity|]. cbn [negb andb].
        destruct (Nat.leb k (direct (conns s c))); [|reflexivity].
        cbn [andb]. destruct (Nat.eqb (direct (conns s c) - k) 0); reflexivity.
      * reflexivity.
    + destruct (Core.is_gone val upd (cv s) i); [reflexivity|].
      destruct (ans (insts s i)) as [[|]|]; try reflexivity.
      destruct (Core.is_live val upd (cv s) i); reflexivity.
    + reflexivity.
    + reflexivity.
Qed.

Theorem core_reachable_conv : forall t ops, exists acts, cv (fst (exec t ops)) = Conv.run val upd app norm d t acts.
Proof.
  intros t ops. induction ops as [|o ops IH] using rev_ind.
  - exists []. reflexivity.
  - destruct IH as [acts IH]. rewrite exec_snoc. destruct (exec t ops) as [s outs]. unfold Core.exec1.
    pose proof (step_cv s o) as Hc. destruct (step s o) as [s' o']. cbn [fst] in *.
    exists (acts ++ acts_of s o). rewrite Hc, IH. unfold Conv.run. rewrite fold_left_app. reflexivity.
Qed.

Theorem core_conv_inv : forall t ops, Conv.Inv val upd app (cv (fst (exec t ops))).
Proof.
  intros t ops. destruct (core_reachable_conv t ops) as [acts ->].
  apply (Conv.run_inv val upd app norm d norm_none norm_some).
Qed.

Lemma acts_inv σ acts : Conv.Inv val upd app σ -> Conv.Inv val upd app (fold_left cstep acts σ).
Proof.
  revert σ. induction acts as [|a acts IH]; intros σ H; [exact H|]. cbn [fold_left].
  apply IH, (Conv.step_inv val upd app norm norm_none norm_some), H.
Qed.
Lemma step_inv' s o : Conv.Inv val upd app (cv s) -> Conv.Inv val upd app (cv (fst (step s o))).
Proof. intros H. rewrite step_cv. apply acts_inv, H. Qed.

(* ---------------- outputs that are neither the get request nor the subscription at the messaging system ---------------- *)
Notation out_ := (Core.out val upd).
Notation isget := (Core.is_getreq val upd).
Notation issub := (Core.is_mqsub val upd).
Notation cnt_get := (Core.count_out val upd (Core.is_getreq val upd)).
Notation cnt_sub := (Core.count_out val upd (Core.is_mqsub val upd)).
Notation getreq := (Core.getreq val upd).
Notation mqsub := (Core.mqsub val upd).

Definition plain (o : out_) : Prop := isget o = false /\ issub o = false.

Lemma count_app (f : out_ -> bool) l1 l2 : Core.count_out val upd f (l1 ++ l2) = Core.count_out val upd f l1 + Core.count_out val upd f l2.
Proof. unfold Core.count_out. rewrite filter_app, app_length. reflexivity. Qed.
Lemma count_plain l : Forall plain l -> cnt_get l = 0 /\ cnt_sub l = 0.
Proof.
  induction 1 as [|x l [Hg Hs] _ [IH1 IH2]]; [split; reflexivity|].
  unfold Core.count_out in *. cbn [filter]. rewrite Hg, Hs. split; assumption.
Qed.
Lemma plain_proc_o c p e : Forall plain (snd (Core.proc_o val upd app c p e)).
Proof.
  destruct p as [ver v]. unfold Core.proc_o. destruct (Nat.eqb ver (e_ver upd e)); [|constructor].
  destruct (e_upd upd e); cbn [snd]; repeat constructor.
Qed.
Lemma plain_replay_o c l : forall p, Forall plain (Core.replay_o val upd app c p l).
Proof.
  induction l as [|e l IH]; intros p; cbn [Core.replay_o]; [constructor|].
  pose proof (plain_proc_o c p e) as Hp. destruct (Core.proc_o val upd app c p e) as [p' o]. cbn [snd] in Hp.
  apply Forall_app. split; [exact Hp|apply IH].
Qed.
Lemma plain_map_resp c (l : list nat) : Forall plain (map (fun id' => Core.OResp val upd c id' None) l).
Proof. induction l; cbn [map]; repeat constructor; assumption. Qed.
Lemma plain_respond_ids c x ids : Forall plain (Core.respond_ids val upd app c x ids).
Proof.
  unfold Core.respond_ids. destruct ids as [|id r]; [constructor|]. apply Forall_app. split; [|apply plain_map_resp].
  destruct (Conv.sent val upd x); [repeat constructor|]. constructor; [split; reflexivity|apply plain_replay_o].
Qed.
Lemma plain_map_err c e (l : list nat) : Forall plain (map (fun id => Core.OErr val upd c id e) l).
Proof. induction l; cbn [map]; repeat constructor; assumption. Qed.

Lemma split_in {A} (outs o pre post : list A) x : outs ++ o = pre ++ x :: post ->
  (exists post', outs = pre ++ x :: post') \/ (exists l post', pre = outs ++ l /\ o = l ++ x :: post').
Proof.
  intros H. apply app_eq_app in H. destruct H as [l [[H1 H2]|[H1 H2]]].
  - destruct l as [|y l].
    + right. exists [], post. rewrite app_nil_r in H1. subst. split; [rewrite app_nil_r; reflexivity|]. cbn in H2. symmetry. exact H2.
    + cbn in H2. injection H2 as <- H2. left. exists l. exact H1.
  - right. exists l, post. split; assumption.
Qed.

Record GO (s : Core.st val upd) (outs : list out_) : Prop := {
  g_get : cnt_get outs = Conv.b2n (getreq s);
  g_sub : cnt_sub outs = Conv.b2n (mqsub s);
  g_gs : getreq s = true -> mqsub s = true;
  g_pre : forall pre o post, outs = pre ++ o :: post -> isget o = true -> cnt_sub pre = 1;
  g_0 : mqsub s = false ->
        next s = 0 /\ Conv.qe val upd (cv s) = [] /\ Conv.rs_loaded val upd (cv s) = false /\
        (forall i, Conv.cq val upd (csubs (cv s) i) = []) /\
        (forall c, cur (conns s c) = None) /\ (forall i, ans (insts s i) = None) }.

Lemma go_frame s outs s' o : GO s outs -> Forall plain o -> getreq s' = getreq s -> mqsub s' = mqsub s ->
  (mqsub s = false -> next s' = 0 /\ Conv.qe val upd (cv s') = [] /\ Conv.rs_loaded val upd (cv s') = false /\
        (forall i, Conv.cq val upd (csubs (cv s') i) = []) /\
        (forall c, cur (conns s' c) = None) /\ (forall i, ans (insts s' i) = None)) ->
  GO s' (outs ++ o).
Proof.
  intros [H1 H2 H3 H4 H5] Hp Eg Em H0. destruct (count_plain o Hp) as [Cg Cs].
  constructor.
  - rewrite count_app, Cg, Eg, H1. lia.
  - rewrite count_app, Cs, Em, H2. lia.
  - rewrite Eg, Em. exact H3.
  - intros pre x post E Hx. apply split_in in E. destruct E as [[post' E]|(l & post' & E1 & E2)].
    + eapply H4; eassumption.
    + exfalso. rewrite Forall_forall in Hp. destruct (Hp x) as [Hg _]; [rewrite E2; apply in_or_app; right; left; reflexivity|]. congruence.
  - rewrite Em. exact H0.
Qed.

Lemma rune_nil σ : Conv.qe val upd σ = [] -> cstep σ (Conv.RunE upd) = σ.
Proof. intros H. cbn [Conv.step]. rewrite H. reflexivity. Qed.
Lemma upd_rune_nil σ a : Conv.qe val upd σ = [] -> Conv.rs_loaded val upd σ = false ->
  (exists u, a = Conv.SvcUpdate upd u) \/ a = Conv.SvcCustom upd ->
  let σ' := cstep (cstep σ a) (Conv.RunE upd) in
  Conv.qe val upd σ' = [] /\ Conv.rs_loaded val upd σ' = false /\ Conv.subs val upd σ' = Conv.subs val upd σ.
Proof.
  intros Hq Hl [[u ->]| ->]; cbn [Conv.step Conv.qe Conv.rs_loaded Conv.subs]; rewrite Hq; cbn [List.app];
    cbn [Conv.qe Conv.rs_loaded Conv.subs]; rewrite Hl; cbn [Conv.qe Conv.rs_loaded Conv.subs]; auto.
Qed.

Ltac conn_at c' c := unfold Core.set_conn; destruct (Nat.eqb_spec c' c) as [->|?];
  cbn [Core.push_q Core.with_q Core.pop_q cur direct disc cqueue].

Lemma go_step s outs o : GO s outs -> GO (fst (step s o)) (outs ++ snd (step s o)).
Proof.
  intros H. pose proof H as [H1 H2 H3 H4 H5].
  unfold Core.step. destruct o as [c id|c id k|c|i g| |u| | |c]; cbn [Core.acts_of].
  - (* CSub *) destruct (disc (conns s c)); cbn [fst snd]; [rewrite app_nil_r; exact H|].
    apply (go_frame s); [exact H|constructor|reflexivity|reflexivity|].
    cbn [fold_left Core.cv Core.next Core.conns Core.insts]. intros Hm. destruct (H5 Hm) as (A&B&C&D&E&F).
    repeat split; auto. intros c'. conn_at c' c; apply E.
  - destruct (disc (conns s c)); cbn [fst snd]; [rewrite app_nil_r; exact H|].
    apply (go_frame s); [exact H|constructor|reflexivity|reflexivity|].
    cbn [fold_left Core.cv Core.next Core.conns Core.insts]. intros Hm. destruct (H5 Hm) as (A&B&C&D&E&F).
    repeat split; auto. intros c'. conn_at c' c; apply E.
  - destruct (disc (conns s c)); cbn [fst snd]; [rewrite app_nil_r; exact H|].
    apply (go_frame s); [exact H|constructor|reflexivity|reflexivity|].
    cbn [fold_left Core.cv Core.next Core.conns Core.insts]. intros Hm. destruct (H5 Hm) as (A&B&C&D&E&F).
    repeat split; auto. intros c'. conn_at c' c; apply E.
  - (* MqAccess *)
    destruct (Nat.ltb i (next s) && Core.unanswered (insts s i)) eqn:Et; cbn [fst snd]; [|rewrite app_nil_r; exact H].
    apply (go_frame s); [exact H|constructor|reflexivity|reflexivity|].
    intros Hm. destruct (H5 Hm) as (A&B&C&D&E&F). exfalso. rewrite A in Et. cbn in Et. discriminate.
  - (* MqGet *)
    cbn [fst snd]. apply (go_frame s); [exact H|constructor|reflexivity|reflexivity|].
    cbn [Core.cv Core.next Core.conns Core.insts]. intros Hm. destruct (H5 Hm) as (A&B&C&D&E&F).
    destruct (getreq s) eqn:Eg; [rewrite (H3 eq_refl) in Hm; discriminate|]. cbn [andb fold_left]. repeat split; auto.
  - (* MqEvent *)
    cbn [fst snd]. apply (go_frame s); [exact H|constructor|reflexivity|reflexivity|].
    cbn [Core.cv Core.next Core.conns Core.insts]. intros Hm. destruct (H5 Hm) as (A&B&C&D&E&F). rewrite Hm. cbn [fold_left].
    destruct (upd_rune_nil (cv s) (Conv.SvcUpdate upd u) B C) as (X&Y&Z); [left; eexists; reflexivity|].
    repeat split; auto. intros i. rewrite Z. apply D.
  - cbn [fst snd]. apply (go_frame s); [exact H|constructor|reflexivity|reflexivity|].
    cbn [Core.cv Core.next Core.conns Core.insts]. intros Hm. destruct (H5 Hm) as (A&B&C&D&E&F). rewrite Hm. cbn [fold_left].
    destruct (upd_rune_nil (cv s) (Conv.SvcCustom upd) B C) as (X&Y&Z); [right; reflexivity|].
    repeat split; auto. intros i. rewrite Z. apply D.
  - (* GrantEs *)
    cbn [fst snd fold_left].
    destruct (Core.is_add_head val upd (cv s)) eqn:Eh.
    + assert (Hm : mqsub s = true).
      { destruct (mqsub s) eqn:Em; [reflexivity|]. destruct (H5 eq_refl) as (A&B&_). unfold Core.is_add_head in Eh. rewrite B in Eh. discriminate. }
      destruct (getreq s) eqn:Eg; cbn [andb negb orb].
      * apply (go_frame s); [exact H|constructor|cbn [Core.getreq]; symmetry; exact Eg|reflexivity|].
        intros Hm'. congruence.
      * constructor; cbn [Core.getreq Core.mqsub].
        -- rewrite count_app, H1. reflexivity.
        -- rewrite count_app, H2. cbn. lia.
        -- intros _. exact Hm.
        -- intros pre x post E Hx. apply split_in in E. destruct E as [[post' E]|(l & post' & E1 & E2)].
           ++ eapply H4; eassumption.
           ++ destruct l as [|y l]; [|destruct l; discriminate E2]. rewrite app_nil_r in E1. subst pre. rewrite H2. try rewrite Hm. reflexivity.
        -- intros Hm'. congruence.
    + cbn [andb orb]. apply (go_frame s); [exact H|constructor|cbn [Core.getreq]; apply orb_false_r|reflexivity|].
      cbn [Core.cv Core.next Core.conns Core.insts]. intros Hm. destruct (H5 Hm) as (A&B&C&D&E&F).
      rewrite (rune_nil _ B). repeat split; auto.
      intros c. unfold Core.pass, Core.nop_head. rewrite B. rewrite A. cbn [seq Core.fan fold_left]. unfold Core.fan. cbn [seq fold_left]. apply E.
  - (* GrantConn *)
    destruct (cqueue (conns s c)) as [|[id|id k|i|i|] q] eqn:Eq; cbn [fst snd].
    + rewrite app_nil_r. exact H.
    + destruct (cur (conns s c)) as [i|] eqn:Ec.
      * assert (Hm : mqsub s = true). { destruct (mqsub s) eqn:Em; [reflexivity|]. destruct (H5 eq_refl) as (A&B&C&D&E&F). rewrite E in Ec. discriminate. }
        destruct (acc (insts s i)) as [[|]|]; [destruct (Core.is_live val upd (cv s) i)| |]; cbn [fst snd];
          (apply (go_frame s); [exact H|try constructor; try apply plain_respond_ids|reflexivity|reflexivity|intros Hm'; congruence]).
      * cbn [fst snd]. destruct (mqsub s) eqn:Em.
        -- apply (go_frame s); [exact H|repeat constructor|reflexivity|cbn [Core.mqsub]; congruence|intros Hm'; congruence].
        -- constructor; cbn [Core.getreq Core.mqsub].
           ++ rewrite count_app, H1. cbn. lia.
           ++ rewrite count_app, H2. reflexivity.
           ++ reflexivity.
           ++ intros pre x post E Hx. apply split_in in E. destruct E as [[post' E]|(l & post' & E1 & E2)].
              ** eapply H4; eassumption.
              ** exfalso. assert (Hin : In x ([Core.OMqSub val upd] ++ [Core.OAccessReq val upd c (next s)])) by (rewrite E2; apply in_or_app; right; left; reflexivity).
                 cbn in Hin. destruct Hin as [<-|[<-|[]]]; discriminate Hx.
           ++ discriminate.
    + (* QUnsub *)
      destruct (cur (conns s c)) as [i|] eqn:Ec.
      * assert (Hm : mqsub s = true). { destruct (mqsub s) eqn:Em; [reflexivity|]. destruct (H5 eq_refl) as (A&B&C&D&E&F). rewrite E in Ec. discriminate. }
        destruct (Nat.eqb k 0); [|destruct (Nat.leb k (direct (conns s c))); [destruct (Nat.eqb (direct (conns s c) - k) 0)|]]; cbn [fst snd];
          (apply (go_frame s); [exact H|repeat constructor|reflexivity|reflexivity|intros Hm'; congruence]).
      * cbn [fst snd fold_left]. apply (go_frame s); [exact H|repeat constructor|reflexivity|reflexivity|].
        cbn [Core.cv Core.next Core.conns Core.insts]. intros Hm. destruct (H5 Hm) as (A&B&C&D&E&F).
        repeat split; auto. intros c'. conn_at c' c; apply E.
    + (* QAccess *)
      assert (Em : mqsub s = true \/ mqsub s = false) by (destruct (mqsub s); auto). destruct Em as [Em|Em].
      * destruct (Core.is_gone val upd (cv s) i); [|destruct (ans (insts s i)) as [[|]|]; [destruct (Core.is_live val upd (cv s) i)| |]]; cbn [fst snd];
          (apply (go_frame s); [exact H|try constructor; try apply plain_respond_ids; try apply plain_map_err|reflexivity|reflexivity|intros Hm'; congruence]).
      * destruct (H5 Em) as (A&B&C&D&E&F). rewrite F.
        assert (X : forall b : bool, (if b then (@nil (Conv.action upd)) else []) = []) by (intros []; reflexivity).
        destruct (Core.is_gone val upd (cv s) i); cbn [fst snd fold_left];
        (apply (go_frame s); [exact H|repeat constructor|reflexivity|reflexivity|]; cbn [Core.cv Core.next Core.conns Core.insts]; intros _;
          repeat split; auto; intros c'; conn_at c' c; apply E).
    + (* QSub *)
      assert (Hp : Forall plain (match Conv.cq val upd (csubs (cv s) i) with
            | Conv.CEvent _ e :: _ =>
                if Conv.loaded val upd (csubs (cv s) i) && negb (Conv.flag val upd (csubs (cv s) i))
                then snd (Core.proc_o val upd app c (Conv.sver val upd (csubs (cv s) i), Conv.sval val upd (csubs (cv s) i)) e) else []
            | _ => [] end ++ (if negb (Core.is_live val upd (cv s) i) && Core.is_live val upd (cstep (cv s) (Conv.RunC upd i)) i
                  then Core.respond_ids val upd app c (csubs (cstep (cv s) (Conv.RunC upd i)) i) (rcb (insts s i)) else []))).
      { apply Forall_app. split.
        - destruct (Conv.cq val upd (csubs (cv s) i)) as [|[|e] ?]; try constructor.
          destruct (Conv.loaded val upd (csubs (cv s) i) && negb (Conv.flag val upd (csubs (cv s) i))); [apply plain_proc_o|constructor].
        - destruct (negb (Core.is_live val upd (cv s) i) && Core.is_live val upd (cstep (cv s) (Conv.RunC upd i)) i); [apply plain_respond_ids|constructor]. }
      apply (go_frame s); [exact H|exact Hp|reflexivity|reflexivity|].
      cbn [Core.cv Core.next Core.conns Core.insts]. intros Hm. destruct (H5 Hm) as (A&B&C&D&E&F).
      assert (R : cstep (cv s) (Conv.RunC upd i) = cv s) by (cbn [Conv.step]; rewrite D; reflexivity).
      rewrite R. unfold Core.is_live. destruct (Conv.loaded val upd (csubs (cv s) i)); cbn [negb andb fold_left]; rewrite R;
        (repeat split; auto; intros c'; conn_at c' c; apply E).
    + (* QDispose *)
      apply (go_frame s); [exact H|repeat constructor|reflexivity|reflexivity|].
      cbn [Core.cv Core.next Core.conns Core.insts]. intros Hm. destruct (H5 Hm) as (A&B&C&D&E&F).
      unfold Core.insts_of. rewrite A. cbn [seq filter map fold_left]. rewrite E.
      repeat split; auto; intros c'; conn_at c' c; try reflexivity; apply E.
Qed.

Lemma go_init t : GO (Core.init val upd d t) [].
Proof.
  constructor; cbn; try reflexivity; auto.
  - intros pre o post E. destruct pre; discriminate E.
  - intros _. repeat split; reflexivity.
Qed.

(* generic: an invariant of (state, outputs) that holds initially and is preserved by every step holds after exec *)
Lemma exec_ind (P : Core.st val upd -> list out_ -> Prop) t :
  P (Core.init val upd d t) [] ->
  (forall ops o, let s := fst (exec t ops) in let outs := snd (exec t ops) in
     P s outs -> P (fst (step s o)) (outs ++ snd (step s o))) ->
  forall ops, P (fst (exec t ops)) (snd (exec t ops)).
Proof.
  intros H0 Hs ops. induction ops as [|o ops IH] using rev_ind; [exact H0|].
  specialize (Hs ops o IH). rewrite exec_snoc. destruct (exec t ops) as [s outs]. unfold Core.exec1.
  cbn [fst snd] in Hs. destruct (step s o) as [s' o']. exact Hs.
Qed.

Lemma go_exec t ops : GO (fst (exec t ops)) (snd (exec t ops)).
Proof. apply exec_ind; [apply go_init|]. intros ops' o s outs H. apply go_step, H. Qed.

Theorem core_get_once_under_subscription : forall t ops,
  let outs := snd (exec t ops) in
  Core.count_out val upd (Core.is_getreq val upd) outs <= 1 /\
  Core.count_out val upd (Core.is_mqsub val upd) outs <= 1 /\
  forall pre o post, outs = pre ++ o :: post -> Core.is_getreq val upd o = true ->
    Core.count_out val upd (Core.is_mqsub val upd) pre = 1.
Proof.
  intros t ops outs. destruct (go_exec t ops) as [H1 H2 H3 H4 H5]. fold outs in H1, H2, H4.
  split; [rewrite H1; apply Conv.b2n_le|]. split; [rewrite H2; apply Conv.b2n_le|]. exact H4.
Qed.

(* ---------------- frame lemmas about Conv actions ---------------- *)
Notation cst := (Conv.st val upd).
Notation act := (Conv.action upd).
Notation CInv := (Conv.Inv val upd app).
Notation sgone x := (Conv.gone val upd x).
Notation ssent x := (Conv.sent val upd x).
Notation ssubscribed x := (Conv.subscribed val upd x).
Notation sloaded x := (Conv.loaded val upd x).
Notation scq x := (Conv.cq val upd x).
Notation sflag x := (Conv.flag val upd x).
Notation ssval x := (Conv.sval val upd x).
Notation ssver x := (Conv.sver val upd x).
Notation seq_ x := (Conv.eq val upd x).
Notation sclosed x := (Conv.closed val upd x).
Notation cqe σ := (Conv.qe val upd σ).

Definition tgt (a : act) : option nat :=
  match a with
  | Conv.Subscribe _ k | Conv.Dispose _ k _ | Conv.RunC _ k | Conv.Respond _ k _ | Conv.Unqueue _ k _ | Conv.StartQueue _ k => Some k
  | _ => None
  end.

Lemma subs_other σ a j : tgt a <> Some j -> a <> Conv.RunE upd -> csubs (cstep σ a) j = csubs σ j.
Proof.
  intros Ht Hr. destruct a as [u| | |n|k|k cl| |k|k n|k n|k]; cbn [tgt] in Ht; cbn [Conv.step]; try reflexivity.
  - destruct (Conv.answered val upd σ); reflexivity.
  - destruct (ssubscribed (csubs σ k)); [reflexivity|]. cbn [Conv.subs]. apply Conv.set_sub_neq. congruence.
  - destruct (sgone (csubs σ k)); [destruct cl|]; cbn [Conv.subs]; try reflexivity; apply Conv.set_sub_neq; congruence.
  - contradiction.
  - destruct (scq (csubs σ k)) as [|[|e] q]; [reflexivity|destruct (sgone (csubs σ k))|]; cbn [Conv.subs]; apply Conv.set_sub_neq; congruence.
  - destruct (sloaded (csubs σ k) && negb (ssent (csubs σ k))); [|reflexivity]. cbn [Conv.subs]. apply Conv.set_sub_neq; congruence.
  - destruct (sloaded (csubs σ k) && ssent (csubs σ k) && sflag (csubs σ k)); [|reflexivity]. cbn [Conv.subs]. apply Conv.set_sub_neq; congruence.
  - destruct (sloaded (csubs σ k) && ssent (csubs σ k)); [|reflexivity]. cbn [Conv.subs]. apply Conv.set_sub_neq; congruence.
Qed.

Lemma subs_others σ acts j : Forall (fun a => tgt a <> Some j /\ a <> Conv.RunE upd) acts ->
  csubs (fold_left cstep acts σ) j = csubs σ j.
Proof.
  revert σ. induction acts as [|a acts IH]; intros σ H; [reflexivity|]. cbn [fold_left].
  inversion H as [|? ? [H1 H2] H3]; subst. rewrite IH by assumption. apply subs_other; assumption.
Qed.

(* the cache worker only appends to the connection queues *)
Lemma rune_fields σ j :
  let x := csubs σ j in let x' := csubs (cstep σ (Conv.RunE upd)) j in
  ssubscribed x' = ssubscribed x /\ sloaded x' = sloaded x /\ ssver x' = ssver x /\ ssval x' = ssval x /\
  sflag x' = sflag x /\ seq_ x' = seq_ x /\ ssent x' = ssent x /\ sgone x' = sgone x /\ sclosed x' = sclosed x /\
  (scq x' = scq x \/ exists it, scq x' = scq x ++ [it]).
Proof.
  cbn zeta. cbn [Conv.step].
  assert (PA : forall it, let x' := Conv.push_all val upd (csubs σ) (Conv.rs_subs val upd σ) it j in
    ssubscribed x' = ssubscribed (csubs σ j) /\ sloaded x' = sloaded (csubs σ j) /\ ssver x' = ssver (csubs σ j) /\ ssval x' = ssval (csubs σ j) /\
    sflag x' = sflag (csubs σ j) /\ seq_ x' = seq_ (csubs σ j) /\ ssent x' = ssent (csubs σ j) /\ sgone x' = sgone (csubs σ j) /\ sclosed x' = sclosed (csubs σ j) /\
    (scq x' = scq (csubs σ j) \/ exists it, scq x' = scq (csubs σ j) ++ [it])).
  { intros it. cbn zeta. unfold Conv.push_all. destruct (_ && _);
      cbn [Conv.push_c Conv.subscribed Conv.loaded Conv.sver Conv.sval Conv.flag Conv.eq Conv.sent Conv.gone Conv.closed Conv.cq];
      repeat split; [right; eexists; reflexivity|left; reflexivity]. }
  assert (ID : let x := csubs σ j in ssubscribed x = ssubscribed x /\ sloaded x = sloaded x /\ ssver x = ssver x /\ ssval x = ssval x /\
    sflag x = sflag x /\ seq_ x = seq_ x /\ ssent x = ssent x /\ sgone x = sgone x /\ sclosed x = sclosed x /\
    (scq x = scq x \/ exists it, scq x = scq x ++ [it])) by (cbn zeta; repeat split; left; reflexivity).
  destruct (cqe σ) as [|[u| |v|k|k|n] q]; cbn [Conv.subs]; try exact ID.
  - destruct (Conv.rs_loaded val upd σ); [|exact ID]. destruct (norm u (Conv.rs_val val upd σ)); cbn [Conv.subs]; [apply PA|exact ID].
  - destruct (Conv.rs_loaded val upd σ); [apply PA|exact ID].
  - apply PA.
  - destruct (Conv.rs_loaded val upd σ && negb (sclosed (csubs σ k))); [|exact ID].
    unfold Conv.set_sub. destruct (Nat.eqb j k) eqn:E; [|exact ID]. apply Nat.eqb_eq in E. subst k.
    cbn [Conv.push_c Conv.subscribed Conv.loaded Conv.sver Conv.sval Conv.flag Conv.eq Conv.sent Conv.gone Conv.closed Conv.cq].
    repeat split. right. eexists; reflexivity.
Qed.

Lemma mem_false_fresh σ j : CInv σ -> ssubscribed (csubs σ j) = false -> Conv.mem j (Conv.rs_subs val upd σ) = false.
Proof.
  intros H Hs. pose proof (Conv.i3g _ _ _ _ H j) as H3. rewrite Hs in H3. cbn [Conv.b2n] in H3.
  destruct (Conv.mem j (Conv.rs_subs val upd σ)); [cbn in H3; lia|reflexivity].
Qed.

Lemma rune_cq_fresh σ j : CInv σ -> ssubscribed (csubs σ j) = false -> scq (csubs (cstep σ (Conv.RunE upd)) j) = scq (csubs σ j).
Proof.
  intros H Hs. pose proof (mem_false_fresh σ j H Hs) as Hm.
  assert (PA : forall it, scq (Conv.push_all val upd (csubs σ) (Conv.rs_subs val upd σ) it j) = scq (csubs σ j)).
  { intros it. unfold Conv.push_all. rewrite Hm. reflexivity. }
  cbn [Conv.step]. destruct (cqe σ) as [|[u| |v|k|k|n] q] eqn:Eq; cbn [Conv.subs]; try reflexivity.
  - destruct (Conv.rs_loaded val upd σ); [|reflexivity]. destruct (norm u (Conv.rs_val val upd σ)); cbn [Conv.subs]; [apply PA|reflexivity].
  - destruct (Conv.rs_loaded val upd σ); [apply PA|reflexivity].
  - apply PA.
  - destruct (Conv.rs_loaded val upd σ && negb (sclosed (csubs σ k))); [|reflexivity].
    unfold Conv.set_sub. destruct (Nat.eqb_spec j k) as [->|Hne]; [|reflexivity]. exfalso.
    pose proof (Conv.i3g _ _ _ _ H k) as H3. rewrite Eq, Hs, Conv.cnt_cons in H3. cbn [Conv.is_add] in H3. rewrite Nat.eqb_refl in H3. cbn in H3. lia.
Qed.

Lemma in_refused_nop (f : nat -> Conv.sub val upd) l i : In (Conv.INop val upd i) (Conv.refused val upd f l) -> False.
Proof. unfold Conv.refused. intros H. apply in_map_iff in H. destruct H as (x & E & _). discriminate E. Qed.

Lemma nop_step σ a i : In (Conv.INop val upd i) (cqe (cstep σ a)) -> In (Conv.INop val upd i) (cqe σ) \/ a = Conv.SvcNop upd i.
Proof.
  destruct a as [u| | |n|k|k cl| |k|k n|k n|k]; cbn [Conv.step].
  - cbn [Conv.qe]. intros H. apply in_app_or in H. destruct H as [H|[H|[]]]; [left; exact H|discriminate H].
  - cbn [Conv.qe]. intros H. apply in_app_or in H. destruct H as [H|[H|[]]]; [left; exact H|discriminate H].
  - destruct (Conv.answered val upd σ); [auto|]. cbn [Conv.qe]. intros H. apply in_app_or in H. destruct H as [H|[H|[]]]; [left; exact H|discriminate H].
  - cbn [Conv.qe]. intros H. apply in_app_or in H. destruct H as [H|[H|[]]]; [left; exact H|]. injection H as ->. right; reflexivity.
  - destruct (ssubscribed (csubs σ k)); [auto|]. cbn [Conv.qe]. intros H. apply in_app_or in H. destruct H as [H|[H|[]]]; [left; exact H|discriminate H].
  - destruct (sgone (csubs σ k)); [destruct cl; cbn [Conv.qe]; auto|]. cbn [Conv.qe]. destruct (sloaded (csubs σ k)); [|auto].
    intros H. apply in_app_or in H. destruct H as [H|[H|[]]]; [left; exact H|discriminate H].
  - destruct (cqe σ) as [|[u| |v|k|k|n] q] eqn:Eq; cbn [Conv.qe]; [intros H; rewrite Eq in H; destruct H| | | | | |].
    + destruct (Conv.rs_loaded val upd σ); [destruct (norm u (Conv.rs_val val upd σ))|]; cbn [Conv.qe]; intros H; left; right; exact H.
    + intros H; left; right; exact H.
    + intros H. apply in_app_or in H. destruct H as [H|H]; [left; right; exact H|exfalso; eapply in_refused_nop; exact H].
    + destruct (Conv.rs_loaded val upd σ && sclosed (csubs σ k)); intros H; [|left; right; exact H].
      apply in_app_or in H. destruct H as [H|[H|[]]]; [left; right; exact H|discriminate H].
    + intros H; left; right; exact H.
    + intros H; left; right; exact H.
  - destruct (scq (csubs σ k)) as [|[|e] q]; [auto|destruct (sgone (csubs σ k))|]; cbn [Conv.qe]; auto.
    intros H. apply in_app_or in H. destruct H as [H|[H|[]]]; [left; exact H|discriminate H].
  - destruct (_ && _); cbn [Conv.qe]; auto.
  - destruct (_ && _); cbn [Conv.qe]; auto.
  - destruct (_ && _); cbn [Conv.qe]; auto.
Qed.
Lemma nop_steps acts : forall σ i, In (Conv.INop val upd i) (cqe (fold_left cstep acts σ)) ->
  In (Conv.INop val upd i) (cqe σ) \/ In (Conv.SvcNop upd i) acts.
Proof.
  induction acts as [|a acts IH]; intros σ i H; [left; exact H|]. cbn [fold_left] in H.
  apply IH in H. destruct H as [H|H]; [|right; right; exact H].
  apply nop_step in H. destruct H as [H|H]; [left; exact H|right; left; exact H].
Qed.

(* ---------------- the two ways the cache worker reaches the connection queues ---------------- *)
Definition qsubs_for (σ σ' : cst) (own : nat -> nat) (c : nat) (l : list nat) : list qitem :=
  map QSub (filter (fun i => Core.grew val upd σ σ' i && Nat.eqb (own i) c) l).

Lemma fan_gen σ σ' own : forall l f c,
  let f' := fold_left (fun g i => if Core.grew val upd σ σ' i then Core.set_conn g (own i) (Core.push_q (g (own i)) (QSub i)) else g) l f in
  cqueue (f' c) = cqueue (f c) ++ qsubs_for σ σ' own c l /\ cur (f' c) = cur (f c) /\ direct (f' c) = direct (f c) /\ disc (f' c) = disc (f c).
Proof.
  induction l as [|a l IH]; intros f c; cbn [fold_left].
  - unfold qsubs_for. cbn. rewrite app_nil_r. auto.
  - cbn zeta in IH. destruct (IH (if Core.grew val upd σ σ' a then Core.set_conn f (own a) (Core.push_q (f (own a)) (QSub a)) else f) c) as (A&B&C&D).
    rewrite A, B, C, D. unfold qsubs_for. cbn [filter]. destruct (Core.grew val upd σ σ' a); cbn [andb]; [|auto].
    unfold Core.set_conn. rewrite (Nat.eqb_sym (own a) c). destruct (Nat.eqb c (own a)) eqn:E; [|auto].
    apply Nat.eqb_eq in E. subst c. cbn [map Core.push_q Core.with_q cqueue cur direct disc]. rewrite <- app_assoc. auto.
Qed.
Lemma fan_spec σ σ' own n f c :
  let f' := Core.fan val upd σ σ' own n f in
  cqueue (f' c) = cqueue (f c) ++ qsubs_for σ σ' own c (seq 0 n) /\ cur (f' c) = cur (f c) /\ direct (f' c) = direct (f c) /\ disc (f' c) = disc (f c).
Proof. apply fan_gen. Qed.

Definition qacc_for (σ : cst) (own : nat -> nat) (c : nat) : list qitem :=
  match Core.nop_head val upd σ with
  | Some i => if Core.is_closed val upd σ i then [] else if Nat.eqb c (own i) then [QAccess i] else []
  | None => []
  end.
Lemma pass_spec σ own f c :
  let f' := Core.pass val upd σ own f in
  cqueue (f' c) = cqueue (f c) ++ qacc_for σ own c /\ cur (f' c) = cur (f c) /\ direct (f' c) = direct (f c) /\ disc (f' c) = disc (f c).
Proof.
  cbn zeta. unfold Core.pass, qacc_for. destruct (Core.nop_head val upd σ) as [i|]; [|rewrite app_nil_r; auto].
  destruct (Core.is_closed val upd σ i); [rewrite app_nil_r; auto|].
  unfold Core.set_conn. destruct (Nat.eqb c (own i)) eqn:E; [|rewrite app_nil_r; auto].
  apply Nat.eqb_eq in E. subst c. cbn [Core.push_q Core.with_q cqueue cur direct disc]. auto.
Qed.
Lemma grant_conns σ σ' own n f c :
  let f' := Core.pass val upd σ own (Core.fan val upd σ σ' own n f) in
  cqueue (f' c) = (cqueue (f c) ++ qsubs_for σ σ' own c (seq 0 n)) ++ qacc_for σ own c /\
  cur (f' c) = cur (f c) /\ direct (f' c) = direct (f c) /\ disc (f' c) = disc (f c).
Proof.
  cbn zeta. destruct (pass_spec σ own (Core.fan val upd σ σ' own n f) c) as (A&B&C&D).
  destruct (fan_spec σ σ' own n f c) as (A'&B'&C'&D'). rewrite A, B, C, D, A', B', C', D'. auto.
Qed.

(* ---------------- which actions dispose ---------------- *)
Lemma gone_step σ a j :
  sgone (csubs (cstep σ a) j) = match a with Conv.Dispose _ k _ => Nat.eqb j k || sgone (csubs σ j) | _ => sgone (csubs σ j) end.
Proof.
  destruct a as [u| | |n|k|k cl| |k|k n|k n|k];
    try (rewrite subs_other by (cbn [tgt]; congruence); reflexivity).
  - (* Subscribe *) destruct (Nat.eqb_spec j k) as [->|Hne]; [|rewrite subs_other by (cbn [tgt]; congruence); reflexivity].
    cbn [Conv.step]. destruct (ssubscribed (csubs σ k)); [reflexivity|]. cbn [Conv.subs]. rewrite Conv.set_sub_eq. reflexivity.
  - (* Dispose *) destruct (Nat.eqb_spec j k) as [->|Hne]; [|rewrite subs_other by (cbn [tgt]; congruence); reflexivity].
    cbn [Conv.step orb]. destruct (sgone (csubs σ k)) eqn:Eg; [destruct cl|]; cbn [Conv.subs]; rewrite ?Conv.set_sub_eq; cbn [Conv.dispose Conv.gone]; auto.
  - (* RunE *) destruct (rune_fields σ j) as (_&_&_&_&_&_&_&G&_). exact G.
  - (* RunC *) destruct (Nat.eqb_spec j k) as [->|Hne]; [|rewrite subs_other by (cbn [tgt]; congruence); reflexivity].
    cbn [Conv.step]. destruct (scq (csubs σ k)) as [|[|e] q]; [reflexivity|destruct (sgone (csubs σ k)) eqn:Eg|]; cbn [Conv.subs]; rewrite Conv.set_sub_eq; cbn [Conv.gone]; auto.
    destruct (negb (sloaded (csubs σ k))); [reflexivity|]. destruct (sflag (csubs σ k)); [reflexivity|].
    destruct (Conv.proc val upd app (ssver (csubs σ k), ssval (csubs σ k)) e). reflexivity.
  - (* Respond *) destruct (Nat.eqb_spec j k) as [->|Hne]; [|rewrite subs_other by (cbn [tgt]; congruence); reflexivity].
    cbn [Conv.step]. destruct (_ && _); [|reflexivity]. cbn [Conv.subs]. rewrite Conv.set_sub_eq.
    match goal with |- sgone (Conv.drain val upd app ?x n) = _ => destruct (Conv.drain_fields val upd app x n) as (_&_&_&_&_&_&G&_); rewrite G end. reflexivity.
  - destruct (Nat.eqb_spec j k) as [->|Hne]; [|rewrite subs_other by (cbn [tgt]; congruence); reflexivity].
    cbn [Conv.step]. destruct (_ && _); [|reflexivity]. cbn [Conv.subs]. rewrite Conv.set_sub_eq.
    match goal with |- sgone (Conv.drain val upd app ?x n) = _ => destruct (Conv.drain_fields val upd app x n) as (_&_&_&_&_&_&G&_); rewrite G end. reflexivity.
  - destruct (Nat.eqb_spec j k) as [->|Hne]; [|rewrite subs_other by (cbn [tgt]; congruence); reflexivity].
    cbn [Conv.step]. destruct (_ && _); [|reflexivity]. cbn [Conv.subs]. rewrite Conv.set_sub_eq. reflexivity.
Qed.

Definition fresh (σ : cst) (i : nat) : Prop :=
  ssubscribed (csubs σ i) = false /\ ssent (csubs σ i) = false /\ sgone (csubs σ i) = false /\ scq (csubs σ i) = [].

Lemma fresh_step σ a i : CInv σ -> tgt a <> Some i -> fresh σ i -> fresh (cstep σ a) i.
Proof.
  intros H Ht (A&B&C&D).
  assert (Hr : a = Conv.RunE upd \/ a <> Conv.RunE upd) by (destruct a; auto; right; discriminate).
  destruct Hr as [->|Hr].
  - destruct (rune_fields σ i) as (A'&_&_&_&_&_&B'&C'&_). unfold fresh. rewrite A', B', C', (rune_cq_fresh σ i H A). auto.
  - unfold fresh. rewrite subs_other by assumption. auto.
Qed.

Definition benign (n : nat) (a : act) : Prop :=
  match a with
  | Conv.Dispose _ _ _ | Conv.Subscribe _ _ | Conv.Unqueue _ _ _ | Conv.StartQueue _ _ => False
  | Conv.RunC _ j | Conv.Respond _ j _ => j < n
  | Conv.SvcNop _ i => i < n
  | _ => True
  end.

Lemma cstep_inv σ a : CInv σ -> CInv (cstep σ a).
Proof. apply (Conv.step_inv val upd app norm norm_none norm_some). Qed.

Lemma benign_steps n acts : forall σ, CInv σ -> Forall (benign n) acts ->
  let σ' := fold_left cstep acts σ in
  (forall i, sgone (csubs σ' i) = sgone (csubs σ i)) /\
  (forall i, n <= i -> fresh σ i -> fresh σ' i) /\
  (forall i, In (Conv.INop val upd i) (cqe σ') -> In (Conv.INop val upd i) (cqe σ) \/ i < n).
Proof.
  induction acts as [|a acts IH]; intros σ H Hb; cbn [fold_left]; cbn zeta.
  - split; [reflexivity|split; [intros i _ Hf; exact Hf|intros i Hin; left; exact Hin]].
  - inversion Hb as [|? ? Ha Hb']; subst. destruct (IH (cstep σ a) (cstep_inv σ a H) Hb') as (G&F&N). cbn zeta in *.
    split; [|split].
    + intros i. rewrite G, gone_step. destruct a; try reflexivity. destruct Ha.
    + intros i Hi Hf. apply F; [exact Hi|]. apply fresh_step; [exact H| |exact Hf].
      destruct a; cbn [tgt benign] in *; try discriminate; try contradiction; intros E; injection E as ->; lia.
    + intros i Hin. apply N in Hin. destruct Hin as [Hin|Hin]; [|right; exact Hin].
      apply nop_step in Hin. destruct Hin as [Hin| ->]; [left; exact Hin|right; exact Ha].
Qed.

(* ---------------- structure of the reachable states ---------------- *)
Definition okitem (s s' : Core.st val upd) (c : nat) (it : qitem) : Prop :=
  match it with
  | QReq _ | QUnsub _ _ => True
  | QDispose => disc (conns s' c) = true
  | QAccess i | QSub i => i < next s /\ owner (insts s i) = c
  end.

Record WF (s : Core.st val upd) : Prop := {
  w_cur : forall c i, cur (conns s c) = Some i -> i < next s /\ owner (insts s i) = c /\ sgone (csubs (cv s) i) = false;
  w_live : forall i, i < next s -> sgone (csubs (cv s) i) = false -> cur (conns s (owner (insts s i))) = Some i;
  w_fresh : forall i, next s <= i -> fresh (cv s) i;
  w_q : forall c it, In it (cqueue (conns s c)) -> okitem s s c it;
  w_dir : forall c, cur (conns s c) = None -> direct (conns s c) = 0;
  w_nop : forall i, In (Conv.INop val upd i) (cqe (cv s)) -> i < next s;
  w_acc : forall i b, acc (insts s i) = Some b -> ans (insts s i) = Some b }.

Lemma wf_frame s s' : WF s ->
  next s' = next s ->
  (forall c, cur (conns s' c) = cur (conns s c)) ->
  (forall c, cur (conns s c) = None -> direct (conns s' c) = direct (conns s c)) ->
  (forall i, owner (insts s' i) = owner (insts s i)) ->
  (forall i b, acc (insts s' i) = Some b -> ans (insts s' i) = Some b) ->
  (forall i, sgone (csubs (cv s') i) = sgone (csubs (cv s) i)) ->
  (forall i, next s <= i -> fresh (cv s) i -> fresh (cv s') i) ->
  (forall c it, In it (cqueue (conns s' c)) -> In it (cqueue (conns s c)) \/ okitem s s' c it) ->
  (forall c, disc (conns s c) = true -> disc (conns s' c) = true) ->
  (forall i, In (Conv.INop val upd i) (cqe (cv s')) -> In (Conv.INop val upd i) (cqe (cv s)) \/ i < next s) ->
  WF s'.
Proof.
  intros [W1 W2 W3 W4 W5 W6 W7] En Ec Ed Eo Ea Eg Ef Eq Edc Eno.
  constructor.
  - intros c i Hc. rewrite Ec in Hc. rewrite En, Eo, Eg. apply W1, Hc.
  - intros i Hi Hg. rewrite En in Hi. rewrite Eg in Hg. rewrite Eo, Ec. apply W2; assumption.
  - intros i Hi. rewrite En in Hi. apply Ef; [exact Hi|apply W3, Hi].
  - intros c it Hin. apply Eq in Hin. destruct Hin as [Hin|Hin].
    + apply W4 in Hin. destruct it; cbn [okitem] in *; auto; rewrite ?En, ?Eo; auto.
    + destruct it; cbn [okitem] in *; auto; rewrite ?En, ?Eo; auto.
  - intros c Hc. rewrite Ec in Hc. rewrite Ed by exact Hc. apply W5, Hc.
  - intros i Hin. rewrite En. apply Eno in Hin. destruct Hin as [Hin|Hin]; [apply W6, Hin|exact Hin].
  - exact Ea.
Qed.

Ltac step_cases s o :=
  unfold Core.step; destruct o as [c id|c id k|c|i g| |u| | |c]; cbn [Core.acts_of];
  [ destruct (disc (conns s c)) eqn:Ed
  | destruct (disc (conns s c)) eqn:Ed
  | destruct (disc (conns s c)) eqn:Ed
  | destruct (Nat.ltb i (next s) && Core.unanswered (insts s i)) eqn:Et
  | | | |
  | destruct (cqueue (conns s c)) as [|[id|id k|i|i|] q] eqn:Eq;
    [ | destruct (cur (conns s c)) as [i|] eqn:Ec;
        [destruct (acc (insts s i)) as [[|]|] eqn:Ea; [destruct (Core.is_live val upd (cv s) i) eqn:El| |] |]
      | rewrite ?leb1; destruct (cur (conns s c)) as [i|] eqn:Ec;
        [destruct (Nat.eqb k 0) eqn:Ek;
           [|destruct (Nat.leb k (direct (conns s c))) eqn:Ele; [destruct (Nat.eqb (direct (conns s c) - k) 0) eqn:Ez|]]|]
      | destruct (Core.is_gone val upd (cv s) i) eqn:Eg;
        [|destruct (ans (insts s i)) as [[|]|] eqn:Ean; [destruct (Core.is_live val upd (cv s) i) eqn:El| |]]
      | | ] ];
  cbn [fst snd negb andb].

Ltac inst_at j i := unfold Core.set_inst; destruct (Nat.eqb_spec j i) as [->|?]; cbn [Core.with_cbs owner acb rcb acc ans lost].

Lemma benign_respond n i x ids : i < n -> Forall (benign n) (Core.respond_acts val upd i x ids).
Proof. intros Hi. unfold Core.respond_acts. destruct ids; [constructor|]. destruct (ssent x); repeat constructor. exact Hi. Qed.

Lemma in_qsubs_for σ σ' own c n it : In it (qsubs_for σ σ' own c (seq 0 n)) -> exists i, it = QSub i /\ i < n /\ own i = c.
Proof.
  unfold qsubs_for. intros H. apply in_map_iff in H. destruct H as (i & <- & H). apply filter_In in H. destruct H as [H1 H2].
  apply in_seq in H1. apply andb_prop in H2. destruct H2 as [_ H2]. apply Nat.eqb_eq in H2. exists i. repeat split; [lia|exact H2].
Qed.
Lemma in_qacc_for σ own c it : In it (qacc_for σ own c) -> exists i, it = QAccess i /\ own i = c /\ In (Conv.INop val upd i) (cqe σ).
Proof.
  unfold qacc_for, Core.nop_head. destruct (cqe σ) as [|[u| |v|k|k|n] q]; try (intros []).
  destruct (Core.is_closed val upd σ n); [intros []|]. destruct (Nat.eqb_spec c (own n)) as [->|]; [|intros []].
  intros [<-|[]]. exists n. repeat split. left; reflexivity.
Qed.

Ltac use_benign Hinv :=
  match goal with |- context [fold_left (Conv.step val upd app norm) ?A (Core.cv val upd ?s)] =>
    let HB := fresh "HB" in assert (HB : Forall (benign (next s)) A);
      [|destruct (benign_steps (next s) A (cv s) Hinv HB) as (BG&BF&BN)] end.

(* the branches of a connection worker that leave cur, next and the set of disposed instances alone *)
Ltac frame_conn Hw c Eq :=
  apply (wf_frame _ _ Hw); cbn [Core.next Core.conns Core.insts Core.cv];
  [ reflexivity
  | let c' := fresh "c'" in intros c'; conn_at c' c; try reflexivity; try (symmetry; assumption); try congruence
  | let c' := fresh "c'" in intros c'; conn_at c' c; intros; try reflexivity; try congruence
  | | | |
  | let c' := fresh "c'" in let it := fresh "it" in let Hin := fresh "Hin" in
    intros c' it; conn_at c' c; intros Hin; left; try assumption; rewrite Eq; right; exact Hin
  | let c' := fresh "c'" in intros c'; conn_at c' c; auto
  | ].

Lemma existsb_eqb_false j l : (forall x, In x l -> x <> j) -> existsb (Nat.eqb j) l = false.
Proof.
  intros H. destruct (existsb (Nat.eqb j) l) eqn:E; [|reflexivity]. apply existsb_exists in E. destruct E as (x & Hx & E).
  apply Nat.eqb_eq in E. subst x. exfalso. exact (H j Hx eq_refl).
Qed.
Lemma existsb_eqb_true j l : In j l -> existsb (Nat.eqb j) l = true.
Proof. intros H. apply existsb_exists. exists j. split; [exact H|apply Nat.eqb_refl]. Qed.

Lemma dispose_list cl l : forall σ, CInv σ ->
  let σ' := fold_left cstep (map (fun i => Conv.Dispose upd i cl) l) σ in
  (forall j, sgone (csubs σ' j) = existsb (Nat.eqb j) l || sgone (csubs σ j)) /\
  (forall j, ~ In j l -> fresh σ j -> fresh σ' j) /\
  (forall k, In (Conv.INop val upd k) (cqe σ') -> In (Conv.INop val upd k) (cqe σ)).
Proof.
  induction l as [|a l IH]; intros σ H; cbn [map fold_left]; cbn zeta.
  - split; [reflexivity|split; auto].
  - destruct (IH (cstep σ (Conv.Dispose upd a cl)) (cstep_inv _ _ H)) as (G&F&N). cbn zeta in *. split; [|split].
    + intros j. rewrite G, gone_step. cbn [existsb]. destruct (Nat.eqb j a), (existsb (Nat.eqb j) l), (sgone (csubs σ j)); reflexivity.
    + intros j Hn Hf. apply F; [intros Hin; apply Hn; right; exact Hin|].
      apply fresh_step; [exact H|cbn [tgt]; intros E; injection E as ->; apply Hn; left; reflexivity|exact Hf].
    + intros k Hin. apply N in Hin. apply nop_step in Hin. destruct Hin as [Hin|Hin]; [exact Hin|discriminate Hin].
Qed.

Lemma wf_drop s s' c (l : list nat) : WF s ->
  next s' = next s ->
  (forall j, In j l -> j < next s /\ owner (insts s j) = c) ->
  (forall i, cur (conns s c) = Some i -> In i l) ->
  cur (conns s' c) = None -> direct (conns s' c) = 0 -> disc (conns s' c) = disc (conns s c) ->
  (forall c', c' <> c -> conns s' c' = conns s c') ->
  (forall it, In it (cqueue (conns s' c)) -> In it (cqueue (conns s c))) ->
  (forall j, owner (insts s' j) = owner (insts s j)) ->
  (forall j b, acc (insts s' j) = Some b -> ans (insts s' j) = Some b) ->
  (forall j, sgone (csubs (cv s') j) = existsb (Nat.eqb j) l || sgone (csubs (cv s) j)) ->
  (forall j, next s <= j -> fresh (cv s') j) ->
  (forall k, In (Conv.INop val upd k) (cqe (cv s')) -> In (Conv.INop val upd k) (cqe (cv s))) ->
  WF s'.
Proof.
  intros [W1 W2 W3 W4 W5 W6 W7] En Hl Hcl Ec Ed Edc Eo Eq Eow Ea Eg Ef Eno.
  constructor.
  - intros c' i' Hc. destruct (Nat.eq_dec c' c) as [->|Hne]; [congruence|]. rewrite (Eo c' Hne) in Hc.
    destruct (W1 c' i' Hc) as (A&B&C). rewrite En, Eow, Eg, C. repeat split; auto.
    rewrite existsb_eqb_false; [reflexivity|]. intros x Hx ->. destruct (Hl i' Hx) as [_ Ho]. congruence.
  - intros j Hj Hg. rewrite En in Hj. rewrite Eg in Hg. apply orb_false_elim in Hg. destruct Hg as [Hg1 Hg2].
    pose proof (W2 j Hj Hg2) as Hc. rewrite Eow.
    destruct (Nat.eq_dec (owner (insts s j)) c) as [E|Hne].
    + rewrite E in Hc. apply Hcl in Hc. rewrite (existsb_eqb_true _ _ Hc) in Hg1. discriminate.
    + rewrite (Eo _ Hne). exact Hc.
  - intros j Hj. rewrite En in Hj. apply Ef, Hj.
  - intros c' it Hin. assert (Hin' : In it (cqueue (conns s c')) /\ disc (conns s' c') = disc (conns s c')).
    { destruct (Nat.eq_dec c' c) as [->|Hne]; [split; [apply Eq, Hin|exact Edc]|rewrite (Eo c' Hne) in *; auto]. }
    destruct Hin' as [Hin' Hd]. apply W4 in Hin'. destruct it; cbn [okitem] in *; rewrite ?En, ?Eow, ?Hd; auto.
  - intros c' Hc. destruct (Nat.eq_dec c' c) as [->|Hne]; [exact Ed|]. rewrite (Eo c' Hne) in *. apply W5, Hc.
  - intros k Hin. rewrite En. apply W6, Eno, Hin.
  - exact Ea.
Qed.

Ltac acc_tac W7 := let E := fresh "E" in intros E; first [discriminate E | rewrite <- E; apply W7; assumption | apply W7; exact E].

Lemma wf_step s o : CInv (cv s) -> WF s -> WF (fst (step s o)).
Proof.
  intros Hinv Hw. pose proof Hw as [W1 W2 W3 W4 W5 W6 W7].
  step_cases s o.
  1,3,5,8,13: exact Hw.
  - (* CSub *)
    apply (wf_frame _ _ Hw); cbn [Core.next Core.conns Core.insts Core.cv fold_left]; try reflexivity; auto.
    + intros c'; conn_at c' c; reflexivity.
    + intros c'; conn_at c' c; reflexivity.
    + intros c' it; conn_at c' c; intros Hin; [|left; exact Hin]. apply in_app_or in Hin. destruct Hin as [Hin|[<-|[]]]; [left; exact Hin|right; exact I].
    + intros c'; conn_at c' c; auto.
  - (* CUnsub *)
    apply (wf_frame _ _ Hw); cbn [Core.next Core.conns Core.insts Core.cv fold_left]; try reflexivity; auto.
    + intros c'; conn_at c' c; reflexivity.
    + intros c'; conn_at c' c; reflexivity.
    + intros c' it; conn_at c' c; intros Hin; [|left; exact Hin]. apply in_app_or in Hin. destruct Hin as [Hin|[<-|[]]]; [left; exact Hin|right; exact I].
    + intros c'; conn_at c' c; auto.
  - (* Disc *)
    apply (wf_frame _ _ Hw); cbn [Core.next Core.conns Core.insts Core.cv fold_left]; try reflexivity; auto.
    + intros c'; conn_at c' c; reflexivity.
    + intros c'; conn_at c' c; reflexivity.
    + intros c' it; conn_at c' c; intros Hin; [|left; exact Hin]. apply in_app_or in Hin. destruct Hin as [Hin|[<-|[]]]; [left; exact Hin|right].
      cbn [okitem Core.conns]. unfold Core.set_conn. rewrite Nat.eqb_refl. reflexivity.
    + intros c'; conn_at c' c; auto.
  - (* MqAccess *)
    apply andb_prop in Et. destruct Et as [Et1 Et2]. apply Nat.ltb_lt in Et1.
    use_benign Hinv; [repeat constructor; exact Et1|].
    apply (wf_frame _ _ Hw); cbn [Core.next Core.conns Core.insts Core.cv]; try reflexivity; auto.
    + intros j. inst_at j i; reflexivity.
    + intros j b. inst_at j i; [|apply W7]. intros Ha. exfalso. apply W7 in Ha. unfold Core.unanswered in Et2. rewrite Ha in Et2. discriminate.
  - (* MqGet *)
    use_benign Hinv; [destruct (_ && _); repeat constructor|].
    apply (wf_frame _ _ Hw); cbn [Core.next Core.conns Core.insts Core.cv]; try reflexivity; auto.
  - (* MqEvent *)
    use_benign Hinv; [destruct (mqsub s); repeat constructor|].
    apply (wf_frame _ _ Hw); cbn [Core.next Core.conns Core.insts Core.cv]; try reflexivity; auto.
  - (* MqCustom *)
    use_benign Hinv; [destruct (mqsub s); repeat constructor|].
    apply (wf_frame _ _ Hw); cbn [Core.next Core.conns Core.insts Core.cv]; try reflexivity; auto.
  - (* GrantEs *)
    use_benign Hinv; [repeat constructor|].
    apply (wf_frame _ _ Hw); cbn [Core.next Core.conns Core.insts Core.cv]; try reflexivity; auto.
    + intros c. match goal with |- cur (Core.pass _ _ ?σ ?own (Core.fan _ _ _ ?σ' _ ?n ?f) _) = _ => destruct (grant_conns σ σ' own n f c) as (_&B&_) end. exact B.
    + intros c _. match goal with |- direct (Core.pass _ _ ?σ ?own (Core.fan _ _ _ ?σ' _ ?n ?f) _) = _ => destruct (grant_conns σ σ' own n f c) as (_&_&B&_) end. exact B.
    + intros c it. match goal with |- In _ (cqueue (Core.pass _ _ ?σ ?own (Core.fan _ _ _ ?σ' _ ?n ?f) _)) -> _ => destruct (grant_conns σ σ' own n f c) as (B&_) end.
      rewrite B. intros Hin. apply in_app_or in Hin. destruct Hin as [Hin|Hin]; [apply in_app_or in Hin; destruct Hin as [Hin|Hin]|].
      * left; exact Hin.
      * right. apply in_qsubs_for in Hin. destruct Hin as (i & -> & Hi & Ho). cbn [okitem]. auto.
      * right. apply in_qacc_for in Hin. destruct Hin as (i & -> & Ho & Hn). cbn [okitem]. split; [apply W6, Hn|exact Ho].
    + intros c. match goal with |- _ -> disc (Core.pass _ _ ?σ ?own (Core.fan _ _ _ ?σ' _ ?n ?f) _) = _ => destruct (grant_conns σ σ' own n f c) as (_&_&_&B) end. rewrite B. auto.
  - (* QReq, granted and loaded *)
    destruct (W1 c i Ec) as (Hi&Ho&Hg).
    use_benign Hinv; [apply benign_respond; exact Hi|].
    frame_conn Hw c Eq; auto.
  - use_benign Hinv; [constructor|]. frame_conn Hw c Eq; auto.
    + intros j. inst_at j i; reflexivity.
    + intros j b. inst_at j i; acc_tac W7.
  - use_benign Hinv; [constructor|]. frame_conn Hw c Eq; auto.
    + intros j. inst_at j i; reflexivity.
    + intros j b. inst_at j i; acc_tac W7.
  - use_benign Hinv; [constructor|]. frame_conn Hw c Eq; auto.
    + intros j. inst_at j i; reflexivity.
    + intros j b. inst_at j i; acc_tac W7.
  - (* QReq, new instance *)
    cbn [fold_left].
    assert (G : forall j, sgone (csubs (cstep (cv s) (Conv.Subscribe upd (next s))) j) = sgone (csubs (cv s) j)) by (intros j; rewrite gone_step; reflexivity).
    constructor; cbn [Core.next Core.conns Core.insts Core.cv].
    + intros c' i'. conn_at c' c.
      * intros E; injection E as <-. split; [lia|]. split; [unfold Core.set_inst; rewrite Nat.eqb_refl; reflexivity|].
        rewrite G. destruct (W3 (next s)) as (_&_&A&_); [lia|exact A].
      * intros Hc. destruct (W1 c' i' Hc) as (A&B&C). split; [lia|]. split; [inst_at i' (next s); [lia|exact B]|rewrite G; exact C].
    + intros j Hj Hg. rewrite G in Hg. inst_at j (next s).
      * unfold Core.set_conn. rewrite Nat.eqb_refl. reflexivity.
      * assert (Hj' : j < next s) by lia. pose proof (W2 j Hj' Hg) as Hc.
        unfold Core.set_conn. destruct (Nat.eqb_spec (owner (insts s j)) c) as [E|E]; [rewrite E in Hc; congruence|exact Hc].
    + intros j Hj. apply fresh_step; [exact Hinv|cbn [tgt]; intros E; injection E as E; lia|apply W3; lia].
    + intros c' it Hin.
      assert (Hin' : In it (cqueue (conns s c'))).
      { revert Hin. conn_at c' c; intros Hin; [rewrite Eq; right; exact Hin|exact Hin]. }
      apply W4 in Hin'. destruct it; cbn [okitem] in *; auto.
      * destruct Hin' as [A B]. cbn [Core.next Core.insts]. split; [lia|]. inst_at i (next s); [lia|exact B].
      * destruct Hin' as [A B]. cbn [Core.next Core.insts]. split; [lia|]. inst_at i (next s); [lia|exact B].
      * revert Hin'. cbn [Core.conns]. conn_at c' c; auto.
    + intros c'. conn_at c' c; [discriminate|apply W5].
    + intros j Hin. apply nop_step in Hin. destruct Hin as [Hin|Hin]; [apply W6 in Hin; lia|discriminate Hin].
    + intros j b. inst_at j (next s); [discriminate|apply W7].
  - (* QUnsub k = 0 *)
    use_benign Hinv; [constructor|]. frame_conn Hw c Eq; auto.
  - (* to zero *)
    destruct (W1 c i Ec) as (Hi&Ho&Hg).
    destruct (dispose_list false [i] (cv s) Hinv) as (G&F&N). cbn [map] in G, F, N.
    apply (wf_drop s _ c [i] Hw); cbn [Core.next Core.conns Core.insts Core.cv].
    + reflexivity.
    + intros j [<-|[]]. auto.
    + intros i' E. rewrite Ec in E. injection E as <-. left; reflexivity.
    + unfold Core.set_conn. rewrite Nat.eqb_refl. reflexivity.
    + unfold Core.set_conn. rewrite Nat.eqb_refl. reflexivity.
    + unfold Core.set_conn. rewrite Nat.eqb_refl. reflexivity.
    + intros c' Hne. unfold Core.set_conn. rewrite (proj2 (Nat.eqb_neq c' c) Hne). reflexivity.
    + intros it. unfold Core.set_conn. rewrite Nat.eqb_refl. cbn [cqueue]. intros Hin. rewrite Eq. right; exact Hin.
    + intros j. inst_at j i; reflexivity.
    + intros j b. inst_at j i; acc_tac W7.
    + exact G.
    + intros j Hj. apply F; [intros [<-|[]]; lia|apply W3, Hj].
    + exact N.
  - (* partial *)
    use_benign Hinv; [constructor|]. frame_conn Hw c Eq; auto.
  - use_benign Hinv; [constructor|]. frame_conn Hw c Eq; auto.
  - cbn [fold_left]. frame_conn Hw c Eq; auto.
  - (* QAccess gone *)
    use_benign Hinv; [constructor|]. frame_conn Hw c Eq; auto.
  - (* granted, loaded *)
    destruct (W4 c (QAccess i)) as [Hi Ho]; [rewrite Eq; left; reflexivity|].
    use_benign Hinv; [apply benign_respond; exact Hi|].
    frame_conn Hw c Eq; auto.
    + intros j. inst_at j i; reflexivity.
    + intros j b. inst_at j i; [|apply W7]. intros E; injection E as <-. exact Ean.
  - use_benign Hinv; [constructor|]. frame_conn Hw c Eq; auto.
    + intros j. inst_at j i; reflexivity.
    + intros j b. inst_at j i; [|apply W7]. intros E; injection E as <-. exact Ean.
  - (* denied *)
    destruct (W4 c (QAccess i)) as [Hi Ho]; [rewrite Eq; left; reflexivity|].
    assert (Ec : cur (conns s c) = Some i) by (rewrite <- Ho; apply W2; [exact Hi|exact Eg]).
    destruct (Nat.eqb (direct (conns s c) - length (acb (insts s i))) 0) eqn:Ez.
    + destruct (dispose_list false [i] (cv s) Hinv) as (G&F&N). cbn [map] in G, F, N.
      apply (wf_drop s _ c [i] Hw); cbn [Core.next Core.conns Core.insts Core.cv].
      * reflexivity.
      * intros j [<-|[]]. auto.
      * intros i' E. rewrite Ec in E. injection E as <-. left; reflexivity.
      * unfold Core.set_conn. rewrite Nat.eqb_refl. reflexivity.
      * unfold Core.set_conn. rewrite Nat.eqb_refl. cbn [direct]. apply Nat.eqb_eq, Ez.
      * unfold Core.set_conn. rewrite Nat.eqb_refl. reflexivity.
      * intros c' Hne. unfold Core.set_conn. rewrite (proj2 (Nat.eqb_neq c' c) Hne). reflexivity.
      * intros it. unfold Core.set_conn. rewrite Nat.eqb_refl. cbn [cqueue]. intros Hin. rewrite Eq. right; exact Hin.
      * intros j. inst_at j i; reflexivity.
      * intros j b. inst_at j i; [|apply W7]. intros E; injection E as <-. exact Ean.
      * exact G.
      * intros j Hj. apply F; [intros [<-|[]]; lia|apply W3, Hj].
      * exact N.
    + use_benign Hinv; [constructor|]. frame_conn Hw c Eq; auto.
      * intros j. inst_at j i; reflexivity.
      * intros j b. inst_at j i; [|apply W7]. intros E; injection E as <-. exact Ean.
  - use_benign Hinv; [constructor|]. frame_conn Hw c Eq; auto.
  - (* QSub *)
    destruct (W4 c (QSub i)) as [Hi Ho]; [rewrite Eq; left; reflexivity|].
    use_benign Hinv; [constructor; [exact Hi|]; destruct (_ && _); [apply benign_respond; exact Hi|constructor]|].
    frame_conn Hw c Eq; auto.
    + intros j. destruct (_ && _); [|reflexivity]. inst_at j i; reflexivity.
    + intros j b. destruct (_ && _); [|apply W7]. inst_at j i; acc_tac W7.
  - (* QDispose *)
    destruct (dispose_list true (Core.insts_of val upd s c) (cv s) Hinv) as (G&F&N).
    assert (Hl : forall j, In j (Core.insts_of val upd s c) <-> j < next s /\ owner (insts s j) = c).
    { intros j. unfold Core.insts_of. rewrite filter_In, in_seq, Nat.eqb_eq. split; intros [A B]; split; auto; lia. }
    apply (wf_drop s _ c (Core.insts_of val upd s c) Hw); cbn [Core.next Core.conns Core.insts Core.cv].
    + reflexivity.
    + intros j Hj. apply Hl, Hj.
    + intros i' E. apply Hl. destruct (W1 c i' E) as (A&B&_). auto.
    + unfold Core.set_conn. rewrite Nat.eqb_refl. reflexivity.
    + unfold Core.set_conn. rewrite Nat.eqb_refl. reflexivity.
    + unfold Core.set_conn. rewrite Nat.eqb_refl. reflexivity.
    + intros c' Hne. unfold Core.set_conn. rewrite (proj2 (Nat.eqb_neq c' c) Hne). reflexivity.
    + intros it. unfold Core.set_conn. rewrite Nat.eqb_refl. cbn [cqueue]. intros Hin. rewrite Eq. right; exact Hin.
    + intros j. destruct (cur (conns s c)) as [i|]; [|reflexivity]. inst_at j i; reflexivity.
    + intros j b. destruct (cur (conns s c)) as [i|]; [|apply W7]. inst_at j i; acc_tac W7.
    + exact G.
    + intros j Hj. apply F; [intros Hin; apply Hl in Hin; lia|apply W3, Hj].
    + exact N.
Qed.

Lemma wf_init t : WF (Core.init val upd d t).
Proof.
  constructor; cbn; try discriminate; try contradiction; try lia; auto.
  intros i _. repeat split.
Qed.

Lemma exec_state_ind (P : Core.st val upd -> Prop) t :
  P (Core.init val upd d t) ->
  (forall ops o, let s := fst (exec t ops) in P s -> P (fst (step s o))) ->
  forall ops, P (fst (exec t ops)).
Proof.
  intros H0 Hs ops. induction ops as [|o ops IH] using rev_ind; [exact H0|].
  specialize (Hs ops o IH). rewrite exec_snoc. destruct (exec t ops) as [s outs]. unfold Core.exec1.
  cbn [fst snd] in Hs. destruct (step s o) as [s' o']. exact Hs.
Qed.

Lemma wf_exec t ops : WF (fst (exec t ops)).
Proof.
  apply exec_state_ind; [apply wf_init|]. intros ops' o s H. apply wf_step; [apply core_conv_inv|exact H].
Qed.

(* The statement of CoreStatements.v quantifies over every state; it is false of states where a connection without a
   subscription has a positive count (cur = None, direct > 0), which are not reachable.  Proved for the reachable states. *)
Theorem core_unsubscribe_outcome : forall t ops c id k q,
  let s := fst (exec t ops) in
  Core.cqueue (conns s c) = Core.QUnsub id k :: q ->
  let '(s', o) := Core.step val upd app norm s (Core.GrantConn upd c) in
  let n := Core.direct (conns s c) in
  (k = 0 -> o = [Core.OErr val upd c id Core.EInvalid] /\ Core.direct (conns s' c) = n) /\
  (0 < k -> n < k -> o = [Core.OErr val upd c id Core.ENoSub] /\ Core.direct (conns s' c) = n) /\
  (0 < k -> k <= n -> o = [Core.OAck val upd c id k] /\ Core.direct (conns s' c) = n - k).
Proof.
  intros t ops c id k q s Hq. pose proof (w_dir _ (wf_exec t ops) c) as Hd. fold s in Hd.
  unfold Core.step. rewrite Hq. destruct (cur (conns s c)) as [i|] eqn:Ec.
  - destruct (Nat.eqb_spec k 0) as [->|Hk].
    + cbn [Core.conns]. unfold Core.set_conn. rewrite Nat.eqb_refl. cbn [Core.with_q direct].
      repeat split; intros; try lia; reflexivity.
    + destruct (Nat.leb_spec k (direct (conns s c))) as [Hle|Hgt].
      * destruct (Nat.eqb_spec (direct (conns s c) - k) 0) as [Hz|Hz];
          cbn [Core.conns]; unfold Core.set_conn; rewrite Nat.eqb_refl; cbn [Core.with_q direct];
          repeat split; intros; try lia; reflexivity.
      * cbn [Core.conns]. unfold Core.set_conn. rewrite Nat.eqb_refl. cbn [Core.with_q direct].
        repeat split; intros; try lia; reflexivity.
  - specialize (Hd eq_refl). cbn [Core.conns]. unfold Core.set_conn. rewrite Nat.eqb_refl. cbn [Core.with_q direct].
    destruct (Nat.eqb_spec k 0) as [->|Hk]; repeat split; intros; try lia; reflexivity.
Qed.

(* ---------------- the client's ledger ---------------- *)
Notation ledger_ := (Core.ledger val).
Notation lstep := (Core.lstep val upd app).
Notation lcnt_ L := (Core.lcnt val L).
Notation lcopy_ L := (Core.lcopy val L).
Notation mkL n v := (Core.Build_ledger val n v).

Lemma client_app c outs o : client c (outs ++ o) = fold_left (lstep c) o (client c outs).
Proof. unfold Core.client. apply fold_left_app. Qed.

Lemma ledger_eta (L : ledger_) : L = mkL (lcnt_ L) (lcopy_ L).
Proof. destruct L; reflexivity. Qed.

Lemma fold_resp_none c r : forall L,
  fold_left (lstep c) (map (fun id' => Core.OResp val upd c id' None) r) L = mkL (lcnt_ L + length r) (lcopy_ L).
Proof.
  induction r as [|a r IH]; intros L; cbn [map fold_left length].
  - rewrite Nat.add_0_r. apply ledger_eta.
  - rewrite IH. cbn [Core.lstep]. rewrite Nat.eqb_refl. cbn [Core.lcnt Core.lcopy]. f_equal. lia.
Qed.
Lemma fold_err c c' e l : forall L, fold_left (lstep c) (map (fun id => Core.OErr val upd c' id e) l) L = L.
Proof. induction l as [|a l IH]; intros L; cbn [map fold_left]; [reflexivity|]. rewrite IH. reflexivity. Qed.

Lemma proc_o_fst c p e : fst (Core.proc_o val upd app c p e) = Conv.proc val upd app p e.
Proof.
  destruct p as [ver v]. unfold Core.proc_o, Conv.proc. destruct (Nat.eqb ver (Conv.e_ver upd e)); [|reflexivity].
  destruct (Conv.e_upd upd e); reflexivity.
Qed.
Lemma proc_o_ledger c ver v e n :
  fold_left (lstep c) (snd (Core.proc_o val upd app c (ver, v) e)) (mkL n (Some v)) = mkL n (Some (snd (Conv.proc val upd app (ver, v) e))).
Proof.
  unfold Core.proc_o, Conv.proc. destruct (Nat.eqb ver (Conv.e_ver upd e)); [|reflexivity].
  destruct (Conv.e_upd upd e); cbn [snd fold_left Core.lstep]; [rewrite Nat.eqb_refl|]; reflexivity.
Qed.
Lemma proc_o_lcnt c p e L : lcnt_ (fold_left (lstep c) (snd (Core.proc_o val upd app c p e)) L) = lcnt_ L.
Proof.
  destruct p as [ver v]. unfold Core.proc_o. destruct (Nat.eqb ver (Conv.e_ver upd e)); [|reflexivity].
  destruct (Conv.e_upd upd e); cbn [snd fold_left Core.lstep]; [rewrite Nat.eqb_refl|]; reflexivity.
Qed.
Lemma fold_replay_o c l : forall ver v n,
  fold_left (lstep c) (Core.replay_o val upd app c (ver, v) l) (mkL n (Some v)) =
  mkL n (Some (snd (Conv.replay val upd app (ver, v) l))).
Proof.
  induction l as [|e l IH]; intros ver v n; [reflexivity|]. cbn [Core.replay_o]. unfold Conv.replay. cbn [fold_left].
  pose proof (proc_o_fst c (ver, v) e) as Hf. pose proof (proc_o_ledger c ver v e n) as Hl.
  destruct (Core.proc_o val upd app c (ver, v) e) as [[ver' v'] o]. cbn [fst snd] in *. rewrite <- Hf.
  rewrite fold_left_app, Hl, <- Hf. cbn [snd]. apply IH.
Qed.

(* outputs addressed to another connection *)
Definition addr (c0 : nat) (o : out_) : Prop :=
  match o with
  | Core.OResp _ _ c' _ _ | Core.OErr _ _ c' _ _ | Core.OAck _ _ c' _ _ | Core.OEvent _ _ c' _ => c' = c0
  | _ => True
  end.
Lemma fold_other c c0 o : c <> c0 -> Forall (addr c0) o -> forall L, fold_left (lstep c) o L = L.
Proof.
  intros Hne H. induction H as [|x o Hx _ IH]; intros L; [reflexivity|]. cbn [fold_left].
  assert (E : lstep c L x = L).
  { destruct x; cbn [addr] in Hx; cbn [Core.lstep]; try reflexivity; subst;
      (assert (E : Nat.eqb c0 c = false) by (apply Nat.eqb_neq; congruence)); rewrite E; reflexivity. }
  rewrite E. apply IH.
Qed.

(* the effect of the response on the subscription *)
Lemma respond_sub σ i : sloaded (csubs σ i) = true -> ssent (csubs σ i) = false ->
  let x := csubs σ i in let x' := csubs (cstep σ (Conv.Respond upd i (length (seq_ x)))) i in
  ssent x' = true /\ sloaded x' = true /\ sflag x' = false /\ sgone x' = sgone x /\
  ssval x' = snd (Conv.replay val upd app (ssver x, ssval x) (seq_ x)).
Proof.
  intros Hl Hs. cbn zeta. cbn [Conv.step]. rewrite Hl, Hs. cbn [andb negb Conv.subs]. rewrite Conv.set_sub_eq.
  unfold Conv.drain. cbn [Conv.with_sub Conv.eq Conv.sver Conv.sval Conv.sent].
  rewrite firstn_all, skipn_all.
  destruct (Conv.replay val upd app (ssver (csubs σ i), ssval (csubs σ i)) (seq_ (csubs σ i))) as [ver v].
  cbn [Conv.with_sub Conv.sent Conv.loaded Conv.flag Conv.gone Conv.sval snd]. auto.
Qed.

(* ---------------- callbacks and the cached verdict ---------------- *)
Definition IW (s : Core.st val upd) : Prop :=
  forall i, (acc (insts s i) = Some true -> acb (insts s i) = []) /\ (rcb (insts s i) <> [] -> acc (insts s i) = Some true).

Ltac iw_tac H i :=
  let j := fresh "j" in intros j; cbn [Core.insts]; inst_at j i; try apply H;
  let A := fresh "A" in let B := fresh "B" in destruct (H i) as [A B];
  split; intros; try discriminate; try congruence; auto.

Lemma iw_step s o : WF s -> IW s -> IW (fst (step s o)).
Proof.
  intros Hw H. pose proof (w_acc _ Hw) as W7.
  step_cases s o; try exact H.
  - intros j; cbn [Core.insts]; inst_at j i; apply H.
  - iw_tac H i.
  - iw_tac H i. exfalso. apply B in H0. congruence.
  - iw_tac H i. exfalso. apply B in H0. congruence.
  - iw_tac H (next s).
  - iw_tac H i.
  - iw_tac H i.
  - iw_tac H i.
  - iw_tac H i. exfalso. destruct (Nat.eqb _ 0); [congruence|]. apply B in H0. apply W7 in H0. congruence.
  - destruct (_ && _); [|exact H]. iw_tac H i.
  - destruct (cur (conns s c)) as [i|]; [|exact H]. iw_tac H i.
Qed.

(* ---------------- a connection worker leaves the other connections alone ---------------- *)
Ltac conn_cases s c :=
  unfold Core.step; cbn [Core.acts_of];
  destruct (cqueue (conns s c)) as [|[id|id k|i|i|] q] eqn:Eq;
    [ | destruct (cur (conns s c)) as [i|] eqn:Ec;
        [destruct (acc (insts s i)) as [[|]|] eqn:Ea; [destruct (Core.is_live val upd (cv s) i) eqn:El| |] |]
      | rewrite ?leb1; destruct (cur (conns s c)) as [i|] eqn:Ec;
        [destruct (Nat.eqb k 0) eqn:Ek;
           [|destruct (Nat.leb k (direct (conns s c))) eqn:Ele; [destruct (Nat.eqb (direct (conns s c) - k) 0) eqn:Ez|]]|]
      | destruct (Core.is_gone val upd (cv s) i) eqn:Eg;
        [|destruct (ans (insts s i)) as [[|]|] eqn:Ean; [destruct (Core.is_live val upd (cv s) i) eqn:El| |]]
      | | ];
  cbn [fst snd negb andb].

Lemma conns_other s c0 c : c <> c0 -> conns (fst (step s (Core.GrantConn upd c0))) c = conns s c.
Proof.
  intros Hne. assert (E : Nat.eqb c c0 = false) by (apply Nat.eqb_neq; exact Hne).
  conn_cases s c0; cbn [Core.conns]; unfold Core.set_conn; rewrite ?E; reflexivity.
Qed.

Lemma addr_proc_o c p e : Forall (addr c) (snd (Core.proc_o val upd app c p e)).
Proof.
  destruct p as [ver v]. unfold Core.proc_o. destruct (Nat.eqb ver (Conv.e_ver upd e)); [|constructor].
  destruct (Conv.e_upd upd e); cbn [snd]; repeat constructor.
Qed.
Lemma addr_replay_o c l : forall p, Forall (addr c) (Core.replay_o val upd app c p l).
Proof.
  induction l as [|e l IH]; intros p; cbn [Core.replay_o]; [constructor|].
  pose proof (addr_proc_o c p e) as Hp. destruct (Core.proc_o val upd app c p e) as [p' o]. cbn [snd] in Hp.
  apply Forall_app. split; [exact Hp|apply IH].
Qed.
Lemma addr_map_resp c (l : list nat) : Forall (addr c) (map (fun id' => Core.OResp val upd c id' None) l).
Proof. induction l; cbn [map]; repeat constructor; assumption. Qed.
Lemma addr_respond_ids c x ids : Forall (addr c) (Core.respond_ids val upd app c x ids).
Proof.
  unfold Core.respond_ids. destruct ids as [|id r]; [constructor|]. apply Forall_app. split; [|apply addr_map_resp].
  destruct (ssent x); [repeat constructor|]. constructor; [reflexivity|apply addr_replay_o].
Qed.
Lemma addr_map_err c e (l : list nat) : Forall (addr c) (map (fun id => Core.OErr val upd c id e) l).
Proof. induction l; cbn [map]; repeat constructor; assumption. Qed.

Lemma outs_addr s c0 : Forall (addr c0) (snd (step s (Core.GrantConn upd c0))).
Proof.
  conn_cases s c0; try (repeat constructor; fail); try apply addr_respond_ids; try apply addr_map_err.
  - destruct (mqsub s); repeat constructor.
  - apply Forall_app. split.
    + destruct (scq (csubs (cv s) i)) as [|[|e] ?]; try constructor.
      destruct (_ && _); [apply addr_proc_o|constructor].
    + destruct (_ && _); [apply addr_respond_ids|constructor].
Qed.

Lemma insts_other s c0 j : WF s -> j < next s -> owner (insts s j) <> c0 ->
  insts (fst (step s (Core.GrantConn upd c0))) j = insts s j.
Proof.
  intros Hw Hj Ho. pose proof Hw as [W1 W2 W3 W4 W5 W6 W7].
  conn_cases s c0; cbn [Core.insts]; try reflexivity;
    try (destruct (W1 c0 i Ec) as (_&Hoi&_); unfold Core.set_inst; destruct (Nat.eqb_spec j i) as [->|]; [congruence|reflexivity]).
  - unfold Core.set_inst. destruct (Nat.eqb_spec j (next s)); [lia|reflexivity].
  - destruct (W4 c0 (QAccess i)) as [_ Hoi]; [rewrite Eq; left; reflexivity|]. unfold Core.set_inst; destruct (Nat.eqb_spec j i) as [->|]; [congruence|reflexivity].
  - destruct (W4 c0 (QAccess i)) as [_ Hoi]; [rewrite Eq; left; reflexivity|]. unfold Core.set_inst; destruct (Nat.eqb_spec j i) as [->|]; [congruence|reflexivity].
  - destruct (W4 c0 (QAccess i)) as [_ Hoi]; [rewrite Eq; left; reflexivity|]. unfold Core.set_inst; destruct (Nat.eqb_spec j i) as [->|]; [congruence|reflexivity].
  - destruct (W4 c0 (QSub i)) as [_ Hoi]; [rewrite Eq; left; reflexivity|]. destruct (_ && _); [|reflexivity].
    unfold Core.set_inst; destruct (Nat.eqb_spec j i) as [->|]; [congruence|reflexivity].
  - destruct (cur (conns s c0)) as [i|] eqn:Ec; [|reflexivity]. destruct (W1 c0 i Ec) as (_&Hoi&_).
    unfold Core.set_inst; destruct (Nat.eqb_spec j i) as [->|]; [congruence|reflexivity].
Qed.

Definition owned (s : Core.st val upd) (c0 : nat) (a : act) : Prop :=
  a <> Conv.RunE upd /\ forall j, tgt a = Some j -> (j < next s /\ owner (insts s j) = c0) \/ j = next s.

Lemma owned_respond s c0 i x ids : i < next s -> owner (insts s i) = c0 -> Forall (owned s c0) (Core.respond_acts val upd i x ids).
Proof.
  intros Hi Ho. unfold Core.respond_acts. destruct ids; [constructor|]. destruct (ssent x); [constructor|].
  constructor; [|constructor]. split; [discriminate|]. cbn [tgt]. intros j E. injection E as <-. left. auto.
Qed.

Lemma acts_owned s c0 : WF s -> Forall (owned s c0) (acts_of s (Core.GrantConn upd c0)).
Proof.
  intros Hw. pose proof Hw as [W1 W2 W3 W4 W5 W6 W7]. cbn [Core.acts_of].
  destruct (cqueue (conns s c0)) as [|[id|id k|i|i|] q] eqn:Eq; [constructor| | | | |].
  - destruct (cur (conns s c0)) as [i|] eqn:Ec.
    + destruct (W1 c0 i Ec) as (Hi&Ho&_). destruct (acc (insts s i)) as [[|]|]; try constructor.
      destruct (Core.is_live val upd (cv s) i); [apply owned_respond; assumption|constructor].
    + constructor; [|constructor]. split; [discriminate|]. cbn [tgt]. intros j E. injection E as <-. right; reflexivity.
  - destruct (cur (conns s c0)) as [i|] eqn:Ec; [|constructor]. destruct (W1 c0 i Ec) as (Hi&Ho&_).
    destruct (_ && _); [|constructor]. constructor; [|constructor]. split; [discriminate|]. cbn [tgt]. intros j E. injection E as <-. left; auto.
  - destruct (W4 c0 (QAccess i)) as [Hi Ho]; [rewrite Eq; left; reflexivity|].
    destruct (Core.is_gone val upd (cv s) i); [constructor|]. destruct (ans (insts s i)) as [[|]|]; try constructor.
    + destruct (Core.is_live val upd (cv s) i); [apply owned_respond; assumption|constructor].
    + destruct (Nat.eqb _ 0); [|constructor]. constructor; [|constructor]. split; [discriminate|]. cbn [tgt]. intros j E. injection E as <-. left; auto.
  - destruct (W4 c0 (QSub i)) as [Hi Ho]; [rewrite Eq; left; reflexivity|].
    constructor; [split; [discriminate|cbn [tgt]; intros j E; injection E as <-; left; auto]|].
    destruct (_ && _); [apply owned_respond; assumption|constructor].
  - apply Forall_forall. intros a Hin. apply in_map_iff in Hin. destruct Hin as (j & <- & Hin).
    unfold Core.insts_of in Hin. apply filter_In in Hin. destruct Hin as [H1 H2]. apply in_seq in H1. apply Nat.eqb_eq in H2.
    split; [discriminate|]. cbn [tgt]. intros j' E. injection E as <-. left. split; [lia|exact H2].
Qed.

Lemma subs_other_conn s c0 j : WF s -> j < next s -> owner (insts s j) <> c0 ->
  csubs (cv (fst (step s (Core.GrantConn upd c0)))) j = csubs (cv s) j.
Proof.
  intros Hw Hj Ho. rewrite step_cv. apply subs_others.
  eapply Forall_impl; [|apply (acts_owned s c0 Hw)]. intros a [Hr Ht]. split; [|exact Hr].
  intros E. apply Ht in E. destruct E as [[_ E]|E]; [congruence|lia].
Qed.

(* ---------------- the gateway's count and the client's ledger ---------------- *)
Record LG (c : nat) (s : Core.st val upd) (L : ledger_) : Prop := {
  l_none : cur (conns s c) = None -> lcnt_ L = 0;
  l_cnt : forall i, cur (conns s c) = Some i ->
            direct (conns s c) = lcnt_ L + length (acb (insts s i)) + length (rcb (insts s i));
  l_pos : forall i, cur (conns s c) = Some i -> 0 < lcnt_ L ->
            ssent (csubs (cv s) i) = true /\ sloaded (csubs (cv s) i) = true /\ sflag (csubs (cv s) i) = false /\
            lcopy_ L = Some (ssval (csubs (cv s) i)) /\
            acb (insts s i) = [] /\ rcb (insts s i) = [] /\ acc (insts s i) = Some true;
  l_zero : forall i, cur (conns s c) = Some i -> lcnt_ L = 0 -> ssent (csubs (cv s) i) = false;
  l_rcb : forall i, cur (conns s c) = Some i -> rcb (insts s i) <> [] -> sloaded (csubs (cv s) i) = false }.

Lemma lg_transfer c s s' L : LG c s L ->
  cur (conns s' c) = cur (conns s c) -> direct (conns s' c) = direct (conns s c) ->
  (forall i, cur (conns s c) = Some i ->
     acb (insts s' i) = acb (insts s i) /\ rcb (insts s' i) = rcb (insts s i) /\ acc (insts s' i) = acc (insts s i) /\
     ssent (csubs (cv s') i) = ssent (csubs (cv s) i) /\ sloaded (csubs (cv s') i) = sloaded (csubs (cv s) i) /\
     sflag (csubs (cv s') i) = sflag (csubs (cv s) i) /\ ssval (csubs (cv s') i) = ssval (csubs (cv s) i)) ->
  LG c s' L.
Proof.
  intros [L1 L2 L3 L4 L5] Ec Ed Hi. constructor.
  - rewrite Ec. exact L1.
  - intros i Hc. rewrite Ec in Hc. destruct (Hi i Hc) as (A&B&_). rewrite Ed, A, B. apply L2, Hc.
  - intros i Hc Hp. rewrite Ec in Hc. destruct (Hi i Hc) as (A&B&C&D&E&F&G). rewrite A, B, C, D, E, F, G. apply L3; assumption.
  - intros i Hc Hz. rewrite Ec in Hc. destruct (Hi i Hc) as (A&B&C&D&E&F&G). rewrite D. apply L4; assumption.
  - intros i Hc. rewrite Ec in Hc. destruct (Hi i Hc) as (A&B&C&D&E&F&G). rewrite B, E. apply L5, Hc.
Qed.

Lemma mild_steps acts : Forall (fun a => tgt a = None) acts -> forall σ j,
  ssent (csubs (fold_left cstep acts σ) j) = ssent (csubs σ j) /\ sloaded (csubs (fold_left cstep acts σ) j) = sloaded (csubs σ j) /\
  sflag (csubs (fold_left cstep acts σ) j) = sflag (csubs σ j) /\ ssval (csubs (fold_left cstep acts σ) j) = ssval (csubs σ j).
Proof.
  induction 1 as [|a acts Ha _ IH]; intros σ j; cbn [fold_left]; [auto|].
  destruct (IH (cstep σ a) j) as (A&B&C&D). rewrite A, B, C, D.
  assert (Hr : a = Conv.RunE upd \/ a <> Conv.RunE upd) by (destruct a; auto; right; discriminate).
  destruct Hr as [->|Hr].
  - destruct (rune_fields σ j) as (_&B'&_&D'&E'&_&G'&_). auto.
  - rewrite subs_other; [auto|congruence|exact Hr].
Qed.

Lemma lg_step_nonconn cl s o L : (forall c0, o <> Core.GrantConn upd c0) -> LG cl s L ->
  LG cl (fst (step s o)) (fold_left (lstep cl) (snd (step s o)) L).
Proof.
  intros Ho HL.
  assert (M : forall s' acts, cv s' = fold_left cstep acts (cv s) -> Forall (fun a => tgt a = None) acts ->
              cur (conns s' cl) = cur (conns s cl) -> direct (conns s' cl) = direct (conns s cl) ->
              (forall i, acb (insts s' i) = acb (insts s i) /\ rcb (insts s' i) = rcb (insts s i) /\ acc (insts s' i) = acc (insts s i)) ->
              LG cl s' L).
  { intros s' acts Ecv Hm Ec Ed Hi. apply (lg_transfer cl s s' L HL Ec Ed). intros i _. destruct (Hi i) as (A&B&C).
    rewrite Ecv. destruct (mild_steps acts Hm (cv s) i) as (D&E&F&G). repeat split; assumption. }
  step_cases s o; try exact HL; try (exfalso; eapply Ho; reflexivity).
  - apply (M _ []); cbn [Core.cv Core.conns Core.insts]; auto; conn_at cl c; reflexivity.
  - apply (M _ []); cbn [Core.cv Core.conns Core.insts]; auto; conn_at cl c; reflexivity.
  - apply (M _ []); cbn [Core.cv Core.conns Core.insts]; auto; conn_at cl c; reflexivity.
  - eapply M; cbn [Core.cv Core.conns Core.insts]; [reflexivity|repeat constructor|reflexivity|reflexivity|].
    intros j. inst_at j i; auto.
  - eapply M; cbn [Core.cv Core.conns Core.insts]; [reflexivity| |reflexivity|reflexivity|auto].
    destruct (_ && _); repeat constructor.
  - eapply M; cbn [Core.cv Core.conns Core.insts]; [reflexivity| |reflexivity|reflexivity|auto].
    destruct (mqsub s); repeat constructor.
  - eapply M; cbn [Core.cv Core.conns Core.insts]; [reflexivity| |reflexivity|reflexivity|auto].
    destruct (mqsub s); repeat constructor.
  - assert (E : forall b : bool, fold_left (lstep cl) (if b then [Core.OGetReq val upd] else []) L = L) by (intros []; reflexivity).
    rewrite E. eapply M; cbn [Core.cv Core.conns Core.insts]; [reflexivity|repeat constructor| | |auto].
    + match goal with |- cur (Core.pass _ _ ?σ ?own (Core.fan _ _ _ ?σ' _ ?n ?f) _) = _ => destruct (grant_conns σ σ' own n f cl) as (_&B&_) end. exact B.
    + match goal with |- direct (Core.pass _ _ ?σ ?own (Core.fan _ _ _ ?σ' _ ?n ?f) _) = _ => destruct (grant_conns σ σ' own n f cl) as (_&_&B&_) end. exact B.
Qed.

Lemma lg_step_otherconn cl c0 s L : WF s -> cl <> c0 -> LG cl s L ->
  LG cl (fst (step s (Core.GrantConn upd c0))) (fold_left (lstep cl) (snd (step s (Core.GrantConn upd c0))) L).
Proof.
  intros Hw Hne HL. rewrite (fold_other cl c0 _ Hne (outs_addr s c0)).
  apply (lg_transfer cl s _ L HL).
  - rewrite conns_other by exact Hne. reflexivity.
  - rewrite conns_other by exact Hne. reflexivity.
  - intros i Hc. destruct (w_cur _ Hw cl i Hc) as (Hi & Ho & _).
    rewrite insts_other, subs_other_conn by (auto; congruence). repeat split.
Qed.

Lemma disc_mono s o c : disc (conns s c) = true -> disc (conns (fst (step s o)) c) = true.
Proof.
  intros H. rename c into cl. step_cases s o; try exact H; cbn [Core.conns]; try (conn_at cl c; auto; fail).
  - match goal with |- disc (Core.pass _ _ ?σ ?own (Core.fan _ _ _ ?σ' _ ?n ?f) _) = _ => destruct (grant_conns σ σ' own n f cl) as (_&_&_&B) end. rewrite B. exact H.
Qed.

Ltac inst_self := unfold Core.set_inst; rewrite ?Nat.eqb_refl; cbn [Core.with_cbs owner acb rcb acc ans lost].
Ltac at_c := cbn [Core.conns Core.insts Core.cv]; unfold Core.set_conn; rewrite ?Nat.eqb_refl; cbn [cur direct Core.with_q].

Lemma lg_same c s s' L : LG c s L -> cur (conns s' c) = cur (conns s c) -> direct (conns s' c) = direct (conns s c) ->
  insts s' = insts s -> cv s' = cv s -> LG c s' L.
Proof.
  intros HL Ec Ed Ei Ecv. apply (lg_transfer c s s' L HL Ec Ed). intros i _. rewrite Ei, Ecv. repeat split.
Qed.

Lemma sent_subscribe σ k j : ssent (csubs (cstep σ (Conv.Subscribe upd k)) j) = ssent (csubs σ j).
Proof.
  cbn [Conv.step]. destruct (ssubscribed (csubs σ k)); [reflexivity|]. cbn [Conv.subs]. unfold Conv.set_sub.
  destruct (Nat.eqb_spec j k) as [->|]; reflexivity.
Qed.

Lemma runc_nil σ i : scq (csubs σ i) = [] -> cstep σ (Conv.RunC upd i) = σ.
Proof. intros H. cbn [Conv.step]. rewrite H. reflexivity. Qed.
Lemma loaded_head σ i q : CInv σ -> scq (csubs σ i) = Conv.CLoaded upd :: q -> sloaded (csubs σ i) = false.
Proof.
  intros H E. pose proof (Conv.i4 _ _ _ _ H i) as H4. rewrite E, Conv.cnt_cons in H4. cbn [Conv.is_ld Conv.b2n] in H4.
  pose proof (Conv.b2n_le (Conv.mem i (Conv.rs_subs val upd σ) && Conv.rs_loaded val upd σ)).
  destruct (sloaded (csubs σ i)); [cbn [Conv.b2n] in H4; lia|reflexivity].
Qed.
Lemma runc_loaded_gone σ i q : scq (csubs σ i) = Conv.CLoaded upd :: q -> sgone (csubs σ i) = true ->
  sloaded (csubs (cstep σ (Conv.RunC upd i)) i) = false.
Proof. intros E G. cbn [Conv.step]. rewrite E, G. cbn [Conv.subs]. rewrite Conv.set_sub_eq. reflexivity. Qed.
Lemma runc_loaded_fields σ i q : scq (csubs σ i) = Conv.CLoaded upd :: q -> sgone (csubs σ i) = false ->
  let x1 := csubs (cstep σ (Conv.RunC upd i)) i in
  sloaded x1 = true /\ ssent x1 = false /\ seq_ x1 = [] /\ sflag x1 = true.
Proof. intros E G. cbn zeta. cbn [Conv.step]. rewrite E, G. cbn [Conv.subs]. rewrite Conv.set_sub_eq. cbn. auto. Qed.
Lemma runc_event_fields σ i e q : scq (csubs σ i) = Conv.CEvent upd e :: q ->
  let x := csubs σ i in let x1 := csubs (cstep σ (Conv.RunC upd i)) i in
  sloaded x1 = sloaded x /\ ssent x1 = ssent x /\
  (sloaded x && negb (sflag x) = true -> sflag x1 = false /\ ssval x1 = snd (Conv.proc val upd app (ssver x, ssval x) e)) /\
  (sloaded x && negb (sflag x) = false -> sflag x1 = sflag x /\ ssval x1 = ssval x).
Proof.
  intros E. cbn zeta. cbn [Conv.step]. rewrite E. cbn [Conv.subs]. rewrite Conv.set_sub_eq.
  destruct (sloaded (csubs σ i)) eqn:El; cbn [negb andb].
  - destruct (sflag (csubs σ i)) eqn:Ef; cbn [negb].
    + cbn. repeat split; auto; discriminate.
    + destruct (Conv.proc val upd app (ssver (csubs σ i), ssval (csubs σ i)) e) as [ver v]. cbn. repeat split; auto; discriminate.
  - cbn. repeat split; auto; discriminate.
Qed.

Lemma lg_step_conn c s L : CInv (cv s) -> WF s -> IW s -> LG c s L -> disc (conns s c) = false ->
  (forall id k, snd (step s (Core.GrantConn upd c)) = [Core.OAck val upd c id k] -> k <= lcnt_ L) ->
  LG c (fst (step s (Core.GrantConn upd c))) (fold_left (lstep c) (snd (step s (Core.GrantConn upd c))) L).
Proof.
  intros Hinv Hw HI HL Hd Hnu. revert Hnu. conn_cases s c; intros Hnu;
    pose proof Hw as [W1 W2 W3 W4 W5 W6 W7]; pose proof HL as [L1 L2 L3 L4 L5].
  - (* empty queue *) exact HL.
  - (* QReq: granted and loaded *)
    unfold Core.is_live in El. pose proof (L2 i Ec) as Hc.
    destruct (ssent (csubs (cv s) i)) eqn:Es.
    + assert (Hp : 0 < lcnt_ L). { destruct (Nat.eq_dec (lcnt_ L) 0) as [E0|E0]; [|lia]. rewrite (L4 i Ec E0) in Es. discriminate. }
      destruct (L3 i Ec Hp) as (A1&A2&A3&A4&A5&A6&A7).
      unfold Core.respond_ids, Core.respond_acts. rewrite Es. cbn [map List.app fold_left Core.lstep]. rewrite Nat.eqb_refl.
      constructor; at_c; cbn [Core.lcnt Core.lcopy].
      * discriminate.
      * intros i' E; injection E as <-. lia.
      * intros i' E _; injection E as <-. repeat split; assumption.
      * intros i' E Hz. discriminate.
      * intros i' E; injection E as <-. apply L5, Ec.
    + assert (Hz : lcnt_ L = 0). { destruct (Nat.eq_dec (lcnt_ L) 0) as [E0|E0]; [exact E0|]. destruct (L3 i Ec) as (A&_); [lia|congruence]. }
      destruct (respond_sub (cv s) i El Es) as (R1&R2&R3&R4&R5). cbn zeta in *.
      unfold Core.respond_ids, Core.respond_acts. rewrite Es. cbn [map List.app fold_left Core.lstep]. rewrite Nat.eqb_refl.
      rewrite app_nil_r, fold_replay_o.
      destruct (HI i) as [I1 I2].
      constructor; at_c; cbn [Core.lcnt Core.lcopy].
      * discriminate.
      * intros i' E; injection E as <-. lia.
      * intros i' E _; injection E as <-. rewrite R1, R2, R3, R5. repeat split; auto.
        destruct (rcb (insts s i)) eqn:Er; [reflexivity|]. rewrite L5 in El; [discriminate|exact Ec|rewrite Er; discriminate].
      * intros i' E Hz'. discriminate.
      * intros i' E; injection E as <-. intros Hr. rewrite L5 in El; [discriminate|exact Ec|exact Hr].
  - (* QReq: granted, not loaded yet *)
    unfold Core.is_live in El. pose proof (L2 i Ec) as Hc. cbn [fold_left].
    constructor; at_c.
    + discriminate.
    + intros i' E; injection E as <-. inst_self. rewrite app_length. cbn [length]. lia.
    + intros i' E Hp; injection E as <-. destruct (L3 i Ec Hp) as (_&A&_). congruence.
    + intros i' E; injection E as <-. apply L4, Ec.
    + intros i' E _; injection E as <-. exact El.
  - (* QReq: denied before *)
    pose proof (L2 i Ec) as Hc. cbn [fold_left].
    constructor; at_c.
    + discriminate.
    + intros i' E; injection E as <-. inst_self. rewrite app_length. cbn [length]. lia.
    + intros i' E Hp; injection E as <-. destruct (L3 i Ec Hp) as (_&_&_&_&_&_&A). congruence.
    + intros i' E; injection E as <-. apply L4, Ec.
    + intros i' E; injection E as <-. inst_self. apply L5, Ec.
  - (* QReq: verdict pending *)
    pose proof (L2 i Ec) as Hc. cbn [fold_left].
    constructor; at_c.
    + discriminate.
    + intros i' E; injection E as <-. inst_self. rewrite app_length. cbn [length]. lia.
    + intros i' E Hp; injection E as <-. destruct (L3 i Ec Hp) as (_&_&_&_&_&_&A). congruence.
    + intros i' E; injection E as <-. apply L4, Ec.
    + intros i' E; injection E as <-. inst_self. apply L5, Ec.
  - (* QReq: new instance *)
    pose proof (L1 Ec) as Hz.
    assert (E : fold_left (lstep c) ((if mqsub s then [] else [Core.OMqSub val upd]) ++ [Core.OAccessReq val upd c (next s)]) L = L)
      by (destruct (mqsub s); reflexivity).
    rewrite E. cbn [fold_left].
    constructor; at_c.
    + discriminate.
    + intros i' E'; injection E' as <-. unfold Core.set_inst. rewrite Nat.eqb_refl. cbn. lia.
    + intros i' _ Hp. lia.
    + intros i' E' _; injection E' as <-. rewrite sent_subscribe. destruct (W3 (next s)) as (_&A&_); [lia|exact A].
    + intros i' E'; injection E' as <-. unfold Core.set_inst. rewrite Nat.eqb_refl. cbn. congruence.
  - (* QUnsub: count 0 *)
    cbn [fold_left Core.lstep]. apply (lg_same c s _ L HL); at_c; reflexivity.
  - (* QUnsub: to zero *)
    pose proof (L2 i Ec) as Hc. apply Nat.eqb_eq in Ez. cbn [fold_left Core.lstep]. rewrite Nat.eqb_refl.
    constructor; at_c; cbn [Core.lcnt Core.lcopy]; try discriminate. intros _. lia.
  - (* QUnsub: some remain *)
    pose proof (L2 i Ec) as Hc. apply Nat.eqb_neq in Ez. apply Nat.eqb_neq in Ek. apply Nat.leb_le in Ele.
    pose proof (Hnu id k eq_refl) as Hk.
    assert (Hp : 0 < lcnt_ L) by lia. destruct (L3 i Ec Hp) as (A1&A2&A3&A4&A5&A6&A7). rewrite A5, A6 in Hc. cbn [length] in Hc.
    cbn [fold_left Core.lstep]. rewrite Nat.eqb_refl.
    assert (Hnz : Nat.eqb (lcnt_ L - k) 0 = false) by (apply Nat.eqb_neq; lia). rewrite Hnz.
    constructor; at_c; cbn [Core.lcnt Core.lcopy].
    + discriminate.
    + intros i' E; injection E as <-. rewrite A5, A6. cbn [length]. lia.
    + intros i' E _; injection E as <-. repeat split; assumption.
    + intros i' E Hz. lia.
    + intros i' E; injection E as <-. apply L5, Ec.
  - (* QUnsub: more than there are *)
    cbn [fold_left Core.lstep]. apply (lg_same c s _ L HL); at_c; reflexivity.
  - (* QUnsub: no subscription *)
    cbn [fold_left Core.lstep]. apply (lg_same c s _ L HL); at_c; reflexivity.
  - (* QAccess: disposed meanwhile *)
    cbn [fold_left]. apply (lg_same c s _ L HL); at_c; reflexivity.
  - (* QAccess: granted, loaded *)
    destruct (W4 c (QAccess i)) as [Hi Ho]; [rewrite Eq; left; reflexivity|]. unfold Core.is_gone in Eg. unfold Core.is_live in El.
    assert (Ec : cur (conns s c) = Some i) by (rewrite <- Ho; apply W2; assumption).
    pose proof (L2 i Ec) as Hc.
    destruct (acb (insts s i)) as [|id0 r] eqn:Eacb.
    + unfold Core.respond_ids, Core.respond_acts. cbn [fold_left].
      constructor; at_c; rewrite Ec.
      * discriminate.
      * intros i' E; injection E as <-. inst_self. cbn [length] in *. lia.
      * intros i' E Hp; injection E as <-. inst_self. destruct (L3 i Ec Hp) as (A1&A2&A3&A4&A5&A6&A7). repeat split; assumption.
      * intros i' E; injection E as <-. apply L4, Ec.
      * intros i' E; injection E as <-. inst_self. apply L5, Ec.
    + destruct (ssent (csubs (cv s) i)) eqn:Es.
      * exfalso. assert (Hp : 0 < lcnt_ L). { destruct (Nat.eq_dec (lcnt_ L) 0) as [E0|E0]; [|lia]. rewrite (L4 i Ec E0) in Es. discriminate. }
        destruct (L3 i Ec Hp) as (_&_&_&_&A&_). rewrite Eacb in A. discriminate.
      * assert (Hz : lcnt_ L = 0). { destruct (Nat.eq_dec (lcnt_ L) 0) as [E0|E0]; [exact E0|]. destruct (L3 i Ec) as (A&_); [lia|congruence]. }
        destruct (respond_sub (cv s) i El Es) as (R1&R2&R3&R4&R5). cbn zeta in *.
        unfold Core.respond_ids, Core.respond_acts. rewrite Es. rewrite fold_left_app. cbn [fold_left Core.lstep]. rewrite Nat.eqb_refl.
        rewrite fold_replay_o, fold_resp_none. cbn [Core.lcnt Core.lcopy length] in *.
        constructor; at_c; rewrite Ec; cbn [Core.lcnt Core.lcopy].
        -- discriminate.
        -- intros i' E; injection E as <-. inst_self. cbn [length]. lia.
        -- intros i' E _; injection E as <-. inst_self. rewrite R1, R2, R3, R5. repeat split; auto.
           destruct (rcb (insts s i)) eqn:Er; [reflexivity|]. rewrite L5 in El; [discriminate|exact Ec|rewrite Er; discriminate].
        -- intros i' E Hz'. lia.
        -- intros i' E; injection E as <-. inst_self. intros Hr. rewrite L5 in El; [discriminate|exact Ec|exact Hr].
  - (* QAccess: granted, not loaded yet *)
    destruct (W4 c (QAccess i)) as [Hi Ho]; [rewrite Eq; left; reflexivity|]. unfold Core.is_gone in Eg. unfold Core.is_live in El.
    assert (Ec : cur (conns s c) = Some i) by (rewrite <- Ho; apply W2; assumption).
    pose proof (L2 i Ec) as Hc. cbn [fold_left].
    constructor; at_c; rewrite Ec.
    + discriminate.
    + intros i' E; injection E as <-. inst_self. rewrite app_length. cbn [length]. lia.
    + intros i' E Hp; injection E as <-. destruct (L3 i Ec Hp) as (_&A&_). congruence.
    + intros i' E; injection E as <-. apply L4, Ec.
    + intros i' E _; injection E as <-. exact El.
  - (* QAccess: denied *)
    destruct (W4 c (QAccess i)) as [Hi Ho]; [rewrite Eq; left; reflexivity|]. unfold Core.is_gone in Eg.
    assert (Ec : cur (conns s c) = Some i) by (rewrite <- Ho; apply W2; assumption).
    pose proof (L2 i Ec) as Hc. rewrite fold_err.
    destruct (Nat.eqb_spec (direct (conns s c) - length (acb (insts s i))) 0) as [Ez|Ez].
    + constructor; at_c; try discriminate. intros _. lia.
    + cbn [fold_left]. constructor; at_c; rewrite Ec.
      * discriminate.
      * intros i' E; injection E as <-. inst_self. cbn [length]. lia.
      * intros i' E Hp; injection E as <-. exfalso. destruct (L3 i Ec Hp) as (_&_&_&_&_&_&A). apply W7 in A. congruence.
      * intros i' E; injection E as <-. apply L4, Ec.
      * intros i' E; injection E as <-. inst_self. apply L5, Ec.
  - (* QAccess: no answer *)
    cbn [fold_left]. apply (lg_same c s _ L HL); at_c; reflexivity.
  - (* QSub *)
    destruct (W4 c (QSub i)) as [Hi Ho]; [rewrite Eq; left; reflexivity|]. unfold Core.is_live.
    assert (NB : forall l : bool, negb l && l = false) by (intros []; reflexivity).
    destruct (scq (csubs (cv s) i)) as [|[|e] q'] eqn:Ecq.
    + (* nothing queued for it *)
      rewrite (runc_nil (cv s) i Ecq), NB. cbn [List.app fold_left]. rewrite (runc_nil (cv s) i Ecq).
      apply (lg_same c s _ L HL); at_c; reflexivity.
    + (* Loaded *)
      pose proof (loaded_head (cv s) i q' Hinv Ecq) as Hl0. rewrite Hl0. cbn [negb andb].
      destruct (sgone (csubs (cv s) i)) eqn:Eg.
      * rewrite (runc_loaded_gone (cv s) i q' Ecq Eg). cbn [List.app fold_left].
        apply (lg_transfer c s _ L HL); at_c; [reflexivity|reflexivity|]. intros i0 Hc0.
        assert (Hne : i0 <> i) by (intros ->; destruct (W1 c i Hc0) as (_&_&G); congruence).
        rewrite subs_other by (cbn [tgt]; congruence || discriminate). repeat split.
      * destruct (runc_loaded_fields (cv s) i q' Ecq Eg) as (F1&F2&F3&F4). cbn zeta in *. rewrite F1.
        assert (Ec : cur (conns s c) = Some i) by (rewrite <- Ho; apply W2; assumption).
        pose proof (L2 i Ec) as Hc.
        assert (Hz : lcnt_ L = 0). { destruct (Nat.eq_dec (lcnt_ L) 0) as [E0|E0]; [exact E0|]. destruct (L3 i Ec) as (_&A&_); [lia|congruence]. }
        destruct (rcb (insts s i)) as [|id0 r] eqn:Er.
        -- unfold Core.respond_ids, Core.respond_acts. cbn [List.app fold_left].
           constructor; at_c; rewrite Ec.
           ++ discriminate.
           ++ intros i' E; injection E as <-. inst_self. cbn [length] in *. lia.
           ++ intros i' E Hp. lia.
           ++ intros i' E _; injection E as <-. exact F2.
           ++ intros i' E; injection E as <-. inst_self. congruence.
        -- destruct (respond_sub _ i F1 F2) as (R1&R2&R3&R4&R5). cbn zeta in *.
           unfold Core.respond_ids, Core.respond_acts. rewrite F2. cbn [List.app fold_left Core.lstep]. rewrite Nat.eqb_refl.
           rewrite fold_left_app, fold_replay_o, fold_resp_none. cbn [Core.lcnt Core.lcopy length] in *.
           destruct (HI i) as [I1 I2]. assert (Ha : acc (insts s i) = Some true) by (apply I2; rewrite Er; discriminate).
           constructor; at_c; rewrite Ec; cbn [Core.lcnt Core.lcopy].
           ++ discriminate.
           ++ intros i' E; injection E as <-. inst_self. cbn [length]. lia.
           ++ intros i' E _; injection E as <-. inst_self. rewrite R1, R2, R3, R5. repeat split; auto.
           ++ intros i' E Hz'. lia.
           ++ intros i' E; injection E as <-. inst_self. congruence.
    + (* Event *)
      destruct (runc_event_fields (cv s) i e q' Ecq) as (F1&F2&F3&F4). cbn zeta in *. rewrite F1, NB, app_nil_r. cbn [fold_left].
      destruct (sloaded (csubs (cv s) i) && negb (sflag (csubs (cv s) i))) eqn:Ef.
      * destruct (F3 eq_refl) as [F5 F6]. apply andb_prop in Ef. destruct Ef as [El Efl].
        assert (Eg : sgone (csubs (cv s) i) = false).
        { destruct (sgone (csubs (cv s) i)) eqn:Eg; [|reflexivity]. rewrite (Conv.igl _ _ _ _ Hinv i Eg) in El. discriminate. }
        assert (Ec : cur (conns s c) = Some i) by (rewrite <- Ho; apply W2; assumption).
        pose proof (L2 i Ec) as Hc.
        pose proof (proc_o_lcnt c (ssver (csubs (cv s) i), ssval (csubs (cv s) i)) e L) as Hcnt.
        constructor; at_c; rewrite Ec, ?Hcnt.
        -- discriminate.
        -- intros i' E; injection E as <-. exact Hc.
        -- intros i' E Hp; injection E as <-. destruct (L3 i Ec Hp) as (A1&A2&A3&A4&A5&A6&A7).
           rewrite F1, F2, F5, F6. repeat split; auto.
           rewrite (ledger_eta L), A4, proc_o_ledger. reflexivity.
        -- intros i' E Hz; injection E as <-. rewrite F2. apply L4; assumption.
        -- intros i' E Hr; injection E as <-. rewrite (L5 i Ec Hr) in El. discriminate.
      * destruct (F4 eq_refl) as [F5 F6]. cbn [fold_left].
        apply (lg_transfer c s _ L HL); at_c; [reflexivity|reflexivity|]. intros i0 Hc0.
        destruct (Nat.eq_dec i0 i) as [->|Hne]; [rewrite F1, F2, F5, F6; repeat split|].
        rewrite subs_other by (cbn [tgt]; congruence || discriminate). repeat split.
  - (* QDispose *)
    exfalso. specialize (W4 c QDispose). cbn [okitem] in W4. rewrite W4 in Hd; [discriminate|rewrite Eq; left; reflexivity].
Qed.

(* ---------------- every item of a subscription's queue has its task on the owner's connection queue ---------------- *)
Definition is_qsub (i : nat) (it : qitem) : bool := match it with QSub j => Nat.eqb j i | _ => false end.
Definition cntq (i : nat) (q : list qitem) : nat := length (filter (is_qsub i) q).
Definition QL (s : Core.st val upd) : Prop :=
  forall i, i < next s -> length (scq (csubs (cv s) i)) <= cntq i (cqueue (conns s (owner (insts s i)))).

Lemma cntq_app i q1 q2 : cntq i (q1 ++ q2) = cntq i q1 + cntq i q2.
Proof. unfold cntq. rewrite filter_app, app_length. reflexivity. Qed.
Lemma cntq_in i q : In (QSub i) q -> 1 <= cntq i q.
Proof.
  induction q as [|a q IH]; [intros []|]. intros [->|H]; unfold cntq in *; cbn [filter is_qsub].
  - rewrite Nat.eqb_refl. cbn [length]. lia.
  - destruct (is_qsub i a); cbn [length]; specialize (IH H); lia.
Qed.

Definition nocq (a : act) : Prop := a <> Conv.RunE upd /\ forall j, a <> Conv.RunC upd j.
Lemma cq_other σ a j : nocq a -> scq (csubs (cstep σ a) j) = scq (csubs σ j).
Proof.
  intros [Hr Hc]. destruct a as [u| | |n|k|k cl| |k|k n|k n|k];
    try (rewrite subs_other by (cbn [tgt]; congruence); reflexivity).
  - destruct (Nat.eqb_spec j k) as [->|Hne]; [|rewrite subs_other by (cbn [tgt]; congruence); reflexivity].
    cbn [Conv.step]. destruct (ssubscribed (csubs σ k)); [reflexivity|]. cbn [Conv.subs]. rewrite Conv.set_sub_eq. reflexivity.
  - destruct (Nat.eqb_spec j k) as [->|Hne]; [|rewrite subs_other by (cbn [tgt]; congruence); reflexivity].
    cbn [Conv.step]. destruct (sgone (csubs σ k)); [destruct cl|]; cbn [Conv.subs]; rewrite ?Conv.set_sub_eq; reflexivity.
  - destruct (Nat.eqb_spec j k) as [->|Hne]; [|rewrite subs_other by (cbn [tgt]; congruence); reflexivity].
    cbn [Conv.step]. destruct (_ && _); [|reflexivity]. cbn [Conv.subs]. rewrite Conv.set_sub_eq.
    match goal with |- scq (Conv.drain val upd app ?x n) = _ => destruct (Conv.drain_fields val upd app x n) as (_&_&G&_); rewrite G end. reflexivity.
  - destruct (Nat.eqb_spec j k) as [->|Hne]; [|rewrite subs_other by (cbn [tgt]; congruence); reflexivity].
    cbn [Conv.step]. destruct (_ && _); [|reflexivity]. cbn [Conv.subs]. rewrite Conv.set_sub_eq.
    match goal with |- scq (Conv.drain val upd app ?x n) = _ => destruct (Conv.drain_fields val upd app x n) as (_&_&G&_); rewrite G end. reflexivity.
  - destruct (Nat.eqb_spec j k) as [->|Hne]; [|rewrite subs_other by (cbn [tgt]; congruence); reflexivity].
    cbn [Conv.step]. destruct (_ && _); [|reflexivity]. cbn [Conv.subs]. rewrite Conv.set_sub_eq. reflexivity.
Qed.
Lemma cq_others acts : Forall nocq acts -> forall σ j, scq (csubs (fold_left cstep acts σ) j) = scq (csubs σ j).
Proof.
  induction 1 as [|a acts Ha _ IH]; intros σ j; cbn [fold_left]; [reflexivity|]. rewrite IH. apply cq_other, Ha.
Qed.
Lemma cq_runc σ i : scq (csubs (cstep σ (Conv.RunC upd i)) i) = tl (scq (csubs σ i)).
Proof.
  cbn [Conv.step]. destruct (scq (csubs σ i)) as [|[|e] q] eqn:E; [rewrite E; reflexivity|destruct (sgone (csubs σ i))|];
    cbn [Conv.subs]; rewrite Conv.set_sub_eq; cbn [Conv.cq tl]; try reflexivity.
  destruct (negb (sloaded (csubs σ i))); [reflexivity|]. destruct (sflag (csubs σ i)); [reflexivity|].
  destruct (Conv.proc val upd app (ssver (csubs σ i), ssval (csubs σ i)) e). reflexivity.
Qed.
Lemma cq_runc_other σ i j : j <> i -> scq (csubs (cstep σ (Conv.RunC upd i)) j) = scq (csubs σ j).
Proof. intros H. rewrite subs_other by (cbn [tgt]; congruence || discriminate). reflexivity. Qed.

Lemma nocq_respond i x ids : Forall nocq (Core.respond_acts val upd i x ids).
Proof.
  unfold Core.respond_acts. destruct ids; [constructor|]. destruct (ssent x); [constructor|].
  constructor; [|constructor]. split; [discriminate|intros j; discriminate].
Qed.

Lemma ql_frame s s' : QL s -> next s' = next s -> (forall i, owner (insts s' i) = owner (insts s i)) ->
  (forall i, i < next s -> length (scq (csubs (cv s') i)) <= length (scq (csubs (cv s) i))) ->
  (forall i c, cntq i (cqueue (conns s c)) <= cntq i (cqueue (conns s' c))) -> QL s'.
Proof.
  intros H En Eo Ecq Eq i Hi. rewrite En in Hi. rewrite Eo.
  specialize (H i Hi). specialize (Ecq i Hi). specialize (Eq i (owner (insts s i))). lia.
Qed.

Ltac ql_pop H c Eq :=
  apply (ql_frame _ _ H); cbn [Core.next Core.insts Core.cv Core.conns];
  [ reflexivity | |
  | let j := fresh "j" in let c' := fresh "c'" in intros j c'; conn_at c' c;
      [rewrite Eq; unfold cntq; cbn [filter is_qsub length]; lia|lia] ].
Ltac ql_cq := let j := fresh "j" in intros j _; rewrite cq_others; [lia|].

Lemma ql_step s outs o : GO s outs -> CInv (cv s) -> WF s -> QL s -> QL (fst (step s o)).
Proof.
  intros Hgo Hinv Hw H. pose proof Hw as [W1 W2 W3 W4 W5 W6 W7].
  step_cases s o.
  1,3,5,8,13: exact H.
  - apply (ql_frame _ _ H); cbn [Core.next Core.insts Core.cv Core.conns fold_left]; auto.
    intros j c'; conn_at c' c; [rewrite cntq_app|]; lia.
  - apply (ql_frame _ _ H); cbn [Core.next Core.insts Core.cv Core.conns fold_left]; auto.
    intros j c'; conn_at c' c; [rewrite cntq_app|]; lia.
  - apply (ql_frame _ _ H); cbn [Core.next Core.insts Core.cv Core.conns fold_left]; auto.
    intros j c'; conn_at c' c; [rewrite cntq_app|]; lia.
  - (* MqAccess *)
    apply (ql_frame _ _ H); cbn [Core.next Core.insts Core.cv Core.conns]; auto.
    intros j. inst_at j i; reflexivity.
  - (* MqGet *)
    apply (ql_frame _ _ H); cbn [Core.next Core.insts Core.cv Core.conns]; auto.
    ql_cq. destruct (_ && _); [|constructor]. constructor; [|constructor]. split; [discriminate|intros ?; discriminate].
  - (* MqEvent *)
    apply (ql_frame _ _ H); cbn [Core.next Core.insts Core.cv Core.conns]; auto.
    destruct (mqsub s) eqn:Em.
    + ql_cq. constructor; [|constructor]. split; [discriminate|intros ?; discriminate].
    + destruct (g_0 _ _ Hgo Em) as (A&B&C&_). cbn [fold_left].
      destruct (upd_rune_nil (cv s) (Conv.SvcUpdate upd u) B C) as (_&_&Z); [left; eexists; reflexivity|].
      intros j _. rewrite Z. lia.
  - (* MqCustom *)
    apply (ql_frame _ _ H); cbn [Core.next Core.insts Core.cv Core.conns]; auto.
    destruct (mqsub s) eqn:Em.
    + ql_cq. constructor; [|constructor]. split; [discriminate|intros ?; discriminate].
    + destruct (g_0 _ _ Hgo Em) as (A&B&C&_). cbn [fold_left].
      destruct (upd_rune_nil (cv s) (Conv.SvcCustom upd) B C) as (_&_&Z); [right; reflexivity|].
      intros j _. rewrite Z. lia.
  - (* GrantEs *)
    cbn [fold_left]. intros j Hj. cbn [Core.next Core.insts Core.cv Core.conns] in *.
    match goal with |- _ <= cntq _ (cqueue (Core.pass _ _ ?σ ?own (Core.fan _ _ _ ?σ' _ ?n ?f) ?c')) => destruct (grant_conns σ σ' own n f c') as (B&_) end.
    rewrite B, !cntq_app. specialize (H j Hj).
    destruct (rune_fields (cv s) j) as (_&_&_&_&_&_&_&_&_&[Hcq|[it Hcq]]).
    + rewrite Hcq. lia.
    + rewrite Hcq, app_length. cbn [length].
      match goal with |- _ <= _ + cntq j ?Q + _ => assert (Hq : 1 <= cntq j Q) end; [|lia].
      apply cntq_in. unfold qsubs_for. apply in_map. apply filter_In. split; [apply in_seq; lia|].
      rewrite Nat.eqb_refl, andb_true_r. unfold Core.grew. rewrite Hcq, app_length. cbn [length]. apply Nat.ltb_lt. lia.
  - (* QReq, granted and loaded *)
    ql_pop H c Eq; [auto|]. ql_cq. apply nocq_respond.
  - ql_pop H c Eq; [intros j; inst_at j i; reflexivity|]. ql_cq. constructor.
  - ql_pop H c Eq; [intros j; inst_at j i; reflexivity|]. ql_cq. constructor.
  - ql_pop H c Eq; [intros j; inst_at j i; reflexivity|]. ql_cq. constructor.
  - (* new instance *)
    cbn [fold_left]. intros j Hj. cbn [Core.next Core.insts Core.cv Core.conns] in *.
    rewrite cq_other by (split; [discriminate|intros ?; discriminate]).
    destruct (Nat.eq_dec j (next s)) as [->|Hne].
    + destruct (W3 (next s)) as (_&_&_&A); [lia|]. rewrite A. cbn [length]. lia.
    + assert (Hj' : j < next s) by lia. specialize (H j Hj'). inst_at j (next s); [lia|].
      unfold Core.set_conn. destruct (Nat.eqb_spec (owner (insts s j)) c) as [E|E]; cbn [cqueue]; [|exact H].
      rewrite E, Eq in H. unfold cntq in *. cbn [filter is_qsub] in H. exact H.
  - ql_pop H c Eq; [auto|]. ql_cq. constructor.
  - ql_pop H c Eq; [intros j; inst_at j i; reflexivity|]. ql_cq. constructor; [|constructor]. split; [discriminate|intros ?; discriminate].
  - ql_pop H c Eq; [auto|]. ql_cq. constructor.
  - ql_pop H c Eq; [auto|]. ql_cq. constructor.
  - ql_pop H c Eq; [auto|]. ql_cq. constructor.
  - ql_pop H c Eq; [auto|]. ql_cq. constructor.
  - ql_pop H c Eq; [intros j; inst_at j i; reflexivity|]. ql_cq. apply nocq_respond.
  - ql_pop H c Eq; [intros j; inst_at j i; reflexivity|]. ql_cq. constructor.
  - ql_pop H c Eq; [intros j; inst_at j i; reflexivity|]. ql_cq.
    destruct (Nat.eqb _ 0); [|constructor]. constructor; [|constructor]. split; [discriminate|intros ?; discriminate].
  - ql_pop H c Eq; [auto|]. ql_cq. constructor.
  - (* QSub *)
    destruct (W4 c (QSub i)) as [Hi Ho]; [rewrite Eq; left; reflexivity|].
    cbn [fold_left]. intros j Hj. cbn [Core.next Core.insts Core.cv Core.conns] in *.
    assert (Eo : owner ((if negb (Core.is_live val upd (cv s) i) && Core.is_live val upd (cstep (cv s) (Conv.RunC upd i)) i
                         then Core.set_inst (insts s) i (Core.with_cbs (insts s i) (acb (insts s i)) [] (acc (insts s i)) (lost (insts s i)))
                         else insts s) j) = owner (insts s j)).
    { destruct (_ && _); [|reflexivity]. inst_at j i; reflexivity. }
    rewrite Eo. rewrite cq_others by (destruct (_ && _); [apply nocq_respond|constructor]).
    specialize (H j Hj).
    destruct (Nat.eq_dec j i) as [->|Hne].
    + rewrite cq_runc, Ho. rewrite Ho, Eq in H. unfold Core.set_conn. rewrite Nat.eqb_refl. cbn [Core.with_q cqueue].
      unfold cntq in *. cbn [filter is_qsub] in H. rewrite Nat.eqb_refl in H. cbn [length] in H.
      destruct (scq (csubs (cv s) i)); cbn [tl length] in *; lia.
    + rewrite cq_runc_other by exact Hne.
      unfold Core.set_conn. destruct (Nat.eqb_spec (owner (insts s j)) c) as [E'|E']; cbn [Core.with_q cqueue]; [|exact H].
      rewrite E', Eq in H. unfold cntq in *. cbn [filter is_qsub] in H.
      assert (E : Nat.eqb i j = false) by (apply Nat.eqb_neq; congruence). rewrite E in H. exact H.
  - (* QDispose *)
    ql_pop H c Eq; [intros j; destruct (cur (conns s c)) as [i|]; [inst_at j i|]; reflexivity|]. ql_cq.
    apply Forall_forall. intros a Hin. apply in_map_iff in Hin. destruct Hin as (j' & <- & _). split; [discriminate|intros ?; discriminate].
Qed.

(* ---------------- the invariants along an execution ---------------- *)
Lemma iw_exec t ops : IW (fst (exec t ops)).
Proof.
  apply exec_state_ind.
  - intros i. cbn. split; [discriminate|congruence].
  - intros ops' o s H. apply iw_step; [apply wf_exec|exact H].
Qed.
Lemma ql_exec t ops : QL (fst (exec t ops)).
Proof.
  apply exec_state_ind.
  - intros i Hi. cbn in Hi. lia.
  - intros ops' o s H. apply (ql_step s (snd (exec t ops'))); [apply go_exec|apply core_conv_inv|apply wf_exec|exact H].
Qed.

Lemma nu_prefix c outs o : no_underflow c (outs ++ o) -> no_underflow c outs.
Proof. intros H pre id k post E. apply (H pre id k (post ++ o)). rewrite E, <- app_assoc. reflexivity. Qed.

Lemma lg_exec t ops c :
  let s := fst (exec t ops) in let outs := snd (exec t ops) in
  disc (conns s c) = false -> no_underflow c outs -> LG c s (client c outs).
Proof.
  apply (exec_ind (fun s outs => disc (conns s c) = false -> no_underflow c outs -> LG c s (client c outs))).
  - intros _ _. constructor; cbn; try reflexivity; discriminate.
  - intros ops' o s outs IH Hd Hnu.
    assert (Hd0 : disc (conns s c) = false).
    { destruct (disc (conns s c)) eqn:E; [|reflexivity]. rewrite (disc_mono s o c E) in Hd. discriminate. }
    specialize (IH Hd0 (nu_prefix _ _ _ Hnu)). rewrite client_app.
    assert (Ho : (exists c0, o = Core.GrantConn upd c0) \/ forall c0, o <> Core.GrantConn upd c0).
    { destruct o; try (right; intros; discriminate). left; eexists; reflexivity. }
    destruct Ho as [[c0 ->]|Ho]; [|apply lg_step_nonconn; assumption].
    destruct (Nat.eq_dec c c0) as [<-|Hne]; [|apply lg_step_otherconn; [apply wf_exec|exact Hne|exact IH]].
    apply lg_step_conn; [apply core_conv_inv|apply wf_exec|apply iw_exec|exact IH|exact Hd0|].
    intros id k E. apply (Hnu outs id k []). rewrite E. reflexivity.
Qed.

(* ---------------- B: direct subscription accounting ---------------- *)
Theorem core_direct_count : forall t ops c,
  let s := fst (exec t ops) in let outs := snd (exec t ops) in
  Core.disc (conns s c) = false -> no_underflow c outs ->
  Core.direct (conns s c) = Core.lcnt val (client c outs) + Core.pending val upd s c.
Proof.
  intros t ops c. cbn zeta. intros Hd Hnu. destruct (lg_exec t ops c Hd Hnu) as [L1 L2 L3 L4 L5].
  unfold Core.pending. destruct (cur (conns (fst (exec t ops)) c)) as [i|] eqn:Ec.
  - rewrite (L2 i eq_refl). lia.
  - rewrite (L1 eq_refl), (w_dir _ (wf_exec t ops) c Ec). reflexivity.
Qed.

(* ---------------- C: the client's copy ---------------- *)
Theorem core_client_copy : forall t ops c,
  let s := fst (exec t ops) in let outs := snd (exec t ops) in
  Core.disc (conns s c) = false -> no_underflow c outs -> 0 < Core.lcnt val (client c outs) ->
  exists i, Core.cur (conns s c) = Some i /\ Conv.sent val upd (csubs (cv s) i) = true /\
            Core.lcopy val (client c outs) = Some (Conv.sval val upd (csubs (cv s) i)).
Proof.
  intros t ops c. cbn zeta. intros Hd Hnu Hp. destruct (lg_exec t ops c Hd Hnu) as [L1 L2 L3 L4 L5].
  destruct (cur (conns (fst (exec t ops)) c)) as [i|] eqn:Ec; [|rewrite (L1 eq_refl) in Hp; lia].
  exists i. destruct (L3 i eq_refl Hp) as (A1&_&_&A4&_). auto.
Qed.

Theorem core_convergence : forall t ops c,
  let s := fst (exec t ops) in let outs := snd (exec t ops) in
  quiescent s -> Core.disc (conns s c) = false -> no_underflow c outs -> 0 < Core.lcnt val (client c outs) ->
  Core.lcopy val (client c outs) = Some (Conv.truth val upd (cv s)).
Proof.
  intros t ops c. cbn zeta. intros (Hq & Hcq & _ & _) Hd Hnu Hp.
  pose proof (lg_exec t ops c Hd Hnu) as HL. pose proof (wf_exec t ops) as Hw. pose proof (core_conv_inv t ops) as Hinv.
  pose proof (ql_exec t ops) as Hql. set (s := fst (exec t ops)) in *.
  destruct HL as [L1 L2 L3 L4 L5].
  destruct (cur (conns s c)) as [i|] eqn:Ec; [|rewrite (L1 eq_refl) in Hp; lia].
  destruct (L3 i eq_refl Hp) as (A1&A2&A3&A4&_).
  destruct (w_cur _ Hw c i Ec) as (Hi&Ho&Hg).
  assert (Hc0 : scq (csubs (cv s) i) = []).
  { specialize (Hql i Hi). rewrite Ho, Hcq in Hql. cbn in Hql. destruct (scq (csubs (cv s) i)); [reflexivity|cbn in Hql; lia]. }
  pose proof (Conv.i5 _ _ _ _ Hinv i A2) as H5. rewrite (Conv.i8 _ _ _ _ Hinv i A3), Hc0 in H5. cbn in H5.
  destruct (Conv.loaded_mem val upd app _ i Hinv A2) as [_ Hrl].
  pose proof (Conv.i1 _ _ _ _ Hinv) as H1. rewrite Hq, Hrl in H1. cbn in H1.
  destruct (Conv.answered val upd (cv s)); [|discriminate H1]. injection H1 as H1. injection H5 as _ H5.
  rewrite A4. congruence.
Qed.

(* ---------------- unconditionally the gateway never counts more than the client and the waiting requests ---------------- *)
Definition DL (c : nat) (s : Core.st val upd) (L : ledger_) : Prop :=
  forall i, cur (conns s c) = Some i -> direct (conns s c) <= lcnt_ L + length (acb (insts s i)) + length (rcb (insts s i)).

Lemma lcnt_replay_o c l : forall p L, lcnt_ (fold_left (lstep c) (Core.replay_o val upd app c p l) L) = lcnt_ L.
Proof.
  induction l as [|e l IH]; intros p L; [reflexivity|]. cbn [Core.replay_o].
  pose proof (proc_o_lcnt c p e L) as Hp. destruct (Core.proc_o val upd app c p e) as [p' o]. cbn [snd] in Hp.
  rewrite fold_left_app, IH. exact Hp.
Qed.
Lemma lcnt_respond c x ids L : lcnt_ (fold_left (lstep c) (Core.respond_ids val upd app c x ids) L) = lcnt_ L + length ids.
Proof.
  unfold Core.respond_ids. destruct ids as [|id r]; [cbn; lia|]. rewrite fold_left_app, fold_resp_none. cbn [Core.lcnt length].
  destruct (ssent x); cbn [fold_left Core.lstep]; rewrite Nat.eqb_refl; [cbn [Core.lcnt]; lia|].
  rewrite lcnt_replay_o. cbn [Core.lcnt]. lia.
Qed.

Lemma dl_transfer c s s' L : DL c s L ->
  cur (conns s' c) = cur (conns s c) -> direct (conns s' c) = direct (conns s c) ->
  (forall i, cur (conns s c) = Some i -> acb (insts s' i) = acb (insts s i) /\ rcb (insts s' i) = rcb (insts s i)) ->
  DL c s' L.
Proof. intros H Ec Ed Hi i Hc. rewrite Ec in Hc. destruct (Hi i Hc) as [A B]. rewrite Ed, A, B. apply H, Hc. Qed.

Lemma dl_step_nonconn cl s o L : (forall c0, o <> Core.GrantConn upd c0) -> DL cl s L ->
  DL cl (fst (step s o)) (fold_left (lstep cl) (snd (step s o)) L).
Proof.
  intros Ho HL.
  step_cases s o; try exact HL; try (exfalso; eapply Ho; reflexivity); cbn [fold_left].
  - apply (dl_transfer cl s _ L HL); cbn [Core.conns Core.insts]; auto; conn_at cl c; reflexivity.
  - apply (dl_transfer cl s _ L HL); cbn [Core.conns Core.insts]; auto; conn_at cl c; reflexivity.
  - apply (dl_transfer cl s _ L HL); cbn [Core.conns Core.insts]; auto; conn_at cl c; reflexivity.
  - apply (dl_transfer cl s _ L HL); cbn [Core.conns Core.insts]; auto. intros j _. inst_at j i; auto.
  - assert (E : forall b : bool, fold_left (lstep cl) (if b then [Core.OGetReq val upd] else []) L = L) by (intros []; reflexivity).
    rewrite E. apply (dl_transfer cl s _ L HL); cbn [Core.conns Core.insts]; auto.
    + match goal with |- cur (Core.pass _ _ ?σ ?own (Core.fan _ _ _ ?σ' _ ?n ?f) _) = _ => destruct (grant_conns σ σ' own n f cl) as (_&B&_) end. exact B.
    + match goal with |- direct (Core.pass _ _ ?σ ?own (Core.fan _ _ _ ?σ' _ ?n ?f) _) = _ => destruct (grant_conns σ σ' own n f cl) as (_&_&B&_) end. exact B.
Qed.

Lemma dl_step_otherconn cl c0 s L : WF s -> cl <> c0 -> DL cl s L ->
  DL cl (fst (step s (Core.GrantConn upd c0))) (fold_left (lstep cl) (snd (step s (Core.GrantConn upd c0))) L).
Proof.
  intros Hw Hne HL. rewrite (fold_other cl c0 _ Hne (outs_addr s c0)).
  apply (dl_transfer cl s _ L HL).
  - rewrite conns_other by exact Hne. reflexivity.
  - rewrite conns_other by exact Hne. reflexivity.
  - intros i Hc. destruct (w_cur _ Hw cl i Hc) as (Hi & Ho & _). rewrite insts_other by (auto; congruence). auto.
Qed.

Lemma dl_step_conn c s L : CInv (cv s) -> WF s -> DL c s L ->
  DL c (fst (step s (Core.GrantConn upd c))) (fold_left (lstep c) (snd (step s (Core.GrantConn upd c))) L).
Proof.
  intros Hinv Hw HL. pose proof Hw as [W1 W2 W3 W4 W5 W6 W7].
  conn_cases s c; try exact HL.
  - (* QReq granted, loaded *)
    pose proof (HL i Ec) as Hc. intros i'. at_c. rewrite lcnt_respond. intros E; injection E as <-. cbn [length]. lia.
  - pose proof (HL i Ec) as Hc. intros i'. at_c. cbn [fold_left]. intros E; injection E as <-. inst_self. rewrite app_length. cbn [length]. lia.
  - pose proof (HL i Ec) as Hc. intros i'. at_c. cbn [fold_left]. intros E; injection E as <-. inst_self. rewrite app_length. cbn [length]. lia.
  - pose proof (HL i Ec) as Hc. intros i'. at_c. cbn [fold_left]. intros E; injection E as <-. inst_self. rewrite app_length. cbn [length]. lia.
  - intros i'. at_c. intros E; injection E as <-. unfold Core.set_inst. rewrite Nat.eqb_refl. cbn. lia.
  - cbn [fold_left Core.lstep]. apply (dl_transfer c s _ L HL); at_c; auto.
  - intros i'. at_c. discriminate.
  - pose proof (HL i Ec) as Hc. apply Nat.leb_le in Ele. intros i'. at_c. cbn [fold_left Core.lstep]. rewrite Nat.eqb_refl. cbn [Core.lcnt].
    intros E; injection E as <-. lia.
  - cbn [fold_left Core.lstep]. apply (dl_transfer c s _ L HL); at_c; auto.
  - cbn [fold_left Core.lstep]. apply (dl_transfer c s _ L HL); at_c; auto.
  - cbn [fold_left]. apply (dl_transfer c s _ L HL); at_c; auto.
  - (* QAccess granted, loaded *)
    destruct (W4 c (QAccess i)) as [Hi Ho]; [rewrite Eq; left; reflexivity|]. unfold Core.is_gone in Eg.
    assert (Ec : cur (conns s c) = Some i) by (rewrite <- Ho; apply W2; assumption).
    pose proof (HL i Ec) as Hc. intros i'. at_c. rewrite Ec, lcnt_respond. intros E; injection E as <-. inst_self. cbn [length]. lia.
  - destruct (W4 c (QAccess i)) as [Hi Ho]; [rewrite Eq; left; reflexivity|]. unfold Core.is_gone in Eg.
    assert (Ec : cur (conns s c) = Some i) by (rewrite <- Ho; apply W2; assumption).
    pose proof (HL i Ec) as Hc. intros i'. at_c. rewrite Ec. cbn [fold_left]. intros E; injection E as <-. inst_self. rewrite app_length. cbn [length]. lia.
  - destruct (W4 c (QAccess i)) as [Hi Ho]; [rewrite Eq; left; reflexivity|]. unfold Core.is_gone in Eg.
    assert (Ec : cur (conns s c) = Some i) by (rewrite <- Ho; apply W2; assumption).
    pose proof (HL i Ec) as Hc. rewrite fold_err. intros i'. at_c. rewrite Ec.
    destruct (Nat.eqb_spec (direct (conns s c) - length (acb (insts s i))) 0) as [Ez|Ez]; [discriminate|].
    intros E; injection E as <-. inst_self. cbn [length]. lia.
  - cbn [fold_left]. apply (dl_transfer c s _ L HL); at_c; auto.
  - (* QSub *)
    destruct (W4 c (QSub i)) as [Hi Ho]; [rewrite Eq; left; reflexivity|].
    rewrite fold_left_app.
    assert (Hev : lcnt_ (fold_left (lstep c)
              (match scq (csubs (cv s) i) with
               | Conv.CEvent _ e :: _ =>
                   if sloaded (csubs (cv s) i) && negb (sflag (csubs (cv s) i))
                   then snd (Core.proc_o val upd app c (ssver (csubs (cv s) i), ssval (csubs (cv s) i)) e) else []
               | _ => [] end) L) = lcnt_ L).
    { destruct (scq (csubs (cv s) i)) as [|[|e] ?]; try reflexivity. destruct (_ && _); [apply proc_o_lcnt|reflexivity]. }
    destruct (negb (Core.is_live val upd (cv s) i) && Core.is_live val upd (cstep (cv s) (Conv.RunC upd i)) i) eqn:Ewl.
    + apply andb_prop in Ewl. destruct Ewl as [_ Ewl]. unfold Core.is_live in Ewl.
      assert (Eg : sgone (csubs (cv s) i) = false).
      { pose proof (gone_step (cv s) (Conv.RunC upd i) i) as G. cbv beta iota in G. rewrite <- G.
        destruct (sgone (csubs (cstep (cv s) (Conv.RunC upd i)) i)) eqn:Eg; [|reflexivity].
        rewrite (Conv.igl _ _ _ _ (cstep_inv _ _ Hinv) i Eg) in Ewl. discriminate. }
      assert (Ec : cur (conns s c) = Some i) by (rewrite <- Ho; apply W2; assumption).
      pose proof (HL i Ec) as Hc. intros i'. at_c. rewrite Ec, lcnt_respond, Hev. intros E; injection E as <-. inst_self. cbn [length]. lia.
    + cbn [fold_left]. intros i' Hc'. revert Hc'. at_c. intros Hc'. rewrite Hev. apply HL, Hc'.
  - intros i'. at_c. discriminate.
Qed.

Lemma dl_exec t ops c : DL c (fst (exec t ops)) (client c (snd (exec t ops))).
Proof.
  apply (exec_ind (fun s outs => DL c s (client c outs))).
  - intros i. cbn. discriminate.
  - intros ops' o s outs IH. rewrite client_app.
    assert (Ho : (exists c0, o = Core.GrantConn upd c0) \/ forall c0, o <> Core.GrantConn upd c0).
    { destruct o; try (right; intros; discriminate). left; eexists; reflexivity. }
    destruct Ho as [[c0 ->]|Ho]; [|apply dl_step_nonconn; assumption].
    destruct (Nat.eq_dec c c0) as [<-|Hne]; [|apply dl_step_otherconn; [apply wf_exec|exact Hne|exact IH]].
    apply dl_step_conn; [apply core_conv_inv|apply wf_exec|exact IH].
Qed.

Theorem core_direct_le : forall t ops c,
  let s := fst (exec t ops) in let outs := snd (exec t ops) in
  Core.disc (conns s c) = false ->
  Core.direct (conns s c) <= Core.lcnt val (client c outs) + Core.pending val upd s c.
Proof.
  intros t ops c. cbn zeta. intros _. pose proof (dl_exec t ops c) as H.
  unfold Core.pending. destruct (cur (conns (fst (exec t ops)) c)) as [i|] eqn:Ec.
  - specialize (H i Ec). lia.
  - rewrite (w_dir _ (wf_exec t ops) c Ec). lia.
Qed.
End CoreProofs.

Print Assumptions run_exec.
Print Assumptions core_reachable_conv.
Print Assumptions core_conv_inv.
Print Assumptions core_get_once_under_subscription.
Print Assumptions core_direct_count.
Print Assumptions core_unsubscribe_outcome.
Print Assumptions core_client_copy.
Print Assumptions core_convergence.
Print Assumptions core_direct_le.

(* ---------------- without no_underflow the three statements fail (finding KF-PENDING-DROPPED in the accounting) ---------------- *)
(* subscribe twice, then unsubscribe one while both subscribe requests still wait for the access answer: the gateway's count
   drops to 1 although two requests are pending and the client holds nothing *)
Definition refute_ops1 : list (Core.op nat) :=
  [Core.CSub nat 0 1; Core.GrantConn nat 0; Core.CSub nat 0 2; Core.GrantConn nat 0; Core.CUnsub nat 0 3 1; Core.GrantConn nat 0].
(* ... both requests are then answered (client holds 2, gateway counts 1), one more unsubscribe disposes the subscription
   while the client still counts 1; a later event never reaches it *)
Definition refute_ops3 : list (Core.op nat) :=
  refute_ops1 ++
  [Core.GrantEs nat; Core.MqGet nat; Core.GrantEs nat; Core.MqAccess nat 0 true; Core.GrantEs nat; Core.GrantConn nat 0; Core.GrantConn nat 0;
   Core.CUnsub nat 0 4 1; Core.GrantConn nat 0; Core.GrantEs nat; Core.MqEvent nat 5; Core.GrantEs nat].

Theorem core_direct_count_refuted :
  exists ops : list (Core.op nat),
    let s := fst (Core.exec nat nat Nat.add (fun u v => Some u) 0 100 ops) in
    let outs := snd (Core.exec nat nat Nat.add (fun u v => Some u) 0 100 ops) in
    Core.disc (Core.conns nat nat s 0) = false /\ Core.direct (Core.conns nat nat s 0) = 1 /\
    Core.lcnt nat (Core.client nat nat Nat.add 0 outs) = 0 /\ Core.pending nat nat s 0 = 2.
Proof. exists refute_ops1. vm_compute. repeat split. Qed.

Theorem core_convergence_refuted :
  exists ops : list (Core.op nat),
    let s := fst (Core.exec nat nat Nat.add (fun u v => Some u) 0 100 ops) in
    let outs := snd (Core.exec nat nat Nat.add (fun u v => Some u) 0 100 ops) in
    Core.quiescent nat nat s /\ Core.disc (Core.conns nat nat s 0) = false /\
    0 < Core.lcnt nat (Core.client nat nat Nat.add 0 outs) /\
    Core.lcopy nat (Core.client nat nat Nat.add 0 outs) <> Some (Conv.truth nat nat (Core.cv nat nat s)).
Proof.
  exists refute_ops3. cbn zeta. split; [|vm_compute; repeat split; try lia; discriminate].
  split; [vm_compute; reflexivity|]. split; [|split].
  - intros c. vm_compute. destruct c; reflexivity.
  - intros _. vm_compute. reflexivity.
  - intros i Hi. assert (E : i = 0) by (vm_compute in Hi; lia). subst i. vm_compute. reflexivity.
Qed.
Print Assumptions core_direct_count_refuted.
Print Assumptions core_convergence_refuted.
