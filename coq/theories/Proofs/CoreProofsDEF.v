(* Proofs of groups D, E, F of CoreStatements.v: responses, gating, cleanup. *)
From Coq Require Import List Arith Lia Bool Permutation.
From RG Require Import Comp.Conv Comp.Core.
Import ListNotations.

Section CoreProofs.
Variables (val upd : Type) (app : upd -> val -> val) (norm : upd -> val -> option upd) (d : val).
Hypothesis norm_none : forall u v, norm u v = None -> app u v = v.
Hypothesis norm_some : forall u v u', norm u v = Some u' -> app u' v = app u v.

Notation csubs := (Conv.subs val upd).
Notation exec := (Core.exec val upd app norm d).
Notation cv := (Core.cv val upd).
Notation conns := (Core.conns val upd).
Notation insts := (Core.insts val upd).
Notation client := (Core.client val upd app).
Notation resps := (Core.resps val upd).
Notation quiescent := (Core.quiescent val upd).

Notation cstep := (Conv.step val upd app norm).
Notation step := (Core.step val upd app norm).
Notation acts_of := (Core.acts_of val upd app norm).
Notation next := (Core.next val upd).
Notation cst := (Conv.st val upd).
Notation st := (Core.st val upd).
Notation action := (Conv.action upd).
Notation gone := (Conv.gone val upd).
Notation subscribed := (Conv.subscribed val upd).
Notation loaded := (Conv.loaded val upd).
Notation closed := (Conv.closed val upd).
Notation ccq := (Conv.cq val upd).
Notation cqe := (Conv.qe val upd).
Notation CInv := (Conv.Inv val upd app).

(* ---------- classification of Conv actions ---------- *)
Definition d_adisp (j : nat) (a : action) : bool := match a with Conv.Dispose _ s _ => Nat.eqb s j | _ => false end.
Definition d_asubs (j : nat) (a : action) : bool := match a with Conv.Subscribe _ s => Nat.eqb s j | _ => false end.
Definition d_arunc (j : nat) (a : action) : bool := match a with Conv.RunC _ s => Nat.eqb s j | _ => false end.
Definition d_arune (a : action) : bool := match a with Conv.RunE _ => true | _ => false end.
Definition d_anop (i : nat) (a : action) : bool := match a with Conv.SvcNop _ n => Nat.eqb n i | _ => false end.

Ltac d_conv_destruct σ a :=
  destruct a as [u| | |n|s0|s0 cl| |s0|s0 c0|s0 c0|s0]; cbn [Conv.step];
  [ | | destruct (Conv.answered val upd σ) eqn:Eans | | destruct (subscribed (csubs σ s0)) eqn:Esub
  | destruct (gone (csubs σ s0)) eqn:Egone; [destruct cl|]
  | destruct (cqe σ) as [|[u| |v|s1|s1|n1] q] eqn:Eqe;
    [ | destruct (Conv.rs_loaded val upd σ) eqn:Erl; [destruct (norm u (Conv.rs_val val upd σ)) eqn:Enorm|] | | | | | ]
  | destruct (ccq (csubs σ s0)) as [|[|e] q] eqn:Ecq; [ | destruct (gone (csubs σ s0)) eqn:Egone | ]
  | destruct (loaded (csubs σ s0) && negb (Conv.sent val upd (csubs σ s0))) eqn:Econd
  | destruct (loaded (csubs σ s0) && Conv.sent val upd (csubs σ s0) && Conv.flag val upd (csubs σ s0)) eqn:Econd
  | destruct (loaded (csubs σ s0) && Conv.sent val upd (csubs σ s0)) eqn:Econd ].

Ltac d_eqb_all :=
  repeat match goal with
  | |- context [Nat.eqb ?a ?b] => destruct (Nat.eqb_spec a b); subst
  end.
Ltac d_if_all :=
  repeat match goal with
  | |- context [Nat.eqb ?a ?b] => let He := fresh "Heq" in let Hn := fresh "Hne" in destruct (Nat.eqb_spec a b) as [He|Hn]; [first [subst a|subst b|idtac]|]
  | |- context [if ?b then _ else _] => destruct b eqn:?
  | |- context [let '(_, _) := ?p in _] => destruct p as [? ?] eqn:?
  | |- context [match ?b with Some _ => _ | None => _ end] => destruct b eqn:?
  end.
Ltac d_drain :=
  repeat match goal with
  | |- context [Conv.drain val upd app ?x ?c] =>
      let A := fresh in pose proof (Conv.drain_fields val upd app x c) as A;
      destruct A as (?&?&?&?&?&?&?&?); generalize dependent (Conv.drain val upd app x c); do 9 intro
  end.

Lemma d_eff_static : forall σ a j,
  gone (csubs (cstep σ a) j) = gone (csubs σ j) || d_adisp j a /\
  subscribed (csubs (cstep σ a) j) = subscribed (csubs σ j) || d_asubs j a.
Proof.
  intros σ a j. d_conv_destruct σ a; cbn [Conv.subs d_adisp d_asubs].
  all: try (rewrite !orb_false_r; split; reflexivity).
  all: d_drain.
  all: unfold Conv.set_sub, Conv.push_all, Conv.push_c, Conv.dispose, Conv.with_sub in *; d_if_all;
       cbn [Conv.gone Conv.subscribed] in *; rewrite ?orb_false_r, ?orb_true_r; try (split; congruence).
Qed.

Lemma d_eff_loaded : forall σ a j, d_arunc j a = false ->
  loaded (csubs (cstep σ a) j) = true -> loaded (csubs σ j) = true.
Proof.
  intros σ a j. d_conv_destruct σ a; cbn [Conv.subs d_arunc]; try (intros; assumption).
  all: d_drain.
  all: unfold Conv.set_sub, Conv.push_all, Conv.push_c, Conv.dispose, Conv.with_sub in *; d_if_all;
       cbn [Conv.loaded] in *; try congruence.
Qed.

Lemma d_eff_cq : forall σ a j, d_arunc j a = false -> d_arune a = false ->
  ccq (csubs (cstep σ a) j) = ccq (csubs σ j).
Proof.
  intros σ a j. d_conv_destruct σ a; cbn [Conv.subs d_arunc d_arune]; try (intros; reflexivity); try discriminate.
  all: d_drain.
  all: unfold Conv.set_sub, Conv.push_all, Conv.push_c, Conv.dispose, Conv.with_sub in *; d_if_all;
       cbn [Conv.cq] in *; try congruence.
Qed.

Lemma d_eff_runc : forall σ j j',
  ccq (csubs (cstep σ (Conv.RunC upd j)) j') = if Nat.eqb j' j then tl (ccq (csubs σ j')) else ccq (csubs σ j').
Proof.
  intros σ j j'. cbn [Conv.step].
  destruct (ccq (csubs σ j)) as [|[|e] q] eqn:Ecq; cbn [Conv.subs].
  - destruct (Nat.eqb_spec j' j); subst; [rewrite Ecq|]; reflexivity.
  - unfold Conv.set_sub. destruct (gone (csubs σ j)); cbn [Conv.subs]; destruct (Nat.eqb_spec j' j); subst; cbn [Conv.cq]; rewrite ?Ecq; reflexivity.
  - unfold Conv.set_sub; cbn [Conv.subs]. destruct (Nat.eqb_spec j' j); subst; [|reflexivity]. rewrite Ecq.
    d_if_all; reflexivity.
Qed.

Lemma d_eff_rune_cq : forall σ j,
  ccq (csubs (cstep σ (Conv.RunE upd)) j) = ccq (csubs σ j) \/
  exists x, ccq (csubs (cstep σ (Conv.RunE upd)) j) = ccq (csubs σ j) ++ [x].
Proof.
  intros σ j. set (a := Conv.RunE upd). unfold a. cbn [Conv.step].
  destruct (cqe σ) as [|[u| |v|s1|s1|n1] q] eqn:Eqe; cbn [Conv.subs]; try (left; reflexivity).
  all: repeat (progress (unfold Conv.set_sub, Conv.push_all, Conv.push_c; d_if_all; cbn [Conv.subs Conv.cq])); try (left; reflexivity);
       try (right; eexists; reflexivity).
Qed.

Lemma d_mem_false : forall σ j, CInv σ -> subscribed (csubs σ j) = false ->
  Conv.mem j (Conv.rs_subs val upd σ) = false /\ Conv.cnt (Conv.is_add val upd j) (cqe σ) = 0.
Proof.
  intros σ j H Hs. pose proof (Conv.i3g _ _ _ _ H j) as G. rewrite Hs in G. cbn [Conv.b2n] in G.
  destruct (Conv.mem j (Conv.rs_subs val upd σ)); cbn [Conv.b2n] in G; split; try reflexivity; lia.
Qed.

Lemma d_eff_rune_cq_unsub : forall σ j, CInv σ -> subscribed (csubs σ j) = false ->
  ccq (csubs (cstep σ (Conv.RunE upd)) j) = ccq (csubs σ j).
Proof.
  intros σ j H Hs. destruct (d_mem_false σ j H Hs) as [Hm Ha]. cbn [Conv.step].
  destruct (cqe σ) as [|[u| |v|s1|s1|n1] q] eqn:Eqe; cbn [Conv.subs]; try reflexivity.
  all: repeat (progress (unfold Conv.set_sub, Conv.push_all, Conv.push_c; try rewrite Hm; cbn [andb]; d_if_all; cbn [Conv.subs Conv.cq])); try reflexivity.
  - rewrite Hm in *. discriminate.
  - rewrite Conv.cnt_cons in Ha. cbn [Conv.is_add] in Ha. rewrite Nat.eqb_refl in Ha. cbn in Ha. lia.
Qed.

Lemma d_in_refused : forall i f l, ~ In (Conv.INop val upd i) (Conv.refused val upd f l).
Proof.
  intros i f l. unfold Conv.refused. intros H. apply in_map_iff in H as (x & Hx & _). discriminate.
Qed.

Ltac d_in_crush H :=
  repeat match type of H with
  | In _ (_ ++ _) => apply in_app_or in H as [H|H]
  | In _ (_ :: _) => destruct H as [H|H]
  | In _ [] => destruct H
  | In _ (if ?b then _ else _) => destruct b
  end.

Lemma d_eff_qe_back : forall σ a i, In (Conv.INop val upd i) (cqe (cstep σ a)) ->
  In (Conv.INop val upd i) (cqe σ) \/ d_anop i a = true.
Proof.
  intros σ a i. d_conv_destruct σ a; cbn [Conv.qe d_anop]; try (intros; left; assumption).
  all: intros H; d_in_crush H; try discriminate; try (left; assumption); try (left; right; assumption);
       try (injection H as ->; right; apply Nat.eqb_refl); try (exfalso; eapply d_in_refused; eassumption).
  rewrite Eqe in H. destruct H.
Qed.

Lemma d_eff_qe_fwd : forall σ a i, d_arune a = false -> In (Conv.INop val upd i) (cqe σ) ->
  In (Conv.INop val upd i) (cqe (cstep σ a)).
Proof.
  intros σ a i. d_conv_destruct σ a; cbn [Conv.qe d_arune]; try (intros; assumption); try discriminate.
  all: try (intros _ H; apply in_or_app; left; assumption).
  intros _ H. destruct (loaded (csubs σ s0)); [apply in_or_app; left|]; assumption.
Qed.

Lemma d_eff_rune_qe_fwd : forall σ i, In (Conv.INop val upd i) (tl (cqe σ)) ->
  In (Conv.INop val upd i) (cqe (cstep σ (Conv.RunE upd))).
Proof.
  intros σ i. cbn [Conv.step].
  destruct (cqe σ) as [|[u| |v|s1|s1|n1] q] eqn:Eqe; cbn [Conv.qe tl]; [intros []|..].
  all: d_if_all; cbn [Conv.qe]; intros H; try assumption; try (apply in_or_app; left; assumption).
Qed.

Lemma d_eff_rssubs : forall σ a, d_arune a = false -> Conv.rs_subs val upd (cstep σ a) = Conv.rs_subs val upd σ.
Proof.
  intros σ a. d_conv_destruct σ a; cbn [Conv.rs_subs d_arune]; try reflexivity; try discriminate.
Qed.

Lemma d_eff_rune_rssubs : forall σ, Conv.rs_subs val upd σ = [] -> Core.is_add_head val upd σ = false ->
  Conv.rs_subs val upd (cstep σ (Conv.RunE upd)) = [].
Proof.
  intros σ H. unfold Core.is_add_head. cbn [Conv.step].
  destruct (cqe σ) as [|[u| |v|s1|s1|n1] q] eqn:Eqe; cbn [Conv.rs_subs]; try (intros; assumption); try discriminate.
  - d_if_all; cbn [Conv.rs_subs]; intros; assumption.
  - rewrite H. reflexivity.
Qed.


(* ---------- effect of a list of Conv actions ---------- *)
Notation cfold := (fold_left cstep).

Lemma d_fold_gone : forall acts σ j, gone (csubs (cfold acts σ) j) = gone (csubs σ j) || existsb (d_adisp j) acts.
Proof.
  induction acts as [|a acts IH]; intros σ j; cbn [fold_left existsb]; [rewrite orb_false_r; reflexivity|].
  rewrite IH. destruct (d_eff_static σ a j) as [-> _]. rewrite orb_assoc. reflexivity.
Qed.
Lemma d_fold_subscribed : forall acts σ j,
  subscribed (csubs (cfold acts σ) j) = subscribed (csubs σ j) || existsb (d_asubs j) acts.
Proof.
  induction acts as [|a acts IH]; intros σ j; cbn [fold_left existsb]; [rewrite orb_false_r; reflexivity|].
  rewrite IH. destruct (d_eff_static σ a j) as [_ ->]. rewrite orb_assoc. reflexivity.
Qed.
Lemma d_fold_loaded : forall acts σ j, existsb (d_arunc j) acts = false ->
  loaded (csubs (cfold acts σ) j) = true -> loaded (csubs σ j) = true.
Proof.
  induction acts as [|a acts IH]; intros σ j; cbn [fold_left existsb]; [auto|].
  intros H. apply orb_false_elim in H as [H1 H2]. intros H. eapply d_eff_loaded; [exact H1|]. eapply IH; eassumption.
Qed.
Lemma d_fold_cq : forall acts σ j, existsb (d_arunc j) acts = false -> existsb d_arune acts = false ->
  ccq (csubs (cfold acts σ) j) = ccq (csubs σ j).
Proof.
  induction acts as [|a acts IH]; intros σ j; cbn [fold_left existsb]; [auto|].
  intros H H'. apply orb_false_elim in H as [H1 H2]. apply orb_false_elim in H' as [H1' H2'].
  rewrite IH by assumption. apply d_eff_cq; assumption.
Qed.
Lemma d_fold_qe_back : forall acts σ i, In (Conv.INop val upd i) (cqe (cfold acts σ)) ->
  In (Conv.INop val upd i) (cqe σ) \/ existsb (d_anop i) acts = true.
Proof.
  induction acts as [|a acts IH]; intros σ i; cbn [fold_left existsb]; [auto|].
  intros H. apply IH in H as [H|H]; [|right; rewrite H; apply orb_true_r].
  apply d_eff_qe_back in H as [H|H]; [left; assumption|right; rewrite H; reflexivity].
Qed.
Lemma d_fold_qe_fwd : forall acts σ i, existsb d_arune acts = false -> In (Conv.INop val upd i) (cqe σ) ->
  In (Conv.INop val upd i) (cqe (cfold acts σ)).
Proof.
  induction acts as [|a acts IH]; intros σ i; cbn [fold_left existsb]; [auto|].
  intros H. apply orb_false_elim in H as [H1 H2]. intros H. apply IH; [assumption|]. apply d_eff_qe_fwd; assumption.
Qed.
Lemma d_fold_rssubs : forall acts σ, existsb d_arune acts = false ->
  Conv.rs_subs val upd (cfold acts σ) = Conv.rs_subs val upd σ.
Proof.
  induction acts as [|a acts IH]; intros σ; cbn [fold_left existsb]; [auto|].
  intros H. apply orb_false_elim in H as [H1 H2]. rewrite IH by assumption. apply d_eff_rssubs; assumption.
Qed.
Lemma d_fold_inv : forall acts σ, CInv σ -> CInv (cfold acts σ).
Proof.
  induction acts as [|a acts IH]; intros σ H; cbn [fold_left]; [exact H|].
  apply IH. apply Conv.step_inv; assumption.
Qed.

Lemma d_arune_true : forall a, d_arune a = true -> a = Conv.RunE upd.
Proof. destruct a; cbn; intros; try discriminate; reflexivity. Qed.
Lemma d_fold_cq_unsub : forall acts σ j, CInv σ -> subscribed (csubs σ j) = false ->
  existsb (d_asubs j) acts = false -> existsb (d_arunc j) acts = false ->
  ccq (csubs (cfold acts σ) j) = ccq (csubs σ j).
Proof.
  induction acts as [|a acts IH]; intros σ j HI Hs; cbn [fold_left existsb]; [auto|].
  intros H H'. apply orb_false_elim in H as [H1 H2]. apply orb_false_elim in H' as [H1' H2'].
  rewrite IH; try assumption.
  - destruct (d_arune a) eqn:Ea.
    + apply d_arune_true in Ea. subst a. apply d_eff_rune_cq_unsub; assumption.
    + apply d_eff_cq; assumption.
  - apply Conv.step_inv; assumption.
  - destruct (d_eff_static σ a j) as [_ ->]. rewrite Hs, H1. reflexivity.
Qed.

Lemma d_existsb_map_false : forall (A B : Type) (f : B -> bool) (g : A -> B) l,
  (forall x, f (g x) = false) -> existsb f (map g l) = false.
Proof. intros A B f g l H. induction l as [|x l IH]; cbn; [reflexivity|]. rewrite H, IH. reflexivity. Qed.

Lemma d_respond_acts_cases : forall i x ids,
  Core.respond_acts val upd i x ids = [] \/ exists n, Core.respond_acts val upd i x ids = [Conv.Respond upd i n].
Proof.
  intros i x ids. unfold Core.respond_acts. destruct ids; [left; reflexivity|].
  destruct (Conv.sent val upd x); [left; reflexivity|right; eexists; reflexivity].
Qed.

(* ---------- plumbing ---------- *)
Lemma d_exec_snoc : forall t ops o, exec t (ops ++ [o]) = Core.exec1 val upd app norm (exec t ops) o.
Proof. intros t ops o. unfold Core.exec. rewrite fold_left_app. reflexivity. Qed.

Lemma d_exec_snoc' : forall t ops o,
  fst (exec t (ops ++ [o])) = fst (step (fst (exec t ops)) o) /\
  snd (exec t (ops ++ [o])) = snd (exec t ops) ++ snd (step (fst (exec t ops)) o).
Proof.
  intros t ops o. rewrite d_exec_snoc. destruct (exec t ops) as [s outs]. cbn [Core.exec1 fst snd].
  destruct (step s o) as [s' o']. split; reflexivity.
Qed.

Lemma d_step_cv : forall s o, cv (fst (step s o)) = fold_left cstep (acts_of s o) (cv s).
Proof.
  intros s o. destruct o; cbn [Core.step Core.acts_of].
  1-3: destruct (Core.disc (conns s c)); reflexivity.
  1: destruct (Nat.ltb i (next s) && Core.unanswered (insts s i)); reflexivity.
  1-4: reflexivity.
  destruct (Core.cqueue (conns s c)) as [|[id|id k|i|i|] q]; [reflexivity| | | | |reflexivity].
  - destruct (Core.cur (conns s c)) as [i|]; [|reflexivity].
    destruct (Core.acc (insts s i)) as [[|]|]; try reflexivity.
    destruct (Core.is_live val upd (cv s) i); reflexivity.
  - destruct (Core.cur (conns s c)) as [i|].
    + destruct (Nat.eqb_spec k 0) as [->|Hk]; [reflexivity|].
      assert (E : Nat.leb 1 k = true) by (apply Nat.leb_le; lia). rewrite E. cbn [andb].
      destruct (Nat.leb k (Core.direct (conns s c))); cbn [andb]; [|reflexivity].
      destruct (Nat.eqb (Core.direct (conns s c) - k) 0); reflexivity.
    + destruct (Nat.eqb k 0); reflexivity.
  - destruct (Core.is_gone val upd (cv s) i); [reflexivity|].
    destruct (Core.ans (insts s i)) as [[|]|]; try reflexivity.
    destruct (Core.is_live val upd (cv s) i); reflexivity.
  - reflexivity.
Qed.

Lemma d_step_inv : forall s o, CInv (cv s) -> CInv (cv (fst (step s o))).
Proof. intros s o H. rewrite d_step_cv. apply d_fold_inv, H. Qed.

Lemma d_exec_inv : forall t ops, CInv (cv (fst (exec t ops))).
Proof.
  intros t ops. induction ops as [|o ops IH] using rev_ind.
  - cbn. apply Conv.init_inv.
  - destruct (d_exec_snoc' t ops o) as [-> _]. apply d_step_inv, IH.
Qed.

(* ---------- case analysis of one step ---------- *)
Notation cur := Core.cur.
Notation cqueue := Core.cqueue.
Notation direct := Core.direct.
Notation disc := Core.disc.
Notation owner := Core.owner.
Notation acb := Core.acb.
Notation rcb := Core.rcb.
Notation acc := Core.acc.
Notation ans := Core.ans.
Notation lost := Core.lost.
Notation mqsub := (Core.mqsub val upd).
Notation getreq := (Core.getreq val upd).
Notation INop := (Conv.INop val upd).

Ltac d_step_cases s o :=
  destruct o as [c id|c id k|c|i g| |u| | |c]; cbn [Core.step Core.acts_of];
  [ destruct (Core.disc (conns s c)) eqn:Edisc
  | destruct (Core.disc (conns s c)) eqn:Edisc
  | destruct (Core.disc (conns s c)) eqn:Edisc
  | destruct (Nat.ltb i (next s) && Core.unanswered (insts s i)) eqn:Eun
  | destruct (getreq s && negb (Conv.answered val upd (cv s))) eqn:Eget
  | destruct (mqsub s) eqn:Emq
  | destruct (mqsub s) eqn:Emq
  |
  | destruct (Core.cqueue (conns s c)) as [|[id|id k|i|i|] q] eqn:Eq;
    [ | destruct (Core.cur (conns s c)) as [i|] eqn:Ecur;
        [ destruct (Core.acc (insts s i)) as [[|]|] eqn:Eacc;
          [ destruct (Core.is_live val upd (cv s) i) eqn:Elive;
            [ let Era := fresh "Era" in let n := fresh "n" in
              destruct (d_respond_acts_cases i (csubs (cv s) i) [id]) as [Era|[n Era]]; rewrite Era | ] | | ] | ]
      | destruct (Core.cur (conns s c)) as [i|] eqn:Ecur;
        [ destruct (Nat.eqb_spec k 0) as [Hk|Hk];
          [ subst k; cbn [Nat.leb andb]
          | replace (Nat.leb 1 k) with true by (symmetry; apply Nat.leb_le; lia); cbn [andb];
            destruct (Nat.leb k (Core.direct (conns s c))) eqn:Ele; cbn [andb];
            [ destruct (Nat.eqb (Core.direct (conns s c) - k) 0) eqn:Ez | ] ]
        | ]
      | destruct (Core.is_gone val upd (cv s) i) eqn:Egone;
        [ | destruct (Core.ans (insts s i)) as [[|]|] eqn:Eans;
            [ destruct (Core.is_live val upd (cv s) i) eqn:Elive;
              [ let Era := fresh "Era" in let n := fresh "n" in
                destruct (d_respond_acts_cases i (csubs (cv s) i) (Core.acb (insts s i))) as [Era|[n Era]]; rewrite Era | ]
            | destruct (Nat.eqb (Core.direct (conns s c) - length (Core.acb (insts s i))) 0) eqn:Eleft | ] ]
      | destruct (negb (Core.is_live val upd (cv s) i) && Core.is_live val upd (cstep (cv s) (Conv.RunC upd i)) i) eqn:Ewl;
        [ let Era := fresh "Era" in let n := fresh "n" in
          destruct (d_respond_acts_cases i (csubs (cstep (cv s) (Conv.RunC upd i)) i) (Core.rcb (insts s i))) as [Era|[n Era]];
          rewrite Era | ]
      | destruct (Core.cur (conns s c)) as [i|] eqn:Ecur ] ];
  cbn [fst snd].


Ltac d_proj := cbn [Core.cv Core.conns Core.insts Core.next Core.mqsub Core.getreq
                    Core.cqueue Core.cur Core.direct Core.disc Core.owner Core.acb Core.rcb Core.acc Core.ans Core.lost
                    Core.with_q Core.with_cbs Core.push_q].
Ltac d_projH H := cbn [Core.cv Core.conns Core.insts Core.next Core.mqsub Core.getreq
                    Core.cqueue Core.cur Core.direct Core.disc Core.owner Core.acb Core.rcb Core.acc Core.ans Core.lost
                    Core.with_q Core.with_cbs Core.push_q] in H.
Ltac d_eqb :=
  repeat match goal with
  | |- context [Nat.eqb ?a ?b] =>
      let He := fresh "Heq" in let Hn := fresh "Hne" in destruct (Nat.eqb_spec a b) as [He|Hn]; [first [subst a|subst b|idtac]|]
  | H : context [Nat.eqb ?a ?b] |- _ =>
      let He := fresh "Heq" in let Hn := fresh "Hne" in destruct (Nat.eqb_spec a b) as [He|Hn]; [first [subst a|subst b|idtac]|]
  end.



(* ---------- fan-out, pass-through, instances of a connection ---------- *)
Definition d_fanl (σ σ' : cst) (own : nat -> nat) (l : list nat) (f : nat -> Core.conn) : nat -> Core.conn :=
  fold_left (fun g i => if Core.grew val upd σ σ' i then Core.set_conn g (own i) (Core.push_q (g (own i)) (Core.QSub i)) else g) l f.

Lemma d_fanl_spec : forall σ σ' own l f c,
  cqueue (d_fanl σ σ' own l f c) =
    cqueue (f c) ++ map Core.QSub (filter (fun i => Core.grew val upd σ σ' i && Nat.eqb (own i) c) l) /\
  cur (d_fanl σ σ' own l f c) = cur (f c) /\ direct (d_fanl σ σ' own l f c) = direct (f c) /\
  disc (d_fanl σ σ' own l f c) = disc (f c).
Proof.
  intros σ σ' own l. induction l as [|i l IH]; intros f c.
  - cbn. rewrite app_nil_r. auto.
  - unfold d_fanl in *. cbn [fold_left filter].
    destruct (Core.grew val upd σ σ' i) eqn:Eg; cbn [andb].
    + destruct (IH (Core.set_conn f (own i) (Core.push_q (f (own i)) (Core.QSub i))) c) as (A & B & C & D).
      rewrite A, B, C, D. unfold Core.set_conn. rewrite (Nat.eqb_sym (own i) c).
      destruct (Nat.eqb_spec c (own i)) as [->|Hne]; cbn [Core.push_q Core.with_q Core.cqueue Core.cur Core.direct Core.disc map].
      * rewrite <- app_assoc. auto.
      * auto.
    + apply IH.
Qed.

Lemma d_fan_spec : forall σ σ' own n f c,
  cqueue (Core.fan val upd σ σ' own n f c) =
    cqueue (f c) ++ map Core.QSub (filter (fun i => Core.grew val upd σ σ' i && Nat.eqb (own i) c) (seq 0 n)) /\
  cur (Core.fan val upd σ σ' own n f c) = cur (f c) /\ direct (Core.fan val upd σ σ' own n f c) = direct (f c) /\
  disc (Core.fan val upd σ σ' own n f c) = disc (f c).
Proof. intros. apply (d_fanl_spec σ σ' own (seq 0 n) f c). Qed.

Definition d_passq (σ : cst) (own : nat -> nat) (c : nat) : list Core.qitem :=
  match Core.nop_head val upd σ with
  | Some i => if Core.is_closed val upd σ i then [] else if Nat.eqb (own i) c then [Core.QAccess i] else []
  | None => []
  end.
Lemma d_pass_spec : forall σ own f c,
  cqueue (Core.pass val upd σ own f c) = cqueue (f c) ++ d_passq σ own c /\
  cur (Core.pass val upd σ own f c) = cur (f c) /\ direct (Core.pass val upd σ own f c) = direct (f c) /\
  disc (Core.pass val upd σ own f c) = disc (f c).
Proof.
  intros σ own f c. unfold Core.pass, d_passq. destruct (Core.nop_head val upd σ) as [i|]; [|rewrite app_nil_r; auto].
  destruct (Core.is_closed val upd σ i); [rewrite app_nil_r; auto|].
  unfold Core.set_conn. rewrite (Nat.eqb_sym (own i) c).
  destruct (Nat.eqb_spec c (own i)) as [->|Hne]; cbn [Core.push_q Core.with_q Core.cqueue Core.cur Core.direct Core.disc];
    [|rewrite app_nil_r]; auto.
Qed.

(* the queue of a connection after a cache-worker grant *)
Definition d_esq (s : st) (σ' : cst) (c : nat) : list Core.qitem :=
  map Core.QSub (filter (fun i => Core.grew val upd (cv s) σ' i && Nat.eqb (owner (insts s i)) c) (seq 0 (next s)))
  ++ d_passq (cv s) (fun i => owner (insts s i)) c.
Lemma d_es_conn : forall s σ' c,
  let x := Core.pass val upd (cv s) (fun i => owner (insts s i))
             (Core.fan val upd (cv s) σ' (fun i => owner (insts s i)) (next s) (conns s)) c in
  cqueue x = cqueue (conns s c) ++ d_esq s σ' c /\ cur x = cur (conns s c) /\ direct x = direct (conns s c) /\
  disc x = disc (conns s c).
Proof.
  intros s σ' c x. unfold x.
  destruct (d_pass_spec (cv s) (fun i => owner (insts s i))
             (Core.fan val upd (cv s) σ' (fun i => owner (insts s i)) (next s) (conns s)) c) as (A & B & C & D).
  destruct (d_fan_spec (cv s) σ' (fun i => owner (insts s i)) (next s) (conns s) c) as (A' & B' & C' & D').
  rewrite A, B, C, D, A', B', C', D'. unfold d_esq. rewrite app_assoc. auto.
Qed.

Lemma d_in_esq_sub : forall s σ' c i, In (Core.QSub i) (d_esq s σ' c) ->
  i < next s /\ owner (insts s i) = c /\ Core.grew val upd (cv s) σ' i = true.
Proof.
  intros s σ' c i H. unfold d_esq in H. apply in_app_or in H as [H|H].
  - apply in_map_iff in H as (j & E & H). injection E as ->. apply filter_In in H as [H1 H2].
    apply in_seq in H1. apply andb_prop in H2 as [H2 H3]. apply Nat.eqb_eq in H3. repeat split; try assumption; lia.
  - unfold d_passq in H. destruct (Core.nop_head val upd (cv s)) as [j|]; [|destruct H].
    destruct (Core.is_closed val upd (cv s) j); [destruct H|]. destruct (Nat.eqb (owner (insts s j)) c); [|destruct H].
    destruct H as [H|[]]. discriminate.
Qed.
Lemma d_in_esq_acc : forall s σ' c i, In (Core.QAccess i) (d_esq s σ' c) ->
  Core.nop_head val upd (cv s) = Some i /\ owner (insts s i) = c.
Proof.
  intros s σ' c i H. unfold d_esq in H. apply in_app_or in H as [H|H].
  - apply in_map_iff in H as (j & E & H). discriminate.
  - unfold d_passq in H. destruct (Core.nop_head val upd (cv s)) as [j|]; [|destruct H].
    destruct (Core.is_closed val upd (cv s) j); [destruct H|]. destruct (Nat.eqb_spec (owner (insts s j)) c); [|destruct H].
    destruct H as [H|[]]. injection H as ->. auto.
Qed.
Lemma d_in_esq_other : forall s σ' c x, In x (d_esq s σ' c) -> exists i, x = Core.QSub i \/ x = Core.QAccess i.
Proof.
  intros s σ' c x H. unfold d_esq in H. apply in_app_or in H as [H|H].
  - apply in_map_iff in H as (j & E & H). exists j. left. auto.
  - unfold d_passq in H. destruct (Core.nop_head val upd (cv s)) as [j|]; [|destruct H].
    destruct (Core.is_closed val upd (cv s) j); [destruct H|]. destruct (Nat.eqb (owner (insts s j)) c); [|destruct H].
    destruct H as [H|[]]. exists j. right. auto.
Qed.
Lemma d_nop_head_in : forall σ i, Core.nop_head val upd σ = Some i -> exists q, cqe σ = INop i :: q.
Proof.
  intros σ i. unfold Core.nop_head. destruct (cqe σ) as [|[] q]; try discriminate. intros H. injection H as ->. eauto.
Qed.

Lemma d_insts_of_in : forall s c j, In j (Core.insts_of val upd s c) <-> j < next s /\ owner (insts s j) = c.
Proof.
  intros s c j. unfold Core.insts_of. rewrite filter_In, in_seq, Nat.eqb_eq. split; intros [A B]; split; auto; lia.
Qed.
Lemma d_disp_map : forall j l, existsb (d_adisp j) (map (fun i => Conv.Dispose upd i true) l) = Conv.mem j l.
Proof.
  intros j l. unfold Conv.mem. induction l as [|i l IH]; cbn; [reflexivity|]. rewrite IH, (Nat.eqb_sym i j). reflexivity.
Qed.
Lemma d_mem_false_iff : forall j l, Conv.mem j l = false <-> ~ In j l.
Proof.
  intros j l. rewrite <- Conv.mem_In. destruct (Conv.mem j l); split; intros; try discriminate; try reflexivity; try congruence.
Qed.

(* ---------- frame facts ---------- *)
Lemma d_next_mono : forall s o, next s <= next (fst (step s o)).
Proof. intros s o. d_step_cases s o; d_proj; lia. Qed.

Lemma d_owner_frame : forall s o j, j < next s -> owner (insts (fst (step s o)) j) = owner (insts s j).
Proof.
  intros s o j Hj. d_step_cases s o; d_proj; try reflexivity; unfold Core.set_inst; d_eqb; d_proj; try reflexivity; try lia.
Qed.

(* ---------- structural invariant ---------- *)
Record d_W1 (s : st) : Prop := {
  a_inv : CInv (cv s);
  a_fresh_inst : forall i, next s <= i -> insts s i = Core.inst0;
  a_fresh_sub : forall i, next s <= i ->
    subscribed (csubs (cv s) i) = false /\ ccq (csubs (cv s) i) = [] /\ gone (csubs (cv s) i) = false;
  a_sub : forall i, i < next s -> subscribed (csubs (cv s) i) = true;
  a_cur : forall c i, cur (conns s c) = Some i -> i < next s /\ owner (insts s i) = c /\ gone (csubs (cv s) i) = false;
  a_gone : forall i, i < next s -> cur (conns s (owner (insts s i))) = Some i \/ gone (csubs (cv s) i) = true;
  a_qacc : forall c i, In (Core.QAccess i) (cqueue (conns s c)) -> i < next s /\ owner (insts s i) = c;
  a_qsub : forall c i, In (Core.QSub i) (cqueue (conns s c)) -> i < next s /\ owner (insts s i) = c;
  a_nop : forall i, In (INop i) (cqe (cv s)) -> i < next s;
  a_mqsub : mqsub s = false -> next s = 0
}.

(* facts about the instance a branch works on *)
Ltac d_facts W :=
  try match goal with
  | Ecur : Core.cur (conns ?s ?c) = Some ?i |- _ =>
      let A := fresh "Fcur" in pose proof (a_cur s W c i Ecur) as A; destruct A as (Flt & Fown & Fng)
  end;
  try match goal with
  | Eq : Core.cqueue (conns ?s ?c) = Core.QAccess ?i :: ?q |- _ =>
      let A := fresh "Fqa" in
      assert (A : In (Core.QAccess i) (Core.cqueue (conns s c))) by (rewrite Eq; left; reflexivity);
      apply (a_qacc s W c i) in A; destruct A as (Flt & Fown)
  | Eq : Core.cqueue (conns ?s ?c) = Core.QSub ?i :: ?q |- _ =>
      let A := fresh "Fqs" in
      assert (A : In (Core.QSub i) (Core.cqueue (conns s c))) by (rewrite Eq; left; reflexivity);
      apply (a_qsub s W c i) in A; destruct A as (Flt & Fown)
  end;
  try match goal with
  | Eun : Nat.ltb ?i (next ?s) && _ = true |- _ =>
      let A := fresh in pose proof Eun as A; apply andb_prop in A; destruct A as (Flt & Fun); apply Nat.ltb_lt in Flt
  end.

Ltac d_acts := cbn [existsb d_adisp d_asubs d_arunc d_arune d_anop]; rewrite ?d_existsb_map_false by reflexivity;
               rewrite ?orb_false_r.

Lemma d_w1_fresh_inst : forall s o, d_W1 s -> forall i, next (fst (step s o)) <= i -> insts (fst (step s o)) i = Core.inst0.
Proof.
  intros s o W. pose proof (a_fresh_inst s W) as F.
  d_step_cases s o; try exact F; d_facts W; intros j Hj; d_proj; d_projH Hj; unfold Core.set_inst; d_eqb; try (apply F; lia); try lia.
Qed.

Lemma d_w1_fresh_sub : forall s o, d_W1 s -> forall j, next (fst (step s o)) <= j ->
  subscribed (csubs (cv (fst (step s o))) j) = false /\ ccq (csubs (cv (fst (step s o))) j) = [] /\
  gone (csubs (cv (fst (step s o))) j) = false.
Proof.
  intros s o W. pose proof (a_fresh_sub s W) as F. pose proof (a_inv s W) as HI.
  d_step_cases s o; try exact F; d_facts W; intros j Hj; d_proj; d_projH Hj.
  all: (destruct (F j) as (Fs & Fc & Fg); [lia|]);
       (split; [rewrite d_fold_subscribed, Fs; d_acts; d_eqb; try reflexivity; try lia
               |split; [rewrite d_fold_cq_unsub; try assumption; d_acts; d_eqb; try reflexivity; try lia
                       |rewrite d_fold_gone, Fg; d_acts; d_eqb; try reflexivity; try lia]]).
  all: rewrite d_disp_map; apply d_mem_false_iff; rewrite d_insts_of_in; lia.
Qed.

Lemma d_w1_sub : forall s o, d_W1 s -> forall j, j < next (fst (step s o)) -> subscribed (csubs (cv (fst (step s o))) j) = true.
Proof.
  intros s o W. pose proof (a_sub s W) as F.
  d_step_cases s o; try exact F; intros j Hj; d_proj; d_projH Hj; rewrite d_fold_subscribed.
  all: try (rewrite F by lia; reflexivity).
  d_acts. d_eqb; [apply orb_true_r|]. rewrite F by lia. reflexivity.
Qed.

Ltac d_es_look c' :=
  match goal with
  | |- context [Core.pass val upd (cv ?s) ?own (Core.fan val upd (cv ?s) ?σ' ?own (next ?s) (conns ?s)) c'] =>
      let Q := fresh "Qes" in let C := fresh "Ces" in let D := fresh "Des" in let E := fresh "Ees" in
      destruct (d_es_conn s σ' c') as (Q & C & D & E); cbv zeta in Q, C, D, E; rewrite ?Q, ?C, ?D, ?E
  end.
Ltac d_es_lookH H c' :=
  match type of H with
  | context [Core.pass val upd (cv ?s) ?own (Core.fan val upd (cv ?s) ?σ' ?own (next ?s) (conns ?s)) c'] =>
      let Q := fresh "Qes" in let C := fresh "Ces" in let D := fresh "Des" in let E := fresh "Ees" in
      destruct (d_es_conn s σ' c') as (Q & C & D & E); cbv zeta in Q, C, D, E; rewrite ?Q, ?C, ?D, ?E in H
  end.

Lemma d_w1_cur : forall s o, d_W1 s -> forall c' i', cur (conns (fst (step s o)) c') = Some i' ->
  i' < next (fst (step s o)) /\ owner (insts (fst (step s o)) i') = c' /\ gone (csubs (cv (fst (step s o))) i') = false.
Proof.
  intros s o W c' i'. pose proof (a_cur s W) as F.
  d_step_cases s o; try (apply F); d_facts W; d_proj; intros Hc; try d_es_lookH Hc c'.
  all: unfold Core.set_conn in Hc; d_eqb; d_projH Hc; try discriminate;
       try (rewrite Ecur in Hc); try discriminate; try (injection Hc as <-);
       try (destruct (F _ _ Hc) as (A & B & C)).
  all: (split; [try lia|split; [unfold Core.set_inst; d_eqb; d_proj; try congruence; try lia
                         |rewrite d_fold_gone; d_acts; rewrite ?d_disp_map; d_eqb; rewrite ?orb_false_r; try congruence]]).
  - apply (a_fresh_sub s W). lia.
  - rewrite C. apply d_mem_false_iff. rewrite d_insts_of_in. intros [_ X]. congruence.
  - rewrite C. apply d_mem_false_iff. rewrite d_insts_of_in. intros [_ X]. congruence.
Qed.

Lemma d_w1_gone : forall s o, d_W1 s -> forall j, j < next (fst (step s o)) ->
  cur (conns (fst (step s o)) (owner (insts (fst (step s o)) j))) = Some j \/ gone (csubs (cv (fst (step s o))) j) = true.
Proof.
  intros s o W j Hj. pose proof (a_gone s W) as F.
  destruct (Nat.lt_ge_cases j (next s)) as [Hlt|Hge].
  - rewrite (d_owner_frame s o j Hlt). revert Hj.
    d_step_cases s o; try (intros _; apply F; assumption); d_facts W; d_proj; intros _; try d_es_look (owner (insts s j)).
    all: destruct (F j Hlt) as [Fc|Fg]; [|right; rewrite d_fold_gone, Fg; reflexivity].
    all: try (left; exact Fc).
    all: destruct (Nat.eq_dec (owner (insts s j)) c) as [Hoc|Hoc];
         [|left; unfold Core.set_conn; destruct (Nat.eqb_spec (owner (insts s j)) c); [contradiction|exact Fc]].
    all: rewrite Hoc in *; unfold Core.set_conn; rewrite Nat.eqb_refl; d_proj; try (left; exact Fc).
    all: try (rewrite Fc in Ecur; try discriminate; injection Ecur as <-).
    all: try (left; reflexivity).
    all: try (right; rewrite d_fold_gone; d_acts; rewrite ?d_disp_map, ?Nat.eqb_refl; apply orb_true_r).
    + right. destruct (F i Flt) as [Fi|Fi]; [|unfold Core.is_gone in Egone; congruence].
      rewrite Fown, Fc in Fi. injection Fi as <-. rewrite d_fold_gone. d_acts. rewrite Nat.eqb_refl. apply orb_true_r.
    + right. rewrite d_fold_gone, d_disp_map. replace (Conv.mem j (Core.insts_of val upd s c)) with true; [apply orb_true_r|].
      symmetry. apply Conv.mem_In. apply d_insts_of_in. auto.
  - revert Hj. d_step_cases s o; d_proj; try lia.
    intros Hj. assert (j = next s) by lia. subst j. left. unfold Core.set_inst, Core.set_conn. d_proj. rewrite !Nat.eqb_refl. d_proj.
    rewrite ?Nat.eqb_refl. reflexivity.
Qed.

(* where the items of a connection queue come from *)
Lemma d_queue_new : forall s o c' x, In x (cqueue (conns (fst (step s o)) c')) ->
  In x (cqueue (conns s c')) \/
  match o with
  | Core.CSub _ c id => x = Core.QReq id /\ c' = c /\ disc (conns s c) = false
  | Core.CUnsub _ c id k => x = Core.QUnsub id k /\ c' = c /\ disc (conns s c) = false
  | Core.Disc _ c => x = Core.QDispose /\ c' = c /\ disc (conns s c) = false
  | Core.GrantEs _ => In x (d_esq s (cfold [Conv.RunE upd] (cv s)) c')
  | _ => False
  end.
Proof.
  intros s o c' x. d_step_cases s o; d_proj; try (intros H; left; exact H); try d_es_look c'.
  all: unfold Core.set_conn; d_eqb; d_proj; try (intros H; left; exact H).
  all: try (rewrite Eq; intros H; left; right; exact H).
  all: intros H; apply in_app_or in H as [H|H]; [left; exact H|right]; try exact H.
  all: destruct H as [<-|[]]; auto.
Qed.

Lemma d_w1_qacc : forall s o, d_W1 s -> forall c' i', In (Core.QAccess i') (cqueue (conns (fst (step s o)) c')) ->
  i' < next (fst (step s o)) /\ owner (insts (fst (step s o)) i') = c'.
Proof.
  intros s o W c' i' H.
  assert (K : i' < next s /\ owner (insts s i') = c').
  { apply d_queue_new in H as [H|H]; [apply (a_qacc s W); exact H|].
    destruct o; try contradiction; try (destruct H as (H & _); discriminate).
    apply d_in_esq_acc in H as [H1 H2]. split; [|exact H2].
    apply d_nop_head_in in H1 as [q Hq]. apply (a_nop s W). rewrite Hq. left. reflexivity. }
  destruct K as [K1 K2]. pose proof (d_next_mono s o). rewrite d_owner_frame by assumption. split; [lia|assumption].
Qed.

Lemma d_w1_qsub : forall s o, d_W1 s -> forall c' i', In (Core.QSub i') (cqueue (conns (fst (step s o)) c')) ->
  i' < next (fst (step s o)) /\ owner (insts (fst (step s o)) i') = c'.
Proof.
  intros s o W c' i' H.
  assert (K : i' < next s /\ owner (insts s i') = c').
  { apply d_queue_new in H as [H|H]; [apply (a_qsub s W); exact H|].
    destruct o; try contradiction; try (destruct H as (H & _); discriminate).
    apply d_in_esq_sub in H as (H1 & H2 & _). auto. }
  destruct K as [K1 K2]. pose proof (d_next_mono s o). rewrite d_owner_frame by assumption. split; [lia|assumption].
Qed.

Lemma d_w1_nop : forall s o, d_W1 s -> forall j, In (INop j) (cqe (cv (fst (step s o)))) -> j < next (fst (step s o)).
Proof.
  intros s o W j H. pose proof (d_next_mono s o) as M. rewrite d_step_cv in H. apply d_fold_qe_back in H as [H|H].
  - apply (a_nop s W) in H. lia.
  - revert H M. d_step_cases s o; d_facts W; d_proj; d_acts; rewrite ?d_existsb_map_false by reflexivity; try discriminate.
    intros H _. apply Nat.eqb_eq in H. subst. exact Flt.
Qed.

Lemma d_w1_mqsub : forall s o, d_W1 s -> mqsub (fst (step s o)) = false -> next (fst (step s o)) = 0.
Proof.
  intros s o W. pose proof (a_mqsub s W) as F. d_step_cases s o; d_proj; try exact F; try discriminate.
Qed.

Lemma d_w1_step : forall s o, d_W1 s -> d_W1 (fst (step s o)).
Proof.
  intros s o W. constructor.
  - apply d_step_inv, (a_inv s W).
  - apply d_w1_fresh_inst, W.
  - apply d_w1_fresh_sub, W.
  - apply d_w1_sub, W.
  - apply d_w1_cur, W.
  - apply d_w1_gone, W.
  - apply d_w1_qacc, W.
  - apply d_w1_qsub, W.
  - apply d_w1_nop, W.
  - apply d_w1_mqsub, W.
Qed.

Lemma d_w1_init : forall t, d_W1 (Core.init val upd d t).
Proof.
  intros t. constructor; cbn; intros; try discriminate; try contradiction; try lia; auto.
  apply Conv.init_inv.
Qed.

Lemma d_w1_exec : forall t ops, d_W1 (fst (exec t ops)).
Proof.
  intros t ops. induction ops as [|o ops IH] using rev_ind.
  - apply d_w1_init.
  - destruct (d_exec_snoc' t ops o) as [-> _]. apply d_w1_step, IH.
Qed.

(* ---------- callbacks and verdicts ---------- *)
Lemma d_set_conn_eq : forall f c x, Core.set_conn f c x c = x.
Proof. intros. unfold Core.set_conn. rewrite Nat.eqb_refl. reflexivity. Qed.
Lemma d_set_conn_neq : forall f c x c', c' <> c -> Core.set_conn f c x c' = f c'.
Proof. intros f c x c' H. unfold Core.set_conn. apply Nat.eqb_neq in H. rewrite H. reflexivity. Qed.
Lemma d_set_inst_eq : forall f i x, Core.set_inst f i x i = x.
Proof. intros. unfold Core.set_inst. rewrite Nat.eqb_refl. reflexivity. Qed.
Lemma d_set_inst_neq : forall f i x i', i' <> i -> Core.set_inst f i x i' = f i'.
Proof. intros f i x i' H. unfold Core.set_inst. apply Nat.eqb_neq in H. rewrite H. reflexivity. Qed.

Record d_W3 (s : st) : Prop := {
  c_accans : forall i, acc (insts s i) = Some true -> ans (insts s i) = Some true;
  c_rcb : forall i, rcb (insts s i) <> [] -> acc (insts s i) = Some true /\ loaded (csubs (cv s) i) = false;
  c_acb : forall i, acc (insts s i) = Some true -> acb (insts s i) = [];
  c_D : forall c i, cur (conns s c) = Some i -> acc (insts s i) <> Some true -> direct (conns s c) <= length (acb (insts s i));
  c_E : forall c i, cur (conns s c) = Some i -> acc (insts s i) <> Some false;
  c_H : forall c i, cur (conns s c) = Some i -> ans (insts s i) <> None -> acc (insts s i) = None ->
          In (INop i) (cqe (cv s)) \/ In (Core.QAccess i) (cqueue (conns s c))
}.

Lemma d_w3_accans : forall s o, d_W1 s -> d_W3 s -> forall j,
  acc (insts (fst (step s o)) j) = Some true -> ans (insts (fst (step s o)) j) = Some true.
Proof.
  intros s o W V j. pose proof (c_accans s V) as F.
  d_step_cases s o; try apply F; d_facts W; d_proj; unfold Core.set_inst; d_eqb; d_proj; try apply F; try congruence.
  - intros H. apply F in H. unfold Core.unanswered in Fun. rewrite H in Fun. discriminate.
  - intros _. apply F. exact Eacc.
Qed.

Lemma d_w3_acb : forall s o, d_W1 s -> d_W3 s -> forall j,
  acc (insts (fst (step s o)) j) = Some true -> acb (insts (fst (step s o)) j) = [].
Proof.
  intros s o W V j. pose proof (c_acb s V) as F.
  d_step_cases s o; try apply F; d_facts W; d_proj; unfold Core.set_inst; d_eqb; d_proj; try apply F; try congruence.
  intros _. apply F. exact Eacc.
Qed.

Lemma d_not_loaded_fold : forall acts σ j, existsb (d_arunc j) acts = false ->
  loaded (csubs σ j) = false -> loaded (csubs (cfold acts σ) j) = false.
Proof.
  intros acts σ j H H0. destruct (loaded (csubs (cfold acts σ) j)) eqn:E; [|reflexivity].
  apply d_fold_loaded in E; [congruence|assumption].
Qed.

Lemma d_w3_rcb : forall s o, d_W1 s -> d_W3 s -> forall j,
  rcb (insts (fst (step s o)) j) <> [] ->
  acc (insts (fst (step s o)) j) = Some true /\ loaded (csubs (cv (fst (step s o))) j) = false.
Proof.
  intros s o W V j. pose proof (c_rcb s V) as F.
  d_step_cases s o; try apply F; d_facts W; d_proj; unfold Core.set_inst; d_eqb; d_proj; try congruence.
  all: try (intros H; destruct (F _ H) as [A B]; split; [exact A|]; apply d_not_loaded_fold; [solve [d_acts; d_eqb; try reflexivity; congruence]|exact B]).
  all: try (intros H; exfalso; apply H; reflexivity).
  all: try (intros H; destruct (F _ H) as [A B]; unfold Core.is_live in *; congruence).
  all: try (intros _; split; [reflexivity|cbn [fold_left]; exact Elive]).
  - intros H. destruct (F _ H) as [A B]. apply (c_accans s V) in A. congruence.
  - intros H. destruct (F _ H) as [A B]. split; [exact A|].
    destruct (Nat.eq_dec j i) as [->|Hji].
    + cbn [fold_left]. unfold Core.is_live in Ewl. rewrite B in Ewl. cbn [negb andb] in Ewl. exact Ewl.
    + apply d_not_loaded_fold; [|exact B]. d_acts. apply Nat.eqb_neq. congruence.
Qed.

Lemma d_live_cur : forall s i, d_W1 s -> i < next s -> gone (csubs (cv s) i) = false ->
  cur (conns s (owner (insts s i))) = Some i.
Proof. intros s i W Hlt Hg. destruct (a_gone s W i Hlt) as [H|H]; [exact H|congruence]. Qed.

Lemma d_denied_left : forall s c i q, d_W1 s -> d_W3 s -> cqueue (conns s c) = Core.QAccess i :: q ->
  Core.is_gone val upd (cv s) i = false -> ans (insts s i) = Some false ->
  cur (conns s c) = Some i /\ Nat.eqb (direct (conns s c) - length (acb (insts s i))) 0 = true /\ rcb (insts s i) = [].
Proof.
  intros s c i q W V Eq Eg Ea.
  assert (A : In (Core.QAccess i) (cqueue (conns s c))) by (rewrite Eq; left; reflexivity).
  apply (a_qacc s W) in A as [Flt Fown]. pose proof (d_live_cur s i W Flt Eg) as Hc. rewrite Fown in Hc.
  assert (Hacc : acc (insts s i) <> Some true).
  { intros H. apply (c_accans s V) in H. congruence. }
  split; [exact Hc|]. split.
  - apply Nat.eqb_eq. pose proof (c_D s V c i Hc Hacc). lia.
  - destruct (rcb (insts s i)) eqn:E; [reflexivity|]. exfalso. apply Hacc. apply (c_rcb s V). rewrite E. discriminate.
Qed.

Ltac d_kill_left W V :=
  try match goal with
  | Eleft : Nat.eqb (direct (conns ?s ?c) - length (acb (insts ?s ?i))) 0 = false,
    Eq : cqueue (conns ?s ?c) = Core.QAccess ?i :: ?q, Egone : _, Eans : _ |- _ =>
      exfalso; destruct (d_denied_left s c i q W V Eq Egone Eans) as (_ & Hkl & _); congruence
  end.

(* in a branch working on connection c: another connection c' and its current instance are untouched *)
Ltac d_other W Hc Hcc :=
  rewrite ?(d_set_conn_neq _ _ _ _ Hcc) in Hc; rewrite ?(d_set_conn_neq _ _ _ _ Hcc);
  let A1 := fresh "Ao" in let A2 := fresh "Ao" in let A3 := fresh "Ao" in
  pose proof (a_cur _ W _ _ Hc) as (A1 & A2 & A3);
  try (rewrite d_set_inst_neq by (first [congruence | lia])).

Lemma d_w3_D : forall s o, d_W1 s -> d_W3 s -> forall c' i', cur (conns (fst (step s o)) c') = Some i' ->
  acc (insts (fst (step s o)) i') <> Some true ->
  direct (conns (fst (step s o)) c') <= length (acb (insts (fst (step s o)) i')).
Proof.
  intros s o W V c' i'. pose proof (c_D s V) as F.
  d_step_cases s o; try apply F; d_kill_left W V; d_facts W; d_proj; try d_es_look c'; try apply F.
  all: try solve [unfold Core.set_inst; d_eqb; d_proj; apply F].
  all: intros Hc; destruct (Nat.eq_dec c' c) as [->|Hcc]; [|d_other W Hc Hcc; try (apply F; exact Hc)].
  all: rewrite ?d_set_conn_eq in Hc; rewrite ?d_set_conn_eq; d_projH Hc; d_proj; try discriminate; try (rewrite Ecur in Hc; injection Hc as <-).
  all: try (injection Hc as <-).
  all: rewrite ?d_set_inst_eq; d_proj; rewrite ?app_length; cbn [length]; try congruence.
  all: try (intros Hac; specialize (F _ _ Ecur); rewrite ?Eacc in F; specialize (F Hac); lia).
  all: try (apply F; exact Hc).
  all: try (intros; lia).
  all: destruct (Nat.eq_dec i' i) as [->|Hii]; [rewrite !d_set_inst_eq | rewrite !d_set_inst_neq by assumption; apply F; exact Hc].
  all: d_proj; try congruence.
  all: apply F; exact Hc.
Qed.

Lemma d_w3_E : forall s o, d_W1 s -> d_W3 s -> forall c' i', cur (conns (fst (step s o)) c') = Some i' ->
  acc (insts (fst (step s o)) i') <> Some false.
Proof.
  intros s o W V c' i'. pose proof (c_E s V) as F.
  d_step_cases s o; try apply F; d_kill_left W V; d_facts W; d_proj; try d_es_look c'; try apply F.
  all: try solve [unfold Core.set_inst; d_eqb; d_proj; apply F].
  all: intros Hc; destruct (Nat.eq_dec c' c) as [->|Hcc]; [|d_other W Hc Hcc; try (apply (F _ _ Hc))].
  all: rewrite ?d_set_conn_eq in Hc; rewrite ?d_set_conn_eq; d_projH Hc; d_proj; try discriminate; try (rewrite Ecur in Hc; injection Hc as <-).
  all: try (injection Hc as <-).
  all: rewrite ?d_set_inst_eq; d_proj; try congruence.
  all: try (apply (F _ _ Ecur)).
  all: try (apply (F _ _ Hc)).
  all: try (destruct (Nat.eq_dec i' i) as [->|Hii]; [rewrite !d_set_inst_eq | rewrite !d_set_inst_neq by assumption; apply (F _ _ Hc)]).
  all: d_proj; try congruence.
  all: try (apply (F _ _ Hc)).
  exfalso; apply (F _ _ Ecur); exact Eacc.
Qed.

Lemma d_queue_keep : forall s o c' x, In x (cqueue (conns s c')) ->
  In x (cqueue (conns (fst (step s o)) c')) \/ (o = Core.GrantConn upd c' /\ exists q, cqueue (conns s c') = x :: q).
Proof.
  intros s o c' x. d_step_cases s o; d_proj; try (intros H; left; exact H); try d_es_look c'.
  all: try (intros H; left; apply in_or_app; left; exact H).
  all: unfold Core.set_conn; d_eqb; d_proj; try (intros H; left; exact H).
  all: try (intros H; left; apply in_or_app; left; exact H).
  all: rewrite Eq; intros [H|H]; [right; split; [reflexivity|]; subst x; eauto|left; exact H].
Qed.

Lemma d_qe_keep : forall s o j, d_W1 s -> In (INop j) (cqe (cv s)) ->
  In (INop j) (cqe (cv (fst (step s o)))) \/ (o = Core.GrantEs upd /\ Core.nop_head val upd (cv s) = Some j).
Proof.
  intros s o j W H. rewrite d_step_cv.
  destruct (existsb d_arune (acts_of s o)) eqn:E; [|left; apply d_fold_qe_fwd; assumption].
  revert E. d_step_cases s o; d_acts; rewrite ?d_existsb_map_false by reflexivity; try discriminate; intros _.
  - apply (a_nop s W) in H. rewrite (a_mqsub s W Emq) in H. lia.
  - apply (a_nop s W) in H. rewrite (a_mqsub s W Emq) in H. lia.
  - cbn [fold_left]. unfold Core.nop_head. destruct (cqe (cv s)) as [|h q] eqn:Eq; [destruct H|].
    destruct H as [H|H].
    + subst h. right. auto.
    + left. apply d_eff_rune_qe_fwd. rewrite Eq. exact H.
Qed.

Lemma d_H_old : forall s o c' i', d_W1 s -> d_W3 s -> cur (conns (fst (step s o)) c') = Some i' ->
  ans (insts (fst (step s o)) i') <> None -> acc (insts (fst (step s o)) i') = None ->
  cur (conns s c') = Some i' /\ acc (insts s i') = None /\
  (ans (insts s i') <> None \/ ((exists g, o = Core.MqAccess upd i' g) /\ In (INop i') (cqe (cv (fst (step s o)))))).
Proof.
  intros s o c' i' W V.
  d_step_cases s o; try (intros; auto; fail); d_kill_left W V; d_facts W; d_proj; try d_es_look c'; try (intros; auto; fail).
  all: intros Hc.
  all: try solve [ (* MqAccess *) unfold Core.set_inst; destruct (Nat.eqb_spec i' i) as [->|Hii]; d_proj; [|auto];
    intros _ Hn; split; [exact Hc|]; split; [exact Hn|]; right; split; [eauto|]; cbn [fold_left Conv.step Conv.qe];
    apply in_or_app; right; left; reflexivity ].
  all: destruct (Nat.eq_dec c' c) as [->|Hcc]; [|d_other W Hc Hcc; auto].
  all: rewrite ?d_set_conn_eq in Hc; d_projH Hc; try discriminate; try (rewrite Ecur in Hc; injection Hc as <-).
  all: try (injection Hc as <-).
  all: rewrite ?d_set_inst_eq; d_proj; try congruence; auto.
  all: try (destruct (Nat.eq_dec i' i) as [->|Hii]; [rewrite !d_set_inst_eq | rewrite !d_set_inst_neq by assumption; auto]).
  all: d_proj; try congruence; auto.
Qed.

Lemma d_access_handled : forall s c i q, d_W1 s -> d_W3 s -> cqueue (conns s c) = Core.QAccess i :: q ->
  gone (csubs (cv s) i) = false -> ans (insts s i) <> None ->
  acc (insts (fst (step s (Core.GrantConn upd c))) i) <> None.
Proof.
  intros s c i q W V Eq0 Hg Ha. cbn [Core.step Core.acts_of]. rewrite Eq0. unfold Core.is_gone. rewrite Hg.
  destruct (ans (insts s i)) as [[|]|] eqn:Eans; [| |congruence].
  - destruct (Core.is_live val upd (cv s) i); cbn [fst Core.insts]; rewrite d_set_inst_eq; d_proj; discriminate.
  - cbn [fst Core.insts]; rewrite d_set_inst_eq; d_proj; discriminate.
Qed.

Lemma d_es_queue : forall s c', 
  cqueue (conns (fst (step s (Core.GrantEs upd))) c') = cqueue (conns s c') ++ d_esq s (cfold [Conv.RunE upd] (cv s)) c'.
Proof. intros s c'. cbn [Core.step Core.acts_of fst Core.conns]. d_es_look c'. reflexivity. Qed.

Lemma d_w3_H : forall s o, d_W1 s -> d_W3 s -> forall c' i', cur (conns (fst (step s o)) c') = Some i' ->
  ans (insts (fst (step s o)) i') <> None -> acc (insts (fst (step s o)) i') = None ->
  In (INop i') (cqe (cv (fst (step s o)))) \/ In (Core.QAccess i') (cqueue (conns (fst (step s o)) c')).
Proof.
  intros s o W V c' i' Hc Ha Hn.
  destruct (d_H_old s o c' i' W V Hc Ha Hn) as (Hc0 & Hn0 & [Ha0|[_ X]]); [|left; exact X].
  destruct (a_cur s W c' i' Hc0) as (Flt & Fown & Fng).
  destruct (c_H s V c' i' Hc0 Ha0 Hn0) as [X|X].
  - destruct (d_qe_keep s o i' W X) as [Y|[-> Y]]; [left; exact Y|]. right.
    rewrite d_es_queue. apply in_or_app. right. unfold d_esq. apply in_or_app. right. unfold d_passq. rewrite Y.
    unfold Core.is_closed. destruct (closed (csubs (cv s) i')) eqn:Ecl.
    + apply (Conv.icg _ _ _ _ (a_inv s W)) in Ecl. congruence.
    + rewrite Fown, Nat.eqb_refl. left. reflexivity.
  - destruct (d_queue_keep s o c' _ X) as [Y|[-> [q Y]]]; [right; exact Y|]. exfalso.
    apply (d_access_handled s c' i' q W V Y Fng Ha0). exact Hn.
Qed.

Lemma d_w3_step : forall s o, d_W1 s -> d_W3 s -> d_W3 (fst (step s o)).
Proof.
  intros s o W V. constructor.
  - apply d_w3_accans; assumption.
  - apply d_w3_rcb; assumption.
  - apply d_w3_acb; assumption.
  - apply d_w3_D; assumption.
  - apply d_w3_E; assumption.
  - apply d_w3_H; assumption.
Qed.

Lemma d_w3_init : forall t, d_W3 (Core.init val upd d t).
Proof. intros t. constructor; cbn; intros; try discriminate; try contradiction; try congruence. Qed.

Lemma d_w3_exec : forall t ops, d_W3 (fst (exec t ops)).
Proof.
  intros t ops. induction ops as [|o ops IH] using rev_ind.
  - apply d_w3_init.
  - destruct (d_exec_snoc' t ops o) as [-> _]. apply d_w3_step; [apply d_w1_exec|exact IH].
Qed.

(* ---------- E: data only after a grant ---------- *)
Notation has_data := (Core.has_data val upd).
Notation respond_ids := (Core.respond_ids val upd app).
Notation replay_o := (Core.replay_o val upd app).
Notation proc_o := (Core.proc_o val upd app).

Lemma d_hd_proc : forall c c0 p e o', In o' (snd (proc_o c0 p e)) -> has_data c o' = false.
Proof.
  intros c c0 [ver v] e o'. unfold Core.proc_o. destruct (Nat.eqb ver (Conv.e_ver upd e)); [|intros []].
  destruct (Conv.e_upd upd e); cbn; intros [<-|[]]; reflexivity.
Qed.
Lemma d_hd_replay : forall c c0 l p o', In o' (replay_o c0 p l) -> has_data c o' = false.
Proof.
  intros c c0 l. induction l as [|e l IH]; intros p o'; cbn [Core.replay_o]; [intros []|].
  destruct (proc_o c0 p e) as [p' oo] eqn:E. intros H. apply in_app_or in H as [H|H].
  - apply (d_hd_proc c c0 p e). rewrite E. exact H.
  - eapply IH. exact H.
Qed.
Lemma d_hd_respond : forall c c0 x ids o', In o' (respond_ids c0 x ids) -> has_data c o' = true -> c0 = c /\ ids <> [].
Proof.
  intros c c0 x ids o'. unfold Core.respond_ids. destruct ids as [|id r]; [intros []|].
  intros H Hd. split; [|discriminate]. apply in_app_or in H as [H|H].
  - destruct (Conv.sent val upd x).
    + destruct H as [<-|[]]. discriminate.
    + destruct H as [<-|H]; [cbn in Hd; apply Nat.eqb_eq; exact Hd|].
      rewrite (d_hd_replay c c0 _ _ _ H) in Hd. discriminate.
  - apply in_map_iff in H as (id' & <- & _). discriminate.
Qed.

Lemma d_ans_keep : forall s o j b, j < next s -> ans (insts s j) = Some b -> ans (insts (fst (step s o)) j) = Some b.
Proof.
  intros s o j b Hj. d_step_cases s o; d_proj; try (intros H; exact H); unfold Core.set_inst; d_eqb; d_proj; try (intros H; exact H);
    try lia.
  intros H. apply andb_prop in Eun as [_ Eun]. unfold Core.unanswered in Eun. rewrite H in Eun. discriminate.
Qed.
Lemma d_ans_new : forall s o j b, ans (insts (fst (step s o)) j) = Some b ->
  ans (insts s j) = Some b \/ o = Core.MqAccess upd j b.
Proof.
  intros s o j b. d_step_cases s o; d_proj; try (intros H; left; exact H); unfold Core.set_inst; d_eqb; d_proj;
    try (intros H; left; exact H); try discriminate.
  intros H. injection H as ->. right. reflexivity.
Qed.
Lemma d_ans_hist : forall t ops j g, ans (insts (fst (exec t ops)) j) = Some g -> In (Core.MqAccess upd j g) ops.
Proof.
  intros t ops. induction ops as [|o ops IH] using rev_ind; intros j g.
  - cbn. discriminate.
  - destruct (d_exec_snoc' t ops o) as [-> _]. intros H. apply d_ans_new in H as [H|H]; apply in_or_app.
    + left. apply IH. exact H.
    + right. left. exact H.
Qed.

Definition d_granted (s : st) (c : nat) : Prop :=
  exists i, i < next s /\ owner (insts s i) = c /\ ans (insts s i) = Some true.
Lemma d_granted_keep : forall s o c, d_granted s c -> d_granted (fst (step s o)) c.
Proof.
  intros s o c (i & A & B & C). exists i. pose proof (d_next_mono s o). split; [lia|]. split.
  - rewrite d_owner_frame by assumption. exact B.
  - apply d_ans_keep; assumption.
Qed.

Definition d_evout (c0 : nat) (y : Conv.sub val upd) : list (Core.out val upd) :=
  match ccq y with
  | Conv.CEvent _ e :: _ =>
      if loaded y && negb (Conv.flag val upd y) then snd (proc_o c0 (Conv.sver val upd y, Conv.sval val upd y) e) else []
  | _ => []
  end.
Lemma d_hd_ev : forall c c0 y x, In x (d_evout c0 y) -> has_data c x = false.
Proof.
  intros c c0 y x. unfold d_evout. destruct (ccq y) as [|[|e] r]; try (intros []).
  destruct (loaded y && negb (Conv.flag val upd y)); [|intros []]. apply d_hd_proc.
Qed.

Lemma d_data_step : forall s o c' x, d_W1 s -> d_W3 s -> In x (snd (step s o)) -> has_data c' x = true -> d_granted s c'.
Proof.
  intros s o c' x W V.
  d_step_cases s o; try solve [intros []]; d_kill_left W V; d_facts W.
  all: try solve [intros [<-|[]]; discriminate].
  { destruct (Core.is_add_head val upd (cv s) && negb (getreq s)); [intros [<-|[]]; discriminate|intros []]. }
  { intros H Hd. destruct (d_hd_respond _ _ _ _ _ H Hd) as [<- _]. exists i. repeat split; try assumption. apply (c_accans s V). exact Eacc. }
  { intros H Hd. destruct (d_hd_respond _ _ _ _ _ H Hd) as [<- _]. exists i. repeat split; try assumption. apply (c_accans s V). exact Eacc. }
  { intros H. apply in_app_or in H as [H|[<-|[]]]; [|discriminate]. destruct (mqsub s); [destruct H|destruct H as [<-|[]]; discriminate]. }
  { intros H Hd. destruct (d_hd_respond _ _ _ _ _ H Hd) as [<- _]. exists i. repeat split; assumption. }
  { intros H Hd. destruct (d_hd_respond _ _ _ _ _ H Hd) as [<- _]. exists i. repeat split; assumption. }
  { intros H. apply in_map_iff in H as (id' & <- & _). discriminate. }
  all: change (In x (d_evout c (csubs (cv s) i) ++ ?r) -> ?G) with (In x (d_evout c (csubs (cv s) i) ++ r) -> G).
  all: intros H Hd; apply in_app_or in H as [H|H]; [rewrite (d_hd_ev _ _ _ _ H) in Hd; discriminate|]; try (destruct H).
  all: destruct (d_hd_respond _ _ _ _ _ H Hd) as [<- Hr]; exists i; repeat split; try assumption.
  all: apply (c_accans s V); apply (c_rcb s V); exact Hr.
Qed.

Theorem core_data_needs_grant : forall t ops c o,
  let s := fst (exec t ops) in let outs := snd (exec t ops) in
  In o outs -> Core.has_data val upd c o = true ->
  exists i, i < Core.next val upd s /\ Core.owner (insts s i) = c /\ Core.ans (insts s i) = Some true /\ In (Core.MqAccess upd i true) ops.
Proof.
  intros t ops c o s outs Hin Hd.
  assert (G : d_granted s c).
  { subst s outs. revert Hin. induction ops as [|o1 ops IH] using rev_ind.
    - cbn. intros [].
    - destruct (d_exec_snoc' t ops o1) as [-> ->]. intros H. apply in_app_or in H as [H|H].
      + apply d_granted_keep. apply IH. exact H.
      + apply d_granted_keep. eapply d_data_step; [apply d_w1_exec|apply d_w3_exec|exact H|exact Hd]. }
  destruct G as (i & A & B & C). exists i. repeat split; try assumption. eapply d_ans_hist. exact C.
Qed.

(* ---------- D: nothing is dropped without unsubscribe requests and disconnects ---------- *)
Definition d_isbad (x : Core.qitem) : bool := match x with Core.QUnsub _ _ | Core.QDispose => true | _ => false end.
Definition d_quiet_op (o : Core.op upd) : Prop := match o with Core.CUnsub _ _ _ _ | Core.Disc _ _ => False | _ => True end.
Definition d_nolost (s : st) : Prop :=
  (forall c x, In x (cqueue (conns s c)) -> d_isbad x = false) /\ (forall j, lost (insts s j) = []).

Lemma d_nolost_step : forall s o, d_W1 s -> d_W3 s -> d_quiet_op o -> d_nolost s -> d_nolost (fst (step s o)).
Proof.
  intros s o W V Hq [P1 P2]. split.
  - intros c' x H. apply d_queue_new in H as [H|H]; [apply (P1 _ _ H)|].
    destruct o; try contradiction; try (destruct H as (-> & _); reflexivity).
    apply d_in_esq_other in H as [j [->| ->]]; reflexivity.
  - intros j. revert Hq. d_step_cases s o; try (intros _; apply P2); try contradiction; d_kill_left W V; intros _; d_proj.
    all: try (assert (Hb : d_isbad (Core.QUnsub id k) = false) by (apply (P1 c); rewrite Eq; left; reflexivity); discriminate).
    all: try (assert (Hb : d_isbad Core.QDispose = false) by (apply (P1 c); rewrite Eq; left; reflexivity); discriminate).
    all: unfold Core.set_inst; d_eqb; d_proj; try apply P2.
    all: try reflexivity.
    all: rewrite P2; destruct (d_denied_left s c i q W V Eq Egone Eans) as (_ & _ & ->); reflexivity.
Qed.

Theorem core_nothing_dropped_without_unsubscribe : forall t ops c,
  (forall o, In o ops -> match o with Core.CUnsub _ _ _ _ | Core.Disc _ _ => False | _ => True end) ->
  Core.dropped val upd (fst (exec t ops)) c = [].
Proof.
  intros t ops c H.
  assert (N : d_nolost (fst (exec t ops))).
  { induction ops as [|o ops IH] using rev_ind.
    - split; cbn; intros; [contradiction|reflexivity].
    - destruct (d_exec_snoc' t ops o) as [-> _]. apply d_nolost_step.
      + apply d_w1_exec.
      + apply d_w3_exec.
      + apply (H o). apply in_or_app. right. left. reflexivity.
      + apply IH. intros o' Ho'. apply H. apply in_or_app. left. exact Ho'. }
  destruct N as [_ N]. unfold Core.dropped. induction (Core.insts_of val upd (fst (exec t ops)) c) as [|i l IH]; [reflexivity|].
  cbn [flat_map]. rewrite N, IH. reflexivity.
Qed.

Theorem core_every_request_answered_refuted :
  exists ops : list (Core.op nat),
    let s := fst (Core.exec nat nat (fun u v => u + v) (fun u v => Some u) 0 0 ops) in
    let outs := snd (Core.exec nat nat (fun u v => u + v) (fun u v => Some u) 0 0 ops) in
    NoDup (Core.reqs nat 0 ops) /\ Core.reqs nat 0 ops = [1; 2] /\ Core.resps nat nat 0 outs = [2] /\
    Core.dropped nat nat s 0 = [1] /\ Core.cqueue (Core.conns nat nat s 0) = [] /\ Conv.qe nat nat (Core.cv nat nat s) = [] /\
    Core.disc (Core.conns nat nat s 0) = false.
Proof.
  exists [Core.CSub nat 0 1; Core.GrantConn nat 0; Core.CUnsub nat 0 2 1; Core.GrantConn nat 0; Core.GrantEs nat; Core.MqGet nat;
          Core.GrantEs nat; Core.GrantConn nat 0; Core.GrantEs nat; Core.MqAccess nat 0 true; Core.GrantEs nat; Core.GrantConn nat 0].
  vm_compute. repeat split.
  repeat constructor; cbn; intuition discriminate.
Qed.

(* ---------- connection queues and the subscribers' task queues; disposal tasks ---------- *)
Definition d_isqsub (j : nat) (x : Core.qitem) : bool := match x with Core.QSub i => Nat.eqb i j | _ => false end.
Definition d_isdisp (x : Core.qitem) : bool := match x with Core.QDispose => true | _ => false end.
Definition d_istask (x : Core.qitem) : bool := match x with Core.QAccess _ | Core.QSub _ => true | _ => false end.
Fixpoint d_okq (q : list Core.qitem) : bool :=
  match q with
  | [] => true
  | Core.QDispose :: r => forallb d_istask r
  | _ :: r => d_okq r
  end.

Lemma d_okq_tasks : forall q, forallb d_istask q = true -> d_okq q = true.
Proof. induction q as [|[] q IH]; cbn; intros H; try reflexivity; try discriminate; apply IH; exact H. Qed.
Lemma d_okq_tl : forall h q, d_okq (h :: q) = true -> d_okq q = true.
Proof. intros [] q; cbn; intros H; try exact H. apply d_okq_tasks. exact H. Qed.
Lemma d_okq_app_tasks : forall q l, d_okq q = true -> forallb d_istask l = true -> d_okq (q ++ l) = true.
Proof.
  induction q as [|h q IH]; intros l H Hl; cbn [List.app]; [apply d_okq_tasks; exact Hl|].
  destruct h; cbn [d_okq] in *; try (apply IH; assumption).
  rewrite forallb_app, H, Hl. reflexivity.
Qed.
Lemma d_okq_app_any : forall q x, existsb d_isdisp q = false -> d_okq (q ++ [x]) = true.
Proof.
  induction q as [|h q IH]; intros x H; cbn [List.app].
  - destruct x; reflexivity.
  - cbn [existsb] in H. apply orb_false_elim in H as [H1 H2]. destruct h; cbn [d_okq]; try (apply IH; exact H2). discriminate.
Qed.
Lemma d_esq_tasks : forall s σ' c, forallb d_istask (d_esq s σ' c) = true.
Proof.
  intros s σ' c. apply forallb_forall. intros x H. apply d_in_esq_other in H as [j [->| ->]]; reflexivity.
Qed.

Lemma d_cnt_qsub_seq : forall j (P : nat -> bool) n,
  Conv.cnt (d_isqsub j) (map Core.QSub (filter P (seq 0 n))) = if Nat.ltb j n && P j then 1 else 0.
Proof.
  intros j P n. induction n as [|n IH]; [reflexivity|].
  rewrite seq_S, filter_app, map_app, Conv.cnt_app, IH. cbn [plus filter].
  destruct (Nat.ltb_spec j n) as [H|H]; destruct (Nat.ltb_spec j (S n)) as [H'|H']; try lia; cbn [andb].
  - destruct (P n); cbn; [|lia]. destruct (Nat.eqb_spec n j); [lia|]. cbn. lia.
  - assert (j = n) by lia. subst j. destruct (P n); cbn; [|reflexivity]. rewrite Nat.eqb_refl. reflexivity.
  - destruct (P n); cbn; [|reflexivity]. destruct (Nat.eqb_spec n j); [lia|]. reflexivity.
Qed.
Lemma d_cnt_esq : forall s σ' j, j < next s ->
  Conv.cnt (d_isqsub j) (d_esq s σ' (owner (insts s j))) = if Core.grew val upd (cv s) σ' j then 1 else 0.
Proof.
  intros s σ' j Hj. unfold d_esq. rewrite Conv.cnt_app, d_cnt_qsub_seq.
  assert (E : Nat.ltb j (next s) = true) by (apply Nat.ltb_lt; exact Hj). rewrite E, Nat.eqb_refl, andb_true_r. cbn [andb].
  assert (Z : Conv.cnt (d_isqsub j) (d_passq (cv s) (fun i => owner (insts s i)) (owner (insts s j))) = 0).
  { unfold d_passq. destruct (Core.nop_head val upd (cv s)); [|reflexivity].
    destruct (Core.is_closed val upd (cv s) n); [reflexivity|]. destruct (Nat.eqb (owner (insts s n)) (owner (insts s j))); reflexivity. }
  rewrite Z. lia.
Qed.
Lemma d_grew_rune : forall σ j,
  length (ccq (csubs (cstep σ (Conv.RunE upd)) j)) =
  length (ccq (csubs σ j)) + (if Core.grew val upd σ (cstep σ (Conv.RunE upd)) j then 1 else 0).
Proof.
  intros σ j. unfold Core.grew. destruct (d_eff_rune_cq σ j) as [E|[x E]]; rewrite E.
  - rewrite Nat.ltb_irrefl. lia.
  - rewrite app_length. cbn [length]. destruct (Nat.ltb_spec (length (ccq (csubs σ j))) (length (ccq (csubs σ j)) + 1)); lia.
Qed.
Lemma d_length_tl : forall (A : Type) (l : list A), length (tl l) = length l - 1.
Proof. intros A [|a l]; cbn; lia. Qed.

Record d_W2 (s : st) : Prop := {
  b_cq : forall j, j < next s -> Conv.cnt (d_isqsub j) (cqueue (conns s (owner (insts s j)))) = length (ccq (csubs (cv s) j));
  b_getreq : getreq s = false -> Conv.rs_subs val upd (cv s) = [];
  b_disc : forall c, disc (conns s c) = false -> existsb d_isdisp (cqueue (conns s c)) = false;
  b_okq : forall c, d_okq (cqueue (conns s c)) = true
}.

Lemma d_cnt_snoc_other : forall j q x, d_isqsub j x = false -> Conv.cnt (d_isqsub j) (q ++ [x]) = Conv.cnt (d_isqsub j) q.
Proof. intros j q x H. rewrite Conv.cnt_app, Conv.cnt_cons, H. cbn. lia. Qed.

Lemma d_w2_cq : forall s o, d_W1 s -> d_W2 s -> forall j, j < next (fst (step s o)) ->
  Conv.cnt (d_isqsub j) (cqueue (conns (fst (step s o)) (owner (insts (fst (step s o)) j)))) =
  length (ccq (csubs (cv (fst (step s o))) j)).
Proof.
  intros s o W U j Hj. pose proof (b_cq s U) as F.
  destruct (Nat.lt_ge_cases j (next s)) as [Hlt|Hge].
  - rewrite (d_owner_frame s o j Hlt). specialize (F j Hlt). revert Hj.
    d_step_cases s o; try (intros _; exact F); d_facts W; d_proj; intros _; try d_es_look (owner (insts s j)).
    all: try (rewrite d_fold_cq by (d_acts; d_eqb; reflexivity)).
    all: try exact F.
    all: try (destruct (Nat.eq_dec (owner (insts s j)) c) as [Hoc|Hoc];
              [rewrite Hoc in *; rewrite d_set_conn_eq; d_proj|rewrite d_set_conn_neq by exact Hoc]).
    all: try exact F.
    all: try (rewrite d_cnt_snoc_other by reflexivity; exact F).
    all: try (rewrite Eq, Conv.cnt_cons in F; cbn [d_isqsub Conv.b2n] in F; exact F).
    all: try (rewrite (a_mqsub s W Emq) in Hlt; lia).
    { rewrite Conv.cnt_app, d_cnt_esq, F by exact Hlt. cbn [fold_left]. rewrite d_grew_rune. reflexivity. }
    all: cbn [fold_left]; rewrite ?d_eff_cq by reflexivity; rewrite d_eff_runc.
    all: try (rewrite Eq, Conv.cnt_cons in F; cbn [d_isqsub] in F; rewrite (Nat.eqb_sym j i);
              destruct (Nat.eqb_spec i j); cbn [Conv.b2n] in F; rewrite ?d_length_tl; lia).
    all: destruct (Nat.eqb_spec j i); [congruence|exact F].
  - revert Hj. d_step_cases s o; d_proj; try lia.
    intros Hj. assert (j = next s) by lia. subst j. rewrite d_set_inst_eq. d_proj. rewrite d_set_conn_eq. d_proj.
    rewrite d_fold_cq by reflexivity. destruct (a_fresh_sub s W (next s)) as (_ & -> & _); [lia|].
    destruct (Conv.cnt (d_isqsub (next s)) q) eqn:E; [reflexivity|]. exfalso.
    assert (In (Core.QSub (next s)) q).
    { clear -E. induction q as [|h q IH]; [discriminate|]. rewrite Conv.cnt_cons in E. destruct h; cbn [d_isqsub] in E; try (right; apply IH; exact E).
      destruct (Nat.eqb_spec i (next s)) as [->|]; [left; reflexivity|right; apply IH; exact E]. }
    assert (X : In (Core.QSub (next s)) (cqueue (conns s c))) by (rewrite Eq; right; assumption).
    apply (a_qsub s W) in X. lia.
Qed.

Lemma d_no_add_head : forall s, d_W1 s -> next s = 0 -> forall x,
  Core.is_add_head val upd (cstep (cv s) x) = true -> d_arune x = true \/ d_asubs 0 x = true \/ exists j, x = Conv.Subscribe upd j.
Proof.
  intros s W Hn x. unfold Core.is_add_head.
  assert (Hno : forall j q, cqe (cv s) <> Conv.IAddSub val upd j :: q).
  { intros j q E. destruct (a_fresh_sub s W j) as (Hs & _); [lia|].
    destruct (d_mem_false (cv s) j (a_inv s W) Hs) as [_ Hc]. rewrite E, Conv.cnt_cons in Hc. cbn [Conv.is_add] in Hc.
    rewrite Nat.eqb_refl in Hc. cbn in Hc. lia. }
  destruct x; cbn [Conv.step d_arune]; auto.
  - cbn [Conv.qe]. destruct (cqe (cv s)) as [|[] q] eqn:E; cbn; try discriminate. exfalso. eapply Hno; reflexivity.
  - cbn [Conv.qe]. destruct (cqe (cv s)) as [|[] q] eqn:E; cbn; try discriminate. exfalso. eapply Hno; reflexivity.
  - destruct (Conv.answered val upd (cv s)); cbn [Conv.qe]; destruct (cqe (cv s)) as [|[] q] eqn:E; cbn; try discriminate;
      exfalso; eapply Hno; reflexivity.
  - cbn [Conv.qe]. destruct (cqe (cv s)) as [|[] q] eqn:E; cbn; try discriminate. exfalso. eapply Hno; reflexivity.
  - intros _. right. right. eauto.
  - destruct (gone (csubs (cv s) s0)); [destruct cl|]; cbn [Conv.qe]; try destruct (loaded (csubs (cv s) s0));
      destruct (cqe (cv s)) as [|[] q] eqn:E; cbn; try discriminate; exfalso; eapply Hno; reflexivity.
  - destruct (ccq (csubs (cv s) s0)) as [|[] r]; try destruct (gone (csubs (cv s) s0)); cbn [Conv.qe];
      destruct (cqe (cv s)) as [|[] q] eqn:E; cbn; try discriminate; exfalso; eapply Hno; reflexivity.
  - destruct (loaded (csubs (cv s) s0) && negb (Conv.sent val upd (csubs (cv s) s0))); cbn [Conv.qe];
      destruct (cqe (cv s)) as [|[] q] eqn:E; cbn; try discriminate; exfalso; eapply Hno; reflexivity.
  - destruct (loaded (csubs (cv s) s0) && Conv.sent val upd (csubs (cv s) s0) && Conv.flag val upd (csubs (cv s) s0)); cbn [Conv.qe];
      destruct (cqe (cv s)) as [|[] q] eqn:E; cbn; try discriminate; exfalso; eapply Hno; reflexivity.
  - destruct (loaded (csubs (cv s) s0) && Conv.sent val upd (csubs (cv s) s0)); cbn [Conv.qe];
      destruct (cqe (cv s)) as [|[] q] eqn:E; cbn; try discriminate; exfalso; eapply Hno; reflexivity.
Qed.

Lemma d_w2_getreq : forall s o, d_W1 s -> d_W2 s -> getreq (fst (step s o)) = false ->
  Conv.rs_subs val upd (cv (fst (step s o))) = [].
Proof.
  intros s o W U. pose proof (b_getreq s U) as F.
  d_step_cases s o; try exact F; d_proj; intros Hg.
  all: try (rewrite d_fold_rssubs by (d_acts; reflexivity); apply F; exact Hg).
  - cbn [fold_left]. apply d_eff_rune_rssubs; [rewrite d_eff_rssubs by reflexivity; apply F; exact Hg|].
    destruct (Core.is_add_head val upd (cstep (cv s) (Conv.SvcUpdate upd u))) eqn:E; [|reflexivity].
    apply (d_no_add_head s W (a_mqsub s W Emq)) in E as [E|[E|[j E]]]; discriminate.
  - cbn [fold_left]. apply d_eff_rune_rssubs; [rewrite d_eff_rssubs by reflexivity; apply F; exact Hg|].
    destruct (Core.is_add_head val upd (cstep (cv s) (Conv.SvcCustom upd))) eqn:E; [|reflexivity].
    apply (d_no_add_head s W (a_mqsub s W Emq)) in E as [E|[E|[j E]]]; discriminate.
  - apply orb_false_elim in Hg as [Hg1 Hg2]. cbn [fold_left]. apply d_eff_rune_rssubs; [apply F; exact Hg1|exact Hg2].
Qed.

Lemma d_disc_mono : forall s o c', disc (conns (fst (step s o)) c') = false -> disc (conns s c') = false.
Proof.
  intros s o c'. d_step_cases s o; d_proj; try (intros H; exact H); try d_es_look c'; try (intros H; exact H).
  all: unfold Core.set_conn; d_eqb; d_proj; try (intros H; exact H); try discriminate.
Qed.

Lemma d_in_isdisp : forall q, existsb d_isdisp q = true -> In Core.QDispose q.
Proof. induction q as [|[] q IH]; cbn; intros H; try discriminate; auto. Qed.

Lemma d_w2_disc : forall s o, d_W2 s -> forall c', disc (conns (fst (step s o)) c') = false ->
  existsb d_isdisp (cqueue (conns (fst (step s o)) c')) = false.
Proof.
  intros s o U c' H. pose proof (d_disc_mono s o c' H) as H0. pose proof (b_disc s U c' H0) as F.
  destruct (existsb d_isdisp (cqueue (conns (fst (step s o)) c'))) eqn:E; [|reflexivity]. exfalso.
  apply d_in_isdisp in E. apply d_queue_new in E as [E|E].
  - assert (X : existsb d_isdisp (cqueue (conns s c')) = true) by (apply existsb_exists; exists Core.QDispose; auto). congruence.
  - destruct o; try contradiction; try (destruct E as (E & _); discriminate).
    + destruct E as (_ & -> & E). revert H. cbn [Core.step]. rewrite E. cbn [fst Core.conns]. rewrite d_set_conn_eq. discriminate.
    + apply d_in_esq_other in E as [j [E|E]]; discriminate.
Qed.

Lemma d_w2_okq : forall s o, d_W2 s -> forall c', d_okq (cqueue (conns (fst (step s o)) c')) = true.
Proof.
  intros s o U c'. pose proof (b_okq s U) as F.
  d_step_cases s o; d_proj; try apply F; try d_es_look c'.
  all: try (apply d_okq_app_tasks; [apply F|apply d_esq_tasks]).
  all: unfold Core.set_conn; d_eqb; d_proj; try apply F.
  all: try (apply d_okq_app_any; apply (b_disc s U); exact Edisc).
  all: specialize (F c); rewrite Eq in F; apply d_okq_tl in F; exact F.
Qed.

Lemma d_w2_step : forall s o, d_W1 s -> d_W2 s -> d_W2 (fst (step s o)).
Proof.
  intros s o W U. constructor.
  - apply d_w2_cq; assumption.
  - apply d_w2_getreq; assumption.
  - apply d_w2_disc; assumption.
  - apply d_w2_okq; assumption.
Qed.
Lemma d_w2_init : forall t, d_W2 (Core.init val upd d t).
Proof. intros t. constructor; cbn; intros; try reflexivity; try lia. Qed.
Lemma d_w2_exec : forall t ops, d_W2 (fst (exec t ops)).
Proof.
  intros t ops. induction ops as [|o ops IH] using rev_ind.
  - apply d_w2_init.
  - destruct (d_exec_snoc' t ops o) as [-> _]. apply d_w2_step; [apply d_w1_exec|exact IH].
Qed.

(* ---------- F: cleanup ---------- *)
Lemma d_quiet_cq : forall s j, d_W1 s -> d_W2 s -> quiescent s -> ccq (csubs (cv s) j) = [].
Proof.
  intros s j W U (_ & Hq & _). destruct (Nat.lt_ge_cases j (next s)) as [Hlt|Hge].
  - pose proof (b_cq s U j Hlt) as H. rewrite Hq in H. cbn in H. destruct (ccq (csubs (cv s) j)); [reflexivity|discriminate].
  - apply (a_fresh_sub s W j Hge).
Qed.
Lemma d_quiet_loaded : forall s, d_W2 s -> CInv (cv s) -> quiescent s -> Conv.rs_subs val upd (cv s) <> [] ->
  Conv.rs_loaded val upd (cv s) = true.
Proof.
  intros s U HI (Hqe & _ & Hg & _) Hne.
  destruct (getreq s) eqn:Eg; [|exfalso; apply Hne; apply (b_getreq s U Eg)].
  pose proof (Conv.i2 _ _ _ _ HI) as H2. rewrite Hqe, (Hg eq_refl) in H2. cbn in H2.
  destruct (Conv.rs_loaded val upd (cv s)); [reflexivity|discriminate].
Qed.

Theorem core_cleanup : forall t ops i,
  let s := fst (exec t ops) in
  quiescent s -> i < Core.next val upd s -> Core.cur (conns s (Core.owner (insts s i))) <> Some i ->
  Conv.mem i (Conv.rs_subs val upd (cv s)) = false /\ Conv.loaded val upd (csubs (cv s) i) = false /\
  Conv.eq val upd (csubs (cv s) i) = [].
Proof.
  intros t ops i s Hq Hlt Hc.
  pose proof (d_w1_exec t ops) as W. pose proof (d_w2_exec t ops) as U. fold s in W, U.
  pose proof (a_inv s W) as HI.
  assert (Hg : gone (csubs (cv s) i) = true) by (destruct (a_gone s W i Hlt) as [H|H]; [contradiction|exact H]).
  pose proof (Conv.igl _ _ _ _ HI i Hg) as Hl.
  split; [|split; [exact Hl|apply (Conv.i7 _ _ _ _ HI); exact Hl]].
  destruct (Conv.mem i (Conv.rs_subs val upd (cv s))) eqn:Em; [|reflexivity]. exfalso.
  assert (Hne : Conv.rs_subs val upd (cv s) <> []).
  { intros E. rewrite E in Em. discriminate. }
  pose proof (d_quiet_loaded s U HI Hq Hne) as Hrl.
  pose proof (Conv.i4 _ _ _ _ HI i) as H4. rewrite (d_quiet_cq s i W U Hq), Hl, Em, Hrl in H4.
  destruct Hq as (Hqe & _). rewrite Hqe in H4. cbn in H4. discriminate.
Qed.

(* ---------- F: nothing for a connection after its disposal task ran ---------- *)
Notation for_conn := (Core.for_conn val upd).
Notation OConnUnsub := (Core.OConnUnsub val upd).

Lemma d_fc_proc : forall c c0 p e x, In x (snd (proc_o c0 p e)) -> for_conn c x = Nat.eqb c0 c.
Proof.
  intros c c0 [ver v] e x. unfold Core.proc_o. destruct (Nat.eqb ver (Conv.e_ver upd e)); [|intros []].
  destruct (Conv.e_upd upd e); cbn; intros [<-|[]]; reflexivity.
Qed.
Lemma d_fc_replay : forall c c0 l p x, In x (replay_o c0 p l) -> for_conn c x = Nat.eqb c0 c.
Proof.
  intros c c0 l. induction l as [|e l IH]; intros p x; cbn [Core.replay_o]; [intros []|].
  destruct (proc_o c0 p e) as [p' oo] eqn:E. intros H. apply in_app_or in H as [H|H].
  - apply (d_fc_proc c c0 p e). rewrite E. exact H.
  - eapply IH. exact H.
Qed.
Lemma d_fc_respond : forall c c0 y ids x, In x (respond_ids c0 y ids) -> for_conn c x = Nat.eqb c0 c.
Proof.
  intros c c0 y ids x. unfold Core.respond_ids. destruct ids as [|id r]; [intros []|].
  intros H. apply in_app_or in H as [H|H].
  - destruct (Conv.sent val upd y).
    + destruct H as [<-|[]]. reflexivity.
    + destruct H as [<-|H]; [reflexivity|]. eapply d_fc_replay. exact H.
  - apply in_map_iff in H as (id' & <- & _). reflexivity.
Qed.
Lemma d_fc_ev : forall c c0 y x, In x (d_evout c0 y) -> for_conn c x = Nat.eqb c0 c.
Proof.
  intros c c0 y x. unfold d_evout. destruct (ccq y) as [|[|e] r]; try (intros []).
  destruct (loaded y && negb (Conv.flag val upd y)); [|intros []]. apply d_fc_proc.
Qed.

(* every frame is tagged with the connection whose worker emitted it *)
Lemma d_tag : forall s o c' x, In x (snd (step s o)) -> for_conn c' x = true -> o = Core.GrantConn upd c'.
Proof.
  intros s o c' x.
  d_step_cases s o; try solve [intros []].
  all: try solve [intros [<-|[]]; cbn [Core.for_conn]; try discriminate; intros H; apply Nat.eqb_eq in H; subst; reflexivity].
  { destruct (Core.is_add_head val upd (cv s) && negb (getreq s)); [intros [<-|[]]; discriminate|intros []]. }
  all: try solve [intros H Hf; rewrite (d_fc_respond _ _ _ _ _ H) in Hf; apply Nat.eqb_eq in Hf; subst; reflexivity].
  { intros H. apply in_app_or in H as [H|[<-|[]]].
    - destruct (mqsub s); [destruct H|destruct H as [<-|[]]; discriminate].
    - cbn [Core.for_conn]. intros H; apply Nat.eqb_eq in H; subst; reflexivity. }
  all: try solve [intros H; apply in_map_iff in H as (id' & <- & _); cbn [Core.for_conn]; intros H; apply Nat.eqb_eq in H; subst; reflexivity].
  all: change (In x (d_evout c (csubs (cv s) i) ++ ?r) -> ?G) with (In x (d_evout c (csubs (cv s) i) ++ r) -> G).
  all: intros H Hf; apply in_app_or in H as [H|H];
       [rewrite (d_fc_ev _ _ _ _ H) in Hf; apply Nat.eqb_eq in Hf; subst; reflexivity|]; try (destruct H).
  all: rewrite (d_fc_respond _ _ _ _ _ H) in Hf; apply Nat.eqb_eq in Hf; subst; reflexivity.
Qed.

Definition d_done (s : st) (c : nat) : Prop :=
  cur (conns s c) = None /\ disc (conns s c) = true /\ forallb d_istask (cqueue (conns s c)) = true /\
  (forall j, j < next s -> owner (insts s j) = c -> gone (csubs (cv s) j) = true).

Lemma d_gone_keep : forall s o j, gone (csubs (cv s) j) = true -> gone (csubs (cv (fst (step s o))) j) = true.
Proof. intros s o j H. rewrite d_step_cv, d_fold_gone, H. reflexivity. Qed.

Lemma d_runc_gone : forall σ j, CInv σ -> gone (csubs σ j) = true -> loaded (csubs (cstep σ (Conv.RunC upd j)) j) = false.
Proof.
  intros σ j HI Hg. apply (Conv.igl _ _ _ _ (Conv.step_inv _ _ _ _ norm_none norm_some σ (Conv.RunC upd j) HI)).
  destruct (d_eff_static σ (Conv.RunC upd j) j) as [-> _]. rewrite Hg. reflexivity.
Qed.

Lemma d_done_quiet : forall s o c' x, d_W1 s -> d_done s c' -> In x (snd (step s o)) -> for_conn c' x = false.
Proof.
  intros s o c' x W (D1 & D2 & D3 & D4) H. destruct (for_conn c' x) eqn:Ef; [|reflexivity]. exfalso.
  pose proof (d_tag s o c' x H Ef) as ->. revert H.
  cbn [Core.step Core.acts_of]. destruct (cqueue (conns s c')) as [|[id|id k|i|i|] q] eqn:Eq; try discriminate; cbn [snd]; try (intros []).
  - assert (A : In (Core.QAccess i) (cqueue (conns s c'))) by (rewrite Eq; left; reflexivity).
    apply (a_qacc s W) in A as [A1 A2]. unfold Core.is_gone. rewrite (D4 i A1 A2). cbn [snd]. intros [].
  - assert (A : In (Core.QSub i) (cqueue (conns s c'))) by (rewrite Eq; left; reflexivity).
    apply (a_qsub s W) in A as [A1 A2]. pose proof (D4 i A1 A2) as Hg.
    pose proof (Conv.igl _ _ _ _ (a_inv s W) i Hg) as Hl. unfold Core.is_live.
    rewrite (d_runc_gone (cv s) i (a_inv s W) Hg), andb_false_r. rewrite Hl. cbn [snd andb].
    destruct (ccq (csubs (cv s) i)) as [|[|e] r]; intros [].
Qed.

Lemma d_done_keep : forall s o c', d_W1 s -> d_done s c' -> d_done (fst (step s o)) c'.
Proof.
  intros s o c' W (D1 & D2 & D3 & D4).
  assert (K : cur (conns (fst (step s o)) c') = None /\ disc (conns (fst (step s o)) c') = true /\
              forallb d_istask (cqueue (conns (fst (step s o)) c')) = true /\
              (forall j, j < next (fst (step s o)) -> owner (insts (fst (step s o)) j) = c' -> j < next s)).
  { d_step_cases s o; d_proj; try (repeat split; auto; fail); try d_es_look c'.
    all: try (split; [exact D1|split; [exact D2|split; [rewrite forallb_app, D3; apply d_esq_tasks|auto]]]).
    all: destruct (Nat.eq_dec c' c) as [->|Hcc];
         [|rewrite !d_set_conn_neq by exact Hcc; split; [exact D1|split; [exact D2|split; [exact D3|]]]].
    all: try congruence.
    all: try (rewrite Eq in D3; cbn in D3; discriminate).
    all: try (intros j Hj; unfold Core.set_inst; d_eqb; d_proj; intros; try congruence; lia).
    all: try (intros; assumption).
    all: rewrite !d_set_conn_eq; d_proj; rewrite Eq in D3; cbn [forallb] in D3; apply andb_prop in D3 as [_ D3].
    all: try (split; [exact D1|split; [exact D2|split; [exact D3|intros; assumption]]]).
    all: split; [reflexivity|split; [exact D2|split; [exact D3|intros; assumption]]]. }
  destruct K as (K1 & K2 & K3 & K4). split; [exact K1|]. split; [exact K2|]. split; [exact K3|].
  intros j Hj Ho. pose proof (K4 j Hj Ho) as Hlt. rewrite d_owner_frame in Ho by exact Hlt.
  apply d_gone_keep. apply D4; assumption.
Qed.

Lemma d_unsub_not_respond : forall c c0 y ids, ~ In (OConnUnsub c) (respond_ids c0 y ids).
Proof.
  intros c c0 y ids H. pose proof (d_fc_respond c c0 y ids _ H) as E. cbn in E.
  unfold Core.respond_ids in H. destruct ids as [|id r]; [destruct H|]. apply in_app_or in H as [H|H].
  - destruct (Conv.sent val upd y); [destruct H as [H|[]]; discriminate|]. destruct H as [H|H]; [discriminate|].
    clear E. revert H. generalize (Conv.sver val upd y, Conv.sval val upd y). induction (Conv.eq val upd y) as [|e l IH]; intros p; cbn [Core.replay_o]; [intros []|].
    destruct (proc_o c0 p e) as [p' oo] eqn:Ep. intros H. apply in_app_or in H as [H|H]; [|eapply IH; exact H].
    destruct p as [ver v]. unfold Core.proc_o in Ep. destruct (Nat.eqb ver (Conv.e_ver upd e)); [destruct (Conv.e_upd upd e)|];
      injection Ep as _ <-; cbn in H; intuition discriminate.
  - apply in_map_iff in H as (id' & E' & _). discriminate.
Qed.
Lemma d_unsub_not_ev : forall c c0 y, ~ In (OConnUnsub c) (d_evout c0 y).
Proof.
  intros c c0 y. unfold d_evout. destruct (ccq y) as [|[|e] r]; try (intros []).
  destruct (loaded y && negb (Conv.flag val upd y)); [|intros []].
  unfold Core.proc_o. destruct (Nat.eqb (Conv.sver val upd y) (Conv.e_ver upd e)); [destruct (Conv.e_upd upd e)|]; cbn; intuition discriminate.
Qed.

Lemma d_done_new : forall s o c', d_W1 s -> d_W2 s -> In (OConnUnsub c') (snd (step s o)) ->
  snd (step s o) = [OConnUnsub c'] /\ d_done (fst (step s o)) c'.
Proof.
  intros s o c' W U.
  d_step_cases s o; try solve [intros []].
  all: try solve [intros [H|[]]; discriminate].
  all: try solve [intros H; exfalso; eapply d_unsub_not_respond; exact H].
  { destruct (Core.is_add_head val upd (cv s) && negb (getreq s)); [intros [H|[]]; discriminate|intros []]. }
  { intros H. apply in_app_or in H as [H|[H|[]]]; [|discriminate]. destruct (mqsub s); [destruct H|destruct H as [H|[]]; discriminate]. }
  all: try solve [intros H; apply in_map_iff in H as (id' & E' & _); discriminate].
  all: try solve [change (In (OConnUnsub c') (d_evout c (csubs (cv s) i) ++ ?r) -> ?G) with (In (OConnUnsub c') (d_evout c (csubs (cv s) i) ++ r) -> G);
       intros H; exfalso; apply in_app_or in H as [H|H]; [eapply d_unsub_not_ev; exact H|]; try (destruct H);
       eapply d_unsub_not_respond; exact H].
  all: intros [H|[]]; injection H as ->; (split; [reflexivity|]).
  all: pose proof (b_okq s U c') as Ok; rewrite Eq in Ok; cbn [d_okq] in Ok.
  all: assert (Hd : disc (conns s c') = true) by
         (destruct (disc (conns s c')) eqn:E; [reflexivity|]; pose proof (b_disc s U c' E) as X; rewrite Eq in X; discriminate).
  all: d_proj; unfold d_done; d_proj; rewrite d_set_conn_eq; d_proj; (split; [reflexivity|split; [exact Hd|split; [exact Ok|]]]).
  all: intros j Hj Ho; rewrite d_fold_gone, d_disp_map.
  all: replace (Conv.mem j (Core.insts_of val upd s c')) with true; [apply orb_true_r|].
  all: symmetry; apply Conv.mem_In; apply d_insts_of_in; split; [exact Hj|].
  all: revert Ho; unfold Core.set_inst; d_eqb; d_proj; auto.
Qed.

Lemma d_app_split : forall (A : Type) (l1 l2 pre post : list A) (x : A), l1 ++ l2 = pre ++ x :: post ->
  (exists post1, l1 = pre ++ x :: post1 /\ post = post1 ++ l2) \/ (exists pre2, pre = l1 ++ pre2 /\ l2 = pre2 ++ x :: post).
Proof.
  intros A l1. induction l1 as [|a l1 IH]; intros l2 pre post x H.
  - right. exists pre. split; [reflexivity|exact H].
  - destruct pre as [|b pre]; cbn [List.app] in H.
    + injection H as -> H. left. exists l1. split; [reflexivity|symmetry; exact H].
    + injection H as -> H. apply IH in H as [(post1 & -> & ->)|(pre2 & -> & ->)].
      * left. exists post1. split; reflexivity.
      * right. exists pre2. split; reflexivity.
Qed.

Theorem core_nothing_after_close : forall t ops c pre post,
  snd (exec t ops) = pre ++ Core.OConnUnsub val upd c :: post ->
  forall o, In o post -> Core.for_conn val upd c o = false.
Proof.
  intros t ops c.
  assert (K : forall pre post, snd (exec t ops) = pre ++ OConnUnsub c :: post ->
                (forall o, In o post -> for_conn c o = false) /\ d_done (fst (exec t ops)) c).
  { induction ops as [|o1 ops IH] using rev_ind; intros pre post.
    - cbn. intros H. destruct pre; discriminate.
    - destruct (d_exec_snoc' t ops o1) as [-> ->]. intros H. pose proof (d_w1_exec t ops) as W. pose proof (d_w2_exec t ops) as U.
      apply d_app_split in H as [(post1 & H & ->)|(pre2 & -> & H)].
      + destruct (IH _ _ H) as [I1 I2]. split; [|apply d_done_keep; assumption].
        intros o Ho. apply in_app_or in Ho as [Ho|Ho]; [apply I1; exact Ho|]. eapply d_done_quiet; eassumption.
      + assert (X : In (OConnUnsub c) (snd (step (fst (exec t ops)) o1))) by (rewrite H; apply in_or_app; right; left; reflexivity).
        destruct (d_done_new _ _ _ W U X) as [E D]. split; [|exact D].
        rewrite E in H. destruct pre2 as [|a pre2]; cbn [List.app] in H.
        * injection H as <-. intros o [].
        * injection H as _ H. destruct pre2; discriminate. }
  intros pre post H. apply (K pre post H).
Qed.

(* ---------- D: responses ---------- *)
Definition d_co (id : nat) (l : list nat) : nat := count_occ Nat.eq_dec l id.
Notation co := d_co.
Lemma d_co_app : forall id l1 l2, co id (l1 ++ l2) = co id l1 + co id l2.
Proof. intros. unfold d_co. apply count_occ_app. Qed.
Lemma d_co_nil : forall id, co id [] = 0.
Proof. reflexivity. Qed.
Lemma d_co_one : forall id x, co id [x] = if Nat.eqb x id then 1 else 0.
Proof. intros id x. unfold d_co. cbn. destruct (Nat.eq_dec x id) as [->|H]; [rewrite Nat.eqb_refl|apply Nat.eqb_neq in H; rewrite H]; reflexivity. Qed.
Lemma d_co_cons : forall id x l, co id (x :: l) = co id [x] + co id l.
Proof. intros id x l. change (x :: l) with ([x] ++ l). apply d_co_app. Qed.
Notation reqs := (Core.reqs upd).
Notation dropped := (Core.dropped val upd).

Definition d_qid (x : Core.qitem) : list nat := match x with Core.QReq id | Core.QUnsub id _ => [id] | _ => [] end.
Definition d_queued (s : st) (c : nat) : list nat := flat_map d_qid (cqueue (conns s c)).
Definition d_waiting (s : st) (c : nat) : list nat :=
  match cur (conns s c) with Some i => acb (insts s i) ++ rcb (insts s i) | None => [] end.

(* sum over the instances of a connection *)
Fixpoint d_sum (own : nat -> nat) (w : nat -> nat) (c n : nat) : nat :=
  match n with 0 => 0 | S m => d_sum own w c m + (if Nat.eqb (own m) c then w m else 0) end.
Lemma d_co_flat : forall id (own : nat -> nat) (lst : nat -> list nat) c n,
  co id (flat_map lst (filter (fun i => Nat.eqb (own i) c) (seq 0 n))) = d_sum own (fun i => co id (lst i)) c n.
Proof.
  intros id own lst c n. induction n as [|n IH]; [reflexivity|].
  rewrite seq_S, filter_app, flat_map_app, d_co_app, IH. cbn [d_sum plus filter].
  destruct (Nat.eqb (own n) c); cbn [flat_map]; [rewrite app_nil_r|]; reflexivity.
Qed.
Lemma d_co_dropped : forall id s c, co id (dropped s c) = d_sum (fun i => owner (insts s i)) (fun i => co id (lost (insts s i))) c (next s).
Proof. intros id s c. unfold Core.dropped, Core.insts_of. apply d_co_flat. Qed.
Lemma d_sum_ext : forall own own' w w' c n,
  (forall j, j < n -> own' j = own j) -> (forall j, j < n -> own j = c -> w' j = w j) -> d_sum own' w' c n = d_sum own w c n.
Proof.
  intros own own' w w' c n. induction n as [|n IH]; intros H1 H2; [reflexivity|]. cbn [d_sum].
  rewrite IH; [|intros; apply H1; lia|intros; apply H2; auto; lia]. rewrite (H1 n) by lia.
  destruct (Nat.eqb_spec (own n) c); [rewrite H2 by (auto; lia)|]; reflexivity.
Qed.
Lemma d_sum_upd : forall own own' w w' c n i0 e,
  (forall j, j < n -> own' j = own j) -> (forall j, j < n -> j <> i0 -> w' j = w j) -> i0 < n -> w' i0 = w i0 + e ->
  d_sum own' w' c n = d_sum own w c n + (if Nat.eqb (own i0) c then e else 0).
Proof.
  intros own own' w w' c n i0 e. induction n as [|n IH]; intros H1 H2 H3 H4; [lia|]. cbn [d_sum].
  rewrite (H1 n) by lia. destruct (Nat.eq_dec i0 n) as [->|Hne].
  - rewrite (d_sum_ext own own' w w' c n); [|intros; apply H1; lia|intros; apply H2; lia]. rewrite H4.
    destruct (Nat.eqb (own n) c); lia.
  - rewrite IH; [|intros; apply H1; lia|intros; apply H2; lia|lia|exact H4]. rewrite (H2 n) by lia.
    destruct (Nat.eqb (own n) c); destruct (Nat.eqb (own i0) c); lia.
Qed.

Lemma d_next_le : forall s o, next (fst (step s o)) <= S (next s).
Proof. intros s o. d_step_cases s o; d_proj; lia. Qed.
Lemma d_new_lost : forall s o, next (fst (step s o)) = S (next s) -> lost (insts (fst (step s o)) (next s)) = [].
Proof. intros s o. d_step_cases s o; d_proj; try lia. intros _. rewrite d_set_inst_eq. reflexivity. Qed.

Lemma d_dropped_frame : forall id s o c',
  (forall j, j < next s -> owner (insts s j) = c' -> lost (insts (fst (step s o)) j) = lost (insts s j)) ->
  co id (dropped (fst (step s o)) c') = co id (dropped s c').
Proof.
  intros id s o c' H. rewrite !d_co_dropped. pose proof (d_next_mono s o) as M1. pose proof (d_next_le s o) as M2.
  assert (E : next (fst (step s o)) = next s \/ next (fst (step s o)) = S (next s)) by lia. destruct E as [E|E]; rewrite E.
  - apply d_sum_ext; [intros; apply d_owner_frame; assumption|]. intros j Hj Ho. rewrite H by assumption. reflexivity.
  - cbn [d_sum]. rewrite (d_new_lost s o E), d_co_nil.
    replace (if Nat.eqb (owner (insts (fst (step s o)) (next s))) c' then 0 else 0) with 0 by (destruct (Nat.eqb _ _); reflexivity).
    rewrite Nat.add_0_r. apply d_sum_ext; [intros; apply d_owner_frame; assumption|]. intros j Hj Ho. rewrite H by assumption. reflexivity.
Qed.

Lemma d_dropped_upd : forall id s o c' i0 e, next (fst (step s o)) = next s -> i0 < next s ->
  (forall j, j < next s -> j <> i0 -> lost (insts (fst (step s o)) j) = lost (insts s j)) ->
  co id (lost (insts (fst (step s o)) i0)) = co id (lost (insts s i0)) + e ->
  co id (dropped (fst (step s o)) c') = co id (dropped s c') + (if Nat.eqb (owner (insts s i0)) c' then e else 0).
Proof.
  intros id s o c' i0 e E Hi H1 H2. rewrite !d_co_dropped, E.
  apply (d_sum_upd (fun i => owner (insts s i)) _ (fun i => co id (lost (insts s i)))); try assumption.
  - intros; apply d_owner_frame; assumption.
  - intros j Hj Hne. rewrite H1 by assumption. reflexivity.
Qed.

Lemma d_resps_none : forall c' l, (forall x, In x l -> for_conn c' x = false) -> resps c' l = [].
Proof.
  intros c' l. induction l as [|x l IH]; intros H; [reflexivity|]. cbn [Core.resps flat_map].
  fold (resps c' l). rewrite IH by (intros; apply H; right; assumption). rewrite app_nil_r.
  pose proof (H x (or_introl eq_refl)) as Hx. destruct x; cbn [Core.for_conn] in Hx; try reflexivity; rewrite Hx; reflexivity.
Qed.

Lemma d_qid_esq : forall s σ' c, flat_map d_qid (d_esq s σ' c) = [].
Proof.
  intros s σ' c. assert (H : forall x, In x (d_esq s σ' c) -> d_qid x = []).
  { intros x Hx. apply d_in_esq_other in Hx as [j [->| ->]]; reflexivity. }
  induction (d_esq s σ' c) as [|x l IH]; [reflexivity|]. cbn [flat_map]. rewrite (H x) by (left; reflexivity).
  apply IH. intros y Hy. apply H. right. exact Hy.
Qed.

(* ops other than the grant of c' *)
Lemma d_fr_queued : forall s o c', o <> Core.GrantConn upd c' ->
  d_queued (fst (step s o)) c' = d_queued s c' ++ (if disc (conns s c') then [] else reqs c' [o]).
Proof.
  intros s o c'. unfold d_queued.
  d_step_cases s o; d_proj; intros Hne; try d_es_look c'; cbn [Core.reqs flat_map].
  all: try (destruct (disc (conns s c')); rewrite ?app_nil_r; reflexivity).
  all: try (rewrite flat_map_app, d_qid_esq; destruct (disc (conns s c')); rewrite ?app_nil_r; reflexivity).
  all: unfold Core.set_conn; destruct (Nat.eqb_spec c' c) as [->|Hcc]; try congruence; d_proj.
  all: rewrite ?(proj2 (Nat.eqb_neq c c') (not_eq_sym Hcc)), ?Nat.eqb_refl, ?Edisc, ?flat_map_app; cbn [flat_map d_qid]; rewrite ?app_nil_r; try reflexivity.
  all: try (destruct (disc (conns s c')); rewrite ?app_nil_r; reflexivity).
Qed.

Lemma d_fr_conn : forall s o c', o <> Core.GrantConn upd c' ->
  cur (conns (fst (step s o)) c') = cur (conns s c').
Proof.
  intros s o c'. d_step_cases s o; d_proj; intros Hne; try d_es_look c'; try reflexivity.
  all: unfold Core.set_conn; destruct (Nat.eqb_spec c' c) as [->|Hcc]; try congruence; d_proj; reflexivity.
Qed.

Lemma d_fr_inst : forall s o c' j, d_W1 s -> o <> Core.GrantConn upd c' -> j < next s -> owner (insts s j) = c' ->
  acb (insts (fst (step s o)) j) = acb (insts s j) /\ rcb (insts (fst (step s o)) j) = rcb (insts s j) /\
  lost (insts (fst (step s o)) j) = lost (insts s j).
Proof.
  intros s o c' j W. d_step_cases s o; d_proj; intros Hne Hj Ho; auto; d_facts W.
  all: try (rewrite d_set_inst_neq by lia; auto; fail).
  all: unfold Core.set_inst; destruct (Nat.eqb_spec j i) as [->|Hji]; d_proj; auto; try congruence.
Qed.

Lemma d_resps_app : forall c l1 l2, resps c (l1 ++ l2) = resps c l1 ++ resps c l2.
Proof. intros. unfold Core.resps. apply flat_map_app. Qed.
Lemma d_resps_proc : forall c c0 p e, resps c (snd (proc_o c0 p e)) = [].
Proof.
  intros c c0 [ver v] e. unfold Core.proc_o. destruct (Nat.eqb ver (Conv.e_ver upd e)); [|reflexivity].
  destruct (Conv.e_upd upd e); reflexivity.
Qed.
Lemma d_resps_replay : forall c c0 l p, resps c (replay_o c0 p l) = [].
Proof.
  intros c c0 l. induction l as [|e l IH]; intros p; cbn [Core.replay_o]; [reflexivity|].
  pose proof (d_resps_proc c c0 p e) as H. destruct (proc_o c0 p e) as [p' oo]. cbn [snd] in H.
  rewrite d_resps_app, H, IH. reflexivity.
Qed.
Lemma d_resps_ev : forall c c0 y, resps c (d_evout c0 y) = [].
Proof.
  intros c c0 y. unfold d_evout. destruct (ccq y) as [|[|e] r]; try reflexivity.
  destruct (loaded y && negb (Conv.flag val upd y)); [apply d_resps_proc|reflexivity].
Qed.
Lemma d_resps_map_resp : forall c ids, resps c (map (fun id' => Core.OResp val upd c id' None) ids) = ids.
Proof. intros c ids. induction ids as [|a l IH]; [reflexivity|]. cbn [map Core.resps flat_map]. rewrite Nat.eqb_refl. cbn. f_equal. exact IH. Qed.
Lemma d_resps_map_err : forall c e ids, resps c (map (fun id' => Core.OErr val upd c id' e) ids) = ids.
Proof. intros c e ids. induction ids as [|a l IH]; [reflexivity|]. cbn [map Core.resps flat_map]. rewrite Nat.eqb_refl. cbn. f_equal. exact IH. Qed.
Lemma d_resps_respond : forall c y ids, resps c (respond_ids c y ids) = ids.
Proof.
  intros c y ids. unfold Core.respond_ids. destruct ids as [|id r]; [reflexivity|].
  rewrite d_resps_app, d_resps_map_resp. destruct (Conv.sent val upd y).
  - cbn [Core.resps flat_map]. rewrite Nat.eqb_refl. reflexivity.
  - change (Core.OResp val upd c id (Some (Conv.sval val upd y)) :: ?l) with ([Core.OResp val upd c id (Some (Conv.sval val upd y))] ++ l).
    rewrite d_resps_app, d_resps_replay. cbn [Core.resps flat_map]. rewrite Nat.eqb_refl. reflexivity.
Qed.

Definition d_total (id : nat) (s : st) (c : nat) : nat :=
  co id (d_queued s c) + co id (d_waiting s c) + co id (dropped s c).

Lemma d_count_other : forall id s o c', d_W1 s -> o <> Core.GrantConn upd c' ->
  d_total id (fst (step s o)) c' + co id (resps c' (snd (step s o))) =
  d_total id s c' + co id (if disc (conns s c') then [] else reqs c' [o]).
Proof.
  intros id s o c' W Hne. unfold d_total.
  rewrite (d_fr_queued s o c' Hne), d_co_app.
  assert (Hw : d_waiting (fst (step s o)) c' = d_waiting s c').
  { unfold d_waiting. rewrite (d_fr_conn s o c' Hne). destruct (cur (conns s c')) as [i|] eqn:Ec; [|reflexivity].
    destruct (a_cur s W c' i Ec) as (A & B & _). destruct (d_fr_inst s o c' i W Hne A B) as (-> & -> & _). reflexivity. }
  assert (Hr : resps c' (snd (step s o)) = []).
  { apply d_resps_none. intros x Hx. destruct (for_conn c' x) eqn:E; [|reflexivity]. exfalso. apply Hne. eapply d_tag; eassumption. }
  assert (Hd : co id (dropped (fst (step s o)) c') = co id (dropped s c')).
  { apply d_dropped_frame. intros j Hj Ho. apply (d_fr_inst s o c' j W Hne Hj Ho). }
  rewrite Hw, Hr, Hd, d_co_nil. lia.
Qed.

Lemma d_dropped_same : forall rid s s' c', next s' = next s ->
  (forall j, j < next s -> owner (insts s' j) = owner (insts s j)) ->
  (forall j, j < next s -> lost (insts s' j) = lost (insts s j)) ->
  co rid (dropped s' c') = co rid (dropped s c').
Proof.
  intros rid s s' c' E H1 H2. rewrite !d_co_dropped, E. apply d_sum_ext; [exact H1|]. intros j Hj _. rewrite H2 by exact Hj. reflexivity.
Qed.
Lemma d_dropped_upd' : forall rid s s' c' i0 e, next s' = next s -> i0 < next s ->
  (forall j, j < next s -> owner (insts s' j) = owner (insts s j)) ->
  (forall j, j < next s -> j <> i0 -> lost (insts s' j) = lost (insts s j)) ->
  co rid (lost (insts s' i0)) = co rid (lost (insts s i0)) + e ->
  co rid (dropped s' c') = co rid (dropped s c') + (if Nat.eqb (owner (insts s i0)) c' then e else 0).
Proof.
  intros rid s s' c' i0 e E Hi H0 H1 H2. rewrite !d_co_dropped, E.
  apply (d_sum_upd (fun i => owner (insts s i)) _ (fun i => co rid (lost (insts s i)))); try assumption.
  intros j Hj Hne. rewrite H1 by assumption. reflexivity.
Qed.
Lemma d_dropped_new' : forall rid s s' c', next s' = S (next s) ->
  (forall j, j < next s -> owner (insts s' j) = owner (insts s j)) ->
  (forall j, j < next s -> lost (insts s' j) = lost (insts s j)) -> lost (insts s' (next s)) = [] ->
  co rid (dropped s' c') = co rid (dropped s c').
Proof.
  intros rid s s' c' E H1 H2 H3. rewrite !d_co_dropped, E. cbn [d_sum]. rewrite H3, d_co_nil.
  replace (if Nat.eqb (owner (insts s' (next s))) c' then 0 else 0) with 0 by (destruct (Nat.eqb _ _); reflexivity).
  rewrite Nat.add_0_r. apply d_sum_ext; [exact H1|]. intros j Hj _. rewrite H2 by exact Hj. reflexivity.
Qed.

Ltac d_inst_frame := intros; d_proj; unfold Core.set_inst; d_eqb; d_proj; try reflexivity; try lia; try congruence.

Lemma d_wl_live : forall σ j, CInv σ -> Core.is_live val upd (cstep σ (Conv.RunC upd j)) j = true -> gone (csubs σ j) = false.
Proof.
  intros σ j HI H. destruct (gone (csubs σ j)) eqn:E; [|reflexivity]. unfold Core.is_live in H.
  rewrite (d_runc_gone σ j HI E) in H. discriminate.
Qed.

Lemma d_count_grant : forall rid s o c', d_W1 s -> d_W3 s -> o = Core.GrantConn upd c' ->
  d_total rid (fst (step s o)) c' + co rid (resps c' (snd (step s o))) = d_total rid s c'.
Proof.
  intros rid s o c' W V. unfold d_total.
  d_step_cases s o; try discriminate; d_kill_left W V; d_facts W; intros Ho; injection Ho as <-.
  all: try (assert (Hcur : cur (conns s c) = Some i) by
         (rewrite <- Fown; apply d_live_cur; [exact W|exact Flt|first [exact Egone | apply d_wl_live; [apply (a_inv s W)|]; apply andb_prop in Ewl; apply Ewl]])).
  all: unfold d_queued, d_waiting; d_proj; rewrite ?d_set_conn_eq; d_proj; rewrite ?Eq, ?Ecur, ?Hcur; cbn [flat_map d_qid].
  all: rewrite ?d_set_inst_eq; d_proj.
  all: try (change (resps c (?e ++ ?r)) with (resps c (d_evout c (csubs (cv s) i) ++ r)); rewrite d_resps_app, d_resps_ev).
  all: try (erewrite (d_dropped_same rid s _ c); [|reflexivity|solve [d_inst_frame]|solve [d_inst_frame]]).
  all: try (erewrite (d_dropped_new' rid s _ c); [|reflexivity|solve [d_inst_frame]|solve [d_inst_frame]|d_proj; rewrite d_set_inst_eq; reflexivity]).
  all: try (erewrite (d_dropped_upd' rid s _ c i); [|reflexivity|exact Flt|solve [d_inst_frame]|solve [d_inst_frame]
              |d_proj; rewrite d_set_inst_eq; d_proj; rewrite d_co_app; reflexivity]; rewrite Fown, Nat.eqb_refl).
  all: rewrite ?d_resps_respond, ?d_resps_map_err; rewrite ?d_co_app, ?d_co_nil; cbn [Core.resps flat_map]; rewrite ?Nat.eqb_refl, ?d_co_nil;
       cbn [List.app]; rewrite ?d_co_app, ?d_co_nil; try lia.
  destruct (mqsub s); cbn [List.app Core.resps flat_map]; rewrite d_co_nil; lia.
Qed.

Lemma d_grant_dec : forall (o : Core.op upd) c, {o = Core.GrantConn upd c} + {o <> Core.GrantConn upd c}.
Proof.
  intros o c. destruct o; try (right; discriminate). destruct (Nat.eq_dec c0 c) as [->|H]; [left; reflexivity|right; congruence].
Qed.

Lemma d_count_inv : forall t ops c rid,
  let s := fst (exec t ops) in let outs := snd (exec t ops) in
  d_total rid s c + co rid (resps c outs) <= co rid (reqs c ops) /\
  (disc (conns s c) = false -> d_total rid s c + co rid (resps c outs) = co rid (reqs c ops)).
Proof.
  intros t ops c rid. induction ops as [|o ops IH] using rev_ind.
  - cbn. split; [|intros _]; reflexivity.
  - cbv zeta in *. destruct (d_exec_snoc' t ops o) as [-> ->].
    pose proof (d_w1_exec t ops) as W. pose proof (d_w3_exec t ops) as V.
    set (s := fst (exec t ops)) in *. set (outs := snd (exec t ops)) in *.
    destruct IH as [I1 I2].
    assert (Er : reqs c (ops ++ [o]) = reqs c ops ++ reqs c [o]) by (unfold Core.reqs; apply flat_map_app).
    rewrite Er, d_resps_app, !d_co_app.
    destruct (d_grant_dec o c) as [Eo|Eo].
    + pose proof (d_count_grant rid s o c W V Eo) as K.
      assert (Z : reqs c [o] = []) by (subst o; reflexivity). rewrite Z, d_co_nil.
      split; [lia|]. intros Hd. apply d_disc_mono in Hd. specialize (I2 Hd). lia.
    + pose proof (d_count_other rid s o c W Eo) as K.
      split.
      * destruct (disc (conns s c)); rewrite ?d_co_nil in K; lia.
      * intros Hd. apply d_disc_mono in Hd. specialize (I2 Hd). rewrite Hd in K. lia.
Qed.

Lemma d_quiet_waiting : forall s c, d_W1 s -> d_W2 s -> d_W3 s -> quiescent s -> d_waiting s c = [].
Proof.
  intros s c W U V Hq. unfold d_waiting. destruct (cur (conns s c)) as [i|] eqn:Ec; [|reflexivity].
  destruct (a_cur s W c i Ec) as (Hlt & Hown & Hg). pose proof (a_inv s W) as HI.
  pose proof Hq as (Hqe & Hqc & _ & Hun).
  assert (Ha : ans (insts s i) <> None).
  { specialize (Hun i Hlt). unfold Core.unanswered in Hun. destruct (ans (insts s i)); [discriminate|discriminate]. }
  assert (Hacc : acc (insts s i) = Some true).
  { destruct (acc (insts s i)) as [[|]|] eqn:E; [reflexivity| |].
    - exfalso. apply (c_E s V c i Ec). exact E.
    - exfalso. destruct (c_H s V c i Ec Ha E) as [X|X]; [rewrite Hqe in X|rewrite Hqc in X]; destruct X. }
  rewrite (c_acb s V i Hacc). cbn [List.app].
  destruct (rcb (insts s i)) eqn:Er; [reflexivity|]. exfalso.
  assert (Hr : rcb (insts s i) <> []) by (rewrite Er; discriminate).
  destruct (c_rcb s V i Hr) as [_ Hl].
  pose proof (Conv.i3 _ _ _ _ HI i Hg) as H3. rewrite Hqe, (a_sub s W i Hlt) in H3. cbn in H3.
  assert (Hm : Conv.mem i (Conv.rs_subs val upd (cv s)) = true) by (destruct (Conv.mem i (Conv.rs_subs val upd (cv s))); [reflexivity|discriminate]).
  assert (Hne : Conv.rs_subs val upd (cv s) <> []) by (intros E; rewrite E in Hm; discriminate).
  pose proof (d_quiet_loaded s U HI Hq Hne) as Hrl.
  pose proof (Conv.i4 _ _ _ _ HI i) as H4. rewrite (d_quiet_cq s i W U Hq), Hl, Hm, Hrl, Hqe in H4. cbn in H4. discriminate.
Qed.

Theorem core_responses : forall t ops c,
  let s := fst (exec t ops) in let outs := snd (exec t ops) in
  NoDup (Core.reqs upd c ops) ->
  NoDup (resps c outs) /\ incl (resps c outs) (Core.reqs upd c ops) /\
  (forall id, In id (resps c outs) -> ~ In id (Core.dropped val upd s c)) /\
  (quiescent s -> Core.disc (conns s c) = false ->
   forall id, In id (Core.reqs upd c ops) -> In id (resps c outs) \/ In id (Core.dropped val upd s c)).
Proof.
  intros t ops c s outs Hnd.
  assert (K : forall rid, d_total rid s c + co rid (resps c outs) <= co rid (reqs c ops) /\
                (disc (conns s c) = false -> d_total rid s c + co rid (resps c outs) = co rid (reqs c ops))).
  { intros rid. apply (d_count_inv t ops c rid). }
  assert (L : forall rid, co rid (reqs c ops) <= 1).
  { intros rid. unfold d_co. apply (proj1 (NoDup_count_occ Nat.eq_dec (reqs c ops)) Hnd). }
  split; [|split; [|split]].
  - apply (NoDup_count_occ Nat.eq_dec). intros rid. destruct (K rid) as [K1 _]. specialize (L rid). unfold d_co in *. lia.
  - intros rid Hin. apply (count_occ_In Nat.eq_dec) in Hin. destruct (K rid) as [K1 _].
    apply (count_occ_In Nat.eq_dec). unfold d_co in *. lia.
  - intros rid Hin Hdr. apply (count_occ_In Nat.eq_dec) in Hin. apply (count_occ_In Nat.eq_dec) in Hdr.
    destruct (K rid) as [K1 _]. specialize (L rid). unfold d_total, d_co in *. lia.
  - intros Hq Hd rid Hin. apply (count_occ_In Nat.eq_dec) in Hin. destruct (K rid) as [_ K2]. specialize (K2 Hd).
    pose proof (d_quiet_waiting s c (d_w1_exec t ops) (d_w2_exec t ops) (d_w3_exec t ops) Hq) as Hw.
    unfold d_total in K2. rewrite Hw in K2. unfold d_queued in K2. destruct Hq as (_ & Hqc & _). rewrite Hqc in K2.
    cbn [flat_map] in K2. rewrite !d_co_nil in K2. unfold d_co in *.
    destruct (count_occ Nat.eq_dec (resps c outs) rid) eqn:E1.
    + right. apply (count_occ_In Nat.eq_dec). lia.
    + left. apply (count_occ_In Nat.eq_dec). lia.
Qed.

End CoreProofs.

Print Assumptions core_responses.
Print Assumptions core_nothing_dropped_without_unsubscribe.
Print Assumptions core_every_request_answered_refuted.
Print Assumptions core_data_needs_grant.
Print Assumptions core_cleanup.
Print Assumptions core_nothing_after_close.
