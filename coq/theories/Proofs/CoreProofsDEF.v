(* Proofs of groups D, E, F of CoreStatements.v: responses, gating, cleanup. *)
From Coq Require Import List Arith Lia Bool Permutation.
From RG Require Import Comp.Conv Comp.Core.
Import ListNotations.

Section CoreProofs.
Variables (val upd : Type) (app : upd -> val -> val) (norm : upd -> val -> option upd) (d : val).
Hypothesis norm_none : forall u v, norm u v = None -> app u v = v.
Hypothesis norm_some : forall u v u', norm u v = Some u' -> app u' v = app u v.

Notation csubs := (Conv.subs val upd).
Notation exec := (Core.exec val upd app norm d).
Notation cv := (Core.cv val upd).
Notation conns := (Core.conns val upd).
Notation insts := (Core.insts val upd).
Notation client := (Core.client val upd app).
Notation resps := (Core.resps val upd).
Notation quiescent := (Core.quiescent val upd).
Notation no_underflow := (Core.no_underflow val upd app).

Notation cstep := (Conv.step val upd app norm).
Notation step := (Core.step val upd app norm).
Notation acts_of := (Core.acts_of val upd app norm).
Notation conn_task := (Core.conn_task val upd app norm).
Notation next := (Core.next val upd).
Notation cst := (Conv.st val upd).
Notation st := (Core.st val upd).
Notation tk := (Core.tk val upd).
Notation out := (Core.out val upd).
Notation action := (Conv.action upd).
Notation gone := (Conv.gone val upd).
Notation subscribed := (Conv.subscribed val upd).
Notation loaded := (Conv.loaded val upd).
Notation closed := (Conv.closed val upd).
Notation ccq := (Conv.cq val upd).
Notation cqe := (Conv.qe val upd).
Notation CInv := (Conv.Inv val upd app).
Notation cfold := (fold_left cstep).

(* ---------- classification of Conv actions ---------- *)
Definition d_adisp (j : nat) (a : action) : bool := match a with Conv.Dispose _ s _ => Nat.eqb s j | _ => false end.
Definition d_asubs (j : nat) (a : action) : bool := match a with Conv.Subscribe _ s => Nat.eqb s j | _ => false end.
Definition d_arunc (j : nat) (a : action) : bool := match a with Conv.RunC _ s => Nat.eqb s j | _ => false end.
Definition d_arune (a : action) : bool := match a with Conv.RunE _ => true | _ => false end.
Definition d_anop (i : nat) (a : action) : bool := match a with Conv.SvcNop _ n => Nat.eqb n i | _ => false end.
Definition d_areacc (a : action) : bool := match a with Conv.SvcReacc _ => true | _ => false end.

Ltac d_conv_destruct σ a :=
  destruct a as [u| | |n| |s0|s0 cl| |s0|s0 c0|s0 c0|s0]; cbn [Conv.step];
  [ | | destruct (Conv.answered val upd σ) eqn:Eans | | | destruct (subscribed (csubs σ s0)) eqn:Esub
  | destruct (gone (csubs σ s0)) eqn:Egone; [destruct cl|]
  | destruct (cqe σ) as [|[u| |v|s1|s1| |n1] q] eqn:Eqe;
    [ | destruct (Conv.rs_loaded val upd σ) eqn:Erl; [destruct (norm u (Conv.rs_val val upd σ)) eqn:Enorm|] | | | | | | ]
  | destruct (ccq (csubs σ s0)) as [|[|e|] q] eqn:Ecq; [ | destruct (gone (csubs σ s0)) eqn:Egone | | ]
  | destruct (loaded (csubs σ s0) && negb (Conv.sent val upd (csubs σ s0))) eqn:Econd
  | destruct (loaded (csubs σ s0) && Conv.sent val upd (csubs σ s0) && Conv.flag val upd (csubs σ s0)) eqn:Econd
  | destruct (loaded (csubs σ s0) && Conv.sent val upd (csubs σ s0)) eqn:Econd ].

Ltac d_if_all :=
  repeat match goal with
  | |- context [Nat.eqb ?a ?b] => let He := fresh "Heq" in let Hn := fresh "Hne" in destruct (Nat.eqb_spec a b) as [He|Hn]; [first [subst a|subst b|idtac]|]
  | |- context [if ?b then _ else _] => destruct b eqn:?
  | |- context [let '(_, _) := ?p in _] => destruct p as [? ?] eqn:?
  | |- context [match ?b with Some _ => _ | None => _ end] => destruct b eqn:?
  end.
Ltac d_drain :=
  repeat match goal with
  | |- context [Conv.drain val upd app ?x ?c] =>
      let A := fresh in pose proof (Conv.drain_fields val upd app x c) as A;
      destruct A as (?&?&?&?&?&?&?&?); generalize dependent (Conv.drain val upd app x c); do 9 intro
  end.

Lemma d_eff_static : forall σ a j,
  gone (csubs (cstep σ a) j) = gone (csubs σ j) || d_adisp j a /\
  subscribed (csubs (cstep σ a) j) = subscribed (csubs σ j) || d_asubs j a.
Proof.
  intros σ a j. d_conv_destruct σ a; cbn [Conv.subs d_adisp d_asubs].
  all: try (rewrite !orb_false_r; split; reflexivity).
  all: d_drain.
  all: unfold Conv.set_sub, Conv.push_all, Conv.push_c, Conv.dispose, Conv.with_sub in *; d_if_all;
       cbn [Conv.gone Conv.subscribed] in *; rewrite ?orb_false_r, ?orb_true_r; try (split; congruence).
Qed.

Lemma d_eff_closed : forall σ a j, (forall s, a <> Conv.Dispose upd s true) ->
  closed (csubs (cstep σ a) j) = closed (csubs σ j).
Proof.
  intros σ a j Hn. d_conv_destruct σ a; cbn [Conv.subs]; try reflexivity.
  all: try (exfalso; eapply Hn; reflexivity).
  all: d_drain.
  all: unfold Conv.set_sub, Conv.push_all, Conv.push_c, Conv.dispose, Conv.with_sub in *; d_if_all;
       cbn [Conv.closed] in *; rewrite ?orb_false_r; try congruence.
  all: try (destruct cl; [exfalso; eapply Hn; reflexivity|rewrite orb_false_r; reflexivity]).
Qed.

Lemma d_eff_loaded : forall σ a j, d_arunc j a = false ->
  loaded (csubs (cstep σ a) j) = true -> loaded (csubs σ j) = true.
Proof.
  intros σ a j. d_conv_destruct σ a; cbn [Conv.subs d_arunc]; try (intros; assumption).
  all: d_drain.
  all: unfold Conv.set_sub, Conv.push_all, Conv.push_c, Conv.dispose, Conv.with_sub in *; d_if_all;
       cbn [Conv.loaded] in *; try congruence.
Qed.

Lemma d_eff_cq : forall σ a j, d_arunc j a = false -> d_arune a = false ->
  ccq (csubs (cstep σ a) j) = ccq (csubs σ j).
Proof.
  intros σ a j. d_conv_destruct σ a; cbn [Conv.subs d_arunc d_arune]; try (intros; reflexivity); try discriminate.
  all: d_drain.
  all: unfold Conv.set_sub, Conv.push_all, Conv.push_c, Conv.dispose, Conv.with_sub in *; d_if_all;
       cbn [Conv.cq] in *; try congruence.
Qed.

Lemma d_eff_runc : forall σ j j',
  ccq (csubs (cstep σ (Conv.RunC upd j)) j') = if Nat.eqb j' j then tl (ccq (csubs σ j')) else ccq (csubs σ j').
Proof.
  intros σ j j'. cbn [Conv.step].
  destruct (ccq (csubs σ j)) as [|[|e|] q] eqn:Ecq; cbn [Conv.subs].
  - destruct (Nat.eqb_spec j' j); subst; [rewrite Ecq|]; reflexivity.
  - unfold Conv.set_sub. destruct (gone (csubs σ j)); cbn [Conv.subs]; destruct (Nat.eqb_spec j' j); subst; cbn [Conv.cq]; rewrite ?Ecq; reflexivity.
  - unfold Conv.set_sub; cbn [Conv.subs]. destruct (Nat.eqb_spec j' j); subst; [|reflexivity]. rewrite Ecq.
    d_if_all; reflexivity.
  - unfold Conv.set_sub; cbn [Conv.subs]. destruct (Nat.eqb_spec j' j); subst; [|reflexivity]. rewrite Ecq. reflexivity.
Qed.

Lemma d_eff_rune_cq : forall σ j,
  ccq (csubs (cstep σ (Conv.RunE upd)) j) = ccq (csubs σ j) \/
  exists x, ccq (csubs (cstep σ (Conv.RunE upd)) j) = ccq (csubs σ j) ++ [x].
Proof.
  intros σ j. cbn [Conv.step].
  destruct (cqe σ) as [|[u| |v|s1|s1| |n1] q] eqn:Eqe; cbn [Conv.subs]; try (left; reflexivity).
  all: repeat (progress (unfold Conv.set_sub, Conv.push_all, Conv.push_c; d_if_all; cbn [Conv.subs Conv.cq])); try (left; reflexivity);
       try (right; eexists; reflexivity).
Qed.

Lemma d_mem_false : forall σ j, CInv σ -> subscribed (csubs σ j) = false ->
  Conv.mem j (Conv.rs_subs val upd σ) = false /\ Conv.cnt (Conv.is_add val upd j) (cqe σ) = 0.
Proof.
  intros σ j H Hs. pose proof (Conv.i3g _ _ _ _ H j) as G. rewrite Hs in G. cbn [Conv.b2n] in G.
  destruct (Conv.mem j (Conv.rs_subs val upd σ)); cbn [Conv.b2n] in G; split; try reflexivity; lia.
Qed.

Lemma d_eff_rune_cq_unsub : forall σ j, CInv σ -> subscribed (csubs σ j) = false ->
  ccq (csubs (cstep σ (Conv.RunE upd)) j) = ccq (csubs σ j).
Proof.
  intros σ j H Hs. destruct (d_mem_false σ j H Hs) as [Hm Ha]. cbn [Conv.step].
  destruct (cqe σ) as [|[u| |v|s1|s1| |n1] q] eqn:Eqe; cbn [Conv.subs]; try reflexivity.
  all: repeat (progress (unfold Conv.set_sub, Conv.push_all, Conv.push_c; try rewrite Hm; cbn [andb]; d_if_all; cbn [Conv.subs Conv.cq])); try reflexivity.
  all: try (rewrite Hm in *; discriminate).
  all: try (rewrite Conv.cnt_cons in Ha; cbn [Conv.is_add] in Ha; rewrite Nat.eqb_refl in Ha; cbn in Ha; lia).
Qed.

Lemma d_in_refused : forall i f l, ~ In (Conv.INop val upd i) (Conv.refused val upd f l).
Proof.
  intros i f l. unfold Conv.refused. intros H. apply in_map_iff in H as (x & Hx & _). discriminate.
Qed.

Ltac d_in_crush H :=
  repeat match type of H with
  | In _ (_ ++ _) => apply in_app_or in H as [H|H]
  | In _ (_ :: _) => destruct H as [H|H]
  | In _ [] => destruct H
  | In _ (if ?b then _ else _) => destruct b
  end.

Lemma d_eff_qe_back : forall σ a i, In (Conv.INop val upd i) (cqe (cstep σ a)) ->
  In (Conv.INop val upd i) (cqe σ) \/ d_anop i a = true.
Proof.
  intros σ a i. d_conv_destruct σ a; cbn [Conv.qe d_anop]; try (intros; left; assumption).
  all: intros H; d_in_crush H; try discriminate; try (left; assumption); try (left; right; assumption);
       try (injection H as ->; right; apply Nat.eqb_refl); try (exfalso; eapply d_in_refused; eassumption).
  all: try (rewrite Eqe in H; destruct H).
Qed.

Lemma d_eff_qe_fwd : forall σ a i, d_arune a = false -> In (Conv.INop val upd i) (cqe σ) ->
  In (Conv.INop val upd i) (cqe (cstep σ a)).
Proof.
  intros σ a i. d_conv_destruct σ a; cbn [Conv.qe d_arune]; try (intros; assumption); try discriminate.
  all: try (intros _ H; apply in_or_app; left; assumption).
  intros _ H. destruct (loaded (csubs σ s0)); [apply in_or_app; left|]; assumption.
Qed.

Lemma d_eff_rune_qe_fwd : forall σ i, In (Conv.INop val upd i) (tl (cqe σ)) ->
  In (Conv.INop val upd i) (cqe (cstep σ (Conv.RunE upd))).
Proof.
  intros σ i. cbn [Conv.step].
  destruct (cqe σ) as [|[u| |v|s1|s1| |n1] q] eqn:Eqe; cbn [Conv.qe tl]; [intros []|..].
  all: d_if_all; cbn [Conv.qe]; intros H; try assumption; try (apply in_or_app; left; assumption).
Qed.

Lemma d_eff_rssubs : forall σ a, d_arune a = false -> Conv.rs_subs val upd (cstep σ a) = Conv.rs_subs val upd σ.
Proof.
  intros σ a. d_conv_destruct σ a; cbn [Conv.rs_subs d_arune]; try reflexivity; try discriminate.
Qed.

Lemma d_eff_rune_rssubs : forall σ, Conv.rs_subs val upd σ = [] -> Core.is_add_head val upd σ = false ->
  Conv.rs_subs val upd (cstep σ (Conv.RunE upd)) = [].
Proof.
  intros σ H. unfold Core.is_add_head. cbn [Conv.step].
  destruct (cqe σ) as [|[u| |v|s1|s1| |n1] q] eqn:Eqe; cbn [Conv.rs_subs]; try (intros; assumption); try discriminate.
  - d_if_all; cbn [Conv.rs_subs]; intros; assumption.
  - rewrite H. reflexivity.
Qed.

(* ---------- effect of a list of Conv actions ---------- *)
Lemma d_fold_gone : forall acts σ j, gone (csubs (cfold acts σ) j) = gone (csubs σ j) || existsb (d_adisp j) acts.
Proof.
  induction acts as [|a acts IH]; intros σ j; cbn [fold_left existsb]; [rewrite orb_false_r; reflexivity|].
  rewrite IH. destruct (d_eff_static σ a j) as [-> _]. rewrite orb_assoc. reflexivity.
Qed.
Lemma d_fold_subscribed : forall acts σ j,
  subscribed (csubs (cfold acts σ) j) = subscribed (csubs σ j) || existsb (d_asubs j) acts.
Proof.
  induction acts as [|a acts IH]; intros σ j; cbn [fold_left existsb]; [rewrite orb_false_r; reflexivity|].
  rewrite IH. destruct (d_eff_static σ a j) as [_ ->]. rewrite orb_assoc. reflexivity.
Qed.
Lemma d_fold_loaded : forall acts σ j, existsb (d_arunc j) acts = false ->
  loaded (csubs (cfold acts σ) j) = true -> loaded (csubs σ j) = true.
Proof.
  induction acts as [|a acts IH]; intros σ j; cbn [fold_left existsb]; [auto|].
  intros H. apply orb_false_elim in H as [H1 H2]. intros H. eapply d_eff_loaded; [exact H1|]. eapply IH; eassumption.
Qed.
Lemma d_fold_cq : forall acts σ j, existsb (d_arunc j) acts = false -> existsb d_arune acts = false ->
  ccq (csubs (cfold acts σ) j) = ccq (csubs σ j).
Proof.
  induction acts as [|a acts IH]; intros σ j; cbn [fold_left existsb]; [auto|].
  intros H H'. apply orb_false_elim in H as [H1 H2]. apply orb_false_elim in H' as [H1' H2'].
  rewrite IH by assumption. apply d_eff_cq; assumption.
Qed.
Lemma d_fold_qe_back : forall acts σ i, In (Conv.INop val upd i) (cqe (cfold acts σ)) ->
  In (Conv.INop val upd i) (cqe σ) \/ existsb (d_anop i) acts = true.
Proof.
  induction acts as [|a acts IH]; intros σ i; cbn [fold_left existsb]; [auto|].
  intros H. apply IH in H as [H|H]; [|right; rewrite H; apply orb_true_r].
  apply d_eff_qe_back in H as [H|H]; [left; assumption|right; rewrite H; reflexivity].
Qed.
Lemma d_fold_qe_fwd : forall acts σ i, existsb d_arune acts = false -> In (Conv.INop val upd i) (cqe σ) ->
  In (Conv.INop val upd i) (cqe (cfold acts σ)).
Proof.
  induction acts as [|a acts IH]; intros σ i; cbn [fold_left existsb]; [auto|].
  intros H. apply orb_false_elim in H as [H1 H2]. intros H. apply IH; [assumption|]. apply d_eff_qe_fwd; assumption.
Qed.
Lemma d_fold_rssubs : forall acts σ, existsb d_arune acts = false ->
  Conv.rs_subs val upd (cfold acts σ) = Conv.rs_subs val upd σ.
Proof.
  induction acts as [|a acts IH]; intros σ; cbn [fold_left existsb]; [auto|].
  intros H. apply orb_false_elim in H as [H1 H2]. rewrite IH by assumption. apply d_eff_rssubs; assumption.
Qed.
Lemma d_fold_inv : forall acts σ, CInv σ -> CInv (cfold acts σ).
Proof.
  induction acts as [|a acts IH]; intros σ H; cbn [fold_left]; [exact H|].
  apply IH. apply Conv.step_inv; assumption.
Qed.

Lemma d_arune_true : forall a, d_arune a = true -> a = Conv.RunE upd.
Proof. destruct a; cbn; intros; try discriminate; reflexivity. Qed.
Lemma d_fold_cq_unsub : forall acts σ j, CInv σ -> subscribed (csubs σ j) = false ->
  existsb (d_asubs j) acts = false -> existsb (d_arunc j) acts = false ->
  ccq (csubs (cfold acts σ) j) = ccq (csubs σ j).
Proof.
  induction acts as [|a acts IH]; intros σ j HI Hs; cbn [fold_left existsb]; [auto|].
  intros H H'. apply orb_false_elim in H as [H1 H2]. apply orb_false_elim in H' as [H1' H2'].
  rewrite IH; try assumption.
  - destruct (d_arune a) eqn:Ea.
    + apply d_arune_true in Ea. subst a. apply d_eff_rune_cq_unsub; assumption.
    + apply d_eff_cq; assumption.
  - apply Conv.step_inv; assumption.
  - destruct (d_eff_static σ a j) as [_ ->]. rewrite Hs, H1. reflexivity.
Qed.

Lemma d_existsb_map_false : forall (A B : Type) (f : B -> bool) (g : A -> B) l,
  (forall x, f (g x) = false) -> existsb f (map g l) = false.
Proof. intros A B f g l H. induction l as [|x l IH]; cbn; [reflexivity|]. rewrite H, IH. reflexivity. Qed.

(* ---------- connection tasks: what a handler may do ---------- *)
Notation act := (Core.act val upd app norm).
Notation emit := (Core.emit val upd).
Notation setx := (Core.setx val upd).
Notation sety := (Core.sety val upd).
Notation ts := (Core.ts val upd).
Notation ta := (Core.ta val upd).
Notation tx := (Core.tx val upd).
Notation ty := (Core.ty val upd).
Notation tout := (Core.to val upd).
Notation cur := Core.cur.
Notation cqueue := Core.cqueue.
Notation direct := Core.direct.
Notation disc := Core.disc.
Notation tokset := Core.tokset.
Notation tok := Core.tok.
Notation owner := Core.owner.
Notation acb := Core.acb.
Notation rcb := Core.rcb.
Notation acc := Core.acc.
Notation ans := Core.ans.
Notation inflight := Core.inflight.
Notation reflag := Core.reflag.
Notation rq := Core.rq.
Notation lost := Core.lost.
Notation ids_of := Core.ids_of.
Notation mqsub := (Core.mqsub val upd).
Notation getreq := (Core.getreq val upd).
Notation INop := (Conv.INop val upd).
Notation for_conn := (Core.for_conn val upd).
Notation has_data := (Core.has_data val upd).
Notation replay_o := (Core.replay_o val upd app).
Notation proc_o := (Core.proc_o val upd app).
Notation drained := (Core.drained val upd app).

Ltac d_tkred := cbn [Core.ts Core.ta Core.tx Core.ty Core.to Core.act Core.emit Core.setx Core.sety].
Ltac d_tkredH H := cbn [Core.ts Core.ta Core.tx Core.ty Core.to Core.act Core.emit Core.setx Core.sety] in H.

(* outputs of a handler of connection c: frames for c, requests on its behalf *)
Definition d_plain (c : nat) (x : out) : bool :=
  match x with
  | Core.OResp _ _ c' _ _ | Core.OErr _ _ c' _ _ | Core.OAck _ _ c' _ _ | Core.OEvent _ _ c' _ | Core.OCustom _ _ c'
  | Core.OUnsubEv _ _ c' | Core.OAccessReq _ _ c' _ _ => Nat.eqb c' c
  | Core.OMqSub _ _ => true
  | _ => false
  end.
Definition d_isdata (x : out) : bool := match x with Core.OResp _ _ _ _ (Some _) => true | _ => false end.
(* the same, and no response that carries data *)
Definition d_nd (c : nat) (x : out) : bool := d_plain c x && negb (d_isdata x).

Lemma d_nd_plain : forall c x, d_nd c x = true -> d_plain c x = true.
Proof. intros c x H. apply andb_prop in H. apply H. Qed.

Lemma d_forallb_impl : forall (A : Type) (P Q : A -> bool) l, (forall x, P x = true -> Q x = true) ->
  forallb P l = true -> forallb Q l = true.
Proof.
  intros A P Q l H. induction l as [|x l IH]; cbn [forallb]; [auto|]. intros E. apply andb_prop in E as [E1 E2].
  rewrite (H _ E1), (IH E2). reflexivity.
Qed.
Lemma d_existsb_of_forallb : forall (A : Type) (P Q : A -> bool) l, (forall x, P x = true -> Q x = false) ->
  forallb P l = true -> existsb Q l = false.
Proof.
  intros A P Q l H. induction l as [|x l IH]; cbn [forallb existsb]; [auto|]. intros E. apply andb_prop in E as [E1 E2].
  rewrite (H _ E1), (IH E2). reflexivity.
Qed.

Lemma d_plain_proc : forall c p e, forallb (d_nd c) (snd (proc_o c p e)) = true.
Proof.
  intros c [ver v] e. unfold Core.proc_o. destruct (Nat.eqb ver (Conv.e_ver upd e)); [|reflexivity].
  destruct (Conv.e_upd upd e); cbn; unfold d_nd; cbn; rewrite Nat.eqb_refl; reflexivity.
Qed.
Lemma d_plain_replay : forall c l p, forallb (d_nd c) (replay_o c p l) = true.
Proof.
  intros c l. induction l as [|e l IH]; intros p; cbn [Core.replay_o]; [reflexivity|].
  pose proof (d_plain_proc c p e) as H. destruct (proc_o c p e) as [p' oo]. cbn [snd] in H.
  rewrite forallb_app, H, IH. reflexivity.
Qed.
Lemma d_plain_drained : forall c x, forallb (d_nd c) (drained c x) = true.
Proof. intros c x. apply d_plain_replay. Qed.
Lemma d_plain_map_resp : forall c r, forallb (d_nd c) (map (fun id' => Core.OResp val upd c id' None) r) = true.
Proof. intros c r. induction r as [|a r IH]; [reflexivity|]. cbn [map forallb]. rewrite IH. unfold d_nd. cbn. rewrite Nat.eqb_refl. reflexivity. Qed.

Section d_Task.
Variables (c i : nat).
Notation gone_ := (Core.gone_ val upd i).
Notation loaded_ := (Core.loaded_ val upd i).
Notation sent_ := (Core.sent_ val upd i).
Notation flag_ := (Core.flag_ val upd i).
Notation me := (Core.me val upd i).
Notation dispose_t := (Core.dispose_t val upd app norm i).
Notation remove_direct := (Core.remove_direct val upd app norm i).
Notation unsubscribe_direct := (Core.unsubscribe_direct val upd app norm c i).
Notation load_access := (Core.load_access val upd c i).
Notation handle_reaccess := (Core.handle_reaccess val upd app norm c i).
Notation reaccess := (Core.reaccess val upd app norm c i).
Notation respond := (Core.respond val upd app norm c i).
Notation on_ready := (Core.on_ready val upd app norm c i).
Notation unqueue_reaccess := (Core.unqueue_reaccess val upd app norm c i).
Notation run_cb := (Core.run_cb val upd app norm c i).

(* the Conv actions of a handler working on instance i *)
Definition d_hact (dz : bool) (a : action) : bool :=
  match a with
  | Conv.Dispose _ s cl => dz && Nat.eqb s i && negb cl
  | Conv.Respond _ s _ | Conv.Unqueue _ s _ | Conv.StartQueue _ s => Nat.eqb s i
  | _ => false
  end.

Record d_rel (dz : bool) (P : out -> bool) (k k' : tk) : Prop := {
  d_r_ta : exists la, ta k' = ta k ++ la /\ ts k' = cfold la (ts k) /\ forallb (d_hact dz) la = true;
  d_r_to : exists lo, tout k' = tout k ++ lo /\ forallb P lo = true;
  d_r_q : cqueue (tx k') = cqueue (tx k);
  d_r_disc : disc (tx k') = disc (tx k);
  d_r_tokset : tokset (tx k') = tokset (tx k);
  d_r_tok : tok (tx k') = tok (tx k);
  d_r_owner : owner (ty k') = owner (ty k);
  d_r_ans : ans (ty k') = ans (ty k)
}.

Lemma d_rel_refl : forall dz P k, d_rel dz P k k.
Proof.
  intros dz P k. constructor; try reflexivity.
  - exists []. rewrite app_nil_r. auto.
  - exists []. rewrite app_nil_r. auto.
Qed.
Lemma d_rel_trans : forall dz P k1 k2 k3, d_rel dz P k1 k2 -> d_rel dz P k2 k3 -> d_rel dz P k1 k3.
Proof.
  intros dz P k1 k2 k3 [(la & A1 & A2 & A3) (lo & B1 & B2) C D E F G H] [(la' & A1' & A2' & A3') (lo' & B1' & B2') C' D' E' F' G' H'].
  constructor; try congruence.
  - exists (la ++ la'). rewrite A1', A1, A2', A2, fold_left_app, forallb_app, A3, A3', app_assoc. auto.
  - exists (lo ++ lo'). rewrite B1', B1, forallb_app, B2, B2', app_assoc. auto.
Qed.
Lemma d_hact_weak : forall dz a, d_hact false a = true -> d_hact dz a = true.
Proof. intros dz [] H; cbn in *; try discriminate; assumption. Qed.
Lemma d_rel_weak : forall dz (P Q : out -> bool) k k', (forall x, P x = true -> Q x = true) -> d_rel false P k k' -> d_rel dz Q k k'.
Proof.
  intros dz P Q k k' HPQ [(la & A1 & A2 & A3) (lo & B1 & B2) C D E F G H]. constructor; try assumption.
  - exists la. repeat split; try assumption. eapply d_forallb_impl; [|exact A3]. apply d_hact_weak.
  - exists lo. split; [assumption|]. eapply d_forallb_impl; [|exact B2]. exact HPQ.
Qed.
Lemma d_rel_weakP : forall dz (P Q : out -> bool) k k', (forall x, P x = true -> Q x = true) -> d_rel dz P k k' -> d_rel dz Q k k'.
Proof.
  intros dz P Q k k' HPQ [A (lo & B1 & B2) C D E F G H]. constructor; try assumption.
  exists lo. split; [assumption|]. eapply d_forallb_impl; [|exact B2]. exact HPQ.
Qed.
Lemma d_rel_act : forall dz P k a, d_hact dz a = true -> d_rel dz P k (act k a).
Proof.
  intros dz P k a H. constructor; try reflexivity.
  - exists [a]. d_tkred. cbn [fold_left forallb]. rewrite H. auto.
  - exists []. d_tkred. rewrite app_nil_r. auto.
Qed.
Lemma d_rel_emit : forall dz P k o, forallb P o = true -> d_rel dz P k (emit k o).
Proof.
  intros dz P k o H. constructor; try reflexivity.
  - exists []. d_tkred. rewrite app_nil_r. auto.
  - exists o. auto.
Qed.
Lemma d_rel_setx : forall dz P k x, cqueue x = cqueue (tx k) -> disc x = disc (tx k) -> tokset x = tokset (tx k) ->
  tok x = tok (tx k) -> d_rel dz P k (setx k x).
Proof.
  intros dz P k x H1 H2 H3 H4. constructor; try assumption; try reflexivity.
  - exists []. d_tkred. rewrite app_nil_r. auto.
  - exists []. d_tkred. rewrite app_nil_r. auto.
Qed.
Lemma d_rel_sety : forall dz P k y, owner y = owner (ty k) -> ans y = ans (ty k) -> d_rel dz P k (sety k y).
Proof.
  intros dz P k y H1 H2. constructor; try assumption; try reflexivity.
  - exists []. d_tkred. rewrite app_nil_r. auto.
  - exists []. d_tkred. rewrite app_nil_r. auto.
Qed.

Ltac d_side := cbn; unfold d_nd; cbn; rewrite ?Nat.eqb_refl; reflexivity.
Ltac d_peel tac :=
  lazymatch goal with
  | |- d_rel _ _ ?k ?k => apply d_rel_refl
  | |- d_rel ?dz ?P ?k (Core.setx _ _ ?K _) => apply (d_rel_trans dz P k K); [d_peel tac | apply d_rel_setx; reflexivity]
  | |- d_rel ?dz ?P ?k (Core.sety _ _ ?K _) => apply (d_rel_trans dz P k K); [d_peel tac | apply d_rel_sety; reflexivity]
  | |- d_rel ?dz ?P ?k (Core.emit _ _ ?K _) =>
      apply (d_rel_trans dz P k K); [d_peel tac | apply d_rel_emit; first [apply d_plain_drained | apply d_plain_map_resp | d_side
                                                                       | eapply d_forallb_impl; [apply d_nd_plain|apply d_plain_drained]]]
  | |- d_rel ?dz ?P ?k (Core.act _ _ _ _ ?K _) => apply (d_rel_trans dz P k K); [d_peel tac | apply d_rel_act; d_side]
  | |- d_rel _ _ _ (if ?b then _ else _) => destruct b eqn:?; d_peel tac
  | |- _ => tac
  end.

Lemma d_dispose_rel : forall k, d_rel true (d_nd c) k (dispose_t k).
Proof. intros k. unfold Core.dispose_t. cbv zeta. d_peel idtac. Qed.

Ltac d_h1 :=
  lazymatch goal with
  | |- d_rel ?dz ?P ?k (Core.dispose_t _ _ _ _ _ ?K) => apply (d_rel_trans dz P k K); [d_peel ltac:(idtac; d_h1) | apply d_dispose_rel]
  end.
Lemma d_remove_rel : forall k n, d_rel true (d_nd c) k (remove_direct k n).
Proof. intros k n. unfold Core.remove_direct. cbv zeta. d_peel ltac:(idtac; d_h1). Qed.
Ltac d_h2 :=
  lazymatch goal with
  | |- d_rel ?dz ?P ?k (Core.remove_direct _ _ _ _ _ ?K _) => apply (d_rel_trans dz P k K); [d_peel ltac:(idtac; d_h2) | apply d_remove_rel]
  | |- _ => d_h1
  end.
Lemma d_unsubd_rel : forall k, d_rel true (d_nd c) k (unsubscribe_direct k).
Proof. intros k. unfold Core.unsubscribe_direct. d_peel ltac:(idtac; d_h2). Qed.
Lemma d_load_rel : forall k b, d_rel false (d_nd c) k (load_access k b).
Proof. intros k b. unfold Core.load_access. cbv zeta. d_peel idtac. Qed.
Ltac d_h3 :=
  lazymatch goal with
  | |- d_rel ?dz ?P ?k (Core.load_access _ _ _ _ ?K _) => apply (d_rel_trans dz P k K); [d_peel ltac:(idtac; d_h3) | apply d_load_rel]
  end.
Lemma d_hre_rel : forall k, d_rel false (d_nd c) k (handle_reaccess k).
Proof. intros k. unfold Core.handle_reaccess. cbv zeta. d_peel ltac:(idtac; d_h3). Qed.
Ltac d_h4 :=
  lazymatch goal with
  | |- d_rel ?dz ?P ?k (Core.handle_reaccess _ _ _ _ _ _ ?K) => apply (d_rel_trans dz P k K); [d_peel ltac:(idtac; d_h4) | apply d_hre_rel]
  end.
Lemma d_reaccess_rel : forall k, d_rel false (d_nd c) k (reaccess k).
Proof. intros k. unfold Core.reaccess. cbv zeta. d_peel ltac:(idtac; d_h4). Qed.
Lemma d_unq_rel : forall k, d_rel false (d_nd c) k (unqueue_reaccess k).
Proof. intros k. unfold Core.unqueue_reaccess. cbv zeta. d_peel ltac:(idtac; d_h4). Qed.
Ltac d_h5 :=
  lazymatch goal with
  | |- d_rel ?dz ?P ?k (Core.handle_reaccess _ _ _ _ _ _ ?K) =>
      apply (d_rel_trans dz P k K); [d_peel ltac:(idtac; d_h5) | apply (d_rel_weakP _ (d_nd c)); [apply d_nd_plain|apply d_hre_rel]]
  end.
Lemma d_respond_rel : forall k ids, d_rel false (d_plain c) k (respond k ids).
Proof.
  intros k ids. unfold Core.respond. destruct ids as [|id r]; [apply d_rel_refl|]. cbv zeta.
  apply (d_rel_trans _ _ k (if sent_ k then emit k [Core.OResp val upd c id None] else
     (if reflag (ty (emit k [Core.OResp val upd c id (Some (Conv.sval val upd (me k)))]))
      then handle_reaccess (act (emit k [Core.OResp val upd c id (Some (Conv.sval val upd (me k)))]) (Conv.Respond upd i 0))
      else emit (act (emit k [Core.OResp val upd c id (Some (Conv.sval val upd (me k)))])
                  (Conv.Respond upd i (length (Conv.eq val upd (me (emit k [Core.OResp val upd c id (Some (Conv.sval val upd (me k)))]))))))
             (drained c (me (emit k [Core.OResp val upd c id (Some (Conv.sval val upd (me k)))])))))).
  - d_peel ltac:(idtac; d_h5).
    all: try (apply (d_rel_emit false (d_plain c)); first [cbn; rewrite ?Nat.eqb_refl; reflexivity
              | eapply d_forallb_impl; [apply d_nd_plain|apply d_plain_drained]]).
  - apply d_rel_emit. eapply d_forallb_impl; [apply d_nd_plain|apply d_plain_map_resp].
Qed.

Lemma d_onready_rel : forall k id, d_rel false (d_plain c) k (on_ready k id).
Proof. intros k id. unfold Core.on_ready. cbv zeta. destruct (loaded_ k); [apply d_respond_rel|d_peel idtac]. Qed.
Lemma d_runcb_true_rel : forall k b, d_rel false (d_plain c) k (run_cb true k b).
Proof.
  intros k [id|]; cbn [Core.run_cb].
  - destruct (gone_ k); [apply d_rel_refl|apply d_onready_rel].
  - apply (d_rel_weakP _ (d_nd c)); [apply d_nd_plain|apply d_unq_rel].
Qed.
Lemma d_runcb_false_rel : forall k b, d_rel true (d_nd c) k (run_cb false k b).
Proof.
  intros k [id|]; cbn [Core.run_cb].
  - d_peel ltac:(idtac; d_h2).
  - eapply d_rel_trans; [apply d_unsubd_rel|]. apply (d_rel_weak _ (d_nd c)); [auto|apply d_unq_rel].
Qed.
Lemma d_fold_true_rel : forall l k, d_rel false (d_plain c) k (fold_left (run_cb true) l k).
Proof.
  induction l as [|b l IH]; intros k; cbn [fold_left]; [apply d_rel_refl|].
  eapply d_rel_trans; [apply d_runcb_true_rel|apply IH].
Qed.
Lemma d_fold_false_rel : forall l k, d_rel true (d_nd c) k (fold_left (run_cb false) l k).
Proof.
  induction l as [|b l IH]; intros k; cbn [fold_left]; [apply d_rel_refl|].
  eapply d_rel_trans; [apply d_runcb_false_rel|apply IH].
Qed.

(* what the actions of a handler cannot be *)
Lemma d_hact_noE : forall dz la, forallb (d_hact dz) la = true -> existsb d_arune la = false.
Proof. intros dz la. apply d_existsb_of_forallb. intros []; cbn; congruence. Qed.
Lemma d_hact_noC : forall dz la j, forallb (d_hact dz) la = true -> existsb (d_arunc j) la = false.
Proof. intros dz la j. apply d_existsb_of_forallb. intros []; cbn; congruence. Qed.
Lemma d_hact_noS : forall dz la j, forallb (d_hact dz) la = true -> existsb (d_asubs j) la = false.
Proof. intros dz la j. apply d_existsb_of_forallb. intros []; cbn; congruence. Qed.
Lemma d_hact_noN : forall dz la j, forallb (d_hact dz) la = true -> existsb (d_anop j) la = false.
Proof. intros dz la j. apply d_existsb_of_forallb. intros []; cbn; congruence. Qed.
Lemma d_hact_noR : forall dz la, forallb (d_hact dz) la = true -> existsb d_areacc la = false.
Proof. intros dz la. apply d_existsb_of_forallb. intros []; cbn; congruence. Qed.
Lemma d_hact_noD_other : forall dz la j, j <> i -> forallb (d_hact dz) la = true -> existsb (d_adisp j) la = false.
Proof.
  intros dz la j Hj. apply d_existsb_of_forallb. intros []; cbn; try congruence.
  intros H. apply andb_prop in H as [H _]. apply andb_prop in H as [_ H]. apply Nat.eqb_eq in H. subst.
  apply Nat.eqb_neq. congruence.
Qed.
Lemma d_hact_noD_false : forall la j, forallb (d_hact false) la = true -> existsb (d_adisp j) la = false.
Proof. intros la j. apply d_existsb_of_forallb. intros []; cbn; congruence. Qed.
Lemma d_hact_noclose : forall dz la s, forallb (d_hact dz) la = true -> ~ In (Conv.Dispose upd s true) la.
Proof.
  intros dz la s H Hin. rewrite forallb_forall in H. apply H in Hin. cbn in Hin. rewrite andb_false_r in Hin. discriminate.
Qed.

Lemma d_rel_gone_false : forall P k k', d_rel false P k k' -> gone_ k' = gone_ k.
Proof.
  intros P k k' [(la & A1 & A2 & A3) _ _ _ _ _ _ _]. unfold Core.gone_, Core.me. rewrite A2, d_fold_gone, (d_hact_noD_false la i A3).
  apply orb_false_r.
Qed.
Lemma d_rel_gone_mono : forall dz P k k', d_rel dz P k k' -> gone_ k = true -> gone_ k' = true.
Proof.
  intros dz P k k' [(la & A1 & A2 & A3) _ _ _ _ _ _ _] H. unfold Core.gone_, Core.me in *. rewrite A2, d_fold_gone, H. reflexivity.
Qed.
Lemma d_rel_inv : forall dz P k k', d_rel dz P k k' -> CInv (ts k) -> CInv (ts k').
Proof. intros dz P k k' [(la & A1 & A2 & A3) _ _ _ _ _ _ _] H. rewrite A2. apply d_fold_inv, H. Qed.

(* ---------- what holds of the task state between handlers ---------- *)
Record d_tinv (k : tk) : Prop := {
  d_v_inv : CInv (ts k);
  d_v_cur : cur (tx k) = if gone_ k then None else Some i;
  d_v_acb : acb (ty k) <> [] -> inflight (ty k) = true;
  d_v_rcb : rcb (ty k) <> [] -> gone_ k = false /\ loaded_ k = false
}.

Lemma d_tinv_emit : forall k o, d_tinv k -> d_tinv (emit k o).
Proof. intros k o [A B C D]. constructor; assumption. Qed.
Lemma d_tinv_setx : forall k x, cur x = cur (tx k) -> d_tinv k -> d_tinv (setx k x).
Proof. intros k x H [A B C D]. constructor; try assumption. d_tkred. rewrite H. exact B. Qed.
Lemma d_tinv_sety : forall k y, (acb y <> [] -> inflight y = true) -> (rcb y <> [] -> gone_ k = false /\ loaded_ k = false) ->
  d_tinv k -> d_tinv (sety k y).
Proof. intros k y H1 H2 [A B C D]. constructor; assumption. Qed.
Lemma d_tinv_sety_same : forall k y, acb y = acb (ty k) -> inflight y = inflight (ty k) -> rcb y = rcb (ty k) ->
  d_tinv k -> d_tinv (sety k y).
Proof. intros k y H1 H2 H3 [A B C D]. constructor; try assumption; d_tkred; rewrite ?H1, ?H2, ?H3; assumption. Qed.
Lemma d_gone_act : forall k a, gone_ (act k a) = gone_ k || d_adisp i a.
Proof. intros k a. unfold Core.gone_, Core.me. d_tkred. apply d_eff_static. Qed.
Lemma d_loaded_act : forall k a, d_arunc i a = false -> loaded_ k = false -> loaded_ (act k a) = false.
Proof.
  intros k a H H0. unfold Core.loaded_, Core.me in *. d_tkred. destruct (loaded (csubs (cstep (ts k) a) i)) eqn:E; [|reflexivity].
  apply d_eff_loaded in E; [congruence|exact H].
Qed.
Lemma d_tinv_act : forall k a, d_hact false a = true -> d_tinv k -> d_tinv (act k a).
Proof.
  intros k a H [A B C D].
  assert (Hg : gone_ (act k a) = gone_ k).
  { rewrite d_gone_act. destruct a; cbn in H |- *; try discriminate; apply orb_false_r. }
  constructor; try assumption.
  - d_tkred. apply Conv.step_inv; assumption.
  - rewrite Hg. exact B.
  - intros Hr. destruct (D Hr) as [D1 D2]. rewrite Hg. split; [exact D1|]. apply d_loaded_act; [|exact D2].
    destruct a; cbn in H |- *; try discriminate; reflexivity.
Qed.

Ltac d_ipeel tac :=
  lazymatch goal with
  | H : d_tinv ?k |- d_tinv ?k => exact H
  | |- d_tinv (Core.setx _ _ ?K _) => apply d_tinv_setx; [reflexivity | d_ipeel tac]
  | |- d_tinv (Core.sety _ _ ?K _) => apply d_tinv_sety_same; [reflexivity | reflexivity | reflexivity | d_ipeel tac]
  | |- d_tinv (Core.emit _ _ ?K _) => apply d_tinv_emit; d_ipeel tac
  | |- d_tinv (Core.act _ _ _ _ ?K _) => apply d_tinv_act; [cbn; rewrite ?Nat.eqb_refl; reflexivity | d_ipeel tac]
  | |- d_tinv (if ?b then _ else _) => destruct b eqn:?; d_ipeel tac
  | |- _ => tac
  end.

Lemma d_dispose_inv : forall k, d_tinv k -> d_tinv (dispose_t k).
Proof.
  intros k H. unfold Core.dispose_t. destruct (gone_ k) eqn:Eg; [exact H|]. cbv zeta. destruct H as [A B C D].
  assert (Hg : gone_ (act k (Conv.Dispose upd i false)) = true).
  { rewrite d_gone_act. cbn [d_adisp]. rewrite Nat.eqb_refl. apply orb_true_r. }
  constructor.
  - d_tkred. apply Conv.step_inv; assumption.
  - change (gone_ (setx ?K ?x)) with (gone_ (act k (Conv.Dispose upd i false))). rewrite Hg. reflexivity.
  - exact C.
  - d_tkred. cbn [Core.upd_y Core.rcb]. intros X. exfalso. apply X. reflexivity.
Qed.
Lemma d_remove_inv : forall k n, d_tinv k -> d_tinv (remove_direct k n).
Proof.
  intros k n H. unfold Core.remove_direct. cbv zeta. destruct (Nat.eqb (direct (tx k)) 0); [exact H|].
  assert (H1 : d_tinv (setx k (Core.with_cd (tx k) (cur (tx k)) (direct (tx k) - n)))) by (apply d_tinv_setx; [reflexivity|exact H]).
  destruct (Nat.eqb _ 0); [apply d_dispose_inv|]; exact H1.
Qed.
Lemma d_unsubd_inv : forall k, d_tinv k -> d_tinv (unsubscribe_direct k).
Proof.
  intros k H. unfold Core.unsubscribe_direct. destruct (Nat.ltb 0 (direct (tx k))); [|exact H].
  apply d_tinv_emit, d_remove_inv, H.
Qed.
Lemma d_tinv_sety' : forall k k' y, ts k' = ts k -> tx k' = tx k ->
  (acb y <> [] -> inflight y = true) -> (rcb y <> [] -> gone_ k = false /\ loaded_ k = false) ->
  d_tinv k -> d_tinv (sety k' y).
Proof.
  intros k k' y E1 E2 H1 H2 [A B C D]. unfold Core.gone_, Core.loaded_, Core.me in *.
  constructor; d_tkred; unfold Core.gone_, Core.loaded_, Core.me; d_tkred; rewrite ?E1, ?E2; assumption.
Qed.
Lemma d_load_inv : forall k b, d_tinv k -> d_tinv (load_access k b).
Proof.
  intros k b H. unfold Core.load_access. cbv zeta. destruct (inflight (ty k)) eqn:Ef.
  - apply d_tinv_sety; [intros _; reflexivity|apply (d_v_rcb k H)|exact H].
  - apply d_tinv_emit. apply (d_tinv_sety' k); [reflexivity|reflexivity|reflexivity| |exact H].
    d_tkred. cbn [Core.upd_y Core.rcb]. apply (d_v_rcb k H).
Qed.
Lemma d_hre_inv : forall k, d_tinv k -> d_tinv (handle_reaccess k).
Proof.
  intros k H. unfold Core.handle_reaccess. cbv zeta.
  d_ipeel ltac:(idtac; lazymatch goal with |- d_tinv (Core.load_access _ _ _ _ ?K _) => apply d_load_inv; d_ipeel idtac end).
Qed.
Lemma d_reaccess_inv : forall k, d_tinv k -> d_tinv (reaccess k).
Proof.
  intros k H. unfold Core.reaccess. cbv zeta.
  d_ipeel ltac:(idtac; lazymatch goal with |- d_tinv (Core.handle_reaccess _ _ _ _ _ _ ?K) => apply d_hre_inv; d_ipeel idtac end).
Qed.
Lemma d_unq_inv : forall k, d_tinv k -> d_tinv (unqueue_reaccess k).
Proof.
  intros k H. unfold Core.unqueue_reaccess. cbv zeta.
  d_ipeel ltac:(idtac; lazymatch goal with |- d_tinv (Core.handle_reaccess _ _ _ _ _ _ ?K) => apply d_hre_inv; d_ipeel idtac end).
Qed.
Lemma d_respond_inv : forall k ids, d_tinv k -> d_tinv (respond k ids).
Proof.
  intros k ids H. unfold Core.respond. destruct ids as [|id r]; [exact H|]. cbv zeta.
  d_ipeel ltac:(idtac; lazymatch goal with |- d_tinv (Core.handle_reaccess _ _ _ _ _ _ ?K) => apply d_hre_inv; d_ipeel idtac end).
Qed.
Lemma d_onready_inv : forall k id, gone_ k = false -> d_tinv k -> d_tinv (on_ready k id).
Proof.
  intros k id Hg H. unfold Core.on_ready. cbv zeta. destruct (loaded_ k) eqn:El; [apply d_respond_inv, H|].
  apply d_tinv_sety; [apply (d_v_acb k H)|intros _; auto|exact H].
Qed.
Lemma d_runcb_inv : forall g k b, (g = true -> gone_ k = false) -> d_tinv k -> d_tinv (run_cb g k b).
Proof.
  intros g k [id|] Hg H; cbn [Core.run_cb]; destruct g.
  - destruct (gone_ k) eqn:E; [exact H|]. apply d_onready_inv; [exact E|exact H].
  - apply d_remove_inv, d_tinv_emit, H.
  - apply d_unq_inv, H.
  - apply d_unq_inv, d_unsubd_inv, H.
Qed.
Lemma d_foldcb_inv : forall g l k, (g = true -> gone_ k = false) -> d_tinv k -> d_tinv (fold_left (run_cb g) l k).
Proof.
  intros g l. induction l as [|b l IH]; intros k Hg H; cbn [fold_left]; [exact H|].
  apply IH; [|apply d_runcb_inv; assumption].
  intros ->. rewrite (d_rel_gone_false _ _ _ (d_runcb_true_rel k b)). apply Hg. reflexivity.
Qed.

End d_Task.
Ltac d_side := cbn; unfold d_nd; cbn; rewrite ?Nat.eqb_refl; reflexivity.
(* ---------- plumbing ---------- *)
Lemma d_exec_snoc : forall t ops o, exec t (ops ++ [o]) = Core.exec1 val upd app norm (exec t ops) o.
Proof. intros t ops o. unfold Core.exec. rewrite fold_left_app. reflexivity. Qed.

Lemma d_exec_snoc' : forall t ops o,
  fst (exec t (ops ++ [o])) = fst (step (fst (exec t ops)) o) /\
  snd (exec t (ops ++ [o])) = snd (exec t ops) ++ snd (step (fst (exec t ops)) o).
Proof.
  intros t ops o. rewrite d_exec_snoc. destruct (exec t ops) as [s outs]. cbn [Core.exec1 fst snd].
  destruct (step s o) as [s' o']. split; reflexivity.
Qed.

Notation QReq := Core.QReq.
Notation QUnsub := Core.QUnsub.
Notation QToken := Core.QToken.
Notation QAccess := Core.QAccess.
Notation QSub := Core.QSub.
Notation QDispose := Core.QDispose.
Notation AReq := Core.AReq.
Notation AVal := Core.AVal.
Notation gone_ := (Core.gone_ val upd).
Notation loaded_ := (Core.loaded_ val upd).
Notation insts_of := (Core.insts_of val upd).
Notation OConnUnsub := (Core.OConnUnsub val upd).

Lemma d_set_conn_eq : forall f c x, Core.set_conn f c x c = x.
Proof. intros. unfold Core.set_conn. rewrite Nat.eqb_refl. reflexivity. Qed.
Lemma d_set_conn_neq : forall f c x c', c' <> c -> Core.set_conn f c x c' = f c'.
Proof. intros f c x c' H. unfold Core.set_conn. apply Nat.eqb_neq in H. rewrite H. reflexivity. Qed.
Lemma d_set_inst_eq : forall f i x, Core.set_inst f i x i = x.
Proof. intros. unfold Core.set_inst. rewrite Nat.eqb_refl. reflexivity. Qed.
Lemma d_set_inst_neq : forall f i x i', i' <> i -> Core.set_inst f i x i' = f i'.
Proof. intros f i x i' H. unfold Core.set_inst. apply Nat.eqb_neq in H. rewrite H. reflexivity. Qed.

Lemma d_insts_of_in : forall s c j, In j (insts_of s c) <-> j < next s /\ owner (insts s j) = c.
Proof.
  intros s c j. unfold Core.insts_of. rewrite filter_In, in_seq, Nat.eqb_eq. split; intros [A B]; split; auto; lia.
Qed.
Lemma d_disp_map : forall j l, existsb (d_adisp j) (map (fun i => Conv.Dispose upd i true) l) = Conv.mem j l.
Proof.
  intros j l. unfold Conv.mem. induction l as [|i l IH]; cbn; [reflexivity|]. rewrite IH, (Nat.eqb_sym i j). reflexivity.
Qed.
Lemma d_mem_false_iff : forall j l, Conv.mem j l = false <-> ~ In j l.
Proof.
  intros j l. rewrite <- Conv.mem_In. destruct (Conv.mem j l); split; intros; try discriminate; try reflexivity; try congruence.
Qed.

(* ---------- structural invariant ---------- *)
Record d_W1 (s : st) : Prop := {
  d_a_inv : CInv (cv s);
  d_a_fresh_inst : forall i, next s <= i -> insts s i = Core.inst0;
  d_a_fresh_sub : forall i, next s <= i ->
    subscribed (csubs (cv s) i) = false /\ ccq (csubs (cv s) i) = [] /\ gone (csubs (cv s) i) = false;
  d_a_sub : forall i, i < next s -> subscribed (csubs (cv s) i) = true;
  d_a_cur : forall c i, cur (conns s c) = Some i -> i < next s /\ owner (insts s i) = c /\ gone (csubs (cv s) i) = false;
  d_a_gone : forall i, i < next s -> cur (conns s (owner (insts s i))) = Some i \/ gone (csubs (cv s) i) = true;
  d_a_qacc : forall c i, In (QAccess i) (cqueue (conns s c)) -> i < next s /\ owner (insts s i) = c;
  d_a_qsub : forall c i, In (QSub i) (cqueue (conns s c)) -> i < next s /\ owner (insts s i) = c;
  d_a_nop : forall i, In (INop i) (cqe (cv s)) -> i < next s;
  d_a_mqsub : mqsub s = false -> next s = 0;
  d_a_acb : forall i, acb (insts s i) <> [] -> inflight (insts s i) = true;
  d_a_rcb : forall i, rcb (insts s i) <> [] -> gone (csubs (cv s) i) = false /\ loaded (csubs (cv s) i) = false
}.

Lemma d_live_cur : forall s i, d_W1 s -> i < next s -> gone (csubs (cv s) i) = false ->
  cur (conns s (owner (insts s i))) = Some i.
Proof. intros s i W Hlt Hg. destruct (d_a_gone s W i Hlt) as [H|H]; [exact H|congruence]. Qed.

(* ---------- the task of one grant: its shape ---------- *)
Definition d_isreq (it : Core.qitem) : bool := match it with Core.QUnsub _ _ | Core.QToken _ => true | _ => false end.
Definition d_pre_ok (s : st) (c : nat) (it : Core.qitem) (i : nat) (pre : list action) (nx : nat) (ms : bool) : Prop :=
  (i < next s /\ cur (conns s c) = Some i /\ nx = next s /\ ms = mqsub s /\
     ((pre = [] /\ forall j, it <> QSub j) \/ (it = QSub i /\ pre = [Conv.RunC upd i])))
  \/ (i = next s /\ cur (conns s c) = None /\ nx = S (next s) /\ ms = true /\ pre = [Conv.Subscribe upd i] /\ exists id, it = QReq id).

Inductive d_shape (s : st) (c : nat) (it : Core.qitem) (q : list Core.qitem) : tk -> option nat -> nat -> bool -> Prop :=
| d_shN : forall k, cur (conns s c) = None -> ta k = [] -> cur (tx k) = None -> forallb (d_nd c) (tout k) = true ->
    d_isreq it = true -> (forall t, it = QToken t -> tout k = []) -> d_shape s c it q k None (next s) (mqsub s)
| d_shH : forall k i pre la nx ms, d_pre_ok s c it i pre nx ms -> ta k = pre ++ la -> forallb (d_hact i true) la = true ->
    d_tinv i k -> owner (ty k) = c -> forallb (d_plain c) (tout k) = true -> it <> QDispose ->
    d_shape s c it q k (Some i) nx ms
| d_shG : forall k i pre, i < next s -> owner (insts s i) = c -> gone (csubs (cv s) i) = true ->
    ((it = QAccess i /\ pre = []) \/ (it = QSub i /\ pre = [Conv.RunC upd i])) -> ta k = pre ->
    tx k = Core.with_q (conns s c) q -> ty k = insts s i -> tout k = [] ->
    d_shape s c it q k (Some i) (next s) (mqsub s)
| d_shD : forall k, it = QDispose -> ta k = map (fun j => Conv.Dispose upd j true) (insts_of s c) -> cur (tx k) = None ->
    tout k = [OConnUnsub c] ->
    (forall i, cur (conns s c) = Some i -> owner (ty k) = c /\ acb (ty k) = [] /\ rcb (ty k) = [] /\ inflight (ty k) = inflight (insts s i)) ->
    d_shape s c it q k (cur (conns s c)) (next s) (mqsub s).

Definition d_summary (s : st) (c : nat) (it : Core.qitem) (q : list Core.qitem) (r : tk * option nat * nat * bool) : Prop :=
  let '(k, oi, nx, ms) := r in
  cqueue (tx k) = q /\ disc (tx k) = disc (conns s c) /\ ts k = cfold (ta k) (cv s) /\ d_shape s c it q k oi nx ms.

Lemma d_forallb_nd_plain : forall c l, forallb (d_nd c) l = true -> forallb (d_plain c) l = true.
Proof. intros c l. apply d_forallb_impl. apply d_nd_plain. Qed.

(* assembling the shape of a task that ran handlers on instance i, started from K1 *)
Lemma d_shape_H : forall s c it q i pre nx ms K1 k,
  d_pre_ok s c it i pre nx ms -> it <> QDispose ->
  ta K1 = pre -> ts K1 = cfold pre (cv s) -> cqueue (tx K1) = q -> disc (tx K1) = disc (conns s c) -> owner (ty K1) = c ->
  forallb (d_plain c) (tout K1) = true ->
  d_rel i true (d_plain c) K1 k -> d_tinv i k ->
  d_summary s c it q (k, Some i, nx, ms).
Proof.
  intros s c it q i pre nx ms K1 k Hp Hit A1 A2 A3 A4 A5 A6 [(la & B1 & B2 & B3) (lo & C1 & C2) D1 D2 D3 D4 D5 D6] Hinv.
  unfold d_summary. split; [congruence|]. split; [congruence|]. split.
  - rewrite B1, B2, A1, A2, fold_left_app. reflexivity.
  - apply (d_shH s c it q k i pre la nx ms); try assumption; try congruence.
    rewrite C1, forallb_app, A6, C2. reflexivity.
Qed.

Lemma d_k0_tinv : forall s c i x y, d_W1 s -> cur x = Some i -> cur (conns s c) = Some i -> y = insts s i ->
  d_tinv i {| Core.ts := cv s; Core.ta := []; Core.tx := x; Core.ty := y; Core.to := [] |}.
Proof.
  intros s c i x y W Hx Hc ->. destruct (d_a_cur s W c i Hc) as (A & B & C).
  constructor; d_tkred.
  - apply (d_a_inv s W).
  - unfold Core.gone_, Core.me. d_tkred. rewrite C. exact Hx.
  - apply (d_a_acb s W).
  - apply (d_a_rcb s W).
Qed.

Ltac d_ct_unfold Eq := unfold Core.conn_task; cbv zeta; rewrite Eq.
Ltac d_preok_cur := left; repeat split; auto; left; split; [reflexivity|intros ? ?; discriminate].

Lemma d_sum_req : forall s c id q, d_W1 s -> cqueue (conns s c) = QReq id :: q -> d_summary s c (QReq id) q (conn_task s c).
Proof.
  intros s c id q W Eq. d_ct_unfold Eq. cbn [Core.cur Core.with_q].
  destruct (cur (conns s c)) as [i|] eqn:Ecur.
  - destruct (d_a_cur s W c i Ecur) as (Flt & Fown & Fng).
    set (K1 := {| Core.ts := cv s; Core.ta := []; Core.tx := Core.with_cd (Core.with_q (conns s c) q) (Some i) (S (direct (Core.with_q (conns s c) q)));
                  Core.ty := insts s i; Core.to := [] |}).
    assert (HK : d_tinv i K1) by (apply (d_k0_tinv s c); auto).
    assert (Hg : gone_ i K1 = false) by exact Fng.
    apply (d_shape_H s c (QReq id) q i [] (next s) (mqsub s) K1); try reflexivity; try assumption; try discriminate.
    + d_preok_cur.
    + destruct (acc (ty K1)) as [[|]|].
      * apply (d_rel_weak _ _ (d_plain c)); [auto|apply d_onready_rel].
      * apply (d_rel_weakP _ _ (d_nd c)); [apply d_nd_plain|].
        eapply d_rel_trans; [|apply d_remove_rel]. apply d_rel_emit. cbn. unfold d_nd. cbn. rewrite Nat.eqb_refl. reflexivity.
      * apply (d_rel_weak _ _ (d_nd c)); [apply d_nd_plain|apply d_load_rel].
    + destruct (acc (ty K1)) as [[|]|].
      * apply d_onready_inv; assumption.
      * apply d_remove_inv, d_tinv_emit, HK.
      * apply d_load_inv, HK.
  - destruct (d_a_fresh_sub s W (next s) (le_n _)) as (Fs & Fc & Fg).
    set (y := {| Core.owner := c; Core.acb := []; Core.rcb := []; Core.acc := None; Core.inflight := false; Core.ans := None;
                 Core.reflag := false; Core.rq := false; Core.lost := [] |}).
    set (K1 := emit (act {| Core.ts := cv s; Core.ta := []; Core.tx := Core.with_cd (Core.with_q (conns s c) q) (Some (next s)) 1;
                            Core.ty := y; Core.to := [] |} (Conv.Subscribe upd (next s))) (if mqsub s then [] else [Core.OMqSub val upd])).
    assert (HK : d_tinv (next s) K1).
    { constructor.
      - unfold K1. d_tkred. apply Conv.step_inv; [assumption|assumption|apply (d_a_inv s W)].
      - unfold Core.gone_, Core.me, K1. d_tkred. destruct (d_eff_static (cv s) (Conv.Subscribe upd (next s)) (next s)) as [-> _].
        rewrite Fg. reflexivity.
      - unfold K1, y. d_tkred. cbn. intros X. exfalso. apply X. reflexivity.
      - unfold K1, y. d_tkred. cbn. intros X. exfalso. apply X. reflexivity. }
    apply (d_shape_H s c (QReq id) q (next s) [Conv.Subscribe upd (next s)] (S (next s)) true K1); try reflexivity; try assumption; try discriminate.
    + right. repeat split; eauto.
    + unfold K1. d_tkred. destruct (mqsub s); reflexivity.
    + apply (d_rel_weak _ _ (d_nd c)); [apply d_nd_plain|apply d_load_rel].
    + apply d_load_inv, HK.
Qed.

Lemma d_sum_unsub : forall s c id cnt q, d_W1 s -> cqueue (conns s c) = QUnsub id cnt :: q ->
  d_summary s c (QUnsub id cnt) q (conn_task s c).
Proof.
  intros s c id cnt q W Eq. d_ct_unfold Eq. cbn [Core.cur Core.with_q].
  destruct (cur (conns s c)) as [i|] eqn:Ecur.
  - destruct (d_a_cur s W c i Ecur) as (Flt & Fown & Fng).
    set (K1 := {| Core.ts := cv s; Core.ta := []; Core.tx := Core.with_q (conns s c) q; Core.ty := insts s i; Core.to := [] |}).
    assert (HK : d_tinv i K1) by (apply (d_k0_tinv s c); auto).
    apply (d_shape_H s c (QUnsub id cnt) q i [] (next s) (mqsub s) K1); try reflexivity; try assumption; try discriminate.
    + d_preok_cur.
    + apply (d_rel_weakP _ _ (d_nd c)); [apply d_nd_plain|].
      destruct (Nat.eqb cnt 0); [apply d_rel_emit; d_side|].
      destruct (Nat.leb cnt _); [|apply d_rel_emit; d_side].
      eapply d_rel_trans; [|apply d_remove_rel].
      destruct (Nat.eqb _ 0).
      * apply (d_rel_trans _ _ _ _ (emit K1 [Core.OAck val upd c id cnt])); [apply d_rel_emit; d_side|]. apply d_rel_sety; reflexivity.
      * apply d_rel_emit; d_side.
    + destruct (Nat.eqb cnt 0); [apply d_tinv_emit, HK|].
      destruct (Nat.leb cnt _); [|apply d_tinv_emit, HK].
      apply d_remove_inv. destruct (Nat.eqb _ 0); [|apply d_tinv_emit, HK].
      apply d_tinv_sety; [intros X; exfalso; apply X; reflexivity| |apply d_tinv_emit, HK].
      apply (d_v_rcb i K1 HK).
  - unfold d_summary. d_tkred. repeat split; try reflexivity.
    apply d_shN; try reflexivity; try assumption; try discriminate; try (intros ? X; discriminate X). d_side.
Qed.

Lemma d_sum_token : forall s c t q, d_W1 s -> cqueue (conns s c) = QToken t :: q ->
  d_summary s c (QToken t) q (conn_task s c).
Proof.
  intros s c t q W Eq. d_ct_unfold Eq. cbn [Core.cur Core.with_q Core.cqueue Core.direct Core.disc Core.tokset].
  destruct (cur (conns s c)) as [i|] eqn:Ecur.
  - destruct (d_a_cur s W c i Ecur) as (Flt & Fown & Fng).
    set (K1 := {| Core.ts := cv s; Core.ta := [];
                  Core.tx := {| Core.cqueue := q; Core.cur := Some i; Core.direct := direct (conns s c); Core.tokset := true; Core.tok := t; Core.disc := disc (conns s c) |};
                  Core.ty := insts s i; Core.to := [] |}).
    assert (HK : d_tinv i K1) by (apply (d_k0_tinv s c); auto).
    apply (d_shape_H s c (QToken t) q i [] (next s) (mqsub s) K1); try reflexivity; try assumption; try discriminate.
    + d_preok_cur.
    + destruct (tokset (conns s c)); [|apply d_rel_refl]. apply (d_rel_weak _ _ (d_nd c)); [apply d_nd_plain|apply d_reaccess_rel].
    + destruct (tokset (conns s c)); [|exact HK]. apply d_reaccess_inv, HK.
  - unfold d_summary. d_tkred. cbn [Core.cqueue Core.disc Core.cur]. repeat split; try reflexivity.
    apply d_shN; try reflexivity; try assumption; try discriminate.
Qed.

Lemma d_sum_access : forall s c i q, d_W1 s -> cqueue (conns s c) = QAccess i :: q ->
  d_summary s c (QAccess i) q (conn_task s c).
Proof.
  intros s c i q W Eq. d_ct_unfold Eq.
  assert (A : In (QAccess i) (cqueue (conns s c))) by (rewrite Eq; left; reflexivity).
  apply (d_a_qacc s W) in A as (Flt & Fown).
  unfold Core.is_gone. destruct (gone (csubs (cv s) i)) eqn:Eg.
  - unfold d_summary. d_tkred. repeat split; try reflexivity.
    apply (d_shG s c (QAccess i) q _ i []); auto.
  - pose proof (d_live_cur s i W Flt Eg) as Ecur. rewrite Fown in Ecur.
    set (K0 := {| Core.ts := cv s; Core.ta := []; Core.tx := Core.with_q (conns s c) q; Core.ty := insts s i; Core.to := [] |}).
    assert (HK0 : d_tinv i K0) by (apply (d_k0_tinv s c); auto).
    destruct (ans (insts s i)) as [g|] eqn:Ea.
    + set (y := Core.upd_y (insts s i) [] (rcb (insts s i)) (Some g) false None (reflag (insts s i)) (rq (insts s i)) (lost (insts s i))).
      assert (HK : d_tinv i (sety K0 y)).
      { apply d_tinv_sety; [intros X; exfalso; apply X; reflexivity|apply (d_v_rcb i K0 HK0)|exact HK0]. }
      apply (d_shape_H s c (QAccess i) q i [] (next s) (mqsub s) (sety K0 y)); try reflexivity; try assumption; try discriminate.
      * d_preok_cur.
      * destruct g.
        -- apply (d_rel_weak _ _ (d_plain c)); [auto|apply d_fold_true_rel].
        -- apply (d_rel_weakP _ _ (d_nd c)); [apply d_nd_plain|apply d_fold_false_rel].
      * apply d_foldcb_inv; [|exact HK]. intros _. exact Eg.
    + apply (d_shape_H s c (QAccess i) q i [] (next s) (mqsub s) K0); try reflexivity; try assumption; try discriminate.
      * d_preok_cur.
      * apply d_rel_refl.
Qed.

Lemma d_runc_loaded : forall σ i, (forall r, ccq (csubs σ i) <> Conv.CLoaded upd :: r) ->
  loaded (csubs (cstep σ (Conv.RunC upd i)) i) = loaded (csubs σ i).
Proof.
  intros σ i H. cbn [Conv.step]. destruct (ccq (csubs σ i)) as [|[|e|] r] eqn:E; cbn [Conv.subs]; try reflexivity.
  - exfalso. eapply H. reflexivity.
  - rewrite Conv.set_sub_eq. destruct (loaded (csubs σ i)) eqn:El; cbn [negb]; [|reflexivity].
    destruct (Conv.flag val upd (csubs σ i)); [reflexivity|]. destruct (Conv.proc val upd app _ e). reflexivity.
  - rewrite Conv.set_sub_eq. reflexivity.
Qed.
Lemma d_runc_gone : forall σ i j, gone (csubs (cstep σ (Conv.RunC upd i)) j) = gone (csubs σ j).
Proof. intros σ i j. destruct (d_eff_static σ (Conv.RunC upd i) j) as [-> _]. apply orb_false_r. Qed.

Lemma d_fold_act : forall l k,
  ta (fold_left act l k) = ta k ++ l /\ ts (fold_left act l k) = cfold l (ts k) /\ tx (fold_left act l k) = tx k /\
  ty (fold_left act l k) = ty k /\ tout (fold_left act l k) = tout k.
Proof.
  induction l as [|a l IH]; intros k; cbn [fold_left]; [rewrite app_nil_r; auto|].
  destruct (IH (act k a)) as (A & B & C & D & E). rewrite A, B, C, D, E. d_tkred. rewrite <- app_assoc. auto.
Qed.

Lemma d_sum_dispose : forall s c q, d_W1 s -> cqueue (conns s c) = QDispose :: q -> d_summary s c QDispose q (conn_task s c).
Proof.
  intros s c q W Eq. d_ct_unfold Eq. cbn [Core.cur Core.with_q].
  match goal with |- context [fold_left (Core.act val upd app norm) ?l ?k] => destruct (d_fold_act l k) as (A & B & C & D & E); set (K := fold_left act l k) in * end.
  unfold d_summary. d_tkred. rewrite C, A, B. d_tkred. cbn [Core.with_cd Core.cqueue Core.disc List.app]. repeat split; try reflexivity.
  apply d_shD; d_tkred; try reflexivity.
  - exact A.
  - rewrite C. reflexivity.
  - rewrite E. reflexivity.
  - intros i Hi. rewrite D. d_tkred. rewrite Hi. cbn [Core.upd_y Core.owner Core.acb Core.rcb Core.inflight].
    destruct (d_a_cur s W c i Hi) as (_ & Fo & _). auto.
Qed.

Lemma d_sum_sub : forall s c i q, d_W1 s -> cqueue (conns s c) = QSub i :: q -> d_summary s c (QSub i) q (conn_task s c).
Proof.
  intros s c i q W Eq. d_ct_unfold Eq.
  assert (A : In (QSub i) (cqueue (conns s c))) by (rewrite Eq; left; reflexivity).
  apply (d_a_qsub s W) in A as (Flt & Fown).
  set (K0 := {| Core.ts := cv s; Core.ta := []; Core.tx := Core.with_q (conns s c) q; Core.ty := insts s i; Core.to := [] |}).
  set (K1 := act K0 (Conv.RunC upd i)).
  assert (Hg1 : gone_ i K1 = gone (csubs (cv s) i)) by apply d_runc_gone.
  destruct (gone (csubs (cv s) i)) eqn:Eg.
  - (* stale *)
    pose proof (Conv.igl _ _ _ _ (d_a_inv s W) i Eg) as Hl.
    unfold d_summary.
    assert (X : forall k, k = K1 -> cqueue (tx k) = q /\ disc (tx k) = disc (conns s c) /\ ts k = cfold (ta k) (cv s) /\
                  d_shape s c (QSub i) q k (Some i) (next s) (mqsub s)).
    { intros k ->. repeat split; try reflexivity. apply (d_shG s c (QSub i) q _ i [Conv.RunC upd i]); auto. }
    destruct (ccq (csubs (cv s) i)) as [|[|e|] r] eqn:Ecq; apply X; try reflexivity.
    + rewrite Hl. cbn [andb]. unfold K1, K0, Core.emit, Core.act. d_tkred. reflexivity.
    + unfold Core.reaccess. fold K0. fold K1. rewrite Hg1. reflexivity.
  - pose proof (d_live_cur s i W Flt Eg) as Ecur. rewrite Fown in Ecur.
    assert (HK0 : d_tinv i K0) by (apply (d_k0_tinv s c); auto).
    assert (HI1 : CInv (ts K1)) by (apply Conv.step_inv; [assumption|assumption|apply (d_a_inv s W)]).
    assert (Hc1 : cur (tx K1) = if gone_ i K1 then None else Some i) by (rewrite Hg1; exact Ecur).
    assert (Pre : d_pre_ok s c (QSub i) i [Conv.RunC upd i] (next s) (mqsub s)) by (left; repeat split; auto).
    destruct (ccq (csubs (cv s) i)) as [|[|e|] r] eqn:Ecq.
    + (* nothing *)
      assert (HK1 : d_tinv i K1).
      { constructor; try assumption; [apply (d_a_acb s W)|]. intros Hr. destruct (d_a_rcb s W i Hr) as [R1 R2]. rewrite Hg1. split; [reflexivity|].
        unfold Core.loaded_, Core.me, K1, K0. d_tkred. rewrite d_runc_loaded; [exact R2|]. rewrite Ecq. discriminate. }
      apply (d_shape_H s c (QSub i) q i [Conv.RunC upd i] (next s) (mqsub s) K1); try reflexivity; try assumption; try discriminate.
      apply d_rel_refl.
    + (* Loaded *)
      set (z := ty K1).
      set (K2 := sety K1 (Core.upd_y z (acb z) [] (acc z) (inflight z) (ans z) (reflag z) (rq z) (lost z))).
      assert (HK2 : d_tinv i K2).
      { constructor; try assumption; [apply (d_a_acb s W)|]. intros X. exfalso. apply X. reflexivity. }
      apply (d_shape_H s c (QSub i) q i [Conv.RunC upd i] (next s) (mqsub s) K2); try reflexivity; try assumption; try discriminate.
      * apply (d_rel_weak _ _ (d_plain c)); [auto|apply d_respond_rel].
      * apply d_respond_inv, HK2.
    + (* Event *)
      assert (HK1 : d_tinv i K1).
      { constructor; try assumption; [apply (d_a_acb s W)|]. intros Hr. destruct (d_a_rcb s W i Hr) as [R1 R2]. rewrite Hg1. split; [reflexivity|].
        unfold Core.loaded_, Core.me, K1, K0. d_tkred. rewrite d_runc_loaded; [exact R2|]. rewrite Ecq. discriminate. }
      apply (d_shape_H s c (QSub i) q i [Conv.RunC upd i] (next s) (mqsub s) K1); try reflexivity; try assumption; try discriminate.
      * apply d_rel_emit. destruct (_ && _); [|reflexivity]. apply d_forallb_nd_plain, d_plain_proc.
      * apply d_tinv_emit, HK1.
    + (* Reacc *)
      assert (HK1 : d_tinv i K1).
      { constructor; try assumption; [apply (d_a_acb s W)|]. intros Hr. destruct (d_a_rcb s W i Hr) as [R1 R2]. rewrite Hg1. split; [reflexivity|].
        unfold Core.loaded_, Core.me, K1, K0. d_tkred. rewrite d_runc_loaded; [exact R2|]. rewrite Ecq. discriminate. }
      apply (d_shape_H s c (QSub i) q i [Conv.RunC upd i] (next s) (mqsub s) K1); try reflexivity; try assumption; try discriminate.
      * apply (d_rel_weak _ _ (d_nd c)); [apply d_nd_plain|apply d_reaccess_rel].
      * apply d_reaccess_inv, HK1.
Qed.

Lemma d_task_summary : forall s c it q, d_W1 s -> cqueue (conns s c) = it :: q -> d_summary s c it q (conn_task s c).
Proof.
  intros s c [id|id cnt|t|i|i|] q W Eq.
  - apply d_sum_req; assumption.
  - apply d_sum_unsub; assumption.
  - apply d_sum_token; assumption.
  - apply d_sum_access; assumption.
  - apply d_sum_sub; assumption.
  - apply d_sum_dispose; assumption.
Qed.

(* ---------- one step ---------- *)
Notation GrantConn := (Core.GrantConn upd).

Lemma d_step_grant : forall s c it q, cqueue (conns s c) = it :: q ->
  forall k oi nx ms, conn_task s c = (k, oi, nx, ms) ->
  step s (GrantConn c) =
    ({| Core.cv := cfold (ta k) (cv s); Core.conns := Core.set_conn (conns s) c (tx k);
        Core.insts := match oi with Some i => Core.set_inst (insts s) i (ty k) | None => insts s end;
        Core.next := nx; Core.mqsub := ms; Core.getreq := getreq s |}, tout k).
Proof.
  intros s c it q Eq k oi nx ms E. cbn [Core.step Core.acts_of]. rewrite Eq, E. reflexivity.
Qed.

Lemma d_step_cv : forall s o, cv (fst (step s o)) = cfold (acts_of s o) (cv s).
Proof.
  intros s o. destruct o; cbn [Core.step Core.acts_of].
  - destruct (disc (conns s c)); reflexivity.
  - destruct (disc (conns s c)); reflexivity.
  - destruct (disc (conns s c)); reflexivity.
  - destruct (Core.is_done (conns s c)); reflexivity.
  - destruct (Nat.ltb i (next s) && Core.unanswered (insts s i)); reflexivity.
  - reflexivity.
  - reflexivity.
  - reflexivity.
  - reflexivity.
  - reflexivity.
  - destruct (cqueue (conns s c)) as [|it q] eqn:Eq.
    + unfold Core.conn_task. cbv zeta. rewrite Eq. reflexivity.
    + destruct (conn_task s c) as [[[k oi] nx] ms]. reflexivity.
Qed.

Lemma d_step_inv : forall s o, CInv (cv s) -> CInv (cv (fst (step s o))).
Proof. intros s o H. rewrite d_step_cv. apply d_fold_inv, H. Qed.

Lemma d_shape_acts : forall s c it q k oi nx ms, d_shape s c it q k oi nx ms ->
  existsb d_arune (ta k) = false /\ existsb d_areacc (ta k) = false /\
  (forall j, existsb (d_anop j) (ta k) = false) /\
  (forall j, existsb (d_asubs j) (ta k) = true -> j = next s /\ nx = S (next s)) /\
  (forall j, existsb (d_arunc j) (ta k) = true -> it = QSub j) /\
  (forall j, existsb (d_adisp j) (ta k) = true -> (oi = Some j /\ it <> QDispose) \/ (it = QDispose /\ In j (insts_of s c))).
Proof.
  intros s c it q k oi nx ms Sh. destruct Sh as [k Hc Ha Hk Ho Hit|k i pre la nx ms Hp Ha Hla Hinv Hown Ho Hit|k i pre Hlt Hown Hg Hpre Ha Htx Hty Ho|k Hit Ha Hk Ho Hy].
  - rewrite Ha. cbn. repeat split; intros; discriminate.
  - rewrite Ha. rewrite !existsb_app, (d_hact_noE _ _ _ Hla), (d_hact_noR _ _ _ Hla).
    assert (P : pre = [] \/ (it = QSub i /\ pre = [Conv.RunC upd i]) \/ (i = next s /\ nx = S (next s) /\ pre = [Conv.Subscribe upd i])).
    { destruct Hp as [(_ & _ & _ & _ & [(P & _)|P])|(P1 & _ & P2 & _ & P3 & _)]; auto. }
    split; [|split; [|split; [|split; [|split]]]].
    + destruct P as [->|[(_ & ->)|(_ & _ & ->)]]; reflexivity.
    + destruct P as [->|[(_ & ->)|(_ & _ & ->)]]; reflexivity.
    + intros j. rewrite existsb_app, (d_hact_noN _ _ _ j Hla). destruct P as [->|[(_ & ->)|(_ & _ & ->)]]; reflexivity.
    + intros j. rewrite existsb_app, (d_hact_noS _ _ _ j Hla). destruct P as [->|[(_ & ->)|(P1 & P2 & ->)]]; cbn; try discriminate.
      rewrite !orb_false_r. intros E. apply Nat.eqb_eq in E. subst. auto.
    + intros j. rewrite existsb_app, (d_hact_noC _ _ _ j Hla). destruct P as [->|[(P1 & ->)|(_ & _ & ->)]]; cbn; try discriminate.
      rewrite !orb_false_r. intros E. apply Nat.eqb_eq in E. subst. auto.
    + intros j. rewrite existsb_app. destruct (Nat.eq_dec j i) as [->|Hne].
      * intros _. left. auto.
      * rewrite (d_hact_noD_other _ _ _ j Hne Hla). destruct P as [->|[(P1 & ->)|(_ & _ & ->)]]; cbn; discriminate.
  - rewrite Ha. destruct Hpre as [(-> & ->)|(-> & ->)]; cbn; repeat split; intros; try discriminate.
    rewrite orb_false_r in H. apply Nat.eqb_eq in H. subst. reflexivity.
  - rewrite Ha. repeat split; intros; try (apply d_existsb_map_false; reflexivity);
      try (rewrite d_existsb_map_false in H by reflexivity; discriminate).
    right. split; [exact Hit|]. rewrite d_disp_map in H. apply Conv.mem_In. exact H.
Qed.

(* the instance a task works on is an old one of its connection, or the new one *)
Lemma d_shape_oi : forall s c it q k oi nx ms i, d_W1 s -> d_shape s c it q k oi nx ms -> oi = Some i ->
  owner (ty k) = c /\ ((i < next s /\ owner (insts s i) = c) \/ (i = next s /\ nx = S (next s))).
Proof.
  intros s c it q k oi nx ms i W Sh E.
  destruct Sh as [k Hc Ha Hk Ho Hit|k i0 pre la nx ms Hp Ha Hla Hinv Hown Ho Hit|k i0 pre Hlt Hown Hg Hpre Ha Htx Hty Ho|k Hit Ha Hk Ho Hy].
  - discriminate.
  - injection E as ->. split; [exact Hown|]. destruct Hp as [(P1 & P2 & _)|(P1 & _ & P2 & _)]; [left|right; auto].
    destruct (d_a_cur s W c i P2) as (_ & X & _). auto.
  - injection E as ->. rewrite Hty. auto.
  - destruct (Hy i E) as (Y1 & _). split; [exact Y1|]. left. destruct (d_a_cur s W c i E) as (X1 & X2 & _). auto.
Qed.

Lemma d_shape_next : forall s c it q k oi nx ms, d_shape s c it q k oi nx ms ->
  (nx = next s /\ ms = mqsub s) \/ (nx = S (next s) /\ ms = true /\ oi = Some (next s)).
Proof.
  intros s c it q k oi nx ms Sh.
  destruct Sh as [k Hc Ha Hk Ho Hit|k i0 pre la nx ms Hp Ha Hla Hinv Hown Ho Hit|k i0 pre Hlt Hown Hg Hpre Ha Htx Hty Ho|k Hit Ha Hk Ho Hy]; auto.
  destruct Hp as [(P1 & P2 & P3 & P4 & _)|(P1 & _ & P2 & P3 & _)]; [left; auto|right; subst; auto].
Qed.

(* ---------- case analysis of a step that is not a connection grant ---------- *)
Ltac d_ng_cases s o :=
  destruct o as [c id|c id k|c|c t|i g| |u| | | |c]; cbn [Core.step Core.acts_of];
  [ destruct (Core.disc (conns s c)) eqn:Edisc
  | destruct (Core.disc (conns s c)) eqn:Edisc
  | destruct (Core.disc (conns s c)) eqn:Edisc
  | destruct (Core.is_done (conns s c)) eqn:Edone
  | destruct (Nat.ltb i (next s) && Core.unanswered (insts s i)) eqn:Eun
  | destruct (getreq s && negb (Conv.answered val upd (cv s))) eqn:Eget
  | destruct (mqsub s) eqn:Emq
  | destruct (mqsub s) eqn:Emq
  | destruct (mqsub s) eqn:Emq
  |
  | ]; cbn [fst snd].

Ltac d_proj := cbn [Core.cv Core.conns Core.insts Core.next Core.mqsub Core.getreq
                    Core.cqueue Core.cur Core.direct Core.disc Core.tokset Core.tok
                    Core.owner Core.acb Core.rcb Core.acc Core.inflight Core.ans Core.reflag Core.rq Core.lost
                    Core.with_q Core.push_q Core.upd_y Core.with_cd].
Ltac d_projH H := cbn [Core.cv Core.conns Core.insts Core.next Core.mqsub Core.getreq
                    Core.cqueue Core.cur Core.direct Core.disc Core.tokset Core.tok
                    Core.owner Core.acb Core.rcb Core.acc Core.inflight Core.ans Core.reflag Core.rq Core.lost
                    Core.with_q Core.push_q Core.upd_y Core.with_cd] in H.
Ltac d_eqb :=
  repeat match goal with
  | |- context [Nat.eqb ?a ?b] =>
      let He := fresh "Heq" in let Hn := fresh "Hne" in destruct (Nat.eqb_spec a b) as [He|Hn]; [first [subst a|subst b|idtac]|]
  | H : context [Nat.eqb ?a ?b] |- _ =>
      let He := fresh "Heq" in let Hn := fresh "Hne" in destruct (Nat.eqb_spec a b) as [He|Hn]; [first [subst a|subst b|idtac]|]
  end.
Ltac d_acts := cbn [existsb d_adisp d_asubs d_arunc d_arune d_anop d_areacc]; rewrite ?orb_false_r.

(* ---------- fan-out, pass-through ---------- *)
Definition d_fanl (σ σ' : cst) (own : nat -> nat) (l : list nat) (f : nat -> Core.conn) : nat -> Core.conn :=
  fold_left (fun g i => if Core.grew val upd σ σ' i then Core.set_conn g (own i) (Core.push_q (g (own i)) (QSub i)) else g) l f.

Lemma d_fanl_spec : forall σ σ' own l f c,
  cqueue (d_fanl σ σ' own l f c) =
    cqueue (f c) ++ map QSub (filter (fun i => Core.grew val upd σ σ' i && Nat.eqb (own i) c) l) /\
  cur (d_fanl σ σ' own l f c) = cur (f c) /\ direct (d_fanl σ σ' own l f c) = direct (f c) /\
  disc (d_fanl σ σ' own l f c) = disc (f c).
Proof.
  intros σ σ' own l. induction l as [|i l IH]; intros f c.
  - cbn. rewrite app_nil_r. auto.
  - unfold d_fanl in *. cbn [fold_left filter].
    destruct (Core.grew val upd σ σ' i) eqn:Eg; cbn [andb].
    + destruct (IH (Core.set_conn f (own i) (Core.push_q (f (own i)) (QSub i))) c) as (A & B & C & D).
      rewrite A, B, C, D. unfold Core.set_conn. rewrite (Nat.eqb_sym (own i) c).
      destruct (Nat.eqb_spec c (own i)) as [->|Hne]; cbn [Core.push_q Core.with_q Core.cqueue Core.cur Core.direct Core.disc map].
      * rewrite <- app_assoc. auto.
      * auto.
    + apply IH.
Qed.

Lemma d_fan_spec : forall σ σ' own n f c,
  cqueue (Core.fan val upd σ σ' own n f c) =
    cqueue (f c) ++ map QSub (filter (fun i => Core.grew val upd σ σ' i && Nat.eqb (own i) c) (seq 0 n)) /\
  cur (Core.fan val upd σ σ' own n f c) = cur (f c) /\ direct (Core.fan val upd σ σ' own n f c) = direct (f c) /\
  disc (Core.fan val upd σ σ' own n f c) = disc (f c).
Proof. intros. apply (d_fanl_spec σ σ' own (seq 0 n) f c). Qed.

Definition d_passq (σ : cst) (own : nat -> nat) (c : nat) : list Core.qitem :=
  match Core.nop_head val upd σ with
  | Some i => if Core.is_closed val upd σ i then [] else if Nat.eqb (own i) c then [QAccess i] else []
  | None => []
  end.
Lemma d_pass_spec : forall σ own f c,
  cqueue (Core.pass val upd σ own f c) = cqueue (f c) ++ d_passq σ own c /\
  cur (Core.pass val upd σ own f c) = cur (f c) /\ direct (Core.pass val upd σ own f c) = direct (f c) /\
  disc (Core.pass val upd σ own f c) = disc (f c).
Proof.
  intros σ own f c. unfold Core.pass, d_passq. destruct (Core.nop_head val upd σ) as [i|]; [|rewrite app_nil_r; auto].
  destruct (Core.is_closed val upd σ i); [rewrite app_nil_r; auto|].
  unfold Core.set_conn. rewrite (Nat.eqb_sym (own i) c).
  destruct (Nat.eqb_spec c (own i)) as [->|Hne]; cbn [Core.push_q Core.with_q Core.cqueue Core.cur Core.direct Core.disc];
    [|rewrite app_nil_r]; auto.
Qed.

(* the queue of a connection after a cache-worker grant *)
Definition d_esq (s : st) (σ' : cst) (c : nat) : list Core.qitem :=
  map QSub (filter (fun i => Core.grew val upd (cv s) σ' i && Nat.eqb (owner (insts s i)) c) (seq 0 (next s)))
  ++ d_passq (cv s) (fun i => owner (insts s i)) c.
Lemma d_es_conn : forall s σ' c,
  let x := Core.pass val upd (cv s) (fun i => owner (insts s i))
             (Core.fan val upd (cv s) σ' (fun i => owner (insts s i)) (next s) (conns s)) c in
  cqueue x = cqueue (conns s c) ++ d_esq s σ' c /\ cur x = cur (conns s c) /\ direct x = direct (conns s c) /\
  disc x = disc (conns s c).
Proof.
  intros s σ' c x. unfold x.
  destruct (d_pass_spec (cv s) (fun i => owner (insts s i))
             (Core.fan val upd (cv s) σ' (fun i => owner (insts s i)) (next s) (conns s)) c) as (A & B & C & D).
  destruct (d_fan_spec (cv s) σ' (fun i => owner (insts s i)) (next s) (conns s) c) as (A' & B' & C' & D').
  rewrite A, B, C, D, A', B', C', D'. unfold d_esq. rewrite app_assoc. auto.
Qed.

Lemma d_in_esq_sub : forall s σ' c i, In (QSub i) (d_esq s σ' c) ->
  i < next s /\ owner (insts s i) = c /\ Core.grew val upd (cv s) σ' i = true.
Proof.
  intros s σ' c i H. unfold d_esq in H. apply in_app_or in H as [H|H].
  - apply in_map_iff in H as (j & E & H). injection E as ->. apply filter_In in H as [H1 H2].
    apply in_seq in H1. apply andb_prop in H2 as [H2 H3]. apply Nat.eqb_eq in H3. repeat split; try assumption; lia.
  - unfold d_passq in H. destruct (Core.nop_head val upd (cv s)) as [j|]; [|destruct H].
    destruct (Core.is_closed val upd (cv s) j); [destruct H|]. destruct (Nat.eqb (owner (insts s j)) c); [|destruct H].
    destruct H as [H|[]]. discriminate.
Qed.
Lemma d_in_esq_acc : forall s σ' c i, In (QAccess i) (d_esq s σ' c) ->
  Core.nop_head val upd (cv s) = Some i /\ owner (insts s i) = c.
Proof.
  intros s σ' c i H. unfold d_esq in H. apply in_app_or in H as [H|H].
  - apply in_map_iff in H as (j & E & H). discriminate.
  - unfold d_passq in H. destruct (Core.nop_head val upd (cv s)) as [j|]; [|destruct H].
    destruct (Core.is_closed val upd (cv s) j); [destruct H|]. destruct (Nat.eqb_spec (owner (insts s j)) c); [|destruct H].
    destruct H as [H|[]]. injection H as ->. auto.
Qed.
Lemma d_in_esq_other : forall s σ' c x, In x (d_esq s σ' c) -> exists i, x = QSub i \/ x = QAccess i.
Proof.
  intros s σ' c x H. unfold d_esq in H. apply in_app_or in H as [H|H].
  - apply in_map_iff in H as (j & E & H). exists j. left. auto.
  - unfold d_passq in H. destruct (Core.nop_head val upd (cv s)) as [j|]; [|destruct H].
    destruct (Core.is_closed val upd (cv s) j); [destruct H|]. destruct (Nat.eqb (owner (insts s j)) c); [|destruct H].
    destruct H as [H|[]]. exists j. right. auto.
Qed.
Lemma d_nop_head_in : forall σ i, Core.nop_head val upd σ = Some i -> exists q, cqe σ = INop i :: q.
Proof.
  intros σ i. unfold Core.nop_head. destruct (cqe σ) as [|[] q]; try discriminate. intros H. injection H as ->. eauto.
Qed.

Ltac d_es_look c' :=
  match goal with
  | |- context [Core.pass val upd (cv ?s) ?own (Core.fan val upd (cv ?s) ?σ' ?own (next ?s) (conns ?s)) c'] =>
      let Q := fresh "Qes" in let C := fresh "Ces" in let D := fresh "Des" in let E := fresh "Ees" in
      destruct (d_es_conn s σ' c') as (Q & C & D & E); cbv zeta in Q, C, D, E; rewrite ?Q, ?C, ?D, ?E
  end.
Ltac d_es_lookH H c' :=
  match type of H with
  | context [Core.pass val upd (cv ?s) ?own (Core.fan val upd (cv ?s) ?σ' ?own (next ?s) (conns ?s)) c'] =>
      let Q := fresh "Qes" in let C := fresh "Ces" in let D := fresh "Des" in let E := fresh "Ees" in
      destruct (d_es_conn s σ' c') as (Q & C & D & E); cbv zeta in Q, C, D, E; rewrite ?Q, ?C, ?D, ?E in H
  end.

Definition d_nongrant (o : Core.op upd) : Prop := forall c, o <> GrantConn c.

(* ---------- frame facts of steps that are not connection grants ---------- *)
Lemma d_ng_next : forall s o, d_nongrant o -> next (fst (step s o)) = next s /\ mqsub (fst (step s o)) = mqsub s.
Proof. intros s o Hng. d_ng_cases s o; d_proj; auto. exfalso. eapply Hng. reflexivity. Qed.

Lemma d_ng_inst : forall s o j, d_nongrant o ->
  let y := insts (fst (step s o)) j in let y0 := insts s j in
  owner y = owner y0 /\ acb y = acb y0 /\ rcb y = rcb y0 /\ acc y = acc y0 /\ inflight y = inflight y0 /\ reflag y = reflag y0 /\
  rq y = rq y0 /\ lost y = lost y0 /\ (y = y0 \/ j < next s) /\
  (ans y = ans y0 \/ exists g, o = Core.MqAccess upd j g /\ ans y = Some g /\ Core.unanswered y0 = true /\ j < next s).
Proof.
  intros s o j Hng. d_ng_cases s o; d_proj; cbv zeta; try (repeat split; auto; fail).
  - apply andb_prop in Eun as [E1 E2]. apply Nat.ltb_lt in E1. unfold Core.set_inst. destruct (Nat.eqb_spec j i) as [->|Hne]; d_proj.
    + repeat split; auto. right. exists g. auto.
    + repeat split; auto.
  - exfalso. eapply Hng. reflexivity.
Qed.

Lemma d_ng_conn : forall s o c', d_nongrant o ->
  cur (conns (fst (step s o)) c') = cur (conns s c') /\ direct (conns (fst (step s o)) c') = direct (conns s c') /\
  (disc (conns s c') = true -> disc (conns (fst (step s o)) c') = true) /\
  (disc (conns (fst (step s o)) c') = disc (conns s c') \/ (o = Core.Disc upd c' /\ disc (conns s c') = false)).
Proof.
  intros s o c' Hng. d_ng_cases s o; d_proj; try d_es_look c'; try (repeat split; auto; fail).
  all: try (unfold Core.set_conn; destruct (Nat.eqb_spec c' c) as [->|Hne]; d_proj; repeat split; auto; fail).
  exfalso. eapply Hng. reflexivity.
Qed.

Lemma d_ng_acts : forall s o j, d_nongrant o ->
  existsb (d_adisp j) (acts_of s o) = false /\ existsb (d_asubs j) (acts_of s o) = false /\
  existsb (d_arunc j) (acts_of s o) = false /\ (existsb (d_anop j) (acts_of s o) = true -> j < next s) /\
  (existsb d_arune (acts_of s o) = true -> o = Core.GrantEs upd \/ mqsub s = false) /\
  (existsb d_areacc (acts_of s o) = true -> o = Core.MqReacc upd).
Proof.
  intros s o j Hng. destruct o; cbn [Core.acts_of]; try (cbn; repeat split; intros; auto; discriminate).
  - destruct (Nat.ltb i (next s) && Core.unanswered (insts s i)) eqn:E; cbn; repeat split; intros; auto; try discriminate.
    rewrite orb_false_r in H. apply Nat.eqb_eq in H. subst. apply andb_prop in E as [E _]. apply Nat.ltb_lt in E. exact E.
  - destruct (getreq s && negb (Conv.answered val upd (cv s))); cbn; repeat split; intros; auto; discriminate.
  - destruct (mqsub s); cbn; repeat split; intros; auto; discriminate.
  - destruct (mqsub s); cbn; repeat split; intros; auto; discriminate.
  - destruct (mqsub s); cbn; repeat split; intros; auto; discriminate.
  - exfalso. eapply Hng. reflexivity.
Qed.

(* where the items of a connection queue come from *)
Lemma d_queue_new : forall s o c' x, d_nongrant o -> In x (cqueue (conns (fst (step s o)) c')) ->
  In x (cqueue (conns s c')) \/
  match o with
  | Core.CSub _ c id => x = QReq id /\ c' = c /\ disc (conns s c) = false
  | Core.CUnsub _ c id k => x = QUnsub id k /\ c' = c /\ disc (conns s c) = false
  | Core.ConnToken _ c t => x = QToken t /\ c' = c
  | Core.Disc _ c => x = QDispose /\ c' = c /\ disc (conns s c) = false
  | Core.GrantEs _ => In x (d_esq s (cfold [Conv.RunE upd] (cv s)) c')
  | _ => False
  end.
Proof.
  intros s o c' x Hng. d_ng_cases s o; d_proj; try (intros H; left; exact H); try d_es_look c'.
  all: try (unfold Core.set_conn; d_eqb; d_proj; try (intros H; left; exact H)).
  all: try (intros H; apply in_app_or in H as [H|H]; [left; exact H|right]; try exact H; destruct H as [<-|[]]; auto; fail).
  exfalso. eapply Hng. reflexivity.
Qed.

Lemma d_not_loaded_fold : forall acts σ j, existsb (d_arunc j) acts = false ->
  loaded (csubs σ j) = false -> loaded (csubs (cfold acts σ) j) = false.
Proof.
  intros acts σ j H H0. destruct (loaded (csubs (cfold acts σ) j)) eqn:E; [|reflexivity].
  apply d_fold_loaded in E; [congruence|assumption].
Qed.

Lemma d_w1_ng : forall s o, d_nongrant o -> d_W1 s -> d_W1 (fst (step s o)).
Proof.
  intros s o Hng W.
  destruct (d_ng_next s o Hng) as [En Em].
  assert (Hgone : forall j, gone (csubs (cv (fst (step s o))) j) = gone (csubs (cv s) j)).
  { intros j. rewrite d_step_cv, d_fold_gone. destruct (d_ng_acts s o j Hng) as (-> & _). apply orb_false_r. }
  assert (Hsub : forall j, subscribed (csubs (cv (fst (step s o))) j) = subscribed (csubs (cv s) j)).
  { intros j. rewrite d_step_cv, d_fold_subscribed. destruct (d_ng_acts s o j Hng) as (_ & -> & _). apply orb_false_r. }
  assert (Hown : forall j, owner (insts (fst (step s o)) j) = owner (insts s j)).
  { intros j. apply (d_ng_inst s o j Hng). }
  constructor.
  - apply d_step_inv, (d_a_inv s W).
  - intros j Hj. rewrite En in Hj. destruct (d_ng_inst s o j Hng) as (_ & _ & _ & _ & _ & _ & _ & _ & [E|E] & _); [|lia].
    rewrite E. apply (d_a_fresh_inst s W). exact Hj.
  - intros j Hj. rewrite En in Hj. destruct (d_a_fresh_sub s W j Hj) as (A & B & C). rewrite Hgone, Hsub. repeat split; try assumption.
    rewrite d_step_cv. destruct (d_ng_acts s o j Hng) as (_ & X1 & X2 & _).
    rewrite d_fold_cq_unsub; try assumption. apply (d_a_inv s W).
  - intros j Hj. rewrite En in Hj. rewrite Hsub. apply (d_a_sub s W j Hj).
  - intros c' i' Hc. destruct (d_ng_conn s o c' Hng) as (Ec & _). rewrite Ec in Hc. destruct (d_a_cur s W c' i' Hc) as (A & B & C).
    rewrite En, Hown, Hgone. auto.
  - intros j Hj. rewrite En in Hj. rewrite Hown, Hgone. destruct (d_ng_conn s o (owner (insts s j)) Hng) as (-> & _).
    apply (d_a_gone s W j Hj).
  - intros c' i' H. rewrite En, Hown. apply d_queue_new in H as [H|H]; [apply (d_a_qacc s W); exact H| |exact Hng].
    destruct o; try contradiction; try (destruct H as (H & _); discriminate).
    apply d_in_esq_acc in H as [H1 H2]. split; [|exact H2].
    apply d_nop_head_in in H1 as [q Hq]. apply (d_a_nop s W). rewrite Hq. left. reflexivity.
  - intros c' i' H. rewrite En, Hown. apply d_queue_new in H as [H|H]; [apply (d_a_qsub s W); exact H| |exact Hng].
    destruct o; try contradiction; try (destruct H as (H & _); discriminate).
    apply d_in_esq_sub in H as (H1 & H2 & _). auto.
  - intros j H. rewrite En. rewrite d_step_cv in H. apply d_fold_qe_back in H as [H|H]; [apply (d_a_nop s W); exact H|].
    apply (d_ng_acts s o j Hng). exact H.
  - rewrite En, Em. apply (d_a_mqsub s W).
  - intros j. destruct (d_ng_inst s o j Hng) as (_ & -> & _ & _ & -> & _). apply (d_a_acb s W).
  - intros j. destruct (d_ng_inst s o j Hng) as (_ & _ & -> & _). intros H. destruct (d_a_rcb s W j H) as [A B]. rewrite Hgone.
    split; [exact A|]. rewrite d_step_cv. apply d_not_loaded_fold; [apply (d_ng_acts s o j Hng)|exact B].
Qed.

Lemma d_grant_dec : forall (o : Core.op upd), (exists c, o = GrantConn c) \/ d_nongrant o.
Proof. intros o. destruct o; try (right; intros c' H; discriminate). left. eauto. Qed.

(* ---------- a connection grant keeps the structural invariant ---------- *)
Lemma d_w1_grant : forall s c it q, d_W1 s -> cqueue (conns s c) = it :: q -> d_W1 (fst (step s (GrantConn c))).
Proof.
  intros s c it q W Eq. pose proof (d_task_summary s c it q W Eq) as Sm.
  destruct (conn_task s c) as [[[k oi] nx] ms] eqn:Ect. rewrite (d_step_grant s c it q Eq k oi nx ms Ect). cbn [fst].
  destruct Sm as (Sq & Sd & Sts & Sh).
  destruct (d_shape_acts s c it q k oi nx ms Sh) as (AE & AR & AN & AS & AC & AD).
  pose proof (d_shape_next s c it q k oi nx ms Sh) as Hnx.
  assert (Hle : next s <= nx) by (destruct Hnx as [(-> & _)|(-> & _)]; lia).
  assert (Hoi : forall i, oi = Some i -> owner (ty k) = c /\ ((i < next s /\ owner (insts s i) = c) \/ (i = next s /\ nx = S (next s)))).
  { intros i E. apply (d_shape_oi s c it q k oi nx ms i W Sh E). }
  set (ins' := match oi with Some i => Core.set_inst (insts s) i (ty k) | None => insts s end).
  assert (Hown : forall j, j < next s -> owner (ins' j) = owner (insts s j)).
  { intros j Hj. unfold ins'. destruct oi as [i|]; [|reflexivity]. unfold Core.set_inst. destruct (Nat.eqb_spec j i) as [->|Hne]; [|reflexivity].
    destruct (Hoi i eq_refl) as (H1 & [(_ & H2)|(H2 & _)]); [congruence|lia]. }
  assert (Hgm : forall j, gone (csubs (cv s) j) = true -> gone (csubs (cfold (ta k) (cv s)) j) = true).
  { intros j H. rewrite d_fold_gone, H. reflexivity. }
  assert (Hgo : forall j, j < next s -> owner (insts s j) <> c -> gone (csubs (cfold (ta k) (cv s)) j) = gone (csubs (cv s) j)).
  { intros j Hj Ho. rewrite d_fold_gone. destruct (existsb (d_adisp j) (ta k)) eqn:E; [|apply orb_false_r]. exfalso.
    apply AD in E as [(E & _)|(_ & E)].
    - destruct (Hoi j E) as (_ & [(_ & H2)|(H2 & _)]); [congruence|lia].
    - apply d_insts_of_in in E as [_ E]. congruence. }
  assert (Hlt_oi : forall i, oi = Some i -> i < nx).
  { intros i E. destruct (Hoi i E) as (_ & [(H & _)|(H1 & H2)]); lia. }
  constructor; d_proj.
  - apply d_fold_inv, (d_a_inv s W).
  - intros j Hj. unfold ins'. destruct oi as [i|]; [|apply (d_a_fresh_inst s W); lia].
    pose proof (Hlt_oi i eq_refl). rewrite d_set_inst_neq by lia. apply (d_a_fresh_inst s W). lia.
  - intros j Hj. destruct (d_a_fresh_sub s W j) as (A & B & C); [lia|].
    assert (E1 : existsb (d_asubs j) (ta k) = false).
    { destruct (existsb (d_asubs j) (ta k)) eqn:E; [|reflexivity]. apply AS in E as [E1 E2]. lia. }
    assert (E2 : existsb (d_arunc j) (ta k) = false).
    { destruct (existsb (d_arunc j) (ta k)) eqn:E; [|reflexivity]. apply AC in E.
      assert (X : In (QSub j) (cqueue (conns s c))) by (rewrite Eq, E; left; reflexivity). apply (d_a_qsub s W) in X. lia. }
    assert (E3 : existsb (d_adisp j) (ta k) = false).
    { destruct (existsb (d_adisp j) (ta k)) eqn:E; [|reflexivity]. apply AD in E as [(E & _)|(_ & E)].
      - apply Hlt_oi in E. lia.
      - apply d_insts_of_in in E. lia. }
    rewrite d_fold_subscribed, d_fold_gone, A, C, E1, E3. repeat split; try reflexivity.
    rewrite d_fold_cq_unsub; try assumption. apply (d_a_inv s W).
  - intros j Hj. rewrite d_fold_subscribed. destruct (Nat.lt_ge_cases j (next s)) as [Hl|Hg]; [rewrite (d_a_sub s W j Hl); reflexivity|].
    destruct Hnx as [(-> & _)|(-> & _ & Eoi)]; [lia|]. assert (j = next s) by lia. subst j.
    destruct Sh as [k Hc Ha Hk Ho Hit|k i0 pre la nx ms Hp Ha Hla Hinv Hown' Ho Hit|k i0 pre Hlt Hown' Hg' Hpre Ha Htx Hty Ho|k Hit Ha Hk Ho Hy]; try discriminate; try lia.
    + destruct Hp as [(P1 & P2 & P3 & _)|(P1 & _ & P2 & _ & P3 & _)]; [lia|]. rewrite Ha, P3, P1. cbn. rewrite Nat.eqb_refl. apply orb_true_r.
  - (* d_a_cur *)
    intros c' i' Hc. destruct (Nat.eq_dec c' c) as [->|Hcc].
    + rewrite d_set_conn_eq in Hc.
      destruct Sh as [k Hc0 Ha Hk Ho Hit|k i0 pre la nx ms Hp Ha Hla Hinv Hown' Ho Hit|k i0 pre Hlt Hown' Hg' Hpre Ha Htx Hty Ho|k Hit Ha Hk Ho Hy]; try congruence.
      * pose proof (d_v_cur i0 k Hinv) as Vc. rewrite Hc in Vc. unfold Core.gone_, Core.me in Vc. rewrite Sts in Vc.
        destruct (gone (csubs (cfold (ta k) (cv s)) i0)) eqn:Eg; [discriminate|]. injection Vc as ->.
        split; [apply Hlt_oi; reflexivity|]. unfold ins'. rewrite d_set_inst_eq. auto.
      * rewrite Htx in Hc. d_projH Hc. destruct (d_a_cur s W c i' Hc) as (A & B & C).
        assert (Hne : i' <> i0) by congruence.
        split; [lia|]. unfold ins'. rewrite d_set_inst_neq by exact Hne. split; [exact B|].
        rewrite Ha, d_fold_gone, C. destruct Hpre as [(_ & ->)|(_ & ->)]; reflexivity.
    + rewrite d_set_conn_neq in Hc by exact Hcc. destruct (d_a_cur s W c' i' Hc) as (A & B & C).
      split; [lia|]. rewrite Hown by exact A. split; [exact B|]. rewrite Hgo; try assumption. congruence.
  - (* d_a_gone *)
    intros j Hj. destruct (Nat.lt_ge_cases j (next s)) as [Hl|Hg].
    + rewrite Hown by exact Hl. destruct (Nat.eq_dec (owner (insts s j)) c) as [Hoc|Hoc].
      * rewrite Hoc, d_set_conn_eq. destruct (d_a_gone s W j Hl) as [G|G]; [|right; apply Hgm; exact G]. rewrite Hoc in G.
        destruct Sh as [k Hc0 Ha Hk Ho Hit|k i0 pre la nx ms Hp Ha Hla Hinv Hown' Ho Hit|k i0 pre Hlt Hown' Hg' Hpre Ha Htx Hty Ho|k Hit Ha Hk Ho Hy]; try congruence.
        -- destruct Hp as [(P1 & P2 & _)|(_ & P2 & _)]; [|congruence]. rewrite G in P2. injection P2 as ->.
           pose proof (d_v_cur i0 k Hinv) as Vc. unfold Core.gone_, Core.me in Vc. rewrite Sts in Vc.
           destruct (gone (csubs (cfold (ta k) (cv s)) i0)); auto.
        -- left. rewrite Htx. d_proj. exact G.
        -- right. rewrite d_fold_gone, Ha, d_disp_map. replace (Conv.mem j (insts_of s c)) with true; [apply orb_true_r|].
           symmetry. apply Conv.mem_In. apply d_insts_of_in. auto.
      * rewrite d_set_conn_neq by exact Hoc. destruct (d_a_gone s W j Hl) as [G|G]; [left; exact G|right; apply Hgm; exact G].
    + destruct Hnx as [(-> & _)|(-> & _ & Eoi)]; [lia|]. assert (j = next s) by lia. subst j.
      destruct (Hoi _ Eoi) as (Ho & _). unfold ins'. rewrite Eoi, d_set_inst_eq, Ho, d_set_conn_eq.
      destruct Sh as [k Hc0 Ha Hk Ho' Hit|k i0 pre la nx ms Hp Ha Hla Hinv Hown' Ho' Hit|k i0 pre Hlt Hown' Hg' Hpre Ha Htx Hty Ho'|k Hit Ha Hk Ho' Hy]; try discriminate; try lia.
      * injection Eoi as ->. pose proof (d_v_cur _ k Hinv) as Vc. unfold Core.gone_, Core.me in Vc. rewrite Sts in Vc.
        destruct (gone (csubs (cfold (ta k) (cv s)) (next s))); auto.
  - (* d_a_qacc *)
    intros c' i' H.
    assert (H0 : In (QAccess i') (cqueue (conns s c'))).
    { destruct (Nat.eq_dec c' c) as [->|Hcc]; [rewrite d_set_conn_eq, Sq in H; rewrite Eq; right; exact H|rewrite d_set_conn_neq in H by exact Hcc; exact H]. }
    destruct (d_a_qacc s W c' i' H0) as [A B]. rewrite Hown by exact A. split; [lia|exact B].
  - intros c' i' H.
    assert (H0 : In (QSub i') (cqueue (conns s c'))).
    { destruct (Nat.eq_dec c' c) as [->|Hcc]; [rewrite d_set_conn_eq, Sq in H; rewrite Eq; right; exact H|rewrite d_set_conn_neq in H by exact Hcc; exact H]. }
    destruct (d_a_qsub s W c' i' H0) as [A B]. rewrite Hown by exact A. split; [lia|exact B].
  - intros j H. apply d_fold_qe_back in H as [H|H]; [apply (d_a_nop s W) in H; lia|]. rewrite AN in H. discriminate.
  - intros Hm. destruct Hnx as [(-> & ->)|(_ & -> & _)]; [apply (d_a_mqsub s W); exact Hm|discriminate].
  - (* d_a_acb *)
    intros j. unfold ins'.
    destruct Sh as [k Hc0 Ha Hk Ho' Hit|k i0 pre la nx ms Hp Ha Hla Hinv Hown' Ho' Hit|k i0 pre Hlt Hown' Hg' Hpre Ha Htx Hty Ho'|k Hit Ha Hk Ho' Hy].
    + apply (d_a_acb s W).
    + unfold Core.set_inst. destruct (Nat.eqb_spec j i0) as [->|Hne]; [apply (d_v_acb i0 k Hinv)|apply (d_a_acb s W)].
    + unfold Core.set_inst. destruct (Nat.eqb_spec j i0) as [->|Hne]; [rewrite Hty|]; apply (d_a_acb s W).
    + destruct (cur (conns s c)) as [i|] eqn:Ec; [|apply (d_a_acb s W)].
      unfold Core.set_inst. destruct (Nat.eqb_spec j i) as [->|Hne]; [|apply (d_a_acb s W)].
      destruct (Hy i eq_refl) as (_ & -> & _). intros X. exfalso. apply X. reflexivity.
  - (* d_a_rcb *)
    intros j. unfold ins'.
    assert (Other : rcb (insts s j) <> [] -> oi <> Some j ->
              gone (csubs (cfold (ta k) (cv s)) j) = false /\ loaded (csubs (cfold (ta k) (cv s)) j) = false).
    { intros Hr Hne. destruct (d_a_rcb s W j Hr) as [R1 R2]. split.
      - rewrite d_fold_gone, R1. destruct (existsb (d_adisp j) (ta k)) eqn:E; [|reflexivity]. exfalso.
        apply AD in E as [(E & _)|(E1 & E)]; [congruence|]. apply d_insts_of_in in E as [E2 E3].
        destruct (d_a_gone s W j E2) as [G|G]; [|congruence]. rewrite E3 in G.
        destruct Sh as [k Hc0 Ha Hk Ho' Hit|k i0 pre la nx ms Hp Ha Hla Hinv Hown' Ho' Hit|k i0 pre Hlt Hown' Hg' Hpre Ha Htx Hty Ho'|k Hit Ha Hk Ho' Hy]; try congruence.
        destruct Hpre as [(X & _)|(X & _)]; congruence.
      - apply d_not_loaded_fold; [|exact R2]. destruct (existsb (d_arunc j) (ta k)) eqn:E; [|reflexivity]. exfalso.
        pose proof (AC j E) as E'. subst it.
        destruct Sh as [k Hc0 Ha Hk Ho' Hit|k i0 pre la nx ms Hp Ha Hla Hinv Hown' Ho' Hit|k i0 pre Hlt Hown' Hg' Hpre Ha Htx Hty Ho'|k Hit Ha Hk Ho' Hy]; try discriminate.
        + destruct Hp as [(P1 & P2 & P3 & P4 & [(-> & _)|(P5 & ->)])|(_ & _ & _ & _ & _ & id & X)]; try discriminate.
          * rewrite Ha in E. cbn [List.app] in E. rewrite (d_hact_noC _ _ _ j Hla) in E. discriminate.
          * injection P5 as ->. congruence.
        + destruct Hpre as [(X & _)|(X & _)]; [discriminate|]. injection X as ->. congruence. }
    destruct Sh as [k Hc0 Ha Hk Ho' Hit|k i0 pre la nx ms Hp Ha Hla Hinv Hown' Ho' Hit|k i0 pre Hlt Hown' Hg' Hpre Ha Htx Hty Ho'|k Hit Ha Hk Ho' Hy].
    + intros Hr. apply Other; [exact Hr|discriminate].
    + unfold Core.set_inst. destruct (Nat.eqb_spec j i0) as [->|Hne]; [|intros Hr; apply Other; [exact Hr|congruence]].
      intros Hr. pose proof (d_v_rcb i0 k Hinv Hr) as V. unfold Core.gone_, Core.loaded_, Core.me in V. rewrite Sts in V. exact V.
    + unfold Core.set_inst. destruct (Nat.eqb_spec j i0) as [->|Hne]; [|intros Hr; apply Other; [exact Hr|congruence]].
      rewrite Hty. intros Hr. destruct (d_a_rcb s W i0 Hr) as [R1 _]. congruence.
    + destruct (cur (conns s c)) as [i|] eqn:Ec; [|intros Hr; apply Other; [exact Hr|discriminate]].
      unfold Core.set_inst. destruct (Nat.eqb_spec j i) as [->|Hne]; [|intros Hr; apply Other; [exact Hr|congruence]].
      destruct (Hy i eq_refl) as (_ & _ & -> & _). intros X. exfalso. apply X. reflexivity.
Qed.

Lemma d_w1_step : forall s o, d_W1 s -> d_W1 (fst (step s o)).
Proof.
  intros s o W. destruct (d_grant_dec o) as [[c ->]|Hng]; [|apply d_w1_ng; assumption].
  destruct (cqueue (conns s c)) as [|it q] eqn:Eq.
  - cbn [Core.step]. rewrite Eq. exact W.
  - apply (d_w1_grant s c it q W Eq).
Qed.

Lemma d_w1_init : forall t, d_W1 (Core.init val upd d t).
Proof.
  intros t. constructor; cbn; intros; try discriminate; try contradiction; try lia; auto.
  all: try (apply Conv.init_inv).
  all: try (exfalso; apply H; reflexivity).
Qed.

Lemma d_w1_exec : forall t ops, d_W1 (fst (exec t ops)).
Proof.
  intros t ops. induction ops as [|o ops IH] using rev_ind.
  - apply d_w1_init.
  - destruct (d_exec_snoc' t ops o) as [-> _]. apply d_w1_step, IH.
Qed.

(* ---------- connection queues and the subscribers' task queues; disposal tasks ---------- *)
Definition d_isqsub (j : nat) (x : Core.qitem) : bool := match x with Core.QSub i => Nat.eqb i j | _ => false end.
Definition d_isdisp (x : Core.qitem) : bool := match x with Core.QDispose => true | _ => false end.
Definition d_istask (x : Core.qitem) : bool := match x with Core.QAccess _ | Core.QSub _ | Core.QToken _ => true | _ => false end.
Fixpoint d_okq (q : list Core.qitem) : bool :=
  match q with
  | [] => true
  | Core.QDispose :: r => forallb d_istask r
  | _ :: r => d_okq r
  end.

Lemma d_okq_tasks : forall q, forallb d_istask q = true -> d_okq q = true.
Proof. induction q as [|[] q IH]; cbn; intros H; try reflexivity; try discriminate; apply IH; exact H. Qed.
Lemma d_okq_tl : forall h q, d_okq (h :: q) = true -> d_okq q = true.
Proof. intros [] q; cbn; intros H; try exact H. apply d_okq_tasks. exact H. Qed.
Lemma d_okq_app_tasks : forall q l, d_okq q = true -> forallb d_istask l = true -> d_okq (q ++ l) = true.
Proof.
  induction q as [|h q IH]; intros l H Hl; cbn [List.app]; [apply d_okq_tasks; exact Hl|].
  destruct h; cbn [d_okq] in *; try (apply IH; assumption).
  rewrite forallb_app, H, Hl. reflexivity.
Qed.
Lemma d_okq_app_any : forall q x, existsb d_isdisp q = false -> d_okq (q ++ [x]) = true.
Proof.
  induction q as [|h q IH]; intros x H; cbn [List.app].
  - destruct x; reflexivity.
  - cbn [existsb] in H. apply orb_false_elim in H as [H1 H2]. destruct h; cbn [d_okq]; try (apply IH; exact H2). discriminate.
Qed.
Lemma d_esq_tasks : forall s σ' c, forallb d_istask (d_esq s σ' c) = true.
Proof.
  intros s σ' c. apply forallb_forall. intros x H. apply d_in_esq_other in H as [j [->| ->]]; reflexivity.
Qed.

Lemma d_cnt_qsub_seq : forall j (P : nat -> bool) n,
  Conv.cnt (d_isqsub j) (map QSub (filter P (seq 0 n))) = if Nat.ltb j n && P j then 1 else 0.
Proof.
  intros j P n. induction n as [|n IH]; [reflexivity|].
  rewrite seq_S, filter_app, map_app, Conv.cnt_app, IH. cbn [plus filter].
  destruct (Nat.ltb_spec j n) as [H|H]; destruct (Nat.ltb_spec j (S n)) as [H'|H']; try lia; cbn [andb].
  - destruct (P n); cbn; [|lia]. destruct (Nat.eqb_spec n j); [lia|]. cbn. lia.
  - assert (j = n) by lia. subst j. destruct (P n); cbn; [|reflexivity]. rewrite Nat.eqb_refl. reflexivity.
  - destruct (P n); cbn; [|reflexivity]. destruct (Nat.eqb_spec n j); [lia|]. reflexivity.
Qed.
Lemma d_cnt_esq : forall s σ' j, j < next s ->
  Conv.cnt (d_isqsub j) (d_esq s σ' (owner (insts s j))) = if Core.grew val upd (cv s) σ' j then 1 else 0.
Proof.
  intros s σ' j Hj. unfold d_esq. rewrite Conv.cnt_app, d_cnt_qsub_seq.
  assert (E : Nat.ltb j (next s) = true) by (apply Nat.ltb_lt; exact Hj). rewrite E, Nat.eqb_refl, andb_true_r. cbn [andb].
  assert (Z : Conv.cnt (d_isqsub j) (d_passq (cv s) (fun i => owner (insts s i)) (owner (insts s j))) = 0).
  { unfold d_passq. destruct (Core.nop_head val upd (cv s)); [|reflexivity].
    destruct (Core.is_closed val upd (cv s) n); [reflexivity|]. destruct (Nat.eqb (owner (insts s n)) (owner (insts s j))); reflexivity. }
  rewrite Z. lia.
Qed.
Lemma d_grew_rune : forall σ j,
  length (ccq (csubs (cstep σ (Conv.RunE upd)) j)) =
  length (ccq (csubs σ j)) + (if Core.grew val upd σ (cstep σ (Conv.RunE upd)) j then 1 else 0).
Proof.
  intros σ j. unfold Core.grew. destruct (d_eff_rune_cq σ j) as [E|[x E]]; rewrite E.
  - rewrite Nat.ltb_irrefl. lia.
  - rewrite app_length. cbn [length]. destruct (Nat.ltb_spec (length (ccq (csubs σ j))) (length (ccq (csubs σ j)) + 1)); lia.
Qed.
Lemma d_length_tl : forall (A : Type) (l : list A), length (tl l) = length l - 1.
Proof. intros A [|a l]; cbn; lia. Qed.

Record d_W2 (s : st) : Prop := {
  d_b_cq : forall j, j < next s -> Conv.cnt (d_isqsub j) (cqueue (conns s (owner (insts s j)))) = length (ccq (csubs (cv s) j));
  d_b_getreq : getreq s = false -> Conv.rs_subs val upd (cv s) = [];
  d_b_disc : forall c, disc (conns s c) = false -> existsb d_isdisp (cqueue (conns s c)) = false;
  d_b_okq : forall c, d_okq (cqueue (conns s c)) = true
}.

Lemma d_cnt_snoc_other : forall j q x, d_isqsub j x = false -> Conv.cnt (d_isqsub j) (q ++ [x]) = Conv.cnt (d_isqsub j) q.
Proof. intros j q x H. rewrite Conv.cnt_app, Conv.cnt_cons, H. cbn. lia. Qed.

Lemma d_w2_cq_ng : forall s o, d_nongrant o -> d_W1 s -> d_W2 s -> forall j, j < next (fst (step s o)) ->
  Conv.cnt (d_isqsub j) (cqueue (conns (fst (step s o)) (owner (insts (fst (step s o)) j)))) =
  length (ccq (csubs (cv (fst (step s o))) j)).
Proof.
  intros s o Hng W U j Hj. pose proof (d_b_cq s U) as F.
  destruct (d_ng_next s o Hng) as [En _]. rewrite En in Hj.
  destruct (d_ng_inst s o j Hng) as (Eo & _). cbv zeta in Eo. rewrite Eo. specialize (F j Hj). clear Eo En.
  d_ng_cases s o; try exact F; d_proj; try d_es_look (owner (insts s j)).
  all: try (rewrite d_fold_cq by (d_acts; d_eqb; reflexivity)).
  all: try exact F.
  all: try (destruct (Nat.eq_dec (owner (insts s j)) c) as [Hoc|Hoc];
            [rewrite Hoc in *; rewrite d_set_conn_eq; d_proj|rewrite d_set_conn_neq by exact Hoc]).
  all: try exact F.
  all: try (cbn [fold_left]; rewrite d_cnt_snoc_other by reflexivity; exact F).
  all: try (rewrite (d_a_mqsub s W Emq) in Hj; lia).
  - rewrite Conv.cnt_app, d_cnt_esq, F by exact Hj. cbn [fold_left]. rewrite d_grew_rune. reflexivity.
  - exfalso. eapply Hng. reflexivity.
Qed.

Lemma d_no_add_head : forall s, d_W1 s -> next s = 0 -> forall x,
  Core.is_add_head val upd (cstep (cv s) x) = true -> d_arune x = true \/ exists j, x = Conv.Subscribe upd j.
Proof.
  intros s W Hn x. unfold Core.is_add_head.
  assert (Hno : forall j q, cqe (cv s) <> Conv.IAddSub val upd j :: q).
  { intros j q E. destruct (d_a_fresh_sub s W j) as (Hs & _); [lia|].
    destruct (d_mem_false (cv s) j (d_a_inv s W) Hs) as [_ Hc]. rewrite E, Conv.cnt_cons in Hc. cbn [Conv.is_add] in Hc.
    rewrite Nat.eqb_refl in Hc. cbn in Hc. lia. }
  destruct x; cbn [Conv.step d_arune]; auto.
  - cbn [Conv.qe]. destruct (cqe (cv s)) as [|[] q] eqn:E; cbn; try discriminate. exfalso. eapply Hno; reflexivity.
  - cbn [Conv.qe]. destruct (cqe (cv s)) as [|[] q] eqn:E; cbn; try discriminate. exfalso. eapply Hno; reflexivity.
  - destruct (Conv.answered val upd (cv s)); cbn [Conv.qe]; destruct (cqe (cv s)) as [|[] q] eqn:E; cbn; try discriminate;
      exfalso; eapply Hno; reflexivity.
  - cbn [Conv.qe]. destruct (cqe (cv s)) as [|[] q] eqn:E; cbn; try discriminate. exfalso. eapply Hno; reflexivity.
  - cbn [Conv.qe]. destruct (cqe (cv s)) as [|[] q] eqn:E; cbn; try discriminate. exfalso. eapply Hno; reflexivity.
  - intros _. right. eauto.
  - destruct (gone (csubs (cv s) s0)); [destruct cl|]; cbn [Conv.qe]; try destruct (loaded (csubs (cv s) s0));
      destruct (cqe (cv s)) as [|[] q] eqn:E; cbn; try discriminate; exfalso; eapply Hno; reflexivity.
  - destruct (ccq (csubs (cv s) s0)) as [|[] r]; try destruct (gone (csubs (cv s) s0)); cbn [Conv.qe];
      destruct (cqe (cv s)) as [|[] q] eqn:E; cbn; try discriminate; exfalso; eapply Hno; reflexivity.
  - destruct (loaded (csubs (cv s) s0) && negb (Conv.sent val upd (csubs (cv s) s0))); cbn [Conv.qe];
      destruct (cqe (cv s)) as [|[] q] eqn:E; cbn; try discriminate; exfalso; eapply Hno; reflexivity.
  - destruct (loaded (csubs (cv s) s0) && Conv.sent val upd (csubs (cv s) s0) && Conv.flag val upd (csubs (cv s) s0)); cbn [Conv.qe];
      destruct (cqe (cv s)) as [|[] q] eqn:E; cbn; try discriminate; exfalso; eapply Hno; reflexivity.
  - destruct (loaded (csubs (cv s) s0) && Conv.sent val upd (csubs (cv s) s0)); cbn [Conv.qe];
      destruct (cqe (cv s)) as [|[] q] eqn:E; cbn; try discriminate; exfalso; eapply Hno; reflexivity.
Qed.

Lemma d_w2_getreq_ng : forall s o, d_nongrant o -> d_W1 s -> d_W2 s -> getreq (fst (step s o)) = false ->
  Conv.rs_subs val upd (cv (fst (step s o))) = [].
Proof.
  intros s o Hng W U. pose proof (d_b_getreq s U) as F.
  d_ng_cases s o; try exact F; d_proj; intros Hg.
  all: try (rewrite d_fold_rssubs by (d_acts; reflexivity); apply F; exact Hg).
  - cbn [fold_left]. apply d_eff_rune_rssubs; [rewrite d_eff_rssubs by reflexivity; apply F; exact Hg|].
    destruct (Core.is_add_head val upd (cstep (cv s) (Conv.SvcUpdate upd u))) eqn:E; [|reflexivity].
    apply (d_no_add_head s W (d_a_mqsub s W Emq)) in E as [E|[j E]]; discriminate.
  - cbn [fold_left]. apply d_eff_rune_rssubs; [rewrite d_eff_rssubs by reflexivity; apply F; exact Hg|].
    destruct (Core.is_add_head val upd (cstep (cv s) (Conv.SvcCustom upd))) eqn:E; [|reflexivity].
    apply (d_no_add_head s W (d_a_mqsub s W Emq)) in E as [E|[j E]]; discriminate.
  - cbn [fold_left]. apply d_eff_rune_rssubs; [rewrite d_eff_rssubs by reflexivity; apply F; exact Hg|].
    destruct (Core.is_add_head val upd (cstep (cv s) (Conv.SvcReacc upd))) eqn:E; [|reflexivity].
    apply (d_no_add_head s W (d_a_mqsub s W Emq)) in E as [E|[j E]]; discriminate.
  - apply orb_false_elim in Hg as [Hg1 Hg2]. cbn [fold_left]. apply d_eff_rune_rssubs; [apply F; exact Hg1|exact Hg2].
  - exfalso. eapply Hng. reflexivity.
Qed.

Lemma d_in_isdisp : forall q, existsb d_isdisp q = true -> In QDispose q.
Proof. induction q as [|[] q IH]; cbn; intros H; try discriminate; auto. Qed.

Lemma d_w2_disc_ng : forall s o, d_nongrant o -> d_W2 s -> forall c', disc (conns (fst (step s o)) c') = false ->
  existsb d_isdisp (cqueue (conns (fst (step s o)) c')) = false.
Proof.
  intros s o Hng U c' H.
  assert (H0 : disc (conns s c') = false).
  { destruct (disc (conns s c')) eqn:E; [|reflexivity]. destruct (d_ng_conn s o c' Hng) as (_ & _ & X & _). rewrite (X E) in H. discriminate. }
  pose proof (d_b_disc s U c' H0) as F.
  destruct (existsb d_isdisp (cqueue (conns (fst (step s o)) c'))) eqn:E; [|reflexivity]. exfalso.
  apply d_in_isdisp in E. apply d_queue_new in E as [E|E]; [| |exact Hng].
  - assert (X : existsb d_isdisp (cqueue (conns s c')) = true) by (apply existsb_exists; exists QDispose; auto). congruence.
  - destruct o; try contradiction; try (destruct E as (E & _); discriminate).
    + destruct E as (_ & -> & E). revert H. cbn [Core.step]. rewrite E. cbn [fst Core.conns]. rewrite d_set_conn_eq. discriminate.
    + apply d_in_esq_other in E as [j [E|E]]; discriminate.
Qed.

Lemma d_w2_okq_ng : forall s o, d_nongrant o -> d_W2 s -> forall c', d_okq (cqueue (conns (fst (step s o)) c')) = true.
Proof.
  intros s o Hng U c'. pose proof (d_b_okq s U) as F.
  d_ng_cases s o; d_proj; try apply F; try d_es_look c'.
  all: try (apply d_okq_app_tasks; [apply F|apply d_esq_tasks]).
  all: try (unfold Core.set_conn; d_eqb; d_proj; try apply F).
  all: try (apply d_okq_app_any; apply (d_b_disc s U); exact Edisc).
  - (* token *)
    unfold Core.is_done in Edone. destruct (disc (conns s c)) eqn:Ed; cbn [andb] in Edone.
    + apply negb_false_iff in Edone. apply d_okq_app_tasks; [apply F|reflexivity].
    + apply d_okq_app_any. apply (d_b_disc s U); exact Ed.
  - exfalso. eapply Hng. reflexivity.
Qed.

Lemma d_w2_ng : forall s o, d_nongrant o -> d_W1 s -> d_W2 s -> d_W2 (fst (step s o)).
Proof.
  intros s o Hng W U. constructor.
  - apply d_w2_cq_ng; assumption.
  - apply d_w2_getreq_ng; assumption.
  - apply d_w2_disc_ng; assumption.
  - apply d_w2_okq_ng; assumption.
Qed.

Lemma d_shape_cq : forall s c it q k oi nx ms, d_shape s c it q k oi nx ms -> forall j,
  ccq (csubs (cfold (ta k) (cv s)) j) = if d_isqsub j it then tl (ccq (csubs (cv s) j)) else ccq (csubs (cv s) j).
Proof.
  intros s c it q k oi nx ms Sh j.
  destruct Sh as [k Hc Ha Hk Ho Hit|k i pre la nx ms Hp Ha Hla Hinv Hown Ho Hit|k i pre Hlt Hown Hg Hpre Ha Htx Hty Ho|k Hit Ha Hk Ho Hy].
  - rewrite Ha. destruct it; try discriminate; reflexivity.
  - rewrite Ha, fold_left_app, d_fold_cq by (first [apply (d_hact_noC _ _ _ _ Hla)|apply (d_hact_noE _ _ _ Hla)]).
    destruct Hp as [(_ & _ & _ & _ & [(-> & P)|(-> & ->)])|(_ & _ & _ & _ & -> & id & ->)].
    + cbn [fold_left]. destruct it; try reflexivity. exfalso. eapply P. reflexivity.
    + cbn [fold_left d_isqsub]. rewrite d_eff_runc, (Nat.eqb_sym i j). reflexivity.
    + cbn [fold_left d_isqsub]. apply d_eff_cq; reflexivity.
  - rewrite Ha. destruct Hpre as [(-> & ->)|(-> & ->)]; [reflexivity|].
    cbn [fold_left d_isqsub]. rewrite d_eff_runc, (Nat.eqb_sym i j). reflexivity.
  - rewrite Ha, Hit. cbn [d_isqsub]. apply d_fold_cq; apply d_existsb_map_false; reflexivity.
Qed.

Lemma d_cnt_zero_notin : forall j q, (forall i, In (QSub i) q -> i <> j) -> Conv.cnt (d_isqsub j) q = 0.
Proof.
  intros j q. induction q as [|h q IH]; intros H; [reflexivity|]. rewrite Conv.cnt_cons, IH by (intros; apply H; right; assumption).
  destruct h; cbn [d_isqsub Conv.b2n]; try reflexivity. destruct (Nat.eqb_spec i j) as [->|]; [|reflexivity].
  exfalso. apply (H j); [left; reflexivity|reflexivity].
Qed.

Lemma d_w2_grant : forall s c it q, d_W1 s -> d_W2 s -> cqueue (conns s c) = it :: q -> d_W2 (fst (step s (GrantConn c))).
Proof.
  intros s c it q W U Eq. pose proof (d_task_summary s c it q W Eq) as Sm.
  destruct (conn_task s c) as [[[k oi] nx] ms] eqn:Ect. rewrite (d_step_grant s c it q Eq k oi nx ms Ect). cbn [fst].
  destruct Sm as (Sq & Sd & Sts & Sh).
  destruct (d_shape_acts s c it q k oi nx ms Sh) as (AE & AR & AN & AS & AC & AD).
  pose proof (d_shape_next s c it q k oi nx ms Sh) as Hnx.
  pose proof (d_shape_cq s c it q k oi nx ms Sh) as Hcq.
  assert (Hoi : forall i, oi = Some i -> owner (ty k) = c /\ ((i < next s /\ owner (insts s i) = c) \/ (i = next s /\ nx = S (next s)))).
  { intros i E. apply (d_shape_oi s c it q k oi nx ms i W Sh E). }
  set (ins' := match oi with Some i => Core.set_inst (insts s) i (ty k) | None => insts s end).
  assert (Hown : forall j, j < next s -> owner (ins' j) = owner (insts s j)).
  { intros j Hj. unfold ins'. destruct oi as [i|]; [|reflexivity]. unfold Core.set_inst. destruct (Nat.eqb_spec j i) as [->|Hne]; [|reflexivity].
    destruct (Hoi i eq_refl) as (H1 & [(_ & H2)|(H2 & _)]); [congruence|lia]. }
  constructor; d_proj.
  - intros j Hj. rewrite Hcq. destruct (Nat.lt_ge_cases j (next s)) as [Hl|Hg].
    + rewrite Hown by exact Hl. pose proof (d_b_cq s U j Hl) as F.
      destruct (Nat.eq_dec (owner (insts s j)) c) as [Hoc|Hoc].
      * rewrite Hoc in *. rewrite d_set_conn_eq, Sq. rewrite Eq, Conv.cnt_cons in F.
        destruct (d_isqsub j it); cbn [Conv.b2n] in F; rewrite ?d_length_tl; lia.
      * rewrite d_set_conn_neq by exact Hoc. rewrite F.
        destruct (d_isqsub j it) eqn:E; [|reflexivity]. exfalso. destruct it; try discriminate. cbn in E. apply Nat.eqb_eq in E. subst i.
        assert (X : In (QSub j) (cqueue (conns s c))) by (rewrite Eq; left; reflexivity). apply (d_a_qsub s W) in X as [_ X]. congruence.
    + destruct Hnx as [(-> & _)|(-> & _ & Eoi)]; [lia|]. assert (j = next s) by lia. subst j.
      destruct (Hoi _ Eoi) as (Ho & _). unfold ins'. rewrite Eoi, d_set_inst_eq, Ho, d_set_conn_eq, Sq.
      destruct (d_a_fresh_sub s W (next s) (le_n _)) as (_ & Fc & _). rewrite Fc.
      assert (Z : Conv.cnt (d_isqsub (next s)) q = 0).
      { apply d_cnt_zero_notin. intros i Hi. assert (X : In (QSub i) (cqueue (conns s c))) by (rewrite Eq; right; exact Hi).
        apply (d_a_qsub s W) in X. lia. }
      rewrite Z. destruct (d_isqsub (next s) it); reflexivity.
  - intros Hg. rewrite d_fold_rssubs by exact AE. apply (d_b_getreq s U Hg).
  - intros c' Hd. destruct (Nat.eq_dec c' c) as [->|Hcc].
    + rewrite d_set_conn_eq in *. rewrite Sq. rewrite Sd in Hd. pose proof (d_b_disc s U c Hd) as F. rewrite Eq in F. cbn [existsb] in F.
      apply orb_false_elim in F. apply F.
    + rewrite d_set_conn_neq in * by exact Hcc. apply (d_b_disc s U c' Hd).
  - intros c'. destruct (Nat.eq_dec c' c) as [->|Hcc].
    + rewrite d_set_conn_eq, Sq. pose proof (d_b_okq s U c) as F. rewrite Eq in F. apply d_okq_tl in F. exact F.
    + rewrite d_set_conn_neq by exact Hcc. apply (d_b_okq s U c').
Qed.

Lemma d_w2_step : forall s o, d_W1 s -> d_W2 s -> d_W2 (fst (step s o)).
Proof.
  intros s o W U. destruct (d_grant_dec o) as [[c ->]|Hng]; [|apply d_w2_ng; assumption].
  destruct (cqueue (conns s c)) as [|it q] eqn:Eq.
  - cbn [Core.step]. rewrite Eq. exact U.
  - apply (d_w2_grant s c it q W U Eq).
Qed.
Lemma d_w2_init : forall t, d_W2 (Core.init val upd d t).
Proof. intros t. constructor; cbn; intros; try reflexivity; try lia. Qed.
Lemma d_w2_exec : forall t ops, d_W2 (fst (exec t ops)).
Proof.
  intros t ops. induction ops as [|o ops IH] using rev_ind.
  - apply d_w2_init.
  - destruct (d_exec_snoc' t ops o) as [-> _]. apply d_w2_step; [apply d_w1_exec|exact IH].
Qed.

(* ---------- F: cleanup ---------- *)
Lemma d_quiet_cq : forall s j, d_W1 s -> d_W2 s -> quiescent s -> ccq (csubs (cv s) j) = [].
Proof.
  intros s j W U (_ & Hq & _). destruct (Nat.lt_ge_cases j (next s)) as [Hlt|Hge].
  - pose proof (d_b_cq s U j Hlt) as H. rewrite Hq in H. cbn in H. destruct (ccq (csubs (cv s) j)); [reflexivity|discriminate].
  - apply (d_a_fresh_sub s W j Hge).
Qed.
Lemma d_quiet_loaded : forall s, d_W2 s -> CInv (cv s) -> quiescent s -> Conv.rs_subs val upd (cv s) <> [] ->
  Conv.rs_loaded val upd (cv s) = true.
Proof.
  intros s U HI (Hqe & _ & Hg & _) Hne.
  destruct (getreq s) eqn:Eg; [|exfalso; apply Hne; apply (d_b_getreq s U Eg)].
  pose proof (Conv.i2 _ _ _ _ HI) as H2. rewrite Hqe, (Hg eq_refl) in H2. cbn in H2.
  destruct (Conv.rs_loaded val upd (cv s)); [reflexivity|discriminate].
Qed.

Theorem core_cleanup : forall t ops i,
  let s := fst (exec t ops) in
  quiescent s -> i < Core.next val upd s -> Core.cur (conns s (Core.owner (insts s i))) <> Some i ->
  Conv.mem i (Conv.rs_subs val upd (cv s)) = false /\ Conv.loaded val upd (csubs (cv s) i) = false /\
  Conv.eq val upd (csubs (cv s) i) = [].
Proof.
  intros t ops i s Hq Hlt Hc.
  pose proof (d_w1_exec t ops) as W. pose proof (d_w2_exec t ops) as U. fold s in W, U.
  pose proof (d_a_inv s W) as HI.
  assert (Hg : gone (csubs (cv s) i) = true) by (destruct (d_a_gone s W i Hlt) as [H|H]; [contradiction|exact H]).
  pose proof (Conv.igl _ _ _ _ HI i Hg) as Hl.
  split; [|split; [exact Hl|apply (Conv.i7 _ _ _ _ HI); exact Hl]].
  destruct (Conv.mem i (Conv.rs_subs val upd (cv s))) eqn:Em; [|reflexivity]. exfalso.
  assert (Hne : Conv.rs_subs val upd (cv s) <> []).
  { intros E. rewrite E in Em. discriminate. }
  pose proof (d_quiet_loaded s U HI Hq Hne) as Hrl.
  pose proof (Conv.i4 _ _ _ _ HI i) as H4. rewrite (d_quiet_cq s i W U Hq), Hl, Em, Hrl in H4.
  destruct Hq as (Hqe & _). rewrite Hqe in H4. cbn in H4. discriminate.
Qed.

(* ---------- F: nothing for a connection after its disposal task ran ---------- *)
Lemma d_plain_for : forall c c' x, d_plain c x = true -> for_conn c' x = true -> c' = c.
Proof.
  intros c c' x. destruct x; cbn; try discriminate; intros H1 H2; apply Nat.eqb_eq in H1; apply Nat.eqb_eq in H2; congruence.
Qed.
Lemma d_plain_not_unsub : forall c c', d_plain c (OConnUnsub c') = false.
Proof. reflexivity. Qed.

Lemma d_ng_out : forall s o x, d_nongrant o -> In x (snd (step s o)) -> x = Core.OGetReq val upd.
Proof.
  intros s o x Hng. d_ng_cases s o; try (intros []).
  - destruct (Core.is_add_head val upd (cv s) && negb (getreq s)); [intros [<-|[]]; reflexivity|intros []].
  - exfalso. eapply Hng. reflexivity.
Qed.

(* the outputs of a grant, by shape *)
Lemma d_shape_out : forall s c it q k oi nx ms, d_shape s c it q k oi nx ms ->
  forallb (d_plain c) (tout k) = true \/ (it = QDispose /\ tout k = [OConnUnsub c]).
Proof.
  intros s c it q k oi nx ms Sh.
  destruct Sh as [k Hc Ha Hk Ho Hit|k i pre la nx ms Hp Ha Hla Hinv Hown Ho Hit|k i pre Hlt Hown Hg Hpre Ha Htx Hty Ho|k Hit Ha Hk Ho Hy].
  - left. apply d_forallb_nd_plain, Ho.
  - left. exact Ho.
  - left. rewrite Ho. reflexivity.
  - right. auto.
Qed.

Lemma d_tag : forall s o c' x, d_W1 s -> In x (snd (step s o)) -> for_conn c' x = true -> o = GrantConn c'.
Proof.
  intros s o c' x W H Hf. destruct (d_grant_dec o) as [[c ->]|Hng].
  - destruct (cqueue (conns s c)) as [|it q] eqn:Eq.
    + revert H. cbn [Core.step]. rewrite Eq. intros [].
    + pose proof (d_task_summary s c it q W Eq) as Sm.
      destruct (conn_task s c) as [[[k oi] nx] ms] eqn:Ect. rewrite (d_step_grant s c it q Eq k oi nx ms Ect) in H. cbn [snd] in H.
      destruct Sm as (_ & _ & _ & Sh). destruct (d_shape_out s c it q k oi nx ms Sh) as [P|(_ & P)].
      * rewrite forallb_forall in P. rewrite (d_plain_for c c' x (P x H) Hf). reflexivity.
      * rewrite P in H. destruct H as [<-|[]]. discriminate.
  - rewrite (d_ng_out s o x Hng H) in Hf. discriminate.
Qed.

Definition d_done (s : st) (c : nat) : Prop :=
  cur (conns s c) = None /\ disc (conns s c) = true /\ forallb d_istask (cqueue (conns s c)) = true /\
  (forall j, j < next s -> owner (insts s j) = c -> gone (csubs (cv s) j) = true).

Lemma d_gone_keep : forall s o j, gone (csubs (cv s) j) = true -> gone (csubs (cv (fst (step s o))) j) = true.
Proof. intros s o j H. rewrite d_step_cv, d_fold_gone, H. reflexivity. Qed.

(* a grant of a closed connection: the shapes that remain *)
Lemma d_done_shape : forall s c it q k oi nx ms, d_W1 s -> d_done s c -> cqueue (conns s c) = it :: q ->
  d_shape s c it q k oi nx ms ->
  tout k = [] /\ cur (tx k) = None /\ nx = next s /\
  (forall j, j < next s -> owner (match oi with Some i => Core.set_inst (insts s) i (ty k) | None => insts s end j) = owner (insts s j)).
Proof.
  intros s c it q k oi nx ms W (D1 & D2 & D3 & D4) Eq Sh.
  rewrite Eq in D3. cbn [forallb] in D3. apply andb_prop in D3 as [D3 _].
  destruct Sh as [k Hc Ha Hk Ho Hit Htok|k i pre la nx ms Hp Ha Hla Hinv Hown Ho Hit|k i pre Hlt Hown Hg Hpre Ha Htx Hty Ho|k Hit Ha Hk Ho Hy].
  - destruct it; try discriminate. rewrite (Htok t eq_refl). auto.
  - exfalso. destruct Hp as [(_ & P & _)|(_ & _ & _ & _ & _ & id & ->)]; [congruence|discriminate].
  - rewrite Htx. d_proj. repeat split; auto. intros j Hj. unfold Core.set_inst. destruct (Nat.eqb_spec j i) as [->|]; [rewrite Hty|]; reflexivity.
  - subst it. discriminate.
Qed.

Lemma d_done_quiet : forall s o c' x, d_W1 s -> d_done s c' -> In x (snd (step s o)) -> for_conn c' x = false.
Proof.
  intros s o c' x W D H. destruct (for_conn c' x) eqn:Ef; [|reflexivity]. exfalso.
  pose proof (d_tag s o c' x W H Ef) as ->.
  destruct (cqueue (conns s c')) as [|it q] eqn:Eq.
  - revert H. cbn [Core.step]. rewrite Eq. intros [].
  - pose proof (d_task_summary s c' it q W Eq) as Sm.
    destruct (conn_task s c') as [[[k oi] nx] ms] eqn:Ect. rewrite (d_step_grant s c' it q Eq k oi nx ms Ect) in H. cbn [snd] in H.
    destruct Sm as (_ & _ & _ & Sh). destruct (d_done_shape s c' it q k oi nx ms W D Eq Sh) as (E & _). rewrite E in H. destruct H.
Qed.

Lemma d_done_keep : forall s o c', d_W1 s -> d_done s c' -> d_done (fst (step s o)) c'.
Proof.
  intros s o c' W D. pose proof D as (D1 & D2 & D3 & D4). destruct (d_grant_dec o) as [[c ->]|Hng].
  - destruct (cqueue (conns s c)) as [|it q] eqn:Eq.
    + cbn [Core.step]. rewrite Eq. exact D.
    + pose proof (d_task_summary s c it q W Eq) as Sm.
      destruct (conn_task s c) as [[[k oi] nx] ms] eqn:Ect. rewrite (d_step_grant s c it q Eq k oi nx ms Ect). cbn [fst].
      destruct Sm as (Sq & Sd & Sts & Sh). unfold d_done. d_proj.
      destruct (Nat.eq_dec c' c) as [->|Hcc].
      * destruct (d_done_shape s c it q k oi nx ms W D Eq Sh) as (E1 & E2 & E3 & E4). rewrite d_set_conn_eq, Sq, Sd, E3.
        rewrite Eq in D3. cbn [forallb] in D3. apply andb_prop in D3 as [_ D3].
        repeat split; try assumption. intros j Hj Ho. rewrite E4 in Ho by exact Hj. rewrite d_fold_gone, (D4 j Hj Ho). reflexivity.
      * rewrite d_set_conn_neq by exact Hcc. repeat split; try assumption. intros j Hj Ho.
        pose proof (d_shape_next s c it q k oi nx ms Sh) as Hnx.
        assert (Hlt : j < next s).
        { destruct Hnx as [(-> & _)|(-> & _ & ->)]; [exact Hj|]. destruct (Nat.eq_dec j (next s)) as [->|]; [|lia].
          rewrite d_set_inst_eq in Ho. destruct (d_shape_oi s c it q k _ _ _ (next s) W Sh eq_refl) as (X & _). congruence. }
        assert (Ho' : owner (insts s j) = c').
        { destruct oi as [i|]; [|exact Ho]. unfold Core.set_inst in Ho. destruct (Nat.eqb_spec j i) as [->|]; [|exact Ho].
          destruct (d_shape_oi s c it q k _ _ _ i W Sh eq_refl) as (X & [(_ & Y)|(Y & _)]); [congruence|lia]. }
        rewrite d_fold_gone, (D4 j Hlt Ho'). reflexivity.
  - destruct (d_ng_next s o Hng) as [En _]. destruct (d_ng_conn s o c' Hng) as (Ec & _ & Ed & _).
    unfold d_done. rewrite Ec, En, (Ed D2). repeat split; try assumption.
    + apply forallb_forall. intros x Hx. apply d_queue_new in Hx as [Hx|Hx]; [rewrite forallb_forall in D3; apply D3; exact Hx| |exact Hng].
      destruct o; try contradiction; try (destruct Hx as (_ & -> & Hx); congruence).
      * destruct Hx as (-> & _). reflexivity.
      * apply d_in_esq_other in Hx as [j [->| ->]]; reflexivity.
    + intros j Hj Ho. destruct (d_ng_inst s o j Hng) as (Eo & _). cbv zeta in Eo. rewrite Eo in Ho. apply d_gone_keep. apply D4; assumption.
Qed.

Lemma d_done_new : forall s o c', d_W1 s -> d_W2 s -> In (OConnUnsub c') (snd (step s o)) ->
  snd (step s o) = [OConnUnsub c'] /\ d_done (fst (step s o)) c'.
Proof.
  intros s o c' W U H. destruct (d_grant_dec o) as [[c ->]|Hng]; [|apply (d_ng_out s o _ Hng) in H; discriminate].
  destruct (cqueue (conns s c)) as [|it q] eqn:Eq.
  - revert H. cbn [Core.step]. rewrite Eq. intros [].
  - pose proof (d_task_summary s c it q W Eq) as Sm.
    destruct (conn_task s c) as [[[k oi] nx] ms] eqn:Ect. rewrite (d_step_grant s c it q Eq k oi nx ms Ect) in *. cbn [fst snd] in *.
    destruct Sm as (Sq & Sd & Sts & Sh).
    destruct (d_shape_out s c it q k oi nx ms Sh) as [P|(Hit & P)].
    + rewrite forallb_forall in P. apply P in H. discriminate.
    + rewrite P in H. destruct H as [H|[]]. injection H as ->. split; [exact P|]. subst it.
      pose proof (d_b_okq s U c') as Ok. rewrite Eq in Ok. cbn [d_okq] in Ok.
      assert (Hd : disc (conns s c') = true).
      { destruct (disc (conns s c')) eqn:E; [reflexivity|]. pose proof (d_b_disc s U c' E) as X. rewrite Eq in X. discriminate. }
      unfold d_done. d_proj. rewrite d_set_conn_eq, Sq, Sd.
      assert (Hk : cur (tx k) = None /\ nx = next s /\ ta k = map (fun j => Conv.Dispose upd j true) (insts_of s c')).
      { destruct Sh as [k Hc Ha Hk Ho Hit Htok|k i pre la nx ms Hp Ha Hla Hinv Hown Ho Hit|k i pre Hlt Hown Hg Hpre Ha Htx Hty Ho|k Hit Ha Hk Ho Hy]; try discriminate; try congruence.
        all: try (destruct Hpre as [(X & _)|(X & _)]; discriminate).
        all: auto. }
      destruct Hk as (K1 & K2 & K3). rewrite K2. repeat split; try assumption.
      intros j Hj Ho. rewrite d_fold_gone, K3, d_disp_map.
      replace (Conv.mem j (insts_of s c')) with true; [apply orb_true_r|].
      symmetry. apply Conv.mem_In. apply d_insts_of_in. split; [exact Hj|].
      destruct oi as [i|]; [|exact Ho]. unfold Core.set_inst in Ho. destruct (Nat.eqb_spec j i) as [->|]; [|exact Ho].
      destruct (d_shape_oi s c' QDispose q k _ _ _ i W Sh eq_refl) as (X & [(_ & Y)|(Y & _)]); [congruence|lia].
Qed.

Lemma d_app_split : forall (A : Type) (l1 l2 pre post : list A) (x : A), l1 ++ l2 = pre ++ x :: post ->
  (exists post1, l1 = pre ++ x :: post1 /\ post = post1 ++ l2) \/ (exists pre2, pre = l1 ++ pre2 /\ l2 = pre2 ++ x :: post).
Proof.
  intros A l1. induction l1 as [|a l1 IH]; intros l2 pre post x H.
  - right. exists pre. split; [reflexivity|exact H].
  - destruct pre as [|b pre]; cbn [List.app] in H.
    + injection H as -> H. left. exists l1. split; [reflexivity|symmetry; exact H].
    + injection H as -> H. apply IH in H as [(post1 & -> & ->)|(pre2 & -> & ->)].
      * left. exists post1. split; reflexivity.
      * right. exists pre2. split; reflexivity.
Qed.

Theorem core_nothing_after_close : forall t ops c pre post,
  snd (exec t ops) = pre ++ Core.OConnUnsub val upd c :: post ->
  forall o, In o post -> Core.for_conn val upd c o = false.
Proof.
  intros t ops c.
  assert (K : forall pre post, snd (exec t ops) = pre ++ OConnUnsub c :: post ->
                (forall o, In o post -> for_conn c o = false) /\ d_done (fst (exec t ops)) c).
  { induction ops as [|o1 ops IH] using rev_ind; intros pre post.
    - cbn. intros H. destruct pre; discriminate.
    - destruct (d_exec_snoc' t ops o1) as [-> ->]. intros H. pose proof (d_w1_exec t ops) as W. pose proof (d_w2_exec t ops) as U.
      apply d_app_split in H as [(post1 & H & ->)|(pre2 & -> & H)].
      + destruct (IH _ _ H) as [I1 I2]. split; [|apply d_done_keep; assumption].
        intros o Ho. apply in_app_or in Ho as [Ho|Ho]; [apply I1; exact Ho|]. eapply d_done_quiet; eassumption.
      + assert (X : In (OConnUnsub c) (snd (step (fst (exec t ops)) o1))) by (rewrite H; apply in_or_app; right; left; reflexivity).
        destruct (d_done_new _ _ _ W U X) as [E D]. split; [|exact D].
        rewrite E in H. destruct pre2 as [|a pre2]; cbn [List.app] in H.
        * injection H as <-. intros o [].
        * injection H as _ H. destruct pre2; discriminate. }
  intros pre post H. apply (K pre post H).
Qed.

(* ---------- D: responses: counting request ids ---------- *)
Definition d_co (id : nat) (l : list nat) : nat := count_occ Nat.eq_dec l id.
Notation co := d_co.
Lemma d_co_app : forall id l1 l2, co id (l1 ++ l2) = co id l1 + co id l2.
Proof. intros. unfold d_co. apply count_occ_app. Qed.
Lemma d_co_nil : forall id, co id [] = 0.
Proof. reflexivity. Qed.
Lemma d_co_cons : forall id x l, co id (x :: l) = co id [x] + co id l.
Proof. intros id x l. change (x :: l) with ([x] ++ l). apply d_co_app. Qed.
Notation reqs := (Core.reqs upd).
Notation dropped := (Core.dropped val upd).

Lemma d_resps_app : forall c l1 l2, resps c (l1 ++ l2) = resps c l1 ++ resps c l2.
Proof. intros. unfold Core.resps. apply flat_map_app. Qed.
Lemma d_resps_nd_proc : forall c c0 p e, resps c (snd (proc_o c0 p e)) = [].
Proof.
  intros c c0 [ver v] e. unfold Core.proc_o. destruct (Nat.eqb ver (Conv.e_ver upd e)); [|reflexivity].
  destruct (Conv.e_upd upd e); reflexivity.
Qed.
Lemma d_resps_replay : forall c c0 l p, resps c (replay_o c0 p l) = [].
Proof.
  intros c c0 l. induction l as [|e l IH]; intros p; cbn [Core.replay_o]; [reflexivity|].
  pose proof (d_resps_nd_proc c c0 p e) as H. destruct (proc_o c0 p e) as [p' oo]. cbn [snd] in H.
  rewrite d_resps_app, H, IH. reflexivity.
Qed.
Lemma d_resps_drained : forall c c0 x, resps c (drained c0 x) = [].
Proof. intros. apply d_resps_replay. Qed.
Lemma d_resps_map_resp : forall c ids, resps c (map (fun id' => Core.OResp val upd c id' None) ids) = ids.
Proof. intros c ids. induction ids as [|a l IH]; [reflexivity|]. cbn [map Core.resps flat_map]. rewrite Nat.eqb_refl. cbn. f_equal. exact IH. Qed.
Lemma d_ids_app : forall l1 l2, ids_of (l1 ++ l2) = ids_of l1 ++ ids_of l2.
Proof. intros. unfold Core.ids_of. apply flat_map_app. Qed.

Definition d_w (rid : nat) (y : Core.inst) : nat := co rid (ids_of (acb y)) + co rid (rcb y) + co rid (lost y).

Section d_Task2.
Variables (c i rid : nat).
Notation dispose_t := (Core.dispose_t val upd app norm i).
Notation remove_direct := (Core.remove_direct val upd app norm i).
Notation unsubscribe_direct := (Core.unsubscribe_direct val upd app norm c i).
Notation load_access := (Core.load_access val upd c i).
Notation handle_reaccess := (Core.handle_reaccess val upd app norm c i).
Notation reaccess := (Core.reaccess val upd app norm c i).
Notation respond := (Core.respond val upd app norm c i).
Notation on_ready := (Core.on_ready val upd app norm c i).
Notation unqueue_reaccess := (Core.unqueue_reaccess val upd app norm c i).
Notation run_cb := (Core.run_cb val upd app norm c i).

Definition d_m (k : tk) : nat := d_w rid (ty k) + co rid (resps c (tout k)).

Ltac d_m_crush :=
  unfold d_m, d_w; d_tkred; cbn [Core.upd_y Core.acb Core.rcb Core.lost];
  rewrite ?d_resps_app, ?d_ids_app, ?d_co_app, ?d_resps_drained, ?d_resps_map_resp; cbn [Core.resps flat_map Core.ids_of List.app];
  rewrite ?Nat.eqb_refl; cbn [List.app]; rewrite ?d_co_nil; try lia.

Lemma d_m_setx : forall k x, d_m (setx k x) = d_m k.
Proof. reflexivity. Qed.
Lemma d_m_act : forall k a, d_m (act k a) = d_m k.
Proof. reflexivity. Qed.
Lemma d_m_dispose : forall k, d_m (dispose_t k) = d_m k.
Proof. intros k. unfold Core.dispose_t. cbv zeta. destruct (Core.gone_ val upd i k); [reflexivity|]. d_m_crush. Qed.
Lemma d_m_remove : forall k n, d_m (remove_direct k n) = d_m k.
Proof.
  intros k n. unfold Core.remove_direct. cbv zeta. destruct (Nat.eqb (direct (tx k)) 0); [reflexivity|].
  destruct (Nat.eqb _ 0); [rewrite d_m_dispose|]; reflexivity.
Qed.
Lemma d_m_unsubd : forall k, d_m (unsubscribe_direct k) = d_m k.
Proof.
  intros k. unfold Core.unsubscribe_direct. destruct (Nat.ltb 0 (direct (tx k))); [|reflexivity].
  transitivity (d_m (remove_direct k (direct (tx k)))); [|apply d_m_remove]. d_m_crush.
Qed.
Lemma d_m_load : forall k b, d_m (load_access k b) = d_m k + co rid (ids_of [b]).
Proof. intros k b. unfold Core.load_access. cbv zeta. destruct (inflight (ty k)); d_m_crush. Qed.
Lemma d_m_hre : forall k, d_m (handle_reaccess k) = d_m k.
Proof.
  intros k. unfold Core.handle_reaccess. cbv zeta. destruct (Nat.eqb _ 0); [d_m_crush|].
  rewrite d_m_load. d_m_crush.
Qed.
Lemma d_m_reaccess : forall k, d_m (reaccess k) = d_m k.
Proof.
  intros k. unfold Core.reaccess. cbv zeta. destruct (Core.gone_ val upd i k); [reflexivity|].
  destruct (Core.flag_ val upd i k); [d_m_crush|apply d_m_hre].
Qed.
Lemma d_m_unq : forall k, d_m (unqueue_reaccess k) = d_m k.
Proof.
  intros k. unfold Core.unqueue_reaccess. cbv zeta. destruct (Core.gone_ val upd i _); [d_m_crush|].
  destruct (reflag _); [rewrite d_m_hre|]; d_m_crush.
Qed.
Lemma d_m_respond : forall k ids, d_m (respond k ids) = d_m k + co rid ids.
Proof.
  intros k ids. unfold Core.respond. destruct ids as [|id r]; [rewrite d_co_nil; lia|]. cbv zeta.
  rewrite (d_co_cons rid id r).
  match goal with |- d_m (emit ?K ?o) = _ =>
    assert (X : d_m K = d_m k + co rid [id]); [|transitivity (d_m K + co rid r); [d_m_crush|lia]] end.
  destruct (Core.sent_ val upd i k); [d_m_crush|].
  match goal with |- context [if reflag ?y then _ else _] => destruct (reflag y) end; [rewrite d_m_hre|]; d_m_crush.
Qed.
Lemma d_m_onready : forall k id, d_m (on_ready k id) = d_m k + co rid [id].
Proof.
  intros k id. unfold Core.on_ready. cbv zeta. destruct (Core.loaded_ val upd i k); [apply d_m_respond|d_m_crush].
Qed.
Lemma d_m_runcb : forall g k b, (g = true -> Core.gone_ val upd i k = false) -> d_m (run_cb g k b) = d_m k + co rid (ids_of [b]).
Proof.
  intros g k [id|] Hg; cbn [Core.run_cb]; destruct g.
  - rewrite (Hg eq_refl). apply d_m_onready.
  - rewrite d_m_remove. d_m_crush.
  - rewrite d_m_unq. d_m_crush.
  - rewrite d_m_unq, d_m_unsubd. d_m_crush.
Qed.
Lemma d_m_fold : forall g l k, (g = true -> Core.gone_ val upd i k = false) ->
  d_m (fold_left (run_cb g) l k) = d_m k + co rid (ids_of l).
Proof.
  intros g l. induction l as [|b l IH]; intros k Hg; cbn [fold_left]; [d_m_crush|].
  rewrite IH.
  - rewrite d_m_runcb by assumption. change (b :: l) with ([b] ++ l). rewrite d_ids_app, d_co_app. lia.
  - intros ->. rewrite (d_rel_gone_false i _ _ _ (d_runcb_true_rel c i k b)). apply Hg. reflexivity.
Qed.
End d_Task2.

Definition d_qid (x : Core.qitem) : list nat := match x with Core.QReq id | Core.QUnsub id _ => [id] | _ => [] end.

Ltac d_mcalc :=
  unfold d_m, d_w; d_tkred; cbn [Core.upd_y Core.acb Core.rcb Core.lost Core.owner];
  rewrite ?d_resps_app, ?d_ids_app, ?d_co_app, ?d_resps_drained, ?d_resps_map_resp, ?d_resps_nd_proc;
  cbn [Core.resps flat_map Core.ids_of List.app d_qid];
  rewrite ?Nat.eqb_refl; cbn [List.app]; rewrite ?d_co_nil; try lia.

Lemma d_task_measure : forall rid s c it q, d_W1 s -> cqueue (conns s c) = it :: q ->
  let '(k, oi, nx, ms) := conn_task s c in
  match oi with
  | Some i => d_m c rid k = (if Nat.ltb i (next s) then d_w rid (insts s i) else 0) + co rid (d_qid it)
  | None => co rid (resps c (tout k)) = co rid (d_qid it)
  end.
Proof.
  intros rid s c it q W Eq. d_ct_unfold Eq. destruct it as [id|id cnt|t|i|i|].
  - (* request *)
    cbn [Core.cur Core.with_q]. destruct (cur (conns s c)) as [i|] eqn:Ecur.
    + destruct (d_a_cur s W c i Ecur) as (Flt & _ & Fng). apply Nat.ltb_lt in Flt. rewrite Flt.
      d_tkred. destruct (acc (insts s i)) as [[|]|].
      * rewrite d_m_onready. d_mcalc.
      * rewrite d_m_remove. d_mcalc.
      * rewrite d_m_load. d_mcalc.
    + rewrite Nat.ltb_irrefl. rewrite d_m_load. destruct (mqsub s); d_mcalc.
  - (* unsubscribe *)
    cbn [Core.cur Core.with_q]. destruct (cur (conns s c)) as [i|] eqn:Ecur.
    + destruct (d_a_cur s W c i Ecur) as (Flt & _ & Fng). apply Nat.ltb_lt in Flt. rewrite Flt.
      destruct (Nat.eqb cnt 0); [d_mcalc|]. destruct (Nat.leb cnt _); [|d_mcalc].
      rewrite d_m_remove. destruct (Nat.eqb _ 0); d_mcalc.
    + d_mcalc.
  - (* token *)
    cbn [Core.cur Core.with_q]. destruct (cur (conns s c)) as [i|] eqn:Ecur.
    + destruct (d_a_cur s W c i Ecur) as (Flt & _ & Fng). apply Nat.ltb_lt in Flt. rewrite Flt.
      destruct (tokset _); [rewrite d_m_reaccess|]; d_mcalc.
    + d_mcalc.
  - (* access answer *)
    assert (A : In (QAccess i) (cqueue (conns s c))) by (rewrite Eq; left; reflexivity).
    apply (d_a_qacc s W) in A as (Flt & Fown). apply Nat.ltb_lt in Flt. rewrite Flt.
    unfold Core.is_gone. destruct (gone (csubs (cv s) i)) eqn:Eg; [d_mcalc|].
    destruct (ans (insts s i)) as [g|]; [|d_mcalc].
    rewrite d_m_fold; [d_mcalc|]. intros _. exact Eg.
  - (* subscription task *)
    assert (A : In (QSub i) (cqueue (conns s c))) by (rewrite Eq; left; reflexivity).
    apply (d_a_qsub s W) in A as (Flt & Fown). apply Nat.ltb_lt in Flt. rewrite Flt.
    destruct (ccq (csubs (cv s) i)) as [|[|e|] r]; [d_mcalc| | |].
    + destruct (gone (csubs (cv s) i)); [d_mcalc|]. rewrite d_m_respond. d_mcalc.
    + destruct (_ && _); d_mcalc.
    + rewrite d_m_reaccess. d_mcalc.
  - (* disposal *)
    cbn [Core.cur Core.with_q].
    match goal with |- context [fold_left (Core.act val upd app norm) ?l ?k] => destruct (d_fold_act l k) as (A & B & C & D & E) end.
    destruct (cur (conns s c)) as [i|] eqn:Ecur.
    + destruct (d_a_cur s W c i Ecur) as (Flt & _ & Fng). apply Nat.ltb_lt in Flt. rewrite Flt.
      unfold d_m, d_w. d_tkred. rewrite D, E. d_mcalc.
    + d_tkred. rewrite E. d_mcalc.
Qed.

(* sum over the instances of a connection *)
Fixpoint d_sum (own : nat -> nat) (w : nat -> nat) (c n : nat) : nat :=
  match n with 0 => 0 | S m => d_sum own w c m + (if Nat.eqb (own m) c then w m else 0) end.
Lemma d_co_flat : forall id (own : nat -> nat) (lst : nat -> list nat) c n,
  co id (flat_map lst (filter (fun i => Nat.eqb (own i) c) (seq 0 n))) = d_sum own (fun i => co id (lst i)) c n.
Proof.
  intros id own lst c n. induction n as [|n IH]; [reflexivity|].
  rewrite seq_S, filter_app, flat_map_app, d_co_app, IH. cbn [d_sum plus filter].
  destruct (Nat.eqb (own n) c); cbn [flat_map]; [rewrite app_nil_r|]; reflexivity.
Qed.
Lemma d_co_dropped : forall id s c, co id (dropped s c) = d_sum (fun i => owner (insts s i)) (fun i => co id (lost (insts s i))) c (next s).
Proof. intros id s c. unfold Core.dropped, Core.insts_of. apply d_co_flat. Qed.
Lemma d_sum_ext : forall own own' w w' c n,
  (forall j, j < n -> own' j = own j) -> (forall j, j < n -> own j = c -> w' j = w j) -> d_sum own' w' c n = d_sum own w c n.
Proof.
  intros own own' w w' c n. induction n as [|n IH]; intros H1 H2; [reflexivity|]. cbn [d_sum].
  rewrite IH; [|intros; apply H1; lia|intros; apply H2; auto; lia]. rewrite (H1 n) by lia.
  destruct (Nat.eqb_spec (own n) c); [rewrite H2 by (auto; lia)|]; reflexivity.
Qed.
Lemma d_sum_upd : forall own own' w w' c n i0,
  (forall j, j < n -> own' j = own j) -> (forall j, j < n -> j <> i0 -> w' j = w j) -> i0 < n -> own i0 = c ->
  d_sum own' w' c n + w i0 = d_sum own w c n + w' i0.
Proof.
  intros own own' w w' c n i0. induction n as [|n IH]; intros H1 H2 H3 H4; [lia|]. cbn [d_sum].
  rewrite (H1 n) by lia. destruct (Nat.eq_dec i0 n) as [->|Hne].
  - rewrite (d_sum_ext own own' w w' c n); [|intros; apply H1; lia|intros; apply H2; lia]. rewrite H4, Nat.eqb_refl. lia.
  - assert (X : d_sum own' w' c n + w i0 = d_sum own w c n + w' i0) by (apply IH; [intros; apply H1; lia|intros; apply H2; lia|lia|exact H4]).
    rewrite (H2 n) by lia. destruct (Nat.eqb (own n) c); lia.
Qed.

Definition d_queued (s : st) (c : nat) : list nat := flat_map d_qid (cqueue (conns s c)).
(* ids queued, waiting at an instance, or dropped *)
Definition d_total (id : nat) (s : st) (c : nat) : nat :=
  co id (d_queued s c) + d_sum (fun i => owner (insts s i)) (fun i => d_w id (insts s i)) c (next s).

Lemma d_resps_none : forall c' l, (forall x, In x l -> for_conn c' x = false) -> resps c' l = [].
Proof.
  intros c' l. induction l as [|x l IH]; intros H; [reflexivity|]. cbn [Core.resps flat_map].
  fold (resps c' l). rewrite IH by (intros; apply H; right; assumption). rewrite app_nil_r.
  pose proof (H x (or_introl eq_refl)) as Hx. destruct x; cbn [Core.for_conn] in Hx; try reflexivity; rewrite Hx; reflexivity.
Qed.

Lemma d_qid_esq : forall s σ' c, flat_map d_qid (d_esq s σ' c) = [].
Proof.
  intros s σ' c. assert (H : forall x, In x (d_esq s σ' c) -> d_qid x = []).
  { intros x Hx. apply d_in_esq_other in Hx as [j [->| ->]]; reflexivity. }
  induction (d_esq s σ' c) as [|x l IH]; [reflexivity|]. cbn [flat_map]. rewrite (H x) by (left; reflexivity).
  apply IH. intros y Hy. apply H. right. exact Hy.
Qed.

Lemma d_fr_queued : forall s o c', d_nongrant o ->
  d_queued (fst (step s o)) c' = d_queued s c' ++ (if disc (conns s c') then [] else reqs c' [o]).
Proof.
  intros s o c' Hng. unfold d_queued.
  d_ng_cases s o; d_proj; try d_es_look c'; cbn [Core.reqs flat_map].
  all: try (destruct (disc (conns s c')); rewrite ?app_nil_r; reflexivity).
  all: try (rewrite flat_map_app, d_qid_esq; destruct (disc (conns s c')); rewrite ?app_nil_r; reflexivity).
  all: try (unfold Core.set_conn; destruct (Nat.eqb_spec c' c) as [->|Hcc]; d_proj;
            rewrite ?(proj2 (Nat.eqb_neq c c') (not_eq_sym Hcc)), ?Nat.eqb_refl, ?Edisc, ?flat_map_app; cbn [flat_map d_qid]; rewrite ?app_nil_r; try reflexivity;
            destruct (disc (conns s c')); rewrite ?app_nil_r; reflexivity).
  all: try (unfold Core.set_conn; destruct (Nat.eqb_spec c' c) as [->|Hcc]; d_proj;
            rewrite ?flat_map_app; cbn [flat_map d_qid]; rewrite ?app_nil_r;
            match goal with |- context [if ?b then _ else _] => destruct b end; rewrite ?app_nil_r; reflexivity).
  exfalso. eapply Hng. reflexivity.
Qed.

Lemma d_count_ng : forall id s o c', d_W1 s -> d_nongrant o ->
  d_total id (fst (step s o)) c' + co id (resps c' (snd (step s o))) =
  d_total id s c' + co id (if disc (conns s c') then [] else reqs c' [o]).
Proof.
  intros id s o c' W Hng. unfold d_total.
  rewrite (d_fr_queued s o c' Hng), d_co_app.
  destruct (d_ng_next s o Hng) as [En _]. rewrite En.
  assert (Hr : resps c' (snd (step s o)) = []).
  { apply d_resps_none. intros x Hx. rewrite (d_ng_out s o x Hng Hx). reflexivity. }
  rewrite Hr, d_co_nil.
  rewrite (d_sum_ext (fun i => owner (insts s i)) (fun i => owner (insts (fst (step s o)) i)) (fun i => d_w id (insts s i))); [lia| |].
  - intros j _. apply (d_ng_inst s o j Hng).
  - intros j _ _. destruct (d_ng_inst s o j Hng) as (_ & E1 & E2 & _ & _ & _ & _ & E3 & _). cbv zeta in *. unfold d_w. rewrite E1, E2, E3. reflexivity.
Qed.

Lemma d_count_grant : forall id s c c', d_W1 s ->
  d_total id (fst (step s (GrantConn c))) c' + co id (resps c' (snd (step s (GrantConn c)))) = d_total id s c'.
Proof.
  intros id s c c' W. destruct (cqueue (conns s c)) as [|it q] eqn:Eq.
  { cbn [Core.step]. rewrite Eq. cbn [fst snd Core.resps flat_map]. rewrite d_co_nil. lia. }
  pose proof (d_task_summary s c it q W Eq) as Sm. pose proof (d_task_measure id s c it q W Eq) as Ms.
  destruct (conn_task s c) as [[[k oi] nx] ms] eqn:Ect. rewrite (d_step_grant s c it q Eq k oi nx ms Ect). cbn [fst snd].
  destruct Sm as (Sq & Sd & Sts & Sh).
  pose proof (d_shape_next s c it q k oi nx ms Sh) as Hnx.
  assert (Hoi : forall i, oi = Some i -> owner (ty k) = c /\ ((i < next s /\ owner (insts s i) = c) \/ (i = next s /\ nx = S (next s)))).
  { intros i E. apply (d_shape_oi s c it q k oi nx ms i W Sh E). }
  unfold d_total, d_queued. d_proj.
  destruct (Nat.eq_dec c' c) as [->|Hcc].
  - rewrite d_set_conn_eq, Sq, Eq. cbn [flat_map]. rewrite d_co_app.
    destruct oi as [i|].
    + destruct (Hoi i eq_refl) as (Ho & [(Hl & Hoo)|(-> & ->)]).
      * destruct Hnx as [(-> & _)|(_ & _ & X)]; [|injection X as ->; lia]. assert (El : Nat.ltb i (next s) = true) by (apply Nat.ltb_lt; exact Hl). rewrite El in Ms.
        pose proof (d_sum_upd (fun j => owner (insts s j)) (fun j => owner (Core.set_inst (insts s) i (ty k) j))
                      (fun j => d_w id (insts s j)) (fun j => d_w id (Core.set_inst (insts s) i (ty k) j)) c (next s) i) as X.
        cbv beta in X. rewrite d_set_inst_eq in X. unfold d_m in Ms.
        assert (X' := X (fun j _ => ltac:(unfold Core.set_inst; destruct (Nat.eqb_spec j i) as [->|]; [congruence|reflexivity]))
                        (fun j _ Hne => ltac:(rewrite d_set_inst_neq by exact Hne; reflexivity)) Hl Hoo). lia.
      * rewrite Nat.ltb_irrefl in Ms. cbn [d_sum]. rewrite !d_set_inst_eq, Ho, Nat.eqb_refl. unfold d_m in Ms.
        rewrite (d_sum_ext (fun j => owner (insts s j)) (fun j => owner (Core.set_inst (insts s) (next s) (ty k) j)) (fun j => d_w id (insts s j))); [lia| |].
        -- intros j Hj. rewrite d_set_inst_neq by lia. reflexivity.
        -- intros j Hj _. rewrite d_set_inst_neq by lia. reflexivity.
    + destruct Hnx as [(-> & _)|(_ & _ & X)]; [|discriminate]. lia.
  - rewrite d_set_conn_neq by exact Hcc.
    assert (Hr : resps c' (tout k) = []).
    { apply d_resps_none. intros x Hx. destruct (for_conn c' x) eqn:Ef; [|reflexivity]. exfalso.
      destruct (d_shape_out s c it q k oi nx ms Sh) as [P|(_ & P)].
      - rewrite forallb_forall in P. apply Hcc. apply (d_plain_for c c' x (P x Hx) Ef).
      - rewrite P in Hx. destruct Hx as [<-|[]]. discriminate. }
    rewrite Hr, d_co_nil.
    destruct oi as [i|].
    + destruct (Hoi i eq_refl) as (Ho & [(Hl & Hoo)|(-> & ->)]).
      * destruct Hnx as [(-> & _)|(_ & _ & X)]; [|injection X as ->; lia].
        rewrite (d_sum_ext (fun j => owner (insts s j)) (fun j => owner (Core.set_inst (insts s) i (ty k) j)) (fun j => d_w id (insts s j))); [lia| |].
        -- intros j Hj. unfold Core.set_inst. destruct (Nat.eqb_spec j i) as [->|]; [congruence|reflexivity].
        -- intros j Hj Hjo. unfold Core.set_inst. destruct (Nat.eqb_spec j i) as [->|]; [congruence|reflexivity].
      * cbn [d_sum]. rewrite !d_set_inst_eq, Ho. apply Nat.eqb_neq in Hcc. rewrite (Nat.eqb_sym c c'), Hcc.
        rewrite (d_sum_ext (fun j => owner (insts s j)) (fun j => owner (Core.set_inst (insts s) (next s) (ty k) j)) (fun j => d_w id (insts s j))); [lia| |].
        -- intros j Hj. rewrite d_set_inst_neq by lia. reflexivity.
        -- intros j Hj _. rewrite d_set_inst_neq by lia. reflexivity.
    + destruct Hnx as [(-> & _)|(_ & _ & X)]; [|discriminate]. lia.
Qed.

Lemma d_disc_mono : forall s o c', d_W1 s -> disc (conns (fst (step s o)) c') = false -> disc (conns s c') = false.
Proof.
  intros s o c' W H. destruct (disc (conns s c')) eqn:E; [|reflexivity]. destruct (d_grant_dec o) as [[c ->]|Hng].
  - destruct (cqueue (conns s c)) as [|it q] eqn:Eq.
    + revert H. cbn [Core.step]. rewrite Eq. cbn [fst]. congruence.
    + pose proof (d_task_summary s c it q W Eq) as Sm.
      destruct (conn_task s c) as [[[k oi] nx] ms] eqn:Ect. rewrite (d_step_grant s c it q Eq k oi nx ms Ect) in H. cbn [fst Core.conns] in H.
      destruct Sm as (_ & Sd & _).
      destruct (Nat.eq_dec c' c) as [->|Hcc]; [|rewrite d_set_conn_neq in H by exact Hcc; congruence].
      rewrite d_set_conn_eq in H. congruence.
  - destruct (d_ng_conn s o c' Hng) as (_ & _ & X & _). rewrite (X E) in H. discriminate.
Qed.

Lemma d_count_inv : forall t ops c rid,
  let s := fst (exec t ops) in let outs := snd (exec t ops) in
  d_total rid s c + co rid (resps c outs) <= co rid (reqs c ops) /\
  (disc (conns s c) = false -> d_total rid s c + co rid (resps c outs) = co rid (reqs c ops)).
Proof.
  intros t ops c rid. induction ops as [|o ops IH] using rev_ind.
  - cbn. split; [|intros _]; reflexivity.
  - cbv zeta in *. destruct (d_exec_snoc' t ops o) as [-> ->].
    pose proof (d_w1_exec t ops) as W.
    set (s := fst (exec t ops)) in *. set (outs := snd (exec t ops)) in *.
    destruct IH as [I1 I2].
    assert (Er : reqs c (ops ++ [o]) = reqs c ops ++ reqs c [o]) by (unfold Core.reqs; apply flat_map_app).
    rewrite Er, d_resps_app, !d_co_app.
    destruct (d_grant_dec o) as [[c0 ->]|Hng].
    + pose proof (d_count_grant rid s c0 c W) as K.
      assert (Z : reqs c [GrantConn c0] = []) by reflexivity. rewrite Z, d_co_nil.
      split; [lia|]. intros Hd. apply d_disc_mono in Hd; [|exact W]. specialize (I2 Hd). lia.
    + pose proof (d_count_ng rid s o c W Hng) as K.
      split.
      * destruct (disc (conns s c)); rewrite ?d_co_nil in K; lia.
      * intros Hd. apply d_disc_mono in Hd; [|exact W]. specialize (I2 Hd). rewrite Hd in K. lia.
Qed.

(* nothing waits once everything is quiet *)
Lemma d_quiet_w : forall s j rid, d_W1 s -> d_W2 s -> quiescent s -> j < next s -> d_w rid (insts s j) = co rid (lost (insts s j)).
Proof.
  intros s j rid W U Hq Hlt. pose proof (d_a_inv s W) as HI. pose proof Hq as (Hqe & Hqc & _ & Hfl).
  assert (Ha : acb (insts s j) = []).
  { destruct (acb (insts s j)) eqn:E; [reflexivity|]. exfalso.
    assert (X : acb (insts s j) <> []) by (rewrite E; discriminate). apply (d_a_acb s W) in X. rewrite (Hfl j Hlt) in X. discriminate. }
  assert (Hr : rcb (insts s j) = []).
  { destruct (rcb (insts s j)) eqn:Er; [reflexivity|]. exfalso.
    assert (X : rcb (insts s j) <> []) by (rewrite Er; discriminate).
    destruct (d_a_rcb s W j X) as [Hg Hl].
    pose proof (Conv.i3 _ _ _ _ HI j Hg) as H3. rewrite Hqe, (d_a_sub s W j Hlt) in H3. cbn in H3.
    assert (Hm : Conv.mem j (Conv.rs_subs val upd (cv s)) = true) by (destruct (Conv.mem j (Conv.rs_subs val upd (cv s))); [reflexivity|discriminate]).
    assert (Hne : Conv.rs_subs val upd (cv s) <> []) by (intros E; rewrite E in Hm; discriminate).
    pose proof (d_quiet_loaded s U HI Hq Hne) as Hrl.
    pose proof (Conv.i4 _ _ _ _ HI j) as H4. rewrite (d_quiet_cq s j W U Hq), Hl, Hm, Hrl, Hqe in H4. cbn in H4. discriminate. }
  unfold d_w. rewrite Ha, Hr. cbn. reflexivity.
Qed.

Theorem core_responses : forall t ops c,
  let s := fst (exec t ops) in let outs := snd (exec t ops) in
  NoDup (Core.reqs upd c ops) ->
  NoDup (resps c outs) /\ incl (resps c outs) (Core.reqs upd c ops) /\
  (forall id, In id (resps c outs) -> ~ In id (Core.dropped val upd s c)) /\
  (quiescent s -> Core.disc (conns s c) = false ->
   forall id, In id (Core.reqs upd c ops) -> In id (resps c outs) \/ In id (Core.dropped val upd s c)).
Proof.
  intros t ops c s outs Hnd.
  assert (K : forall rid, d_total rid s c + co rid (resps c outs) <= co rid (reqs c ops) /\
                (disc (conns s c) = false -> d_total rid s c + co rid (resps c outs) = co rid (reqs c ops))).
  { intros rid. apply (d_count_inv t ops c rid). }
  assert (L : forall rid, co rid (reqs c ops) <= 1).
  { intros rid. unfold d_co. apply (proj1 (NoDup_count_occ Nat.eq_dec (reqs c ops)) Hnd). }
  assert (Dr : forall rid, co rid (dropped s c) <= d_total rid s c).
  { intros rid. rewrite d_co_dropped. unfold d_total.
    assert (X : forall n, d_sum (fun i => owner (insts s i)) (fun i => co rid (lost (insts s i))) c n <=
                          d_sum (fun i => owner (insts s i)) (fun i => d_w rid (insts s i)) c n).
    { induction n as [|n IH]; [reflexivity|]. cbn [d_sum]. unfold d_w at 2. destruct (Nat.eqb _ c); lia. }
    specialize (X (next s)). lia. }
  split; [|split; [|split]].
  - apply (NoDup_count_occ Nat.eq_dec). intros rid. destruct (K rid) as [K1 _]. specialize (L rid). unfold d_co in *. lia.
  - intros rid Hin. apply (count_occ_In Nat.eq_dec) in Hin. destruct (K rid) as [K1 _].
    apply (count_occ_In Nat.eq_dec). unfold d_co in *. lia.
  - intros rid Hin Hdr. apply (count_occ_In Nat.eq_dec) in Hin. apply (count_occ_In Nat.eq_dec) in Hdr.
    destruct (K rid) as [K1 _]. specialize (L rid). specialize (Dr rid). unfold d_co in *. lia.
  - intros Hq Hd rid Hin. apply (count_occ_In Nat.eq_dec) in Hin. destruct (K rid) as [_ K2]. specialize (K2 Hd).
    pose proof (d_w1_exec t ops) as W. pose proof (d_w2_exec t ops) as U. fold s in W, U.
    assert (Tq : d_total rid s c = co rid (dropped s c)).
    { rewrite d_co_dropped. unfold d_total, d_queued. destruct Hq as (Hqe & Hqc & Hq3 & Hq4). rewrite Hqc. cbn [flat_map]. rewrite d_co_nil. cbn [plus].
      apply d_sum_ext; [reflexivity|]. intros j Hj _. apply d_quiet_w; try assumption. repeat split; assumption. }
    rewrite Tq in K2. unfold d_co in *.
    destruct (count_occ Nat.eq_dec (resps c outs) rid) eqn:E1.
    + right. apply (count_occ_In Nat.eq_dec). lia.
    + left. apply (count_occ_In Nat.eq_dec). lia.
Qed.

(* ---------- E: data only after a grant ---------- *)
Lemma d_next_mono : forall s o, d_W1 s -> next s <= next (fst (step s o)).
Proof.
  intros s o W. destruct (d_grant_dec o) as [[c ->]|Hng]; [|destruct (d_ng_next s o Hng) as [-> _]; lia].
  destruct (cqueue (conns s c)) as [|it q] eqn:Eq.
  - cbn [Core.step]. rewrite Eq. cbn [fst]. lia.
  - pose proof (d_task_summary s c it q W Eq) as Sm.
    destruct (conn_task s c) as [[[k oi] nx] ms] eqn:Ect. rewrite (d_step_grant s c it q Eq k oi nx ms Ect). cbn [fst Core.next].
    destruct Sm as (_ & _ & _ & Sh). destruct (d_shape_next s c it q k oi nx ms Sh) as [(-> & _)|(-> & _)]; lia.
Qed.
Lemma d_owner_frame : forall s o j, d_W1 s -> j < next s -> owner (insts (fst (step s o)) j) = owner (insts s j).
Proof.
  intros s o j W Hj. destruct (d_grant_dec o) as [[c ->]|Hng]; [|apply (d_ng_inst s o j Hng)].
  destruct (cqueue (conns s c)) as [|it q] eqn:Eq.
  - cbn [Core.step]. rewrite Eq. reflexivity.
  - pose proof (d_task_summary s c it q W Eq) as Sm.
    destruct (conn_task s c) as [[[k oi] nx] ms] eqn:Ect. rewrite (d_step_grant s c it q Eq k oi nx ms Ect). cbn [fst Core.insts].
    destruct Sm as (_ & _ & _ & Sh). destruct oi as [i|]; [|reflexivity].
    unfold Core.set_inst. destruct (Nat.eqb_spec j i) as [->|]; [|reflexivity].
    destruct (d_shape_oi s c it q k _ _ _ i W Sh eq_refl) as (X & [(_ & Y)|(Y & _)]); [congruence|lia].
Qed.

Section d_Task3.
Variables (c i : nat).
Notation dispose_t := (Core.dispose_t val upd app norm i).
Notation remove_direct := (Core.remove_direct val upd app norm i).
Notation unsubscribe_direct := (Core.unsubscribe_direct val upd app norm c i).
Notation load_access := (Core.load_access val upd c i).
Notation handle_reaccess := (Core.handle_reaccess val upd app norm c i).
Notation reaccess := (Core.reaccess val upd app norm c i).
Notation unqueue_reaccess := (Core.unqueue_reaccess val upd app norm c i).
Notation run_cb := (Core.run_cb val upd app norm c i).

(* handlers that send no data: the cached verdict is kept or forgotten, the waiting requests are kept or dropped *)
Definition d_ar (k k' : tk) : Prop :=
  (acc (ty k') = acc (ty k) \/ acc (ty k') = None) /\ (rcb (ty k') = rcb (ty k) \/ rcb (ty k') = []).
Lemma d_ar_refl : forall k, d_ar k k.
Proof. intros k. split; left; reflexivity. Qed.
Lemma d_ar_trans : forall k1 k2 k3, d_ar k1 k2 -> d_ar k2 k3 -> d_ar k1 k3.
Proof.
  intros k1 k2 k3 [[A|A] [B|B]] [[A'|A'] [B'|B']]; split; try (right; assumption); try (left; congruence); try (right; congruence).
Qed.
Lemma d_ar_same : forall k k', ty k' = ty k -> d_ar k k'.
Proof. intros k k' H. unfold d_ar. rewrite H. split; left; reflexivity. Qed.
Lemma d_ar_sety : forall k y, (acc y = acc (ty k) \/ acc y = None) -> (rcb y = rcb (ty k) \/ rcb y = []) -> d_ar k (sety k y).
Proof. intros k y H1 H2. split; assumption. Qed.

Ltac d_apeel tac :=
  lazymatch goal with
  | |- d_ar ?k ?k => apply d_ar_refl
  | |- d_ar ?k (Core.setx _ _ ?K _) => apply (d_ar_trans k K); [d_apeel tac | apply d_ar_same; reflexivity]
  | |- d_ar ?k (Core.sety _ _ ?K _) => apply (d_ar_trans k K); [d_apeel tac | apply d_ar_sety; cbn; auto]
  | |- d_ar ?k (Core.emit _ _ ?K _) => apply (d_ar_trans k K); [d_apeel tac | apply d_ar_same; reflexivity]
  | |- d_ar ?k (Core.act _ _ _ _ ?K _) => apply (d_ar_trans k K); [d_apeel tac | apply d_ar_same; reflexivity]
  | |- d_ar _ (if ?b then _ else _) => destruct b eqn:?; d_apeel tac
  | |- _ => tac
  end.

Lemma d_ar_dispose : forall k, d_ar k (dispose_t k).
Proof. intros k. unfold Core.dispose_t. cbv zeta. d_apeel idtac. Qed.
Ltac d_a1 :=
  lazymatch goal with
  | |- d_ar ?k (Core.dispose_t _ _ _ _ _ ?K) => apply (d_ar_trans k K); [d_apeel ltac:(idtac; d_a1) | apply d_ar_dispose]
  end.
Lemma d_ar_remove : forall k n, d_ar k (remove_direct k n).
Proof. intros k n. unfold Core.remove_direct. cbv zeta. d_apeel ltac:(idtac; d_a1). Qed.
Ltac d_a2 :=
  lazymatch goal with
  | |- d_ar ?k (Core.remove_direct _ _ _ _ _ ?K _) => apply (d_ar_trans k K); [d_apeel ltac:(idtac; d_a2) | apply d_ar_remove]
  end.
Lemma d_ar_unsubd : forall k, d_ar k (unsubscribe_direct k).
Proof. intros k. unfold Core.unsubscribe_direct. d_apeel ltac:(idtac; d_a2). Qed.
Lemma d_ar_load : forall k b, d_ar k (load_access k b).
Proof. intros k b. unfold Core.load_access. cbv zeta. d_apeel idtac. Qed.
Ltac d_a3 :=
  lazymatch goal with
  | |- d_ar ?k (Core.load_access _ _ _ _ ?K _) => apply (d_ar_trans k K); [d_apeel ltac:(idtac; d_a3) | apply d_ar_load]
  end.
Lemma d_ar_hre : forall k, d_ar k (handle_reaccess k).
Proof. intros k. unfold Core.handle_reaccess. cbv zeta. d_apeel ltac:(idtac; d_a3). Qed.
Ltac d_a4 :=
  lazymatch goal with
  | |- d_ar ?k (Core.handle_reaccess _ _ _ _ _ _ ?K) => apply (d_ar_trans k K); [d_apeel ltac:(idtac; d_a4) | apply d_ar_hre]
  end.
Lemma d_ar_reaccess : forall k, d_ar k (reaccess k).
Proof. intros k. unfold Core.reaccess. cbv zeta. d_apeel ltac:(idtac; d_a4). Qed.
Lemma d_ar_unq : forall k, d_ar k (unqueue_reaccess k).
Proof. intros k. unfold Core.unqueue_reaccess. cbv zeta. d_apeel ltac:(idtac; d_a4). Qed.
Lemma d_ar_runcb_false : forall k b, d_ar k (run_cb false k b).
Proof.
  intros k [id|]; cbn [Core.run_cb].
  - d_apeel ltac:(idtac; d_a2).
  - eapply d_ar_trans; [apply d_ar_unsubd|apply d_ar_unq].
Qed.
Lemma d_ar_fold_false : forall l k, d_ar k (fold_left (run_cb false) l k).
Proof.
  induction l as [|b l IH]; intros k; cbn [fold_left]; [apply d_ar_refl|].
  eapply d_ar_trans; [apply d_ar_runcb_false|apply IH].
Qed.

(* the verdict and the waiting requests of the instance are backed by a grant *)
Definition d_eg (G : Prop) (k : tk) : Prop := (acc (ty k) = Some true -> G) /\ (rcb (ty k) <> [] -> G).
Lemma d_eg_ar : forall G k k', d_ar k k' -> d_eg G k -> d_eg G k'.
Proof.
  intros G k k' [[A|A] [B|B]] [E1 E2]; split; rewrite ?A, ?B; try assumption; try discriminate; intros X; exfalso; apply X; reflexivity.
Qed.
Lemma d_eg_triv : forall (G : Prop) k, G -> d_eg G k.
Proof. intros G k H. split; intros _; exact H. Qed.

Definition d_nodata (l : list out) : Prop := forall x, In x l -> d_isdata x = false.
Lemma d_rel_nodata : forall dz k k', d_rel i dz (d_nd c) k k' -> d_nodata (tout k) -> d_nodata (tout k').
Proof.
  intros dz k k' [_ (lo & B1 & B2) _ _ _ _ _ _] H x Hx. rewrite B1 in Hx. apply in_app_or in Hx as [Hx|Hx]; [apply H; exact Hx|].
  rewrite forallb_forall in B2. apply B2 in Hx. unfold d_nd in Hx. apply andb_prop in Hx as [_ Hx]. apply negb_true_iff in Hx. exact Hx.
Qed.
End d_Task3.

Definition d_E (s : st) (G : nat -> Prop) : Prop :=
  forall j, (ans (insts s j) = Some true -> G j) /\ (acc (insts s j) = Some true -> G j) /\ (rcb (insts s j) <> [] -> G j).

Definition d_Egoal (G : nat -> Prop) (s : st) (k : tk) (oi : option nat) : Prop :=
  (forall x, In x (tout k) -> d_isdata x = true -> exists i, oi = Some i /\ i < next s /\ G i) /\
  (forall i, oi = Some i -> (ans (ty k) = Some true -> G i) /\ d_eg (G i) k).

Lemma d_Egoal_nd : forall (G : nat -> Prop) s k i, d_nodata (tout k) -> (ans (ty k) = Some true -> G i) -> d_eg (G i) k -> d_Egoal G s k (Some i).
Proof.
  intros G s k i H1 H2 H3. split.
  - intros x Hx Hd. rewrite (H1 x Hx) in Hd. discriminate.
  - intros i' E. injection E as <-. auto.
Qed.
Lemma d_Egoal_G : forall (G : nat -> Prop) s k i, i < next s -> G i -> d_Egoal G s k (Some i).
Proof.
  intros G s k i H1 H2. split.
  - intros x _ _. exists i. auto.
  - intros i' E. injection E as <-. split; [auto|apply d_eg_triv; exact H2].
Qed.
Lemma d_Egoal_none : forall (G : nat -> Prop) s k, d_nodata (tout k) -> d_Egoal G s k None.
Proof.
  intros G s k H1. split.
  - intros x Hx Hd. rewrite (H1 x Hx) in Hd. discriminate.
  - intros i' E. discriminate.
Qed.
(* a task made of handlers that send no data *)
Lemma d_Egoal_rel : forall (G : nat -> Prop) s c i dz K1 k, d_rel i dz (d_nd c) K1 k -> d_ar K1 k ->
  d_nodata (tout K1) -> (ans (ty K1) = Some true -> G i) -> d_eg (G i) K1 -> d_Egoal G s k (Some i).
Proof.
  intros G s c i dz K1 k R A H1 H2 H3. apply d_Egoal_nd.
  - apply (d_rel_nodata c i dz K1 k R H1).
  - rewrite (d_r_ans i dz _ K1 k R). exact H2.
  - apply (d_eg_ar _ K1 k A H3).
Qed.
Lemma d_nodata_nil : d_nodata [].
Proof. intros x []. Qed.
Lemma d_eg_inst : forall (G : nat -> Prop) s i (K : tk), d_E s G -> ty K = insts s i -> d_eg (G i) K /\ (ans (ty K) = Some true -> G i).
Proof. intros G s i K E H. rewrite H. unfold d_eg. rewrite H. destruct (E i) as (A & B & C). auto. Qed.

Lemma d_task_E : forall (G : nat -> Prop) s c it q, d_W1 s -> d_E s G -> cqueue (conns s c) = it :: q ->
  let '(k, oi, nx, ms) := conn_task s c in d_Egoal G s k oi.
Proof.
  intros G s c it q W E Eq. d_ct_unfold Eq. destruct it as [id|id cnt|t|i|i|].
  - (* request *)
    cbn [Core.cur Core.with_q]. destruct (cur (conns s c)) as [i|] eqn:Ecur.
    + destruct (d_a_cur s W c i Ecur) as (Flt & _ & Fng).
      set (K1 := {| Core.ts := cv s; Core.ta := []; Core.tx := Core.with_cd (Core.with_q (conns s c) q) (Some i) (S (direct (Core.with_q (conns s c) q)));
                    Core.ty := insts s i; Core.to := [] |}).
      destruct (d_eg_inst G s i K1 E eq_refl) as [E1 E2].
      destruct (acc (ty K1)) as [[|]|] eqn:Ea.
      * apply d_Egoal_G; [exact Flt|]. apply (proj1 (proj2 (E i))). exact Ea.
      * apply (d_Egoal_rel G s c i true K1); try assumption; try apply d_nodata_nil.
        -- eapply d_rel_trans; [|apply d_remove_rel]. apply d_rel_emit; d_side.
        -- eapply d_ar_trans; [|apply d_ar_remove]. apply d_ar_same; reflexivity.
      * apply (d_Egoal_rel G s c i true K1); try assumption; try apply d_nodata_nil.
        -- apply (d_rel_weak _ _ (d_nd c)); [auto|apply d_load_rel].
        -- apply d_ar_load.
    + match goal with |- d_Egoal _ _ (Core.load_access _ _ _ _ ?K _) _ => set (K1 := K) end.
      apply (d_Egoal_rel G s c (next s) true K1).
      * apply (d_rel_weak _ _ (d_nd c)); [auto|apply d_load_rel].
      * apply d_ar_load.
      * unfold K1. d_tkred. cbn [List.app]. destruct (mqsub s); [apply d_nodata_nil|]. intros x [<-|[]]. reflexivity.
      * unfold K1. d_tkred. cbn. discriminate.
      * unfold K1. split; d_tkred; cbn; [discriminate|intros X; exfalso; apply X; reflexivity].
  - (* unsubscribe *)
    cbn [Core.cur Core.with_q]. destruct (cur (conns s c)) as [i|] eqn:Ecur.
    + set (K1 := {| Core.ts := cv s; Core.ta := []; Core.tx := Core.with_q (conns s c) q; Core.ty := insts s i; Core.to := [] |}).
      destruct (d_eg_inst G s i K1 E eq_refl) as [E1 E2].
      apply (d_Egoal_rel G s c i true K1); try assumption; try apply d_nodata_nil.
      * destruct (Nat.eqb cnt 0); [apply d_rel_emit; d_side|].
        destruct (Nat.leb cnt _); [|apply d_rel_emit; d_side].
        eapply d_rel_trans; [|apply d_remove_rel].
        destruct (Nat.eqb _ 0).
        -- apply (d_rel_trans _ _ _ _ (emit K1 [Core.OAck val upd c id cnt])); [apply d_rel_emit; d_side|]. apply d_rel_sety; reflexivity.
        -- apply d_rel_emit; d_side.
      * destruct (Nat.eqb cnt 0); [apply d_ar_same; reflexivity|].
        destruct (Nat.leb cnt _); [|apply d_ar_same; reflexivity].
        eapply d_ar_trans; [|apply d_ar_remove].
        destruct (Nat.eqb _ 0); split; left; reflexivity.
    + apply d_Egoal_none. d_tkred. cbn [List.app]. intros x [<-|[]]. reflexivity.
  - (* token *)
    cbn [Core.cur Core.with_q]. destruct (cur (conns s c)) as [i|] eqn:Ecur.
    + match goal with |- d_Egoal _ _ (if _ then Core.reaccess _ _ _ _ _ _ ?K else _) _ => set (K1 := K) end.
      destruct (d_eg_inst G s i K1 E eq_refl) as [E1 E2].
      apply (d_Egoal_rel G s c i true K1); try assumption; try apply d_nodata_nil.
      * destruct (tokset _); [|apply d_rel_refl]. apply (d_rel_weak _ _ (d_nd c)); [auto|apply d_reaccess_rel].
      * destruct (tokset _); [|apply d_ar_refl]. apply d_ar_reaccess.
    + apply d_Egoal_none. apply d_nodata_nil.
  - (* access answer *)
    assert (A : In (QAccess i) (cqueue (conns s c))) by (rewrite Eq; left; reflexivity).
    apply (d_a_qacc s W) in A as (Flt & Fown).
    set (K0 := {| Core.ts := cv s; Core.ta := []; Core.tx := Core.with_q (conns s c) q; Core.ty := insts s i; Core.to := [] |}).
    destruct (d_eg_inst G s i K0 E eq_refl) as [E1 E2].
    destruct (Core.is_gone val upd (cv s) i).
    { apply (d_Egoal_rel G s c i true K0); try assumption; try apply d_nodata_nil; [apply d_rel_refl|apply d_ar_refl]. }
    destruct (ans (insts s i)) as [[|]|] eqn:Ea.
    + apply d_Egoal_G; [exact Flt|]. apply (proj1 (E i)). exact Ea.
    + match goal with |- d_Egoal _ _ (fold_left _ _ ?K) _ => set (K1 := K) end.
      apply (d_Egoal_rel G s c i true K1); try apply d_nodata_nil.
      * apply d_fold_false_rel.
      * apply d_ar_fold_false.
      * unfold K1. d_tkred. cbn. discriminate.
      * unfold K1. split; d_tkred; cbn; [discriminate|]. apply (proj2 (proj2 (E i))).
    + apply (d_Egoal_rel G s c i true K0); try assumption; try apply d_nodata_nil; [apply d_rel_refl|apply d_ar_refl].
  - (* subscription task *)
    assert (A : In (QSub i) (cqueue (conns s c))) by (rewrite Eq; left; reflexivity).
    apply (d_a_qsub s W) in A as (Flt & Fown).
    set (K0 := {| Core.ts := cv s; Core.ta := []; Core.tx := Core.with_q (conns s c) q; Core.ty := insts s i; Core.to := [] |}).
    set (K1 := act K0 (Conv.RunC upd i)).
    destruct (d_eg_inst G s i K1 E eq_refl) as [E1 E2].
    destruct (ccq (csubs (cv s) i)) as [|[|e|] r].
    + apply (d_Egoal_rel G s c i true K1); try assumption; try apply d_nodata_nil; [apply d_rel_refl|apply d_ar_refl].
    + destruct (gone (csubs (cv s) i)).
      { apply (d_Egoal_rel G s c i true K1); try assumption; try apply d_nodata_nil; [apply d_rel_refl|apply d_ar_refl]. }
      destruct (rcb (ty K1)) as [|id r'] eqn:Er.
      * cbn [Core.respond]. apply (d_Egoal_rel G s c i true K1); try assumption; try apply d_nodata_nil.
        -- apply d_rel_sety; reflexivity.
        -- apply d_ar_sety; cbn; auto.
      * apply d_Egoal_G; [exact Flt|]. apply (proj2 (proj2 (E i))). change (rcb (insts s i)) with (rcb (ty K1)). rewrite Er. discriminate.
    + apply (d_Egoal_rel G s c i true K1); try assumption; try apply d_nodata_nil.
      * apply d_rel_emit. destruct (_ && _); [apply d_plain_proc|reflexivity].
      * apply d_ar_same. reflexivity.
    + apply (d_Egoal_rel G s c i true K1); try assumption; try apply d_nodata_nil.
      * apply (d_rel_weak _ _ (d_nd c)); [auto|apply d_reaccess_rel].
      * apply d_ar_reaccess.
  - (* disposal *)
    cbn [Core.cur Core.with_q].
    match goal with |- context [fold_left (Core.act val upd app norm) ?l ?k] => destruct (d_fold_act l k) as (A & B & C & D & F) end.
    destruct (cur (conns s c)) as [i|] eqn:Ecur.
    + apply d_Egoal_nd.
      * d_tkred. rewrite F. d_tkred. cbn [List.app]. intros x [<-|[]]. reflexivity.
      * d_tkred. rewrite D. d_tkred. cbn [Core.upd_y Core.ans]. apply (proj1 (E i)).
      * unfold d_eg. d_tkred. rewrite D. d_tkred. cbn [Core.upd_y Core.acc Core.rcb]. split; [apply (proj1 (proj2 (E i)))|intros X; exfalso; apply X; reflexivity].
    + apply d_Egoal_none. d_tkred. rewrite F. d_tkred. cbn [List.app]. intros x [<-|[]]. reflexivity.
Qed.

Lemma d_isdata_has : forall c x, has_data c x = true -> d_isdata x = true /\ for_conn c x = true.
Proof. intros c x. destruct x; cbn; try discriminate. destruct v; [auto|discriminate]. Qed.

Lemma d_E_mono : forall s (G G' : nat -> Prop), (forall j, G j -> G' j) -> d_E s G -> d_E s G'.
Proof. intros s G G' H E j. destruct (E j) as (A & B & C). repeat split; intros X; apply H; auto. Qed.

Lemma d_E_step : forall s o (G : nat -> Prop), d_W1 s -> d_E s G -> (forall j, o = Core.MqAccess upd j true -> G j) ->
  d_E (fst (step s o)) G.
Proof.
  intros s o G W E Ho. destruct (d_grant_dec o) as [[c ->]|Hng].
  - destruct (cqueue (conns s c)) as [|it q] eqn:Eq.
    + cbn [Core.step]. rewrite Eq. exact E.
    + pose proof (d_task_E G s c it q W E Eq) as T.
      destruct (conn_task s c) as [[[k oi] nx] ms] eqn:Ect. rewrite (d_step_grant s c it q Eq k oi nx ms Ect). cbn [fst].
      destruct T as [_ T]. intros j. d_proj. destruct oi as [i|]; [|apply E].
      unfold Core.set_inst. destruct (Nat.eqb_spec j i) as [->|]; [|apply E].
      destruct (T i eq_refl) as (T1 & T2 & T3). auto.
  - intros j. destruct (d_ng_inst s o j Hng) as (_ & _ & E1 & E2 & _ & _ & _ & _ & _ & E3). cbv zeta in *.
    rewrite E1, E2. destruct (E j) as (A & B & C). repeat split; try assumption.
    destruct E3 as [->|(g & -> & E3 & _)]; [exact A|]. rewrite E3. intros X. injection X as ->. apply Ho. reflexivity.
Qed.

Lemma d_data_step : forall s o (G : nat -> Prop) c' x, d_W1 s -> d_E s G -> In x (snd (step s o)) -> has_data c' x = true ->
  exists i, i < next s /\ owner (insts s i) = c' /\ G i.
Proof.
  intros s o G c' x W E Hx Hd. apply d_isdata_has in Hd as [Hd Hf].
  pose proof (d_tag s o c' x W Hx Hf) as ->.
  destruct (cqueue (conns s c')) as [|it q] eqn:Eq.
  - revert Hx. cbn [Core.step]. rewrite Eq. intros [].
  - pose proof (d_task_E G s c' it q W E Eq) as T. pose proof (d_task_summary s c' it q W Eq) as Sm.
    destruct (conn_task s c') as [[[k oi] nx] ms] eqn:Ect. rewrite (d_step_grant s c' it q Eq k oi nx ms Ect) in Hx. cbn [snd] in Hx.
    destruct T as [T _]. destruct (T x Hx Hd) as (i & -> & Hi & HG). exists i. split; [exact Hi|]. split; [|exact HG].
    destruct Sm as (_ & _ & _ & Sh). destruct (d_shape_oi s c' it q k _ _ _ i W Sh eq_refl) as (_ & [(_ & Y)|(Y & _)]); [exact Y|lia].
Qed.

Theorem core_data_needs_grant : forall t ops c o,
  let s := fst (exec t ops) in let outs := snd (exec t ops) in
  In o outs -> Core.has_data val upd c o = true ->
  exists i, i < Core.next val upd s /\ Core.owner (insts s i) = c /\ In (Core.MqAccess upd i true) ops.
Proof.
  intros t ops c o s outs. subst s outs.
  assert (K : d_E (fst (exec t ops)) (fun i => In (Core.MqAccess upd i true) ops) /\
              (In o (snd (exec t ops)) -> has_data c o = true ->
               exists i, i < next (fst (exec t ops)) /\ owner (insts (fst (exec t ops)) i) = c /\ In (Core.MqAccess upd i true) ops)).
  { induction ops as [|o1 ops IH] using rev_ind.
    - split; [|intros []]. intros j. cbn. repeat split; try discriminate. intros X. exfalso. apply X. reflexivity.
    - destruct (d_exec_snoc' t ops o1) as [-> ->]. pose proof (d_w1_exec t ops) as W. destruct IH as [IE ID].
      assert (IE' : d_E (fst (exec t ops)) (fun i => In (Core.MqAccess upd i true) (ops ++ [o1]))).
      { eapply d_E_mono; [|exact IE]. intros j Hj. apply in_or_app. left. exact Hj. }
      split.
      + apply d_E_step; try assumption. intros j ->. apply in_or_app. right. left. reflexivity.
      + intros Hin Hd.
        assert (X : exists i, i < next (fst (exec t ops)) /\ owner (insts (fst (exec t ops)) i) = c /\ In (Core.MqAccess upd i true) (ops ++ [o1])).
        { apply in_app_or in Hin as [Hin|Hin].
          - destruct (ID Hin Hd) as (i & A & B & C). exists i. repeat split; try assumption. apply in_or_app. left. exact C.
          - apply (d_data_step _ o1 _ c o W IE' Hin Hd). }
        destruct X as (i & A & B & C). exists i. pose proof (d_next_mono (fst (exec t ops)) o1 W). split; [lia|].
        rewrite d_owner_frame by assumption. auto. }
  apply K.
Qed.

(* ---------- D: nothing is dropped without unsubscribe requests, disconnects, token and reaccess events ---------- *)
Notation IReacc := (Conv.IReacc val upd).
Notation CReacc := (Conv.CReacc upd).
Definition d_noreacc (σ : cst) : Prop := ~ In IReacc (cqe σ) /\ forall j, ~ In CReacc (ccq (csubs σ j)).

Lemma d_pushall_noreacc : forall f l it j, it <> CReacc -> ~ In CReacc (ccq (f j)) -> ~ In CReacc (ccq (Conv.push_all val upd f l it j)).
Proof.
  intros f l it j Hit H. unfold Conv.push_all. destruct (_ && _); [|exact H]. unfold Conv.push_c. cbn [Conv.cq].
  intros X. apply in_app_or in X as [X|[X|[]]]; [apply H; exact X|congruence].
Qed.
Lemma d_refused_noreacc : forall f l, ~ In IReacc (Conv.refused val upd f l).
Proof. intros f l H. unfold Conv.refused in H. apply in_map_iff in H as (x & Hx & _). discriminate. Qed.

Lemma d_noreacc_step : forall σ a, d_areacc a = false -> d_noreacc σ -> d_noreacc (cstep σ a).
Proof.
  intros σ a Ha [H1 H2].
  assert (Hsnoc : forall x, x <> IReacc -> ~ In IReacc (cqe σ ++ [x])).
  { intros x Hx X. apply in_app_or in X as [X|[X|[]]]; [apply H1; exact X|congruence]. }
  d_conv_destruct σ a; try discriminate Ha; try (split; assumption).
  all: split; cbn [Conv.qe Conv.subs]; try assumption; try (apply Hsnoc; discriminate).
  all: try (intros j; unfold Conv.set_sub; destruct (Nat.eqb j s0) eqn:Ej; [|apply H2]; cbn [Conv.cq]).
  all: try (apply Nat.eqb_eq in Ej; subst j).
  all: try (apply H2).
  all: d_drain.
  all: try (rewrite Eqe in H1).
  all: try (intros X; apply H1; right; exact X).
  all: try (intros j; apply d_pushall_noreacc; [discriminate|apply H2]).
  all: try (exfalso; apply H1; left; reflexivity).
  all: try (unfold Conv.dispose; cbn [Conv.cq]; apply H2).
  all: try (destruct (loaded (csubs σ s0)); [apply Hsnoc; discriminate|exact H1]).
  all: try (intros X; apply in_app_or in X as [X|X]; [apply H1; right; exact X|eapply d_refused_noreacc; exact X]).
  all: try (destruct (_ && _); [intros X; apply in_app_or in X as [X|[X|[]]]; [apply H1; right; exact X|discriminate X]|intros X; apply H1; right; exact X]).
  all: try (intros j; destruct (_ && _); [|apply H2]; unfold Conv.set_sub; destruct (Nat.eqb j s1); [|apply H2];
            unfold Conv.push_c; cbn [Conv.cq]; intros X; apply in_app_or in X as [X|[X|[]]]; [eapply H2; exact X|discriminate X]).
  all: try (intros j; destruct (Conv.rs_loaded val upd σ); [apply d_pushall_noreacc; [discriminate|apply H2]|apply H2]).
  all: try (specialize (H2 s0); rewrite Ecq in H2; intros X; apply H2; right; exact X).
  all: try (match goal with |- ~ In _ (ccq ?x) => assert (Ecx : ccq x = q) by (d_if_all; reflexivity); rewrite Ecx end;
            specialize (H2 s0); rewrite Ecq in H2; intros X; apply H2; right; exact X).
  all: try (match goal with H : ccq ?x = ccq ?y |- ~ In _ (ccq ?x) => rewrite H; apply H2 end).
  all: try (rewrite Eqe; exact H1).
Qed.

Lemma d_noreacc_fold : forall acts σ, existsb d_areacc acts = false -> d_noreacc σ -> d_noreacc (cfold acts σ).
Proof.
  induction acts as [|a acts IH]; intros σ H N; cbn [fold_left]; [exact N|]. cbn [existsb] in H. apply orb_false_elim in H as [H1 H2].
  apply IH; [exact H2|]. apply d_noreacc_step; assumption.
Qed.

(* an instance that has never seen a re-access trigger *)
Definition d_qi (y : Core.inst) : Prop :=
  lost y = [] /\ (rcb y <> [] -> acc y = Some true) /\ (inflight y = true -> acc y = None) /\ (ans y <> None -> inflight y = true) /\
  reflag y = false /\ ~ In AVal (acb y).

Section d_Task4.
Variables (c i : nat).
Notation dispose_t := (Core.dispose_t val upd app norm i).
Notation remove_direct := (Core.remove_direct val upd app norm i).
Notation load_access := (Core.load_access val upd c i).
Notation respond := (Core.respond val upd app norm c i).
Notation on_ready := (Core.on_ready val upd app norm c i).
Notation run_cb := (Core.run_cb val upd app norm c i).

Lemma d_rcb_nil : forall y, d_qi y -> acc y <> Some true -> rcb y = [].
Proof.
  intros y (_ & Q2 & _) H. destruct (rcb y) eqn:E; [reflexivity|]. exfalso. apply H. apply Q2. discriminate.
Qed.
Lemma d_qi_dispose : forall k, d_qi (ty k) -> acc (ty k) <> Some true -> d_qi (ty (dispose_t k)) /\ acc (ty (dispose_t k)) = acc (ty k).
Proof.
  intros k Q H. unfold Core.dispose_t. destruct (Core.gone_ val upd i k); [auto|]. cbv zeta. d_tkred.
  pose proof (d_rcb_nil _ Q H) as Er. destruct Q as (Q1 & Q2 & Q3 & Q4 & Q5 & Q6).
  split; [|reflexivity]. unfold d_qi. cbn [Core.upd_y Core.lost Core.rcb Core.acc Core.inflight Core.ans Core.reflag Core.acb].
  rewrite Q1, Er. repeat split; auto; try (intros X; exfalso; apply X; reflexivity).
Qed.
Lemma d_qi_remove : forall k n, d_qi (ty k) -> acc (ty k) <> Some true -> d_qi (ty (remove_direct k n)) /\ acc (ty (remove_direct k n)) = acc (ty k).
Proof.
  intros k n Q H. unfold Core.remove_direct. cbv zeta. destruct (Nat.eqb (direct (tx k)) 0); [auto|].
  destruct (Nat.eqb _ 0); [|auto]. apply (d_qi_dispose (setx k _)); assumption.
Qed.
Lemma d_qi_load : forall k id, d_qi (ty k) -> acc (ty k) = None -> d_qi (ty (load_access k (AReq id))).
Proof.
  intros k id (Q1 & Q2 & Q3 & Q4 & Q5 & Q6) H. unfold Core.load_access. cbv zeta.
  assert (Hn : ~ In AVal (acb (ty k) ++ [AReq id])).
  { intros X. apply in_app_or in X as [X|[X|[]]]; [auto|discriminate]. }
  destruct (inflight (ty k)) eqn:Ef; d_tkred; unfold d_qi; cbn [Core.upd_y Core.lost Core.rcb Core.acc Core.inflight Core.ans Core.reflag Core.acb];
    repeat split; auto.
Qed.
Lemma d_qi_respond : forall k ids, reflag (ty k) = false -> ty (respond k ids) = ty k.
Proof.
  intros k ids H. unfold Core.respond. destruct ids as [|id r]; [reflexivity|]. cbv zeta. d_tkred.
  destruct (Core.sent_ val upd i k); [reflexivity|]. d_tkred. rewrite H. reflexivity.
Qed.
Lemma d_qi_onready : forall k id, d_qi (ty k) -> acc (ty k) = Some true -> d_qi (ty (on_ready k id)) /\ acc (ty (on_ready k id)) = Some true.
Proof.
  intros k id Q H. unfold Core.on_ready. cbv zeta. destruct (Core.loaded_ val upd i k).
  - rewrite d_qi_respond; [auto|apply Q].
  - d_tkred. destruct Q as (Q1 & Q2 & Q3 & Q4 & Q5 & Q6). split; [|exact H].
    unfold d_qi; cbn [Core.upd_y Core.lost Core.rcb Core.acc Core.inflight Core.ans Core.reflag Core.acb]. repeat split; auto.
Qed.
Lemma d_qi_runcb : forall g k id, d_qi (ty k) -> acc (ty k) = Some g ->
  d_qi (ty (run_cb g k (AReq id))) /\ acc (ty (run_cb g k (AReq id))) = Some g.
Proof.
  intros g k id Q H. cbn [Core.run_cb]. destruct g.
  - destruct (Core.gone_ val upd i k); [auto|]. apply d_qi_onready; assumption.
  - destruct (d_qi_remove (emit k [Core.OErr val upd c id Core.EDenied]) 1) as [A B]; [exact Q|d_tkred; rewrite H; discriminate|].
    split; [exact A|]. rewrite B. exact H.
Qed.
Lemma d_qi_fold : forall g l k, ~ In AVal l -> d_qi (ty k) -> acc (ty k) = Some g -> d_qi (ty (fold_left (run_cb g) l k)).
Proof.
  intros g l. induction l as [|b l IH]; intros k Hl Q H; cbn [fold_left]; [exact Q|].
  destruct b as [id|]; [|exfalso; apply Hl; left; reflexivity].
  destruct (d_qi_runcb g k id Q H) as [A B]. apply IH; try assumption. intros X. apply Hl. right. exact X.
Qed.
End d_Task4.

Definition d_isbad (x : Core.qitem) : bool := match x with Core.QUnsub _ _ | Core.QDispose | Core.QToken _ => true | _ => false end.
Definition d_quiet_op (o : Core.op upd) : Prop :=
  match o with Core.CUnsub _ _ _ _ | Core.Disc _ _ | Core.ConnToken _ _ _ | Core.MqReacc _ => False | _ => True end.
Record d_Q (s : st) : Prop := {
  d_q_items : forall c x, In x (cqueue (conns s c)) -> d_isbad x = false;
  d_q_noreacc : d_noreacc (cv s);
  d_q_inst : forall j, d_qi (insts s j)
}.

Lemma d_Q_ng : forall s o, d_nongrant o -> d_quiet_op o -> d_Q s -> d_Q (fst (step s o)).
Proof.
  intros s o Hng Hq [P1 P2 P3]. constructor.
  - intros c' x H. apply d_queue_new in H as [H|H]; [apply (P1 _ _ H)| |exact Hng].
    destruct o; try contradiction; try (destruct H as (-> & _); reflexivity).
    apply d_in_esq_other in H as [j [->| ->]]; reflexivity.
  - rewrite d_step_cv. apply d_noreacc_fold; [|exact P2].
    destruct (existsb d_areacc (acts_of s o)) eqn:E; [|reflexivity]. apply (d_ng_acts s o 0 Hng) in E. subst o. contradiction.
  - intros j. destruct (d_ng_inst s o j Hng) as (_ & E1 & E2 & E3 & E4 & E5 & _ & E6 & _ & E7). cbv zeta in *.
    destruct (P3 j) as (Q1 & Q2 & Q3 & Q4 & Q5 & Q6). unfold d_qi. rewrite E1, E2, E3, E4, E5, E6. repeat split; auto.
    destruct E7 as [->|(g & _ & _ & E7 & _)]; [exact Q4|]. intros _. unfold Core.unanswered in E7. apply andb_prop in E7. apply E7.
Qed.

Lemma d_Q_grant : forall s c it q, d_W1 s -> d_Q s -> cqueue (conns s c) = it :: q -> d_Q (fst (step s (GrantConn c))).
Proof.
  intros s c it q W [P1 P2 P3] Eq. pose proof (d_task_summary s c it q W Eq) as Sm.
  assert (Hit : d_isbad it = false) by (apply (P1 c); rewrite Eq; left; reflexivity).
  assert (Ty : let '(k, oi, nx, ms) := conn_task s c in forall i, oi = Some i -> d_qi (ty k)).
  { d_ct_unfold Eq. destruct it as [id|id cnt|t|i|i|]; try discriminate Hit.
    - cbn [Core.cur Core.with_q]. destruct (cur (conns s c)) as [i|] eqn:Ecur; intros i' _.
      + d_tkred. destruct (acc (insts s i)) as [[|]|] eqn:Ea.
        * apply d_qi_onready; [apply P3|exact Ea].
        * apply d_qi_remove; d_tkred; [apply P3|rewrite Ea; discriminate].
        * apply d_qi_load; [apply P3|exact Ea].
      + apply d_qi_load; d_tkred; [|reflexivity]. unfold d_qi. cbn. repeat split; auto; try discriminate. intros X; exfalso; apply X; reflexivity.
    - intros i' _. destruct (Core.is_gone val upd (cv s) i); [apply P3|].
      destruct (ans (insts s i)) as [g|] eqn:Ea; [|apply P3].
      destruct (P3 i) as (Q1 & Q2 & Q3 & Q4 & Q5 & Q6).
      assert (Hf : inflight (insts s i) = true) by (apply Q4; rewrite Ea; discriminate).
      assert (Hr : rcb (insts s i) = []) by (apply d_rcb_nil; [apply P3|rewrite (Q3 Hf); discriminate]).
      apply d_qi_fold; d_tkred; [exact Q6| |reflexivity].
      unfold d_qi. cbn [Core.upd_y Core.lost Core.rcb Core.acc Core.inflight Core.ans Core.reflag Core.acb]. rewrite Hr.
      repeat split; auto; try discriminate; intros X; exfalso; apply X; reflexivity.
    - intros i' _. destruct P2 as [_ P2]. specialize (P2 i).
      destruct (ccq (csubs (cv s) i)) as [|[|e|] r]; d_tkred; try apply P3.
      + destruct (gone (csubs (cv s) i)); [apply P3|]. rewrite d_qi_respond; d_tkred; [|apply P3].
        destruct (P3 i) as (Q1 & Q2 & Q3 & Q4 & Q5 & Q6). unfold d_qi. cbn [Core.upd_y Core.lost Core.rcb Core.acc Core.inflight Core.ans Core.reflag Core.acb].
        repeat split; auto; try (intros X; exfalso; apply X; reflexivity).
      + exfalso. apply P2. left. reflexivity. }
  destruct (conn_task s c) as [[[k oi] nx] ms] eqn:Ect. rewrite (d_step_grant s c it q Eq k oi nx ms Ect). cbn [fst].
  destruct Sm as (Sq & Sd & Sts & Sh). destruct (d_shape_acts s c it q k oi nx ms Sh) as (_ & AR & _).
  constructor; d_proj.
  - intros c' x H. destruct (Nat.eq_dec c' c) as [->|Hcc].
    + rewrite d_set_conn_eq, Sq in H. apply (P1 c). rewrite Eq. right. exact H.
    + rewrite d_set_conn_neq in H by exact Hcc. apply (P1 c' x H).
  - apply d_noreacc_fold; assumption.
  - intros j. destruct oi as [i|]; [|apply P3]. unfold Core.set_inst. destruct (Nat.eqb_spec j i) as [->|]; [|apply P3]. apply (Ty i eq_refl).
Qed.

Theorem core_nothing_dropped_without_unsubscribe : forall t ops c,
  (forall o, In o ops -> match o with Core.CUnsub _ _ _ _ | Core.Disc _ _ | Core.ConnToken _ _ _ | Core.MqReacc _ => False | _ => True end) ->
  Core.dropped val upd (fst (exec t ops)) c = [].
Proof.
  intros t ops c H.
  assert (N : d_Q (fst (exec t ops))).
  { induction ops as [|o ops IH] using rev_ind.
    - constructor; cbn; intros; try contradiction.
      + split; cbn; auto.
      + unfold d_qi. cbn. repeat split; auto; try discriminate. intros X; exfalso; apply X; reflexivity.
    - destruct (d_exec_snoc' t ops o) as [-> _].
      assert (IQ : d_Q (fst (exec t ops))) by (apply IH; intros o' Ho'; apply H; apply in_or_app; left; exact Ho').
      assert (Hq : d_quiet_op o) by (apply (H o); apply in_or_app; right; left; reflexivity).
      destruct (d_grant_dec o) as [[c0 ->]|Hng]; [|apply d_Q_ng; assumption].
      destruct (cqueue (conns (fst (exec t ops)) c0)) as [|it q] eqn:Eq.
      + cbn [Core.step]. rewrite Eq. exact IQ.
      + apply (d_Q_grant _ c0 it q); [apply d_w1_exec|exact IQ|exact Eq]. }
  destruct N as [_ _ N]. unfold Core.dropped. induction (insts_of (fst (exec t ops)) c) as [|i l IH]; [reflexivity|].
  cbn [flat_map]. destruct (N i) as (-> & _). exact IH.
Qed.

End CoreProofs.

Theorem core_every_request_answered_refuted :
  exists ops : list (Core.op nat),
    let s := fst (Core.exec nat nat (fun u v => u + v) (fun u v => Some u) 0 0 ops) in
    let outs := snd (Core.exec nat nat (fun u v => u + v) (fun u v => Some u) 0 0 ops) in
    NoDup (Core.reqs nat 0 ops) /\ Core.reqs nat 0 ops = [1; 2] /\ Core.resps nat nat 0 outs = [2] /\
    Core.dropped nat nat s 0 = [1] /\ Core.cqueue (Core.conns nat nat s 0) = [] /\ Conv.qe nat nat (Core.cv nat nat s) = [] /\
    Core.disc (Core.conns nat nat s 0) = false.
Proof.
  exists [Core.CSub nat 0 1; Core.GrantConn nat 0; Core.CUnsub nat 0 2 1; Core.GrantConn nat 0; Core.GrantEs nat; Core.MqGet nat;
          Core.GrantEs nat; Core.GrantConn nat 0; Core.GrantEs nat; Core.MqAccess nat 0 true; Core.GrantEs nat; Core.GrantConn nat 0].
  vm_compute. repeat split.
  repeat constructor; cbn; intuition discriminate.
Qed.

Print Assumptions core_responses.
Print Assumptions core_nothing_dropped_without_unsubscribe.
Print Assumptions core_every_request_answered_refuted.
Print Assumptions core_data_needs_grant.
Print Assumptions core_cleanup.
Print Assumptions core_nothing_after_close.

