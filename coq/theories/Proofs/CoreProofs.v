(* The Core theorems (CoreStatements.v) proved: the integrated machine Comp/Core.v executes Conv actions only, sends the get
   request once and under the subscription, and every client's view / response obeys the Conv invariant; the access
   answer travels through the resource queue (INop) before it reaches the connection queue. *)
From Coq Require Import List Arith Lia Bool.
From RG Require Import Comp.Conv Comp.Core.
Import ListNotations.

Section CoreProofs.
Variables (val upd : Type) (app : upd -> val -> val) (norm : upd -> val -> option upd) (d : val).
Hypothesis norm_none : forall u v, norm u v = None -> app u v = v.
Hypothesis norm_some : forall u v u', norm u v = Some u' -> app u' v = app u v.

Notation csubs := (Conv.subs val upd).
Notation exec := (Core.exec val upd app norm d).
Notation cv := (Core.cv val upd).
Notation conns := (Core.conns val upd).
Notation view := (Core.view val upd app).
Notation resps := (Core.resps val upd).
Notation quiescent := (Core.quiescent val upd).

(* local abbreviations, part A *)
Notation cstep := (Conv.step val upd app norm).
Notation step := (Core.step val upd app norm).
Notation acts_of := (Core.acts_of val upd app norm).
Notation exec1 := (Core.exec1 val upd app norm).
Notation mqsub := (Core.mqsub val upd).
Notation getreq := (Core.getreq val upd).
Notation qe := (Conv.qe val upd).
Notation is_getreq := (Core.is_getreq val upd).
Notation is_mqsub := (Core.is_mqsub val upd).
Notation count_out := (Core.count_out val upd).
Notation is_add_head := (Core.is_add_head val upd).
Notation out := (Core.out val upd).

(* local abbreviations, part B *)
Notation kstep := (Core.step val upd app norm).
Notation CInv := (Conv.Inv val upd app).
Notation sub := (Conv.sub val upd).
Notation cst := (Conv.st val upd).
Notation kst := (Core.st val upd).
Notation ysubd := (Conv.subscribed val upd).
Notation yloaded := (Conv.loaded val upd).
Notation ysver := (Conv.sver val upd).
Notation ysval := (Conv.sval val upd).
Notation yflag := (Conv.flag val upd).
Notation yeq := (Conv.eq val upd).
Notation ysent := (Conv.sent val upd).
Notation ycq := (Conv.cq val upd).
Notation cqe := (Conv.qe val upd).
Notation crsubs := (Conv.rs_subs val upd).
Notation cproc := (Conv.proc val upd app).
Notation creplay := (Conv.replay val upd app).
Notation proc_o := (Core.proc_o val upd app).
Notation replay_o := (Core.replay_o val upd app).
Notation respond_out := (Core.respond_out val upd app).
Notation can_respond := (Core.can_respond val upd).
Notation vstep := (Core.vstep val upd app).
Notation op := (Core.op upd).
Notation first_req := (Core.first_req upd).
Notation RunE := (Conv.RunE upd).
Notation RunC := (Conv.RunC upd).
Notation Respond := (Conv.Respond upd).
Notation Subscribe := (Conv.Subscribe upd).
Notation GrantConn := (Core.GrantConn upd).

(* ================================================================== *)
(* Part A: run/exec, reachability in Conv, the get request             *)
(* ================================================================== *)

(* ------------------------------------------------------------------ *)
(* exec, one op at a time *)

Lemma exec_snoc : forall t ops o, exec t (ops ++ [o]) = exec1 (exec t ops) o.
Proof. intros t ops o. unfold Core.exec. rewrite fold_left_app. reflexivity. Qed.

Lemma exec_nil : forall t, exec t [] = (Core.init val upd d t, []).
Proof. reflexivity. Qed.

Lemma exec1_fst : forall p o, fst (exec1 p o) = fst (step (fst p) o).
Proof. intros [s outs] o. unfold Core.exec1. cbn [fst]. destruct (step s o) as [s' o']. reflexivity. Qed.

Lemma exec1_snd : forall p o, snd (exec1 p o) = snd p ++ snd (step (fst p) o).
Proof. intros [s outs] o. unfold Core.exec1. cbn [fst snd]. destruct (step s o) as [s' o']. reflexivity. Qed.

(* ------------------------------------------------------------------ *)
(* run_exec *)

Lemma run_exec_gen : forall ops s acc,
  fold_left exec1 ops (s, acc) =
  (fst (Core.run val upd app norm s ops), acc ++ concat (snd (Core.run val upd app norm s ops))).
Proof.
  induction ops as [|o ops IH]; intros s acc.
  - cbn. rewrite app_nil_r. reflexivity.
  - cbn [fold_left Core.run]. unfold Core.exec1 at 2.
    destruct (step s o) as [s1 out1] eqn:Es.
    rewrite IH.
    destruct (Core.run val upd app norm s1 ops) as [s2 outs] eqn:Er.
    cbn [fst snd concat]. rewrite app_assoc. reflexivity.
Qed.

Theorem run_exec : forall t ops,
  fst (Core.run val upd app norm (Core.init val upd d t) ops) = fst (exec t ops) /\
  concat (snd (Core.run val upd app norm (Core.init val upd d t) ops)) = snd (exec t ops).
Proof.
  intros t ops. unfold Core.exec. rewrite run_exec_gen. cbn [fst snd]. split; reflexivity.
Qed.

(* ------------------------------------------------------------------ *)
(* every op is a list of Conv actions *)

Lemma step_cv : forall s o, cv (fst (step s o)) = fold_left cstep (acts_of s o) (cv s).
Proof.
  intros s o. destruct o as [c id|c| |u| | |c]; unfold Core.step, Core.acts_of.
  - destruct (Core.asked (conns s c)); reflexivity.
  - destruct (Core.areq (conns s c) && negb (Core.aans (conns s c))); reflexivity.
  - reflexivity.
  - reflexivity.
  - reflexivity.
  - reflexivity.
  - destruct (Core.cqueue (conns s c)) as [|[id| |] q].
    + reflexivity.
    + destruct (Core.reqid (conns s c)); reflexivity.
    + reflexivity.
    + reflexivity.
Qed.

Lemma exec_cv_snoc : forall t ops o,
  cv (fst (exec t (ops ++ [o]))) = fold_left cstep (acts_of (fst (exec t ops)) o) (cv (fst (exec t ops))).
Proof. intros t ops o. rewrite exec_snoc, exec1_fst. apply step_cv. Qed.

Theorem core_reachable_conv : forall t ops, exists acts, cv (fst (exec t ops)) = Conv.run val upd app norm d t acts.
Proof.
  intros t ops. induction ops as [|o ops IH] using rev_ind.
  - exists []. reflexivity.
  - destruct IH as [acts IH].
    exists (acts ++ acts_of (fst (exec t ops)) o).
    rewrite exec_cv_snoc, IH. unfold Conv.run. rewrite fold_left_app. reflexivity.
Qed.

Theorem core_conv_inv : forall t ops, Conv.Inv val upd app (cv (fst (exec t ops))).
Proof.
  intros t ops. destruct (core_reachable_conv t ops) as [acts H]. rewrite H.
  apply Conv.run_inv; assumption.
Qed.

(* ------------------------------------------------------------------ *)
(* the get request is sent once, and only under the subscription *)

Definition noctl (l : list out) : Prop := filter is_getreq l = [] /\ filter is_mqsub l = [].

Lemma noctl_nil : noctl [].
Proof. split; reflexivity. Qed.

Lemma noctl_app : forall l1 l2, noctl l1 -> noctl l2 -> noctl (l1 ++ l2).
Proof.
  intros l1 l2 [A1 B1] [A2 B2]. unfold noctl. rewrite !filter_app, A1, A2, B1, B2. split; reflexivity.
Qed.

Lemma noctl_proc : forall c p e, noctl (snd (Core.proc_o val upd app c p e)).
Proof.
  intros c [ver v] e. unfold Core.proc_o.
  destruct (Nat.eqb ver (Conv.e_ver upd e)); [destruct (Conv.e_upd upd e)|]; split; reflexivity.
Qed.

Lemma noctl_replay : forall c l p, noctl (Core.replay_o val upd app c p l).
Proof.
  intros c l. induction l as [|e l IH]; intros p.
  - apply noctl_nil.
  - cbn [Core.replay_o]. pose proof (noctl_proc c p e) as Hp.
    destruct (Core.proc_o val upd app c p e) as [p' o]. cbn [snd] in Hp.
    apply noctl_app; [exact Hp|apply IH].
Qed.

Lemma noctl_respond : forall c x id, noctl (Core.respond_out val upd app c x id).
Proof.
  intros c x id. unfold Core.respond_out.
  change (noctl ([Core.OResp val upd c id (Conv.sval val upd x)] ++
                 Core.replay_o val upd app c (Conv.sver val upd x, Conv.sval val upd x) (Conv.eq val upd x))).
  apply noctl_app; [split; reflexivity|apply noctl_replay].
Qed.

Lemma qe_runc : forall σ c, qe (cstep σ (Conv.RunC upd c)) = qe σ.
Proof.
  intros σ c. cbn [Conv.step]. destruct (Conv.cq val upd (csubs σ c)) as [|[|e] q]; reflexivity.
Qed.

Lemma qe_respond : forall σ c n, qe (cstep σ (Conv.Respond upd c n)) = qe σ.
Proof.
  intros σ c n. cbn [Conv.step].
  destruct (Conv.loaded val upd (csubs σ c) && negb (Conv.sent val upd (csubs σ c))); reflexivity.
Qed.

Lemma qe_rune_nil : forall σ, qe σ = [] -> qe (cstep σ (Conv.RunE upd)) = [].
Proof. intros σ H. cbn [Conv.step]. rewrite H. exact H. Qed.

Lemma qe_upd_rune : forall σ u, qe σ = [] ->
  qe (cstep (cstep σ (Conv.SvcUpdate upd u)) (Conv.RunE upd)) = [].
Proof.
  intros σ u H. cbn [Conv.step Conv.qe Conv.rs_loaded Conv.rs_val]. rewrite H. cbn [List.app].
  destruct (Conv.rs_loaded val upd σ); [destruct (norm u (Conv.rs_val val upd σ))|]; reflexivity.
Qed.

Lemma qe_custom_rune : forall σ, qe σ = [] ->
  qe (cstep (cstep σ (Conv.SvcCustom upd)) (Conv.RunE upd)) = [].
Proof.
  intros σ H. cbn [Conv.step Conv.qe]. rewrite H. reflexivity.
Qed.

Lemma is_add_head_nil : forall σ, qe σ = [] -> is_add_head σ = false.
Proof. intros σ H. unfold Core.is_add_head. rewrite H. reflexivity. Qed.

(* what one op does to the two flags and which control frames it emits *)
Lemma step_class : forall s o,
  let s' := fst (step s o) in let new := snd (step s o) in
  (mqsub s' = mqsub s /\ getreq s' = getreq s /\ noctl new /\
   (mqsub s = false -> getreq s = false -> (forall c', Core.areq (conns s c') = true -> mqsub s = true) ->
    qe (cv s) = [] -> qe (cv s') = []))
  \/
  (mqsub s' = mqsub s /\ getreq s' = (getreq s || is_add_head (cv s)) /\
   new = (if is_add_head (cv s) && negb (getreq s) then [Core.OGetReq val upd] else []) /\
   (qe (cv s) = [] -> qe (cv s') = []))
  \/
  (mqsub s' = true /\ getreq s' = getreq s /\
   exists c, new = (if mqsub s then [] else [Core.OMqSub val upd]) ++ [Core.OAccessReq val upd c]).
Proof.
  intros s o. cbv zeta.
  destruct o as [c id|c| |u| | |c].
  - (* CSub *)
    left. unfold Core.step, Core.acts_of.
    destruct (Core.asked (conns s c)); cbn [fst snd Core.cv Core.mqsub Core.getreq fold_left];
      (split; [reflexivity|split; [reflexivity|split; [apply noctl_nil|intros _ _ _ H; exact H]]]).
  - (* MqAccess *)
    left. unfold Core.step, Core.acts_of.
    destruct (Core.areq (conns s c) && negb (Core.aans (conns s c))) eqn:Ea;
      cbn [fst snd Core.cv Core.mqsub Core.getreq fold_left];
      (split; [reflexivity|split; [reflexivity|split; [apply noctl_nil|]]]).
    + intros Hm _ Har _. exfalso. apply andb_prop in Ea. destruct Ea as [Ea _].
      rewrite (Har c Ea) in Hm. discriminate.
    + intros _ _ _ H; exact H.
  - (* MqGet *)
    left. unfold Core.step, Core.acts_of. cbn [fst snd Core.cv Core.mqsub Core.getreq].
    split; [reflexivity|split; [reflexivity|split; [apply noctl_nil|]]].
    intros _ Hg _ Hq. rewrite Hg. cbn [andb fold_left]. exact Hq.
  - (* MqEvent *)
    left. unfold Core.step, Core.acts_of. cbn [fst snd Core.cv Core.mqsub Core.getreq].
    split; [reflexivity|split; [reflexivity|split; [apply noctl_nil|]]].
    intros Hm _ _ Hq. rewrite Hm. cbn [fold_left]. apply qe_upd_rune. exact Hq.
  - (* MqCustom *)
    left. unfold Core.step, Core.acts_of. cbn [fst snd Core.cv Core.mqsub Core.getreq].
    split; [reflexivity|split; [reflexivity|split; [apply noctl_nil|]]].
    intros Hm _ _ Hq. rewrite Hm. cbn [fold_left]. apply qe_custom_rune. exact Hq.
  - (* GrantEs *)
    right. left. unfold Core.step, Core.acts_of. cbn [fst snd Core.cv Core.mqsub Core.getreq fold_left].
    split; [reflexivity|split; [reflexivity|split; [reflexivity|]]].
    apply qe_rune_nil.
  - (* GrantConn *)
    unfold Core.step, Core.acts_of.
    destruct (Core.cqueue (conns s c)) as [|[id| |] q] eqn:Eq.
    + left. cbn [fst snd].
      split; [reflexivity|split; [reflexivity|split; [apply noctl_nil|intros _ _ _ H; exact H]]].
    + destruct (Core.reqid (conns s c)) as [rid|] eqn:Er.
      * left. cbn [fst snd Core.cv Core.mqsub Core.getreq fold_left].
        split; [reflexivity|split; [reflexivity|split; [apply noctl_nil|intros _ _ _ H; exact H]]].
      * right. right. cbn [fst snd Core.cv Core.mqsub Core.getreq].
        split; [reflexivity|split; [reflexivity|]]. exists c. reflexivity.
    + left. cbn [fst snd Core.cv Core.mqsub Core.getreq].
      split; [reflexivity|split; [reflexivity|split]].
      * destruct (Core.can_respond val upd (csubs (cv s) c)); [apply noctl_respond|apply noctl_nil].
      * intros _ _ _ Hq.
        destruct (Core.can_respond val upd (csubs (cv s) c)); cbn [fold_left]; [rewrite qe_respond|]; exact Hq.
    + left. cbn [fst snd Core.cv Core.mqsub Core.getreq].
      split; [reflexivity|split; [reflexivity|split]].
      * apply noctl_app.
        -- destruct (Conv.cq val upd (csubs (cv s) c)) as [|[|e] q']; try apply noctl_nil.
           destruct (Conv.loaded val upd (csubs (cv s) c) && negb (Conv.flag val upd (csubs (cv s) c)));
             [apply noctl_proc|apply noctl_nil].
        -- destruct (Core.granted (conns s c) &&
                     Core.can_respond val upd (csubs (cstep (cv s) (Conv.RunC upd c)) c));
             [apply noctl_respond|apply noctl_nil].
      * intros _ _ _ Hq.
        destruct (Core.granted (conns s c) &&
                  Core.can_respond val upd (csubs (cstep (cv s) (Conv.RunC upd c)) c));
          cbn [fold_left]; [rewrite qe_respond|]; rewrite qe_runc; exact Hq.
Qed.

Definition b2n (b : bool) : nat := if b then 1 else 0.

(* an access request is only ever sent together with (or after) the subscription *)
Definition AM (s : Core.st val upd) : Prop := forall c, Core.areq (conns s c) = true -> mqsub s = true.

Lemma areq_fan : forall σ σ' f c, Core.areq (Core.fan val upd σ σ' f c) = Core.areq (f c).
Proof. intros σ σ' f c. unfold Core.fan. destruct (Nat.ltb _ _); reflexivity. Qed.

Lemma areq_pass : forall σ f c, Core.areq (Core.pass val upd σ f c) = Core.areq (f c).
Proof.
  intros σ f c. unfold Core.pass. destruct (Core.nop_head val upd σ) as [c0|]; [|reflexivity].
  unfold Core.set_conn. destruct (Nat.eqb c c0) eqn:E; [|reflexivity].
  apply Nat.eqb_eq in E. subst c0. reflexivity.
Qed.

Lemma AM_step : forall s o, AM s -> AM (fst (step s o)).
Proof.
  intros s o H. unfold AM in *. destruct o as [c0 id|c0| |u| | |c0]; unfold Core.step.
  - destruct (Core.asked (conns s c0)); cbn [fst Core.conns Core.mqsub]; [exact H|].
    intros c. unfold Core.set_conn. destruct (Nat.eqb c c0) eqn:E; [|apply H].
    apply Nat.eqb_eq in E. subst c0. cbn [Core.areq]. apply H.
  - destruct (Core.areq (conns s c0) && negb (Core.aans (conns s c0))); cbn [fst Core.conns Core.mqsub]; [|exact H].
    intros c. unfold Core.set_conn. destruct (Nat.eqb c c0) eqn:E; [|apply H].
    apply Nat.eqb_eq in E. subst c0. cbn [Core.areq]. apply H.
  - cbn [fst Core.conns Core.mqsub]. exact H.
  - cbn [fst Core.conns Core.mqsub]. exact H.
  - cbn [fst Core.conns Core.mqsub]. exact H.
  - cbn [fst Core.conns Core.mqsub]. intros c. rewrite areq_pass, areq_fan. apply H.
  - destruct (Core.cqueue (conns s c0)) as [|[id| |] q] eqn:Eq.
    + cbn [fst]. exact H.
    + destruct (Core.reqid (conns s c0)); cbn [fst Core.conns Core.mqsub].
      * intros c. unfold Core.set_conn. destruct (Nat.eqb c c0) eqn:E; [|apply H].
        apply Nat.eqb_eq in E. subst c0. cbn [Core.pop_q Core.areq]. apply H.
      * intros c _. reflexivity.
    + cbn [fst Core.conns Core.mqsub].
      intros c. unfold Core.set_conn. destruct (Nat.eqb c c0) eqn:E; [|apply H].
      apply Nat.eqb_eq in E. subst c0. cbn [Core.areq]. apply H.
    + cbn [fst Core.conns Core.mqsub].
      intros c. unfold Core.set_conn. destruct (Nat.eqb c c0) eqn:E; [|apply H].
      apply Nat.eqb_eq in E. subst c0. cbn [Core.pop_q Core.areq]. apply H.
Qed.

Definition FI (s : Core.st val upd) (outs : list out) : Prop :=
  count_out is_getreq outs = b2n (getreq s) /\
  count_out is_mqsub outs = b2n (mqsub s) /\
  (getreq s = true -> mqsub s = true) /\
  (mqsub s = false -> qe (cv s) = []) /\
  (forall pre o post, outs = pre ++ o :: post -> is_getreq o = true -> count_out is_mqsub pre = 1) /\
  AM s.

Lemma count_app : forall f (l1 l2 : list out), count_out f (l1 ++ l2) = count_out f l1 + count_out f l2.
Proof. intros f l1 l2. unfold Core.count_out. rewrite filter_app, app_length. reflexivity. Qed.

Lemma filter_nil_in : forall (f : out -> bool) l o, filter f l = [] -> In o l -> f o = false.
Proof.
  intros f l o H Hin. destruct (f o) eqn:E; [|reflexivity].
  assert (Hf : In o (filter f l)) by (apply filter_In; split; assumption).
  rewrite H in Hf. destruct Hf.
Qed.

(* appending output that contains no get request keeps the "preceded by one OMqSub" property *)
Lemma pre_keep : forall (outs new : list out),
  (forall pre o post, outs = pre ++ o :: post -> is_getreq o = true -> count_out is_mqsub pre = 1) ->
  filter is_getreq new = [] ->
  forall pre o post, outs ++ new = pre ++ o :: post -> is_getreq o = true -> count_out is_mqsub pre = 1.
Proof.
  intros outs new H Hn pre o post E Ho.
  apply app_eq_app in E. destruct E as [l [[E1 E2]|[E1 E2]]].
  - (* outs = pre ++ l, o :: post = l ++ new *)
    destruct l as [|x l].
    + cbn [List.app] in E2. exfalso.
      assert (Hf : is_getreq o = false) by (apply (filter_nil_in _ new o Hn); rewrite <- E2; left; reflexivity).
      congruence.
    + cbn [List.app] in E2. injection E2 as E2a E2b. subst x.
      apply (H pre o l); assumption.
  - (* pre = outs ++ l, new = l ++ o :: post *)
    exfalso.
    assert (Hf : is_getreq o = false).
    { apply (filter_nil_in _ new o Hn). rewrite E2. apply in_or_app. right. left. reflexivity. }
    congruence.
Qed.

Lemma FI_init : forall t, FI (Core.init val upd d t) [].
Proof.
  intros t. unfold FI. cbn.
  split; [reflexivity|split; [reflexivity|split; [discriminate|split; [reflexivity|split]]]].
  - intros pre o post E. destruct pre; discriminate.
  - intros c Hc. discriminate.
Qed.

Lemma FI_step : forall s outs o, FI s outs -> FI (fst (step s o)) (outs ++ snd (step s o)).
Proof.
  intros s outs o (I1 & I2 & I3 & I4 & I5 & I6).
  pose proof (AM_step s o I6) as I6'.
  cut (let s' := fst (step s o) in let outs' := outs ++ snd (step s o) in
       count_out is_getreq outs' = b2n (getreq s') /\
       count_out is_mqsub outs' = b2n (mqsub s') /\
       (getreq s' = true -> mqsub s' = true) /\
       (mqsub s' = false -> qe (cv s') = []) /\
       (forall pre o post, outs' = pre ++ o :: post -> is_getreq o = true -> count_out is_mqsub pre = 1)).
  { cbv zeta. intros (J1 & J2 & J3 & J4 & J5). unfold FI. repeat (split; [assumption|]). exact I6'. }
  cbv zeta. clear I6'.
  pose proof (step_class s o) as Hc. cbv zeta in Hc.
  destruct Hc as [(Hm & Hg & [Hn1 Hn2] & Hq)|[(Hm & Hg & Hnew & Hq)|(Hm & Hg & [c Hnew])]].
  - (* nothing about the flags changes *)
    rewrite Hm, Hg, !count_app. unfold Core.count_out at 2 4. rewrite Hn1, Hn2. cbn [length].
    split; [lia|split; [lia|split; [exact I3|split]]].
    + intros Hmf. apply Hq; [exact Hmf| |exact I6|apply I4; exact Hmf].
      destruct (getreq s) eqn:Eg; [|reflexivity]. rewrite I3 in Hmf by reflexivity. discriminate.
    + apply pre_keep; assumption.
  - (* cache worker *)
    rewrite Hm, Hg, Hnew, !count_app.
    destruct (is_add_head (cv s)) eqn:Ea.
    + (* an IAddSub at the head: the subscription is on *)
      assert (Hms : mqsub s = true).
      { destruct (mqsub s) eqn:Em; [reflexivity|]. rewrite is_add_head_nil in Ea by (apply I4; reflexivity). discriminate. }
      destruct (getreq s) eqn:Eg; cbn [andb orb negb].
      * rewrite app_nil_r. unfold Core.count_out at 2 4. cbn [filter length].
        split; [lia|split; [lia|split; [intros _; exact Hms|split; [intros Hf; congruence|exact I5]]]].
      * unfold Core.count_out at 2 4. cbn [filter Core.is_getreq Core.is_mqsub length].
        split; [rewrite I1; reflexivity|split; [lia|split; [intros _; exact Hms|split; [intros Hf; congruence|]]]].
        intros pre o' post E Ho.
        apply app_eq_app in E. destruct E as [l [[E1 E2]|[E1 E2]]].
        -- destruct l as [|x l].
           ++ rewrite app_nil_r in E1. subst pre. rewrite I2, Hms. reflexivity.
           ++ cbn [List.app] in E2. injection E2 as E2a E2b. subst x. apply (I5 pre o' l); assumption.
        -- destruct l as [|x l].
           ++ rewrite app_nil_r in E1. subst pre. rewrite I2, Hms. reflexivity.
           ++ cbn [List.app] in E2. injection E2 as E2a E2b. destruct l; discriminate.
    + cbn [andb]. rewrite orb_false_r, app_nil_r. unfold Core.count_out at 2 4. cbn [filter length].
      split; [lia|split; [lia|split; [exact I3|split; [|exact I5]]]].
      intros Hmf. apply Hq, I4, Hmf.
  - (* first request of a connection: the subscription is switched on *)
    rewrite Hm, Hg, Hnew, (count_app is_getreq outs), (count_app is_mqsub outs).
    assert (Hng : filter is_getreq ((if mqsub s then [] else [Core.OMqSub val upd]) ++ [Core.OAccessReq val upd c]) = [])
      by (destruct (mqsub s); reflexivity).
    split; [|split; [|split; [intros _; reflexivity|split; [intros Hf; discriminate|]]]].
    + unfold Core.count_out at 2. rewrite Hng. cbn [length]. lia.
    + rewrite I2. destruct (mqsub s); reflexivity.
    + apply pre_keep; assumption.
Qed.

Lemma FI_exec : forall t ops, FI (fst (exec t ops)) (snd (exec t ops)).
Proof.
  intros t ops. induction ops as [|o ops IH] using rev_ind.
  - rewrite exec_nil. apply FI_init.
  - rewrite exec_snoc, exec1_fst, exec1_snd. apply FI_step. exact IH.
Qed.

Theorem core_get_once_under_subscription : forall t ops,
  let outs := snd (exec t ops) in
  Core.count_out val upd (Core.is_getreq val upd) outs <= 1 /\
  Core.count_out val upd (Core.is_mqsub val upd) outs <= 1 /\
  forall pre o post, outs = pre ++ o :: post -> Core.is_getreq val upd o = true ->
    Core.count_out val upd (Core.is_mqsub val upd) pre = 1.
Proof.
  intros t ops outs. destruct (FI_exec t ops) as (I1 & I2 & _ & _ & I5 & _). fold outs in I1, I2, I5.
  split; [rewrite I1; destruct (getreq (fst (exec t ops))); cbn; lia|].
  split; [rewrite I2; destruct (mqsub (fst (exec t ops))); cbn; lia|].
  exact I5.
Qed.

(* ================================================================== *)
(* Part B: views, convergence, exactly one response, needs a grant      *)
(* ================================================================== *)

(* ---------------- outputs: view and responses ---------------- *)
Definition vfold (c : nat) (l : list out) (cur : option val) : option val := fold_left (vstep c) l cur.

Lemma view_app c l1 l2 : view c (l1 ++ l2) = vfold c l2 (view c l1).
Proof. unfold Core.view, vfold. apply fold_left_app. Qed.
Lemma vfold_app c l1 l2 cur : vfold c (l1 ++ l2) cur = vfold c l2 (vfold c l1 cur).
Proof. unfold vfold. apply fold_left_app. Qed.
Lemma resps_app c l1 l2 : resps c (l1 ++ l2) = resps c l1 ++ resps c l2.
Proof. unfold Core.resps. apply flat_map_app. Qed.

Lemma proc_o_fst c p e : fst (proc_o c p e) = cproc p e.
Proof.
  destruct p as [ver v]. unfold Core.proc_o, Conv.proc.
  destruct (Nat.eqb ver (Conv.e_ver upd e)); [destruct (Conv.e_upd upd e)|]; reflexivity.
Qed.

Lemma vfold_proc_some c ver v e : vfold c (snd (proc_o c (ver, v) e)) (Some v) = Some (snd (cproc (ver, v) e)).
Proof.
  unfold vfold, Core.proc_o, Conv.proc.
  destruct (Nat.eqb ver (Conv.e_ver upd e)); [destruct (Conv.e_upd upd e)|]; cbn; rewrite ?Nat.eqb_refl; reflexivity.
Qed.

Lemma vfold_proc_none c p e : vfold c (snd (proc_o c p e)) None = None.
Proof.
  destruct p as [ver v]. unfold vfold, Core.proc_o.
  destruct (Nat.eqb ver (Conv.e_ver upd e)); [destruct (Conv.e_upd upd e)|]; cbn; try reflexivity.
  destruct (Nat.eqb c c); reflexivity.
Qed.

Lemma resps_proc c c' p e : resps c (snd (proc_o c' p e)) = [].
Proof.
  destruct p as [ver v]. unfold Core.resps, Core.proc_o.
  destruct (Nat.eqb ver (Conv.e_ver upd e)); [destruct (Conv.e_upd upd e)|]; reflexivity.
Qed.

Lemma vfold_replay c : forall l ver v,
  vfold c (replay_o c (ver, v) l) (Some v) = Some (snd (creplay (ver, v) l)).
Proof.
  induction l as [|e l IH]; intros ver v; [reflexivity|].
  cbn [Core.replay_o].
  pose proof (vfold_proc_some c ver v e) as H1.
  pose proof (proc_o_fst c (ver, v) e) as H2.
  destruct (proc_o c (ver, v) e) as [p' o] eqn:E. cbn [fst snd] in H1, H2. subst p'.
  rewrite vfold_app, H1.
  unfold Conv.replay. cbn [fold_left].
  destruct (cproc (ver, v) e) as [ver' v'] eqn:E2. cbn [snd].
  rewrite IH. reflexivity.
Qed.

Lemma resps_replay c c' : forall l p, resps c (replay_o c' p l) = [].
Proof.
  induction l as [|e l IH]; intros p; [reflexivity|].
  cbn [Core.replay_o].
  pose proof (resps_proc c c' p e) as H1.
  destruct (proc_o c' p e) as [p' o] eqn:E. cbn [snd] in H1.
  rewrite resps_app, H1, IH. reflexivity.
Qed.

Lemma vfold_respond c y id cur :
  vfold c (respond_out c y id) cur = Some (snd (creplay (ysver y, ysval y) (yeq y))).
Proof.
  unfold Core.respond_out. unfold vfold. cbn [fold_left Core.vstep]. rewrite Nat.eqb_refl.
  apply vfold_replay.
Qed.

Lemma resps_respond c y id : resps c (respond_out c y id) = [id].
Proof.
  unfold Core.respond_out.
  change (resps c (Core.OResp val upd c id (ysval y) :: replay_o c (ysver y, ysval y) (yeq y)))
    with ((if Nat.eqb c c then [id] else []) ++ resps c (replay_o c (ysver y, ysval y) (yeq y))).
  rewrite Nat.eqb_refl, resps_replay. reflexivity.
Qed.

(* outputs that are not addressed to c *)
Definition addr_ne (c : nat) (o : out) : Prop :=
  match o with
  | Core.OResp _ _ c' _ _ => c' <> c
  | Core.OEvent _ _ c' _ => c' <> c
  | _ => True
  end.

Lemma neutral_vfold c l : Forall (addr_ne c) l -> forall cur, vfold c l cur = cur.
Proof.
  induction 1 as [|o l Ho _ IH]; intros cur; [reflexivity|].
  unfold vfold in *. cbn [fold_left]. rewrite IH.
  destruct o; cbn in *; try reflexivity.
  - apply Nat.eqb_neq in Ho. rewrite Ho. reflexivity.
  - apply Nat.eqb_neq in Ho. rewrite Ho. reflexivity.
Qed.

Lemma neutral_resps c l : Forall (addr_ne c) l -> resps c l = [].
Proof.
  induction 1 as [|o l Ho _ IH]; [reflexivity|].
  unfold Core.resps in *. cbn [flat_map]. rewrite IH.
  destruct o; cbn in *; try reflexivity.
  apply Nat.eqb_neq in Ho. rewrite Ho. reflexivity.
Qed.

Lemma proc_o_ne c c' p e : c' <> c -> Forall (addr_ne c) (snd (proc_o c' p e)).
Proof.
  intros Hne. destruct p as [ver v]. unfold Core.proc_o.
  destruct (Nat.eqb ver (Conv.e_ver upd e)); [destruct (Conv.e_upd upd e)|]; cbn;
    repeat constructor; cbn; auto.
Qed.

Lemma replay_o_ne c c' : c' <> c -> forall l p, Forall (addr_ne c) (replay_o c' p l).
Proof.
  intros Hne. induction l as [|e l IH]; intros p; [constructor|].
  cbn [Core.replay_o].
  pose proof (proc_o_ne c c' p e Hne) as H1.
  destruct (proc_o c' p e) as [p' o] eqn:E. cbn [snd] in H1.
  apply Forall_app. split; [exact H1|apply IH].
Qed.

Lemma respond_out_ne c c' y id : c' <> c -> Forall (addr_ne c) (respond_out c' y id).
Proof.
  intros Hne. unfold Core.respond_out. constructor; [exact Hne|apply replay_o_ne; exact Hne].
Qed.

(* ---------------- first_req ---------------- *)
Lemma first_req_app c : forall l1 l2,
  first_req c (l1 ++ l2) = match first_req c l1 with Some id => Some id | None => first_req c l2 end.
Proof.
  induction l1 as [|o l1 IH]; intros l2; [reflexivity|].
  cbn [List.app Core.first_req]. destruct o; try apply IH.
  destruct (Nat.eqb c0 c); [reflexivity|apply IH].
Qed.

Lemma first_req_snoc c ops o : first_req c [o] = None -> first_req c (ops ++ [o]) = first_req c ops.
Proof. intros H. rewrite first_req_app, H. destruct (first_req c ops); reflexivity. Qed.

Lemma first_req_snoc_some c ops o : first_req c ops <> None -> first_req c (ops ++ [o]) = first_req c ops.
Proof. intros H. rewrite first_req_app. destruct (first_req c ops); [reflexivity|congruence]. Qed.

(* ---------------- effect of the Conv actions on one subscription ---------------- *)
Definition same_but_cq (y y' : sub) : Prop :=
  ysubd y' = ysubd y /\ yloaded y' = yloaded y /\ ysver y' = ysver y /\ ysval y' = ysval y /\
  yflag y' = yflag y /\ yeq y' = yeq y /\ ysent y' = ysent y.

Lemma same_refl y : same_but_cq y y.
Proof. repeat split. Qed.

Lemma push_all_same f l i c :
  same_but_cq (f c) (Conv.push_all val upd f l i c) /\
  (ycq (Conv.push_all val upd f l i c) = ycq (f c) /\ Conv.mem c l = false \/
   ycq (Conv.push_all val upd f l i c) = ycq (f c) ++ [i] /\ Conv.mem c l = true).
Proof.
  unfold Conv.push_all. destruct (Conv.mem c l); cbn; split; try (repeat split); auto.
Qed.

Lemma eff_rune σ c :
  same_but_cq (csubs σ c) (csubs (cstep σ RunE) c) /\
  (ycq (csubs (cstep σ RunE) c) = ycq (csubs σ c) \/
   exists i, ycq (csubs (cstep σ RunE) c) = ycq (csubs σ c) ++ [i]) /\
  (Conv.mem c (crsubs (cstep σ RunE)) = true ->
     Conv.mem c (crsubs σ) = true \/ Core.is_add_head val upd σ = true) /\
  (cqe σ = [] -> cstep σ RunE = σ).
Proof.
  cbn [Conv.step]. unfold Core.is_add_head.
  destruct (cqe σ) as [|[u| |v|s0|n0] q] eqn:Eq.
  - repeat split; auto.
  - destruct (Conv.rs_loaded val upd σ); [destruct (norm u (Conv.rs_val val upd σ))|];
      cbn [Conv.subs Conv.rs_subs]; try (split; [apply same_refl|split; [left; reflexivity|split; [auto|discriminate]]]).
    match goal with |- context [Conv.push_all val upd ?f ?l ?i c] =>
      destruct (push_all_same f l i c) as [A [[B _]|[B _]]] end.
    + split; [exact A|split; [left; exact B|split; [auto|discriminate]]].
    + split; [exact A|split; [right; eexists; exact B|split; [auto|discriminate]]].
  - cbn [Conv.subs Conv.rs_subs]. destruct (Conv.rs_loaded val upd σ);
      try (split; [apply same_refl|split; [left; reflexivity|split; [auto|discriminate]]]).
    match goal with |- context [Conv.push_all val upd ?f ?l ?i c] =>
      destruct (push_all_same f l i c) as [A [[B _]|[B _]]] end.
    + split; [exact A|split; [left; exact B|split; [auto|discriminate]]].
    + split; [exact A|split; [right; eexists; exact B|split; [auto|discriminate]]].
  - cbn [Conv.subs Conv.rs_subs].
    match goal with |- context [Conv.push_all val upd ?f ?l ?i c] =>
      destruct (push_all_same f l i c) as [A [[B _]|[B _]]] end.
    + split; [exact A|split; [left; exact B|split; [auto|discriminate]]].
    + split; [exact A|split; [right; eexists; exact B|split; [auto|discriminate]]].
  - cbn [Conv.subs Conv.rs_subs]. split; [|split; [|split; [auto|discriminate]]].
    + destruct (Conv.rs_loaded val upd σ); [|apply same_refl].
      unfold Conv.set_sub. destruct (Nat.eqb c s0) eqn:E; [|apply same_refl].
      apply Nat.eqb_eq in E. subst. cbn. repeat split.
    + destruct (Conv.rs_loaded val upd σ); [|left; reflexivity].
      unfold Conv.set_sub. destruct (Nat.eqb c s0) eqn:E; [|left; reflexivity].
      apply Nat.eqb_eq in E. subst. right. eexists. cbn. reflexivity.
  - cbn [Conv.subs Conv.rs_subs]. split; [apply same_refl|split; [left; reflexivity|split; [auto|discriminate]]].
Qed.

(* items of the resource queue that carry the access answer of connection c *)
Definition is_nop (c : nat) (i : Conv.eitem val upd) : bool :=
  match i with Conv.INop _ _ c' => Nat.eqb c' c | _ => false end.

Lemma cnt_snoc {A} (f : A -> bool) l i : Conv.cnt f (l ++ [i]) = Conv.cnt f l + (if f i then 1 else 0).
Proof. rewrite Conv.cnt_app. unfold Conv.cnt. cbn. destruct (f i); reflexivity. Qed.

Lemma cnt_cons {A} (f : A -> bool) l i : Conv.cnt f (i :: l) = (if f i then 1 else 0) + Conv.cnt f l.
Proof. unfold Conv.cnt. cbn. destruct (f i); reflexivity. Qed.

(* the cache worker and the access answers in the resource queue *)
Lemma eff_rune_nop σ :
  match Core.nop_head val upd σ with
  | Some c0 => exists q, cqe σ = Conv.INop val upd c0 :: q /\ cqe (cstep σ RunE) = q /\
                         csubs (cstep σ RunE) = csubs σ
  | None => forall c, Conv.cnt (is_nop c) (cqe (cstep σ RunE)) = Conv.cnt (is_nop c) (cqe σ)
  end.
Proof.
  unfold Core.nop_head. cbn [Conv.step].
  destruct (cqe σ) as [|[u| |v|s0|n0] q] eqn:Eq.
  - intros c. rewrite Eq. reflexivity.
  - intros c. rewrite cnt_cons. cbn [is_nop Nat.add].
    destruct (Conv.rs_loaded val upd σ); [destruct (norm u (Conv.rs_val val upd σ))|]; reflexivity.
  - intros c. rewrite cnt_cons. reflexivity.
  - intros c. rewrite cnt_cons. reflexivity.
  - intros c. rewrite cnt_cons. reflexivity.
  - exists q. repeat split.
Qed.

(* service actions leave subscriptions and subscriber list alone *)
Lemma eff_svc σ a :
  match a with
  | Conv.SvcUpdate _ _ | Conv.SvcCustom _ | Conv.SvcAnswer _ | Conv.SvcNop _ _ =>
      csubs (cstep σ a) = csubs σ /\ crsubs (cstep σ a) = crsubs σ
  | _ => True
  end.
Proof.
  destruct a; try exact I; cbn [Conv.step]; try (split; reflexivity).
  destruct (Conv.answered val upd σ); split; reflexivity.
Qed.

(* an event arriving while nobody ever subscribed: enqueued and discarded at once *)
Lemma eff_ev_nosub σ a :
  match a with Conv.SvcUpdate _ _ | Conv.SvcCustom _ => True | _ => False end ->
  cqe σ = [] -> crsubs σ = [] ->
  cqe (cstep (cstep σ a) RunE) = [] /\ crsubs (cstep (cstep σ a) RunE) = [] /\
  forall c, csubs (cstep (cstep σ a) RunE) c = csubs σ c.
Proof.
  intros Ha Hq Hs. destruct a; try contradiction.
  - cbn. rewrite Hq. cbn.
    destruct (Conv.rs_loaded val upd σ); [destruct (norm u (Conv.rs_val val upd σ))|]; cbn;
      rewrite ?Hs; repeat split; auto.
  - cbn. rewrite Hq. cbn. rewrite Hs.
    destruct (Conv.rs_loaded val upd σ); cbn; repeat split; auto.
Qed.

(* connection-local actions touch only their own subscription *)
Lemma eff_local_other σ a c0 c :
  match a with
  | Conv.Subscribe _ s | Conv.RunC _ s | Conv.Respond _ s _ => s = c0
  | _ => False
  end -> c <> c0 -> csubs (cstep σ a) c = csubs σ c.
Proof.
  intros Ha Hne. destruct a; try contradiction; subst s; cbn [Conv.step].
  - destruct (ysubd (csubs σ c0)); [reflexivity|]. cbn [Conv.subs]. apply Conv.set_sub_neq; exact Hne.
  - destruct (ycq (csubs σ c0)) as [|[|e] q]; [reflexivity| |]; cbn [Conv.subs]; apply Conv.set_sub_neq; exact Hne.
  - destruct (yloaded (csubs σ c0) && negb (ysent (csubs σ c0))); [|reflexivity].
    cbn [Conv.subs]. apply Conv.set_sub_neq; exact Hne.
Qed.

Lemma eff_local_res σ a :
  match a with Conv.RunC _ _ | Conv.Respond _ _ _ => True | _ => False end ->
  cqe (cstep σ a) = cqe σ /\ crsubs (cstep σ a) = crsubs σ.
Proof.
  intros Ha. destruct a; try contradiction; cbn [Conv.step].
  - destruct (ycq (csubs σ s)) as [|[|e] q]; split; reflexivity.
  - destruct (yloaded (csubs σ s) && negb (ysent (csubs σ s))); split; reflexivity.
Qed.

Lemma eff_subscribe σ c :
  let y := csubs σ c in let y' := csubs (cstep σ (Subscribe c)) c in
  ysubd y' = true /\ yloaded y' = yloaded y /\ ysver y' = ysver y /\ ysval y' = ysval y /\
  yflag y' = yflag y /\ yeq y' = yeq y /\ ysent y' = ysent y /\ ycq y' = ycq y /\
  crsubs (cstep σ (Subscribe c)) = crsubs σ.
Proof.
  cbn [Conv.step]. destruct (ysubd (csubs σ c)) eqn:E.
  - cbn. repeat split; auto.
  - cbn [Conv.subs Conv.rs_subs]. rewrite Conv.set_sub_eq. cbn. repeat split.
Qed.

Lemma eff_respond σ c :
  let y := csubs σ c in
  can_respond y = true ->
  let y' := csubs (cstep σ (Respond c (length (yeq y)))) c in
  ysubd y' = ysubd y /\ yloaded y' = yloaded y /\
  ysver y' = fst (creplay (ysver y, ysval y) (yeq y)) /\
  ysval y' = snd (creplay (ysver y, ysval y) (yeq y)) /\
  yflag y' = false /\ yeq y' = [] /\ ysent y' = true /\ ycq y' = ycq y.
Proof.
  intros y Hc. unfold Core.can_respond in Hc. fold y in Hc.
  cbn [Conv.step]. fold y. rewrite Hc. cbn [Conv.subs]. rewrite Conv.set_sub_eq.
  unfold Conv.drain. cbn [Conv.with_sub Conv.eq Conv.sver Conv.sval Conv.sent].
  rewrite firstn_all, skipn_all.
  destruct (creplay (ysver y, ysval y) (yeq y)) as [ver v]. cbn. repeat split.
Qed.

Lemma eff_runc σ c :
  let y := csubs σ c in let y' := csubs (cstep σ (RunC c)) c in
  match ycq y with
  | [] => y' = y
  | Conv.CLoaded _ :: q =>
      ysubd y' = ysubd y /\ yloaded y' = true /\ yflag y' = true /\ yeq y' = [] /\ ysent y' = false /\ ycq y' = q
  | Conv.CEvent _ e :: q =>
      ysubd y' = ysubd y /\ yloaded y' = yloaded y /\ ysent y' = ysent y /\ ycq y' = q /\
      (if negb (yloaded y) then ysval y' = ysval y /\ yflag y' = yflag y
       else if yflag y then ysval y' = ysval y /\ yflag y' = true
       else ysval y' = snd (cproc (ysver y, ysval y) e) /\ yflag y' = false)
  end.
Proof.
  intros y. cbn [Conv.step]. fold y.
  destruct (ycq y) as [|[|e] q] eqn:Eq.
  - reflexivity.
  - cbn [Conv.subs]. rewrite Conv.set_sub_eq. cbn. repeat split.
  - cbn [Conv.subs]. rewrite Conv.set_sub_eq.
    destruct (yloaded y) eqn:El; cbn [negb].
    + destruct (yflag y) eqn:Ef.
      * cbn. repeat split.
      * destruct (cproc (ysver y, ysval y) e) as [ver v]. cbn. repeat split.
    + cbn. repeat split; auto.
Qed.


(* ---------------- the invariant ---------------- *)
Definition is_qsub (i : Core.qitem) : bool := match i with Core.QSub => true | _ => false end.
Definition is_qacc (i : Core.qitem) : bool := match i with Core.QAccess => true | _ => false end.
Definition is_some {A} (o : option A) : bool := match o with Some _ => true | None => false end.

Record CI (ops : list op) (x : Core.conn) (y : sub) (outs : list out) (c : nat) (nq : nat) : Prop := {
  k1 : ysent y = Core.granted x && yloaded y;
  k3 : Conv.cnt is_qsub (Core.cqueue x) = length (ycq y);
  k5 : ysent y = true -> yflag y = false;
  k7a : ysubd y = Core.areq x;
  k7b : Core.areq x = is_some (Core.reqid x);
  k8a : Conv.b2n (Core.aans x) = Conv.b2n (Core.granted x) + Conv.cnt is_qacc (Core.cqueue x) + nq;
  k8b : Core.aans x = true -> Core.areq x = true;
  k9a : Core.asked x = true <-> first_req c ops <> None;
  k9b : forall id, In (Core.QReq id) (Core.cqueue x) -> first_req c ops = Some id;
  k9c : forall id, Core.reqid x = Some id -> first_req c ops = Some id;
  k9d : Core.asked x = true -> Core.reqid x <> None \/ exists id, In (Core.QReq id) (Core.cqueue x);
  k10 : Core.aans x = true -> In (Core.MqAccess upd c) ops;
  kv : view c outs = if ysent y then Some (ysval y) else None;
  kr : resps c outs = if ysent y then [Core.rid_of x] else []
}.

Record GI (s : kst) : Prop := {
  g0 : CInv (cv s);
  g1 : Core.mqsub val upd s = false ->
       cqe (cv s) = [] /\ crsubs (cv s) = [] /\ Core.getreq val upd s = false;
  g2 : forall c, Conv.mem c (crsubs (cv s)) = true -> Core.getreq val upd s = true
}.

Definition SI (ops : list op) (s : kst) (outs : list out) : Prop :=
  GI s /\ forall c, CI ops (conns s c) (csubs (cv s) c) outs c (Conv.cnt (is_nop c) (cqe (cv s))).

(* nothing relevant to c happens: possibly one more item on its subscription and one more task on its queue *)
Lemma CI_frame ops x y outs c nq o x' y' o' nq' :
  CI ops x y outs c nq -> nq' = nq ->
  Core.reqid x' = Core.reqid x -> Core.asked x' = Core.asked x -> Core.areq x' = Core.areq x ->
  Core.aans x' = Core.aans x -> Core.granted x' = Core.granted x ->
  ((Core.cqueue x' = Core.cqueue x /\ ycq y' = ycq y) \/
   (exists i, Core.cqueue x' = Core.cqueue x ++ [Core.QSub] /\ ycq y' = ycq y ++ [i])) ->
  same_but_cq y y' ->
  first_req c (ops ++ [o]) = first_req c ops ->
  Forall (addr_ne c) o' ->
  CI (ops ++ [o]) x' y' (outs ++ o') c nq'.
Proof.
  intros H -> Hr Hk Ha Hn Hg Hq (S1 & S2 & S3 & S4 & S5 & S6 & S7) Hf Ho.
  destruct H as [K1 K3 K5 K7a K7b K8a K8b K9a K9b K9c K9d K10 KV KR].
  assert (Hrid : Core.rid_of x' = Core.rid_of x) by (unfold Core.rid_of; rewrite Hr; reflexivity).
  assert (Hcnt : Conv.cnt is_qsub (Core.cqueue x') = length (ycq y') /\
                 Conv.cnt is_qacc (Core.cqueue x') = Conv.cnt is_qacc (Core.cqueue x) /\
                 forall id, In (Core.QReq id) (Core.cqueue x') <-> In (Core.QReq id) (Core.cqueue x)).
  { destruct Hq as [[Q1 Q2]|(i & Q1 & Q2)]; rewrite Q1, Q2.
    - split; [exact K3|split; [reflexivity|intros id; reflexivity]].
    - rewrite !cnt_snoc, app_length. cbn. split; [lia|split; [lia|]].
      intros id. rewrite in_app_iff. cbn. intuition congruence. }
  destruct Hcnt as (C1 & C2 & C3).
  constructor; rewrite ?Hr, ?Hk, ?Ha, ?Hn, ?Hg, ?S1, ?S2, ?S3, ?S4, ?S5, ?S6, ?S7, ?Hf, ?Hrid, ?C2; auto.
  - intros id Hin. apply K9b. apply C3. exact Hin.
  - intros Hask. destruct (K9d Hask) as [Hl|[id Hin]]; [left; exact Hl|right; exists id; apply C3; exact Hin].
  - intros Haa. apply in_or_app. left. apply K10. exact Haa.
  - rewrite view_app, (neutral_vfold c o' Ho). exact KV.
  - rewrite resps_app, (neutral_resps c o' Ho), app_nil_r. exact KR.
Qed.

Lemma set_conn_eq f c x : Core.set_conn f c x c = x.
Proof. unfold Core.set_conn. rewrite Nat.eqb_refl. reflexivity. Qed.
Lemma set_conn_neq f c x c' : c' <> c -> Core.set_conn f c x c' = f c'.
Proof. unfold Core.set_conn. intros H. apply Nat.eqb_neq in H. rewrite H. reflexivity. Qed.

Lemma inv_fold σ acts : CInv σ -> CInv (fold_left cstep acts σ).
Proof.
  revert σ. induction acts as [|a acts IH]; intros σ H; cbn [fold_left]; [exact H|].
  apply IH. apply Conv.step_inv; [exact norm_none|exact norm_some|exact H].
Qed.



(* general rebuilding lemma: the request bookkeeping is unchanged, the rest is supplied *)
Lemma CI_gen ops x y outs c nq o x' y' outs' nq' :
  CI ops x y outs c nq ->
  Core.reqid x' = Core.reqid x -> Core.asked x' = Core.asked x -> Core.areq x' = Core.areq x ->
  (Core.aans x' = true -> Core.areq x = true) ->
  (Core.aans x' = true -> In (Core.MqAccess upd c) (ops ++ [o])) ->
  Conv.b2n (Core.aans x') = Conv.b2n (Core.granted x') + Conv.cnt is_qacc (Core.cqueue x') + nq' ->
  (forall id, In (Core.QReq id) (Core.cqueue x') -> In (Core.QReq id) (Core.cqueue x)) ->
  (Core.asked x = true -> Core.reqid x <> None \/ exists id, In (Core.QReq id) (Core.cqueue x')) ->
  first_req c (ops ++ [o]) = first_req c ops ->
  ysent y' = Core.granted x' && yloaded y' ->
  Conv.cnt is_qsub (Core.cqueue x') = length (ycq y') ->
  (ysent y' = true -> yflag y' = false) ->
  ysubd y' = ysubd y ->
  view c outs' = (if ysent y' then Some (ysval y') else None) ->
  resps c outs' = (if ysent y' then [Core.rid_of x] else []) ->
  CI (ops ++ [o]) x' y' outs' c nq'.
Proof.
  intros H Hr Hk Ha H8b H10 H8a H9b H9d Hf Y1 Y3 Y5 Y7 YV YR.
  destruct H as [K1 K3 K5 K7a K7b K8a K8b K9a K9b K9c K9d K10 KV KR].
  assert (Hrid : Core.rid_of x' = Core.rid_of x) by (unfold Core.rid_of; rewrite Hr; reflexivity).
  constructor; rewrite ?Hr, ?Hk, ?Ha, ?Hf, ?Hrid; auto.
  - rewrite Y7. exact K7a.
Qed.

(* ---- GrantConn c, case analyses on the head of c's queue ---- *)
Lemma gc_req_none ops x y outs c nq σ id r o' :
  y = csubs σ c -> CI ops x y outs c nq ->
  Core.cqueue x = Core.QReq id :: r -> Core.reqid x = None -> Forall (addr_ne c) o' ->
  CI (ops ++ [GrantConn c])
     {| Core.cqueue := tl (Core.cqueue x); Core.reqid := Some id; Core.asked := Core.asked x;
        Core.areq := true; Core.aans := Core.aans x; Core.granted := Core.granted x |}
     (csubs (cstep σ (Subscribe c)) c) (outs ++ o') c nq.
Proof.
  intros Hy HC Hq Hr Ho.
  destruct HC as [K1 K3 K5 K7a K7b K8a K8b K9a K9b K9c K9d K10 KV KR].
  pose proof (eff_subscribe σ c) as E. cbv zeta in E. rewrite <- Hy in E.
  destruct E as (E1 & E2 & E3 & E4 & E5 & E6 & E7 & E8 & _).
  assert (Hf : first_req c (ops ++ [GrantConn c]) = first_req c ops) by (apply first_req_snoc; reflexivity).
  rewrite Hr in K7b. cbn in K7b.
  assert (Haa : Core.aans x = false) by (destruct (Core.aans x); [rewrite K8b in K7b by reflexivity; discriminate|reflexivity]).
  rewrite Hq, cnt_cons in K8a, K3. rewrite Haa in K8a. cbn in K8a, K3.
  assert (Hg : Core.granted x = false) by (destruct (Core.granted x); [cbn in K8a; lia|reflexivity]).
  assert (Hs : ysent y = false) by (rewrite K1, Hg; reflexivity).
  constructor; cbn [Core.cqueue Core.reqid Core.asked Core.areq Core.aans Core.granted];
    rewrite ?Hq; cbn [tl]; rewrite ?E1, ?E2, ?E3, ?E4, ?E5, ?E6, ?E7, ?E8, ?Hf; auto.
  - rewrite Haa, Hg. cbn. rewrite Hg in K8a. cbn in K8a. exact K8a.
  - intros id' Hin. apply K9b. rewrite Hq. right. exact Hin.
  - intros id' Hid. injection Hid as <-. apply K9b. rewrite Hq. left. reflexivity.
  - intros _. left. discriminate.
  - rewrite Haa. discriminate.
  - rewrite view_app, (neutral_vfold c o' Ho). exact KV.
  - rewrite resps_app, (neutral_resps c o' Ho), app_nil_r, KR, Hs. reflexivity.
Qed.

Lemma gc_req_some ops x y outs c nq id r :
  CI ops x y outs c nq -> Core.cqueue x = Core.QReq id :: r -> Core.reqid x <> None ->
  CI (ops ++ [GrantConn c]) (Core.pop_q x) y (outs ++ []) c nq.
Proof.
  intros HC Hq Hr.
  pose proof HC as HC'.
  destruct HC' as [K1 K3 K5 K7a K7b K8a K8b K9a K9b K9c K9d K10 KV KR].
  rewrite Hq, cnt_cons in K8a, K3. cbn in K8a, K3.
  apply (CI_gen ops x y outs c nq (GrantConn c)); unfold Core.pop_q;
    cbn [Core.cqueue Core.reqid Core.asked Core.areq Core.aans Core.granted]; rewrite ?Hq; cbn [tl];
    rewrite ?app_nil_r; auto.
  - intros Haa. apply in_or_app. left. apply K10. exact Haa.
  - intros id' Hin. right. exact Hin.
  - apply first_req_snoc. reflexivity.
Qed.

Lemma gc_acc ops x y outs c nq σ r b σ' o' :
  y = csubs σ c -> CI ops x y outs c nq -> Core.cqueue x = Core.QAccess :: r ->
  b = can_respond y ->
  σ' = fold_left cstep (if b then [Respond c (length (yeq y))] else []) σ ->
  o' = (if b then respond_out c y (Core.rid_of x) else []) ->
  CI (ops ++ [GrantConn c])
     {| Core.cqueue := tl (Core.cqueue x); Core.reqid := Core.reqid x; Core.asked := Core.asked x;
        Core.areq := Core.areq x; Core.aans := Core.aans x; Core.granted := true |}
     (csubs σ' c) (outs ++ o') c nq.
Proof.
  intros Hy HC Hq Hb Hs' Ho'.
  pose proof HC as HC'.
  destruct HC' as [K1 K3 K5 K7a K7b K8a K8b K9a K9b K9c K9d K10 KV KR].
  rewrite Hq, cnt_cons in K8a, K3. cbn in K8a, K3.
  assert (Hag : Core.aans x = true /\ Core.granted x = false /\ Conv.cnt is_qacc r = 0 /\ nq = 0).
  { destruct (Core.aans x), (Core.granted x); cbn in K8a; repeat split; try lia. }
  destruct Hag as (Haa & Hg & Hc0 & Hn0).
  assert (Hs : ysent y = false) by (rewrite K1, Hg; reflexivity).
  rewrite Hs in KV, KR.
  assert (HY : ysent (csubs σ' c) = yloaded (csubs σ' c) /\ ycq (csubs σ' c) = ycq y /\
               (ysent (csubs σ' c) = true -> yflag (csubs σ' c) = false) /\
               ysubd (csubs σ' c) = ysubd y /\
               view c (outs ++ o') = (if ysent (csubs σ' c) then Some (ysval (csubs σ' c)) else None) /\
               resps c (outs ++ o') = (if ysent (csubs σ' c) then [Core.rid_of x] else [])).
  { destruct b.
    - symmetry in Hb. pose proof (eff_respond σ c) as P. cbv zeta in P. rewrite <- Hy in P.
      specialize (P Hb). cbn [fold_left] in Hs'. rewrite <- Hs' in P.
      destruct P as (P1 & P2 & P3 & P4 & P5 & P6 & P7 & P8).
      unfold Core.can_respond in Hb. apply andb_prop in Hb. destruct Hb as [Hl _].
      rewrite P7, P2, Hl, P4, Ho'. repeat split; auto.
      + rewrite view_app. apply vfold_respond.
      + rewrite resps_app, KR, resps_respond. reflexivity.
    - cbn [fold_left] in Hs'. subst σ' o'. rewrite <- Hy, app_nil_r, Hs.
      unfold Core.can_respond in Hb. rewrite Hs in Hb. cbn in Hb. rewrite andb_true_r in Hb.
      rewrite <- Hb. repeat split; auto. discriminate. }
  destruct HY as (Y1 & Y3 & Y5 & Y7 & YV & YR).
  apply (CI_gen ops x y outs c nq (GrantConn c));
    cbn [Core.cqueue Core.reqid Core.asked Core.areq Core.aans Core.granted]; rewrite ?Hq; cbn [tl]; auto.
  - intros _. apply in_or_app. left. apply K10. exact Haa.
  - rewrite Haa, Hc0, Hn0. reflexivity.
  - intros id' Hin. right. exact Hin.
  - intros Hask. destruct (K9d Hask) as [Hl|[id' Hin]]; [left; exact Hl|right; exists id'].
    rewrite Hq in Hin. destruct Hin as [Hin|Hin]; [discriminate|exact Hin].
  - apply first_req_snoc. reflexivity.
  - rewrite Y3. exact K3.
Qed.


Lemma gc_sub ops x y outs c nq σ r σ1 b σ' ev_out o' :
  CInv σ -> y = csubs σ c -> CI ops x y outs c nq -> Core.cqueue x = Core.QSub :: r ->
  σ1 = cstep σ (RunC c) ->
  b = Core.granted x && can_respond (csubs σ1 c) ->
  σ' = fold_left cstep (if b then [RunC c; Respond c (length (yeq (csubs σ1 c)))] else [RunC c]) σ ->
  ev_out = match ycq y with
           | Conv.CEvent _ e :: _ =>
               if yloaded y && negb (yflag y) then snd (proc_o c (ysver y, ysval y) e) else []
           | _ => []
           end ->
  o' = ev_out ++ (if b then respond_out c (csubs σ1 c) (Core.rid_of x) else []) ->
  CI (ops ++ [GrantConn c]) (Core.pop_q x) (csubs σ' c) (outs ++ o') c nq.
Proof.
  intros HI Hy HC Hq H1 Hb Hs' Hev Ho'.
  pose proof HC as HC'.
  destruct HC' as [K1 K3 K5 K7a K7b K8a K8b K9a K9b K9c K9d K10 KV KR].
  rewrite Hq, cnt_cons in K8a, K3. cbn in K8a, K3.
  pose proof (eff_runc σ c) as R. cbv zeta in R. rewrite <- Hy, <- H1 in R.
  set (y1 := csubs σ1 c) in *.
  assert (HY : ysent (csubs σ' c) = Core.granted x && yloaded (csubs σ' c) /\
               S (length (ycq (csubs σ' c))) = length (ycq y) /\
               (ysent (csubs σ' c) = true -> yflag (csubs σ' c) = false) /\
               ysubd (csubs σ' c) = ysubd y /\
               view c (outs ++ o') = (if ysent (csubs σ' c) then Some (ysval (csubs σ' c)) else None) /\
               resps c (outs ++ o') = (if ysent (csubs σ' c) then [Core.rid_of x] else [])).
  { destruct (ycq y) as [|[|e] q] eqn:Ecq.
    - exfalso. cbn in K3. lia.
    - (* Loaded: snapshot, respond at once if access was granted *)
      destruct R as (R1 & R2 & R3 & R4 & R5 & R6).
      assert (Hl : yloaded y = false).
      { pose proof (Conv.i4 _ _ _ _ HI c) as H4. rewrite <- Hy, Ecq, cnt_cons in H4. cbn in H4.
        pose proof (Conv.b2n_le (Conv.mem c (crsubs σ) && Conv.rs_loaded val upd σ)).
        destruct (yloaded y); [cbn in H4; lia|reflexivity]. }
      assert (Hs : ysent y = false) by (rewrite K1, Hl; apply andb_false_r).
      rewrite Hs in KV, KR. subst ev_out. cbn [List.app] in Ho'.
      destruct (Core.granted x) eqn:Eg.
      + assert (Hcan : can_respond y1 = true) by (unfold Core.can_respond; rewrite R2, R5; reflexivity).
        rewrite Hcan in Hb. cbn in Hb. subst b. cbn [fold_left] in Hs'. rewrite <- H1 in Hs'.
        pose proof (eff_respond σ1 c) as P. cbv zeta in P. fold y1 in P. specialize (P Hcan).
        rewrite <- Hs' in P. destruct P as (P1 & P2 & P3 & P4 & P5 & P6 & P7 & P8).
        rewrite P7, P2, R2, P4, P1, P8, R6, Ho'. cbn [length]. repeat split; auto.
        * rewrite view_app. apply vfold_respond.
        * rewrite resps_app, KR, resps_respond. reflexivity.
      + cbn in Hb. subst b. cbn [fold_left] in Hs'. rewrite <- H1 in Hs'. subst σ' o'. fold y1.
        rewrite R5, R6, R1, app_nil_r. cbn [length]. repeat split; auto; try discriminate.
    - (* event *)
      destruct R as (R1 & R2 & R3 & R4 & R5).
      assert (Hb0 : b = false).
      { rewrite Hb. unfold Core.can_respond. rewrite R2, R3, K1.
        destruct (Core.granted x), (yloaded y); reflexivity. }
      subst b. rewrite Hb0 in *. cbn [fold_left] in Hs'. rewrite <- H1 in Hs'. subst σ'. fold y1.
      rewrite app_nil_r in Ho'. subst o'.
      rewrite R3, R2, R4, R1. cbn [length].
      destruct (yloaded y) eqn:El; [destruct (yflag y) eqn:Ef|]; cbn [negb andb] in R5, Hev; subst ev_out;
        destruct R5 as [R5 R6]; rewrite R5, R6, ?app_nil_r.
      + repeat split; auto.
      + repeat split; auto.
        * rewrite view_app, KV. destruct (ysent y); [apply vfold_proc_some|apply vfold_proc_none].
        * rewrite resps_app, resps_proc, app_nil_r. exact KR.
      + repeat split; auto. }
  destruct HY as (Y1 & Y3 & Y5 & Y7 & YV & YR).
  apply (CI_gen ops x y outs c nq (GrantConn c)); unfold Core.pop_q;
    cbn [Core.cqueue Core.reqid Core.asked Core.areq Core.aans Core.granted]; rewrite ?Hq; cbn [tl]; auto.
  - intros Haa. apply in_or_app. left. apply K10. exact Haa.
  - intros id' Hin. right. exact Hin.
  - intros Hask. destruct (K9d Hask) as [Hl|[id' Hin]]; [left; exact Hl|right; exists id'].
    rewrite Hq in Hin. destruct Hin as [Hin|Hin]; [discriminate|exact Hin].
  - apply first_req_snoc. reflexivity.
  - lia.
Qed.


(* ---------------- one step of the integrated machine ---------------- *)
Lemma GI_same s s' : GI s -> cv s' = cv s -> Core.mqsub val upd s' = Core.mqsub val upd s ->
  Core.getreq val upd s' = Core.getreq val upd s -> GI s'.
Proof. intros [G0 G1 G2] Hc Hm Hg. constructor; rewrite ?Hc, ?Hm, ?Hg; assumption. Qed.

Lemma CI_idle ops x y outs c nq o nq' : CI ops x y outs c nq -> nq' = nq -> first_req c [o] = None ->
  CI (ops ++ [o]) x y (outs ++ []) c nq'.
Proof.
  intros HC Hnq Hf. apply (CI_frame ops x y outs c nq o x y [] nq' HC Hnq); try reflexivity.
  - left. split; reflexivity.
  - apply same_refl.
  - apply first_req_snoc. exact Hf.
  - constructor.
Qed.

Lemma csub_case ops x y outs c nq id : CI ops x y outs c nq -> Core.asked x = false ->
  CI (ops ++ [Core.CSub upd c id])
     {| Core.cqueue := Core.cqueue x ++ [Core.QReq id]; Core.reqid := Core.reqid x; Core.asked := true;
        Core.areq := Core.areq x; Core.aans := Core.aans x; Core.granted := Core.granted x |}
     y (outs ++ []) c nq.
Proof.
  intros HC Ha.
  destruct HC as [K1 K3 K5 K7a K7b K8a K8b K9a K9b K9c K9d K10 KV KR].
  assert (Hn : first_req c ops = None).
  { destruct (first_req c ops) eqn:E; [|reflexivity].
    assert (Core.asked x = true) by (apply K9a; congruence). congruence. }
  assert (Hf : first_req c (ops ++ [Core.CSub upd c id]) = Some id).
  { rewrite first_req_app, Hn. cbn. rewrite Nat.eqb_refl. reflexivity. }
  constructor; cbn [Core.cqueue Core.reqid Core.asked Core.areq Core.aans Core.granted];
    rewrite ?cnt_snoc, ?app_nil_r, ?Hf; cbn [is_qsub is_qacc]; rewrite ?Nat.add_0_r; auto.
  - split; [intros _; congruence|intros _; reflexivity].
  - intros id' Hin. apply in_app_or in Hin. destruct Hin as [Hin|Hin].
    + specialize (K9b id' Hin). congruence.
    + cbn in Hin. destruct Hin as [Hin|[]]. congruence.
  - intros id' Hid. specialize (K9c id' Hid). congruence.
  - intros _. right. exists id. apply in_or_app. right. left. reflexivity.
  - intros Haa. apply in_or_app. left. apply K10. exact Haa.
Qed.

Lemma si_csub ops s outs c0 id : SI ops s outs ->
  SI (ops ++ [Core.CSub upd c0 id]) (fst (kstep s (Core.CSub upd c0 id)))
     (outs ++ snd (kstep s (Core.CSub upd c0 id))).
Proof.
  intros [HG HC]. unfold Core.step, Core.acts_of. cbv zeta. cbn [fold_left].
  destruct (Core.asked (conns s c0)) eqn:Ea; cbn [fst snd].
  - split; [exact HG|]. intros c.
    apply (CI_frame ops _ _ outs c _ _ _ _ [] _ (HC c)); try reflexivity.
    + left. split; reflexivity.
    + apply same_refl.
    + destruct (Nat.eq_dec c c0) as [->|Hne].
      * apply first_req_snoc_some. apply (k9a _ _ _ _ _ _ (HC c0)). exact Ea.
      * apply first_req_snoc. cbn.
        assert (E : Nat.eqb c0 c = false) by (apply Nat.eqb_neq; congruence). rewrite E. reflexivity.
    + constructor.
  - split.
    + apply (GI_same s); [exact HG|reflexivity|reflexivity|reflexivity].
    + intros c. cbn [Core.conns Core.cv]. destruct (Nat.eq_dec c c0) as [->|Hne].
      * rewrite set_conn_eq. apply csub_case; [apply HC|exact Ea].
      * rewrite set_conn_neq by exact Hne. eapply CI_idle; [apply HC|reflexivity|].
        cbn. assert (E : Nat.eqb c0 c = false) by (apply Nat.eqb_neq; congruence). rewrite E. reflexivity.
Qed.

Lemma mqaccess_case ops x y outs c nq : CI ops x y outs c nq ->
  Core.areq x && negb (Core.aans x) = true ->
  CI (ops ++ [Core.MqAccess upd c])
     {| Core.cqueue := Core.cqueue x; Core.reqid := Core.reqid x; Core.asked := Core.asked x;
        Core.areq := Core.areq x; Core.aans := true; Core.granted := Core.granted x |}
     y (outs ++ []) c (nq + 1).
Proof.
  intros HC Hc. apply andb_prop in Hc. destruct Hc as [Hr Hn]. apply negb_true_iff in Hn.
  pose proof HC as HC'.
  destruct HC' as [K1 K3 K5 K7a K7b K8a K8b K9a K9b K9c K9d K10 KV KR].
  rewrite Hn in K8a. cbn in K8a.
  apply (CI_gen ops x y outs c nq (Core.MqAccess upd c));
    cbn [Core.cqueue Core.reqid Core.asked Core.areq Core.aans Core.granted];
    rewrite ?app_nil_r; auto.
  - intros _. apply in_or_app. right. left. reflexivity.
  - cbn. lia.
  - apply first_req_snoc. reflexivity.
Qed.

Lemma cnt_nop_snoc_other c (q : list (Conv.eitem val upd)) i :
  is_nop c i = false -> Conv.cnt (is_nop c) (q ++ [i]) = Conv.cnt (is_nop c) q.
Proof. intros H. rewrite cnt_snoc, H. lia. Qed.

(* a subscribed connection means the subscription is on *)
Lemma areq_mqsub ops s outs c : SI ops s outs -> Core.areq (conns s c) = true -> Core.mqsub val upd s = true.
Proof.
  intros [[G0 G1 G2] HC] Ha.
  destruct (Core.mqsub val upd s) eqn:Em; [reflexivity|exfalso].
  destruct (G1 eq_refl) as (A & B & _).
  pose proof (k7a _ _ _ _ _ _ (HC c)) as K7a. rewrite Ha in K7a.
  pose proof (Conv.i3 _ _ _ _ G0 c) as H3. rewrite A, B, K7a in H3. cbn in H3. discriminate.
Qed.

Lemma si_mqaccess ops s outs c0 : SI ops s outs ->
  SI (ops ++ [Core.MqAccess upd c0]) (fst (kstep s (Core.MqAccess upd c0)))
     (outs ++ snd (kstep s (Core.MqAccess upd c0))).
Proof.
  intros HS. pose proof HS as [HG HC]. unfold Core.step, Core.acts_of. cbv zeta.
  destruct (Core.areq (conns s c0) && negb (Core.aans (conns s c0))) eqn:Ea; cbn [fst snd fold_left].
  - assert (Hm : Core.mqsub val upd s = true).
    { apply (areq_mqsub ops s outs c0 HS). apply andb_prop in Ea. apply Ea. }
    destruct (eff_svc (cv s) (Conv.SvcNop upd c0)) as [Es Er].
    assert (Eq : cqe (cstep (cv s) (Conv.SvcNop upd c0)) = cqe (cv s) ++ [Conv.INop val upd c0]) by reflexivity.
    destruct HG as [G0 G1 G2].
    split.
    + constructor; cbn [Core.cv Core.mqsub Core.getreq].
      * apply Conv.step_inv; [exact norm_none|exact norm_some|exact G0].
      * intros Hf. congruence.
      * intros c. rewrite Er. apply G2.
    + intros c. cbn [Core.conns Core.cv]. rewrite Es, Eq. destruct (Nat.eq_dec c c0) as [->|Hne].
      * rewrite set_conn_eq, cnt_snoc. cbn [is_nop]. rewrite Nat.eqb_refl.
        apply mqaccess_case; [apply HC|exact Ea].
      * rewrite set_conn_neq by exact Hne. eapply CI_idle; [apply HC| |reflexivity].
        apply cnt_nop_snoc_other. cbn [is_nop]. apply Nat.eqb_neq. congruence.
  - split; [exact HG|]. intros c. eapply CI_idle; [apply HC|reflexivity|reflexivity].
Qed.

(* service-side ops: the connections are not touched *)
Lemma si_svc ops s outs o σ' : SI ops s outs -> CInv σ' ->
  (forall c, csubs σ' c = csubs (cv s) c) -> crsubs σ' = crsubs (cv s) ->
  (Core.mqsub val upd s = false -> cqe σ' = []) ->
  (forall c, Conv.cnt (is_nop c) (cqe σ') = Conv.cnt (is_nop c) (cqe (cv s))) ->
  (forall c, first_req c [o] = None) ->
  SI (ops ++ [o])
     {| Core.cv := σ'; Core.conns := conns s; Core.mqsub := Core.mqsub val upd s; Core.getreq := Core.getreq val upd s |}
     (outs ++ []).
Proof.
  intros [[G0 G1 G2] HC] HI Hs Hr Hq Hn Hf. split.
  - constructor; cbn [Core.cv Core.mqsub Core.getreq]; [exact HI| |].
    + intros Hm. destruct (G1 Hm) as (A & B & C). rewrite Hr. auto.
    + intros c. rewrite Hr. apply G2.
  - intros c. cbn [Core.cv Core.conns]. rewrite Hs. eapply CI_idle; [apply HC|apply Hn|apply Hf].
Qed.

Lemma si_mqget ops s outs : SI ops s outs ->
  SI (ops ++ [Core.MqGet upd]) (fst (kstep s (Core.MqGet upd))) (outs ++ snd (kstep s (Core.MqGet upd))).
Proof.
  intros HS. pose proof HS as [[G0 G1 G2] HC]. unfold Core.step, Core.acts_of. cbv zeta. cbn [fst snd].
  apply si_svc; auto.
  - apply inv_fold. exact G0.
  - intros c. destruct (Core.getreq val upd s && negb (Conv.answered val upd (cv s))); cbn [fold_left]; [|reflexivity].
    destruct (eff_svc (cv s) (Conv.SvcAnswer upd)) as [A _]. rewrite A. reflexivity.
  - destruct (Core.getreq val upd s && negb (Conv.answered val upd (cv s))); cbn [fold_left]; [|reflexivity].
    destruct (eff_svc (cv s) (Conv.SvcAnswer upd)) as [_ B]. exact B.
  - intros Hm. destruct (G1 Hm) as (A & B & C). rewrite C. cbn. exact A.
  - intros c. destruct (Core.getreq val upd s && negb (Conv.answered val upd (cv s))); cbn [fold_left]; [|reflexivity].
    cbn [Conv.step]. destruct (Conv.answered val upd (cv s)); [reflexivity|].
    cbn [Conv.qe]. apply cnt_nop_snoc_other. reflexivity.
Qed.

Lemma si_mqev ops s outs o a :
  match a with Conv.SvcUpdate _ _ | Conv.SvcCustom _ => True | _ => False end ->
  (forall c, first_req c [o] = None) ->
  SI ops s outs ->
  SI (ops ++ [o])
     {| Core.cv := fold_left cstep (if Core.mqsub val upd s then [a] else [a; RunE]) (cv s);
        Core.conns := conns s; Core.mqsub := Core.mqsub val upd s; Core.getreq := Core.getreq val upd s |}
     (outs ++ []).
Proof.
  intros Ha Hf HS. pose proof HS as [[G0 G1 G2] HC].
  apply si_svc; auto.
  - apply inv_fold. exact G0.
  - intros c. destruct (Core.mqsub val upd s) eqn:Em; cbn [fold_left].
    + pose proof (eff_svc (cv s) a) as E. destruct a; try contradiction; destruct E as [A _]; rewrite A; reflexivity.
    + destruct (G1 eq_refl) as (A & B & C).
      destruct (eff_ev_nosub (cv s) a Ha A B) as (_ & _ & E). apply E.
  - destruct (Core.mqsub val upd s) eqn:Em; cbn [fold_left].
    + pose proof (eff_svc (cv s) a) as E. destruct a; try contradiction; destruct E as [_ B]; exact B.
    + destruct (G1 eq_refl) as (A & B & C).
      destruct (eff_ev_nosub (cv s) a Ha A B) as (_ & E & _). rewrite E, B. reflexivity.
  - intros Hm. rewrite Hm. cbn [fold_left]. destruct (G1 Hm) as (A & B & C).
    destruct (eff_ev_nosub (cv s) a Ha A B) as (E & _ & _). exact E.
  - intros c. destruct (Core.mqsub val upd s) eqn:Em; cbn [fold_left].
    + destruct a; try contradiction; cbn [Conv.step Conv.qe]; apply cnt_nop_snoc_other; reflexivity.
    + destruct (G1 eq_refl) as (A & B & C).
      destruct (eff_ev_nosub (cv s) a Ha A B) as (E & _ & _). rewrite E, A. reflexivity.
Qed.

(* the cache worker hands an access answer over to the connection *)
Lemma grantes_nop_case ops x y outs c nq o o' :
  CI ops x y outs c (S nq) -> first_req c [o] = None -> Forall (addr_ne c) o' ->
  CI (ops ++ [o]) (Core.push_q x Core.QAccess) y (outs ++ o') c nq.
Proof.
  intros HC Hf Ho.
  pose proof HC as HC'.
  destruct HC' as [K1 K3 K5 K7a K7b K8a K8b K9a K9b K9c K9d K10 KV KR].
  apply (CI_gen ops x y outs c (S nq) o); unfold Core.push_q;
    cbn [Core.cqueue Core.reqid Core.asked Core.areq Core.aans Core.granted];
    rewrite ?cnt_snoc; cbn [is_qsub is_qacc]; rewrite ?Nat.add_0_r; auto.
  - intros Haa. apply in_or_app. left. apply K10. exact Haa.
  - lia.
  - intros id Hin. apply in_app_or in Hin. destruct Hin as [Hin|Hin]; [exact Hin|].
    cbn in Hin. destruct Hin as [Hin|[]]. discriminate.
  - intros Hask. destruct (K9d Hask) as [Hl|[id Hin]]; [left; exact Hl|right; exists id].
    apply in_or_app. left. exact Hin.
  - apply first_req_snoc. exact Hf.
  - rewrite view_app, (neutral_vfold c o' Ho). exact KV.
  - rewrite resps_app, (neutral_resps c o' Ho), app_nil_r. exact KR.
Qed.

Lemma si_grantes ops s outs : SI ops s outs ->
  SI (ops ++ [Core.GrantEs upd]) (fst (kstep s (Core.GrantEs upd))) (outs ++ snd (kstep s (Core.GrantEs upd))).
Proof.
  intros [[G0 G1 G2] HC]. unfold Core.step, Core.acts_of. cbv zeta. cbn [fold_left fst snd]. split.
  - constructor; cbn [Core.cv Core.mqsub Core.getreq].
    + apply Conv.step_inv; [exact norm_none|exact norm_some|exact G0].
    + intros Hm. destruct (G1 Hm) as (A & B & C).
      destruct (eff_rune (cv s) 0) as (_ & _ & _ & E). rewrite (E A).
      unfold Core.is_add_head. rewrite A, C. auto.
    + intros c Hc. destruct (eff_rune (cv s) c) as (_ & _ & E & _).
      destruct (E Hc) as [Hm|Hh]; [rewrite (G2 c Hm); reflexivity|rewrite Hh; apply orb_true_r].
  - intros c. cbn [Core.cv Core.conns].
    pose proof (eff_rune_nop (cv s)) as Hn. unfold Core.pass.
    destruct (Core.nop_head val upd (cv s)) as [c1|] eqn:En.
    + (* an access answer at the head: it moves to its connection's queue *)
      destruct Hn as (q & Q1 & Q2 & Q3).
      assert (Hfan : forall c', Core.fan val upd (cv s) (cstep (cv s) RunE) (conns s) c' = conns s c').
      { intros c'. unfold Core.fan. rewrite Q3, Nat.ltb_irrefl. reflexivity. }
      assert (Hout : Forall (addr_ne c)
                (if Core.is_add_head val upd (cv s) && negb (Core.getreq val upd s) then [Core.OGetReq val upd] else [])).
      { destruct (Core.is_add_head val upd (cv s) && negb (Core.getreq val upd s)); repeat constructor. }
      rewrite Q3, Q2.
      destruct (Nat.eq_dec c c1) as [->|Hne].
      * rewrite set_conn_eq, Hfan. apply grantes_nop_case; [|reflexivity|exact Hout].
        pose proof (HC c1) as H. rewrite Q1, cnt_cons in H. cbn [is_nop] in H. rewrite Nat.eqb_refl in H. exact H.
      * rewrite set_conn_neq by exact Hne. rewrite Hfan.
        apply (CI_frame ops _ _ outs c _ _ _ _ _ _ (HC c)); try reflexivity.
        -- rewrite Q1, cnt_cons. cbn [is_nop].
           assert (E : Nat.eqb c1 c = false) by (apply Nat.eqb_neq; congruence). rewrite E. reflexivity.
        -- left. split; reflexivity.
        -- apply same_refl.
        -- apply first_req_snoc. reflexivity.
        -- exact Hout.
    + destruct (eff_rune (cv s) c) as (Sm & Hq & _ & _).
      apply (CI_frame ops _ _ outs c _ _ _ _ _ _ (HC c)); unfold Core.fan.
      * apply Hn.
      * destruct (Nat.ltb _ _); reflexivity.
      * destruct (Nat.ltb _ _); reflexivity.
      * destruct (Nat.ltb _ _); reflexivity.
      * destruct (Nat.ltb _ _); reflexivity.
      * destruct (Nat.ltb _ _); reflexivity.
      * destruct Hq as [Hq|[i Hq]]; rewrite Hq.
        -- rewrite Nat.ltb_irrefl. left. split; reflexivity.
        -- right. exists i. rewrite app_length. cbn [length].
           assert (E : Nat.ltb (length (ycq (csubs (cv s) c))) (length (ycq (csubs (cv s) c)) + 1) = true)
             by (apply Nat.ltb_lt; lia).
           rewrite E. split; reflexivity.
      * exact Sm.
      * apply first_req_snoc. reflexivity.
      * destruct (Core.is_add_head val upd (cv s) && negb (Core.getreq val upd s)); repeat constructor.
Qed.


(* ---- GrantConn ---- *)
Lemma grantconn_other s c0 c : c <> c0 ->
  conns (fst (kstep s (GrantConn c0))) c = conns s c /\
  csubs (cv (fst (kstep s (GrantConn c0)))) c = csubs (cv s) c /\
  Forall (addr_ne c) (snd (kstep s (GrantConn c0))).
Proof.
  intros Hne. assert (Hne' : c0 <> c) by congruence.
  unfold Core.step, Core.acts_of. cbv zeta.
  destruct (Core.cqueue (conns s c0)) as [|[id| |] r] eqn:Eq.
  - cbn. auto.
  - destruct (Core.reqid (conns s c0)); cbn [fst snd Core.cv Core.conns fold_left];
      rewrite set_conn_neq by exact Hne; (split; [reflexivity|split]).
    + reflexivity.
    + constructor.
    + apply (eff_local_other _ _ c0); [reflexivity|exact Hne].
    + destruct (Core.mqsub val upd s); repeat constructor.
  - destruct (can_respond (csubs (cv s) c0)); cbn [fst snd Core.cv Core.conns fold_left];
      rewrite set_conn_neq by exact Hne; (split; [reflexivity|split]).
    + apply (eff_local_other _ _ c0); [reflexivity|exact Hne].
    + apply respond_out_ne. exact Hne'.
    + reflexivity.
    + constructor.
  - assert (Hev : Forall (addr_ne c)
             match ycq (csubs (cv s) c0) with
             | Conv.CEvent _ e :: _ =>
                 if yloaded (csubs (cv s) c0) && negb (yflag (csubs (cv s) c0))
                 then snd (proc_o c0 (ysver (csubs (cv s) c0), ysval (csubs (cv s) c0)) e) else []
             | _ => []
             end).
    { destruct (ycq (csubs (cv s) c0)) as [|[|e] q]; try constructor.
      destruct (yloaded (csubs (cv s) c0) && negb (yflag (csubs (cv s) c0))); [|constructor].
      apply proc_o_ne. exact Hne'. }
    destruct (Core.granted (conns s c0) && can_respond (csubs (cstep (cv s) (RunC c0)) c0));
      cbn [fst snd Core.cv Core.conns fold_left];
      rewrite set_conn_neq by exact Hne; (split; [reflexivity|split]).
    + rewrite (eff_local_other _ _ c0) by (try reflexivity; exact Hne).
      apply (eff_local_other _ _ c0); [reflexivity|exact Hne].
    + apply Forall_app. split; [exact Hev|]. apply respond_out_ne. exact Hne'.
    + apply (eff_local_other _ _ c0); [reflexivity|exact Hne].
    + apply Forall_app. split; [exact Hev|constructor].
Qed.

Lemma grantconn_global s c0 :
  crsubs (cv (fst (kstep s (GrantConn c0)))) = crsubs (cv s) /\
  Core.getreq val upd (fst (kstep s (GrantConn c0))) = Core.getreq val upd s /\
  (Core.mqsub val upd (fst (kstep s (GrantConn c0))) = false ->
   Core.mqsub val upd s = false /\ cqe (cv (fst (kstep s (GrantConn c0)))) = cqe (cv s)).
Proof.
  unfold Core.step, Core.acts_of. cbv zeta.
  destruct (Core.cqueue (conns s c0)) as [|[id| |] r] eqn:Eq.
  - cbn. auto.
  - destruct (Core.reqid (conns s c0)); cbn [fst snd Core.cv Core.mqsub Core.getreq fold_left].
    + auto.
    + destruct (eff_subscribe (cv s) c0) as (_ & _ & _ & _ & _ & _ & _ & _ & E).
      split; [exact E|split; [reflexivity|discriminate]].
  - destruct (can_respond (csubs (cv s) c0)); cbn [fst snd Core.cv Core.mqsub Core.getreq fold_left]; [|auto].
    match goal with |- context [cstep ?σ ?a] => destruct (eff_local_res σ a I) as [A B] end.
    rewrite A, B. auto.
  - destruct (eff_local_res (cv s) (RunC c0) I) as [A B].
    destruct (Core.granted (conns s c0) && can_respond (csubs (cstep (cv s) (RunC c0)) c0));
      cbn [fst snd Core.cv Core.mqsub Core.getreq fold_left].
    + match goal with |- context [cstep ?σ (Respond ?a ?b)] => destruct (eff_local_res σ (Respond a b) I) as [A' B'] end.
      rewrite A', B', A, B. auto.
    + rewrite A, B. auto.
Qed.

(* connection workers never touch the access answers waiting in the resource queue *)
Lemma grantconn_nop s c0 c :
  Conv.cnt (is_nop c) (cqe (cv (fst (kstep s (GrantConn c0))))) = Conv.cnt (is_nop c) (cqe (cv s)).
Proof.
  unfold Core.step, Core.acts_of. cbv zeta.
  destruct (Core.cqueue (conns s c0)) as [|[id| |] r] eqn:Eq.
  - reflexivity.
  - destruct (Core.reqid (conns s c0)); cbn [fst snd Core.cv fold_left]; [reflexivity|].
    cbn [Conv.step]. destruct (ysubd (csubs (cv s) c0)); [reflexivity|].
    cbn [Conv.qe]. apply cnt_nop_snoc_other. reflexivity.
  - destruct (can_respond (csubs (cv s) c0)); cbn [fst snd Core.cv fold_left]; [|reflexivity].
    match goal with |- context [cstep ?σ ?a] => destruct (eff_local_res σ a I) as [A B] end.
    rewrite A. reflexivity.
  - destruct (eff_local_res (cv s) (RunC c0) I) as [A B].
    destruct (Core.granted (conns s c0) && can_respond (csubs (cstep (cv s) (RunC c0)) c0));
      cbn [fst snd Core.cv fold_left].
    + match goal with |- context [cstep ?σ (Respond ?a ?b)] => destruct (eff_local_res σ (Respond a b) I) as [A' B'] end.
      rewrite A', A. reflexivity.
    + rewrite A. reflexivity.
Qed.

Lemma grantconn_self ops s outs c : SI ops s outs ->
  CI (ops ++ [GrantConn c]) (conns (fst (kstep s (GrantConn c))) c) (csubs (cv (fst (kstep s (GrantConn c)))) c)
     (outs ++ snd (kstep s (GrantConn c))) c (Conv.cnt (is_nop c) (cqe (cv (fst (kstep s (GrantConn c)))))).
Proof.
  intros [[G0 G1 G2] HC]. specialize (HC c). rewrite grantconn_nop.
  unfold Core.step, Core.acts_of. cbv zeta.
  destruct (Core.cqueue (conns s c)) as [|[id| |] r] eqn:Eq.
  - cbn [fst snd]. eapply CI_idle; [exact HC|reflexivity|reflexivity].
  - destruct (Core.reqid (conns s c)) as [id0|] eqn:Er; cbn [fst snd Core.cv Core.conns fold_left];
      rewrite set_conn_eq.
    + apply (gc_req_some ops (conns s c) (csubs (cv s) c) outs c _ id r HC Eq). congruence.
    + rewrite <- Eq. apply (gc_req_none ops (conns s c) (csubs (cv s) c) outs c _ (cv s) id r); auto.
      destruct (Core.mqsub val upd s); repeat constructor.
  - cbn [fst snd Core.cv Core.conns]. rewrite set_conn_eq. rewrite <- Eq.
    apply (gc_acc ops (conns s c) (csubs (cv s) c) outs c _ (cv s) r (can_respond (csubs (cv s) c))); auto.
  - cbn [fst snd Core.cv Core.conns]. rewrite set_conn_eq.
    eapply (gc_sub ops (conns s c) (csubs (cv s) c) outs c _ (cv s) r (cstep (cv s) (RunC c))
             (Core.granted (conns s c) && can_respond (csubs (cstep (cv s) (RunC c)) c)));
      [exact G0|reflexivity|exact HC|exact Eq|reflexivity|reflexivity|reflexivity|reflexivity|reflexivity].
Qed.

Lemma si_grantconn ops s outs c0 : SI ops s outs ->
  SI (ops ++ [GrantConn c0]) (fst (kstep s (GrantConn c0))) (outs ++ snd (kstep s (GrantConn c0))).
Proof.
  intros HS. pose proof HS as [[G0 G1 G2] HC]. split.
  - destruct (grantconn_global s c0) as (A & B & C). constructor.
    + rewrite step_cv. apply inv_fold. exact G0.
    + intros Hm. destruct (C Hm) as [Hm0 Hq]. destruct (G1 Hm0) as (X & Y & Z).
      rewrite Hq, A, B. auto.
    + intros c. rewrite A, B. apply G2.
  - intros c. destruct (Nat.eq_dec c c0) as [->|Hne].
    + apply grantconn_self. exact HS.
    + destruct (grantconn_other s c0 c Hne) as (A & B & C).
      apply (CI_frame ops _ _ outs c _ _ _ _ _ _ (HC c)); rewrite ?A, ?B; try reflexivity.
      * apply grantconn_nop.
      * left. split; reflexivity.
      * apply same_refl.
      * apply first_req_snoc. reflexivity.
      * exact C.
Qed.

Lemma step_SI ops s outs o : SI ops s outs -> SI (ops ++ [o]) (fst (kstep s o)) (outs ++ snd (kstep s o)).
Proof.
  intros HS. destruct o as [c id|c| |u| | |c].
  - apply si_csub. exact HS.
  - apply si_mqaccess. exact HS.
  - apply si_mqget. exact HS.
  - apply (si_mqev ops s outs (Core.MqEvent upd u) (Conv.SvcUpdate upd u)); [exact I|reflexivity|exact HS].
  - apply (si_mqev ops s outs (Core.MqCustom upd) (Conv.SvcCustom upd)); [exact I|reflexivity|exact HS].
  - apply si_grantes. exact HS.
  - apply si_grantconn. exact HS.
Qed.

Lemma exec_snoc_pair t ops o :
  exec t (ops ++ [o]) = (fst (kstep (fst (exec t ops)) o), snd (exec t ops) ++ snd (kstep (fst (exec t ops)) o)).
Proof.
  unfold Core.exec. rewrite fold_left_app. cbn [fold_left].
  destruct (fold_left (Core.exec1 val upd app norm) ops (Core.init val upd d t, [])) as [s outs].
  cbn [Core.exec1 fst snd]. destruct (kstep s o) as [s' o']. reflexivity.
Qed.

Lemma init_SI t : SI [] (Core.init val upd d t) [].
Proof.
  split.
  - constructor; cbn.
    + apply Conv.init_inv.
    + auto.
    + discriminate.
  - intros c. constructor; cbn; auto; try discriminate; try tauto.
    split; [discriminate|congruence].
Qed.

Theorem exec_SI t ops : SI ops (fst (exec t ops)) (snd (exec t ops)).
Proof.
  induction ops as [|o ops IH] using rev_ind.
  - apply init_SI.
  - rewrite exec_snoc_pair. cbn [fst snd]. apply step_SI. exact IH.
Qed.


(* ---------------- consequences ---------------- *)
Lemma sent_reqid ops x y outs c nq : CI ops x y outs c nq -> ysent y = true ->
  Core.aans x = true /\ exists id, Core.reqid x = Some id.
Proof.
  intros [K1 K3 K5 K7a K7b K8a K8b K9a K9b K9c K9d K10 KV KR] Hs.
  rewrite Hs in K1. symmetry in K1. apply andb_prop in K1. destruct K1 as [Hg _].
  rewrite Hg in K8a. cbn in K8a.
  assert (Haa : Core.aans x = true) by (destruct (Core.aans x); [reflexivity|cbn in K8a; lia]).
  split; [exact Haa|].
  rewrite (K8b Haa) in K7b. destruct (Core.reqid x) as [id|]; [exists id; reflexivity|discriminate].
Qed.

Lemma quiescent_facts t ops c :
  let s := fst (exec t ops) in
  quiescent s -> Core.asked (conns s c) = true ->
  ysent (csubs (cv s) c) = true /\ ysval (csubs (cv s) c) = Conv.truth val upd (cv s).
Proof.
  intros s (Hqe & Hcq & Hget & Hacc) Hask.
  destruct (exec_SI t ops) as [[G0 G1 G2] HC]. fold s in G0, G1, G2, HC.
  destruct (HC c) as [K1 K3 K5 K7a K7b K8a K8b K9a K9b K9c K9d K10 KV KR].
  specialize (Hcq c). rewrite Hcq in *.
  assert (Hr : Core.reqid (conns s c) <> None).
  { destruct (K9d Hask) as [H|[id []]]. exact H. }
  assert (Har : Core.areq (conns s c) = true).
  { rewrite K7b. destruct (Core.reqid (conns s c)); [reflexivity|congruence]. }
  assert (Haa : Core.aans (conns s c) = true) by (apply Hacc; exact Har).
  rewrite Haa, Hqe in K8a. cbn in K8a.
  assert (Hg : Core.granted (conns s c) = true) by (destruct (Core.granted (conns s c)); [reflexivity|cbn in K8a; lia]).
  rewrite Har in K7a.
  pose proof (Conv.i3 _ _ _ _ G0 c) as H3. rewrite Hqe, K7a in H3. cbn in H3.
  assert (Hm : Conv.mem c (crsubs (cv s)) = true) by (destruct (Conv.mem c (crsubs (cv s))); [reflexivity|cbn in H3; lia]).
  pose proof (Hget (G2 c Hm)) as Hans.
  pose proof (Conv.i2 _ _ _ _ G0) as H2. rewrite Hqe, Hans in H2. cbn in H2.
  assert (Hrl : Conv.rs_loaded val upd (cv s) = true)
    by (destruct (Conv.rs_loaded val upd (cv s)); [reflexivity|cbn in H2; lia]).
  cbn in K3.
  assert (Hq0 : ycq (csubs (cv s) c) = []) by (destruct (ycq (csubs (cv s) c)); [reflexivity|cbn in K3; lia]).
  pose proof (Conv.i4 _ _ _ _ G0 c) as H4. rewrite Hq0, Hm, Hrl in H4. cbn in H4.
  assert (Hl : yloaded (csubs (cv s) c) = true)
    by (destruct (yloaded (csubs (cv s) c)); [reflexivity|cbn in H4; lia]).
  assert (Hs : ysent (csubs (cv s) c) = true) by (rewrite K1, Hg, Hl; reflexivity).
  split; [exact Hs|].
  pose proof (Conv.i8 _ _ _ _ G0 c (K5 Hs)) as He.
  pose proof (Conv.i5 _ _ _ _ G0 c Hl) as H5. rewrite He, Hq0 in H5. cbn in H5.
  pose proof (Conv.i1 _ _ _ _ G0) as H1. rewrite Hqe, Hrl, Hans in H1. cbn in H1.
  congruence.
Qed.

Theorem core_view : forall t ops c,
  let s := fst (exec t ops) in let outs := snd (exec t ops) in
  view c outs = if Conv.sent val upd (csubs (cv s) c) then Some (Conv.sval val upd (csubs (cv s) c)) else None.
Proof.
  intros t ops c s outs. destruct (exec_SI t ops) as [_ HC]. apply (kv _ _ _ _ _ _ (HC c)).
Qed.

Theorem core_convergence : forall t ops c,
  let s := fst (exec t ops) in let outs := snd (exec t ops) in
  quiescent s -> Core.asked (conns s c) = true -> view c outs = Some (Conv.truth val upd (cv s)).
Proof.
  intros t ops c s outs Hq Ha.
  destruct (quiescent_facts t ops c Hq Ha) as [Hs Hv]. fold s in Hs, Hv.
  unfold outs. rewrite core_view. fold s. rewrite Hs, Hv. reflexivity.
Qed.

Theorem core_one_response : forall t ops c,
  let s := fst (exec t ops) in let outs := snd (exec t ops) in
  length (resps c outs) <= 1 /\
  (forall id, In id (resps c outs) -> Core.first_req upd c ops = Some id) /\
  (quiescent s -> resps c outs = match Core.first_req upd c ops with Some id => [id] | None => [] end).
Proof.
  intros t ops c s outs.
  destruct (exec_SI t ops) as [_ HC]. fold s outs in HC. specialize (HC c).
  pose proof (kr _ _ _ _ _ _ HC) as KR.
  pose proof (k9c _ _ _ _ _ _ HC) as K9c.
  pose proof (k9a _ _ _ _ _ _ HC) as K9a.
  pose proof (sent_reqid _ _ _ _ _ _ HC) as Hsr.
  split; [|split].
  - rewrite KR. destruct (ysent (csubs (cv s) c)); cbn; lia.
  - intros id Hin. rewrite KR in Hin. destruct (ysent (csubs (cv s) c)); [|destruct Hin].
    destruct (Hsr eq_refl) as [_ [id' Hid]]. unfold Core.rid_of in Hin. rewrite Hid in Hin.
    destruct Hin as [<-|[]]. apply K9c. exact Hid.
  - intros Hq. rewrite KR. destruct (first_req c ops) as [id|] eqn:Ef.
    + assert (Ha : Core.asked (conns s c) = true) by (apply K9a; congruence).
      destruct (quiescent_facts t ops c Hq Ha) as [Hs _]. fold s in Hs. rewrite Hs.
      destruct (Hsr Hs) as [_ [id' Hid]]. unfold Core.rid_of. rewrite Hid.
      specialize (K9c id' Hid). congruence.
    + destruct (ysent (csubs (cv s) c)); [|reflexivity].
      destruct (Hsr eq_refl) as [_ [id' Hid]]. specialize (K9c id' Hid). congruence.
Qed.

Theorem core_response_needs_grant : forall t ops c,
  resps c (snd (exec t ops)) <> [] -> In (Core.MqAccess upd c) ops.
Proof.
  intros t ops c Hne.
  destruct (exec_SI t ops) as [_ HC]. specialize (HC c).
  pose proof (kr _ _ _ _ _ _ HC) as KR.
  destruct (ysent (csubs (cv (fst (exec t ops))) c)) eqn:Hs; [|congruence].
  destruct (sent_reqid _ _ _ _ _ _ HC Hs) as [Haa _].
  apply (k10 _ _ _ _ _ _ HC). exact Haa.
Qed.

End CoreProofs.

Print Assumptions run_exec.
Print Assumptions core_reachable_conv.
Print Assumptions core_conv_inv.
Print Assumptions core_get_once_under_subscription.
Print Assumptions core_view.
Print Assumptions core_convergence.
Print Assumptions core_one_response.
Print Assumptions core_response_needs_grant.
