(* C15 / C12: properties of the cache-side model of one resource (Comp/ResSub.v). *)
From Coq Require Import List Arith ZArith Bool Lia.
From RG Require Import Base.Value Pure.Lcs Pure.LcsTab Pure.ModelDiff Comp.ResSub.
Import ListNotations.

(* events that are malformed or inapplicable to the cached resource *)
Definition inapplicable (r : rs) (e : sev) : bool :=
  match e, cont r with
  | EChangeBad, _ | EAddBad, _ | ERemoveBad, _ => true
  | EChange _, CColl _ => true
  | EAdd _ _, CModel _ => true
  | ERemove _, CModel _ => true
  | EAdd idx v, CColl vs => negb (is_proper v) || (idx <? 0)%Z || (Z.of_nat (length vs) <? idx)%Z
  | ERemove idx, CColl vs => (idx <? 0)%Z || (Z.of_nat (length vs) <=? idx)%Z
  | _, _ => false
  end.

(* C15: a malformed or inapplicable service event is discarded as a whole: the cached content and its version are
   unchanged, nothing is handed to any subscriber, the use count is untouched; only a log line may be written *)
Theorem inapplicable_discarded : forall r e,
  inapplicable r e = true ->
  let '(r', out) := handle_event r e in
  cont r' = cont r /\ version r' = version r /\ out = [] /\ nsubs r' = nsubs r /\ count r' = count r /\ resetting r' = resetting r.
Proof.
  intros r e H. unfold inapplicable in H. unfold handle_event.
  destruct e as [props| |idx v| |idx| | |n|]; destruct (cont r) as [m|vs] eqn:Ec; try discriminate H;
    destruct (resetting r) eqn:Er; cbn; try rewrite Ec; auto 10.
  - (* add on collection, bad value or index *)
    destruct (is_proper v); cbn in H |- *; [|auto 10].
    destruct ((idx <? 0)%Z || (Z.of_nat (length vs) <? idx)%Z); [cbn; auto 10|discriminate H].
  - (* remove on collection, bad index *)
    rewrite H. cbn. auto 10.
Qed.

(* ... and the next valid event applies normally, because the state it sees is the state before the bad one *)
Corollary valid_after_inapplicable : forall r e,
  inapplicable r e = true ->
  let r1 := fst (handle_event r e) in
  cont r1 = cont r /\ version r1 = version r /\ resetting r1 = resetting r /\ nsubs r1 = nsubs r.
Proof.
  intros r e H. pose proof (inapplicable_discarded r e H) as D.
  destruct (handle_event r e) as [r' out]. cbn. tauto.
Qed.

(* the version counts exactly the update events handed out: every emitted change/add/remove is stamped with the
   version before it and bumps the version by one *)
Theorem update_bumps_version : forall r e r' o,
  handle_event r e = (r', [o]) ->
  match o with
  | OChange v _ | OAdd v _ _ | ORemove v _ _ => v = version r /\ version r' = S (version r)
  | ODelete v | OCustom v _ | OReaccess v => v = version r /\ version r' = version r
  end.
Proof.
  intros r e r' o H. unfold handle_event in H.
  destruct e as [props| |idx v| |idx| | |n|]; destruct (cont r) as [m|vs] eqn:Ec; destruct (resetting r) eqn:Er;
    cbn in H; try rewrite Ec in H; try discriminate H; unfold emit in H.
  all: repeat match type of H with
       | context [let '(_, _) := ?x in _] => destruct x
       | context [match ?x with _ => _ end] => destruct x eqn:?
       end; cbn in H; try discriminate H; inversion H; subst; cbn; auto.
Qed.
