(* Theorems about the response decoder model Pure/RespDec.v. *)
From Coq Require Import List Ascii String Bool Arith.
From RG Require Import Pure.Rid Pure.ValueDec Pure.RespDec.
Import ListNotations.

(* A get answer is accepted as a model only if it is well-formed, carries no error, has a result with a
   model and NO collection, and every value is proper (no delete action, nothing the value decoder rejects). *)
Theorem get_model_sound : forall p n,
  decode_get p = GModel n ->
  gp_syntax_ok p = true /\ gp_error p = None /\
  exists m, gp_result p = Some {| g_model := Some m; g_coll := None |} /\ List.length m = n /\
            forall v, In v m -> proper v = true.
Proof.
  intros p n H. unfold decode_get in H.
  destruct (gp_syntax_ok p); cbn [negb] in H; [|discriminate H].
  destruct (match gp_result p with Some r => existsb rejected (values_of r) | None => false end); [discriminate H|].
  destruct (gp_error p); [discriminate H|].
  destruct (gp_result p) as [[gm gc]|]; [|discriminate H]. cbn [g_model g_coll] in H.
  destruct gm as [m|], gc as [c|]; try discriminate H.
  - destruct (forallb proper m) eqn:F; [|discriminate H]. inversion H; subst.
    repeat split; auto. exists m. repeat split; auto. intros v Hv. rewrite forallb_forall in F. auto.
  - destruct (forallb proper c); discriminate H.
Qed.

Theorem get_coll_sound : forall p n,
  decode_get p = GColl n ->
  gp_syntax_ok p = true /\ gp_error p = None /\
  exists c, gp_result p = Some {| g_model := None; g_coll := Some c |} /\ List.length c = n /\
            forall v, In v c -> proper v = true.
Proof.
  intros p n H. unfold decode_get in H.
  destruct (gp_syntax_ok p); cbn [negb] in H; [|discriminate H].
  destruct (match gp_result p with Some r => existsb rejected (values_of r) | None => false end); [discriminate H|].
  destruct (gp_error p); [discriminate H|].
  destruct (gp_result p) as [[gm gc]|]; [|discriminate H]. cbn [g_model g_coll] in H.
  destruct gm as [m|], gc as [c|]; try discriminate H.
  - destruct (forallb proper m); discriminate H.
  - destruct (forallb proper c) eqn:F; [|discriminate H]. inversion H; subst.
    repeat split; auto. exists c. repeat split; auto. intros v Hv. rewrite forallb_forall in F. auto.
Qed.

(* Completeness: a well-formed answer without error whose result has exactly a model of proper values is accepted. *)
Theorem get_model_complete : forall m,
  (forall v, In v m -> proper v = true) ->
  decode_get {| gp_syntax_ok := true; gp_error := None; gp_result := Some {| g_model := Some m; g_coll := None |} |} = GModel (List.length m).
Proof.
  intros m H. unfold decode_get, values_of. cbn [gp_syntax_ok negb gp_result gp_error g_model g_coll].
  rewrite app_nil_r.
  assert (E : existsb rejected m = false).
  { destruct (existsb rejected m) eqn:X; [|reflexivity]. apply existsb_exists in X as [v [Hv Hr]].
    specialize (H v Hv). destruct v; cbn in *; discriminate. }
  rewrite E. assert (F : forallb proper m = true) by (apply forallb_forall; exact H). rewrite F. reflexivity.
Qed.

(* A well-formed answer carrying an error yields that error whatever else it carries. *)
Theorem get_error_wins : forall p e,
  decode_get p = GService e <-> (gp_syntax_ok p = true /\ gp_error p = Some e /\
     match gp_result p with Some r => existsb rejected (values_of r) | None => false end = false).
Proof.
  intros p e. unfold decode_get.
  destruct (gp_syntax_ok p); cbn [negb]; [|split; [discriminate|intros [X _]; discriminate X]].
  destruct (match gp_result p with Some r => existsb rejected (values_of r) | None => false end);
    [split; [discriminate|intros [_ [_ X]]; discriminate X]|].
  destruct (gp_error p) as [e'|].
  - split; [intros H; inversion H; auto|intros [_ [H _]]; inversion H; reflexivity].
  - split; [|intros [_ [H _]]; discriminate H].
    destruct (gp_result p) as [[gm gc]|]; [|discriminate]. cbn [g_model g_coll].
    destruct gm as [m|], gc as [c|]; try discriminate.
    + destruct (forallb proper m); discriminate.
    + destruct (forallb proper c); discriminate.
Qed.

(* call / auth / new: a resource response is produced only for a valid rid and no error; the four outcomes
   are decided in the order error, resource, result. *)
Theorem call_resource_sound : forall p r,
  decode_call p = CResource r ->
  cp_syntax_ok p = true /\ cp_error p = None /\ cp_resource p = Some r /\ is_valid_rid r true = true.
Proof.
  intros p r H. unfold decode_call in H.
  destruct (cp_syntax_ok p); cbn [negb] in H; [|discriminate H].
  destruct (cp_error p); [discriminate H|].
  destruct (cp_resource p) as [r'|].
  - destruct (is_valid_rid r' true) eqn:V; [|discriminate H]. inversion H; subst. auto.
  - destruct (cp_result p); discriminate H.
Qed.

Theorem call_result_sound : forall p id,
  decode_call p = CResult id ->
  cp_syntax_ok p = true /\ cp_error p = None /\ cp_resource p = None /\ cp_result p = Some id.
Proof.
  intros p id H. unfold decode_call in H.
  destruct (cp_syntax_ok p); cbn [negb] in H; [|discriminate H].
  destruct (cp_error p); [discriminate H|].
  destruct (cp_resource p) as [r'|].
  - destruct (is_valid_rid r' true); discriminate H.
  - destruct (cp_result p); [inversion H; subst; auto|discriminate H].
Qed.

Theorem call_error_wins : forall p e,
  cp_syntax_ok p = true -> cp_error p = Some e -> decode_call p = CService e.
Proof. intros p e S E. unfold decode_call. rewrite S, E. reflexivity. Qed.

Example ex_get_both : decode_get {| gp_syntax_ok := true; gp_error := None;
    gp_result := Some {| g_model := Some []; g_coll := Some [] |} |} = GInvalid.
Proof. reflexivity. Qed.
Example ex_get_delete : decode_get {| gp_syntax_ok := true; gp_error := None;
    gp_result := Some {| g_model := Some [OPrimTop; ODelete]; g_coll := None |} |} = GInvalid.
Proof. reflexivity. Qed.
Example ex_get_ok : decode_get {| gp_syntax_ok := true; gp_error := None;
    gp_result := Some {| g_model := None; g_coll := Some [OPrimTop; ORef (s2l "a.b")] |} |} = GColl 2.
Proof. reflexivity. Qed.
