(* Theorems about the subscription machine Comp/SubFsm.v, for every state and every operation sequence. *)
From Coq Require Import List Arith Bool Lia Permutation.
From RG Require Import Comp.SubFsm.
Import ListNotations.

(* ids of request continuations *)
Definition cont_ids (l : list cont) : list nat :=
  flat_map (fun k => match k with KGet n | KCall n => [n] | KValidate => [] end) l.
Definition obs_ids (l : list obs) : list nat :=
  flat_map (fun o => match o with OCont n _ => [n] | _ => [] end) l.
Definition has_event (l : list obs) : bool :=
  existsb (fun o => match o with OEvent _ => true | _ => false end) l.

Lemma cont_ids_app a b : cont_ids (a ++ b) = cont_ids a ++ cont_ids b.
Proof. apply flat_map_app. Qed.
Lemma obs_ids_app a b : obs_ids (a ++ b) = obs_ids a ++ obs_ids b.
Proof. apply flat_map_app. Qed.
Lemma has_event_app a b : has_event (a ++ b) = has_event a || has_event b.
Proof. apply existsb_app. Qed.

(* ---- the helpers neither run nor lose request continuations *)

Definition quiet (f : sub -> sub * list obs) : Prop :=
  forall s, obs_ids (snd (f s)) = [] /\ cont_ids (acbs (fst (f s))) = cont_ids (acbs s).

Lemma dispose_quiet : quiet dispose.
Proof. intros s. unfold dispose. destruct (st s); cbn; try (split; reflexivity); destruct (hasrs s); cbn; split; reflexivity. Qed.

Lemma remove_direct_quiet n : quiet (fun s => remove_direct s n).
Proof.
  intros s. unfold remove_direct. destruct (direct s =? 0); [split; reflexivity|]. cbn [direct].
  destruct (0 <? direct s - n); [split; reflexivity|].
  match goal with |- context [dispose ?x] =>
    destruct (dispose_quiet x) as [H1 H2]; destruct (dispose x) as [s2 o]; cbn [fst snd] in *; split; [exact H1|exact H2] end.
Qed.

Lemma unsubscribe_direct_quiet v : quiet (fun s => unsubscribe_direct s v).
Proof.
  intros s. unfold unsubscribe_direct. destruct (0 <? direct s); [|split; reflexivity].
  destruct (remove_direct_quiet (direct s) s) as [H1 H2]. destruct (remove_direct s (direct s)) as [s2 o]. cbn [fst snd] in *.
  split; [rewrite obs_ids_app, H1; reflexivity|exact H2].
Qed.

Lemma process_event_quiet e : quiet (fun s => process_event s e).
Proof.
  intros s. destruct e; cbn [process_event]; [split; reflexivity|].
  match goal with |- context [unsubscribe_direct ?x VDeleted] =>
    destruct (unsubscribe_direct_quiet VDeleted x) as [H1 H2]; destruct (unsubscribe_direct x VDeleted) as [s2 o];
    cbn [fst snd] in *; split; [exact H1|exact H2] end.
Qed.

Lemma load_validate_quiet : quiet (fun s => let '(s', o, _) := load_access s KValidate in (s', o)).
Proof.
  intros s. unfold load_access. destruct (acc s); [split; reflexivity|].
  destruct (fCalled s); cbn; rewrite cont_ids_app; cbn; rewrite app_nil_r; split; reflexivity.
Qed.

Lemma handle_reaccess_quiet : quiet handle_reaccess.
Proof.
  intros s. unfold handle_reaccess. cbn [direct]. destruct (direct s =? 0); [split; reflexivity|].
  match goal with |- context [load_access ?x KValidate] =>
    pose proof (load_validate_quiet x) as H; cbv beta in H; destruct (load_access x KValidate) as [[s2 o] n]; exact H end.
Qed.

Lemma drain_events_quiet l : quiet (fun s => drain_events s l).
Proof.
  induction l as [|e l IH]; intros s; cbn [drain_events]; [split; reflexivity|].
  destruct (process_event_quiet e s) as [H1 H2]. destruct (process_event s e) as [s1 o1]. cbn [fst snd] in H1, H2.
  destruct (st s1) eqn:Est; try (split; assumption);
    (destruct (queueing s1); [cbn [fst snd acbs]; split; assumption|];
     destruct (IH s1) as [H3 H4]; destruct (drain_events s1 l) as [s2 o2]; cbn [fst snd] in *;
     split; [rewrite obs_ids_app, H1, H3; reflexivity|congruence]).
Qed.

Lemma unqueue_quiet b : quiet (fun s => unqueue s b).
Proof.
  intros s. unfold unqueue.
  match goal with |- context [queueing ?x] => set (s1 := x) end.
  assert (Hs1 : cont_ids (acbs s1) = cont_ids (acbs s)) by reflexivity.
  destruct (queueing s1); [split; [reflexivity|exact Hs1]|].
  assert (H : obs_ids (snd (if fReacc s1 then handle_reaccess s1 else (s1, []))) = [] /\
              cont_ids (acbs (fst (if fReacc s1 then handle_reaccess s1 else (s1, [])))) = cont_ids (acbs s)).
  { destruct (fReacc s1); [destruct (handle_reaccess_quiet s1); split; congruence|split; [reflexivity|exact Hs1]]. }
  destruct (if fReacc s1 then handle_reaccess s1 else (s1, [])) as [s2 o1]. cbn [fst snd] in H. destruct H as [H1 H2].
  destruct (queueing s2); [split; assumption|].
  match goal with |- context [drain_events ?x ?l] =>
    destruct (drain_events_quiet l x) as [H3 H4]; destruct (drain_events x l) as [s4 o2]; cbn [fst snd acbs] in * end.
  split; [rewrite obs_ids_app, H1, H3; reflexivity|congruence].
Qed.

(* running one continuation reports exactly its id, and keeps the list *)
Lemma run_cont_ids s k a :
  obs_ids (snd (run_cont s k a)) = cont_ids [k] /\ cont_ids (acbs (fst (run_cont s k a))) = cont_ids (acbs s).
Proof.
  destruct k; cbn; try (split; reflexivity).
  assert (H : obs_ids (snd (match can_get a with VOk => (s, []) | v => unsubscribe_direct s v end)) = [] /\
              cont_ids (acbs (fst (match can_get a with VOk => (s, []) | v => unsubscribe_direct s v end))) = cont_ids (acbs s)).
  { destruct (can_get a); try (split; reflexivity); apply unsubscribe_direct_quiet. }
  destruct (match can_get a with VOk => (s, []) | v => unsubscribe_direct s v end) as [s1 o1]. cbn [fst snd] in H. destruct H as [H1 H2].
  destruct (unqueue_quiet false s1) as [H3 H4]. destruct (unqueue s1 false) as [s2 o2]. cbn [fst snd] in *.
  split; [rewrite obs_ids_app, H1, H3; reflexivity|congruence].
Qed.

Lemma run_conts_ids ks : forall s a,
  obs_ids (snd (run_conts s ks a)) = cont_ids ks /\ cont_ids (acbs (fst (run_conts s ks a))) = cont_ids (acbs s).
Proof.
  induction ks as [|k ks IH]; intros s a; cbn [run_conts]; [split; reflexivity|].
  destruct (run_cont_ids s k a) as [H1 H2]. destruct (run_cont s k a) as [s1 o1]. cbn [fst snd] in H1, H2.
  destruct (IH s1 a) as [H3 H4]. destruct (run_conts s1 ks a) as [s2 o2]. cbn [fst snd] in *.
  split; [rewrite obs_ids_app, H1, H3; unfold cont_ids; cbn [flat_map]; rewrite app_nil_r; reflexivity|congruence].
Qed.

Definition op_ids (o : op) : list nat := match o with OpGet k | OpCall k => [k] | _ => [] end.

(* one operation: the continuations run plus those still waiting are those that waited plus the one registered *)
Lemma step_ids s o :
  Permutation (obs_ids (snd (step s o)) ++ cont_ids (acbs (fst (step s o)))) (cont_ids (acbs s) ++ op_ids o).
Proof.
  assert (Hq : forall f, quiet f -> Permutation (obs_ids (snd (f s)) ++ cont_ids (acbs (fst (f s)))) (cont_ids (acbs s) ++ [])).
  { intros f H. destruct (H s) as [H1 H2]. rewrite H1, H2, app_nil_r. reflexivity. }
  destruct o as [k|k|k| | | |e| |a| |n]; cbn [step op_ids].
  - (* get *)
    unfold load_access. destruct (acc s) as [a|].
    + cbn. apply Permutation_cons_append.
    + destruct (fCalled s); cbn; rewrite cont_ids_app; cbn; reflexivity.
  - (* call *)
    unfold load_access. destruct (acc s) as [a|].
    + cbn. apply Permutation_cons_append.
    + destruct (fCalled s); cbn; rewrite cont_ids_app; cbn; reflexivity.
  - destruct (2 <=? sst_num (st s)); cbn; rewrite app_nil_r; reflexivity.
  - destruct (st s); cbn; rewrite ?app_nil_r; try reflexivity;
      (assert (E : forall l, obs_ids (map OReady l) = []) by (induction l; cbn; auto); rewrite E; reflexivity).
  - destruct (st s); cbn; rewrite app_nil_r; reflexivity.
  - destruct (st s); try (cbn; rewrite app_nil_r; reflexivity);
      match goal with |- context [unqueue ?x true] => destruct (unqueue_quiet true x) as [H1 H2]; rewrite H1, H2; cbn; rewrite app_nil_r; reflexivity end.
  - destruct (negb (hasrs s)); [cbn; rewrite app_nil_r; reflexivity|].
    destruct (queueing s); [cbn; rewrite app_nil_r; reflexivity|].
    destruct (process_event_quiet e s) as [H1 H2]. rewrite H1, H2. cbn. rewrite app_nil_r. reflexivity.
  - destruct (st s); try (cbn; rewrite app_nil_r; reflexivity);
      (destruct (queueing s); [cbn; rewrite app_nil_r; reflexivity|];
       destruct (handle_reaccess_quiet s) as [H1 H2]; rewrite H1, H2; cbn; rewrite app_nil_r; reflexivity).
  - (* answer *)
    destruct (outst s =? 0); [cbn; rewrite app_nil_r; reflexivity|]. cbn [st].
    destruct (st s); try (cbn; rewrite app_nil_r; reflexivity);
      match goal with |- context [run_conts ?x ?ks a] => destruct (run_conts_ids ks x a) as [H1 H2]; rewrite H1, H2; cbn; rewrite !app_nil_r; reflexivity end.
  - destruct (reg s); [|cbn; rewrite app_nil_r; reflexivity].
    destruct (256 <=? direct s); cbn; rewrite app_nil_r; reflexivity.
  - destruct (negb (reg s) || (direct s <? n)); [cbn; rewrite app_nil_r; reflexivity|].
    destruct (remove_direct_quiet n s) as [H1 H2]. destruct (remove_direct s n) as [s1 o1]. cbn [fst snd] in *.
    change (obs_ids (OUnsubOk :: o1)) with (obs_ids o1). rewrite H1, H2, app_nil_r. reflexivity.
Qed.

Definition all_ids (ops : list op) : list nat := flat_map op_ids ops.

Lemma run_ids : forall ops s,
  Permutation (obs_ids (concat (snd (run s ops))) ++ cont_ids (acbs (fst (run s ops)))) (cont_ids (acbs s) ++ all_ids ops).
Proof.
  induction ops as [|o ops IH]; intros s; cbn [run all_ids flat_map].
  - cbn. rewrite app_nil_r. reflexivity.
  - pose proof (step_ids s o) as Hs. destruct (step s o) as [s1 ob]. cbn in Hs.
    pose proof (IH s1) as Hr. destruct (run s1 ops) as [s2 obs]. cbn in Hr. cbn [snd fst concat].
    rewrite obs_ids_app, <- app_assoc.
    rewrite Hr. rewrite app_assoc. rewrite Hs. rewrite <- app_assoc. reflexivity.
Qed.

(* C07 (exactly-once, the at-most-once half): whatever happens - cached or fresh verdicts, re-access triggers, revocation,
   disposal, late answers - a request continuation never runs twice, and only continuations that were registered run *)
Theorem continuation_at_most_once : forall ops,
  NoDup (all_ids ops) ->
  NoDup (obs_ids (concat (snd (run init ops)))) /\ incl (obs_ids (concat (snd (run init ops)))) (all_ids ops).
Proof.
  intros ops Hnd. pose proof (run_ids ops init) as H. cbn [acbs init cont_ids flat_map app] in H.
  assert (Hn : NoDup (obs_ids (concat (snd (run init ops))) ++ cont_ids (acbs (fst (run init ops))))).
  { eapply Permutation_NoDup; [symmetry; exact H|exact Hnd]. }
  split.
  - revert Hn. generalize (obs_ids (concat (snd (run init ops)))). intros l.
    induction l as [|x l IH]; cbn; intros Hn; [constructor|].
    inversion Hn as [|? ? Hx Hl]; subst. constructor; [intros Hin; apply Hx; apply in_or_app; left; exact Hin|apply IH, Hl].
  - intros x Hx. eapply Permutation_in; [exact H|]. apply in_or_app. left. exact Hx.
Qed.

(* C06: while a re-access check is pending, no operation but the answer delivers an event to the client *)
Theorem pending_recheck_blocks_events : forall s o,
  qR s = true -> (forall a, o <> OpAnswer a) -> has_event (snd (step s o)) = false.
Proof.
  intros s o Hq Hna. assert (Hqq : queueing s = true) by (unfold queueing; rewrite Hq; apply orb_true_r).
  destruct o as [k|k|k| | | |e| |a| |n]; cbn [step].
  - unfold load_access. destruct (acc s); [reflexivity|]. destruct (fCalled s); reflexivity.
  - unfold load_access. destruct (acc s); [reflexivity|]. destruct (fCalled s); reflexivity.
  - destruct (2 <=? sst_num (st s)); reflexivity.
  - destruct (st s); try reflexivity; cbn; induction (rcbs s); cbn; auto.
  - destruct (st s); reflexivity.
  - destruct (st s); try reflexivity; unfold unqueue, queueing; cbn [qL qR]; rewrite Hq; cbn [orb]; reflexivity.
  - destruct (negb (hasrs s)); [reflexivity|]. rewrite Hqq. reflexivity.
  - destruct (st s); try reflexivity; rewrite Hqq; reflexivity.
  - exfalso. apply (Hna a). reflexivity.
  - destruct (reg s); [|reflexivity]. destruct (256 <=? direct s); reflexivity.
  - destruct (negb (reg s) || (direct s <? n)); [reflexivity|].
    unfold remove_direct. destruct (direct s =? 0); [reflexivity|]. cbn [direct]. destruct (0 <? direct s - n); [reflexivity|].
    unfold dispose. cbn [st hasrs]. destruct (st s); cbn; try reflexivity; destruct (hasrs s); reflexivity.
Qed.

(* C04 / C06: a re-access trigger that is handled drops the cached verdict, arms the guard and leaves an access request
   outstanding whose answer will be validated *)
Theorem trigger_drops_verdict_and_arms_guard : forall s,
  st s <> Disposed -> queueing s = false -> 0 < direct s ->
  let s' := fst (step s OpReaccess) in
  acc s' = None /\ qR s' = true /\ fCalled s' = true /\ In KValidate (acbs s').
Proof.
  intros s Hst Hq Hd. cbn [step]. destruct (st s) eqn:E; try congruence; rewrite Hq;
    unfold handle_reaccess; cbn [direct]; (destruct (Nat.eqb_spec (direct s) 0) as [H0|H0]; [lia|]);
    unfold load_access; cbn [acc fCalled]; destruct (fCalled s); cbn; repeat split; auto; apply in_or_app; right; left; reflexivity.
Qed.

(* C04 / C06: ... and a trigger that arrives while the subscription is busy is remembered, not lost *)
Theorem trigger_while_busy_is_deferred : forall s,
  st s <> Disposed -> queueing s = true -> fReacc (fst (step s OpReaccess)) = true /\ snd (step s OpReaccess) = [].
Proof. intros s Hst Hq. cbn [step]. destruct (st s); try congruence; rewrite Hq; split; reflexivity. Qed.

Lemma unqueue_nothing_held : forall s b, direct s = 0 -> SubFsm.eq s = [] ->
  has_event (snd (unqueue s b)) = false /\ direct (fst (unqueue s b)) = 0 /\ reg (fst (unqueue s b)) = reg s /\ st (fst (unqueue s b)) = st s.
Proof.
  intros s b Hd He. unfold unqueue, queueing, handle_reaccess. cbn [qL qR fReacc direct st reg eq acc acbs fCalled rcbs hasrs outst].
  rewrite Hd, He.
  destruct b, (qL s), (qR s), (fReacc s); cbn; repeat split; auto.
Qed.

(* C06: a non-grant verdict of the re-check revokes every direct subscription with one unsubscribe event carrying the
   reason, unregisters the subscription and delivers none of the held events *)
Theorem nongrant_revokes_all : forall s a,
  st s <> Disposed -> 0 < outst s -> acbs s = [KValidate] -> 0 < direct s -> can_get a <> VOk ->
  let '(s', o) := step s (OpAnswer a) in
  In (OUnsubEvent (can_get a)) o /\ has_event o = false /\ direct s' = 0 /\ reg s' = false /\ st s' = Disposed.
Proof.
  intros s a Hst Ho Hk Hd Hg. cbn [step]. destruct (Nat.eqb_spec (outst s) 0) as [H0|H0]; [lia|]. cbn [st acbs].
  rewrite Hk.
  assert (Hcase : forall s1, st s1 <> Disposed -> 0 < direct s1 ->
            let '(s', o) := run_conts s1 [KValidate] a in
            In (OUnsubEvent (can_get a)) o /\ has_event o = false /\ direct s' = 0 /\ reg s' = false /\ st s' = Disposed).
  { intros s1 Hst1 Hd1. cbn [run_conts run_cont].
    assert (Hu : exists o1 s2, unsubscribe_direct s1 (can_get a) = (s2, o1 ++ [OUnsubEvent (can_get a)]) /\ has_event o1 = false /\
                               direct s2 = 0 /\ reg s2 = false /\ st s2 = Disposed /\ SubFsm.eq s2 = []).
    { unfold unsubscribe_direct. destruct (Nat.ltb_spec 0 (direct s1)) as [_|H]; [|lia].
      unfold remove_direct. destruct (Nat.eqb_spec (direct s1) 0) as [H|_]; [lia|]. cbn [direct].
      rewrite Nat.sub_diag. cbn [Nat.ltb Nat.leb]. unfold dispose. cbn [st hasrs].
      destruct (st s1) eqn:E; try congruence; cbn;
        (destruct (hasrs s1); eexists; eexists; (split; [reflexivity|]); cbn; repeat split; reflexivity). }
    destruct Hu as (o1 & s2 & Hu & He & Hd2 & Hr2 & Hs2 & Hq2).
    assert (Hm : match can_get a with VOk => (s1, []) | v => unsubscribe_direct s1 v end = (s2, o1 ++ [OUnsubEvent (can_get a)])).
    { destruct (can_get a); try congruence; exact Hu. }
    rewrite Hm.
    (* the unqueue that follows finds nothing to deliver: the subscription is disposed, its queue is empty *)
    destruct (unqueue_nothing_held s2 false Hd2 Hq2) as (He3 & Hd3 & Hr3' & Hs3').
    assert (Hr3 : reg (fst (unqueue s2 false)) = false) by congruence.
    assert (Hs3 : st (fst (unqueue s2 false)) = Disposed) by congruence.
    clear Hr3' Hs3'.
    destruct (unqueue s2 false) as [s3 o3]. cbn [fst snd] in *.
    cbn. rewrite app_nil_r. repeat split; try assumption.
    - apply in_or_app. left. apply in_or_app. right. left. reflexivity.
    - rewrite !has_event_app, He, He3. reflexivity. }
  destruct (st s) eqn:E; try congruence;
    match goal with |- context [run_conts ?x [KValidate] a] => apply (Hcase x); cbn; [congruence|exact Hd] end.
Qed.

(* The statement one would want for C04/C06 - every handled trigger is followed by an access request sent after it - is
   FALSE of the unchanged code (recorded finding KF-REACCESS-INFLIGHT): a trigger handled while an access request is in
   flight joins that request; its answer, requested before the trigger, then decides the re-check. *)
Theorem trigger_sends_request_refuted :
  exists ops, let '(s, _) := run init ops in
    st s = Sent /\ queueing s = false /\ 0 < direct s /\ snd (step s OpReaccess) = [] /\
    snd (step (fst (step s OpReaccess)) (OpAnswer AGrant)) = [OCont 1 VOk].
Proof. exists [OpLoaded; OpResources; OpRelease; OpGet 1]. vm_compute. repeat split; try reflexivity; lia. Qed.

(* non-vacuity: a history on which the revocation theorem applies *)
Example revocation_applies :
  let '(s, _) := run init [OpLoaded; OpResources; OpRelease; OpAdd; OpEvent (ECustom 1); OpReaccess; OpEvent (ECustom 2)] in
  st s <> Disposed /\ 0 < outst s /\ acbs s = [KValidate] /\ 0 < direct s /\
  snd (step s (OpAnswer ADeny)) = [ORelease; OUnsubEvent VAccessDenied].
Proof. vm_compute. repeat split; try reflexivity; try lia; discriminate. Qed.

(* C07 (the other half, where it holds): an access answer that reaches a subscription which is not disposed runs every
   continuation that was waiting - none is left behind *)
Theorem answer_runs_all_waiting : forall s a,
  st s <> Disposed -> 0 < outst s ->
  obs_ids (snd (step s (OpAnswer a))) = cont_ids (acbs s) /\ cont_ids (acbs (fst (step s (OpAnswer a)))) = [].
Proof.
  intros s a Hst Ho. cbn [step]. destruct (Nat.eqb_spec (outst s) 0) as [H0|_]; [lia|]. cbn [st acbs].
  destruct (st s) eqn:E; try congruence;
    match goal with |- context [run_conts ?x ?ks a] => destruct (run_conts_ids ks x a) as [H1 H2]; rewrite H1, H2; split; reflexivity end.
Qed.

(* ... but "every registered continuation eventually runs" is FALSE of the unchanged code (recorded finding
   KF-PENDING-DROPPED): a subscription disposed while a request waits for its access answer drops the continuation -
   the request is never answered. *)
Theorem every_continuation_runs_refuted :
  exists ops, NoDup (all_ids ops) /\ all_ids ops = [1] /\
    let '(s, o) := run init ops in obs_ids (concat o) = [] /\ outst s = 0 /\ cont_ids (acbs s) = [1].
Proof. exists [OpGet 1; OpUnsub 1; OpAnswer AGrant]. vm_compute. repeat split; try reflexivity. repeat constructor; intros []. Qed.
