// Package absval maps between the abstract values of the Coq models (Base/Value.v) and RES JSON.
package absval

import (
	"fmt"
	"sort"
	"strconv"
	"strings"

	"github.com/resgateio/resgate/server/codec"
)

// V is an abstract value: kind p(rimitive) r(eference) s(oft reference) d(ata) x(delete action).
type V struct {
	K byte
	N int
}

func (v V) String() string {
	if v.K == 'x' {
		return "x"
	}
	return string(v.K) + strconv.Itoa(v.N)
}

// RID is the resource id standing for abstract resource number n.
func RID(n int) string { return "test.r" + strconv.Itoa(n) }

// Key is the model key standing for abstract key number n.
func Key(n int) string { return "k" + strconv.Itoa(n) }

// JSON renders the value as the service would send it.
func (v V) JSON() string {
	switch v.K {
	case 'p':
		return strconv.Itoa(v.N)
	case 'r':
		return `{"rid":"` + RID(v.N) + `"}`
	case 's':
		return `{"rid":"` + RID(v.N) + `","soft":true}`
	case 'd':
		return `{"data":{"n":` + strconv.Itoa(v.N) + `}}`
	}
	return `{"action":"delete"}`
}

// FromCodec abstracts a decoded codec.Value.
func FromCodec(v codec.Value) V {
	switch v.Type {
	case codec.ValueTypePrimitive:
		n, err := strconv.Atoi(string(v.RawMessage))
		if err != nil {
			panic("absval: primitive " + string(v.RawMessage))
		}
		return V{'p', n}
	case codec.ValueTypeReference:
		return V{'r', ridNum(v.RID)}
	case codec.ValueTypeSoftReference:
		return V{'s', ridNum(v.RID)}
	case codec.ValueTypeData:
		s := string(v.Inner)
		s = strings.TrimSuffix(strings.TrimPrefix(s, `{"n":`), `}`)
		n, err := strconv.Atoi(s)
		if err != nil {
			panic("absval: data " + string(v.Inner))
		}
		return V{'d', n}
	case codec.ValueTypeDelete:
		return V{'x', 0}
	}
	panic(fmt.Sprintf("absval: value type %d", v.Type))
}

func ridNum(rid string) int {
	n, err := strconv.Atoi(strings.TrimPrefix(rid, "test.r"))
	if err != nil {
		panic("absval: rid " + rid)
	}
	return n
}

func keyNum(k string) int {
	n, err := strconv.Atoi(strings.TrimPrefix(k, "k"))
	if err != nil {
		panic("absval: key " + k)
	}
	return n
}

// KV is an abstract model (or change set), kept sorted by key.
type KV map[int]V

// String renders "k:v;k:v" sorted by key.
func (m KV) String() string {
	ks := make([]int, 0, len(m))
	for k := range m {
		ks = append(ks, k)
	}
	sort.Ints(ks)
	parts := make([]string, len(ks))
	for i, k := range ks {
		parts[i] = strconv.Itoa(k) + ":" + m[k].String()
	}
	return strings.Join(parts, ";")
}

// JSON renders the JSON object.
func (m KV) JSON() string {
	ks := make([]int, 0, len(m))
	for k := range m {
		ks = append(ks, k)
	}
	sort.Ints(ks)
	parts := make([]string, len(ks))
	for i, k := range ks {
		parts[i] = `"` + Key(k) + `":` + m[k].JSON()
	}
	return "{" + strings.Join(parts, ",") + "}"
}

// Codec builds the decoded map the cache would hold.
func (m KV) Codec() map[string]codec.Value {
	r := make(map[string]codec.Value, len(m))
	for k, v := range m {
		r[Key(k)] = v.Codec()
	}
	return r
}

// KVFromCodec abstracts a decoded map.
func KVFromCodec(m map[string]codec.Value) KV {
	r := KV{}
	for k, v := range m {
		r[keyNum(k)] = FromCodec(v)
	}
	return r
}

// Codec decodes the value's JSON with the real decoder.
func (v V) Codec() codec.Value {
	var cv codec.Value
	if err := cv.UnmarshalJSON([]byte(v.JSON())); err != nil {
		panic(err)
	}
	return cv
}

// List is an abstract collection.
type List []V

func (l List) String() string {
	parts := make([]string, len(l))
	for i, v := range l {
		parts[i] = v.String()
	}
	return strings.Join(parts, ",")
}

// JSON renders the JSON array.
func (l List) JSON() string {
	parts := make([]string, len(l))
	for i, v := range l {
		parts[i] = v.JSON()
	}
	return "[" + strings.Join(parts, ",") + "]"
}

// Codec builds the decoded slice.
func (l List) Codec() []codec.Value {
	r := make([]codec.Value, len(l))
	for i, v := range l {
		r[i] = v.Codec()
	}
	return r
}

// ListFromCodec abstracts a decoded slice.
func ListFromCodec(vs []codec.Value) List {
	r := make(List, len(vs))
	for i, v := range vs {
		r[i] = FromCodec(v)
	}
	return r
}
