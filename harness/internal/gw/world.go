package gw

import (
	"bytes"
	"encoding/json"
	"errors"
	"fmt"
	"net/http"
	"net/http/httptest"
	"sort"
	"strings"
	"sync"
	"time"

	"github.com/gorilla/websocket"
	"github.com/posener/wstest"
	"github.com/resgateio/resgate/server"
	"github.com/resgateio/resgate/server/verifhook"
)

// Ev is one entry of the raw trace.
type Ev struct {
	Kind string // frame-in, frame-out, mqreq, mqresp, mqsub, mqunsub, mqevent, sched, site, error, connect, disconnect, http, httpresp, evict, note
	C    string // connection label (c0, c1, h0 ...), when known
	N    int
	Subj string
	Text string
}

type logger struct{ w *World }

func (l logger) Log(s string)   {}
func (l logger) Debug(s string) {}
func (l logger) IsDebug() bool  { return false }
func (l logger) IsTrace() bool  { return true }
func (l logger) Error(s string) { l.w.rec(Ev{Kind: "error", Text: s}) }

// Trace receives "[cid] <<- frame" (events), "[cid] <-- frame" (replies), "[cid] --> frame" (requests).
func (l logger) Trace(s string) {
	if !strings.HasPrefix(s, "[") {
		return
	}
	i := strings.IndexByte(s, ']')
	if i < 0 || len(s) < i+6 {
		return
	}
	cid := s[1:i]
	rest := s[i+2:]
	switch {
	case strings.HasPrefix(rest, "<<- "):
		l.w.rec(Ev{Kind: "frame-out", C: l.w.label(cid), Text: rest[4:]})
	case strings.HasPrefix(rest, "<-- "):
		l.w.rec(Ev{Kind: "frame-out", C: l.w.label(cid), Text: rest[4:]})
	}
}

// Client is one WebSocket client of the gateway.
type Client struct {
	Label      string
	CID        string
	ws         *websocket.Conn
	closed     bool
	readClosed chan struct{} // closed when the gateway closed the socket (or the client did)
}

// World is one running gateway with its mock messaging system and clients.
type World struct {
	S       *Sched
	MQ      *MockMQ
	Serv    *server.Service
	Clients []*Client
	mu      sync.Mutex
	trace   []Ev
	labels  map[string]string
	nHTTP   int
	https   []*HTTPCall
	stopCh  <-chan error
	tokpos  map[string][]tokPos // per connection id: queue positions of delivered token events
	qpos    map[string][]int    // per resource: queue positions (1-based enqueue counts) of delivered query events
}

// HTTPCall is an HTTP request in flight.
type HTTPCall struct {
	Label string
	rr    *httptest.ResponseRecorder
	done  chan struct{}
	Done  bool
}

func (w *World) rec(e Ev) {
	w.mu.Lock()
	w.trace = append(w.trace, e)
	w.mu.Unlock()
}

// Trace returns a copy of the raw trace so far.
func (w *World) Trace() []Ev {
	w.mu.Lock()
	defer w.mu.Unlock()
	return append([]Ev{}, w.trace...)
}

// TraceLen returns the current trace length.
func (w *World) TraceLen() int {
	w.mu.Lock()
	defer w.mu.Unlock()
	return len(w.trace)
}

func (w *World) label(cid string) string {
	w.mu.Lock()
	defer w.mu.Unlock()
	if l, ok := w.labels[cid]; ok {
		return l
	}
	return "?" + cid
}

// Anon replaces every known connection id in s by its label in braces.
func (w *World) Anon(s string) string {
	w.mu.Lock()
	defer w.mu.Unlock()
	for cid, l := range w.labels {
		s = strings.ReplaceAll(s, cid, "<"+l+">")
	}
	return s
}

// CIDs returns label -> connection id.
func (w *World) CIDs() map[string]string {
	w.mu.Lock()
	defer w.mu.Unlock()
	r := map[string]string{}
	for cid, l := range w.labels {
		r[l] = cid
	}
	return r
}

// NewWorld starts a gateway. Only one World may exist at a time (verifhook.S is global).
func NewWorld(cfgs ...func(*server.Config)) *World {
	w := &World{S: newSched(), labels: map[string]string{}}
	w.MQ = &MockMQ{w: w}
	w.S.OnSite = func(id, cid, rid string) { w.rec(Ev{Kind: "site", C: w.label(cid), Subj: id, Text: rid}) }
	var cfg server.Config
	cfg.SetDefault()
	cfg.NoHTTP = true
	for _, f := range cfgs {
		f(&cfg)
	}
	serv, err := server.NewService(w.MQ, cfg)
	if err != nil {
		panic(err)
	}
	serv.SetLogger(logger{w})
	serv.VerifCache().VerifSetUnsubscribeDelay(time.Hour)
	verifhook.S = w.S
	if err := serv.Start(); err != nil {
		panic(err)
	}
	w.Serv = serv
	w.stopCh = serv.StopChannel()
	return w
}

// stable waits until every worker that has something to do is parked at its gate.
func (w *World) stable() {
	if w.S.Free {
		return
	}
	deadline := time.Now().Add(5 * time.Second)
	for {
		ok := true
		w.S.mu.Lock()
		if !w.S.connsSettledLocked() {
			ok = false
		}
		w.S.mu.Unlock()
		if ok {
			for name, st := range w.Serv.VerifCache().VerifQueueState() {
				active := false
				if st[2] >= 0 {
					active = st[1] > 0
				} else {
					active = st[0] > 0
				}
				if active && !w.S.isParkedFor("es:"+name) {
					ok = false
					break
				}
			}
		}
		if ok {
			// double check a moment later: a worker between Done and its next Gate flips the picture
			w.S.ticks++
			return
		}
		if time.Now().After(deadline) {
			panic(&StallError{fmt.Sprintf("not stable: parked=%v queues=%v", w.S.parkedKeys(), w.Serv.VerifCache().VerifQueueState())})
		}
		time.Sleep(20 * time.Microsecond)
	}
}

// Ready returns the keys of the parked workers using connection labels: conn:c0, es:test.r1, go:throttle#3.
func (w *World) Ready() []string {
	keys := w.S.parkedKeys()
	out := make([]string, 0, len(keys))
	for _, k := range keys {
		if strings.HasPrefix(k, "conn:") {
			out = append(out, "conn:"+w.label(k[5:]))
		} else {
			out = append(out, k)
		}
	}
	sort.Strings(out)
	return out
}

func (w *World) rawKey(key string) string {
	if strings.HasPrefix(key, "conn:") {
		l := key[5:]
		for lab, cid := range w.CIDs() {
			if lab == l {
				return "conn:" + cid
			}
		}
	}
	return key
}

// Grant lets one parked worker run one task.
func (w *World) Grant(key string) bool {
	raw := w.rawKey(key)
	var dk string
	esName := ""
	if strings.HasPrefix(raw, "es:") {
		// (a second worker waiting under the same entry name has the key name~2: sched.Gate)
		esName = raw[3:]
		if i := strings.LastIndexByte(esName, '~'); i > 0 {
			esName = esName[:i]
		}
	}
	switch {
	case strings.HasPrefix(raw, "es:"):
		dk = "esdone:" + esName
	default:
		dk = raw
	}
	before := w.S.counter("done", dk)
	if strings.HasPrefix(raw, "es:") {
		name := esName
		if ps := w.qpos[name]; len(ps) > 0 {
			st := w.Serv.VerifCache().VerifQueueState()[name]
			next := w.S.counter("done", "esqdone:"+name) + 1
			if st[2] < 0 && next == ps[0] {
				// the task about to run is the query event: record the loaded query variants it will see
				w.qpos[name] = ps[1:]
				var vs []string
				for _, en := range w.Serv.VerifCache().VerifEntries() {
					if en.Name == name {
						for _, rs := range en.Resources {
							if rs.Query != "" && rs.State >= 3 {
								vs = append(vs, name+"?"+rs.Query)
							}
						}
					}
				}
				w.rec(Ev{Kind: "qvariants", Subj: name, Text: strings.Join(vs, " ")})
			} else if next > ps[0] {
				w.qpos[name] = ps[1:] // missed (queue was cleared)
			}
		}
	}
	if strings.HasPrefix(raw, "conn:") {
		cid := raw[5:]
		next := w.S.counter("done", raw) + 1
		for len(w.tokpos[cid]) > 0 && w.tokpos[cid][0].pos <= next {
			if w.tokpos[cid][0].pos == next {
				w.rec(Ev{Kind: "toktask", C: w.label(cid), Text: w.tokpos[cid][0].tok, Subj: w.tokpos[cid][0].tid})
			}
			w.tokpos[cid] = w.tokpos[cid][1:]
		}
	}
	w.rec(Ev{Kind: "sched", Text: key})
	if !w.S.release(raw) {
		return false
	}
	w.S.waitCond("done "+key, func() bool { return w.S.done[dk] > before })
	w.stable()
	w.flushSites()
	return true
}

type tokPos struct {
	pos int
	tok string
	tid string
}

func (w *World) flushSites() {
	for _, s := range w.S.drainSites() {
		p := strings.SplitN(s, " ", 3)
		w.rec(Ev{Kind: "site", C: w.label(p[1]), Subj: p[0], Text: p[2]})
	}
}

// Connect opens a WebSocket connection and returns the client.
func (w *World) Connect(h http.Header) (*Client, error) {
	before := len(w.S.conns)
	d := wstest.NewDialer(w.Serv.GetWSHandlerFunc())
	ws, _, err := d.Dial("ws://example.org/", h)
	if err != nil {
		return nil, err
	}
	w.S.mu.Lock()
	cid := w.S.conns[before]
	w.S.mu.Unlock()
	c := &Client{Label: fmt.Sprintf("c%d", len(w.Clients)), CID: cid, ws: ws, readClosed: make(chan struct{})}
	w.mu.Lock()
	w.labels[cid] = c.Label
	w.mu.Unlock()
	w.Clients = append(w.Clients, c)
	go func() {
		for {
			if _, _, err := ws.ReadMessage(); err != nil {
				close(c.readClosed)
				return
			}
		}
	}()
	w.rec(Ev{Kind: "connect", C: c.Label})
	w.stable()
	return c, nil
}

// Send writes one client frame and waits until the gateway has queued it.
func (w *World) Send(c *Client, frame string) {
	before := w.S.counter("enq", "connq:"+c.CID)
	w.rec(Ev{Kind: "frame-in", C: c.Label, Text: frame})
	c.ws.WriteMessage(websocket.TextMessage, []byte(frame))
	w.S.waitCond("frame queued", func() bool { return w.S.enq["connq:"+c.CID] > before })
	w.stable()
}

// Disconnect closes the client's socket and waits until the gateway has queued the dispose task.
func (w *World) Disconnect(c *Client) {
	if c.closed {
		return
	}
	c.closed = true
	before := w.S.counter("enq", "connq:"+c.CID)
	w.rec(Ev{Kind: "disconnect", C: c.Label})
	c.ws.Close()
	w.S.waitCond("dispose queued", func() bool { return w.S.enq["connq:"+c.CID] > before })
	w.stable()
}

// Answer completes a pending request with a payload or an error.
func (w *World) Answer(r *Req, payload []byte, err error) {
	w.MQ.mu.Lock()
	if r.Answered {
		w.MQ.mu.Unlock()
		return
	}
	r.Answered = true
	w.MQ.mu.Unlock()
	txt := string(payload)
	if err != nil {
		txt = "!" + err.Error()
	}
	w.rec(Ev{Kind: "mqresp", N: r.N, Subj: r.Subject, Text: txt})
	if err != nil {
		r.cb("", nil, err)
	} else {
		r.cb("__RESPONSE__", payload, nil)
	}
	w.stable()
	w.flushSites()
}

// Event delivers a message on a subscribed namespace; returns false when the gateway is not subscribed.
func (w *World) Event(ns, event string, payload []byte) bool {
	w.MQ.mu.Lock()
	s := w.MQ.subs[ns]
	w.MQ.mu.Unlock()
	if s == nil {
		return false
	}
	subj := ns + "." + event
	w.rec(Ev{Kind: "mqevent", Subj: subj, Text: string(payload)})
	tokBefore := 0
	if event == "token" && strings.HasPrefix(ns, "conn.") {
		tokBefore = w.S.counter("enq", "connq:"+ns[5:])
	}
	s.cb(subj, payload, nil)
	if event == "token" && strings.HasPrefix(ns, "conn.") {
		// remember the position of the token event's task in the connection's queue: from the moment that task runs,
		// every request made on the connection's behalf must carry the new token (recorded as TOKTASK by Grant)
		cid := ns[5:]
		if after := w.S.counter("enq", "connq:"+cid); after > tokBefore {
			var te struct {
				Token json.RawMessage `json:"token"`
				TID   string          `json:"tid"`
			}
			if json.Unmarshal(payload, &te) == nil {
				if w.tokpos == nil {
					w.tokpos = map[string][]tokPos{}
				}
				w.tokpos[cid] = append(w.tokpos[cid], tokPos{after, string(te.Token), te.TID})
			}
		}
	}
	if event == "query" && strings.HasPrefix(ns, "event.") {
		// remember the position of the query event in the resource's task queue: the cached query variants are
		// recorded right before the task runs (Grant)
		name := ns[6:]
		if w.qpos == nil {
			w.qpos = map[string][]int{}
		}
		w.qpos[name] = append(w.qpos[name], w.S.counter("enq", "esq:"+name))
	}
	w.stable()
	w.flushSites()
	return true
}

// Evict fires the eviction timer of a cache entry.
func (w *World) Evict(name string) bool {
	// A cache worker runs the tasks of one entry under the entry's mutex, which the eviction needs too: in the gateway an
	// entry is never evicted between two of its queued tasks. The scheduler hook releases that mutex while a worker is
	// parked, so the harness must not fire the timer while the entry has tasks queued or a worker parked for it.
	if qs, ok := w.Serv.VerifCache().VerifQueueState()[name]; ok && (qs[0] > 0 || qs[1] > 0) {
		return false
	}
	for _, k := range w.Ready() {
		if k == "es:"+name {
			return false
		}
	}
	ok := w.Serv.VerifCache().VerifEvict(name)
	if ok {
		w.rec(Ev{Kind: "evict", Subj: name})
	}
	w.stable()
	return ok
}

// HTTP starts an HTTP request against the gateway's handler and waits until its first task is queued
// (or the request completed without one).
func (w *World) HTTP(method, url string, body []byte, hdr http.Header) *HTTPCall {
	req, err := http.NewRequest(method, url, bytes.NewReader(body))
	if err != nil {
		panic(err)
	}
	for k, v := range hdr {
		req.Header[k] = v
	}
	req.RequestURI = req.URL.RequestURI()
	hc := &HTTPCall{Label: fmt.Sprintf("h%d", w.nHTTP), rr: httptest.NewRecorder(), done: make(chan struct{})}
	w.nHTTP++
	w.https = append(w.https, hc)
	nconns := len(w.S.conns)
	total := w.S.totalConnEnq()
	w.rec(Ev{Kind: "http", C: hc.Label, Subj: method + " " + url, Text: string(body)})
	go func() {
		w.Serv.ServeHTTP(hc.rr, req)
		close(hc.done)
	}()
	deadline := time.Now().Add(5 * time.Second)
	for {
		select {
		case <-hc.done:
			w.finishHTTP(hc)
			w.stable()
			return hc
		default:
		}
		w.S.mu.Lock()
		n := len(w.S.conns)
		var cid string
		if n > nconns {
			cid = w.S.conns[nconns]
		}
		w.S.mu.Unlock()
		if cid != "" {
			w.mu.Lock()
			w.labels[cid] = hc.Label
			w.mu.Unlock()
			if w.S.totalConnEnq() > total {
				break
			}
		}
		if time.Now().After(deadline) {
			panic(&StallError{"http request neither completed nor queued"})
		}
		time.Sleep(20 * time.Microsecond)
	}
	w.stable()
	return hc
}

func (w *World) finishHTTP(hc *HTTPCall) {
	if hc.Done {
		return
	}
	hc.Done = true
	hs := make([]string, 0)
	for k, v := range hc.rr.Header() {
		hs = append(hs, k+"="+strings.Join(v, "|"))
	}
	sort.Strings(hs)
	w.rec(Ev{Kind: "httpresp", C: hc.Label, N: hc.rr.Code, Subj: strings.Join(hs, ";"), Text: hc.rr.Body.String()})
}

// OpenHTTP returns the labels of the HTTP requests still in progress.
func (w *World) OpenHTTP() []string {
	var r []string
	for _, hc := range w.https {
		select {
		case <-hc.done:
		default:
			if !hc.Done {
				r = append(r, hc.Label)
			}
		}
	}
	return r
}

// PollHTTP records the responses of HTTP calls that completed.
func (w *World) PollHTTP() {
	for _, hc := range w.https {
		if hc.Done {
			continue
		}
		select {
		case <-hc.done:
			w.finishHTTP(hc)
		case <-time.After(200 * time.Microsecond):
		}
	}
}

// Quiescent reports whether nothing is runnable and nothing is outstanding.
func (w *World) Quiescent() bool {
	return len(w.S.parkedKeys()) == 0 && len(w.MQ.Pending()) == 0
}

// Close tears the gateway down. Parked workers are released in free-running mode.
func (w *World) Close() {
	w.S.mu.Lock()
	w.S.Free = true
	ws := w.S.parked
	w.S.parked = map[string]*waiter{}
	w.S.mu.Unlock()
	for _, p := range ws {
		close(p.ch)
	}
	// let the released workers drain their queues before the cache is stopped (a task that enqueues
	// after Cache.Stop would send on a closed channel)
	deadline := time.Now().Add(3 * time.Second)
	for time.Now().Before(deadline) {
		busy := false
		for _, st := range w.Serv.VerifCache().VerifQueueState() {
			if st[0] > 0 || st[1] > 0 {
				busy = true
			}
		}
		for _, n := range w.Serv.VerifConnQueueLens() {
			if n > 0 {
				busy = true
			}
		}
		w.S.mu.Lock()
		if len(w.S.goLive) > 0 {
			busy = true
		}
		w.S.mu.Unlock()
		if !busy {
			break
		}
		time.Sleep(100 * time.Microsecond)
	}
	for _, c := range w.Clients {
		if !c.closed {
			c.closed = true
			c.ws.Close()
		}
	}
	done := make(chan struct{})
	go func() { w.Serv.Stop(nil); close(done) }()
	select {
	case <-done:
	case <-time.After(8 * time.Second):
	}
	verifhook.S = nil
}

// StopResult is what the harness observed around a Stop or a loss of the messaging connection.
type StopResult struct {
	Returned      bool // the stop channel reported within the bound
	ElapsedMS     int64
	Cause         string // the error reported on the stop channel
	ClientsClosed bool   // every open client socket was closed by the gateway
	ConnRefused   bool   // a new WebSocket connection was refused afterwards
	HTTPStatus    int    // status of an HTTP GET afterwards
	Restarted     bool   // Start succeeded again and a client could connect
	SecondStop    bool   // ... and Stop completed again
	DuringRefused bool   // while Stop was waiting for connections: a new WebSocket connection was refused
	DuringHTTP    int    // ... and an HTTP GET was answered with this status
	FreshCache    bool   // after the restart a subscribe to a resource cached before the stop was fetched anew (get request)
}

// StopNow injects Stop (kind "stop") or the loss of the messaging connection (kind "mqloss") with whatever
// work is in flight. The scheduler is switched to free-running mode first: everything parked is released.
func (w *World) StopNow(kind string) StopResult {
	var r StopResult
	live := 0
	for _, c := range w.Clients {
		if !c.closed {
			live++
		}
	}
	// a resource that is loaded in the cache right now (for the fresh-cache probe after the restart)
	cachedName := ""
	for _, en := range w.Serv.VerifCache().VerifEntries() {
		for _, rs := range en.Resources {
			if rs.Query == "" && rs.State >= 3 && !strings.Contains(en.Name, "long") {
				cachedName = en.Name
			}
		}
	}
	stopCh := w.Serv.StopChannel()
	start := time.Now()
	cause := "injected-" + kind
	if kind == "mqloss" {
		w.MQ.mu.Lock()
		h := w.MQ.closed
		w.MQ.mu.Unlock()
		if h != nil {
			go h(errors.New(cause))
		}
	} else {
		go w.Serv.Stop(errors.New(cause))
	}
	// the messaging system keeps delivering until the gateway has closed its client: events for subscribed resources
	// arrive at arbitrary moments of the shutdown (never after Close has returned)
	var evNs []string
	for _, ns := range w.MQ.Subs() {
		if strings.HasPrefix(ns, "event.") {
			evNs = append(evNs, ns)
		}
	}
	stopDeliver := make(chan struct{})
	if len(evNs) > 0 {
		go func() {
			for i := 0; ; i++ {
				select {
				case <-stopDeliver:
					return
				default:
				}
				ns := evNs[i%len(evNs)]
				if !w.MQ.DeliverIfOpen(ns, ns+".custom", []byte(`{"during":"stop"}`)) && w.MQ.IsClosed() {
					return
				}
				time.Sleep(time.Duration(200+i%7*300) * time.Microsecond)
			}
		}()
	}
	defer close(stopDeliver)
	r.DuringRefused, r.DuringHTTP = true, 503
	if live > 0 {
		// the connection workers are still gated, so Stop is now waiting for the connections to be disposed:
		// probe the "stopping" window before releasing them
		for i := 0; i < 400 && !w.Serv.VerifStopping(); i++ {
			time.Sleep(5 * time.Millisecond)
		}
		dialed := make(chan *websocket.Conn, 1)
		go func() {
			ws2, _, err := wstest.NewDialer(w.Serv.GetWSHandlerFunc()).Dial("ws://example.org/", nil)
			if err != nil {
				dialed <- nil
				return
			}
			dialed <- ws2
		}()
		select {
		case ws2 := <-dialed:
			if ws2 != nil {
				r.DuringRefused = false
				go ws2.Close()
			}
		case <-time.After(300 * time.Millisecond):
		}
		req, _ := http.NewRequest("GET", "/api/test/r0", nil)
		req.RequestURI = "/api/test/r0"
		rr := httptest.NewRecorder()
		hd := make(chan struct{})
		go func() { w.Serv.ServeHTTP(rr, req); close(hd) }()
		select {
		case <-hd:
			r.DuringHTTP = rr.Code
		case <-time.After(300 * time.Millisecond):
			r.DuringHTTP = -1 // accepted and waiting for a service: not refused
		}
	}
	w.S.mu.Lock()
	w.S.Free = true
	ws := w.S.parked
	w.S.parked = map[string]*waiter{}
	w.S.mu.Unlock()
	for _, p := range ws {
		close(p.ch)
	}
	select {
	case err := <-stopCh:
		r.Returned = true
		if err != nil {
			r.Cause = err.Error()
		}
	case <-time.After(12 * time.Second):
	}
	r.ElapsedMS = time.Since(start).Milliseconds()
	r.ClientsClosed = true
	for _, c := range w.Clients {
		if c.closed {
			continue
		}
		select {
		case <-c.readClosed:
		case <-time.After(2 * time.Second):
			r.ClientsClosed = false
		}
		c.closed = true
	}
	// afterwards: no new connections, HTTP refused
	// (the handler returns without writing a response when the service is stopped: over the in-memory pipe the
	// dialer then waits for ever, so the attempt is given a deadline; not upgraded = refused)
	dialed := make(chan *websocket.Conn, 1)
	go func() {
		d := wstest.NewDialer(w.Serv.GetWSHandlerFunc())
		ws2, _, err := d.Dial("ws://example.org/", nil)
		if err != nil {
			dialed <- nil
			return
		}
		dialed <- ws2
	}()
	select {
	case ws2 := <-dialed:
		if ws2 == nil {
			r.ConnRefused = true
		} else {
			ws2.Close()
		}
	case <-time.After(400 * time.Millisecond):
		r.ConnRefused = true
	}
	req, _ := http.NewRequest("GET", "/api/test/r0", nil)
	req.RequestURI = "/api/test/r0"
	rr := httptest.NewRecorder()
	done := make(chan struct{})
	go func() { w.Serv.ServeHTTP(rr, req); close(done) }()
	select {
	case <-done:
		r.HTTPStatus = rr.Code
	case <-time.After(2 * time.Second):
		r.HTTPStatus = -1
	}
	// Start/Stop may be repeated on the same service
	if r.Returned {
		if err := w.Serv.Start(); err == nil {
			redial := make(chan *websocket.Conn, 1)
			go func() {
				ws3, _, err := wstest.NewDialer(w.Serv.GetWSHandlerFunc()).Dial("ws://example.org/", nil)
				if err != nil {
					redial <- nil
					return
				}
				redial <- ws3
			}()
			r.FreshCache = true
			select {
			case ws3 := <-redial:
				if ws3 != nil {
					r.Restarted = true
					if cachedName != "" {
						// the restarted service must fetch the resource anew: nothing cached before the stop may be served
						go func() {
							for {
								if _, _, err := ws3.ReadMessage(); err != nil {
									return
								}
							}
						}()
						ws3.WriteMessage(websocket.TextMessage, []byte(`{"id":1,"method":"subscribe.`+cachedName+`"}`))
						got := false
						for i := 0; i < 300 && !got; i++ {
							for _, q := range w.MQ.Pending() {
								switch q.Subject {
								case "access." + cachedName:
									w.Answer(q, []byte(`{"result":{"get":true}}`), nil)
								case "get." + cachedName:
									got = true
									w.Answer(q, []byte(`{"error":{"code":"system.notFound","message":"Not found"}}`), nil)
								}
							}
							time.Sleep(5 * time.Millisecond)
						}
						r.FreshCache = got
					}
					ws3.Close()
				}
			case <-time.After(2 * time.Second):
			}
			st := w.Serv.StopChannel()
			go w.Serv.Stop(nil)
			select {
			case <-st:
				r.SecondStop = true
			case <-time.After(12 * time.Second):
			}
		}
	}
	w.rec(Ev{Kind: "stop", Subj: kind, Text: fmt.Sprintf("returned=%t cause=%t elapsed_ok=%t clients_closed=%t refused=%t http=%d restarted=%t second_stop=%t during_refused=%t during_http=%d fresh_cache=%t",
		r.Returned, r.Cause == cause, r.ElapsedMS < 11000, r.ClientsClosed, r.ConnRefused, r.HTTPStatus, r.Restarted, r.SecondStop, r.DuringRefused, r.DuringHTTP, r.FreshCache)})
	return r
}
