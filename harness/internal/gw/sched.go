// Package gw runs the real gateway (built with -tags verif) under a harness-controlled scheduler:
// every connection task, cache task and hooked goroutine parks at a gate until the driver grants it,
// so a history (list of driver actions) determines the execution exactly.
package gw

import (
	"fmt"
	"sort"
	"strings"
	"sync"
	"time"
)

type waiter struct {
	key string
	ch  chan struct{}
}

// Sched implements verifhook.Sched.
type Sched struct {
	mu     sync.Mutex
	cond   *sync.Cond
	parked map[string]*waiter
	enq    map[string]int // Note counters
	done   map[string]int // Done counters
	goN    int
	goLive map[string]bool
	sites  []string // site marks since last drain
	conns  []string // cids in creation order
	Free   bool     // free-running mode: gates do not park
	OnSite func(id, cid, rid string)
	ticks  int
}

func newSched() *Sched {
	s := &Sched{parked: map[string]*waiter{}, enq: map[string]int{}, done: map[string]int{}, goLive: map[string]bool{}}
	s.cond = sync.NewCond(&s.mu)
	return s
}

// Gate parks the calling worker until granted.
func (s *Sched) Gate(kind, id string) {
	if s.Free {
		return
	}
	w := &waiter{key: kind + ":" + id, ch: make(chan struct{})}
	s.mu.Lock()
	// two workers may wait under one name: after a cache entry was evicted a late answer can still reach the old entry's
	// queue while a new entry of the same name has work of its own; each gets its own key
	for n := 2; s.parked[w.key] != nil; n++ {
		w.key = fmt.Sprintf("%s:%s~%d", kind, id, n)
	}
	s.parked[w.key] = w
	s.cond.Broadcast()
	s.mu.Unlock()
	<-w.ch
}

// Done counts a finished task.
func (s *Sched) Done(kind, id string) {
	s.mu.Lock()
	switch kind {
	case "es-empty":
		s.done["esdone:"+id]++
	case "esq", "esl":
		s.done["esdone:"+id]++
		if kind == "esq" {
			s.done["esqdone:"+id]++
		}
	default:
		s.done[kind+":"+id]++
	}
	s.cond.Broadcast()
	s.mu.Unlock()
}

// Note counts a queue operation.
func (s *Sched) Note(kind, id string) {
	s.mu.Lock()
	s.enq[kind+":"+id]++
	if kind == "newconn" {
		s.conns = append(s.conns, id)
	}
	s.cond.Broadcast()
	s.mu.Unlock()
}

// Go starts f as a goroutine that first parks at a gate.
func (s *Sched) Go(label string, f func()) {
	if s.Free {
		go f()
		return
	}
	s.mu.Lock()
	s.goN++
	id := fmt.Sprintf("%s#%d", label, s.goN)
	s.goLive[id] = true
	s.mu.Unlock()
	go func() {
		s.Gate("go", id)
		f()
		s.mu.Lock()
		delete(s.goLive, id)
		s.done["go:"+id]++
		s.cond.Broadcast()
		s.mu.Unlock()
	}()
}

// Site records a site mark.
func (s *Sched) Site(id, cid, rid string) {
	if f := s.OnSite; f != nil {
		f(id, cid, rid)
	}
}

func (s *Sched) drainSites() []string {
	s.mu.Lock()
	defer s.mu.Unlock()
	r := s.sites
	s.sites = nil
	return r
}

// StallError reports that the gateway did not reach a stable state in time.
type StallError struct{ What string }

func (e *StallError) Error() string { return "stall: " + e.What }

// waitCond polls pred (called with mu held) until it holds or the deadline passes.
func (s *Sched) waitCond(what string, pred func() bool) {
	deadline := time.Now().Add(5 * time.Second)
	s.mu.Lock()
	defer s.mu.Unlock()
	wait := 5 * time.Microsecond
	for !pred() {
		if time.Now().After(deadline) {
			panic(&StallError{what + fmt.Sprintf(" parked=%v enq=%v done=%v", s.keysLocked(), s.enq, s.done)})
		}
		s.mu.Unlock()
		time.Sleep(wait)
		if wait < 200*time.Microsecond {
			wait += wait / 2 // back off: a loaded machine must not be loaded further by polling
		}
		s.mu.Lock()
	}
}

func (s *Sched) keysLocked() []string {
	r := make([]string, 0, len(s.parked))
	for k := range s.parked {
		r = append(r, k)
	}
	sort.Strings(r)
	return r
}

// parkedKeys returns the parked worker keys, sorted.
func (s *Sched) parkedKeys() []string {
	s.mu.Lock()
	defer s.mu.Unlock()
	return s.keysLocked()
}

// isParkedFor: some worker is parked under key or under one of its numbered variants (key~2, ...: Gate).
func (s *Sched) isParkedFor(key string) bool {
	s.mu.Lock()
	defer s.mu.Unlock()
	if s.parked[key] != nil {
		return true
	}
	for k := range s.parked {
		if strings.HasPrefix(k, key+"~") {
			return true
		}
	}
	return false
}

func (s *Sched) isParked(key string) bool {
	s.mu.Lock()
	defer s.mu.Unlock()
	return s.parked[key] != nil
}

// connsSettledLocked: every connection worker with unfinished tasks is parked, every hooked goroutine is parked.
func (s *Sched) connsSettledLocked() bool {
	for k, n := range s.enq {
		if strings.HasPrefix(k, "connq:") {
			wk := "conn:" + k[6:]
			if n-s.done[wk] > 0 && s.parked[wk] == nil {
				return false
			}
		}
	}
	for id := range s.goLive {
		if s.parked["go:"+id] == nil {
			return false
		}
	}
	return true
}

func (s *Sched) release(key string) bool {
	s.mu.Lock()
	w := s.parked[key]
	if w == nil {
		s.mu.Unlock()
		return false
	}
	delete(s.parked, key)
	s.mu.Unlock()
	close(w.ch)
	return true
}

func (s *Sched) counter(m string, key string) int {
	s.mu.Lock()
	defer s.mu.Unlock()
	if m == "enq" {
		return s.enq[key]
	}
	return s.done[key]
}

func (s *Sched) totalConnEnq() int {
	s.mu.Lock()
	defer s.mu.Unlock()
	n := 0
	for k, v := range s.enq {
		if strings.HasPrefix(k, "connq:") {
			n += v
		}
	}
	return n
}
