package gw

import (
	"encoding/hex"
	"encoding/json"
	"fmt"
	"hash/fnv"
	"sort"
	"strconv"
	"strings"
)

// Abstract notation shared with the OCaml/Coq monitors.
//   value:    p<N> | r<rid> | s<rid> | d<N> | x | S<rid> (legacy soft: bare string) | D (legacy data placeholder) | u<hex> (other JSON)
//   rid:      <N> for test.r<N>, <N>q<K> for test.r<N>?q=<K>, otherwise x<hex>
//   kv:       k:v;k:v   (sorted by key)      list: v,v
//   resource: M~rid~kv | C~rid~list | E~rid~code        set: joined by '&' ('-' when empty)

// AbsRID abstracts a resource id string.
func AbsRID(rid string) string {
	if strings.HasPrefix(rid, "test.r") {
		rest := rid[6:]
		if n, err := strconv.Atoi(rest); err == nil && n >= 0 {
			return strconv.Itoa(n)
		}
		if i := strings.Index(rest, "?q="); i > 0 {
			n, e1 := strconv.Atoi(rest[:i])
			k, e2 := strconv.Atoi(rest[i+3:])
			if e1 == nil && e2 == nil {
				return fmt.Sprintf("%dq%d", n, k)
			}
		}
	}
	if len(rid) > 48 {
		h := fnv.New32a()
		h.Write([]byte(rid))
		return fmt.Sprintf("xlong%dh%08x", len(rid), h.Sum32())
	}
	return "x" + hex.EncodeToString([]byte(rid))
}

// ConcRID is the inverse of AbsRID for the generated rids.
func ConcRID(a string) string {
	if strings.HasPrefix(a, "x") {
		b, _ := hex.DecodeString(a[1:])
		return string(b)
	}
	if i := strings.IndexByte(a, 'q'); i > 0 {
		return "test.r" + a[:i] + "?q=" + a[i+1:]
	}
	return "test.r" + a
}

func absValue(raw json.RawMessage) string {
	s := strings.TrimSpace(string(raw))
	if s == "" {
		return "u"
	}
	switch s[0] {
	case '{':
		var o map[string]json.RawMessage
		if json.Unmarshal(raw, &o) != nil {
			break
		}
		if r, ok := o["rid"]; ok {
			var rid string
			json.Unmarshal(r, &rid)
			if sf, ok := o["soft"]; ok && string(sf) == "true" {
				return "s" + AbsRID(rid)
			}
			return "r" + AbsRID(rid)
		}
		if a, ok := o["action"]; ok && string(a) == `"delete"` {
			return "x"
		}
		if d, ok := o["data"]; ok {
			var dn struct{ N *int }
			if json.Unmarshal(d, &dn) == nil && dn.N != nil {
				return "d" + strconv.Itoa(*dn.N)
			}
		}
	case '"':
		var str string
		json.Unmarshal(raw, &str)
		if str == "[Data]" {
			return "D"
		}
		if strings.HasPrefix(str, "test.r") {
			return "S" + AbsRID(str)
		}
	default:
		if n, err := strconv.Atoi(s); err == nil && n >= 0 {
			return "p" + strconv.Itoa(n)
		}
	}
	return "u" + hex.EncodeToString([]byte(s))
}

func absKV(raw json.RawMessage) string {
	var o map[string]json.RawMessage
	if json.Unmarshal(raw, &o) != nil {
		return "?"
	}
	type ent struct {
		k int
		s string
	}
	var es []ent
	for k, v := range o {
		n, err := strconv.Atoi(strings.TrimPrefix(k, "k"))
		if err != nil {
			n = 900 + len(es)
		}
		es = append(es, ent{n, strconv.Itoa(n) + ":" + absValue(v)})
	}
	sort.Slice(es, func(i, j int) bool { return es[i].k < es[j].k })
	p := make([]string, len(es))
	for i, e := range es {
		p[i] = e.s
	}
	return strings.Join(p, ";")
}

func absList(raw json.RawMessage) string {
	var l []json.RawMessage
	if json.Unmarshal(raw, &l) != nil {
		return "?"
	}
	p := make([]string, len(l))
	for i, v := range l {
		p[i] = absValue(v)
	}
	return strings.Join(p, ",")
}

type resourcesJSON struct {
	Models      map[string]json.RawMessage `json:"models"`
	Collections map[string]json.RawMessage `json:"collections"`
	Errors      map[string]struct {
		Code string `json:"code"`
	} `json:"errors"`
}

func absResources(r resourcesJSON) string {
	var p []string
	for rid, m := range r.Models {
		p = append(p, "M~"+AbsRID(rid)+"~"+absKV(m))
	}
	for rid, c := range r.Collections {
		p = append(p, "C~"+AbsRID(rid)+"~"+absList(c))
	}
	for rid, e := range r.Errors {
		p = append(p, "E~"+AbsRID(rid)+"~"+e.Code)
	}
	if len(p) == 0 {
		return "-"
	}
	sort.Strings(p)
	return strings.Join(p, "&")
}

// AbsFrameOut abstracts a frame the gateway sent to client c.
func AbsFrameOut(c string, frame string) string {
	var f struct {
		ID     *uint64         `json:"id"`
		Result json.RawMessage `json:"result"`
		Error  *struct {
			Code string `json:"code"`
		} `json:"error"`
		Event string          `json:"event"`
		Data  json.RawMessage `json:"data"`
	}
	if err := json.Unmarshal([]byte(frame), &f); err != nil {
		return "BADFRAME\t" + c + "\t" + hex.EncodeToString([]byte(frame))
	}
	if f.Event != "" {
		i := strings.LastIndexByte(f.Event, '.')
		if i < 0 {
			return "BADFRAME\t" + c + "\t" + hex.EncodeToString([]byte(frame))
		}
		rid, ev := f.Event[:i], f.Event[i+1:]
		// the rid itself may contain dots in a query; events are change/add/remove/delete/unsubscribe/custom names without dots
		a := AbsRID(rid)
		switch ev {
		case "change":
			var d struct {
				Values json.RawMessage `json:"values"`
				resourcesJSON
			}
			json.Unmarshal(f.Data, &d)
			return strings.Join([]string{"EV", c, a, "change", absKV(d.Values), absResources(d.resourcesJSON)}, "\t")
		case "add":
			var d struct {
				Idx   int             `json:"idx"`
				Value json.RawMessage `json:"value"`
				resourcesJSON
			}
			json.Unmarshal(f.Data, &d)
			return strings.Join([]string{"EV", c, a, "add", strconv.Itoa(d.Idx), absValue(d.Value), absResources(d.resourcesJSON)}, "\t")
		case "remove":
			var d struct {
				Idx int `json:"idx"`
			}
			json.Unmarshal(f.Data, &d)
			return strings.Join([]string{"EV", c, a, "remove", strconv.Itoa(d.Idx)}, "\t")
		case "delete":
			return strings.Join([]string{"EV", c, a, "delete"}, "\t")
		case "unsubscribe":
			var d struct {
				Reason struct {
					Code string `json:"code"`
				} `json:"reason"`
			}
			json.Unmarshal(f.Data, &d)
			return strings.Join([]string{"EV", c, a, "unsub", d.Reason.Code}, "\t")
		default:
			var d struct {
				Seq int `json:"seq"`
			}
			json.Unmarshal(f.Data, &d)
			return strings.Join([]string{"EV", c, a, "custom", ev + "/" + strconv.Itoa(d.Seq)}, "\t")
		}
	}
	if f.ID == nil {
		return "BADFRAME\t" + c + "\t" + hex.EncodeToString([]byte(frame))
	}
	id := strconv.FormatUint(*f.ID, 10)
	if f.Error != nil {
		return strings.Join([]string{"RESP", c, id, "err", f.Error.Code}, "\t")
	}
	// result kinds: resources (subscribe/get), {rid, resources} (call/auth/new resource), {payload}, null/absent, version
	var r struct {
		RID      *string         `json:"rid"`
		Payload  json.RawMessage `json:"payload"`
		Protocol *string         `json:"protocol"`
		resourcesJSON
	}
	if len(f.Result) > 0 && string(f.Result) != "null" {
		json.Unmarshal(f.Result, &r)
	}
	switch {
	case r.Protocol != nil:
		return strings.Join([]string{"RESP", c, id, "version", *r.Protocol}, "\t")
	case r.RID != nil:
		return strings.Join([]string{"RESP", c, id, "okrid", AbsRID(*r.RID), absResources(r.resourcesJSON)}, "\t")
	case r.Payload != nil:
		return strings.Join([]string{"RESP", c, id, "okpayload", absValue(r.Payload)}, "\t")
	case r.Models != nil || r.Collections != nil || r.Errors != nil:
		return strings.Join([]string{"RESP", c, id, "ok", absResources(r.resourcesJSON)}, "\t")
	}
	return strings.Join([]string{"RESP", c, id, "ok", "-"}, "\t")
}

// AbsFrameIn abstracts a client request frame (only well-formed generated requests are abstracted precisely).
func AbsFrameIn(c string, frame string) string {
	var f struct {
		ID     *uint64         `json:"id"`
		Method string          `json:"method"`
		Params json.RawMessage `json:"params"`
	}
	if err := json.Unmarshal([]byte(frame), &f); err != nil || f.ID == nil {
		return "RAWREQ\t" + c + "\t" + hex.EncodeToString([]byte(frame))
	}
	id := strconv.FormatUint(*f.ID, 10)
	i := strings.IndexByte(f.Method, '.')
	if i < 0 {
		return strings.Join([]string{"REQ", c, id, "other", "x" + hex.EncodeToString([]byte(f.Method)), "-"}, "\t")
	}
	act, rid := f.Method[:i], f.Method[i+1:]
	extra := "-"
	switch act {
	case "call", "auth":
		j := strings.LastIndexByte(rid, '.')
		if j >= 0 {
			extra = rid[j+1:]
			rid = rid[:j]
		}
	case "unsubscribe":
		var p struct {
			Count *int `json:"count"`
		}
		if len(f.Params) > 0 && json.Unmarshal(f.Params, &p) == nil && p.Count != nil {
			extra = strconv.Itoa(*p.Count)
		} else if len(f.Params) > 0 && string(f.Params) != "null" && json.Unmarshal(f.Params, &p) != nil {
			extra = "bad"
		}
	}
	return strings.Join([]string{"REQ", c, id, act, AbsRID(rid), extra}, "\t")
}
