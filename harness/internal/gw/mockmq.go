package gw

import (
	"sync"

	"github.com/resgateio/resgate/server/mq"
)

// maxControlLine mirrors nats.MAX_CONTROL_LINE_SIZE, which the real adapter checks subjects against.
const maxControlLine = 4096

// Req is a request the gateway sent to the messaging system.
type Req struct {
	N        int
	Subject  string
	Payload  []byte
	cb       mq.Response
	TooLong  bool
	Answered bool
}

type mqSub struct {
	m  *MockMQ
	ns string
	cb mq.Response
}

// MockMQ implements mq.Client. It only records; the driver decides when anything is answered.
type MockMQ struct {
	mu        sync.Mutex
	deliver   sync.RWMutex // held (read) while a callback runs during shutdown probing; Close takes it exclusively
	w         *World
	subs      map[string]*mqSub
	reqs      []*Req
	connected bool
	closed    func(error)
	FailSub   map[string]bool // namespaces whose Subscribe fails
}

func (m *MockMQ) Connect() error {
	m.mu.Lock()
	defer m.mu.Unlock()
	m.subs = map[string]*mqSub{}
	m.connected = true
	return nil
}

func (m *MockMQ) SendRequest(subj string, payload []byte, cb mq.Response) {
	m.mu.Lock()
	r := &Req{N: len(m.reqs), Subject: subj, Payload: payload, cb: cb}
	if len(subj)+7+22 > maxControlLine {
		r.TooLong = true
	}
	m.reqs = append(m.reqs, r)
	m.mu.Unlock()
	m.w.rec(Ev{Kind: "mqreq", N: r.N, Subj: subj, Text: string(payload)})
}

func (m *MockMQ) Subscribe(ns string, cb mq.Response) (mq.Unsubscriber, error) {
	if len(ns) > maxControlLine-2 {
		m.w.rec(Ev{Kind: "mqsubfail", Subj: ns})
		return nil, mq.ErrSubjectTooLong
	}
	m.mu.Lock()
	if _, ok := m.subs[ns]; ok {
		m.mu.Unlock()
		m.w.rec(Ev{Kind: "mqsubdup", Subj: ns})
		return &mqSub{m: m, ns: ns + "#dup", cb: cb}, nil
	}
	s := &mqSub{m: m, ns: ns, cb: cb}
	m.subs[ns] = s
	m.mu.Unlock()
	m.w.rec(Ev{Kind: "mqsub", Subj: ns})
	return s, nil
}

func (s *mqSub) Unsubscribe() error {
	s.m.mu.Lock()
	cur, ok := s.m.subs[s.ns]
	if ok && cur == s {
		delete(s.m.subs, s.ns)
	}
	s.m.mu.Unlock()
	if !ok || cur != s {
		s.m.w.rec(Ev{Kind: "mqunsubbad", Subj: s.ns})
		return nil
	}
	s.m.w.rec(Ev{Kind: "mqunsub", Subj: s.ns})
	return nil
}

func (m *MockMQ) Close() {
	// Close returns only when no callback is running, and none is made afterwards (the adapter contract)
	m.deliver.Lock()
	m.mu.Lock()
	m.connected = false
	m.mu.Unlock()
	m.deliver.Unlock()
	m.w.rec(Ev{Kind: "mqclose"})
}

// DeliverIfOpen delivers a message on a subscribed namespace unless the client has been closed; used while Stop is in
// progress, when the harness does not know how far the shutdown has come.
func (m *MockMQ) DeliverIfOpen(ns, subj string, payload []byte) bool {
	m.deliver.RLock()
	defer m.deliver.RUnlock()
	m.mu.Lock()
	s := m.subs[ns]
	open := m.connected
	m.mu.Unlock()
	if !open || s == nil {
		return false
	}
	s.cb(subj, payload, nil)
	return true
}

func (m *MockMQ) IsClosed() bool {
	m.mu.Lock()
	defer m.mu.Unlock()
	return !m.connected
}

func (m *MockMQ) SetClosedHandler(cb func(error)) {
	m.mu.Lock()
	m.closed = cb
	m.mu.Unlock()
}

// HasSub reports whether the gateway holds a subscription on the namespace.
func (m *MockMQ) HasSub(ns string) bool {
	m.mu.Lock()
	defer m.mu.Unlock()
	_, ok := m.subs[ns]
	return ok
}

// Subs returns the subscribed namespaces.
func (m *MockMQ) Subs() []string {
	m.mu.Lock()
	defer m.mu.Unlock()
	r := make([]string, 0, len(m.subs))
	for k := range m.subs {
		r = append(r, k)
	}
	return r
}

// All returns every request made so far, in emission order.
func (m *MockMQ) All() []*Req {
	m.mu.Lock()
	defer m.mu.Unlock()
	return append([]*Req(nil), m.reqs...)
}

// Pending returns the unanswered requests in emission order.
func (m *MockMQ) Pending() []*Req {
	m.mu.Lock()
	defer m.mu.Unlock()
	var r []*Req
	for _, q := range m.reqs {
		if !q.Answered {
			r = append(r, q)
		}
	}
	return r
}
