package gw

import (
	"encoding/json"
	"errors"
	"fmt"
	"io"
	"net/http"
	"sort"
	"strconv"
	"strings"

	"github.com/resgateio/resgate/server"
	"github.com/resgateio/resgate/server/reserr"
	"verif/harness/internal/absval"
)

// Action is one driver step of a history; histories are replayable lists of actions.
type Action struct {
	A       string `json:"a"`                 // connect frame grant answer event sysevent connevent evict disconnect http q
	C       string `json:"c,omitempty"`       // client label
	Text    string `json:"text,omitempty"`    // frame / payload / worker key / url
	N       int    `json:"n,omitempty"`       // request number
	Subj    string `json:"subj,omitempty"`    // namespace or subject
	Err     string `json:"err,omitempty"`     // for answer: timeout | notfound(no responders) | toolong
	Abs     string `json:"abs,omitempty"`     // abstract description for the trace (MQRESP / MQEV line tail)
	Method  string `json:"method,omitempty"`  // http method
	Headers string `json:"headers,omitempty"` // http headers k=v;k=v
	Ev      string `json:"ev,omitempty"`      // event name for event actions
}

// Content is the service's truth for one resource (nil = not found).
type Content struct {
	IsModel bool
	M       absval.KV
	L       absval.List
}

func (c *Content) clone() *Content {
	if c == nil {
		return nil
	}
	n := &Content{IsModel: c.IsModel}
	if c.IsModel {
		n.M = absval.KV{}
		for k, v := range c.M {
			n.M[k] = v
		}
	} else {
		n.L = append(absval.List{}, c.L...)
	}
	return n
}

// Abs renders "M kv" / "C list" / "none".
func (c *Content) Abs() string {
	if c == nil {
		return "none"
	}
	if c.IsModel {
		return "M\t" + absKVOf(c.M)
	}
	return "C\t" + absListOf(c.L)
}

func absV(v absval.V) string {
	switch v.K {
	case 'x':
		return "x"
	case 'r', 's':
		return string(v.K) + strconv.Itoa(v.N)
	}
	return string(v.K) + strconv.Itoa(v.N)
}

func absKVOf(m absval.KV) string {
	ks := make([]int, 0, len(m))
	for k := range m {
		ks = append(ks, k)
	}
	sort.Ints(ks)
	p := make([]string, len(ks))
	for i, k := range ks {
		p[i] = strconv.Itoa(k) + ":" + absV(m[k])
	}
	return strings.Join(p, ";")
}

func absListOf(l absval.List) string {
	p := make([]string, len(l))
	for i, v := range l {
		p[i] = absV(v)
	}
	return strings.Join(p, ",")
}

// Run is one history being executed: the world, the recorded actions and the abstract trace.
type Run struct {
	W       *World
	Actions []Action
	Lines   []string // abstract trace
	rawPos  int
	reqKind map[int]string
	// ActionLog, when set, receives every action (one JSON object per line) before it is executed, so that a
	// history that kills the process can still be replayed
	ActionLog io.Writer
}

// NewRun starts a gateway.
func NewRun(cfgs ...func(*server.Config)) *Run {
	return &Run{W: NewWorld(cfgs...), reqKind: map[int]string{}}
}

func tokenAbs(raw json.RawMessage) string {
	if len(raw) == 0 || string(raw) == "null" {
		return "-"
	}
	var t struct{ T *int }
	if json.Unmarshal(raw, &t) == nil && t.T != nil {
		return "t" + strconv.Itoa(*t.T)
	}
	return "u" + fmt.Sprintf("%x", string(raw))
}

// flush converts new raw trace entries into abstract lines.
func (r *Run) flush() {
	tr := r.W.Trace()
	for _, e := range tr[r.rawPos:] {
		switch e.Kind {
		case "frame-out":
			r.Lines = append(r.Lines, AbsFrameOut(e.C, r.W.Anon(e.Text)))
			// raw copy for isolation / well-formedness scans
			r.Lines = append(r.Lines, "RAWOUT\t"+e.C+"\t"+fmt.Sprintf("%x", r.W.Anon(e.Text)))
		case "frame-in":
			r.Lines = append(r.Lines, AbsFrameIn(e.C, e.Text))
		case "connect":
			r.Lines = append(r.Lines, "CONN\t"+e.C)
		case "disconnect":
			r.Lines = append(r.Lines, "DISC\t"+e.C)
		case "mqsub", "mqunsub":
			k := strings.ToUpper(e.Kind)
			switch {
			case strings.HasPrefix(e.Subj, "event."):
				r.Lines = append(r.Lines, k+"\tevent\t"+AbsRID(e.Subj[6:]))
			case strings.HasPrefix(e.Subj, "conn."):
				r.Lines = append(r.Lines, k+"\tconn\t"+r.W.label(e.Subj[5:]))
			default:
				r.Lines = append(r.Lines, k+"\tother\t"+e.Subj)
			}
		case "mqsubfail", "mqsubdup", "mqunsubbad":
			r.Lines = append(r.Lines, strings.ToUpper(e.Kind)+"\t"+fmt.Sprintf("%x", e.Subj))
		case "mqreq":
			var p struct {
				CID   string          `json:"cid"`
				Token json.RawMessage `json:"token"`
				Query string          `json:"query"`
			}
			json.Unmarshal([]byte(e.Text), &p)
			typ, rest := e.Subj, ""
			if i := strings.IndexByte(e.Subj, '.'); i > 0 {
				typ, rest = e.Subj[:i], e.Subj[i+1:]
			}
			if strings.HasPrefix(e.Subj, "_QUERY_") {
				// query request: subject _QUERY_<resource>_<seq>
				typ = "query"
				if f := strings.Split(e.Subj, "_"); len(f) >= 4 {
					rest = "test.r" + f[2]
				}
			}
			name, method := rest, "-"
			if e.Subj == "auth.renew" {
				typ = "tokenreset" // the subject the harness names in its system.tokenReset events
			}
			if typ == "call" || typ == "auth" {
				if j := strings.LastIndexByte(rest, '.'); j > 0 {
					name, method = rest[:j], rest[j+1:]
				}
			}
			cid := "-"
			if p.CID != "" {
				cid = r.W.label(p.CID)
			}
			q := "-"
			if p.Query != "" {
				q = fmt.Sprintf("%x", r.W.Anon(p.Query))
			}
			r.reqKind[e.N] = typ
			ridAbs := AbsRID(name)
			if p.Query != "" && (typ == "get" || typ == "query") {
				ridAbs = AbsRID(name + "?" + p.Query)
			}
			r.Lines = append(r.Lines, strings.Join([]string{"MQREQ", strconv.Itoa(e.N), typ, ridAbs, method, cid, tokenAbs(p.Token), q, fmt.Sprintf("%x", r.W.Anon(e.Subj))}, "\t"))
		case "toktask":
			tid := "-"
			if e.Subj != "" {
				tid = e.Subj
			}
			r.Lines = append(r.Lines, "TOKTASK\t"+e.C+"\t"+tokenAbs(json.RawMessage(e.Text))+"\t"+tid)
		case "sched":
			r.Lines = append(r.Lines, "SCHED\t"+e.Text)
		case "site":
			r.Lines = append(r.Lines, "SITE\t"+e.Subj+"\t"+e.C+"\t"+AbsRID(strings.TrimSuffix(e.Text, "?")))
		case "error":
			r.Lines = append(r.Lines, "ERRLOG\t"+fmt.Sprintf("%x", r.W.Anon(e.Text)))
		case "evict":
			r.Lines = append(r.Lines, "EVICT\t"+AbsRID(e.Subj))
		case "http":
			// HTTP <label> <method> <hex url>
			mu := strings.SplitN(e.Subj, " ", 2)
			if len(mu) == 2 {
				r.Lines = append(r.Lines, "HTTP\t"+e.C+"\t"+mu[0]+"\t"+fmt.Sprintf("%x", mu[1]))
			}
		case "httpresp":
			// HTTPRESP <label> <status> <kind: empty | error:<code> | data> <location rid or -> <hex headers>
			kind := "data"
			body := strings.TrimSpace(e.Text)
			var eo struct {
				Code    *string `json:"code"`
				Message *string `json:"message"`
			}
			switch {
			case body == "":
				kind = "empty"
			case json.Unmarshal([]byte(body), &eo) == nil && eo.Code != nil && eo.Message != nil:
				kind = "error:" + *eo.Code
			}
			loc := "-"
			for _, h := range strings.Split(e.Subj, ";") {
				if strings.HasPrefix(h, "Location=") {
					pth := strings.TrimPrefix(h, "Location=")
					if strings.HasPrefix(pth, "/api/") {
						loc = AbsRID(strings.ReplaceAll(strings.SplitN(pth[5:], "?", 2)[0], "/", "."))
					} else {
						loc = "x" + fmt.Sprintf("%x", pth)
					}
				}
			}
			r.Lines = append(r.Lines, "HTTPRESP\t"+e.C+"\t"+strconv.Itoa(e.N)+"\t"+kind+"\t"+loc+"\t"+fmt.Sprintf("%x", e.Subj))
			r.Lines = append(r.Lines, "RAWOUT\t"+e.C+"\t"+fmt.Sprintf("%x", r.W.Anon(e.Text)))
		case "qvariants":
			var vs []string
			for _, v := range strings.Fields(e.Text) {
				vs = append(vs, AbsRID(v))
			}
			sort.Strings(vs)
			r.Lines = append(r.Lines, "QVARIANTS\t"+AbsRID(e.Subj)+"\t"+strings.Join(vs, ","))
		case "stop":
			r.Lines = append(r.Lines, "STOP\t"+e.Subj+"\t"+e.Text)
		case "mqclose":
			r.Lines = append(r.Lines, "MQCLOSE")
		}
	}
	r.rawPos = len(tr)
}

func (r *Run) client(label string) *Client {
	for _, c := range r.W.Clients {
		if c.Label == label {
			return c
		}
	}
	return nil
}

// Do executes one action and appends it to the history.
func (r *Run) Do(a Action) (ok bool) {
	ok = true
	// recorded before it is carried out: an action during which the gateway stalls belongs to the history
	r.Actions = append(r.Actions, a)
	if r.ActionLog != nil {
		b, _ := json.Marshal(a)
		r.ActionLog.Write(append(b, '\n'))
	}
	switch a.A {
	case "connect":
		var h http.Header
		if a.Headers != "" {
			h = http.Header{}
			for _, kv := range strings.Split(a.Headers, ";") {
				if i := strings.IndexByte(kv, '='); i > 0 {
					h.Add(kv[:i], kv[i+1:])
				}
			}
		}
		if _, err := r.W.Connect(h); err != nil {
			r.Lines = append(r.Lines, "CONNFAIL")
		}
	case "frame":
		c := r.client(a.C)
		if c == nil || c.closed {
			return false
		}
		r.W.Send(c, a.Text)
	case "grant":
		ok = r.W.Grant(a.Text)
	case "answer":
		var req *Req
		for _, q := range r.W.MQ.Pending() {
			if q.N == a.N {
				req = q
			}
		}
		if req == nil {
			return false
		}
		r.flush()
		r.Lines = append(r.Lines, "MQRESP\t"+strconv.Itoa(a.N)+"\t"+a.Abs)
		switch a.Err {
		case "":
			r.W.Answer(req, []byte(a.Text), nil)
		case "timeout":
			r.W.Answer(req, nil, reserr.ErrTimeout)
		case "notfound":
			r.W.Answer(req, nil, reserr.ErrNotFound)
		case "toolong":
			r.W.Answer(req, nil, reserr.ErrSubjectTooLong)
		default:
			r.W.Answer(req, nil, errors.New(a.Err))
		}
	case "event":
		r.flush()
		if r.W.MQ.HasSub(a.Subj) {
			if a.Abs != "" {
				r.Lines = append(r.Lines, "MQEV\t"+a.Abs)
			} else {
				r.Lines = append(r.Lines, "MQBADEV\t"+AbsRID(strings.TrimPrefix(a.Subj, "event.")))
			}
		}
		ok = r.W.Event(a.Subj, a.Ev, []byte(a.Text))
	case "connevent":
		// event on conn.<cid>.<ev> for the labelled connection
		cid := r.W.CIDs()[a.C]
		if cid == "" {
			return false
		}
		r.flush()
		if r.W.MQ.HasSub("conn."+cid) && a.Abs != "bad" {
			r.Lines = append(r.Lines, "CONNEV\t"+a.C+"\t"+a.Abs)
		}
		ok = r.W.Event("conn."+cid, a.Ev, []byte(a.Text))
	case "sysevent":
		r.flush()
		if a.Abs != "bad" {
			r.Lines = append(r.Lines, "SYSEV\t"+a.Abs)
		}
		ok = r.W.Event("system", a.Ev, []byte(strings.ReplaceAll(a.Text, "$CID:"+a.C, r.W.CIDs()[a.C])))
	case "evict":
		ok = r.W.Evict(a.Subj)
	case "disconnect":
		c := r.client(a.C)
		if c == nil || c.closed {
			return false
		}
		r.W.Disconnect(c)
	case "http":
		h := http.Header{}
		for _, kv := range strings.Split(a.Headers, ";") {
			if i := strings.IndexByte(kv, '='); i > 0 {
				h.Add(kv[:i], kv[i+1:])
			}
		}
		r.W.HTTP(a.Method, a.Subj, []byte(a.Text), h)
	case "stop":
		r.W.StopNow(a.Subj)
	case "q":
		r.flush()
		r.Lines = append(r.Lines, a.Abs)
	case "note":
		r.flush()
		r.Lines = append(r.Lines, a.Abs)
	}
	r.W.PollHTTP()
	r.flush()
	return ok
}

// Snapshot renders the introspection snapshot as abstract lines (per connection subscription, per cache entry).
func (r *Run) Snapshot() []string {
	var out []string
	for _, c := range r.W.Serv.VerifSnapshot() {
		for _, s := range c.Subs {
			refs := make([]string, 0, len(s.Refs))
			for rid, n := range s.Refs {
				refs = append(refs, AbsRID(rid)+"*"+strconv.Itoa(n))
			}
			sort.Strings(refs)
			rf := strings.Join(refs, ",")
			if rf == "" {
				rf = "-"
			}
			out = append(out, fmt.Sprintf("SNAPSUB\t%s\t%s\t%d\t%d\t%d\t%d\t%d\t%d\t%d\t%s", r.W.label(c.CID), AbsRID(s.RID), s.State, s.Direct, s.Indirect, s.IndirectSent, s.Version, s.QueueFlag, s.EventQueue, rf))
		}
	}
	for _, e := range r.W.Serv.VerifCache().VerifEntries() {
		nsubs := 0
		var who []string
		for _, rs := range e.Resources {
			nsubs += len(rs.Subs)
			for _, sb := range rs.Subs {
				cid := sb
				if i := strings.IndexByte(sb, ' '); i > 0 {
					cid = sb[:i]
				}
				who = append(who, r.W.label(cid))
			}
		}
		ws := strings.Join(who, ",")
		if ws == "" {
			ws = "-"
		}
		out = append(out, fmt.Sprintf("SNAPENT\t%s\t%d\t%t\t%t\t%d\t%d\t%s", AbsRID(e.Name), e.Count, e.HasMQSub, e.InEvictQueue, nsubs, len(e.Resources), ws))
	}
	return out
}
