// Package gen holds the deterministic PRNG and the structured input generators
// shared by the correspondence harnesses. Every random choice derives from one seed.
package gen

import (
	"encoding/hex"
	"math/rand"
	"strings"
)

// R is a seeded PRNG.
type R struct{ *rand.Rand }

// New returns a generator for the seed.
func New(seed int64) *R { return &R{rand.New(rand.NewSource(seed))} }

// Pick returns one of the strings.
func (r *R) Pick(xs ...string) string { return xs[r.Intn(len(xs))] }

// Hex encodes bytes for the case files.
func Hex(s string) string { return hex.EncodeToString([]byte(s)) }

// Boundary bytes used by every scanner generator.
var Boundary = []byte{0, 9, 10, 13, 31, 32, 33, 42, 44, 46, 47, 62, 63, 126, 127, 128, 0xc3, 0xa9, 0xff, '%', '{', '}'}

// Token returns a short token over a small alphabet (so collisions, prefixes and suffixes are frequent).
func (r *R) Token() string {
	n := 1 + r.Intn(3)
	var b strings.Builder
	for i := 0; i < n; i++ {
		b.WriteByte("abfo"[r.Intn(4)])
	}
	return b.String()
}

// RawBytes returns a short arbitrary byte string biased towards boundary bytes.
func (r *R) RawBytes(max int) string {
	n := r.Intn(max + 1)
	b := make([]byte, n)
	for i := range b {
		switch r.Intn(3) {
		case 0:
			b[i] = Boundary[r.Intn(len(Boundary))]
		case 1:
			b[i] = byte(r.Intn(256))
		default:
			b[i] = "abc.x"[r.Intn(5)]
		}
	}
	return string(b)
}

// Mutate applies one random byte edit.
func (r *R) Mutate(s string) string {
	b := []byte(s)
	switch r.Intn(4) {
	case 0: // insert
		i := r.Intn(len(b) + 1)
		c := Boundary[r.Intn(len(Boundary))]
		b = append(b[:i], append([]byte{c}, b[i:]...)...)
	case 1: // delete
		if len(b) > 0 {
			i := r.Intn(len(b))
			b = append(b[:i], b[i+1:]...)
		}
	case 2: // replace
		if len(b) > 0 {
			b[r.Intn(len(b))] = Boundary[r.Intn(len(Boundary))]
		}
	default: // duplicate a separator
		if len(b) > 0 {
			i := r.Intn(len(b))
			b = append(b[:i], append([]byte{b[i]}, b[i:]...)...)
		}
	}
	return string(b)
}
