package main

import (
	"encoding/json"
	"fmt"
	"os"
	"strconv"
	"strings"

	"github.com/resgateio/resgate/server"
	"verif/harness/internal/absval"
	"verif/harness/internal/gen"
	"verif/harness/internal/gw"
)

// Profile tunes the random exploration.
type Profile struct {
	Name        string
	Clients     int
	Resources   int
	Stimuli     int  // external stimuli per history
	Refs        bool // resources reference each other (graphs with sharing and cycles)
	Collections bool
	Faults      bool // failing / timing-out service answers
	Disconnect  bool
	Unsub       bool
	Gets        bool
	Evict       bool
	Reaccess    bool
	Tokens      bool
	Resets      bool
	Deletes     bool
	Calls       bool
	Clean       bool // avoid the triggers of recorded known findings
	Throttle    int
}

// Explorer drives one history.
type Explorer struct {
	R      *gen.R
	P      Profile
	Run    *gw.Run
	Truth  map[string]*gw.Content
	nextID map[string]uint64
	tag    int
	seq    int
	// bookkeeping for clean-mode guards: outstanding client requests per (client, rid)
	outstanding map[string]int
	direct      map[string]int
	reqOf       map[string]string // "c id" -> "kind rid"
	steps       int
}

func name(n int) string { return "test.r" + strconv.Itoa(n) }

func (x *Explorer) fresh() int { x.tag++; return x.tag }

func (x *Explorer) genValue(refOK bool) absval.V {
	k := x.R.Intn(12)
	switch {
	case k < 3 && refOK && x.P.Refs:
		return absval.V{K: 'r', N: x.R.Intn(x.P.Resources)}
	case k < 4 && refOK && x.P.Refs:
		return absval.V{K: 's', N: x.R.Intn(x.P.Resources)}
	case k < 5:
		return absval.V{K: 'd', N: x.fresh()}
	}
	return absval.V{K: 'p', N: x.fresh()}
}

func (x *Explorer) initTruth() {
	x.Truth = map[string]*gw.Content{}
	for i := 0; i < x.P.Resources; i++ {
		c := &gw.Content{IsModel: !x.P.Collections || x.R.Intn(3) > 0}
		if c.IsModel {
			c.M = absval.KV{}
			for k := x.R.Intn(3); k >= 0; k-- {
				c.M[x.R.Intn(4)] = x.genValue(true)
			}
		} else {
			for k := x.R.Intn(4); k > 0; k-- {
				c.L = append(c.L, x.genValue(true))
			}
		}
		x.Truth[name(i)] = c
	}
	if x.R.Intn(4) == 0 {
		x.Truth[name(x.R.Intn(x.P.Resources))] = nil // a resource that does not exist
	}
}

func (x *Explorer) truthLines() []string {
	var out []string
	for i := 0; i < x.P.Resources; i++ {
		out = append(out, "TRUTH\t"+strconv.Itoa(i)+"\t"+x.Truth[name(i)].Abs())
	}
	return out
}

func contentJSON(c *gw.Content) string {
	if c.IsModel {
		return `{"model":` + c.M.JSON() + `}`
	}
	return `{"collection":` + c.L.JSON() + `}`
}

// answerFor builds the answer action for a pending request.
func (x *Explorer) answerFor(q *gw.Req) gw.Action {
	a := gw.Action{A: "answer", N: q.N}
	typ, rest := q.Subject, ""
	if i := strings.IndexByte(q.Subject, '.'); i > 0 {
		typ, rest = q.Subject[:i], q.Subject[i+1:]
	}
	if q.TooLong {
		a.Err, a.Abs = "toolong", "err\tsystem.subjectTooLong"
		return a
	}
	fault := x.P.Faults && x.R.Intn(8) == 0
	switch typ {
	case "get":
		c := x.Truth[rest]
		switch {
		case fault && x.R.Intn(2) == 0:
			a.Err, a.Abs = "timeout", "err\tsystem.timeout"
		case fault:
			a.Text, a.Abs = `{"error":{"code":"system.internalError","message":"boom"}}`, "err\tsystem.internalError"
		case c == nil:
			a.Text, a.Abs = `{"error":{"code":"system.notFound","message":"Not found"}}`, "err\tsystem.notFound"
		default:
			a.Text, a.Abs = `{"result":`+contentJSON(c)+`}`, "get\t"+c.Abs()
		}
	case "access":
		switch {
		case fault && x.R.Intn(3) == 0:
			a.Err, a.Abs = "timeout", "err\tsystem.timeout"
		case fault && x.R.Intn(2) == 0:
			a.Text, a.Abs = `{"error":{"code":"system.accessDenied","message":"Access denied"}}`, "err\tsystem.accessDenied"
		case fault:
			a.Text, a.Abs = `{"result":{"get":false}}`, "access\t0\t"
		default:
			call := x.R.Pick("*", "*", "set,foo", "")
			a.Text, a.Abs = `{"result":{"get":true,"call":"`+call+`"}}`, "access\t1\t"+fmt.Sprintf("%x", call)
		}
	case "call", "auth":
		switch {
		case fault:
			a.Text, a.Abs = `{"error":{"code":"system.methodNotFound","message":"Method not found"}}`, "err\tsystem.methodNotFound"
		case x.R.Intn(3) == 0 && x.P.Calls:
			n := x.R.Intn(x.P.Resources)
			a.Text, a.Abs = `{"resource":{"rid":"`+name(n)+`"}}`, "resource\t"+strconv.Itoa(n)
		default:
			v := x.fresh()
			a.Text, a.Abs = `{"result":`+strconv.Itoa(v)+`}`, "result\tp"+strconv.Itoa(v)
		}
	default:
		a.Text, a.Abs = `{"result":null}`, "result\tnull"
	}
	return a
}

// svcEvent mutates the truth of a resource the gateway is subscribed to and returns the event action.
func (x *Explorer) svcEvent() (gw.Action, bool) {
	var cands []int
	for i := 0; i < x.P.Resources; i++ {
		if x.Run.W.MQ.HasSub("event."+name(i)) && x.Truth[name(i)] != nil {
			cands = append(cands, i)
		}
	}
	if len(cands) == 0 {
		return gw.Action{}, false
	}
	n := cands[x.R.Intn(len(cands))]
	c := x.Truth[name(n)]
	a := gw.Action{A: "event", Subj: "event." + name(n)}
	sn := strconv.Itoa(n)
	k := x.R.Intn(20)
	switch {
	case k < 3:
		x.seq++
		a.Ev, a.Text = "custom", `{"seq":`+strconv.Itoa(x.seq)+`}`
		a.Abs = sn + "\tcustom\tcustom/" + strconv.Itoa(x.seq)
	case k < 4 && x.P.Reaccess:
		a.Ev, a.Text, a.Abs = "reaccess", "", sn+"\treaccess"
	case k < 5 && x.P.Deletes:
		a.Ev, a.Text, a.Abs = "delete", "", sn+"\tdelete"
		x.Truth[name(n)] = nil
	case c.IsModel:
		ch := absval.KV{}
		for e := 1 + x.R.Intn(2); e > 0; e-- {
			key := x.R.Intn(4)
			if _, ok := c.M[key]; ok && x.R.Intn(4) == 0 {
				ch[key] = absval.V{K: 'x'}
			} else {
				ch[key] = x.genValue(true)
			}
		}
		ch[9] = absval.V{K: 'p', N: x.fresh()} // makes every change event unique and effective
		for key, v := range ch {
			if v.K == 'x' {
				delete(c.M, key)
			} else {
				c.M[key] = v
			}
		}
		a.Ev, a.Text = "change", `{"values":`+ch.JSON()+`}`
		a.Abs = sn + "\tchange\t" + absKV(ch)
	default:
		if len(c.L) > 0 && x.R.Intn(2) == 0 {
			idx := x.R.Intn(len(c.L))
			c.L = append(c.L[:idx:idx], c.L[idx+1:]...)
			a.Ev, a.Text = "remove", `{"idx":`+strconv.Itoa(idx)+`}`
			a.Abs = sn + "\tremove\t" + strconv.Itoa(idx)
		} else {
			idx := x.R.Intn(len(c.L) + 1)
			v := x.genValue(true)
			c.L = append(c.L[:idx:idx], append(absval.List{v}, c.L[idx:]...)...)
			a.Ev, a.Text = "add", `{"idx":`+strconv.Itoa(idx)+`,"value":`+v.JSON()+`}`
			a.Abs = sn + "\tadd\t" + strconv.Itoa(idx) + "\t" + v.String()
		}
	}
	return a, true
}

func absKV(m absval.KV) string { return (&gw.Content{IsModel: true, M: m}).Abs()[2:] }

func (x *Explorer) clientFrame(c *gw.Client) (gw.Action, bool) {
	x.nextID[c.Label]++
	id := x.nextID[c.Label]
	n := x.R.Intn(x.P.Resources)
	rid := name(n)
	key := c.Label + " " + rid
	kinds := []string{"subscribe", "subscribe", "subscribe"}
	if x.P.Unsub {
		kinds = append(kinds, "unsubscribe", "unsubscribe")
	}
	if x.P.Gets {
		kinds = append(kinds, "get")
	}
	if x.P.Calls {
		kinds = append(kinds, "call", "auth")
	}
	kind := kinds[x.R.Intn(len(kinds))]
	if x.P.Clean && kind == "unsubscribe" && x.outstanding[key] > 0 {
		kind = "subscribe" // known finding P1: unsubscribe while a request for the same rid is outstanding
	}
	var frame string
	switch kind {
	case "unsubscribe":
		if x.R.Intn(4) == 0 {
			cnt := x.R.Intn(4) - 1
			frame = fmt.Sprintf(`{"id":%d,"method":"unsubscribe.%s","params":{"count":%d}}`, id, rid, cnt)
		} else {
			frame = fmt.Sprintf(`{"id":%d,"method":"unsubscribe.%s"}`, id, rid)
		}
	case "call":
		frame = fmt.Sprintf(`{"id":%d,"method":"call.%s.%s","params":{"x":1}}`, id, rid, x.R.Pick("set", "foo", "bar"))
	case "auth":
		frame = fmt.Sprintf(`{"id":%d,"method":"auth.%s.login"}`, id, rid)
	default:
		frame = fmt.Sprintf(`{"id":%d,"method":"%s.%s"}`, id, kind, rid)
	}
	if kind != "unsubscribe" {
		x.outstanding[key]++
		x.reqOf[c.Label+" "+strconv.FormatUint(id, 10)] = key
	}
	return gw.Action{A: "frame", C: c.Label, Text: frame}, true
}

// noteResponses keeps the outstanding-request bookkeeping in step with responses seen in the trace.
func (x *Explorer) noteResponses(from int) {
	for _, l := range x.Run.Lines[from:] {
		f := strings.Split(l, "\t")
		if f[0] == "RESP" && len(f) >= 3 {
			if key, ok := x.reqOf[f[1]+" "+f[2]]; ok {
				x.outstanding[key]--
				delete(x.reqOf, f[1]+" "+f[2])
			}
		}
	}
}

func (x *Explorer) quiesce(label string) {
	if x.Run.W.Quiescent() {
		lines := append([]string{"Q\t" + label}, x.truthLines()...)
		lines = append(lines, x.Run.Snapshot()...)
		lines = append(lines, "ENDQ")
		x.Run.Do(gw.Action{A: "q", Abs: strings.Join(lines, "\n")})
	}
}

// Explore runs one random history and returns the run.
func Explore(seed int64, p Profile) (run *gw.Run, stall error) {
	x := &Explorer{R: gen.New(seed), P: p, nextID: map[string]uint64{}, outstanding: map[string]int{}, direct: map[string]int{}, reqOf: map[string]string{}}
	x.Run = gw.NewRun(func(c *server.Config) {
		c.ReferenceThrottle = p.Throttle
		c.ResetThrottle = p.Throttle
	})
	run = x.Run
	defer func() {
		if e := recover(); e != nil {
			if se, ok := e.(*gw.StallError); ok {
				stall = se
				return
			}
			panic(e)
		}
	}()
	x.initTruth()
	for i := 0; i < p.Clients; i++ {
		x.Run.Do(gw.Action{A: "connect"})
		c := x.Run.W.Clients[i]
		x.nextID[c.Label]++
		x.Run.Do(gw.Action{A: "frame", C: c.Label, Text: fmt.Sprintf(`{"id":%d,"method":"version","params":{"protocol":"1.2.1"}}`, x.nextID[c.Label])})
	}
	stimuli := 0
	for x.steps = 0; x.steps < 4000; x.steps++ {
		from := len(x.Run.Lines)
		ready := x.Run.W.Ready()
		pend := x.Run.W.MQ.Pending()
		internal := len(ready) + len(pend)
		if internal == 0 {
			x.quiesce("mid")
		}
		if internal == 0 && stimuli >= p.Stimuli {
			break
		}
		doStim := stimuli < p.Stimuli && (internal == 0 || x.R.Intn(10) < 3)
		if !doStim {
			k := x.R.Intn(internal)
			if k < len(ready) {
				x.Run.Do(gw.Action{A: "grant", Text: ready[k]})
			} else {
				x.Run.Do(x.answerFor(pend[k-len(ready)]))
			}
			x.noteResponses(from)
			continue
		}
		stimuli++
		var live []*gw.Client
		for _, c := range x.Run.W.Clients {
			if !cClosed(x.Run, c) {
				live = append(live, c)
			}
		}
		k := x.R.Intn(100)
		switch {
		case k < 45 && len(live) > 0:
			a, _ := x.clientFrame(live[x.R.Intn(len(live))])
			x.Run.Do(a)
		case k < 85:
			if a, ok := x.svcEvent(); ok {
				x.Run.Do(a)
			}
		case k < 90 && p.Disconnect && len(live) > 1:
			c := live[x.R.Intn(len(live))]
			x.Run.Do(gw.Action{A: "disconnect", C: c.Label})
			closed[x.Run][c.Label] = true
		case k < 95 && p.Evict:
			x.Run.Do(gw.Action{A: "evict", Subj: name(x.R.Intn(p.Resources))})
		default:
			if a, ok := x.svcEvent(); ok {
				x.Run.Do(a)
			}
		}
		x.noteResponses(from)
	}
	// final: evict everything that can be evicted when all clients are gone? (left to the lifecycle profile)
	x.quiesce("final")
	return run, nil
}

var closed = map[*gw.Run]map[string]bool{}

func cClosed(r *gw.Run, c *gw.Client) bool {
	m := closed[r]
	if m == nil {
		m = map[string]bool{}
		closed[r] = m
	}
	return m[c.Label]
}

func historyJSON(seed int64, p Profile, run *gw.Run) []byte {
	b, _ := json.MarshalIndent(struct {
		Seed    int64       `json:"seed"`
		Profile Profile     `json:"profile"`
		Actions []gw.Action `json:"actions"`
	}{seed, p, run.Actions}, "", " ")
	return b
}

// Replay re-executes a recorded history.
func Replay(path string) (run *gw.Run, stall error) {
	b, err := os.ReadFile(path)
	if err != nil {
		panic(err)
	}
	var h struct {
		Seed    int64       `json:"seed"`
		Profile Profile     `json:"profile"`
		Actions []gw.Action `json:"actions"`
	}
	if err := json.Unmarshal(b, &h); err != nil {
		panic(err)
	}
	p := h.Profile
	run = gw.NewRun(func(c *server.Config) {
		c.ReferenceThrottle = p.Throttle
		c.ResetThrottle = p.Throttle
	})
	defer func() {
		if e := recover(); e != nil {
			if se, ok := e.(*gw.StallError); ok {
				stall = se
				return
			}
			panic(e)
		}
	}()
	for _, a := range h.Actions {
		if a.A == "q" {
			// snapshots are taken afresh so that the replay shows the current code's state
			if run.W.Quiescent() {
				var lines []string
				for _, l := range strings.Split(a.Abs, "\n") {
					if strings.HasPrefix(l, "Q\t") || strings.HasPrefix(l, "TRUTH\t") {
						lines = append(lines, l)
					}
				}
				lines = append(lines, run.Snapshot()...)
				lines = append(lines, "ENDQ")
				a.Abs = strings.Join(lines, "\n")
				run.Do(a)
			}
			continue
		}
		run.Do(a)
	}
	return run, nil
}
