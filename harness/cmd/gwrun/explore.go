package main

import (
	"encoding/json"
	"fmt"
	"os"
	"sort"
	"strconv"
	"strings"

	"github.com/resgateio/resgate/server"
	"github.com/resgateio/resgate/server/rescache"
	"verif/harness/internal/absval"
	"verif/harness/internal/gen"
	"verif/harness/internal/gw"
)

// Profile tunes the random exploration.
type Profile struct {
	Name        string
	Clients     int
	Resources   int
	Stimuli     int  // external stimuli per history
	Refs        bool // resources reference each other (graphs with sharing and cycles)
	Collections bool
	Faults      bool // failing / timing-out service answers
	Disconnect  bool
	Unsub       bool
	Gets        bool
	Evict       bool
	Reaccess    bool
	Tokens      bool
	Resets      bool
	Deletes     bool
	Calls       bool
	Clean       bool // avoid the triggers of recorded known findings
	Throttle    int
	Denials     bool   // the access policy denies some (token, resource) pairs
	Malformed   bool   // malformed client frames, service answers, events and system events injected
	StopAt      bool   // inject Stop or messaging loss at a random step, then check the shutdown contract
	Queries     bool   // resources 0 and 1 are query resources (normalisation q=K -> q=K mod 2) with query events
	LongRids    bool   // resource ids around the control-line limit
	Endgame     bool   // finish by disconnecting every client and firing every eviction timer
	HTTP        bool   `json:",omitempty"` // HTTP GET / HEAD / POST requests (temporary connections) besides the WebSocket clients
	ResetFaults bool   `json:",omitempty"` // get requests for resources that did not change silently may fail (re-fetches of resets included)
	Legacy      bool   `json:",omitempty"` // some clients negotiate protocol 1.2.0 / 1.1.1 or send no version request
	Once        bool   `json:",omitempty"` // the fragment modelled by Comp/Core.v: one resource without references, verdicts drawn per connection and token, a refused client asks again only after a quiescent point; the state the service starts from is noted in the trace
	Scenario    string `json:",omitempty"` // phase-structured histories (scenario.go) instead of independent random stimuli
}

// Explorer drives one history.
type Explorer struct {
	R      *gen.R
	P      Profile
	Run    *gw.Run
	Truth  map[string]*gw.Content
	nextID map[string]uint64
	tag    int
	seq    int
	// bookkeeping for clean-mode guards: outstanding client requests per (client, rid)
	outstanding  map[string]int
	direct       map[string]int
	reqOf        map[string]string // "c id" -> "kind rid"
	tokens       map[string]int
	deletedRids  map[string]bool
	pol          map[string]accessPolicy
	pendingQuery map[string]*pendingQ
	steps        int
	// concentration of a history (about half of them): most requests come from one client and concern one
	// resource, and the answers to one kind of request for one resource are held back, so that multi-step
	// collisions on one (connection, resource) pair and long loading windows are frequent
	focusC, focusR int
	slowR          int
	slowTyp        string
	onceDone       map[string]bool // (profile flag Once) requests already made, by client and resource
	dirty          map[string]bool // resources changed silently (announced by a reset only) and not fetched successfully since
}

func name(n int) string { return "test.r" + strconv.Itoa(n) }

func (x *Explorer) fresh() int { x.tag++; return x.tag }

// refTargets lists the resources that resource `owner` may reference. In clean mode the reference graph is
// kept inside the class for which the gateway's collector is sound (DESIGN section 7): acyclic, resources with
// several referrers are leaves, no resource is referenced twice from one resource.
func (x *Explorer) refTargets(owner int) []int {
	var out []int
	R := x.P.Resources
	for t := 0; t < R; t++ {
		if !x.P.Clean {
			out = append(out, t)
			continue
		}
		// levels: 0,1 roots; 2 (when R > 3) a middle node owned by root 0; the rest leaves
		level := func(n int) int {
			switch {
			case n < 2:
				return 0
			case n == 2 && R > 3:
				return 1
			}
			return 2
		}
		lo, lt := level(owner), level(t)
		switch {
		case lo == 0 && lt == 2:
		case lo == 0 && lt == 1 && owner == 0:
		case lo == 1 && lt == 2:
		default:
			continue
		}
		if c := x.Truth[name(owner)]; c != nil {
			dup := false
			for _, v := range c.M {
				if v.K == 'r' && v.N == t {
					dup = true
				}
			}
			for _, v := range c.L {
				if v.K == 'r' && v.N == t {
					dup = true
				}
			}
			if dup {
				continue
			}
		}
		out = append(out, t)
	}
	return out
}

func (x *Explorer) genValue(owner int) absval.V {
	k := x.R.Intn(12)
	switch {
	case k < 3 && x.P.Refs:
		if ts := x.refTargets(owner); len(ts) > 0 {
			return absval.V{K: 'r', N: ts[x.R.Intn(len(ts))]}
		}
	case k < 4 && x.P.Refs:
		return absval.V{K: 's', N: x.R.Intn(x.P.Resources)}
	case k < 5:
		return absval.V{K: 'd', N: x.fresh()}
	}
	return absval.V{K: 'p', N: x.fresh()}
}

func (x *Explorer) initTruth() {
	x.Truth = map[string]*gw.Content{}
	for i := 0; i < x.P.Resources; i++ {
		c := &gw.Content{IsModel: !x.P.Collections || x.R.Intn(3) > 0}
		x.Truth[name(i)] = c
		if c.IsModel {
			c.M = absval.KV{}
			for k := x.R.Intn(3); k >= 0; k-- {
				c.M[x.R.Intn(4)] = x.genValue(i)
			}
		} else {
			for k := x.R.Intn(4); k > 0; k-- {
				c.L = append(c.L, x.genValue(i))
			}
		}
	}
	if x.R.Intn(4) == 0 && !x.P.Queries && !x.P.Once {
		x.Truth[name(x.R.Intn(x.P.Resources))] = nil // a resource that does not exist
	}
	if x.P.Queries {
		// resources 0 and 1 are query resources: they exist only with a query; the service normalises q=K to q=(K mod 2)
		for n := 0; n < 2 && n < x.P.Resources; n++ {
			x.Truth[name(n)] = nil
			for nq := 0; nq < 2; nq++ {
				c := &gw.Content{IsModel: n == 0, M: absval.KV{}}
				for k := x.R.Intn(3); k >= 0; k-- {
					if c.IsModel {
						c.M[x.R.Intn(4)] = absval.V{K: 'p', N: x.fresh()}
					} else {
						c.L = append(c.L, absval.V{K: 'p', N: x.fresh()})
					}
				}
				x.Truth[name(n)+"?q="+strconv.Itoa(nq)] = c
			}
		}
	}
}

func (x *Explorer) truthLines() []string {
	var out []string
	for i := 0; i < x.P.Resources; i++ {
		if x.P.Queries && i < 2 {
			// every alias a client may use maps to the truth of its normalised query
			for k := 0; k < 4; k++ {
				out = append(out, "TRUTH\t"+strconv.Itoa(i)+"q"+strconv.Itoa(k)+"\t"+x.Truth[name(i)+"?q="+strconv.Itoa(k%2)].Abs())
			}
			// without a query the service answers for its default query q=0
			out = append(out, "TRUTH\t"+strconv.Itoa(i)+"\t"+x.Truth[name(i)+"?q=0"].Abs())
			continue
		}
		out = append(out, "TRUTH\t"+strconv.Itoa(i)+"\t"+x.Truth[name(i)].Abs())
	}
	return out
}

func contentJSON(c *gw.Content) string {
	if c.IsModel {
		return `{"model":` + c.M.JSON() + `}`
	}
	return `{"collection":` + c.L.JSON() + `}`
}

// answerFor builds the answer action for a pending request.
func (x *Explorer) answerFor(q *gw.Req) gw.Action {
	a := gw.Action{A: "answer", N: q.N}
	typ, rest := q.Subject, ""
	if i := strings.IndexByte(q.Subject, '.'); i > 0 {
		typ, rest = q.Subject[:i], q.Subject[i+1:]
	}
	if q.TooLong {
		a.Err, a.Abs = "toolong", "err\tsystem.subjectTooLong"
		return a
	}
	fault := x.P.Faults && x.R.Intn(8) == 0
	if x.P.ResetFaults && typ == "get" && !x.dirty[rest] && x.R.Intn(6) == 0 {
		// the resource has not changed silently since it was last fetched: a failing (re-)fetch leaves nobody stale
		fault = true
	}
	if x.P.Malformed && x.R.Intn(6) == 0 {
		// a malformed or protocol-violating answer: the gateway must treat it as a failed request, nothing else
		bad := []string{`{`, ``, `null`, `[]`, `"x"`, `{"result":5}`, `{"result":{"model":{"k0":[1]}}}`, `{"result":{"model":{"k0":{"rid":""}}}}`,
			`{"result":{"model":{"k0":1},"collection":[1]}}`, `{"result":{}}`, `{"result":{"collection":[{"action":"delete"}]}}`,
			`{"result":{"model":{"k0":{"rid":"a b"}}}}`, `{"error":5}`, `{"error":{"code":7}}`, `{"result":{"get":"yes"}}`, `{"resource":{"rid":"*"}}`,
			`{"resource":{}}`, `{"result":{"model":{"k0":{"foo":1}}}}`, `{"result":{"collection":{}}}`, `{"meta":{"status":"x"},"result":{"get":true}}`,
			"\xff\xfe", `{"result":{"model":{"k0":{"rid":"test.r1","action":"delete"}}}}`,
			`{"meta":{"status":302,"header":{"Location":["/somewhere"]}}}`, `{"meta":{"status":404}}`, `{"meta":{"status":200}}`,
			`{"meta":{"status":500},"result":null}`, `{"result":{"model":{"k3":424242,"k0":[1]}}}`, `{"result":{"collection":[424243,{"rid":""}]}}`}
		a.Text = bad[x.R.Intn(len(bad))]
		a.Abs = "err\tmalformed"
		return a
	}
	if strings.HasPrefix(q.Subject, "_QUERY_") {
		// query request following a query event: subject _QUERY_<resource>_<seq>, payload {"query": normalised query}
		var pl struct {
			Query string `json:"query"`
		}
		json.Unmarshal(q.Payload, &pl)
		pq := x.pendingQuery[q.Subject]
		key := ""
		if pq != nil {
			key = name(pq.n) + "?" + pl.Query
		}
		old, okOld := map[string]*gw.Content(nil), false
		if pq != nil {
			old = pq.old
			_, okOld = old[key]
		}
		cur := x.Truth[key]
		switch {
		case pq == nil || !okOld || cur == nil:
			a.Text, a.Abs = `{"result":{"events":[]}}`, "qresult\tnone"
		case fault && !pq.exposed[key]:
			// the service fails to answer: for this variant the announced state stays what it was
			x.Truth[key] = old[key]
			if x.R.Intn(2) == 0 {
				a.Err, a.Abs = "timeout", "err\tsystem.timeout"
			} else {
				a.Text, a.Abs = `{"error":{"code":"system.internalError","message":"boom"}}`, "err\tsystem.internalError"
			}
		case x.R.Intn(9) == 0 && !pq.exposed[key]:
			// an improper answer (a value that is no RES value, after proper ones): discarded as a whole, so for this variant the
			// announced state stays what it was
			x.Truth[key] = old[key]
			if cur.IsModel {
				a.Text = x.R.Pick(`{"result":{"model":{"k3":424250,"k0":[1]}}}`, `{"result":{"events":[{"event":"change","data":{"values":{"k3":424251,"k0":{"rid":""}}}}]}}`,
					`{"result":{"collection":[1,2]}}`, `{"result":{"model":{"k2":424252,"k1":{"action":"nuke"}}}}`,
					`{"result":{"events":[null]}}`, `{"result":{"events":[7]}}`, `{"result":{"events":"x"}}`, `{"result":{"events":[null,null]}}`)
			} else {
				a.Text = x.R.Pick(`{"result":{"collection":[424253,{"action":"delete"}]}}`, `{"result":{"collection":[424254,[1]]}}`, `{"result":{"model":{"k0":1}}}`,
					`{"result":{"events":[{"event":"add","data":{"idx":0,"value":{"rid":""}}}]}}`, `{"result":{"events":[null]}}`, `{"result":{"events":[7]}}`,
					`{"result":{"events":{}}}`)
			}
			a.Abs = "err\tmalformed"
		case !cur.IsModel:
			a.Text, a.Abs = `{"result":{"collection":`+cur.L.JSON()+`}}`, "qresult\tcollection"
		case x.R.Intn(3) == 0:
			a.Text, a.Abs = `{"result":{"model":`+cur.M.JSON()+`}}`, "qresult\tmodel"
		default:
			// the events that turn the old state into the new one
			ch := absval.KV{}
			for k, v := range cur.M {
				if ov, ok := old[key].M[k]; !ok || ov != v {
					ch[k] = v
				}
			}
			for k := range old[key].M {
				if _, ok := cur.M[k]; !ok {
					ch[k] = absval.V{K: 'x'}
				}
			}
			if len(ch) == 0 {
				a.Text, a.Abs = `{"result":{"events":[]}}`, "qresult\tnone"
			} else {
				a.Text, a.Abs = `{"result":{"events":[{"event":"change","data":{"values":`+ch.JSON()+`}}]}}`, "qresult\tevents"
			}
		}
		return a
	}
	switch typ {
	case "get":
		var gp struct {
			Query string `json:"query"`
		}
		json.Unmarshal(q.Payload, &gp)
		c := x.Truth[rest]
		normQ := ""
		if gp.Query != "" {
			// normalise q=K to q=(K mod 2)
			k, _ := strconv.Atoi(strings.TrimPrefix(gp.Query, "q="))
			normQ = "q=" + strconv.Itoa(k%2)
			c = x.Truth[rest+"?"+normQ]
		} else if x.P.Queries && (rest == name(0) || rest == name(1)) {
			// a query resource asked for without a query: the service answers for its default query
			normQ = "q=0"
			c = x.Truth[rest+"?"+normQ]
		}
		if normQ != "" && c != nil && !(fault) {
			// (a consistent service: once a get answer has shown the state a pending query event announced, that state stands -
			// the query request for this variant is then answered properly, not failed)
			for _, pq := range x.pendingQuery {
				if name(pq.n) == rest {
					if pq.exposed == nil {
						pq.exposed = map[string]bool{}
					}
					pq.exposed[rest+"?"+normQ] = true
				}
			}
			body := contentJSON(c)
			a.Text = `{"result":` + body[:len(body)-1] + `,"query":"` + normQ + `"}}`
			a.Abs = "get\t" + c.Abs() + "\tnorm=" + gw.AbsRID(rest+"?"+normQ)
			return a
		}
		switch {
		case fault && x.R.Intn(2) == 0:
			a.Err, a.Abs = "timeout", "err\tsystem.timeout"
		case fault && x.P.HTTP && x.R.Intn(2) == 0:
			a.Text, a.Abs = `{"error":{"code":"system.methodNotFound","message":"Method not found"}}`, "err\tsystem.methodNotFound"
		case fault:
			a.Text, a.Abs = `{"error":{"code":"system.internalError","message":"boom"}}`, "err\tsystem.internalError"
		case c == nil:
			a.Text, a.Abs = `{"error":{"code":"system.notFound","message":"Not found"}}`, "err\tsystem.notFound"
		default:
			a.Text, a.Abs = `{"result":`+contentJSON(c)+`}`, "get\t"+c.Abs()
			delete(x.dirty, rest)
		}
	case "access":
		// the access policy is a function of (token, resource) that only changes together with an announcement
		// (reaccess event, token event, system reset): the service is consistent
		var pl struct {
			Token json.RawMessage `json:"token"`
		}
		json.Unmarshal(q.Payload, &pl)
		pol := x.policy(string(pl.Token), rest)
		if x.P.Once {
			// the fragment of Comp/Core.v: the verdict is drawn per connection
			var pc struct {
				CID string `json:"cid"`
			}
			json.Unmarshal(q.Payload, &pc)
			pol = x.policy(string(pl.Token)+"/"+pc.CID, rest)
			if pol.deny != 0 && !fault {
				// from the moment a denial is on its way that client sends nothing until the next quiescent point: a request
				// queued behind the denial would create a second Subscription object while the first one may still be a
				// subscriber of the cache entry, and the order in which one cache task serves two objects of one connection is
				// Go's map iteration order (the machine of Comp/Core.v serves them in creation order)
				if x.onceDone == nil {
					x.onceDone = map[string]bool{}
				}
				for label, cid := range x.Run.W.CIDs() {
					if cid == pc.CID {
						x.onceDone[label] = true
					}
				}
			}
		}
		switch {
		case fault && x.R.Intn(2) == 0:
			a.Err, a.Abs = "timeout", "err\tsystem.timeout"
		case fault:
			a.Text, a.Abs = `{"error":{"code":"system.internalError","message":"boom"}}`, "err\tsystem.internalError"
		case pol.deny == 1:
			a.Text, a.Abs = `{"error":{"code":"system.accessDenied","message":"Access denied"}}`, "err\tsystem.accessDenied"
		case pol.deny == 2:
			a.Text, a.Abs = `{"result":{"get":false,"call":"`+pol.call+`"}}`, "access\t0\t"+fmt.Sprintf("%x", pol.call)
		default:
			a.Text, a.Abs = `{"result":{"get":true,"call":"`+pol.call+`"}}`, "access\t1\t"+fmt.Sprintf("%x", pol.call)
		}
		a.Text = x.withMeta(a.Text)
	case "call", "auth":
		switch {
		case fault:
			a.Text, a.Abs = `{"error":{"code":"system.methodNotFound","message":"Method not found"}}`, "err\tsystem.methodNotFound"
		case strings.Contains(rest, ".res") && len(rest) > 0 && rest[len(rest)-1] >= '0' && rest[len(rest)-1] <= '9' && strings.HasSuffix(rest[:len(rest)-1], ".res"):
			// method resN: answered with a resource response naming resource N
			n := int(rest[len(rest)-1] - '0')
			a.Text, a.Abs = `{"resource":{"rid":"`+name(n)+`"}}`, "resource\t"+strconv.Itoa(n)
		case x.R.Intn(3) == 0 && x.P.Calls:
			n := x.R.Intn(x.P.Resources)
			a.Text, a.Abs = `{"resource":{"rid":"`+name(n)+`"}}`, "resource\t"+strconv.Itoa(n)
		default:
			v := x.fresh()
			a.Text, a.Abs = `{"result":`+strconv.Itoa(v)+`}`, "result\tp"+strconv.Itoa(v)
		}
		a.Text = x.withMeta(a.Text)
	default:
		a.Text, a.Abs = `{"result":null}`, "result\tnull"
	}
	return a
}

// svcEvent mutates the truth of a resource the gateway is subscribed to and returns the event action.
func (x *Explorer) svcEvent() (gw.Action, bool) {
	var cands []int
	for i := 0; i < x.P.Resources; i++ {
		if x.Run.W.MQ.HasSub("event."+name(i)) && (x.Truth[name(i)] != nil || (x.P.Queries && i < 2)) {
			cands = append(cands, i)
		}
	}
	if len(cands) == 0 {
		return gw.Action{}, false
	}
	n := cands[x.R.Intn(len(cands))]
	if x.focusR >= 0 && x.R.Intn(10) < 5 {
		for _, cn := range cands {
			if cn == x.focusR {
				n = cn
			}
		}
	}
	c := x.Truth[name(n)]
	a := gw.Action{A: "event", Subj: "event." + name(n)}
	sn := strconv.Itoa(n)
	if x.P.Queries && n < 2 {
		// a query event: every normalised variant may have changed; one query event per resource in flight at a time
		for subj, pq := range x.pendingQuery {
			if pq.n == n && x.queryOpen(subj) {
				return gw.Action{}, false
			}
		}
		x.seq++
		subj := fmt.Sprintf("_QUERY_%d_%d", n, x.seq)
		pq := &pendingQ{n: n, old: map[string]*gw.Content{}}
		for nq := 0; nq < 2; nq++ {
			key := name(n) + "?q=" + strconv.Itoa(nq)
			cur := x.Truth[key]
			pq.old[key] = &gw.Content{IsModel: cur.IsModel, M: absval.KV{}, L: append(absval.List(nil), cur.L...)}
			for k, v := range cur.M {
				pq.old[key].M[k] = v
			}
			if !cur.IsModel {
				if x.R.Intn(3) > 0 {
					nl := append(absval.List(nil), cur.L...)
					for e := 1 + x.R.Intn(2); e > 0; e-- {
						if len(nl) > 0 && x.R.Intn(2) == 0 {
							i := x.R.Intn(len(nl))
							nl = append(nl[:i:i], nl[i+1:]...)
						} else {
							i := x.R.Intn(len(nl) + 1)
							nl = append(nl[:i:i], append(absval.List{{K: 'p', N: x.fresh()}}, nl[i:]...)...)
						}
					}
					x.Truth[key] = &gw.Content{IsModel: false, L: nl}
				}
				continue
			}
			if x.R.Intn(3) > 0 {
				nm := absval.KV{}
				for k, v := range cur.M {
					nm[k] = v
				}
				for e := 1 + x.R.Intn(2); e > 0; e-- {
					k := x.R.Intn(4)
					if _, ok := nm[k]; ok && x.R.Intn(4) == 0 {
						delete(nm, k)
					} else {
						nm[k] = absval.V{K: 'p', N: x.fresh()}
					}
				}
				x.Truth[key] = &gw.Content{IsModel: true, M: nm}
			}
		}
		x.pendingQuery[subj] = pq
		a.Ev, a.Text = "query", `{"subject":"`+subj+`"}`
		a.Abs = sn + "\tquery\t" + strconv.Itoa(x.seq)
		return a, true
	}
	if x.P.Malformed && x.R.Intn(4) == 0 {
		// a malformed or inapplicable event: discarded as a whole, the truth does not change
		type be struct{ ev, payload string }
		var bad []be
		if c.IsModel {
			bad = []be{{"change", `{"values":{"k3":424244,"k0":[1]}}`}, {"change", `{"values":{"k2":424245,"k1":{"rid":""}}}`},
				{"change", `{"values":{"k0":[1]}}`}, {"change", `"x"`}, {"change", `{"values":{"k1":{"rid":""}}}`}, {"change", `{"values":`},
				{"add", `{"idx":0,"value":1}`}, {"remove", `{"idx":0}`}, {"change", `{"values":{"k2":{"action":"nuke"}}}`}, {"change", ``},
				{"change", `{"values":{"k0":{"rid":"a","data":1}}}`}, {"change", `[]`}}
		} else {
			bad = []be{{"add", `{"idx":-1,"value":1}`}, {"add", `{"idx":99,"value":1}`}, {"add", `{"idx":0}`}, {"add", `{"idx":"0","value":1}`},
				{"remove", `{"idx":-1}`}, {"remove", `{"idx":99}`}, {"remove", `{"idx":1.5}`}, {"add", `{"idx":0,"value":[1]}`},
				{"change", `{"values":{"k0":1}}`}, {"add", `{"idx":0,"value":{"action":"delete"}}`}, {"remove", ``}, {"add", `x`},
				{"remove", `{"idx":99999999999999999999}`}, {"add", `{"idx":0,"value":{"rid":"a b"}}`}}
		}
		b := bad[x.R.Intn(len(bad))]
		a.Ev, a.Text, a.Abs = b.ev, b.payload, ""
		return a, true
	}
	k := x.R.Intn(20)
	switch {
	case k < 3:
		x.seq++
		a.Ev, a.Text = "custom", `{"seq":`+strconv.Itoa(x.seq)+`}`
		a.Abs = sn + "\tcustom\tcustom/" + strconv.Itoa(x.seq)
	case k < 4 && x.P.Reaccess:
		if x.P.Denials {
			x.changePolicy(name(n))
		}
		a.Ev, a.Text, a.Abs = "reaccess", "", sn+"\treaccess"
	case (k < 5 || (k < 8 && x.P.Resets)) && x.P.Deletes && !(x.P.Clean && (x.anyOutstanding(name(n)) || hasRefs(c) || x.referenced(n))):
		// (clean mode: no delete while a request for the resource is outstanding — recorded finding KF-P1)
		a.Ev, a.Text, a.Abs = "delete", "", sn+"\tdelete"
		x.Truth[name(n)] = nil
		x.deletedRids[name(n)] = true
	case c.IsModel:
		ch := absval.KV{}
		for e := 1 + x.R.Intn(3); e > 0; e-- {
			key := x.R.Intn(4)
			if _, ok := c.M[key]; ok && x.R.Intn(4) == 0 {
				ch[key] = absval.V{K: 'x'}
			} else {
				ch[key] = x.genValue(n)
			}
		}
		ch[9] = absval.V{K: 'p', N: x.fresh()} // makes every change event unique and effective
		if x.P.Once && x.R.Intn(3) == 0 {
			// partly ineffective: a key repeated with the value it has (the gateway forwards the effective part only)
			for key := 0; key < 10; key++ {
				if v, held := c.M[key]; held {
					if _, ok := ch[key]; !ok {
						ch[key] = v
						break
					}
				}
			}
		}
		for key, v := range ch {
			if v.K == 'x' {
				delete(c.M, key)
			} else {
				c.M[key] = v
			}
		}
		a.Ev, a.Text = "change", `{"values":`+ch.JSON()+`}`
		a.Abs = sn + "\tchange\t" + absKV(ch)
	default:
		if len(c.L) > 0 && x.R.Intn(2) == 0 {
			idx := x.R.Intn(len(c.L))
			c.L = append(c.L[:idx:idx], c.L[idx+1:]...)
			a.Ev, a.Text = "remove", `{"idx":`+strconv.Itoa(idx)+`}`
			a.Abs = sn + "\tremove\t" + strconv.Itoa(idx)
		} else {
			idx := x.R.Intn(len(c.L) + 1)
			v := x.genValue(n)
			c.L = append(c.L[:idx:idx], append(absval.List{v}, c.L[idx:]...)...)
			a.Ev, a.Text = "add", `{"idx":`+strconv.Itoa(idx)+`,"value":`+v.JSON()+`}`
			a.Abs = sn + "\tadd\t" + strconv.Itoa(idx) + "\t" + v.String()
		}
	}
	return a, true
}

func absKV(m absval.KV) string { return (&gw.Content{IsModel: true, M: m}).Abs()[2:] }

func (x *Explorer) clientFrame(c *gw.Client) (gw.Action, bool) {
	x.nextID[c.Label]++
	id := x.nextID[c.Label]
	n := x.R.Intn(x.P.Resources)
	if x.focusR >= 0 && x.R.Intn(10) < 6 {
		n = x.focusR
	}
	if x.P.Clean {
		// (clean mode: no request for a resource whose delete event may still be in flight — KF-PENDING-DROPPED)
		for try := 0; try < 8 && x.deletedRids[name(n)]; try++ {
			n = x.R.Intn(x.P.Resources)
		}
		if x.deletedRids[name(n)] {
			return gw.Action{}, false
		}
	}
	rid := name(n)
	if x.P.Queries && n < 2 && x.R.Intn(7) != 0 {
		rid = name(n) + "?q=" + strconv.Itoa(x.R.Intn(4))
	}
	if x.P.LongRids && x.R.Intn(6) == 0 {
		// a valid resource id whose event subject exceeds the messaging system's control line
		rid = "test.long" + strings.Repeat("x", 4085+x.R.Intn(12))
	}
	key := c.Label + " " + rid
	if x.P.Once && x.onceDone[c.Label] {
		x.nextID[c.Label]--
		return gw.Action{}, false
	}
	kinds := []string{"subscribe", "subscribe", "subscribe"}
	if x.P.Unsub {
		kinds = append(kinds, "unsubscribe", "unsubscribe")
	}
	if x.P.Gets {
		kinds = append(kinds, "get")
	}
	if x.P.Calls {
		kinds = append(kinds, "call", "auth")
	}
	kind := kinds[x.R.Intn(len(kinds))]
	if x.P.Clean && kind == "unsubscribe" && x.outstanding[key] > 0 {
		kind = "subscribe" // known finding P1: unsubscribe while a request for the same rid is outstanding
	}
	var frame string
	switch kind {
	case "unsubscribe":
		if k := x.R.Intn(8); k < 2 {
			cnt := x.R.Intn(4) - 1
			frame = fmt.Sprintf(`{"id":%d,"method":"unsubscribe.%s","params":{"count":%d}}`, id, rid, cnt)
		} else if k == 2 {
			// a params object that leaves the count out: the default count 1 applies
			frame = fmt.Sprintf(`{"id":%d,"method":"unsubscribe.%s","params":%s}`, id, rid, x.R.Pick(`{}`, `{"count":null}`, `{"foo":"bar"}`, `null`))
		} else {
			frame = fmt.Sprintf(`{"id":%d,"method":"unsubscribe.%s"}`, id, rid)
		}
	case "call":
		frame = fmt.Sprintf(`{"id":%d,"method":"call.%s.%s","params":{"x":1}}`, id, rid, x.R.Pick("set", "foo", "bar"))
	case "auth":
		frame = fmt.Sprintf(`{"id":%d,"method":"auth.%s.login"}`, id, rid)
	default:
		frame = fmt.Sprintf(`{"id":%d,"method":"%s.%s"}`, id, kind, rid)
	}
	if kind != "unsubscribe" {
		x.outstanding[key]++
		x.reqOf[c.Label+" "+strconv.FormatUint(id, 10)] = key
	}
	return gw.Action{A: "frame", C: c.Label, Text: frame}, true
}

// withMeta adds, in HTTP profiles and for some answers (successes and errors alike), a meta object whose header names come
// in arbitrary letter case and include the names the gateway protects; the values carry the marker "evil".
func (x *Explorer) withMeta(text string) string {
	if !x.P.HTTP || x.R.Intn(4) != 0 || !strings.HasPrefix(text, "{") {
		return text
	}
	names := []string{"content-type", "Content-Type", "CONTENT-TYPE", "access-control-allow-origin", "Access-Control-Allow-Credentials",
		"sec-websocket-protocol", "Set-Cookie", "set-cookie", "X-Custom", "x-custom"}
	var hs []string
	for k := 1 + x.R.Intn(3); k > 0; k-- {
		hs = append(hs, `"`+names[x.R.Intn(len(names))]+`":["evil`+strconv.Itoa(x.fresh())+`"]`)
	}
	return `{"meta":{"header":{` + strings.Join(hs, ",") + `}},` + text[1:]
}

// httpRequest issues an HTTP request on a temporary connection: GET / HEAD of a resource (sometimes with a query), POST
// of a call (sometimes with a query, sometimes with a last path segment that decodes to an invalid method name), a
// method the gateway does not map, or a path that is no resource id.
func (x *Explorer) httpRequest() {
	n := x.R.Intn(x.P.Resources)
	path := "/api/test/r" + strconv.Itoa(n)
	q := x.R.Pick("", "", "", "?q=1", "?q=2")
	var method, url string
	switch x.R.Intn(12) {
	case 0, 1, 2, 3:
		method, url = "GET", path+q
	case 4, 5:
		method, url = "HEAD", path+q
	case 6, 7, 8:
		method, url = "POST", path+"/"+x.R.Pick("set", "foo", "bar")+q
	case 9:
		method, url = "POST", path+"/"+x.R.Pick("act%20ion", "a%2Eb", "m%0D%0Ax", "%2A", "set%3E")+q
	case 10:
		method, url = x.R.Pick("PUT", "DELETE", "PATCH"), path+q
	default:
		method, url = x.R.Pick("GET", "HEAD", "POST"), x.R.Pick("/api/test//r0", "/api/test/r0/", "/api/", "/api/test/*", "/api/test/r%201", "/api/test.r0", "/other/test/r0")
	}
	x.Run.Do(gw.Action{A: "http", Method: method, Subj: url})
}

// noteResponses keeps the outstanding-request bookkeeping in step with responses seen in the trace.
func (x *Explorer) noteResponses(from int) {
	for _, l := range x.Run.Lines[from:] {
		f := strings.Split(l, "\t")
		if x.P.Once && ((f[0] == "RESP" && len(f) >= 5 && f[3] == "err" && f[4] == "system.accessDenied") || (f[0] == "EV" && len(f) >= 4 && f[3] == "unsub")) {
			// the fragment of Comp/Core.v: a client that was refused asks again only after the next quiescent point
			if x.onceDone == nil {
				x.onceDone = map[string]bool{}
			}
			x.onceDone[f[1]] = true
		}
		if f[0] == "RESP" && len(f) >= 3 {
			if key, ok := x.reqOf[f[1]+" "+f[2]]; ok {
				x.outstanding[key]--
				delete(x.reqOf, f[1]+" "+f[2])
			}
		}
	}
}

func (x *Explorer) quiesce(label string) {
	if x.Run.W.Quiescent() {
		x.onceDone = nil
		lines := append([]string{"Q\t" + label}, x.truthLines()...)
		lines = append(lines, x.Run.Snapshot()...)
		lines = append(lines, "ENDQ")
		x.Run.Do(gw.Action{A: "q", Abs: strings.Join(lines, "\n")})
	}
}

// Explore runs one random history and returns the run.
func Explore(seed int64, p Profile) (run *gw.Run, stall error) {
	x := &Explorer{R: gen.New(seed), P: p, nextID: map[string]uint64{}, outstanding: map[string]int{}, direct: map[string]int{}, reqOf: map[string]string{}, tokens: map[string]int{}, deletedRids: map[string]bool{}, pol: map[string]accessPolicy{}, pendingQuery: map[string]*pendingQ{}, dirty: map[string]bool{}}
	x.Run = gw.NewRun(func(c *server.Config) {
		c.ReferenceThrottle = p.Throttle
		c.ResetThrottle = p.Throttle
	})
	run = x.Run
	if actionLog != nil {
		run.ActionLog = actionLog
	}
	defer func() {
		if e := recover(); e != nil {
			if se, ok := e.(*gw.StallError); ok {
				stall = se
				return
			}
			panic(e)
		}
	}()
	x.initTruth()
	if p.Once {
		for _, l := range x.truthLines() {
			x.Run.Do(gw.Action{A: "note", Abs: "INIT" + strings.TrimPrefix(l, "TRUTH")})
		}
	}
	if p.Throttle > 0 {
		x.Run.Do(gw.Action{A: "note", Abs: "THROTTLE\t" + strconv.Itoa(p.Throttle)})
	}
	x.focusC, x.focusR, x.slowR = -1, -1, -1
	if x.R.Intn(2) == 0 {
		x.focusC, x.focusR = x.R.Intn(p.Clients), x.R.Intn(p.Resources)
	}
	if x.R.Intn(2) == 0 {
		x.slowR, x.slowTyp = x.R.Intn(p.Resources), x.R.Pick("get", "get", "access")
	}
	for i := 0; i < p.Clients; i++ {
		x.Run.Do(gw.Action{A: "connect"})
		c := x.Run.W.Clients[i]
		x.nextID[c.Label]++
		proto := "1.2.1"
		if p.Legacy {
			// protocol versions before 1.2.1 get soft references as bare strings and data values as a placeholder; 1.1.1
			// (also the default without a version request) differs further only in call/auth responses, which these
			// profiles do not use
			opts := []string{"1.2.1", "1.2.1", "1.2.0", "1.2.0"}
			if !p.Calls {
				opts = append(opts, "1.1.1", "")
			}
			proto = opts[x.R.Intn(len(opts))]
		}
		if proto != "1.2.1" {
			x.Run.Do(gw.Action{A: "note", Abs: "LEGACY\t" + c.Label})
		}
		if proto == "" {
			x.nextID[c.Label]--
			continue
		}
		x.Run.Do(gw.Action{A: "frame", C: c.Label, Text: fmt.Sprintf(`{"id":%d,"method":"version","params":{"protocol":"%s"}}`, x.nextID[c.Label], proto)})
	}
	if p.Scenario != "" {
		ExploreScenario(seed, p, x)
		return run, nil
	}
	stimuli := 0
	stopStep := 3 + x.R.Intn(60)
	for x.steps = 0; x.steps < 4000; x.steps++ {
		from := len(x.Run.Lines)
		if p.StopAt && x.steps == stopStep {
			x.Run.Do(gw.Action{A: "stop", Subj: x.R.Pick("stop", "mqloss")})
			break
		}
		ready := x.Run.W.Ready()
		pend := x.Run.W.MQ.Pending()
		internal := len(ready) + len(pend)
		if internal == 0 {
			x.quiesce("mid")
		}
		if internal == 0 && stimuli >= p.Stimuli {
			break
		}
		doStim := stimuli < p.Stimuli && (internal == 0 || x.R.Intn(10) < 3)
		if !doStim {
			k := x.R.Intn(internal)
			if k >= len(ready) && x.slowR >= 0 && internal > 1 && stimuli < p.Stimuli &&
				pend[k-len(ready)].Subject == x.slowTyp+"."+name(x.slowR) && x.R.Intn(5) != 0 {
				k = x.R.Intn(internal) // the held-back request is rarely answered while other work exists
			}
			if k < len(ready) {
				x.Run.Do(gw.Action{A: "grant", Text: ready[k]})
			} else {
				x.Run.Do(x.answerFor(pend[k-len(ready)]))
			}
			x.noteResponses(from)
			continue
		}
		stimuli++
		var live []*gw.Client
		for _, c := range x.Run.W.Clients {
			if !cClosed(x.Run, c) {
				live = append(live, c)
			}
		}
		k := x.R.Intn(100)
		switch {
		case k < 22 && p.HTTP:
			x.httpRequest()
		case k < 45 && len(live) > 0:
			cl := live[x.R.Intn(len(live))]
			if x.focusC >= 0 && x.R.Intn(10) < 6 {
				for _, c := range live {
					if c == x.Run.W.Clients[x.focusC] {
						cl = c
					}
				}
			}
			if a, ok := x.clientFrame(cl); ok {
				x.Run.Do(a)
			}
		case k < 85:
			if a, ok := x.svcEvent(); ok {
				x.Run.Do(a)
			}
		case k < 52 && p.Malformed && len(live) > 0:
			c := live[x.R.Intn(len(live))]
			x.nextID[c.Label]++
			id := x.nextID[c.Label]
			frames := []string{`{`, ``, `null`, `[1]`, `"x"`, `{"id":"1","method":"subscribe.test.r0"}`, `{"id":-1,"method":"subscribe.test.r0"}`,
				`{"id":1.5,"method":"get.test.r0"}`, `{"method":"subscribe.test.r0"}`, `{"id":null,"method":"subscribe.test.r0"}`, "\xff\xfe\x00",
				fmt.Sprintf(`{"id":%d}`, id), fmt.Sprintf(`{"id":%d,"method":5}`, id), fmt.Sprintf(`{"id":%d,"method":"subscribe"}`, id),
				fmt.Sprintf(`{"id":%d,"method":"subscribe.test..r0"}`, id), fmt.Sprintf(`{"id":%d,"method":"call.test.r0"}`, id),
				fmt.Sprintf(`{"id":%d,"method":"unsubscribe.test.r0","params":{"count":"x"}}`, id), fmt.Sprintf(`{"id":%d,"method":"unsubscribe.test.r0","params":[1]}`, id),
				fmt.Sprintf(`{"id":%d,"method":"version","params":{"protocol":7}}`, id), fmt.Sprintf(`{"id":%d,"method":"version","params":{"protocol":"1.2"}}`, id),
				fmt.Sprintf(`{"id":%d,"method":"frobnicate.test.r0"}`, id), fmt.Sprintf(`{"id":%d,"method":"subscribe.test.*"}`, id),
				fmt.Sprintf(`{"ID":%d,"Method":"subscribe.test.r0"}`, id), fmt.Sprintf(`{"id":%d,"method":"auth.test.r0.a b"}`, id)}
			x.Run.Do(gw.Action{A: "frame", C: c.Label, Text: frames[x.R.Intn(len(frames))]})
		case k < 56 && p.Malformed:
			sys := []struct{ ev, payload string }{{"reset", `{`}, {"reset", `{"resources":"x"}`}, {"reset", `{"resources":[5]}`}, {"reset", ``}, {"reset", `[]`},
				{"tokenReset", `{`}, {"tokenReset", `{"tids":"x"}`}, {"tokenReset", `{"tids":["a"]}`}, {"tokenReset", `{"subject":"x.y"}`}, {"bogus", `{}`}, {"", `{}`}}
			e := sys[x.R.Intn(len(sys))]
			x.Run.Do(gw.Action{A: "sysevent", Ev: e.ev, Text: e.payload, Abs: "bad"})
		case k < 58 && p.Malformed && len(live) > 0:
			c := live[x.R.Intn(len(live))]
			bad := []struct{ ev, payload string }{{"token", `{`}, {"token", `"x"`}, {"token", `{"token":{"t":1},"tid":5}`}, {"bogus", `{}`}, {"", ``}}
			e := bad[x.R.Intn(len(bad))]
			x.Run.Do(gw.Action{A: "connevent", C: c.Label, Ev: e.ev, Text: e.payload, Abs: "bad"})
		case k < 88 && p.Disconnect && len(live) > 1:
			c := live[x.R.Intn(len(live))]
			x.Run.Do(gw.Action{A: "disconnect", C: c.Label})
			closed[x.Run][c.Label] = true
		case k < 91 && p.Evict:
			x.Run.Do(gw.Action{A: "evict", Subj: name(x.R.Intn(p.Resources))})
		case k < 94 && p.Tokens && p.HTTP && x.R.Intn(2) == 0 && len(x.Run.W.OpenHTTP()) > 0:
			// a token event for the temporary connection of an HTTP request in progress
			hs := x.Run.W.OpenHTTP()
			h := hs[x.R.Intn(len(hs))]
			t := 1 + x.R.Intn(2)
			x.Run.Do(gw.Action{A: "connevent", C: h, Ev: "token", Text: fmt.Sprintf(`{"token":{"t":%d},"tid":"tid%d"}`, t, t), Abs: fmt.Sprintf("token\tt%d\ttid%d", t, t)})
		case k < 94 && p.Tokens && len(live) > 0:
			c := live[x.R.Intn(len(live))]
			switch x.R.Intn(5) {
			case 0:
				if x.P.Once {
					x.tokenEvent(c, x.R.Intn(3), true)
				} else {
					x.tokenResetEvent()
				}
			case 1:
				x.tokenEvent(c, x.R.Intn(3), false)
			default:
				x.tokenEvent(c, x.R.Intn(3), true)
			}
		case k < 97 && p.Resets:
			var pats []string
			for e := 1 + x.R.Intn(2); e > 0; e-- {
				pats = append(pats, x.R.Pick("test.>", "test.*", name(x.R.Intn(p.Resources)), "test.r*", "other.>", ">", "test..x", "*.r1"))
			}
			pj, _ := json.Marshal(pats)
			which := x.R.Pick("resources", "access", "both")
			var payload string
			switch which {
			case "resources":
				payload = `{"resources":` + string(pj) + `}`
			case "access":
				payload = `{"access":` + string(pj) + `}`
			default:
				payload = `{"resources":` + string(pj) + `,"access":` + string(pj) + `}`
			}
			// a reset announces that resources may have changed silently: mutate some truth without events first
			if which != "access" && x.R.Intn(3) > 0 {
				// only resources the reset announces may have changed silently
				var matched []int
				for i := 0; i < p.Resources; i++ {
					for _, pt := range pats {
						if pp := rescache.ParseResourcePattern(pt); pp.IsValid() && pp.Match(name(i)) {
							matched = append(matched, i)
							break
						}
					}
				}
				if len(matched) > 0 {
					x.silentMutation(matched[x.R.Intn(len(matched))])
				}
			}
			if which != "resources" && x.P.Denials {
				for i := 0; i < p.Resources; i++ {
					if x.R.Intn(2) == 0 {
						x.changePolicy(name(i)) // announced by the reset when its pattern matches; a non-matching pattern leaves
						// clients on the old verdict, which the consistent service must not do: only change matched ones
					}
				}
			}
			x.Run.Do(gw.Action{A: "sysevent", Ev: "reset", Text: payload, Abs: "reset\t" + which + "\t" + fmt.Sprintf("%x", strings.Join(pats, ","))})
		default:
			if a, ok := x.svcEvent(); ok {
				x.Run.Do(a)
			}
		}
		x.noteResponses(from)
	}
	if p.StopAt {
		if n := len(x.Run.Actions); n == 0 || x.Run.Actions[n-1].A != "stop" {
			x.Run.Do(gw.Action{A: "stop", Subj: x.R.Pick("stop", "mqloss")})
		}
		return run, nil
	}
	x.quiesce("final")
	if p.Endgame {
		x.endgame()
	}
	return run, nil
}

// endgame: every client leaves, everything is answered, every eviction timer fires: the cache must be empty.
func (x *Explorer) endgame() {
	p := x.P
	_ = p
	// every client leaves, everything is answered, every eviction timer fires: the cache must be empty
	for _, c := range x.Run.W.Clients {
		if !cClosed(x.Run, c) {
			x.Run.Do(gw.Action{A: "disconnect", C: c.Label})
			closed[x.Run][c.Label] = true
		}
	}
	for round := 0; round < 6; round++ {
		for i := 0; i < 400; i++ {
			ready := x.Run.W.Ready()
			pend := x.Run.W.MQ.Pending()
			if len(ready)+len(pend) == 0 {
				break
			}
			k := x.R.Intn(len(ready) + len(pend))
			if k < len(ready) {
				x.Run.Do(gw.Action{A: "grant", Text: ready[k]})
			} else {
				x.Run.Do(x.answerFor(pend[k-len(ready)]))
			}
		}
		fired := false
		for _, en := range x.Run.W.Serv.VerifCache().VerifEntries() {
			if en.InEvictQueue {
				if x.Run.Do(gw.Action{A: "evict", Subj: en.Name}) {
					fired = true
				}
			}
		}
		if !fired && x.Run.W.Quiescent() {
			break
		}
	}
	x.quiesce("end")
}

var closed = map[*gw.Run]map[string]bool{}

// actionLog, when set by the child process, receives the actions as they are executed.
var actionLog *os.File

func cClosed(r *gw.Run, c *gw.Client) bool {
	m := closed[r]
	if m == nil {
		m = map[string]bool{}
		closed[r] = m
	}
	return m[c.Label]
}

func historyJSON(seed int64, p Profile, run *gw.Run) []byte {
	b, _ := json.MarshalIndent(struct {
		Seed    int64       `json:"seed"`
		Profile Profile     `json:"profile"`
		Actions []gw.Action `json:"actions"`
	}{seed, p, run.Actions}, "", " ")
	return b
}

// Replay re-executes a recorded history.
func Replay(path string) (run *gw.Run, stall error) {
	b, err := os.ReadFile(path)
	if err != nil {
		panic(err)
	}
	var h struct {
		Seed    int64       `json:"seed"`
		Profile Profile     `json:"profile"`
		Actions []gw.Action `json:"actions"`
	}
	if err := json.Unmarshal(b, &h); err != nil {
		panic(err)
	}
	p := h.Profile
	run = gw.NewRun(func(c *server.Config) {
		c.ReferenceThrottle = p.Throttle
		c.ResetThrottle = p.Throttle
	})
	defer func() {
		if e := recover(); e != nil {
			if se, ok := e.(*gw.StallError); ok {
				stall = se
				return
			}
			panic(e)
		}
	}()
	for _, a := range h.Actions {
		if a.A == "q" {
			// snapshots are taken afresh so that the replay shows the current code's state
			if run.W.Quiescent() {
				var lines []string
				for _, l := range strings.Split(a.Abs, "\n") {
					if strings.HasPrefix(l, "Q\t") || strings.HasPrefix(l, "TRUTH\t") {
						lines = append(lines, l)
					}
				}
				lines = append(lines, run.Snapshot()...)
				lines = append(lines, "ENDQ")
				a.Abs = strings.Join(lines, "\n")
				run.Do(a)
			}
			continue
		}
		n0 := len(run.Lines)
		if os.Getenv("GW_ECHO") != "" {
			fmt.Fprintf(os.Stderr, "ACTION %s %s %s %d\n", a.A, a.C, a.Text, a.N)
		}
		run.Do(a)
		if os.Getenv("GW_ECHO") != "" {
			for _, l := range run.Lines[n0:] {
				if !strings.HasPrefix(l, "RAWOUT") {
					fmt.Fprintln(os.Stderr, l)
				}
			}
		}
	}
	return run, nil
}

// silentMutation changes the truth of one resource without announcing it (a reset will).
func (x *Explorer) silentMutation(n int) {
	c := x.Truth[name(n)]
	if c == nil {
		return
	}
	if c.IsModel {
		for e := 1 + x.R.Intn(2); e > 0; e-- {
			key := x.R.Intn(4)
			if _, ok := c.M[key]; ok && x.R.Intn(3) == 0 {
				delete(c.M, key)
			} else {
				c.M[key] = x.genValue(n)
			}
		}
	} else {
		for e := 1 + x.R.Intn(3); e > 0; e-- {
			if len(c.L) > 0 && x.R.Intn(2) == 0 {
				p := x.R.Intn(len(c.L))
				c.L = append(c.L[:p:p], c.L[p+1:]...)
			} else {
				p := x.R.Intn(len(c.L) + 1)
				c.L = append(c.L[:p:p], append(absval.List{x.genValue(n)}, c.L[p:]...)...)
			}
		}
	}
	x.dirty[name(n)] = true
	x.Run.Do(gw.Action{A: "note", Abs: "SILENT\t" + strconv.Itoa(n)})
}

func (x *Explorer) anyOutstanding(rid string) bool {
	for k, n := range x.outstanding {
		if n > 0 && strings.HasSuffix(k, " "+rid) {
			return true
		}
	}
	return false
}

func hasRefs(c *gw.Content) bool {
	for _, v := range c.M {
		if v.K == 'r' {
			return true
		}
	}
	for _, v := range c.L {
		if v.K == 'r' {
			return true
		}
	}
	return false
}

type accessPolicy struct {
	deny int // 0 grant, 1 accessDenied error, 2 get:false
	call string
}

func (x *Explorer) policy(token, rname string) accessPolicy {
	k := token + " " + rname
	p, ok := x.pol[k]
	if !ok {
		p = accessPolicy{call: x.R.Pick("*", "*", "set,foo", "", "foo")}
		if x.P.Denials && x.R.Intn(6) == 0 {
			p.deny = 1 + x.R.Intn(2)
		}
		x.pol[k] = p
	}
	return p
}

// changePolicy re-draws the policy of a resource for every token; the caller announces it.
func (x *Explorer) changePolicy(rname string) {
	keys := make([]string, 0, len(x.pol))
	for k := range x.pol {
		keys = append(keys, k)
	}
	sort.Strings(keys) // (the draws below must not depend on map iteration order: a seed determines the history)
	for _, k := range keys {
		if strings.HasSuffix(k, " "+rname) {
			p := accessPolicy{call: x.R.Pick("*", "set,foo", "", "foo")}
			if x.R.Intn(3) == 0 {
				p.deny = 1 + x.R.Intn(2)
			}
			x.pol[k] = p
		}
	}
}

// referenced reports whether some other resource's truth holds a (hard) reference to resource n.
func (x *Explorer) referenced(n int) bool {
	for i := 0; i < x.P.Resources; i++ {
		c := x.Truth[name(i)]
		if c == nil || i == n {
			continue
		}
		for _, v := range c.M {
			if v.K == 'r' && v.N == n {
				return true
			}
		}
		for _, v := range c.L {
			if v.K == 'r' && v.N == n {
				return true
			}
		}
	}
	return false
}

type pendingQ struct {
	n       int
	old     map[string]*gw.Content
	exposed map[string]bool // variants whose new state a get answer has shown since the query event: their query request must not fail
}

// queryOpen reports whether the gateway still has unanswered query requests (or has not yet sent them) for the subject.
func (x *Explorer) queryOpen(subj string) bool {
	for _, q := range x.Run.W.MQ.Pending() {
		if q.Subject == subj {
			return true
		}
	}
	// the query event itself may still be queued in the gateway
	for _, k := range x.Run.W.Ready() {
		if strings.HasPrefix(k, "es:") || strings.HasPrefix(k, "go:") {
			return true
		}
	}
	return false
}
