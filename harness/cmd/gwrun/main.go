// gwrun explores histories of the real gateway under the harness scheduler and writes abstract traces
// for the Coq-extracted monitors.
package main

import (
	"bufio"
	"flag"
	"fmt"
	"os"
	"path/filepath"
	"strings"
)

var profiles = map[string]Profile{
	"basic": {Name: "basic", Clients: 2, Resources: 3, Stimuli: 14, Refs: false, Unsub: true, Clean: true},
	"refs":  {Name: "refs", Clients: 2, Resources: 4, Stimuli: 18, Refs: true, Collections: true, Unsub: true, Clean: true},
	"churn": {Name: "churn", Clients: 3, Resources: 4, Stimuli: 22, Refs: true, Collections: true, Unsub: true, Faults: true, Disconnect: true, Evict: true, Deletes: true, Clean: true},
	"wild":  {Name: "wild", Clients: 3, Resources: 4, Stimuli: 24, Refs: true, Collections: true, Unsub: true, Gets: true, Faults: true, Disconnect: true, Evict: true, Deletes: true},
	"gets":  {Name: "gets", Clients: 2, Resources: 4, Stimuli: 18, Refs: true, Collections: true, Unsub: true, Gets: true, Faults: true, Clean: true},
}

func main() {
	seed := flag.Int64("seed", 1, "seed")
	n := flag.Int("n", 10, "number of histories")
	prof := flag.String("profile", "basic", "exploration profile")
	out := flag.String("out", "traces", "output directory")
	replay := flag.String("replay", "", "history.json to re-execute instead of exploring")
	flag.Parse()
	if *replay != "" {
		os.MkdirAll(*out, 0o755)
		run, stall := Replay(*replay)
		f, _ := os.Create(filepath.Join(*out, "replay.trace"))
		f.WriteString(strings.Join(run.Lines, "\n") + "\n")
		if stall != nil {
			f.WriteString("STALL\t" + fmt.Sprintf("%x", stall.Error()) + "\n")
		}
		f.Close()
		run.W.Close()
		fmt.Printf("HISTORIES\t1\tSTEPS\t%d\n", len(run.Actions))
		return
	}
	p, ok := profiles[*prof]
	if !ok {
		fmt.Println("unknown profile")
		os.Exit(2)
	}
	os.MkdirAll(*out, 0o755)
	steps := 0
	for i := 0; i < *n; i++ {
		s := *seed*100003 + int64(i)
		run, stall := Explore(s, p)
		f, _ := os.Create(filepath.Join(*out, fmt.Sprintf("%s-%d.trace", p.Name, s)))
		w := bufio.NewWriter(f)
		w.WriteString(strings.Join(run.Lines, "\n"))
		w.WriteString("\n")
		if stall != nil {
			w.WriteString("STALL\t" + fmt.Sprintf("%x", stall.Error()) + "\n")
		}
		w.Flush()
		f.Close()
		os.WriteFile(filepath.Join(*out, fmt.Sprintf("%s-%d.history.json", p.Name, s)), historyJSON(s, p, run), 0o644)
		steps += len(run.Actions)
		run.W.Close()
	}
	fmt.Printf("HISTORIES\t%d\tSTEPS\t%d\n", *n, steps)
}
