// gwrun explores histories of the real gateway under the harness scheduler and writes abstract traces
// for the Coq-extracted monitors.
package main

import (
	"bufio"
	"context"
	"encoding/json"
	"flag"
	"fmt"
	"os"
	"os/exec"
	"path/filepath"
	"strings"
	"time"
)

var profiles = map[string]Profile{
	"basic":     {Name: "basic", Clients: 2, Resources: 3, Stimuli: 14, Refs: false, Unsub: true, Clean: true},
	"refs":      {Name: "refs", Clients: 2, Resources: 4, Stimuli: 18, Refs: true, Collections: true, Unsub: true, Clean: true},
	"churn":     {Name: "churn", Clients: 3, Resources: 4, Stimuli: 22, Refs: true, Collections: true, Unsub: true, Faults: true, Disconnect: true, Evict: true, Deletes: true, Clean: true, Endgame: true},
	"wild":      {Name: "wild", Clients: 3, Resources: 4, Stimuli: 24, Refs: true, Collections: true, Unsub: true, Gets: true, Faults: true, Disconnect: true, Evict: true, Deletes: true, Endgame: true},
	"long":      {Name: "long", Clients: 2, Resources: 3, Stimuli: 14, Unsub: true, Gets: false, Clean: true, LongRids: true, Endgame: true},
	"access":    {Name: "access", Clients: 2, Resources: 3, Stimuli: 22, Unsub: true, Reaccess: true, Tokens: true, Calls: true, Faults: true, Denials: true, Clean: true},
	"accrefs":   {Name: "accrefs", Clients: 2, Resources: 4, Stimuli: 24, Refs: true, Collections: true, Unsub: true, Reaccess: true, Tokens: true, Calls: true, Denials: true, Clean: true},
	"tinyacc":   {Name: "tinyacc", Clients: 1, Resources: 2, Stimuli: 16, Refs: true, Unsub: true, Reaccess: true, Tokens: true, Calls: true, Denials: true, Clean: true},
	"tinyrefs":  {Name: "tinyrefs", Clients: 1, Resources: 3, Stimuli: 16, Refs: true, Collections: true, Unsub: true, Clean: true},
	"scacc":     {Name: "scacc", Clients: 2, Resources: 3, Refs: true, Unsub: true, Reaccess: true, Tokens: true, Calls: true, Denials: true, Scenario: "acc"},
	"accchurn":  {Name: "accchurn", Clients: 3, Resources: 3, Stimuli: 24, Unsub: true, Reaccess: true, Tokens: true, Calls: true, Denials: true, Resets: true, Disconnect: true, Clean: true, Endgame: true},
	"thr1":      {Name: "thr1", Clients: 3, Resources: 4, Stimuli: 22, Refs: true, Collections: true, Unsub: true, Resets: true, Reaccess: true, Denials: true, Disconnect: true, Clean: true, Throttle: 1},
	"thr2":      {Name: "thr2", Clients: 3, Resources: 4, Stimuli: 22, Refs: true, Collections: true, Unsub: true, Resets: true, Reaccess: true, Denials: true, Disconnect: true, Clean: true, Throttle: 2},
	"scthr1":    {Name: "scthr1", Clients: 3, Resources: 4, Refs: true, Collections: true, Unsub: true, Resets: true, Denials: true, Disconnect: true, Clean: true, Throttle: 1, Scenario: "thr"},
	"scthr2":    {Name: "scthr2", Clients: 3, Resources: 4, Refs: true, Collections: true, Unsub: true, Resets: true, Denials: true, Disconnect: true, Clean: true, Throttle: 2, Scenario: "thr"},
	"legacy":    {Name: "legacy", Clients: 3, Resources: 4, Stimuli: 20, Refs: true, Collections: true, Unsub: true, Clean: true, Legacy: true},
	"legacyacc": {Name: "legacyacc", Clients: 2, Resources: 4, Stimuli: 22, Refs: true, Collections: true, Unsub: true, Reaccess: true, Tokens: true, Resets: true, Denials: true, Clean: true, Legacy: true},
	"scgraph":   {Name: "scgraph", Clients: 2, Resources: 5, Refs: true, Collections: true, Unsub: true, Legacy: true, Scenario: "graph"},
	"sclimit":   {Name: "sclimit", Clients: 1, Resources: 2, Unsub: true, Scenario: "limit"},
	"resetf":    {Name: "resetf", Clients: 2, Resources: 4, Stimuli: 22, Refs: true, Collections: true, Unsub: true, Resets: true, Clean: true, ResetFaults: true},
	"scdisc":    {Name: "scdisc", Clients: 2, Resources: 3, Refs: true, Unsub: true, Reaccess: true, Tokens: true, Calls: true, Resets: true, Disconnect: true, Endgame: true, Scenario: "disc"},
	"scdisct":   {Name: "scdisct", Clients: 2, Resources: 3, Refs: true, Unsub: true, Reaccess: true, Tokens: true, Calls: true, Resets: true, Disconnect: true, Endgame: true, Throttle: 1, Scenario: "disc"},
	"http":      {Name: "http", Clients: 1, Resources: 3, Stimuli: 20, Refs: true, Collections: true, Unsub: true, Calls: true, Reaccess: true, Tokens: true, Denials: true, Faults: true, HTTP: true, Clean: true, Endgame: true},
	"reset":     {Name: "reset", Clients: 2, Resources: 4, Stimuli: 22, Refs: true, Collections: true, Unsub: true, Resets: true, Clean: true},
	"malformed": {Name: "malformed", Clients: 2, Resources: 4, Stimuli: 26, Refs: true, Collections: true, Unsub: true, Calls: true, Malformed: true, Clean: true, Endgame: true},
	"stop":      {Name: "stop", Clients: 3, Resources: 4, Stimuli: 20, Refs: true, Collections: true, Unsub: true, Calls: true, Disconnect: true, Evict: true, StopAt: true},
	"query":     {Name: "query", Clients: 3, Resources: 3, Stimuli: 22, Unsub: true, Queries: true, Faults: true, Clean: true, Endgame: true},
	"core":      {Name: "core", Clients: 3, Resources: 1, Stimuli: 24, Once: true, Collections: true, Denials: true, Disconnect: true, Unsub: true, Tokens: true, Reaccess: true, Clean: true},
	"resetdel":  {Name: "resetdel", Clients: 2, Resources: 3, Stimuli: 24, Unsub: true, Resets: true, Deletes: true, Evict: true, Clean: true, Endgame: true},
	"gets":      {Name: "gets", Clients: 2, Resources: 4, Stimuli: 18, Refs: true, Collections: true, Unsub: true, Gets: true, Faults: true, Clean: true},
}

func runOne(s int64, p Profile, out string) {
	actionLog, _ = os.Create(filepath.Join(out, fmt.Sprintf("%s-%d.actions.jsonl", p.Name, s)))
	run, stall := Explore(s, p)
	actionLog.Close()
	os.Remove(actionLog.Name())
	f, _ := os.Create(filepath.Join(out, fmt.Sprintf("%s-%d.trace", p.Name, s)))
	w := bufio.NewWriter(f)
	w.WriteString(strings.Join(run.Lines, "\n"))
	w.WriteString("\n")
	if stall != nil {
		w.WriteString("STALL\t" + fmt.Sprintf("%x", stall.Error()) + "\n")
	}
	w.Flush()
	f.Close()
	os.WriteFile(filepath.Join(out, fmt.Sprintf("%s-%d.history.json", p.Name, s)), historyJSON(s, p, run), 0o644)
	fmt.Printf("STEPS\t%d\n", len(run.Actions))
}

func main() {
	seed := flag.Int64("seed", 1, "seed")
	n := flag.Int("n", 10, "number of histories")
	prof := flag.String("profile", "basic", "exploration profile")
	out := flag.String("out", "traces", "output directory")
	replay := flag.String("replay", "", "history.json to re-execute instead of exploring")
	child := flag.Int64("child", -1, "run the single history with this history seed and exit (used by the parent process)")
	jobs := flag.Int("jobs", 12, "parallel child processes")
	subjects := flag.String("subjects", "", "write subject-construction cases for the Subjects model to this file and exit")
	flag.Parse()
	if *subjects != "" {
		runSubjects(*seed, *n, *subjects)
		return
	}
	if *replay != "" {
		os.MkdirAll(*out, 0o755)
		run, stall := Replay(*replay)
		f, _ := os.Create(filepath.Join(*out, "replay.trace"))
		f.WriteString(strings.Join(run.Lines, "\n") + "\n")
		if stall != nil {
			f.WriteString("STALL\t" + fmt.Sprintf("%x", stall.Error()) + "\n")
		}
		f.Close()
		fmt.Printf("HISTORIES\t1\tSTEPS\t%d\n", len(run.Actions))
		os.Exit(0)
	}
	p, ok := profiles[*prof]
	if !ok {
		fmt.Println("unknown profile")
		os.Exit(2)
	}
	os.MkdirAll(*out, 0o755)
	if *child >= 0 {
		// one history per process: a gateway panic kills only this history, and no goroutine of an earlier
		// gateway instance can interfere
		runOne(*child, p, *out)
		os.Exit(0)
	}
	type res struct {
		steps   int
		crashed bool
	}
	seeds := make(chan int64, *n)
	results := make(chan res, *n)
	for i := 0; i < *n; i++ {
		seeds <- *seed*100003 + int64(i)
	}
	close(seeds)
	for j := 0; j < *jobs; j++ {
		go func() {
			for s := range seeds {
				cctx, cancel := context.WithTimeout(context.Background(), 90*time.Second)
				cmd := exec.CommandContext(cctx, os.Args[0], "-child", fmt.Sprint(s), "-profile", *prof, "-out", *out)
				outb, err := cmd.CombinedOutput()
				if cctx.Err() != nil {
					outb = append([]byte("panic: history did not finish within 90 s (hang)\n"), outb...)
				}
				cancel()
				r := res{}
				if err != nil {
					r.crashed = true
					txt := string(outb)
					if len(txt) > 6000 {
						txt = txt[:6000]
					}
					os.WriteFile(filepath.Join(*out, fmt.Sprintf("%s-%d.trace", p.Name, s)), []byte("CRASH\t"+fmt.Sprintf("%x", txt)+"\n"), 0o644)
					// rebuild the history from the action log the child left behind
					var acts []string
					if lb, err := os.ReadFile(filepath.Join(*out, fmt.Sprintf("%s-%d.actions.jsonl", p.Name, s))); err == nil {
						for _, l := range strings.Split(strings.TrimSpace(string(lb)), "\n") {
							if l != "" {
								acts = append(acts, l)
							}
						}
					}
					pj, _ := json.Marshal(p)
					os.WriteFile(filepath.Join(*out, fmt.Sprintf("%s-%d.history.json", p.Name, s)),
						[]byte(fmt.Sprintf(`{"seed":%d,"profile":%s,"crashed":true,"actions":[%s]}`, s, pj, strings.Join(acts, ",\n"))), 0o644)
				} else {
					// a stall (work pending, no worker runnable) must be a property of the history, not of this run's
					// timing: it is kept only when re-executing the recorded actions in a fresh process stalls again
					tp := filepath.Join(*out, fmt.Sprintf("%s-%d.trace", p.Name, s))
					hp := filepath.Join(*out, fmt.Sprintf("%s-%d.history.json", p.Name, s))
					if tb, err := os.ReadFile(tp); err == nil && strings.Contains(string(tb), "\nSTALL\t") {
						for try := 0; try < 2; try++ {
							rd := filepath.Join(*out, fmt.Sprintf("recheck-%d-%d", s, try))
							c2, cancel2 := context.WithTimeout(context.Background(), 90*time.Second)
							exec.CommandContext(c2, os.Args[0], "-replay", hp, "-out", rd).Run()
							cancel2()
							rb, err := os.ReadFile(filepath.Join(rd, "replay.trace"))
							os.RemoveAll(rd)
							if err == nil && !strings.Contains(string(rb), "\nSTALL\t") {
								os.WriteFile(tp, append(rb, []byte("NOTE\tstall-not-reproduced\n")...), 0o644)
								break
							}
						}
					}
					for _, l := range strings.Split(string(outb), "\n") {
						if strings.HasPrefix(l, "STEPS\t") {
							fmt.Sscanf(l[6:], "%d", &r.steps)
						}
					}
				}
				results <- r
			}
		}()
	}
	steps, crashes := 0, 0
	for i := 0; i < *n; i++ {
		r := <-results
		steps += r.steps
		if r.crashed {
			crashes++
		}
	}
	fmt.Printf("HISTORIES\t%d\tSTEPS\t%d\tCRASHES\t%d\n", *n, steps, crashes)
}
