package main

import (
	"bufio"
	"encoding/json"
	"fmt"
	"os"
	"strings"

	"github.com/resgateio/resgate/server"
	"verif/harness/internal/gen"
	"verif/harness/internal/gw"
)

// runSubjects drives the real gateway with client requests on unusual but valid (and some invalid) resource ids -
// several {cid} tags in name and query, a second '?' inside the query, wildcard characters inside the query - grants
// every access check, and writes for each client request the (subject, payload query) pairs of the requests the
// gateway made, as case lines for the extracted model Subjects.requests.
func runSubjects(seed int64, n int, out string) {
	r := gen.New(seed)
	run := gw.NewRun(func(*server.Config) {})
	run.Do(gw.Action{A: "connect"})
	run.Do(gw.Action{A: "frame", C: "c0", Text: `{"id":1,"method":"version","params":{"protocol":"1.2.1"}}`})
	drain := func() {
		for i := 0; i < 400; i++ {
			ready := run.W.Ready()
			pend := run.W.MQ.Pending()
			if len(ready)+len(pend) == 0 {
				return
			}
			if len(ready) > 0 {
				run.Do(gw.Action{A: "grant", Text: ready[0]})
				continue
			}
			q := pend[0]
			a := gw.Action{A: "answer", N: q.N, Abs: "result\tnull", Text: `{"result":null}`}
			switch {
			case q.TooLong:
				a.Err, a.Abs = "toolong", "err\tsystem.subjectTooLong"
			case strings.HasPrefix(q.Subject, "access."):
				a.Text, a.Abs = `{"result":{"get":true,"call":"*"}}`, "access\t1\t2a"
			case strings.HasPrefix(q.Subject, "get."):
				a.Text, a.Abs = `{"error":{"code":"system.notFound","message":"Not found"}}`, "err\tsystem.notFound"
			}
			run.Do(a)
		}
	}
	drain()
	cid := run.W.CIDs()["c0"]
	fo, _ := os.Create(out)
	w := bufio.NewWriter(fo)
	names := []string{"test.model", "test.{cid}", "test.{cid}.sub", "session.{cid}.owned.{cid}", "a", "test.r1", "{cid}", "test.{cid}{cid}", "test.{ci}.x", "test.{cid", "x.{CID}.y"}
	queries := []string{"", "", "q=1", "owner={cid}", "a={cid}&b={cid}", "next=.>?page=2", "x=1?y=2", "a=*", "?", "q={cid}?{cid}", "redirect=/a.b?c=d", "sp=a b"}
	bad := []string{"test..model", "test.*", "test.>", ".test", "test.", "te st.x", "test.m\tx"}
	id := 1
	nreq := len(run.W.MQ.Pending())
	seen := 0
	for i := 0; i < n; i++ {
		kind := r.Pick("subscribe", "get", "call", "auth")
		name := names[r.Intn(len(names))]
		if r.Intn(12) == 0 {
			name = bad[r.Intn(len(bad))]
		}
		rid := name
		if q := queries[r.Intn(len(queries))]; q != "" {
			rid += "?" + q
		}
		meth := ""
		if kind == "call" || kind == "auth" {
			meth = r.Pick("set", "login", "m1")
		}
		id++
		method := kind + "." + rid
		if meth != "" {
			method += "." + meth
		}
		mj, _ := json.Marshal(method)
		before := len(run.W.MQ.All())
		run.Do(gw.Action{A: "frame", C: "c0", Text: fmt.Sprintf(`{"id":%d,"method":%s}`, id, mj)})
		drain()
		var got []string
		for _, q := range run.W.MQ.All()[before:] {
			var p struct {
				Query string `json:"query"`
			}
			json.Unmarshal(q.Payload, &p)
			got = append(got, fmt.Sprintf("%x|%x", q.Subject, p.Query))
		}
		// release what a successful subscribe took, so that later requests on the same id start afresh
		if kind == "subscribe" {
			id++
			uj, _ := json.Marshal("unsubscribe." + rid)
			run.Do(gw.Action{A: "frame", C: "c0", Text: fmt.Sprintf(`{"id":%d,"method":%s}`, id, uj)})
			drain()
		}
		fmt.Fprintf(w, "subjects\t%s\t%x\t%x\t%x\t%s\n", kind, rid, cid, meth, strings.Join(got, ","))
		seen++
	}
	_ = nreq
	w.Flush()
	fo.Close()
	fmt.Printf("GEN\tsubjects\t%d\n", seen)
	run.W.Close()
}
