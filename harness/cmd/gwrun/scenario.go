package main

import (
	"fmt"
	"strconv"
	"strings"

	"github.com/resgateio/resgate/server"
	"verif/harness/internal/absval"
	"verif/harness/internal/gw"
)

// Scenario exploration: instead of drawing every stimulus independently, a history is assembled from phases
// (establish a holding, obtain a verdict, invalidate it, ask again, ...), each phase drawn from a short list,
// with a random amount of internal progress (grants, answers) between the phases. The product of the phase
// lists is small enough that every combination of three or four phases is hit within a few hundred histories,
// which independent random stimuli reach only rarely. The properties are still decided by the same monitors.

func (x *Explorer) internalSteps(k int) {
	for ; k != 0; k-- {
		from := len(x.Run.Lines)
		ready := x.Run.W.Ready()
		pend := x.Run.W.MQ.Pending()
		var cand []int
		for i := range pend {
			if x.slowR >= 0 && pend[i].Subject == x.slowTyp+"."+name(x.slowR) {
				continue
			}
			cand = append(cand, i)
		}
		n := len(ready) + len(cand)
		if n == 0 {
			return
		}
		j := x.R.Intn(n)
		if j < len(ready) {
			x.Run.Do(gw.Action{A: "grant", Text: ready[j]})
		} else {
			x.Run.Do(x.answerFor(pend[cand[j-len(ready)]]))
		}
		x.noteResponses(from)
	}
}

// settle runs internal steps until nothing but the held-back requests is left.
func (x *Explorer) settle() {
	x.internalSteps(-1)
	if x.slowR < 0 {
		x.quiesce("mid")
	}
}

func (x *Explorer) between() {
	switch x.R.Intn(5) {
	case 0, 1:
		x.settle()
	case 2:
		// nothing: the next stimulus arrives at once
	default:
		x.internalSteps(1 + x.R.Intn(5))
	}
}

func (x *Explorer) sendFrame(c *gw.Client, kind string, n int, method string) {
	x.nextID[c.Label]++
	id := x.nextID[c.Label]
	rid := name(n)
	var frame string
	switch kind {
	case "call", "auth":
		frame = fmt.Sprintf(`{"id":%d,"method":"%s.%s.%s","params":{"x":1}}`, id, kind, rid, method)
	default:
		frame = fmt.Sprintf(`{"id":%d,"method":"%s.%s"}`, id, kind, rid)
	}
	if kind != "unsubscribe" {
		key := c.Label + " " + rid
		x.outstanding[key]++
		x.reqOf[c.Label+" "+strconv.FormatUint(id, 10)] = key
	}
	x.Run.Do(gw.Action{A: "frame", C: c.Label, Text: frame})
}

func (x *Explorer) tokenEvent(c *gw.Client, t int, withTid bool) {
	x.tokens[c.Label] = t
	payload := fmt.Sprintf(`{"token":{"t":%d},"tid":"tid%d"}`, t, t)
	abs := fmt.Sprintf("token\tt%d\ttid%d", t, t)
	if !withTid {
		payload = fmt.Sprintf(`{"token":{"t":%d}}`, t)
		abs = fmt.Sprintf("token\tt%d\t-", t)
	}
	x.Run.Do(gw.Action{A: "connevent", C: c.Label, Ev: "token", Text: payload, Abs: abs})
}

// tokenResetEvent announces a token reset for a random set of token ids; addressed connections are asked to renew
// on the subject auth.renew.
func (x *Explorer) tokenResetEvent() {
	var tids []string
	for t := 0; t < 3; t++ {
		if x.R.Intn(2) == 0 {
			tids = append(tids, "tid"+strconv.Itoa(t))
		}
	}
	if len(tids) == 0 {
		tids = []string{"tid9"}
	}
	x.Run.Do(gw.Action{A: "sysevent", Ev: "tokenReset", Text: `{"tids":["` + strings.Join(tids, `","`) + `"],"subject":"auth.renew"}`,
		Abs: "tokenreset\t" + strings.Join(tids, ",")})
}

func (x *Explorer) reaccessEvent(n int) {
	if !x.Run.W.MQ.HasSub("event." + name(n)) {
		return
	}
	x.changePolicy(name(n))
	x.Run.Do(gw.Action{A: "event", Subj: "event." + name(n), Ev: "reaccess", Abs: strconv.Itoa(n) + "\treaccess"})
}

func (x *Explorer) resetAccess(pats ...string) {
	for i := 0; i < x.P.Resources; i++ {
		x.changePolicy(name(i))
	}
	b := `["` + strings.Join(pats, `","`) + `"]`
	x.Run.Do(gw.Action{A: "sysevent", Ev: "reset", Text: `{"access":` + b + `}`, Abs: "reset\taccess\t" + fmt.Sprintf("%x", strings.Join(pats, ","))})
}

// changeEvent announces a unique change of model n (only when the gateway is subscribed to its events).
func (x *Explorer) changeEvent(n int) {
	c := x.Truth[name(n)]
	if c == nil || !c.IsModel || !x.Run.W.MQ.HasSub("event."+name(n)) {
		return
	}
	ch := absval.KV{9: absval.V{K: 'p', N: x.fresh()}}
	c.M[9] = ch[9]
	x.Run.Do(gw.Action{A: "event", Subj: "event." + name(n), Ev: "change", Text: `{"values":` + ch.JSON() + `}`,
		Abs: strconv.Itoa(n) + "\tchange\t" + absKV(ch)})
}

func (x *Explorer) customEvent(n int) {
	if !x.Run.W.MQ.HasSub("event." + name(n)) {
		return
	}
	x.seq++
	x.Run.Do(gw.Action{A: "event", Subj: "event." + name(n), Ev: "custom", Text: `{"seq":` + strconv.Itoa(x.seq) + `}`,
		Abs: strconv.Itoa(n) + "\tcustom\tcustom/" + strconv.Itoa(x.seq)})
}

// ExploreScenario drives one scenario history.
func ExploreScenario(seed int64, p Profile, x *Explorer) {
	A := x.Run.W.Clients[0]
	B := A
	if len(x.Run.W.Clients) > 1 {
		B = x.Run.W.Clients[1]
	}
	switch p.Scenario {
	case "acc":
		// r0 references r2 (X); r1 is unrelated (and may hand out X in a resource response: method res2)
		const X, P, Y = 2, 0, 1
		x.Truth[name(P)] = &gw.Content{IsModel: true, M: absval.KV{0: {K: 'r', N: X}, 1: {K: 'p', N: x.fresh()}}}
		x.Truth[name(Y)] = &gw.Content{IsModel: true, M: absval.KV{0: {K: 'p', N: x.fresh()}}}
		x.Truth[name(X)] = &gw.Content{IsModel: true, M: absval.KV{0: {K: 'p', N: x.fresh()}}}
		x.slowR = -1
		if x.R.Intn(2) == 0 {
			x.slowR, x.slowTyp = X, x.R.Pick("get", "access", "access")
		}
		request := func(c *gw.Client, k int) {
			switch k {
			case 0:
				x.sendFrame(c, "call", X, "set")
			case 1:
				x.sendFrame(c, "subscribe", X, "")
			case 2:
				x.sendFrame(c, "get", X, "")
			case 3:
				x.sendFrame(c, "auth", X, "login")
			case 4:
				x.sendFrame(c, "call", X, "foo")
			case 5:
				// (not while a request for the same resource is outstanding: recorded finding KF-PENDING-DROPPED)
				if x.outstanding[c.Label+" "+name(X)] == 0 {
					x.sendFrame(c, "unsubscribe", X, "")
				}
			}
		}
		invalidate := func(k int) {
			switch k {
			case 0:
				x.reaccessEvent(X)
			case 1:
				x.tokenEvent(A, 1+x.R.Intn(2), true)
			case 2:
				x.tokenEvent(A, x.tokens[A.Label], true)
			case 3:
				x.tokenEvent(A, 1+x.R.Intn(2), false)
			case 4:
				x.resetAccess(name(X))
			case 5:
				x.resetAccess("test.>")
			case 6:
				x.reaccessEvent(P)
			}
		}
		// phase 1: tokens
		switch x.R.Intn(3) {
		case 1:
			x.tokenEvent(A, 1, true)
		case 2:
			x.tokenEvent(A, 1, true)
			x.tokenEvent(B, 2, x.R.Intn(2) == 0)
		}
		x.between()
		// phase 2: holding
		switch x.R.Intn(6) {
		case 0:
			x.sendFrame(A, "subscribe", X, "")
		case 1:
			x.sendFrame(A, "subscribe", P, "")
		case 2:
			x.sendFrame(A, "call", Y, "res2")
		case 3:
			x.sendFrame(A, "subscribe", X, "")
			x.sendFrame(A, "subscribe", X, "")
		case 4:
			x.sendFrame(A, "subscribe", P, "")
			x.sendFrame(A, "subscribe", X, "")
		}
		x.between()
		// phase 3: a first request that obtains a verdict
		first := x.R.Intn(5)
		if x.R.Intn(4) != 0 {
			request(A, first)
		}
		x.between()
		if x.R.Intn(3) == 0 {
			x.changeEvent(X)
		}
		// phase 4: invalidation, possibly with a request arriving before the re-check is answered, possibly twice
		if x.R.Intn(8) != 0 {
			if x.R.Intn(3) == 0 {
				invalidate(0)
			} else {
				invalidate(x.R.Intn(7))
			}
		}
		if x.R.Intn(3) == 0 {
			x.internalSteps(x.R.Intn(4))
			request(A, x.R.Intn(6))
		}
		if x.R.Intn(2) == 0 {
			x.internalSteps(x.R.Intn(4))
			x.changeEvent(X)
			x.customEvent(X)
		}
		if x.R.Intn(3) == 0 {
			x.internalSteps(x.R.Intn(4))
			invalidate(x.R.Intn(7))
		}
		if x.R.Intn(4) == 0 {
			x.tokenResetEvent()
		}
		x.slowR = -1
		x.between()
		// phase 5: the request again (mostly the same one), or another client's
		k := first
		if x.R.Intn(2) == 0 {
			k = x.R.Intn(6)
		}
		if x.R.Intn(5) == 0 {
			request(B, k)
		} else {
			request(A, k)
		}
		x.between()
		if x.R.Intn(2) == 0 {
			x.changeEvent(X)
			x.between()
			request(A, x.R.Intn(6))
		}
	case "graph":
		// reference graphs with shared children, several paths to one resource and parents that stay in the loading state
		// (the get of resource 4 is held back), while roots are subscribed and released and references are added and removed
		R := p.Resources
		mk := func(vs ...absval.V) *gw.Content {
			c := &gw.Content{IsModel: true, M: absval.KV{}}
			for i, v := range vs {
				c.M[i] = v
			}
			return c
		}
		ref := func(n int) absval.V { return absval.V{K: 'r', N: n} }
		prim := func() absval.V { return absval.V{K: 'p', N: x.fresh()} }
		shape := x.R.Intn(8)
		switch shape {
		case 7: // a model gains two references in one event (one of them slow); a collection then gains a reference to the loaded one
			x.Truth[name(0)] = &gw.Content{L: absval.List{prim()}}
			x.Truth[name(1)] = mk(prim())
			x.Truth[name(2)] = mk(prim())
		case 6: // a resource with a slow child is handed over by the resource response of a call
			x.Truth[name(0)] = mk(prim())
			x.Truth[name(1)] = mk(prim())
			x.Truth[name(2)] = mk(ref(4), prim())
		case 5: // a collection that gains references to a resource whose own child is still loading
			x.Truth[name(0)] = &gw.Content{L: absval.List{prim()}}
			x.Truth[name(1)] = mk(ref(3))
			x.Truth[name(2)] = mk(ref(4), prim())
		case 0: // two paths to 3, and a parent of 3 that is still loading (4 is slow)
			x.Truth[name(0)] = mk(ref(2), ref(3))
			x.Truth[name(1)] = mk(ref(3), ref(4))
			x.Truth[name(2)] = mk(ref(3), prim())
		case 1: // shared middle node
			x.Truth[name(0)] = mk(ref(2), prim())
			x.Truth[name(1)] = mk(ref(2), ref(4))
			x.Truth[name(2)] = mk(ref(3), prim())
		case 2: // chain with a loading tail
			x.Truth[name(0)] = mk(ref(2))
			x.Truth[name(1)] = mk(ref(3), ref(4))
			x.Truth[name(2)] = mk(ref(3), ref(4))
		case 3: // collection root
			x.Truth[name(0)] = &gw.Content{L: absval.List{ref(2), ref(3), prim()}}
			x.Truth[name(1)] = mk(ref(3), ref(4))
			x.Truth[name(2)] = mk(prim(), ref(3))
		default: // diamond
			x.Truth[name(0)] = mk(ref(1), ref(2))
			x.Truth[name(1)] = mk(ref(3), ref(4))
			x.Truth[name(2)] = mk(ref(3))
		}
		x.Truth[name(3)] = mk(prim())
		x.Truth[name(4)] = mk(prim())
		x.slowR = -1
		if x.R.Intn(4) != 0 {
			x.slowR, x.slowTyp = 4, "get"
		}
		direct := map[string]int{}
		steps := 6 + x.R.Intn(6)
		if shape == 6 {
			// call (or auth) on resource 1 answered with a resource response naming 2; 2 loads, its child 4 is slow; 2 changes while the
			// request waits: the events held for 2 may only follow the response that hands it over
			x.slowR, x.slowTyp = 4, "get"
			x.pol[" "+name(1)] = accessPolicy{call: "*"}
			x.sendFrame(A, x.R.Pick("call", "auth"), 1, "res2")
			x.internalSteps(3 + x.R.Intn(8))
			for k := 1 + x.R.Intn(3); k > 0; k-- {
				if x.Run.W.MQ.HasSub("event." + name(2)) {
					if x.R.Intn(2) == 0 {
						x.changeEvent(2)
					} else {
						x.customEvent(2)
					}
				}
				x.internalSteps(x.R.Intn(4))
			}
			x.slowR = -1
			x.internalSteps(x.R.Intn(8))
			steps = 2 + x.R.Intn(4)
		}
		if shape == 7 {
			// 0 (collection) and 1 (model) are held; 1 gains references to 3 and 4 in one event and waits for 4; 0 then gains a
			// reference to 3, which is loaded but not yet sent; 0 keeps changing afterwards
			x.slowR, x.slowTyp = 4, "get"
			x.sendFrame(A, "subscribe", 0, "")
			direct[A.Label+" "+name(0)]++
			x.sendFrame(A, "subscribe", 1, "")
			direct[A.Label+" "+name(1)]++
			if x.R.Intn(2) == 0 {
				// one of the two resources the model is about to reference is already held (and sent)
				x.sendFrame(A, "subscribe", 3, "")
				direct[A.Label+" "+name(3)]++
			}
			x.settle()
			ch := absval.KV{0: ref(3), 1: ref(4), 9: prim()}
			for k2, v := range ch {
				x.Truth[name(1)].M[k2] = v
			}
			x.Run.Do(gw.Action{A: "event", Subj: "event." + name(1), Ev: "change", Text: `{"values":` + ch.JSON() + `}`, Abs: "1\tchange\t" + absKV(ch)})
			x.internalSteps(3 + x.R.Intn(6))
			addTo0 := func(v absval.V) {
				cont := x.Truth[name(0)]
				idx := x.R.Intn(len(cont.L) + 1)
				cont.L = append(cont.L[:idx:idx], append(absval.List{v}, cont.L[idx:]...)...)
				x.Run.Do(gw.Action{A: "event", Subj: "event." + name(0), Ev: "add", Text: `{"idx":` + strconv.Itoa(idx) + `,"value":` + v.JSON() + `}`,
					Abs: "0\tadd\t" + strconv.Itoa(idx) + "\t" + v.String()})
			}
			addTo0(ref(3))
			x.internalSteps(x.R.Intn(5))
			for k := 1 + x.R.Intn(3); k > 0; k-- {
				if x.R.Intn(2) == 0 {
					addTo0(prim())
				} else {
					x.customEvent(0)
				}
				x.internalSteps(x.R.Intn(4))
			}
			if x.R.Intn(2) == 0 {
				x.slowR = -1
			}
			steps = 2 + x.R.Intn(4)
		}
		if c0 := x.Truth[name(0)]; !c0.IsModel && len(c0.L) == 1 {
			// the collection gains a reference to a resource whose own child is still loading, and that resource changes
			// while it waits: the events held for it may only follow the add event that hands it over
			x.sendFrame(A, "subscribe", 0, "")
			direct[A.Label+" "+name(0)]++
			x.settle()
			addRef := func(t int) {
				cont := x.Truth[name(0)]
				idx := x.R.Intn(len(cont.L) + 1)
				v := ref(t)
				cont.L = append(cont.L[:idx:idx], append(absval.List{v}, cont.L[idx:]...)...)
				x.Run.Do(gw.Action{A: "event", Subj: "event." + name(0), Ev: "add", Text: `{"idx":` + strconv.Itoa(idx) + `,"value":` + v.JSON() + `}`,
					Abs: "0\tadd\t" + strconv.Itoa(idx) + "\t" + v.String()})
			}
			addRef(2)
			x.internalSteps(2 + x.R.Intn(6))
			for k := 1 + x.R.Intn(3); k > 0; k-- {
				if x.R.Intn(2) == 0 {
					x.changeEvent(2)
				} else {
					x.customEvent(2)
				}
				x.internalSteps(x.R.Intn(4))
			}
			if x.R.Intn(2) == 0 {
				x.slowR = -1
			}
			steps = 2 + x.R.Intn(4)
		}
		for st := 0; st < steps; st++ {
			c := A
			if x.R.Intn(4) == 0 {
				c = B
			}
			n := x.R.Intn(R - 1) // resource 4 is only reached through references
			key := c.Label + " " + name(n)
			switch k := x.R.Intn(10); {
			case k < 4:
				x.sendFrame(c, "subscribe", n, "")
				direct[key]++
			case k < 7:
				if direct[key] > 0 && x.outstanding[key] == 0 {
					x.sendFrame(c, "unsubscribe", n, "")
					direct[key]--
				}
			case k < 8:
				x.customEvent(2 + x.R.Intn(2))
			default:
				// add or remove a reference by a change / add / remove event on a subscribed resource
				m := x.R.Intn(3)
				cont := x.Truth[name(m)]
				if cont == nil || !x.Run.W.MQ.HasSub("event."+name(m)) {
					break
				}
				if cont.IsModel {
					ch := absval.KV{9: prim()}
					kk := x.R.Intn(3)
					switch x.R.Intn(3) {
					case 0:
						t := 2 + x.R.Intn(2)
						if t != m {
							ch[kk] = ref(t)
						}
					case 1:
						ch[kk] = prim()
					default:
						if _, ok := cont.M[kk]; ok {
							ch[kk] = absval.V{K: 'x'}
						}
					}
					for k2, v := range ch {
						if v.K == 'x' {
							delete(cont.M, k2)
						} else {
							cont.M[k2] = v
						}
					}
					x.Run.Do(gw.Action{A: "event", Subj: "event." + name(m), Ev: "change", Text: `{"values":` + ch.JSON() + `}`,
						Abs: strconv.Itoa(m) + "\tchange\t" + absKV(ch)})
				} else if len(cont.L) > 0 && x.R.Intn(2) == 0 {
					idx := x.R.Intn(len(cont.L))
					cont.L = append(cont.L[:idx:idx], cont.L[idx+1:]...)
					x.Run.Do(gw.Action{A: "event", Subj: "event." + name(m), Ev: "remove", Text: `{"idx":` + strconv.Itoa(idx) + `}`,
						Abs: strconv.Itoa(m) + "\tremove\t" + strconv.Itoa(idx)})
				} else {
					idx := x.R.Intn(len(cont.L) + 1)
					v := ref(2 + x.R.Intn(2))
					cont.L = append(cont.L[:idx:idx], append(absval.List{v}, cont.L[idx:]...)...)
					x.Run.Do(gw.Action{A: "event", Subj: "event." + name(m), Ev: "add", Text: `{"idx":` + strconv.Itoa(idx) + `,"value":` + v.JSON() + `}`,
						Abs: strconv.Itoa(m) + "\tadd\t" + strconv.Itoa(idx) + "\t" + v.String()})
				}
			}
			if st == steps*2/3 {
				x.slowR = -1 // the held-back get is answered from here on
			}
			x.between()
		}
	case "limit":
		// the per-resource limit of direct subscriptions (256): fill it with subscribe / get / resource responses, go past it,
		// then unsubscribe with counts around the limit
		const X = 0
		x.Truth[name(X)] = &gw.Content{IsModel: true, M: absval.KV{0: {K: 'p', N: x.fresh()}}}
		total := 256 - x.R.Intn(3)
		for i := 0; i < total; i++ {
			x.sendFrame(A, "subscribe", X, "")
			if i%32 == 31 {
				x.settle()
			}
		}
		x.settle()
		for k := 1 + x.R.Intn(4); k > 0; k-- {
			if x.R.Intn(3) == 0 {
				// a call / auth answered with a resource response naming X: one more direct subscription, or none past the limit
				x.sendFrame(A, x.R.Pick("call", "auth"), x.R.Intn(p.Resources), "res0")
			} else {
				x.sendFrame(A, x.R.Pick("subscribe", "subscribe", "get"), X, "")
			}
			x.between()
		}
		x.settle()
		for _, cnt := range []int{257, 256 + x.R.Intn(3), 255, x.R.Intn(4), 1 + x.R.Intn(3)} {
			x.nextID[A.Label]++
			x.Run.Do(gw.Action{A: "frame", C: A.Label, Text: fmt.Sprintf(`{"id":%d,"method":"unsubscribe.%s","params":{"count":%d}}`, x.nextID[A.Label], name(X), cnt)})
			x.settle()
		}
	case "disc":
		// a client leaves at an arbitrary point of a few requests in progress: with answers outstanding, with tasks queued
		// behind the close, with a second client sharing the resources; late answers arrive afterwards
		cls := x.Run.W.Clients
		if x.R.Intn(2) == 0 {
			x.tokenEvent(A, 1, true)
		}
		for k := 1 + x.R.Intn(3); k > 0; k-- {
			n := x.R.Intn(p.Resources)
			switch x.R.Intn(6) {
			case 0:
				x.sendFrame(A, "get", n, "")
			case 1:
				x.sendFrame(A, "call", n, "set")
			case 2:
				x.sendFrame(B, "subscribe", n, "")
			default:
				x.sendFrame(A, "subscribe", n, "")
			}
			x.internalSteps(x.R.Intn(5))
		}
		switch x.R.Intn(4) {
		case 0:
			x.settle()
		case 1:
			x.sysReset(x.R.Pick("access", "both"), "test.>")
			x.internalSteps(x.R.Intn(4))
		case 2:
			x.tokenResetEvent()
		}
		cClosed(x.Run, A)
		x.Run.Do(gw.Action{A: "disconnect", C: A.Label})
		closed[x.Run][A.Label] = true
		// what is still outstanding is answered in any order relative to the close being carried out
		x.internalSteps(x.R.Intn(6))
		if x.R.Intn(3) == 0 {
			x.changeEvent(x.R.Intn(p.Resources))
		}
		if x.R.Intn(4) == 0 {
			x.sysReset("access", "test.>")
		}
		x.settle()
		if len(cls) > 1 && x.R.Intn(2) == 0 {
			x.sendFrame(B, "subscribe", x.R.Intn(p.Resources), "")
			x.settle()
		}
	case "thr":
		// every client holds a few resources; then a system reset whose governed requests (re-fetches, re-access checks)
		// exceed the throttle, disturbed while they wait: a client leaves, unsubscribes, a second reset arrives
		cls := x.Run.W.Clients
		for _, c := range cls {
			for k := 1 + x.R.Intn(3); k > 0; k-- {
				x.sendFrame(c, "subscribe", x.R.Intn(p.Resources), "")
			}
		}
		x.settle()
		for round := 1 + x.R.Intn(2); round > 0; round-- {
			x.sysReset(x.R.Pick("access", "access", "both", "resources"), "test.>")
			x.internalSteps(x.R.Intn(8))
			switch x.R.Intn(7) {
			case 0, 1:
				c := cls[x.R.Intn(len(cls))]
				if !cClosed(x.Run, c) && len(cls) > 1 {
					x.Run.Do(gw.Action{A: "disconnect", C: c.Label})
					closed[x.Run][c.Label] = true
				}
			case 2:
				c := cls[x.R.Intn(len(cls))]
				n := x.R.Intn(p.Resources)
				if !cClosed(x.Run, c) && x.outstanding[c.Label+" "+name(n)] == 0 {
					x.sendFrame(c, "unsubscribe", n, "")
				}
			case 3:
				x.sysReset(x.R.Pick("access", "both"), x.R.Pick("test.>", name(x.R.Intn(p.Resources))))
			case 4:
				c := cls[x.R.Intn(len(cls))]
				if !cClosed(x.Run, c) {
					x.sendFrame(c, "subscribe", x.R.Intn(p.Resources), "")
				}
			case 5:
				// a request that joins an access check waiting in (or released by) the throttle
				c := cls[x.R.Intn(len(cls))]
				if !cClosed(x.Run, c) {
					x.sendFrame(c, x.R.Pick("call", "call", "get"), x.R.Intn(p.Resources), "set")
				}
			}
			x.settle()
		}
	}
	x.slowR = -1
	x.internalSteps(-1)
	x.quiesce("final")
	if p.Endgame {
		x.endgame()
	}
}

// sysReset announces a system reset; for resources it first changes one matched resource silently.
func (x *Explorer) sysReset(which string, pat string) {
	if which != "access" {
		// only a resource the reset announces may have changed silently
		n := x.R.Intn(x.P.Resources)
		if strings.HasPrefix(pat, "test.r") {
			n, _ = strconv.Atoi(pat[6:])
		}
		x.silentMutation(n)
	}
	if which != "resources" && x.P.Denials {
		for i := 0; i < x.P.Resources; i++ {
			if x.R.Intn(3) == 0 {
				x.changePolicy(name(i))
			}
		}
	}
	var payload string
	switch which {
	case "resources":
		payload = `{"resources":["` + pat + `"]}`
	case "access":
		payload = `{"access":["` + pat + `"]}`
	default:
		payload = `{"resources":["` + pat + `"],"access":["` + pat + `"]}`
	}
	x.Run.Do(gw.Action{A: "sysevent", Ev: "reset", Text: payload, Abs: "reset\t" + which + "\t" + fmt.Sprintf("%x", pat)})
}

var _ = server.Config{}
