// natsrun drives the real NATS adapter (nats.Client) over TCP against an in-process fake NATS server
// (text protocol) with scripted per-request reply behaviours, and writes one case line per request,
// event subscription and disconnect for the OCaml driver (Coq model Comp/Adapter.v).
package main

import (
	"bufio"
	"flag"
	"fmt"
	"math/rand"
	"net"
	"os"
	"strconv"
	"strings"
	"sync"
	"time"

	"github.com/resgateio/resgate/nats"
)

type nullLogger struct{}

func (nullLogger) Log(string)    {}
func (nullLogger) Error(string)  {}
func (nullLogger) Debug(string)  {}
func (nullLogger) Trace(string)  {}
func (nullLogger) IsDebug() bool { return false }
func (nullLogger) IsTrace() bool { return false }

// fake is a minimal NATS server for one client connection.
type fake struct {
	ln    net.Listener
	conn  net.Conn
	w     *bufio.Writer
	mu    sync.Mutex
	subs  map[string]string // sid -> subject
	onPub func(subj, reply string, payload []byte)
	ready chan struct{}
}

func (f *fake) send(s string) {
	f.mu.Lock()
	f.w.WriteString(s)
	f.w.Flush()
	f.mu.Unlock()
}

func (f *fake) sidFor(subject string) string {
	f.mu.Lock()
	defer f.mu.Unlock()
	for sid, s := range f.subs {
		if s == subject || (strings.HasSuffix(s, ".*") && strings.HasPrefix(subject, s[:len(s)-1]) && !strings.Contains(subject[len(s)-1:], ".")) {
			return sid
		}
	}
	return ""
}

func (f *fake) msg(subject, payload string) bool {
	sid := f.sidFor(subject)
	if sid == "" {
		return false
	}
	f.send(fmt.Sprintf("MSG %s %s %d\r\n%s\r\n", subject, sid, len(payload), payload))
	return true
}

func (f *fake) noResponders(subject string) {
	sid := f.sidFor(subject)
	if sid == "" {
		return
	}
	h := "NATS/1.0 503\r\n\r\n"
	f.send(fmt.Sprintf("HMSG %s %s %d %d\r\n%s\r\n", subject, sid, len(h), len(h), h))
}

func (f *fake) serve() {
	c, err := f.ln.Accept()
	if err != nil {
		return
	}
	f.conn = c
	f.w = bufio.NewWriter(c)
	f.send(`INFO {"server_id":"fake","version":"2.6.6","proto":1,"headers":true,"max_payload":1048576}` + "\r\n")
	close(f.ready)
	r := bufio.NewReaderSize(c, 1<<16)
	for {
		line, err := r.ReadString('\n')
		if err != nil {
			return
		}
		line = strings.TrimRight(line, "\r\n")
		parts := strings.Fields(line)
		if len(parts) == 0 {
			continue
		}
		switch strings.ToUpper(parts[0]) {
		case "PING":
			f.send("PONG\r\n")
		case "SUB":
			f.mu.Lock()
			f.subs[parts[len(parts)-1]] = parts[1]
			f.mu.Unlock()
		case "UNSUB":
			f.mu.Lock()
			delete(f.subs, parts[1])
			f.mu.Unlock()
		case "PUB", "HPUB":
			n, _ := strconv.Atoi(parts[len(parts)-1])
			buf := make([]byte, n+2)
			got := 0
			for got < len(buf) {
				m, err := r.Read(buf[got:])
				got += m
				if err != nil {
					return
				}
			}
			reply := ""
			if (parts[0] == "PUB" && len(parts) == 4) || (parts[0] == "HPUB" && len(parts) == 5) {
				reply = parts[2]
			}
			if f.onPub != nil {
				go f.onPub(parts[1], reply, buf[:n])
			}
		}
	}
}

const (
	reqTimeout = 80 * time.Millisecond
	preExtend  = 260 // ms in the timeout:"..." pre-response
)

// behaviours and the model action lists they correspond to
var behaviours = []string{"reply", "dup", "503", "silent", "pre-reply", "pre-silent", "late", "toolong", "pre-pre-reply", "reply-after-pre-timeout", "pubfail"}

func main() {
	seed := flag.Int64("seed", 1, "seed")
	n := flag.Int("n", 200, "requests")
	out := flag.String("out", "natscases.txt", "output")
	flag.Parse()
	rnd := rand.New(rand.NewSource(*seed))
	ln, err := net.Listen("tcp", "127.0.0.1:0")
	if err != nil {
		panic(err)
	}
	f := &fake{ln: ln, subs: map[string]string{}, ready: make(chan struct{})}
	go f.serve()

	type obs struct {
		kind string
		at   time.Duration
	}
	var mu sync.Mutex
	results := map[int][]obs{}
	start := map[int]time.Time{}
	behav := map[int]string{}

	f.onPub = func(subj, reply string, payload []byte) {
		p := strings.Split(subj, ".")
		if len(p) < 3 || p[0] != "req" {
			return
		}
		switch p[1] {
		case "reply":
			f.msg(reply, `{"result":1}`)
		case "dup":
			f.msg(reply, `{"result":1}`)
			f.msg(reply, `{"result":2}`)
		case "503":
			f.noResponders(reply)
		case "silent":
		case "pre-reply":
			f.msg(reply, `timeout:"`+strconv.Itoa(preExtend)+`"`)
			time.Sleep(reqTimeout + 60*time.Millisecond) // beyond the default timeout, within the extended one
			f.msg(reply, `{"result":"late"}`)
		case "pre-silent":
			f.msg(reply, `timeout:"`+strconv.Itoa(preExtend)+`"`)
		case "late":
			time.Sleep(reqTimeout + 120*time.Millisecond)
			f.msg(reply, `{"result":"too late"}`)
		case "pre-pre-reply":
			f.msg(reply, `timeout:"`+strconv.Itoa(preExtend)+`"`)
			time.Sleep(100 * time.Millisecond)
			f.msg(reply, `timeout:"`+strconv.Itoa(preExtend)+`"`)
			time.Sleep(preExtend*time.Millisecond - 100*time.Millisecond + 60*time.Millisecond) // beyond the first extension, within the second
			f.msg(reply, `{"result":"later"}`)
		case "reply-after-pre-timeout":
			f.msg(reply, `timeout:"`+strconv.Itoa(preExtend)+`"`)
			time.Sleep(preExtend*time.Millisecond + 150*time.Millisecond)
			f.msg(reply, `{"result":"too late"}`)
		}
	}

	c := &nats.Client{URL: "nats://" + ln.Addr().String(), RequestTimeout: reqTimeout, Logger: nullLogger{}, BufferSize: 8192}
	if err := c.Connect(); err != nil {
		fmt.Println("connect error:", err)
		os.Exit(1)
	}
	closed := make(chan error, 1)
	c.SetClosedHandler(func(err error) { closed <- err })
	<-f.ready

	// event subscription: order and silence after Unsubscribe
	var evs []string
	sub, err := c.Subscribe("event.x", func(subj string, data []byte, _ error) {
		mu.Lock()
		evs = append(evs, string(data))
		mu.Unlock()
	})
	if err != nil {
		panic(err)
	}
	_, errLong := c.Subscribe("event."+strings.Repeat("y", 4100), func(string, []byte, error) {})

	published := 0
	for i := 0; i < *n; i++ {
		i := i
		b := behaviours[rnd.Intn(len(behaviours))]
		subj := "req." + b + "." + strconv.Itoa(i)
		if b == "toolong" {
			subj = "req.toolong." + strings.Repeat("a", 4080+rnd.Intn(20))
		}
		mu.Lock()
		behav[i] = b
		start[i] = time.Now()
		mu.Unlock()
		payload := []byte(`{}`)
		if b == "pubfail" {
			// larger than the max_payload the server advertises: the client library rejects the publish locally
			payload = make([]byte, 1048576+16)
		}
		c.SendRequest(subj, payload, func(_ string, data []byte, err error) {
			k := "reply"
			if err != nil {
				k = err.Error()
				switch {
				case strings.Contains(k, "timeout"):
					k = "timeout"
				case strings.Contains(k, "Not found"):
					k = "noresponders"
				case strings.Contains(k, "too long"):
					k = "toolong"
				case strings.Contains(k, "payload"):
					k = "senderror"
				}
			}
			mu.Lock()
			results[i] = append(results[i], obs{k, time.Since(start[i])})
			mu.Unlock()
		})
		if i%7 == 0 {
			if f.msg("event.x.custom", strconv.Itoa(i)) {
				published++
			}
		}
		if rnd.Intn(4) == 0 {
			time.Sleep(time.Duration(rnd.Intn(3)) * time.Millisecond)
		}
	}
	nsent := 0
	for wait := 0; wait < 200; wait++ {
		mu.Lock()
		nsent = len(evs)
		mu.Unlock()
		if nsent >= published {
			break
		}
		time.Sleep(5 * time.Millisecond)
	}
	sub.Unsubscribe()
	f.msg("event.x.custom", "after-unsubscribe")
	// wait for every timer path
	time.Sleep(2*preExtend*time.Millisecond + 400*time.Millisecond)

	fo, _ := os.Create(*out)
	w := bufio.NewWriter(fo)
	mu.Lock()
	for i := 0; i < *n; i++ {
		var ks []string
		tooEarly := false
		for _, o := range results[i] {
			ks = append(ks, o.kind)
			if o.kind == "timeout" {
				min := reqTimeout
				switch behav[i] {
				case "pre-silent", "reply-after-pre-timeout":
					min = preExtend * time.Millisecond
				}
				if o.at < min-5*time.Millisecond {
					tooEarly = true
				}
			}
		}
		fmt.Fprintf(w, "adapter\t%s\t%s|%v\n", behav[i], strings.Join(ks, ","), tooEarly)
	}
	// events: in publish order, none after Unsubscribe
	inOrder := true
	last := -1
	after := false
	for _, e := range evs {
		if e == "after-unsubscribe" {
			after = true
			continue
		}
		k, _ := strconv.Atoi(e)
		if k <= last {
			inOrder = false
		}
		last = k
	}
	fmt.Fprintf(w, "adapter_events\t%d\t%d|%v|%v|%v\n", published, nsent, inOrder, after, errLong != nil)
	mu.Unlock()
	// server disconnect -> closed handler
	f.conn.Close()
	got := false
	select {
	case <-closed:
		got = true
	case <-time.After(2 * time.Second):
	}
	fmt.Fprintf(w, "adapter_closed\tx\t%v\n", got)
	w.Flush()
	fo.Close()
	fmt.Printf("REQUESTS\t%d\n", *n)
}
