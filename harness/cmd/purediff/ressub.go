package main

import (
	"errors"
	"fmt"
	"strconv"
	"strings"

	"github.com/resgateio/resgate/server/rescache"
	"github.com/resgateio/resgate/server/reserr"
	"verif/harness/internal/absval"
	"verif/harness/internal/gen"
)

func genVal(r *gen.R, allowDelete bool) absval.V {
	k := r.Intn(12)
	switch {
	case k < 5:
		return absval.V{K: 'p', N: r.Intn(3)}
	case k < 8:
		return absval.V{K: 'r', N: r.Intn(3)}
	case k < 9:
		return absval.V{K: 's', N: r.Intn(3)}
	case k < 10:
		return absval.V{K: 'd', N: r.Intn(2)}
	}
	if allowDelete {
		return absval.V{K: 'x'}
	}
	return absval.V{K: 'p', N: r.Intn(3)}
}

func genKV(r *gen.R, maxKeys int, allowDelete bool) absval.KV {
	m := absval.KV{}
	n := r.Intn(maxKeys + 1)
	for i := 0; i < n; i++ {
		m[r.Intn(4)] = genVal(r, allowDelete)
	}
	return m
}

func genList(r *gen.R, max int) absval.List {
	n := r.Intn(max + 1)
	l := make(absval.List, n)
	for i := range l {
		l[i] = genVal(r, false)
	}
	return l
}

var badPayloads = []string{`"str"`, `{"values":{"k0":[1]}}`, `{"values":{"k0":{"rid":""}}}`, `{"values":{"k1":{"action":"x"}}}`,
	`{"values":{"k0":{"rid":"a","data":1}}}`, `[1]`, `{"values":{"k2":{"foo":1}}}`, `{"values":`}
var badAdd = []string{`{"idx":"0","value":1}`, `{"idx":0,"value":[1]}`, `"x"`, `{"idx":0,"value":{"rid":"a b"}}`, `{"idx":0}`, `{"idx":1.5,"value":1}`, `{"idx":0,"value":{}}`}
var badRemove = []string{`{"idx":"0"}`, `"x"`, `{"idx":1.5}`, `[0]`, `{"idx":99999999999999999999}`}

func oevString(ev *rescache.ResourceEvent) string {
	v := strconv.FormatUint(uint64(ev.Version), 10)
	switch ev.Event {
	case "change":
		return "C" + v + "/" + absval.KVFromCodec(ev.Changed).String()
	case "add":
		return "A" + v + "/" + strconv.Itoa(ev.Idx) + "/" + absval.FromCodec(ev.Value).String()
	case "remove":
		return "R" + v + "/" + strconv.Itoa(ev.Idx) + "/" + absval.FromCodec(ev.Value).String()
	case "delete":
		return "D" + v
	case "reaccess":
		return "X" + v
	}
	return "U" + v + "/" + strings.TrimPrefix(ev.Event, "custom")
}

func init() {
	register("ressub", func(r *gen.R, n int, c *caseWriter) {
		for i := 0; i < n; i++ {
			isModel := r.Intn(2) == 0
			var v *rescache.VerifRS
			var initS string
			if isModel {
				m := genKV(r, 4, false)
				v = rescache.NewVerifRS("test.r9", "", m.Codec(), nil)
				initS = "M" + m.String()
			} else {
				l := genList(r, 5)
				v = rescache.NewVerifRS("test.r9", "", nil, l.Codec())
				initS = "L" + l.String()
			}
			nops := 1 + r.Intn(8)
			var ops, outs []string
			resetting := false
			for j := 0; j < nops; j++ {
				before := len(v.Sent)
				var op string
				k := r.Intn(100)
				// bias towards the kind that fits the resource
				switch {
				case k < 22 && isModel || k < 4:
					p := genKV(r, 3, true)
					op = "ec" + p.String()
					v.Event("change", []byte(`{"values":`+p.JSON()+`}`))
				case k < 26:
					op = "eC"
					v.Event("change", []byte(badPayloads[r.Intn(len(badPayloads))]))
				case k < 45 && !isModel || k < 30:
					_, col, _, _, _ := v.State()
					idx := r.Intn(len(col)+3) - 1
					val := genVal(r, r.Intn(10) == 0)
					op = fmt.Sprintf("ea%d:%s", idx, val)
					v.Event("add", []byte(fmt.Sprintf(`{"idx":%d,"value":%s}`, idx, val.JSON())))
				case k < 48:
					op = "eA"
					v.Event("add", []byte(badAdd[r.Intn(len(badAdd))]))
				case k < 62 && !isModel || k < 51:
					_, col, _, _, _ := v.State()
					idx := r.Intn(len(col)+3) - 1
					op = fmt.Sprintf("er%d", idx)
					v.Event("remove", []byte(fmt.Sprintf(`{"idx":%d}`, idx)))
				case k < 64:
					op = "eR"
					v.Event("remove", []byte(badRemove[r.Intn(len(badRemove))]))
				case k < 67:
					op = "ed"
					v.Event("delete", nil)
				case k < 73:
					u := r.Intn(3)
					op = "eu" + strconv.Itoa(u)
					v.Event("custom"+strconv.Itoa(u), []byte(`{"x":1}`))
				case k < 75:
					op = "ex"
					v.Event("reaccess", nil)
				case k < 80:
					op = "rs"
					if !resetting {
						v.SetResetting(true)
						resetting = true
					}
				default:
					if !resetting && r.Intn(3) > 0 {
						// an answer only makes sense for an outstanding reset: start one first
						ops = append(ops, "rs")
						outs = append(outs, "")
						v.SetResetting(true)
					}
					resetting = false
					switch x := r.Intn(10); {
					case x < 4:
						// mostly a small edit of the current content, as a real service would send
						m, col, _, _, _ := v.State()
						if isModel && r.Intn(4) > 0 || !isModel && r.Intn(8) == 0 {
							nm := absval.KV{}
							if m != nil {
								nm = absval.KVFromCodec(m)
							}
							for e := r.Intn(3); e > 0; e-- {
								if r.Intn(3) == 0 {
									delete(nm, r.Intn(4))
								} else {
									nm[r.Intn(4)] = genVal(r, false)
								}
							}
							op = "rm" + nm.String()
							v.ResetResponse([]byte(`{"result":{"model":`+nm.JSON()+`}}`), nil)
						} else {
							nl := absval.List{}
							if col != nil {
								nl = append(nl, absval.ListFromCodec(col)...)
							}
							for e := r.Intn(4); e > 0; e-- {
								if len(nl) > 0 && r.Intn(2) == 0 {
									p := r.Intn(len(nl))
									nl = append(nl[:p:p], nl[p+1:]...)
								} else {
									p := r.Intn(len(nl) + 1)
									nl = append(nl[:p:p], append(absval.List{genVal(r, false)}, nl[p:]...)...)
								}
							}
							op = "rc" + nl.String()
							v.ResetResponse([]byte(`{"result":{"collection":`+nl.JSON()+`}}`), nil)
						}
					case x < 6:
						nm := genKV(r, 4, false)
						op = "rm" + nm.String()
						v.ResetResponse([]byte(`{"result":{"model":`+nm.JSON()+`}}`), nil)
					case x < 8:
						nl := genList(r, 6)
						op = "rc" + nl.String()
						v.ResetResponse([]byte(`{"result":{"collection":`+nl.JSON()+`}}`), nil)
					case x < 9:
						op = "rn"
						v.ResetResponse([]byte(`{"error":{"code":"system.notFound","message":"Not found"}}`), nil)
					default:
						op = "re"
						switch r.Intn(4) {
						case 0:
							v.ResetResponse(nil, reserr.ErrTimeout)
						case 1:
							v.ResetResponse([]byte(`{"error":{"code":"system.internalError","message":"x"}}`), nil)
						case 2:
							v.ResetResponse([]byte(`{"result":{"model":{"a":[1]}}}`), nil)
						default:
							v.ResetResponse(nil, errors.New("boom"))
						}
					}
				}
				ops = append(ops, op)
				var o []string
				for _, ev := range v.Sent[before:] {
					o = append(o, oevString(ev))
				}
				outs = append(outs, strings.Join(o, "+"))
			}
			m, col, ver, ns, cnt := v.State()
			var st string
			if isModel {
				st = "M" + absval.KVFromCodec(m).String()
			} else {
				st = "L" + absval.ListFromCodec(col).String()
			}
			fin := fmt.Sprintf("%s v%d s%d c%d e%d", st, ver, ns, cnt, v.Errs)
			c.emit("ressub", initS, strings.Join(ops, "|"), strings.Join(outs, "|")+" => "+fin)
		}
	})
}
