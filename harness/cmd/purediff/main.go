// purediff runs the real resgate pure routines on generated inputs and writes
// "function \t args... \t output" lines; the OCaml driver evaluates the Coq models on them.
package main

import (
	"bufio"
	"flag"
	"fmt"
	"os"
	"strconv"
	"strings"

	"verif/harness/internal/gen"
)

type caseWriter struct {
	w     *bufio.Writer
	count map[string]int
}

func (c *caseWriter) emit(fn string, fields ...string) {
	c.count[fn]++
	c.w.WriteString(fn)
	for _, f := range fields {
		c.w.WriteByte('\t')
		c.w.WriteString(f)
	}
	c.w.WriteByte('\n')
}

func b2s(b bool) string {
	if b {
		return "1"
	}
	return "0"
}

func ints(xs []int) string {
	s := make([]string, len(xs))
	for i, x := range xs {
		s[i] = strconv.Itoa(x)
	}
	return strings.Join(s, ",")
}

type suite struct {
	name string
	run  func(r *gen.R, n int, c *caseWriter)
}

var suites []suite

func register(name string, run func(r *gen.R, n int, c *caseWriter)) {
	suites = append(suites, suite{name, run})
}

func main() {
	seed := flag.Int64("seed", 1, "PRNG seed")
	n := flag.Int("n", 1000, "cases per suite (random part)")
	out := flag.String("out", "cases.txt", "output file")
	only := flag.String("suites", "", "comma separated suite names (default all)")
	flag.Parse()

	f, err := os.Create(*out)
	if err != nil {
		panic(err)
	}
	defer f.Close()
	cw := &caseWriter{w: bufio.NewWriterSize(f, 1<<20), count: map[string]int{}}
	want := map[string]bool{}
	for _, s := range strings.Split(*only, ",") {
		if s != "" {
			want[s] = true
		}
	}
	for i, s := range suites {
		if len(want) > 0 && !want[s.name] {
			continue
		}
		s.run(gen.New(*seed*1000003+int64(i)), *n, cw)
	}
	cw.w.Flush()
	for k, v := range cw.count {
		fmt.Printf("GEN\t%s\t%d\n", k, v)
	}
}
