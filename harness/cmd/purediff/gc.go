package main

import (
	"fmt"
	"strconv"
	"strings"

	"github.com/resgateio/resgate/server"
	"verif/harness/internal/gen"
)

// The connection-side collector (wsConn.removeCount / tryDelete, Subscription.Dispose / Unsend) run on synthetic
// subscription graphs through the verif-tagged export server.VerifGC, against the Coq model Comp/Gc.v.
// Graphs: 2-6 nodes, up to 3 distinct children each (sharing, cycles and self references allowed), counters
// consistent with the graph (indirect = parents, indirectsent = sent parents, children of sent nodes are sent).
// Operations: release direct subscriptions of a node, or drop one reference (the parent's edge is removed first,
// as Subscription.removeReference does). Each case is followed by up to two more operations on the resulting graph,
// so that the states produced by the collector itself (including the inconsistent ones its recorded defects leave
// behind) are inputs too.
func init() {
	register("gc", func(r *gen.R, n int, c *caseWriter) {
		// the witness of Props/C02.v (C02_collector_sent_counts_refuted) runs first: model and code must agree on it
		{
			nodes := []server.VerifGCNode{{Direct: 1, State: 5, Refs: []int{2}, Present: true}, {Direct: 1, State: 5, Refs: []int{2}, Present: true},
				{Indirect: 2, IndirectSent: 2, State: 5, Present: true}}
			out, pt := server.VerifGC(nodes, "direct", 0, false, 1)
			spec := make([]string, len(nodes))
			res := make([]string, len(nodes))
			for j, nd := range nodes {
				spec[j] = fmt.Sprintf("%d,%d,%d,%d,%s,%s", nd.Direct, nd.Indirect, nd.IndirectSent, nd.State, strings.ReplaceAll(ints(nd.Refs), ",", "+"), b2s(nd.Present))
				if out[j].Present {
					res[j] = fmt.Sprintf("%d,%d,%d,%d,1", out[j].Direct, out[j].Indirect, out[j].IndirectSent, out[j].State)
				} else {
					res[j] = "gone"
				}
			}
			c.emit("gc", "direct", "0", "0", "1", strings.Join(spec, "|"), strings.Join(res, "|")+pt)
		}
		for i := 0; i < n; i++ {
			k := 2 + r.Intn(5)
			nodes := make([]server.VerifGCNode, k)
			for j := range nodes {
				st := []int{5, 5, 5, 5, 3, 2, 4, 1}[r.Intn(8)]
				nodes[j] = server.VerifGCNode{State: st, Direct: []int{0, 0, 1, 1, 2}[r.Intn(5)], Present: true}
				for e := r.Intn(4); e > 0; e-- {
					ch := r.Intn(k)
					dup := false
					for _, x := range nodes[j].Refs {
						if x == ch {
							dup = true
						}
					}
					if !dup {
						nodes[j].Refs = append(nodes[j].Refs, ch)
					}
				}
				if st < 2 {
					nodes[j].Refs = nil // not loaded yet: no references known
				}
			}
			// children of sent nodes are sent
			for changed := true; changed; {
				changed = false
				for j := range nodes {
					if nodes[j].State == 5 {
						for _, ch := range nodes[j].Refs {
							if nodes[ch].State != 5 {
								nodes[ch].State = 5
								changed = true
							}
						}
					}
				}
			}
			for j := range nodes {
				for _, ch := range nodes[j].Refs {
					nodes[ch].Indirect++
					if nodes[j].State == 5 {
						nodes[ch].IndirectSent++
					}
				}
			}
			for step := 0; step < 3; step++ {
				var op string
				target, sent, count := 0, false, 1
				var cands []int
				for j, nd := range nodes {
					if nd.Present && nd.Direct > 0 {
						cands = append(cands, j)
					}
				}
				type edge struct{ p, ci int }
				var edges []edge
				for j, nd := range nodes {
					if nd.Present {
						for ci := range nd.Refs {
							edges = append(edges, edge{j, ci})
						}
					}
				}
				switch {
				case len(cands) > 0 && (len(edges) == 0 || r.Intn(3) > 0):
					op, target = "direct", cands[r.Intn(len(cands))]
					count = 1 + r.Intn(nodes[target].Direct)
				case len(edges) > 0:
					e := edges[r.Intn(len(edges))]
					op, target = "indirect", nodes[e.p].Refs[e.ci]
					sent = nodes[e.p].State == 5
					rs := append([]int(nil), nodes[e.p].Refs[:e.ci]...)
					nodes[e.p].Refs = append(rs, nodes[e.p].Refs[e.ci+1:]...)
				default:
					step = 3
					continue
				}
				out, pt := server.VerifGC(nodes, op, target, sent, count)
				spec := make([]string, len(nodes))
				res := make([]string, len(nodes))
				for j, nd := range nodes {
					spec[j] = fmt.Sprintf("%d,%d,%d,%d,%s,%s", nd.Direct, nd.Indirect, nd.IndirectSent, nd.State, strings.ReplaceAll(ints(nd.Refs), ",", "+"), b2s(nd.Present))
					o := out[j]
					if o.Present {
						res[j] = fmt.Sprintf("%d,%d,%d,%d,1", o.Direct, o.Indirect, o.IndirectSent, o.State)
					} else {
						res[j] = "gone"
					}
				}
				c.emit("gc", op, strconv.Itoa(target), b2s(sent), strconv.Itoa(count), strings.Join(spec, "|"), strings.Join(res, "|")+pt)
				// continue from the implementation's result
				for j := range nodes {
					refs := nodes[j].Refs
					if !out[j].Present {
						refs = nil
					}
					nodes[j] = server.VerifGCNode{Direct: out[j].Direct, Indirect: out[j].Indirect, IndirectSent: out[j].IndirectSent, State: out[j].State,
						Refs: refs, Present: out[j].Present}
				}
			}
		}
	})
}
