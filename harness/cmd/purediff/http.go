package main

import (
	"errors"
	"net/http"
	"sort"
	"strconv"
	"strings"
	"sync"
	"time"

	"github.com/resgateio/resgate/server"
	"github.com/resgateio/resgate/server/codec"
	"github.com/resgateio/resgate/server/rescache"
	"github.com/resgateio/resgate/server/reserr"
	"verif/harness/internal/gen"
)

var allCodes = []string{reserr.CodeAccessDenied, reserr.CodeInternalError, reserr.CodeInvalidParams, reserr.CodeInvalidQuery,
	reserr.CodeMethodNotFound, reserr.CodeNoSubscription, reserr.CodeNotFound, reserr.CodeTimeout, reserr.CodeInvalidRequest,
	reserr.CodeUnsupportedProtocol, reserr.CodeSubjectTooLong, reserr.CodeDeleted, reserr.CodeBadRequest, reserr.CodeMethodNotAllowed,
	reserr.CodeServiceUnavailable, reserr.CodeForbidden, reserr.CodeNotImplemented}

func pathSeg(r *gen.R) string {
	switch r.Intn(10) {
	case 0:
		return r.Pick("%2E", "%2e", "%2F", "%", "%4", "%zz", "%20", "%00", "%3F", "%2A", "%3E", "a%2Eb", "%C3%A9", "%ff", "+", "a+b")
	case 1:
		return r.Pick("", ".", "a.b", "*", ">", "a b", "?", "\xff")
	}
	return r.Pick("a", "b", "test", "model", "m1", "~", "A", "x-y", "$", "@", "a=b", "{cid}")
}

func init() {
	register("status", func(r *gen.R, n int, c *caseWriter) {
		for _, code := range append(allCodes, "custom.error", "", "system.NotFound", "system.notfound") {
			_, st := server.VerifErrorStatus(&reserr.Error{Code: code, Message: "m"})
			c.emit("error_status", gen.Hex(code), strconv.Itoa(st))
		}
		_, st := server.VerifErrorStatus(errors.New("plain"))
		c.emit("error_status", gen.Hex("<plain-go-error>"), strconv.Itoa(st))
		for s := -5; s < 1024; s++ {
			c.emit("status_error", strconv.Itoa(s), server.VerifStatusError(s).Code)
			s := s
			m := &codec.Meta{Status: &s}
			c.emit("meta_status", strconv.Itoa(s), b2s(m.IsDirectResponseStatus())+b2s(m.IsValidStatus()))
		}
		var nilMeta *codec.Meta
		c.emit("meta_status", "none", b2s(nilMeta.IsDirectResponseStatus())+b2s(nilMeta.IsValidStatus()))
		c.emit("meta_status", "none", b2s((&codec.Meta{}).IsDirectResponseStatus())+b2s((&codec.Meta{}).IsValidStatus()))
	})
	register("origin", func(r *gen.R, n int, c *caseWriter) {
		hosts := []string{"http://a.com", "http://A.com", "https://a.com", "http://a.com:8080", "http://b.org", "http://ab.com", "http://a.co", "HTTP://A.COM", "http://\xc3\xa9.com", "http://\xc3\x89.com", "http://a.com/", "", "null", "http://a.comm", "http://[::1]", "http://K.com", "http://\xe2\x84\xaa.com"}
		for i := 0; i < n+200; i++ {
			k := 1 + r.Intn(3)
			os := make([]string, k)
			for j := range os {
				os[j] = server.VerifToLowerASCII(hosts[r.Intn(len(hosts))])
				if r.Intn(8) == 0 {
					os[j] = server.VerifToLowerASCII(r.Mutate(os[j]))
				}
			}
			sort.Strings(os)
			// only allow-lists the configuration accepts
			if server.VerifValidateAllowOrigin(append([]string{}, os...)) != nil {
				continue
			}
			o := hosts[r.Intn(len(hosts))]
			if r.Intn(3) == 0 {
				o = os[r.Intn(k)]
				if r.Intn(2) == 0 {
					o = strings.ToUpper(o)
				}
			}
			if r.Intn(8) == 0 {
				o = r.Mutate(o)
			}
			hs := make([]string, k)
			for j := range os {
				hs[j] = gen.Hex(os[j])
			}
			c.emit("origin", strings.Join(hs, ","), gen.Hex(o), b2s(server.VerifMatchesOrigins(os, o)))
			c.emit("to_lower", gen.Hex(o), gen.Hex(server.VerifToLowerASCII(o)))
		}
	})
	register("header", func(r *gen.R, n int, c *caseWriter) {
		names := []string{"Content-Type", "content-type", "CONTENT-TYPE", "Access-Control-Allow-Origin", "access-control-allow-origin",
			"Access-Control-Allow-Credentials", "access-control-allow-credentials", "Sec-WebSocket-Extensions", "sec-websocket-extensions", "Sec-Websocket-Protocol",
			"SEC-WEBSOCKET-PROTOCOL", "Set-Cookie", "set-cookie", "SET-COOKIE", "X-Custom", "x-custom", "Location", "location", "Vary", "Sec-WebSocket-Accept", "sec-websocket-key", "Content-Length"}
		for i := 0; i < n; i++ {
			base := http.Header{}
			nb := r.Intn(4)
			for j := 0; j < nb; j++ {
				k := http.CanonicalHeaderKey(names[r.Intn(len(names))])
				base[k] = append(base[k], "b"+strconv.Itoa(j))
			}
			meta := http.Header{}
			nm := 1 + r.Intn(4)
			for j := 0; j < nm; j++ {
				k := names[r.Intn(len(names))]
				for x := r.Intn(2); x >= 0; x-- {
					meta[k] = append(meta[k], "m"+strconv.Itoa(j)+strconv.Itoa(x))
				}
			}
			render := func(h http.Header) string {
				ks := make([]string, 0, len(h))
				for k := range h {
					ks = append(ks, k)
				}
				sort.Strings(ks)
				var p []string
				for _, k := range ks {
					p = append(p, k+"="+strings.Join(h[k], "|"))
				}
				return strings.Join(p, ";")
			}
			in1, in2 := render(base), render(meta)
			m := &codec.Meta{Header: meta}
			m.Canonicalize()
			codec.MergeHeader(base, m.Header)
			// values of two spellings of one name are concatenated in map order by Canonicalize: compare as sorted multisets
			for k := range base {
				if len(base[k]) > 1 && k != "Set-Cookie" {
					sort.Strings(base[k])
				}
			}
			if sc, ok := base["Set-Cookie"]; ok {
				// the base part keeps its order; the appended part may come in either spelling order
				nbase := 0
				for _, v := range sc {
					if strings.HasPrefix(v, "b") {
						nbase++
					}
				}
				sort.Strings(sc[nbase:])
			}
			c.emit("header", gen.Hex(in1), gen.Hex(in2), gen.Hex(render(base)))
		}
	})
	register("httppath", func(r *gen.R, n int, c *caseWriter) {
		prefixes := []string{"/api/", "/", "/a/b/", "/api/v1/", "/api/v1.0/", "/x.y/", "/%41pi/"}
		for i := 0; i < n; i++ {
			prefix := prefixes[r.Intn(len(prefixes))]
			k := r.Intn(5)
			segs := make([]string, k)
			for j := range segs {
				segs[j] = pathSeg(r)
			}
			path := prefix + strings.Join(segs, "/")
			switch r.Intn(12) {
			case 0:
				path = strings.TrimSuffix(prefix, "/") + "/" + "/" + strings.Join(segs, "/")
			case 1:
				path = r.Mutate(path)
			case 2:
				path = prefix
			case 3:
				path = "/other/" + strings.Join(segs, "/")
			}
			q := r.Pick("", "", "a=1", "q=*", "a.b", "x y")
			rid := server.PathToRID(path, q, prefix)
			c.emit("path_to_rid", gen.Hex(path), gen.Hex(q), gen.Hex(prefix), gen.Hex(rid))
			rid2, act := server.PathToRIDAction(path, q, prefix)
			c.emit("path_to_rid_action", gen.Hex(path), gen.Hex(q), gen.Hex(prefix), gen.Hex(rid2)+":"+gen.Hex(act))
			var rr string
			switch r.Intn(3) {
			case 0:
				rr = rid
			case 1:
				rr = dotted(r, 4, false)
			default:
				rr = r.RawBytes(8)
			}
			p := server.RIDToPath(rr, prefix)
			c.emit("rid_to_path", gen.Hex(rr), gen.Hex(prefix), gen.Hex(p))
		}
		for b := 0; b < 256; b++ {
			rr := "a." + string([]byte{byte(b)}) + "x"
			c.emit("rid_to_path", gen.Hex(rr), gen.Hex("/api/"), gen.Hex(server.RIDToPath(rr, "/api/")))
			for _, tail := range []string{"", "0", "0a", "F"} {
				path := "/api/a/%" + string([]byte{byte(b)}) + tail
				c.emit("path_to_rid", gen.Hex(path), "", gen.Hex("/api/"), gen.Hex(server.PathToRID(path, "", "/api/")))
			}
		}
	})
	register("throttle", func(r *gen.R, n int, c *caseWriter) {
		for i := 0; i < n; i++ {
			limit := 1 + r.Intn(4)
			t := rescache.NewThrottle(limit)
			var mu sync.Mutex
			var started []int
			sig := make(chan struct{}, 256)
			nops := 1 + r.Intn(14)
			var ops, outs []string
			added, ndone := 0, 0
			crashed := false
			for j := 0; j < nops && !crashed; j++ {
				mu.Lock()
				before := len(started)
				mu.Unlock()
				waitFor := 0
				doDone := r.Intn(5) < 2
				if doDone && ndone >= before && r.Intn(12) != 0 {
					doDone = false // respect the contract (Done only for a started, not yet done starter) most of the time
				}
				if !doDone {
					id := added
					added++
					ops = append(ops, "a"+strconv.Itoa(id))
					t.Add(func() {
						mu.Lock()
						started = append(started, id)
						mu.Unlock()
						sig <- struct{}{}
					})
				} else {
					ops = append(ops, "d")
					if added > before {
						waitFor = 1
					}
					func() {
						defer func() {
							if recover() != nil {
								crashed = true
							}
						}()
						t.Done()
					}()
					ndone++
				}
				// drain start signals: wait for the one a Done must cause, then a short settle for anything else
				deadline := time.After(2 * time.Second)
			wait:
				for {
					mu.Lock()
					got := len(started) - before
					mu.Unlock()
					if got >= waitFor {
						break
					}
					select {
					case <-sig:
					case <-deadline:
						break wait
					}
				}
				mu.Lock()
				var o []string
				for _, id := range started[before:] {
					o = append(o, strconv.Itoa(id))
				}
				mu.Unlock()
				if crashed {
					outs = append(outs, "CRASH")
				} else {
					outs = append(outs, strings.Join(o, "+"))
				}
			}
			time.Sleep(200 * time.Microsecond)
			mu.Lock()
			total := len(started)
			mu.Unlock()
			c.emit("throttle", strconv.Itoa(limit), strings.Join(ops, ","), strings.Join(outs, ",")+" total="+strconv.Itoa(total))
		}
	})
}
