package main

import (
	"strconv"
	"strings"

	"github.com/resgateio/resgate/server"
	"verif/harness/internal/gen"
)

// One real Subscription on a real, socket-less connection (server.VerifSub), driven with random operation sequences:
// continuations registered by get / call / ready requests, the resource handed over by the cache, resources taken and
// released for a response, events, re-access triggers, access answers of every kind, further direct subscriptions and
// the client's unsubscribe requests. After every operation the observations (continuations run with their verdict,
// frames, access requests, release of the cache entry) and a state summary are compared with Comp/SubFsm.v.
func init() {
	register("subfsm", func(r *gen.R, n int, c *caseWriter) {
		// the witnesses of the refuted statements (Props/C04.v, Props/C07.v) run first: model and code must agree on them
		for _, w := range []string{"get:1;unsub:1;answer:grant", "loaded;resources;release;get:1;reaccess;answer:grant",
			"loaded;resources;release;add;custom:1;reaccess;custom:2;answer:deny"} {
			v := server.NewVerifSub()
			var outs []string
			for _, op := range strings.Split(w, ";") {
				outs = append(outs, v.Do(op))
			}
			c.emit("subfsm", w, strings.Join(outs, "|"))
		}
		for i := 0; i < n; i++ {
			v := server.NewVerifSub()
			nops := 3 + r.Intn(14)
			var ops, outs []string
			k, seq := 0, 0
			loaded := false
			for j := 0; j < nops; j++ {
				var op string
				switch x := r.Intn(26); {
				case x < 3:
					k++
					op = "get:" + strconv.Itoa(k)
				case x < 5:
					k++
					op = "call:" + strconv.Itoa(k)
				case x < 7:
					k++
					op = "ready:" + strconv.Itoa(k)
				case x < 9 && !loaded:
					op, loaded = "loaded", true
				case x < 11:
					op = "resources"
				case x < 13:
					op = "release"
				case x < 16:
					seq++
					op = "custom:" + strconv.Itoa(seq)
				case x < 17:
					op = "delete"
				case x < 20:
					op = "reaccess"
				case x < 24:
					op = "answer:" + r.Pick("grant", "grant", "grantnocall", "deny", "denied", "error")
				case x < 25:
					op = "add"
				default:
					op = "unsub:" + strconv.Itoa(1+r.Intn(2))
				}
				ops = append(ops, op)
				outs = append(outs, v.Do(op))
			}
			c.emit("subfsm", strings.Join(ops, ";"), strings.Join(outs, "|"))
		}
	})
}
