package main

import (
	"encoding/json"
	"strconv"
	"strings"

	"github.com/resgateio/resgate/server"
	"github.com/resgateio/resgate/server/codec"
	"github.com/resgateio/resgate/server/rescache"
	"github.com/resgateio/resgate/server/rpc"
	"verif/harness/internal/gen"
)

var tokAlphabet = []string{"a", "b", "ab", "test", "model", "*", ">", "", "a*", "*a", ">a", "a>", "?", "a?b", " ", "a b", "\t", "\x7f", "\xc3\xa9", "\xff", "~", "!", "{cid}", "%2E", "A"}

// dotted builds a dot separated string from the token alphabet (mostly valid tokens).
func dotted(r *gen.R, maxTok int, wildOK bool) string {
	n := 1 + r.Intn(maxTok)
	ts := make([]string, n)
	for i := range ts {
		switch k := r.Intn(20); {
		case k < 12:
			ts[i] = tokAlphabet[r.Intn(5)]
		case k < 15 && wildOK:
			ts[i] = "*"
		case k < 16 && wildOK:
			ts[i] = ">"
		default:
			ts[i] = tokAlphabet[r.Intn(len(tokAlphabet))]
		}
	}
	if wildOK && r.Intn(4) == 0 {
		ts[n-1] = ">"
	}
	return strings.Join(ts, ".")
}

type fakeReq struct {
	calls []string
	parts [3]string
}

func (f *fakeReq) Reply(data []byte) {
	var m map[string]json.RawMessage
	json.Unmarshal(data, &m)
	if e, ok := m["error"]; ok {
		var er struct{ Code string }
		json.Unmarshal(e, &er)
		f.calls = append(f.calls, "reply-error:"+er.Code)
	} else {
		f.calls = append(f.calls, "reply-result")
	}
}
func (f *fakeReq) GetResource(rid string, cb func(*rpc.Resources, error)) {
	f.calls = append(f.calls, "@")
	f.parts = [3]string{"get", rid, ""}
}
func (f *fakeReq) SubscribeResource(rid string, cb func(*rpc.Resources, error)) {
	f.calls = append(f.calls, "@")
	f.parts = [3]string{"subscribe", rid, ""}
}
func (f *fakeReq) UnsubscribeResource(rid string, count int, cb func(bool)) {
	f.calls = append(f.calls, "@")
	f.parts = [3]string{"unsubscribe", rid, ""}
}
func (f *fakeReq) CallResource(rid, action string, p interface{}, cb func(interface{}, error)) {
	f.calls = append(f.calls, "@")
	f.parts = [3]string{"call", rid, action}
}
func (f *fakeReq) AuthResource(rid, action string, p interface{}, cb func(interface{}, error)) {
	f.calls = append(f.calls, "@")
	f.parts = [3]string{"auth", rid, action}
}
func (f *fakeReq) NewResource(rid string, p interface{}, cb func(interface{}, error)) {
	f.calls = append(f.calls, "@")
	f.parts = [3]string{"new", rid, ""}
}
func (f *fakeReq) SetVersion(p string) (string, error) { f.calls = append(f.calls, "version"); return "1.2.3", nil }
func (f *fakeReq) ProtocolVersion() int                { return 1002003 }

// dispatchOut canonicalises what HandleRequest did with a method string.
// seenMethod is the method string as encoding/json hands it to the gateway (invalid UTF-8 becomes U+FFFD).
func seenMethod(method string) string {
	mj, _ := json.Marshal(method)
	var m string
	json.Unmarshal(mj, &m)
	return m
}

func dispatchOut(method string) string {
	mj, _ := json.Marshal(method)
	f := &fakeReq{}
	rpc.HandleRequest([]byte(`{"id":1,"method":`+string(mj)+`}`), f)
	if len(f.calls) == 0 {
		return "none"
	}
	c := f.calls[0]
	switch {
	case c == "version":
		return "V"
	case c == "reply-error:system.invalidRequest":
		return "I"
	case strings.HasPrefix(c, "reply-"):
		return "?" + c
	}
	p := f.parts
	return "A:" + gen.Hex(p[0]) + ":" + gen.Hex(p[1]) + ":" + gen.Hex(p[2])
}

func init() {
	register("valid_rid", func(r *gen.R, n int, c *caseWriter) {
		for b := 0; b < 256; b++ {
			for _, pre := range []string{"", "a", "a.", "a?"} {
				s := pre + string([]byte{byte(b)})
				c.emit("valid_rid", gen.Hex(s), "1", b2s(codec.IsValidRID(s, true)))
				c.emit("valid_rid", gen.Hex(s), "0", b2s(codec.IsValidRID(s, false)))
				c.emit("valid_part", gen.Hex(s), b2s(codec.IsValidRIDPart(s)))
			}
		}
		for i := 0; i < n; i++ {
			var s string
			switch r.Intn(4) {
			case 0:
				s = r.RawBytes(8)
			default:
				s = dotted(r, 4, false)
				if r.Intn(3) == 0 {
					s += "?" + r.Pick("", "a=1", "q=*&x=>", "a.b=c", "?", "\xff", "a b")
				}
				if r.Intn(6) == 0 {
					s = r.Mutate(s)
				}
			}
			aq := r.Intn(2) == 0
			c.emit("valid_rid", gen.Hex(s), b2s(aq), b2s(codec.IsValidRID(s, aq)))
			p := r.Pick(tokAlphabet...)
			if r.Intn(3) == 0 {
				p = r.RawBytes(5)
			}
			c.emit("valid_part", gen.Hex(p), b2s(codec.IsValidRIDPart(p)))
			nm, q := server.VerifParseRID(s)
			c.emit("parse_rid", gen.Hex(s), gen.Hex(nm)+":"+gen.Hex(q))
		}
	})
	register("dispatch", func(r *gen.R, n int, c *caseWriter) {
		acts := []string{"get", "subscribe", "unsubscribe", "call", "auth", "new", "version", "Get", "foo", "", "calls", "ca", "get.", "call.call", "auth.auth"}
		for _, a := range acts {
			for _, rest := range []string{"", ".", ".a", ".a.b", ".a.b.c", ".a..b", ".a.b.", ".a.b?q=1", ".a?q.r", ".a?q.r.m", ".a.*", ".a.b c", ".a.\xff", "..", ".a.b.>", ".a.b.m?x"} {
				m := a + rest
				c.emit("dispatch", gen.Hex(seenMethod(m)), dispatchOut(m))
			}
		}
		for i := 0; i < n; i++ {
			a := acts[r.Intn(len(acts))]
			m := a + "." + dotted(r, 4, false)
			if r.Intn(4) == 0 {
				m += "?" + r.Pick("a=1", "a.b", "", "x.y.z")
			}
			switch r.Intn(8) {
			case 0:
				m = r.Mutate(m)
			case 1:
				m = r.RawBytes(10)
			}
			c.emit("dispatch", gen.Hex(seenMethod(m)), dispatchOut(m))
		}
	})
	register("pattern", func(r *gen.R, n int, c *caseWriter) {
		fixed := [][2]string{{"", ""}, {"", "a"}, {"a", ""}, {">", "a"}, {">", "a.b"}, {"*", "a"}, {"*", "a.b"}, {"a.>", "a"}, {"a.>", "a.b.c"},
			{"*.>", "a.b"}, {"a.*", "a.b"}, {"a.*", "a.bc.d"}, {"*.*", "a.b"}, {"a.*.c", "a.b.c"}, {"a.*.c", "a.bb.c"}, {"a.*.c", "a.b.cc"},
			{"te*", "test"}, {"a.>.b", "a.c.b"}, {"a.", "a."}, {".a", ".a"}, {"a..b", "a..b"}, {"a.b", "a.b"}, {"a.b", "a.bc"}, {"a.*", "a"}, {"*.a", "b.a"},
			{"*.a", "bb.a"}, {"*.a", "b.a.c"}, {"a.*.>", "a.b"}, {"a.*.>", "a.b.c"}, {"a?.b", "a?.b"}, {"a.**", "a.b"}, {"a.>>", "a.b"}, {"a.*b", "a.cb"}}
		for _, f := range fixed {
			p := rescache.ParseResourcePattern(f[0])
			c.emit("pattern", gen.Hex(f[0]), gen.Hex(f[1]), b2s(p.IsValid())+b2s(p.Match(f[1])))
		}
		for i := 0; i < n; i++ {
			pat := dotted(r, 4, true)
			var name string
			switch r.Intn(5) {
			case 0:
				name = dotted(r, 5, false)
			default:
				// derive the name from the pattern so matches are frequent
				ts := strings.Split(pat, ".")
				var ns []string
				for _, t := range ts {
					switch t {
					case "*":
						ns = append(ns, tokAlphabet[r.Intn(5)])
					case ">":
						for k := r.Intn(3); k >= 0; k-- {
							ns = append(ns, tokAlphabet[r.Intn(5)])
						}
					default:
						ns = append(ns, t)
					}
				}
				switch r.Intn(6) {
				case 0:
					ns = append(ns, tokAlphabet[r.Intn(5)])
				case 1:
					if len(ns) > 1 {
						ns = ns[:len(ns)-1]
					}
				case 2:
					ns[r.Intn(len(ns))] = tokAlphabet[r.Intn(5)]
				}
				name = strings.Join(ns, ".")
			}
			if r.Intn(10) == 0 {
				pat = r.Mutate(pat)
			}
			p := rescache.ParseResourcePattern(pat)
			// Match is only ever called with cached resource names, which are valid rids; keep names valid and
			// non-empty (an empty or odd name is the caller's contract, not the matcher's)
			if !codec.IsValidRID(name, false) {
				name = "a.b"
			}
			c.emit("pattern", gen.Hex(pat), gen.Hex(name), b2s(p.IsValid())+b2s(p.Match(name)))
		}
	})
	register("lcs", func(r *gen.R, n int, c *caseWriter) {
		// value classes 0..3; class k is rendered as a codec.Value of kind k%4 so that Equal is exercised per kind
		mk := func(k int) codec.Value {
			var v codec.Value
			var js string
			switch k % 4 {
			case 0:
				js = strconv.Itoa(k)
			case 1:
				js = `{"rid":"test.c` + strconv.Itoa(k) + `"}`
			case 2:
				js = `{"rid":"test.c` + strconv.Itoa(k) + `","soft":true}`
			default:
				js = `{"data":{"k":` + strconv.Itoa(k) + `}}`
			}
			if err := v.UnmarshalJSON([]byte(js)); err != nil {
				panic(err)
			}
			return v
		}
		classOf := func(v codec.Value) int {
			for k := 0; k < 8; k++ {
				if mk(k).Equal(v) {
					return k
				}
			}
			panic("class")
		}
		run := func(a, b []int) {
			av := make([]codec.Value, len(a))
			bv := make([]codec.Value, len(b))
			for i, k := range a {
				av[i] = mk(k)
			}
			for i, k := range b {
				bv[i] = mk(k)
			}
			evs := rescache.VerifLcs(av, bv)
			out := make([]string, len(evs))
			for i, ev := range evs {
				switch ev.Event {
				case "remove":
					d, err := codec.DecodeRemoveEvent(ev.Payload)
					if err != nil {
						panic(err)
					}
					out[i] = "r" + strconv.Itoa(d.Idx)
				case "add":
					d, err := codec.DecodeAddEvent(ev.Payload)
					if err != nil {
						panic(err)
					}
					out[i] = "a" + strconv.Itoa(d.Idx) + ":" + strconv.Itoa(classOf(d.Value))
				default:
					panic("lcs event " + ev.Event)
				}
			}
			c.emit("lcs", ints(a), ints(b), strings.Join(out, ","))
		}
		// exhaustive: all pairs of lists up to length 3 over 2 classes
		var lists [][]int
		var rec func(cur []int, d int)
		rec = func(cur []int, d int) {
			lists = append(lists, append([]int{}, cur...))
			if d == 0 {
				return
			}
			for k := 0; k < 2; k++ {
				rec(append(cur, k), d-1)
			}
		}
		rec(nil, 3)
		for _, a := range lists {
			for _, b := range lists {
				run(a, b)
			}
		}
		for i := 0; i < n; i++ {
			nc := 2 + r.Intn(4)
			a := make([]int, r.Intn(10))
			for j := range a {
				a[j] = r.Intn(nc)
			}
			var b []int
			if r.Intn(3) == 0 {
				b = make([]int, r.Intn(10))
				for j := range b {
					b[j] = r.Intn(nc)
				}
			} else {
				b = append(b, a...)
				for e := r.Intn(5); e > 0; e-- {
					if len(b) > 0 && r.Intn(2) == 0 {
						p := r.Intn(len(b))
						b = append(b[:p:p], b[p+1:]...)
					} else {
						p := r.Intn(len(b) + 1)
						b = append(b[:p:p], append([]int{r.Intn(nc)}, b[p:]...)...)
					}
				}
			}
			run(a, b)
		}
	})
}
