package main

import (
	"encoding/json"
	"fmt"
	"sort"
	"strconv"
	"strings"

	"github.com/resgateio/resgate/server"
	"github.com/resgateio/resgate/server/codec"
	"github.com/resgateio/resgate/server/reserr"
	"verif/harness/internal/gen"
)

func mustValue(js string) codec.Value {
	var v codec.Value
	if err := v.UnmarshalJSON([]byte(js)); err != nil {
		panic(err.Error() + ": " + js)
	}
	return v
}

func init() {
	register("render", func(r *gen.R, n int, c *caseWriter) {
		keys := []string{"a\x7fb", "\x01", "t\tn\n", "\xff", "a", "b", "name", "a", "b", "name", "a\"b", "<x>", "é", "k 1", "", "\\", " "}
		prims := []string{`1`, `"s"`, `true`, `null`, `-2.5e3`, `"a\"b"`, `"<>&"`, `""`}
		datas := []string{`{"x":1}`, `[1,2]`, `{"a":{"b":[]}}`, `[]`}
		prefixes := []string{"/api/", "/", "/a/b/", "/v1.2/"}
		rids := []string{"test.a", "test.b", "test.c.d", "x", "test.e?q=1", "t.f~g"}
		for i := 0; i < n; i++ {
			nn := 1 + r.Intn(5)
			apiPath := prefixes[r.Intn(len(prefixes))]
			enc := r.Pick("json", "jsonflat")
			nodes := make([]server.VerifNode, nn)
			specs := make([]string, nn)
			for j := 0; j < nn; j++ {
				rid := rids[j]
				hrefJSON, _ := json.Marshal(server.RIDToPath(rid, apiPath))
				nodes[j].RID = rid
				genVal := func() (codec.Value, string) {
					switch k := r.Intn(10); {
					case k < 4:
						t := r.Intn(nn) // any node, including itself and ancestors: cycles
						return mustValue(`{"rid":"` + rids[t] + `"}`), "r" + strconv.Itoa(t)
					case k < 5:
						t := rids[r.Intn(len(rids))]
						h, _ := json.Marshal(server.RIDToPath(t, apiPath))
						return mustValue(`{"rid":"` + t + `","soft":true}`), "s" + gen.Hex(string(h))
					case k < 6:
						d := datas[r.Intn(len(datas))]
						return mustValue(`{"data":` + d + `}`), "d" + gen.Hex(d)
					default:
						p := prims[r.Intn(len(prims))]
						return mustValue(p), "p" + gen.Hex(p)
					}
				}
				switch k := r.Intn(10); {
				case k < 1:
					e := []*reserr.Error{reserr.ErrNotFound, reserr.ErrAccessDenied, {Code: "custom.e", Message: "m<\"", Data: map[string]int{"a": 1}}}[r.Intn(3)]
					nodes[j].Err = e
					ej, _ := json.Marshal(e)
					specs[j] = gen.Hex(string(hrefJSON)) + ";E;" + gen.Hex(string(ej))
				case k < 6:
					nodes[j].IsModel = true
					nodes[j].Model = map[string]codec.Value{}
					var ks []string
					for e := r.Intn(4); e > 0; e-- {
						key := keys[r.Intn(len(keys))]
						if _, ok := nodes[j].Model[key]; !ok {
							ks = append(ks, key)
						}
						nodes[j].Model[key] = codec.Value{}
					}
					sort.Strings(ks)
					var parts []string
					for _, key := range ks {
						v, sp := genVal()
						nodes[j].Model[key] = v
						kj, _ := json.Marshal(key)
						parts = append(parts, gen.Hex(string(kj))+"="+sp)
					}
					specs[j] = gen.Hex(string(hrefJSON)) + ";M;" + strings.Join(parts, ",")
				default:
					var parts []string
					for e := r.Intn(4); e > 0; e-- {
						v, sp := genVal()
						nodes[j].Collection = append(nodes[j].Collection, v)
						parts = append(parts, sp)
					}
					if nodes[j].Collection == nil {
						nodes[j].Collection = []codec.Value{}
					}
					specs[j] = gen.Hex(string(hrefJSON)) + ";C;" + strings.Join(parts, ",")
				}
			}
			body, err := server.VerifEncodeGET(enc, apiPath, nodes)
			out := gen.Hex(string(body))
			if err != nil {
				out = "ERR:" + gen.Hex(err.Error())
			}
			c.emit("render", enc, fmt.Sprint(nn), strings.Join(specs, "|"), out)
		}
	})
}
