package main

import (
	"encoding/json"
	"strings"

	"github.com/resgateio/resgate/server/codec"
	"github.com/resgateio/resgate/server/reserr"

	"verif/harness/internal/gen"
)

// valuedec: codec.Value.UnmarshalJSON on generated value texts (model Pure/ValueDec.v).
// A case carries the text's abstraction (top-level kind, object members in order with key, value kind,
// decoded string and raw text) next to what the real decoder made of the text itself.

type vdMember struct {
	key  string
	kind byte   // n s t f d o a
	str  string // decoded string for kind s
	raw  string
}

func vdValue(r *gen.R) (byte, string, string) {
	switch r.Intn(14) {
	case 0:
		return 'n', "", "null"
	case 1:
		return 't', "", "true"
	case 2:
		return 'f', "", "false"
	case 3:
		return 'd', "", r.Pick("12", "-1", "0.5", "1e3")
	case 4:
		return 'o', "", r.Pick(`{"a":1}`, `{}`, `{"rid":"x"}`, `{ "action" : "delete" }`)
	case 5:
		return 'a', "", r.Pick(`[1]`, `[]`, `["a",{"b":2}]`)
	case 6, 7:
		s := r.Pick("delete", "delete", "Delete", "remove", "", "delete ", "deleted")
		b, _ := json.Marshal(s)
		return 's', s, string(b)
	default:
		s := r.Pick("test.model", "a.b", "a", "", "a..b", ".a", "a.", "a.b?q=1", "a?", "?q", "a b", "a.*", "a.>", "a.b?x=*&y=>", "a\tb", "a.é", "test.{cid}.x", "delete")
		b, _ := json.Marshal(s)
		return 's', s, string(b)
	}
}

func vdKey(r *gen.R) string {
	switch r.Intn(12) {
	case 0:
		return r.Pick("RID", "Rid", "rId", "SOFT", "Soft", "Action", "ACTION", "Data", "DATA", "dAta")
	case 1:
		return r.Pick("x", "", "ri", "ridd", "soft_", "href", "model", "_rid", "actions", "dat")
	}
	return r.Pick("rid", "rid", "rid", "soft", "soft", "action", "action", "data", "data")
}

func vdText(r *gen.R, ms []vdMember) string {
	var b strings.Builder
	ws := func() {
		if r.Intn(6) == 0 {
			b.WriteString(r.Pick(" ", "\t", "\n", "\r", "  "))
		}
	}
	b.WriteByte('{')
	for i, m := range ms {
		if i > 0 {
			b.WriteByte(',')
		}
		ws()
		kb, _ := json.Marshal(m.key)
		b.Write(kb)
		ws()
		b.WriteByte(':')
		ws()
		b.WriteString(m.raw)
		ws()
	}
	b.WriteByte('}')
	return b.String()
}

func vdImpl(text string) string {
	var v codec.Value
	err := v.UnmarshalJSON([]byte(text))
	if err != nil {
		re, ok := err.(*reserr.Error)
		if !ok {
			return "E:json"
		}
		const p = "Internal error: invalid value: "
		msg := re.Message
		switch {
		case msg == p+`resource references requires a non-empty "rid" value`:
			return "E:emptyrid"
		case msg == p+"ambiguous value type":
			return "E:ambiguous"
		case msg == p+"nested json object must be wrapped as a data value":
			return "E:objectnotallowed"
		case msg == p+"nested json array must be wrapped as a data value":
			return "E:arraynotallowed"
		case strings.HasPrefix(msg, p+`resource reference rid "`):
			return "E:invalidrid"
		case strings.HasPrefix(msg, p+`unknown action "`):
			return "E:unknownaction"
		}
		return "E:other:" + gen.Hex(msg)
	}
	t := map[codec.ValueType]string{codec.ValueTypeNone: "none", codec.ValueTypeDelete: "delete", codec.ValueTypePrimitive: "prim",
		codec.ValueTypeReference: "ref", codec.ValueTypeSoftReference: "soft", codec.ValueTypeData: "data"}[v.Type]
	inner := ""
	if v.Type == codec.ValueTypeData || (v.Type == codec.ValueTypePrimitive && v.Inner != nil) {
		inner = gen.Hex(string(v.Inner))
	}
	rid := ""
	if v.Type == codec.ValueTypeReference || v.Type == codec.ValueTypeSoftReference {
		rid = gen.Hex(v.RID)
	}
	return t + "|" + rid + "|" + gen.Hex(string(v.RawMessage)) + "|" + inner
}

func vdEmit(c *caseWriter, top string, ms []vdMember, text string) {
	parts := make([]string, len(ms))
	for i, m := range ms {
		parts[i] = gen.Hex(m.key) + ":" + string(m.kind) + ":" + gen.Hex(m.str) + ":" + gen.Hex(m.raw)
	}
	c.emit("value_dec", top, strings.Join(parts, ","), gen.Hex(text), vdImpl(text))
}

func init() {
	register("valuedec", func(r *gen.R, n int, c *caseWriter) {
		lead := func() string {
			if r.Intn(4) == 0 {
				return r.Pick(" ", "\t", "\n", "\r", " \n\t")
			}
			return ""
		}
		// fixed corpus: the shapes named by the protocol and the ambiguous pairs
		mk := func(kv ...string) []vdMember {
			var ms []vdMember
			for i := 0; i+1 < len(kv); i += 2 {
				raw := kv[i+1]
				m := vdMember{key: kv[i], raw: raw}
				switch raw[0] {
				case '"':
					m.kind = 's'
					json.Unmarshal([]byte(raw), &m.str)
				case 'n':
					m.kind = 'n'
				case 't':
					m.kind = 't'
				case 'f':
					m.kind = 'f'
				case '{':
					m.kind = 'o'
				case '[':
					m.kind = 'a'
				default:
					m.kind = 'd'
				}
				ms = append(ms, m)
			}
			return ms
		}
		for _, ms := range [][]vdMember{
			mk("rid", `"test.model"`), mk("rid", `"test.model"`, "soft", "true"), mk("action", `"delete"`),
			mk("data", `{"a":1}`), mk("data", `[1]`), mk("data", `12`), mk("data", `null`), mk("data", `"s"`),
			mk("rid", `"a"`, "data", `{"a":1}`), mk("rid", `"a"`, "action", `"delete"`), mk("action", `"delete"`, "data", `1`),
			mk("rid", `"a"`, "data", `null`), mk("rid", `""`), mk("rid", `""`, "data", "1"), mk("rid", `null`), mk("rid", `null`, "data", "1"),
			mk("rid", `"a"`, "rid", `null`, "action", `"delete"`), mk("soft", "true", "soft", "null", "rid", `"a"`),
			mk("rid", "12"), mk("rid", "12", "data", "1"), mk("soft", `"yes"`, "rid", `"a"`), mk("action", "true"), mk(), mk("x", "1"),
			mk("RID", `"a"`), mk("Data", "1"), mk("rid", `"a"`, "RID", `"b"`), mk("rid", `"a.b?q"`), mk("rid", `"a b"`), mk("action", `"Delete"`),
		} {
			vdEmit(c, "O", ms, vdText(r, ms))
		}
		for _, t := range []string{`[1]`, `[]`, ` [1]`, `12`, `"s"`, `null`, `true`, ` false`, "\n\t1.5", `"{"`, `"[1]"`} {
			top := "P"
			if strings.Contains(t[:len(t)-1], "[") && !strings.Contains(t, `"`) {
				top = "A"
			}
			vdEmit(c, top, nil, t)
		}
		for i := 0; i < n; i++ {
			var ms []vdMember
			k := r.Intn(5)
			if r.Intn(3) == 0 {
				k = 1
			}
			for j := 0; j < k; j++ {
				kind, str, raw := vdValue(r)
				key := vdKey(r)
				// mostly-valid stream: give the field a value of its own type two times out of three
				if r.Intn(3) != 0 {
					switch strings.ToLower(key) {
					case "soft":
						kind, str, raw = 't', "", "true"
						if r.Intn(3) == 0 {
							kind, raw = 'f', "false"
						}
					case "rid", "action":
						for kind != 's' {
							kind, str, raw = vdValue(r)
						}
					}
				}
				ms = append(ms, vdMember{key, kind, str, raw})
			}
			vdEmit(c, "O", ms, lead()+vdText(r, ms))
		}
	})
}
