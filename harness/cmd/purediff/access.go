package main

import (
	"strings"

	"github.com/resgateio/resgate/server"
	"github.com/resgateio/resgate/server/codec"
	"github.com/resgateio/resgate/server/rescache"
	"github.com/resgateio/resgate/server/reserr"
	"verif/harness/internal/gen"
)

func init() {
	register("can_get", func(r *gen.R, n int, c *caseWriter) {
		errs := []*reserr.Error{nil, reserr.ErrAccessDenied, reserr.ErrTimeout, reserr.ErrNotFound, reserr.ErrInternalError, {Code: "custom.x", Message: "m"}}
		for _, e := range errs {
			for _, g := range []bool{false, true} {
				for _, call := range []string{"", "*", "a,b"} {
					a := &rescache.Access{Error: e}
					in := "err:" + b2s(e != nil && e.Code == reserr.CodeAccessDenied)
					if e == nil {
						a.AccessResult = &codec.AccessResult{Get: g, Call: call}
						in = "res:" + b2s(g) + ":" + gen.Hex(call)
					}
					err := a.CanGet()
					out := "granted"
					if err != nil {
						out = "refused:" + b2s(e != nil)
						if e == nil && reserr.RESError(err).Code != reserr.CodeAccessDenied {
							out = "refused-other"
						}
					}
					c.emit("can_get", in, out)
				}
			}
		}
	})
	register("expand_cid", func(r *gen.R, n int, c *caseWriter) {
		parts := []string{"{cid}", "{cid", "cid}", "{", "}", "{{cid}}", "a", ".", "test", "{CID}", "{cid}{cid}", "?q=", "{c{cid}id}", ""}
		for i := 0; i < n; i++ {
			k := r.Intn(6)
			var b strings.Builder
			for j := 0; j < k; j++ {
				b.WriteString(parts[r.Intn(len(parts))])
			}
			rid := b.String()
			cid := r.Pick("abc123", "c9k2jd7h5s8k3j2h4g5f", "", "{cid}", "x{cid}y")
			c.emit("expand_cid", gen.Hex(rid), gen.Hex(cid), gen.Hex(server.VerifExpandCID(rid, cid)))
		}
	})
}
