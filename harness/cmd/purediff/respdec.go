package main

import (
	"strconv"
	"strings"

	"github.com/resgateio/resgate/server/codec"
	"github.com/resgateio/resgate/server/reserr"

	"verif/harness/internal/gen"
)

// respdec: codec.DecodeGetResponse and codec.DecodeCallResponse on generated payloads (model Pure/RespDec.v).
// The case carries the abstraction the payload text was built from.

var rdCodes = []string{"system.notFound", "custom.err", "system.internalError", "system.timeout"}

func rdValue(r *gen.R, cls byte) string {
	switch cls {
	case 'p':
		return r.Pick(`1`, `"s"`, `null`, `true`, `{"data":12}`)
	case 'r':
		return r.Pick(`{"rid":"a.b"}`, `{"rid":"test.model?q=1"}`, `{"RID":"x"}`)
	case 's':
		return r.Pick(`{"rid":"a.b","soft":true}`, `{"soft":true,"rid":"c"}`)
	case 'd':
		return r.Pick(`{"data":{"x":1}}`, `{"data":[1,2]}`)
	case 'D':
		return r.Pick(`{"action":"delete"}`, `{"action":"delete","x":1}`)
	}
	return r.Pick(`{"rid":"a","data":1}`, `[1]`, `{}`, `{"rid":""}`, `{"action":"remove"}`, `{"rid":"a..b"}`, `{"rid":12}`)
}

func rdValues(r *gen.R) string {
	n := r.Intn(4)
	var b strings.Builder
	for i := 0; i < n; i++ {
		k := r.Intn(20)
		switch {
		case k < 8:
			b.WriteByte('p')
		case k < 11:
			b.WriteByte('r')
		case k < 13:
			b.WriteByte('s')
		case k < 15:
			b.WriteByte('d')
		case k < 17:
			b.WriteByte('D')
		default:
			b.WriteByte('X')
		}
	}
	return b.String()
}

func rdSvc(err error) string {
	re, ok := err.(*reserr.Error)
	if !ok {
		return "json"
	}
	switch {
	case re.Message == "svc":
		for i, c := range rdCodes {
			if c == re.Code {
				return "svc:" + strconv.Itoa(i)
			}
		}
		return "svc:?"
	case re.Message == "Internal error: response missing result":
		return "missing"
	case re.Message == "Internal error: invalid service response":
		return "invalid"
	}
	return "json"
}

func init() {
	register("respdec", func(r *gen.R, n int, c *caseWriter) {
		nullOr := func(absentText *[]string, key string) {
			// an absent field is either left out or given as null
			if r.Intn(3) == 0 {
				*absentText = append(*absentText, `"`+key+`":null`)
			}
		}
		for i := 0; i < n; i++ {
			// ---- get response
			var top []string
			errF := "-"
			if r.Intn(5) == 0 {
				e := r.Intn(len(rdCodes))
				errF = strconv.Itoa(e)
				top = append(top, `"error":{"code":"`+rdCodes[e]+`","message":"svc"}`)
			} else {
				nullOr(&top, "error")
			}
			resF := "-"
			if r.Intn(8) != 0 {
				var inner []string
				mF, cF := "-", "-"
				k := r.Intn(10)
				if k < 5 || k == 8 {
					vs := rdValues(r)
					mF = "M" + vs
					var ms []string
					for j := 0; j < len(vs); j++ {
						ms = append(ms, `"k`+strconv.Itoa(j)+`":`+rdValue(r, vs[j]))
					}
					inner = append(inner, `"model":{`+strings.Join(ms, ",")+`}`)
				} else {
					nullOr(&inner, "model")
				}
				if (k >= 5 && k < 8) || k == 8 {
					vs := rdValues(r)
					cF = "C" + vs
					var cs []string
					for j := 0; j < len(vs); j++ {
						cs = append(cs, rdValue(r, vs[j]))
					}
					inner = append(inner, `"collection":[`+strings.Join(cs, ",")+`]`)
				} else {
					nullOr(&inner, "collection")
				}
				if r.Intn(4) == 0 {
					inner = append(inner, `"query":"a=1"`)
				}
				r.Shuffle(len(inner), func(a, b int) { inner[a], inner[b] = inner[b], inner[a] })
				resF = mF + ";" + cF
				top = append(top, `"result":{`+strings.Join(inner, ",")+`}`)
			} else {
				nullOr(&top, "result")
			}
			r.Shuffle(len(top), func(a, b int) { top[a], top[b] = top[b], top[a] })
			payload := `{` + strings.Join(top, ",") + `}`
			syn := "1"
			if r.Intn(12) == 0 {
				syn = "0"
				payload = r.Pick(`{"result":`, ``, `{"result":12}`, `{"result":{"model":[1]}}`, `{"result":{"collection":{"a":1}}}`, `{"error":"x"}`, `[]`, `{"result":{"model":{"a":1}}`)
			}
			res, err := codec.DecodeGetResponse([]byte(payload))
			out := ""
			switch {
			case err != nil:
				out = rdSvc(err)
			case res.Model != nil:
				out = "model:" + strconv.Itoa(len(res.Model))
			default:
				out = "coll:" + strconv.Itoa(len(res.Collection))
			}
			c.emit("get_dec", syn, errF, resF, gen.Hex(payload), out)

			// ---- call response
			top = nil
			errF = "-"
			if r.Intn(5) == 0 {
				e := r.Intn(len(rdCodes))
				errF = strconv.Itoa(e)
				top = append(top, `"error":{"code":"`+rdCodes[e]+`","message":"svc"}`)
			} else {
				nullOr(&top, "error")
			}
			ridF := "-"
			if r.Intn(3) == 0 {
				rid := r.Pick("test.model", "a.b?q=1", "a", "", "a..b", "a b", "a.*", "?x", "test.{cid}")
				ridF = "r" + gen.Hex(rid)
				if rid == "" && r.Intn(2) == 0 {
					top = append(top, `"resource":{}`)
				} else {
					top = append(top, `"resource":{"rid":"`+rid+`"}`)
				}
			} else {
				nullOr(&top, "resource")
			}
			rawF := "-"
			if r.Intn(4) != 0 {
				raw := r.Pick(`null`, `{"a":1}`, `12`, `"s"`, `[]`, `{"rid":"x"}`, `false`)
				rawF = "v" + gen.Hex(raw)
				top = append(top, `"result":`+raw)
			}
			if r.Intn(4) == 0 {
				top = append(top, `"meta":{"status":404}`)
			}
			r.Shuffle(len(top), func(a, b int) { top[a], top[b] = top[b], top[a] })
			payload = `{` + strings.Join(top, ",") + `}`
			syn = "1"
			if r.Intn(12) == 0 {
				syn = "0"
				payload = r.Pick(`{"result":`, ``, `{"resource":12}`, `{"resource":{"rid":12}}`, `{"error":"x"}`, `[]`, `{"meta":3}`)
			}
			raw, rid, _, err := codec.DecodeCallResponse([]byte(payload))
			switch {
			case err != nil:
				out = rdSvc(err)
			case rid != "":
				out = "rid:" + gen.Hex(rid)
			default:
				out = "res:" + gen.Hex(string(raw))
			}
			c.emit("call_dec", syn, errF, ridF, rawF, gen.Hex(payload), out)
		}
	})
}
