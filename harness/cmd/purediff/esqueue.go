package main

import (
	"fmt"
	"strconv"
	"strings"

	"github.com/resgateio/resgate/server/rescache"
	"verif/harness/internal/gen"
)

func init() {
	register("esqueue", func(r *gen.R, n int, c *caseWriter) {
		for i := 0; i < n; i++ {
			v := rescache.NewVerifES()
			nops := 2 + r.Intn(16)
			var ops []string
			owed := 0
			id := 0
			seen := 0
			for j := 0; j < nops; j++ {
				id++
				k := r.Intn(10)
				switch {
				case owed > 0 && k < 4:
					v.Unlock(strconv.Itoa(id))
					owed--
					ops = append(ops, "u"+strconv.Itoa(id))
				case k < 6:
					v.Enqueue(strconv.Itoa(id))
					ops = append(ops, "e"+strconv.Itoa(id))
				case k < 7:
					l := r.Intn(4)
					v.EnqueueLocking(strconv.Itoa(l), l)
					ops = append(ops, "E"+strconv.Itoa(l))
				default:
					v.Work()
					ops = append(ops, "w")
				}
				// a locking task that has run with l > 0 makes the environment owe l unlock calls
				for ; seen < len(v.Ran); seen++ {
					if it := v.Ran[seen]; it[0] == 'Q' {
						if l, _ := strconv.Atoi(it[1:]); l > 0 {
							owed = l
						}
					}
				}
			}
			ql, ll, lc, wk := v.State()
			c.emit("esqueue", strings.Join(ops, ","), fmt.Sprintf("%s|%d,%d,%d,%d", strings.Join(v.Ran, ","), ql, ll, lc, wk))
		}
	})
}
