package main

import (
	"strings"

	"github.com/resgateio/resgate/server/codec"
	"github.com/resgateio/resgate/server/rescache"
	"verif/harness/internal/gen"
)

func canCall(call, action string) bool {
	a := &rescache.Access{AccessResult: &codec.AccessResult{Get: true, Call: call}}
	return a.CanCall(action) == nil
}

func init() {
	register("can_call", func(r *gen.R, n int, c *caseWriter) {
		fixed := [][2]string{{"", ""}, {"", "a"}, {"*", "a"}, {"*", ""}, {"*", "*"}, {"a,*", "b"}, {"a,*", "*"}, {",", ""}, {"a,", ""}, {",a", ""},
			{"set,foobar", "foo"}, {"xfoo,bar", "foo"}, {"foo", "foo"}, {"a,b,c", "b"}, {"a,,c", ""}, {"**", "a"}, {"*,", "a"}}
		for _, f := range fixed {
			c.emit("can_call", gen.Hex(f[0]), gen.Hex(f[1]), b2s(canCall(f[0], f[1])))
		}
		for i := 0; i < n; i++ {
			// structured: lists of short tokens; the action is an entry, a prefix/suffix/substring of one, or random
			k := r.Intn(5)
			ents := make([]string, k)
			for j := range ents {
				switch r.Intn(8) {
				case 0:
					ents[j] = ""
				case 1:
					ents[j] = "*"
				default:
					ents[j] = r.Token()
				}
			}
			call := strings.Join(ents, ",")
			var act string
			switch r.Intn(6) {
			case 0, 1:
				if k > 0 {
					act = ents[r.Intn(k)]
				}
			case 2:
				if k > 0 {
					e := ents[r.Intn(k)]
					if len(e) > 0 {
						act = e[:r.Intn(len(e))+1][r.Intn(1):]
						if r.Intn(2) == 0 {
							act = e[r.Intn(len(e)):]
						}
					}
				}
			case 3:
				act = r.Token()
			case 4:
				act = call
			default:
				act = r.RawBytes(4)
			}
			if r.Intn(10) == 0 {
				call = r.Mutate(call)
			}
			c.emit("can_call", gen.Hex(call), gen.Hex(act), b2s(canCall(call, act)))
		}
	})
}
