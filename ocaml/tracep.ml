(* Parser from the harness's abstract trace files to the Coq trace alphabet (Spec/Trace.v). *)
open Cnv
module L = Stdlib.List
module S = Stdlib.String

let rid_tbl : (string, int) Hashtbl.t = Hashtbl.create 64
let rid_names : (int, string) Hashtbl.t = Hashtbl.create 64
(* "NqK" (resource N with query q=K) is interned as 200 + 10*N + K *)
let qparts (s : string) : (int * int) option =
  match S.index_opt s 'q' with
  | Some i when i > 0 ->
    (match int_of_string_opt (S.sub s 0 i), int_of_string_opt (S.sub s (i + 1) (S.length s - i - 1)) with
     | Some n, Some k when n >= 0 && n < 80 && k >= 0 && k < 10 -> Some (n, k)
     | _ -> None)
  | _ -> None
let rid_of (s : string) : Datatypes.nat =
  let n = (match int_of_string_opt s with
    | Some n when n >= 0 && n < 200 -> n
    | _ -> (match qparts s with
        | Some (n, k) -> 200 + 10 * n + k
        | None -> (try Hashtbl.find rid_tbl s with Not_found ->
              let n = 1000 + Hashtbl.length rid_tbl in Hashtbl.add rid_tbl s n; n))) in
  Hashtbl.replace rid_names n s; nat_of_int n
let rid_name (n : int) : string = try Hashtbl.find rid_names n with Not_found -> string_of_int n

let code_tbl : (string, int) Hashtbl.t = Hashtbl.create 16
let code_names : (int, string) Hashtbl.t = Hashtbl.create 16
let code_of (s : string) : Datatypes.nat =
  let n = (match s with
    | "system.noSubscription" -> 1 | "system.invalidParams" -> 2 | "system.accessDenied" -> 3
    | "system.notFound" -> 4 | "system.timeout" -> 5 | "system.internalError" -> 6 | "system.deleted" -> 7
    | "system.invalidRequest" -> 8
    | _ -> (try Hashtbl.find code_tbl s with Not_found -> let n = 100 + Hashtbl.length code_tbl in Hashtbl.add code_tbl s n; n)) in
  Hashtbl.replace code_names n s; nat_of_int n

let conn_of (s : string) : Datatypes.nat =
  (* c<N> -> N, h<N> -> 500+N *)
  let n = int_of_string (S.sub s 1 (S.length s - 1)) in
  nat_of_int (if S.get s 0 = 'h' then 500 + n else n)
let conn_name (n : int) : string = if n >= 500 then "h" ^ string_of_int (n - 500) else "c" ^ string_of_int n


let scode_of (s : string) : Status.code =
  match s with
  | "system.accessDenied" -> Status.AccessDenied | "system.internalError" -> Status.InternalError
  | "system.invalidParams" -> Status.InvalidParams | "system.invalidQuery" -> Status.InvalidQuery
  | "system.methodNotFound" -> Status.MethodNotFound | "system.noSubscription" -> Status.NoSubscription
  | "system.notFound" -> Status.NotFound | "system.timeout" -> Status.Timeout | "system.invalidRequest" -> Status.InvalidRequest
  | "system.unsupportedProtocol" -> Status.UnsupportedProtocol | "system.subjectTooLong" -> Status.SubjectTooLong
  | "system.deleted" -> Status.Deleted | "system.badRequest" -> Status.BadRequest | "system.methodNotAllowed" -> Status.MethodNotAllowed
  | "system.serviceUnavailable" -> Status.ServiceUnavailable | "system.forbidden" -> Status.Forbidden
  | "system.notImplemented" -> Status.NotImplemented | _ -> Status.OtherCode

(* abstract resource id of a concrete one (as harness/internal/gw AbsRID does for the generated ids) *)
let abs_of_rid (rid : string) : string =
  let pre = "test.r" in
  if S.length rid > 6 && S.sub rid 0 6 = pre then begin
    let rest = S.sub rid 6 (S.length rid - 6) in
    match int_of_string_opt rest with
    | Some n when n >= 0 -> string_of_int n
    | _ ->
      (match S.index_opt rest '?' with
       | Some i when S.length rest > i + 3 && S.sub rest (i + 1) 2 = "q=" ->
         (match int_of_string_opt (S.sub rest 0 i), int_of_string_opt (S.sub rest (i + 3) (S.length rest - i - 3)) with
          | Some n, Some k when k >= 0 && k < 10 -> string_of_int n ^ "q" ^ string_of_int k
          | _ -> "x" ^ hex rid)
       | _ -> "x" ^ hex rid)
  end else "x" ^ hex rid

let other_tbl : (string, int) Hashtbl.t = Hashtbl.create 16
let other_of s = try Hashtbl.find other_tbl s with Not_found -> let n = Hashtbl.length other_tbl in Hashtbl.add other_tbl s n; n

let cvalue_of (s : string) : Trace.cvalue =
  if s = "" then Trace.CU (nat_of_int 0) else
  let rest = S.sub s 1 (S.length s - 1) in
  match S.get s 0 with
  | 'p' -> Trace.CP (nat_of_int (int_of_string rest))
  | 'r' -> Trace.CR (rid_of rest)
  | 's' -> Trace.CS (rid_of rest)
  | 'd' -> Trace.CD (nat_of_int (int_of_string rest))
  | 'x' -> Trace.CX
  | 'S' -> Trace.CLS (rid_of rest)
  | 'D' -> Trace.CLD
  | _ -> Trace.CU (nat_of_int (other_of s))

let ckv_of (s : string) : (Datatypes.nat * Trace.cvalue) list =
  L.map (fun e -> match S.index_opt e ':' with
    | Some i -> (nat_of_int (int_of_string (S.sub e 0 i)), cvalue_of (S.sub e (i + 1) (S.length e - i - 1)))
    | None -> failwith ("kv " ^ s)) (split_on ';' s)
let clist_of (s : string) : Trace.cvalue list = L.map cvalue_of (split_on ',' s)

let rset_of (s : string) : (Datatypes.nat * Trace.rdata) list =
  if s = "-" then [] else
  L.map (fun e -> match S.split_on_char '~' e with
    | ["M"; r; kv] -> (rid_of r, Trace.RModel (ckv_of kv))
    | ["C"; r; l] -> (rid_of r, Trace.RColl (clist_of l))
    | ["E"; r; c] -> (rid_of r, Trace.RErr (code_of c))
    | _ -> failwith ("rset " ^ s)) (S.split_on_char '&' s)

let kind_of = function
  | "subscribe" -> Trace.KSub | "unsubscribe" -> Trace.KUnsub | "get" -> Trace.KGet | "call" -> Trace.KCall
  | "auth" -> Trace.KAuth | "new" -> Trace.KNew | "version" -> Trace.KVersion | _ -> Trace.KOther

let content_of (fs : string list) : Trace.rdata option =
  match fs with
  | ["M"; kv] -> Some (Trace.RModel (ckv_of kv))
  | ["M"] -> Some (Trace.RModel [])
  | ["C"; l] -> Some (Trace.RColl (clist_of l))
  | ["C"] -> Some (Trace.RColl [])
  | _ -> None

type stats = { mutable frames : int; mutable qs : int; mutable events : int; mutable lines : int; mutable sites : string list; mutable stall : bool;
               mutable errlogs : int }

let line_tbl : int array ref = ref [||]
let crash_txt : string ref = ref ""
let stop_bad : (string * int) list ref = ref []
let http_bad : (string * string * int) list ref = ref []
let parse_file (path : string) : Trace.tev list * stats =
  let ic = open_in path in
  let st = { frames = 0; qs = 0; events = 0; lines = 0; sites = []; stall = false; errlogs = 0 } in
  let out = ref [] in
  let linenos = ref [] in
  let push e = out := e :: !out; linenos := st.lines :: !linenos in
  let inq = ref false and truth = ref [] and subs = ref [] and ents = ref [] and qfinal = ref false in
  let task_go = ref false and task_resets = ref [] in   (* the current task: released from the reset throttle / resets it started *)
  let reqtab : (int, Datatypes.nat) Hashtbl.t = Hashtbl.create 64 in
  let http_open : (string, int * bool) Hashtbl.t = Hashtbl.create 8 in
  let http_rids : (string, Datatypes.nat) Hashtbl.t = Hashtbl.create 8 in
  let req_conn : (int, string) Hashtbl.t = Hashtbl.create 64 in
  let qreq : (int, string) Hashtbl.t = Hashtbl.create 16 in
  let tok_of (s : string) : Datatypes.nat =
    if s = "-" then nat_of_int 0
    else if S.length s > 1 && S.get s 0 = 't' then (match int_of_string_opt (S.sub s 1 (S.length s - 1)) with Some n -> nat_of_int (n + 1) | None -> nat_of_int (100 + other_of s))
    else nat_of_int (100 + other_of s) in
  let tid_of (s : string) : Datatypes.nat =
    if s = "-" || s = "" then nat_of_int 0
    else if S.length s > 3 && S.sub s 0 3 = "tid" then (match int_of_string_opt (S.sub s 3 (S.length s - 3)) with Some n -> nat_of_int (n + 1) | None -> nat_of_int (100 + other_of s))
    else nat_of_int (100 + other_of s) in
  (try
    while true do
      let line = input_line ic in
      st.lines <- st.lines + 1;
      let f = S.split_on_char '\t' line in
      if !inq then begin
        match f with
        | "TRUTH" :: r :: rest -> truth := (rid_of r, content_of rest) :: !truth
        | ["SNAPSUB"; c; r; state; direct; indirect; isent; _; _; _; _] ->
          subs := { Trace.ss_c = conn_of c; Trace.ss_r = rid_of r; Trace.ss_state = nat_of_int (int_of_string state);
                    Trace.ss_direct = nat_of_int (max 0 (int_of_string direct)); Trace.ss_indirect = nat_of_int (max 0 (int_of_string indirect));
                    Trace.ss_isent = nat_of_int (max 0 (int_of_string isent)) } :: !subs
        | ["SNAPENT"; r; count; mqsub; evict; nsubs; nres; who] ->
          ents := { Trace.se_r = rid_of r; Trace.se_count = z_of_int (int_of_string count); Trace.se_mqsub = (mqsub = "true");
                    Trace.se_evict = (evict = "true"); Trace.se_nsubs = nat_of_int (int_of_string nsubs);
                    Trace.se_nres = nat_of_int (int_of_string nres);
                    Trace.se_who = L.filter_map (fun w -> if S.length w > 1 && (S.get w 0 = 'c' || S.get w 0 = 'h') then Some (conn_of w) else None) (split_on ',' who) } :: !ents
        | "ENDQ" :: _ -> inq := false; st.qs <- st.qs + 1;
          push (Trace.TQ (L.rev !truth, L.rev !subs, L.rev !ents, !qfinal)); truth := []; subs := []; ents := []
        | _ -> ()
      end else begin
        match f with
        | _ :: c :: _ when S.length c > 1 && S.get c 0 = '?' -> push Trace.TOther   (* a connection the harness did not label (restart probe) *)
        | "MQREQ" :: _ :: _ :: _ :: _ :: c :: _ when S.length c > 1 && S.get c 0 = '?' -> push Trace.TOther
        | ["CONN"; c] -> push (Trace.TConn (conn_of c))
        | ["DISC"; c] -> push (Trace.TDisc (conn_of c))
        | ["REQ"; c; id; kind; r; extra] ->
          let k = if kind = "other" && r = "x76657273696f6e" then Trace.KVersion else kind_of kind in
          let ex = (match extra with "-" -> 0 | "bad" -> -1 | e -> (match int_of_string_opt e with Some n -> if n = 0 then -1 else n | None -> 0)) in
          push (Trace.TReq (conn_of c, nat_of_int (int_of_string id), k, rid_of r, z_of_int ex))
        | ["RESP"; c; id; "ok"; rs] -> st.frames <- st.frames + 1; push (Trace.TRespOk (conn_of c, nat_of_int (int_of_string id), rset_of rs))
        | ["RESP"; c; id; "okrid"; r; rs] -> st.frames <- st.frames + 1; push (Trace.TRespRid (conn_of c, nat_of_int (int_of_string id), rid_of r, rset_of rs))
        | ["RESP"; c; id; "okpayload"; _] -> st.frames <- st.frames + 1; push (Trace.TRespPayload (conn_of c, nat_of_int (int_of_string id)))
        | ["RESP"; c; id; "version"; _] -> st.frames <- st.frames + 1; push (Trace.TRespVersion (conn_of c, nat_of_int (int_of_string id)))
        | ["RESP"; c; id; "err"; code] -> st.frames <- st.frames + 1; push (Trace.TRespErr (conn_of c, nat_of_int (int_of_string id), code_of code))
        | ["EV"; c; r; "change"; kv; rs] -> st.frames <- st.frames + 1; push (Trace.TEvChange (conn_of c, rid_of r, ckv_of kv, rset_of rs))
        | ["EV"; c; r; "add"; idx; v; rs] -> st.frames <- st.frames + 1; push (Trace.TEvAdd (conn_of c, rid_of r, z_of_int (int_of_string idx), cvalue_of v, rset_of rs))
        | ["EV"; c; r; "remove"; idx] -> st.frames <- st.frames + 1; push (Trace.TEvRemove (conn_of c, rid_of r, z_of_int (int_of_string idx)))
        | ["EV"; c; r; "custom"; tag] -> st.frames <- st.frames + 1; push (Trace.TEvCustom (conn_of c, rid_of r, nat_of_int (other_of tag)))
        | ["EV"; c; r; "delete"] -> st.frames <- st.frames + 1; push (Trace.TEvDelete (conn_of c, rid_of r))
        | ["EV"; c; r; "unsub"; code] -> st.frames <- st.frames + 1; push (Trace.TEvUnsub (conn_of c, rid_of r, code_of code))
        | ["MQSUB"; "event"; r] -> push (Trace.TMqSub (rid_of r))
        | ["MQUNSUB"; "event"; r] -> push (Trace.TMqUnsub (rid_of r))
        | ["MQSUB"; "conn"; c] when S.length c > 1 && (S.get c 0 = 'c' || S.get c 0 = 'h') -> push (Trace.TConnSub (conn_of c))
        | ["MQUNSUB"; "conn"; c] when S.length c > 1 && (S.get c 0 = 'c' || S.get c 0 = 'h') -> push (Trace.TConnUnsub (conn_of c))
        | ["EVICT"; r] -> push (Trace.TEvict (rid_of r))
        | ["QVARIANTS"; b; vs] -> push (Trace.TQVariants (rid_of b, L.map rid_of (split_on ',' vs)))
        | ["QVARIANTS"; b] -> push (Trace.TQVariants (rid_of b, []))
        | ["CONNEV"; c; "token"; tok; _] -> push (Trace.TConnToken (conn_of c, tok_of tok))
        | ["TOKTASK"; c; tok; tid] -> push (Trace.TTokenTask (conn_of c, tok_of tok, tid_of tid))
        | ["SITE"; "reaccess.deferred"; c; r] when S.length c > 1 && S.get c 0 = 'c' -> st.sites <- "reaccess.deferred" :: st.sites; push (Trace.TReaccessDeferred (conn_of c, rid_of r))
        | ["HTTP"; h; meth; urlhex] ->
          (* the URL against the path model (Pure/HttpPath.v, C14); the request is then presented to the connection-level
             monitors as a connection that makes one get / call request *)
          let url = unhex urlhex in
          let (path, query) = (match S.index_opt url '?' with Some i -> (S.sub url 0 i, S.sub url (i + 1) (S.length url - i - 1)) | None -> (url, "")) in
          let api = chars_of_string "/api/" in
          let trailing = S.length path > 5 && S.get path (S.length path - 1) = '/' in
          let m = (match meth with "GET" -> 0 | "HEAD" -> 1 | "POST" -> 2 | _ -> 3) in
          let (rid_s, act_s) =
            if m = 2 then (let (r, a) = HttpPath.path_to_rid_action (chars_of_string path) (chars_of_string query) api in (string_of_chars r, string_of_chars a))
            else (string_of_chars (HttpPath.path_to_rid (chars_of_string path) (chars_of_string query) api), "") in
          let valid = not trailing && m < 3 && Rid.is_valid_rid (chars_of_string rid_s) true
                      && (m <> 2 || RidPart.is_valid_part (chars_of_string act_s)) in
          let c = conn_of h in
          let r = rid_of (abs_of_rid rid_s) in
          Hashtbl.replace http_open h (m, valid);
          Hashtbl.replace http_rids h r;
          push (Trace.THttpReq (c, nat_of_int m, valid, r));
          push (Trace.TConn c);
          if valid then push (Trace.TReq (c, nat_of_int 1, (if m = 2 then Trace.KCall else Trace.KGet), r, z_of_int 0))
        | ["HTTPRESP"; h; status; kind; loc; hdrhex] ->
          let c = conn_of h in
          (* C17: whatever letter case a service uses, a meta header never reaches the response under a protected name
             (canonicalisation model Pure/Header.v); the harness marks every meta header value with "evil" *)
          L.iter (fun kv ->
            match S.index_opt kv '=' with
            | Some i ->
              let k = S.sub kv 0 i and v = S.sub kv (i + 1) (S.length kv - i - 1) in
              let ck = string_of_chars (Header.canon (chars_of_string k)) in
              let has_evil = (let n = S.length v in let rec go j = j + 4 <= n && (S.sub v j 4 = "evil" || go (j + 1)) in go 0) in
              if L.mem ck ["Content-Type"; "Access-Control-Allow-Origin"; "Access-Control-Allow-Credentials"; "Sec-Websocket-Extensions"; "Sec-Websocket-Protocol"]
                 && (has_evil || ck <> k)
              then http_bad := (conn_name (int_of_nat c), "protected-header-overridden", st.lines) :: !http_bad
            | None -> ()) (S.split_on_char ';' (unhex hdrhex));
          let (m, valid) = (try Hashtbl.find http_open h with Not_found -> (3, false)) in
          let http_rid = (try Hashtbl.find http_rids h with Not_found -> nat_of_int 999) in
          Hashtbl.remove http_open h;
          let st_n = int_of_string status in
          let (k, code) = (if kind = "empty" then (0, Status.OtherCode) else if kind = "data" then (2, Status.OtherCode)
                           else (1, scode_of (S.sub kind 6 (S.length kind - 6)))) in
          push (Trace.THttpResp (c, nat_of_int st_n, nat_of_int k, code));
          if valid then begin
            st.frames <- st.frames + 1;
            (if k = 1 then push (Trace.TRespErr (c, nat_of_int 1, code_of (S.sub kind 6 (S.length kind - 6))))
             else if m = 2 then push (Trace.TRespPayload (c, nat_of_int 1))   (* a resource response is a Location header only: nothing is handed over *)
             else push (Trace.TRespOk (c, nat_of_int 1, [(http_rid, Trace.RModel [])])))   (* the body is not abstracted: a placeholder for the requested resource *)
          end;
          push (Trace.TDisc c)
        | ["LEGACY"; c] -> push (Trace.TLegacy (conn_of c))
        | ["THROTTLE"; n] -> push (Trace.TThrottle (nat_of_int (int_of_string n)))
        | ["SYSEV"; "tokenreset"; tids] -> push (Trace.TTokenResetEv (L.map tid_of (L.filter (fun x -> x <> "") (S.split_on_char ',' tids))))
        | ["SYSEV"; "reset"; which; pats] ->
          let pats = L.map chars_of_string (S.split_on_char ',' (unhex pats)) in
          let known = Hashtbl.fold (fun n name acc -> (n, name) :: acc) rid_names [] in
          (* one entry per matching pattern: the gateway runs its callback once for every listed pattern that matches *)
          let matching = L.concat_map (fun (n, name) ->
            let conc = (match int_of_string_opt name with
                        | Some k -> "test.r" ^ string_of_int k
                        | None -> (match qparts name with Some (nn, _) -> "test.r" ^ string_of_int nn | None -> "")) in   (* patterns match the resource name; the query is not part of it *)
            if conc = "" then [] else
            L.filter_map (fun p -> if PatternParse.match_model p (chars_of_string conc) then Some (nat_of_int n) else None) pats) known in
          let res = if which = "resources" || which = "both" then matching else [] in
          let acc = if which = "access" || which = "both" then matching else [] in
          push (Trace.TSysReset (res, acc))
        | ["SCHED"; w] ->
          task_go := (S.length w >= 11 && S.sub w 0 11 = "go:throttle");
          task_resets := [];
          let c = if S.length w > 6 && S.sub w 0 5 = "conn:" && (S.get w 5 = 'c' || S.get w 5 = 'h') then Some (conn_of (S.sub w 5 (S.length w - 5))) else None in
          push (Trace.TSched c)
        | ["RAWOUT"; c; hx] ->
          let txt = unhex hx in
          let leak = ref false in
          S.iteri (fun i ch -> if ch = '<' && i + 3 < S.length txt && (S.get txt (i+1) = 'c' || S.get txt (i+1) = 'h')
                                  && S.get txt (i+2) >= '0' && S.get txt (i+2) <= '9' then leak := true) txt;
          push (Trace.TRawOut (conn_of c, !leak))
        | "MQREQ" :: n :: typ :: r :: meth :: cid :: tok :: _ ->
          let t = (match typ with "get" -> if !task_go || L.mem r !task_resets then Trace.MRefetch else Trace.MGet | "access" -> Trace.MAccess | "call" -> Trace.MCall | "auth" -> Trace.MAuth | "query" -> Trace.MQuery | "tokenreset" -> Trace.MTokReset | _ -> Trace.MOtherReq) in
          if typ = "query" then Hashtbl.replace qreq (int_of_string n) r;
          let c = if S.length cid > 1 && (S.get cid 0 = 'c' || S.get cid 0 = 'h') then Some (conn_of cid) else None in
          Hashtbl.replace reqtab (int_of_string n) (rid_of r);
          Hashtbl.replace req_conn (int_of_string n) cid;
          push (Trace.TMqReq (nat_of_int (int_of_string n), t, rid_of r, c, tok_of tok, chars_of_string (if meth = "-" then "" else meth)))
        | "MQRESP" :: n :: rest ->
          let r = (try Hashtbl.find reqtab (int_of_string n) with Not_found -> nat_of_int 999) in
          (* a get answered under a normalised query: the loaded variant is the normalised one *)
          let r = (match L.find_opt (fun f -> S.length f > 5 && S.sub f 0 5 = "norm=") rest with
                   | Some f -> rid_of (S.sub f 5 (S.length f - 5)) | None -> r) in
          let rest = L.filter (fun f -> not (S.length f > 5 && S.sub f 0 5 = "norm=")) rest in
          (match Hashtbl.find_opt qreq (int_of_string n) with
           | Some v ->
             (* every client-side id that aliases the answered variant (q=K with the same K mod 2) *)
             (match qparts v with
              | Some (nn, k) ->
                let aliases = L.filter_map (fun kk -> if kk mod 2 = k mod 2 then Some (nat_of_int (200 + 10 * nn + kk)) else None) [0; 1; 2; 3] in
                (* the id without a query aliases the default query q=0 *)
                let aliases = if k mod 2 = 0 then nat_of_int nn :: aliases else aliases in
                push (Trace.TQueryAnswered aliases)
              | None -> ())
           | None -> ());
          let o = (match rest with
            | "get" :: c -> (match content_of c with Some d -> Trace.OGet d | None -> Trace.OErr (code_of "?"))
            | ["access"; g; call] -> Trace.OAccess (g = "1", chars_of_string (unhex call))
            | ["access"; g] -> Trace.OAccess (g = "1", [])
            | ["err"; code] -> Trace.OErr (code_of code)
            | ["resource"; r'] -> Trace.OResource (rid_of r')
            | _ -> Trace.OResult) in
          push (Trace.TMqResp (nat_of_int (int_of_string n), r, o));
          (* a service error for a request made for an HTTP request (or, for requests that name no connection, for any
             HTTP request in progress) *)
          (match rest with
           | ["err"; code] ->
             let who = (try Hashtbl.find req_conn (int_of_string n) with Not_found -> "-") in
             Hashtbl.iter (fun h _ -> if who = h || who = "-" then push (Trace.THttpSvcErr (conn_of h, scode_of code))) http_open
           | _ -> ())
        | ["MQEV"; r; "change"; kv] -> st.events <- st.events + 1; push (Trace.TMqEv (rid_of r, Trace.SChange (ckv_of kv)))
        | ["MQEV"; r; "add"; idx; v] -> st.events <- st.events + 1; push (Trace.TMqEv (rid_of r, Trace.SAdd (z_of_int (int_of_string idx), cvalue_of v)))
        | ["MQEV"; r; "remove"; idx] -> st.events <- st.events + 1; push (Trace.TMqEv (rid_of r, Trace.SRemove (z_of_int (int_of_string idx))))
        | ["MQEV"; r; "custom"; tag] -> st.events <- st.events + 1; push (Trace.TMqEv (rid_of r, Trace.SCustom (nat_of_int (other_of tag))))
        | ["MQEV"; r; "delete"] -> st.events <- st.events + 1; push (Trace.TMqEv (rid_of r, Trace.SDelete))
        | ["MQEV"; r; "reaccess"] -> st.events <- st.events + 1; push (Trace.TMqEv (rid_of r, Trace.SReaccess))
        | "Q" :: label :: _ -> inq := true; qfinal := (label = "end")
        | "Q" :: _ -> inq := true; qfinal := false
        | ["SITE"; "reset.task"; _; r] -> push (Trace.TResetTask (rid_of r))
        | ["SITE"; "reset.start"; _; r] -> task_resets := r :: !task_resets; push (Trace.TResetStart (rid_of r))
        | ["SITE"; "reset.noop"; _; r] -> push (Trace.TResetNoop (rid_of r))
        | ["SITE"; "reset.done"; _; r] -> push (Trace.TResetDone (rid_of r))
        | "SITE" :: id :: _ -> st.sites <- id :: st.sites; push Trace.TOther
        | ["STOP"; kind; fields] ->
          (* compare the observed shutdown with the life-cycle model (Comp/Lifecycle.v) *)
          let open Lifecycle in
          let s0 = fst (step init Start) in
          let s3 = L.fold_left (fun s o -> fst (step s o)) s0 [StopBegin (nat_of_int 1); StopClose; StopEnd (nat_of_int 1)] in
          let exp_refused = (snd (step s3 NewConn) = Refused) in
          let exp_restart = (snd (step (fst (step s3 Start)) NewConn) = Ok) in
          let exp_clients_closed = (int_of_nat s3.conns = 0) in
          let kv = L.filter_map (fun f -> match S.index_opt f '=' with Some i -> Some (S.sub f 0 i, S.sub f (i+1) (S.length f - i - 1)) | None -> None)
                     (S.split_on_char ' ' fields) in
          let get k = try L.assoc k kv with Not_found -> "?" in
          let bad = L.filter (fun (k, want) -> get k <> want)
              [("returned", "true"); ("cause", "true"); ("elapsed_ok", "true"); ("clients_closed", string_of_bool exp_clients_closed);
               ("refused", string_of_bool exp_refused); ("http", "503"); ("restarted", string_of_bool exp_restart); ("second_stop", "true");
               ("during_refused", string_of_bool (snd (step (fst (step s0 (StopBegin (nat_of_int 1)))) NewConn) = Refused)); ("during_http", "503");
               (* Lifecycle.start_empties_cache: after Stop; Start nothing loaded before is still cached *)
               ("fresh_cache", string_of_bool (int_of_nat (fst (step (fst (step (fst (step s0 NewConn)) Load)) (StopBegin (nat_of_int 1)))).cached >= 0
                                               && int_of_nat (fst (step s3 Start)).cached = 0))] in
          stop_bad := L.map (fun (k, _) -> (kind ^ ":" ^ k ^ "=" ^ get k, st.lines)) bad @ !stop_bad;
          push Trace.TOther
        | "STALL" :: _ -> st.stall <- true
        | "CRASH" :: hx :: _ -> st.stall <- false; crash_txt := unhex hx
        | "ERRLOG" :: _ -> st.errlogs <- st.errlogs + 1; push Trace.TOther
        | _ -> push Trace.TOther
      end
    done
  with End_of_file -> close_in ic);
  line_tbl := Array.of_list (L.rev !linenos);
  (L.rev !out, st)

let vkind_name (k : Monitors.vkind) : string * string = match k with
  | Monitors.VDangling -> ("C02", "dangling-reference")
  | Monitors.VStrayEvent -> ("C02", "stray-event")
  | Monitors.VWrongKind -> ("C02", "wrong-kind-event")
  | Monitors.VBadIndex -> ("C02", "index-out-of-range")
  | Monitors.VDiverged -> ("C01", "diverged-at-quiescence")
  | Monitors.VGap -> ("C03", "event-gap-or-reorder")
  | Monitors.VMissingAtQ -> ("C03", "events-missing-at-quiescence")
  | Monitors.VUnrequested -> ("C07", "unrequested-or-duplicate-response")
  | Monitors.VUnanswered -> ("C07", "request-unanswered-at-quiescence")
  | Monitors.VUnsubOver -> ("C08", "unsubscribe-succeeded-beyond-count")
  | Monitors.VUnsubUnder -> ("C08", "unsubscribe-failed-with-enough-subscriptions")
  | Monitors.VBadCount -> ("C08", "count-validation")
  | Monitors.VLedger -> ("C08", "direct-count-differs-from-ledger")
  | Monitors.VUnsubEventNoDirect -> ("C08", "unsubscribe-event-without-direct-subscription")
  | Monitors.VGetWithoutSub -> ("C09", "get-without-event-subscription")
  | Monitors.VCountMismatch -> ("C09", "use-count-differs-from-subscribers")
  | Monitors.VEvictQueue -> ("C09", "eviction-queue-inconsistent")
  | Monitors.VOrphanSub -> ("C09", "entry-and-event-subscription-differ")
  | Monitors.VServedUnsubscribed -> ("C09", "served-without-fetch-under-subscription")
  | Monitors.VNotFreed -> ("C09", "not-freed-when-unused")
  | Monitors.VConnLeft -> ("C11", "state-left-after-disconnect")
  | Monitors.VRequestAfterClose -> ("C11", "request-on-behalf-of-closed-connection")
  | Monitors.VSpuriousRefetch -> ("C12", "refetch-without-matching-reset")
  | Monitors.VMissedRefetch -> ("C12", "matching-resource-not-refetched")
  | Monitors.VQueryRequests -> ("C13", "query-requests-not-one-per-variant")
  | Monitors.VThrottleExceeded -> ("C19", "more-outstanding-refetches-than-reset-throttle")
  | Monitors.VThrottleStuck -> ("C19", "throttled-refetch-never-sent")

let akind_name (k : AccessMon.akind) : string * string = match k with
  | AccessMon.AUngrantedRead -> ("C04", "data-without-valid-get-grant")
  | AccessMon.AUngrantedCall -> ("C05", "call-without-valid-grant")
  | AccessMon.AStaleToken -> ("C05", "request-with-stale-token")
  | AccessMon.AWrongCid -> ("C10", "request-with-other-connection-id")
  | AccessMon.ACidLeak -> ("C10", "connection-id-in-client-frame")
  | AccessMon.AWrongTokenReset -> ("C10", "token-reset-for-unaddressed-connection")
  | AccessMon.ANoReaccess -> ("C06", "trigger-without-reaccess")
  | AccessMon.ANoRevocation -> ("C06", "denial-without-unsubscribe-event")
  | AccessMon.ADeliveredDuringRecheck -> ("C06", "event-delivered-during-recheck")

let run_traces (files : string list) : unit =
  L.iter (fun path ->
    let (tr, st) = parse_file path in
    let avs = AccessMon.amonitor tr in
    L.iter (fun (v : AccessMon.aviol) ->
      let (p, k) = akind_name v.AccessMon.av_kind in
      let pos = int_of_nat v.AccessMon.av_pos in
      let ln = if pos >= 1 && pos <= Array.length !line_tbl then !line_tbl.(pos - 1) else 0 in
      (* token currency is part of C04 ("carrying the connection's then-current token"), C05 and C06 ("with the current token") *)
      let props = if v.AccessMon.av_kind = AccessMon.AStaleToken then ["C05"; "C04"; "C06"] else [p] in
      L.iter (fun p ->
        Printf.printf "VIOL\t%s\t%s\t%s\t%s\t%s\t%d\n" path p k (conn_name (int_of_nat v.AccessMon.av_c))
          (rid_name (int_of_nat v.AccessMon.av_r)) ln) props) avs;
    let hvs = HttpMon.hmonitor tr in
    L.iter (fun (v : HttpMon.hviol) ->
      let (p, k) = (match v.HttpMon.hv_kind with
        | HttpMon.HStatusTable -> ("C17", "status-not-from-table")
        | HttpMon.HCodeOrigin -> ("C17", "error-code-not-from-service-or-gateway-rule")
        | HttpMon.HInvalidForwarded -> ("C14", "invalid-url-not-refused")) in
      let pos = int_of_nat v.HttpMon.hv_pos in
      let ln = if pos >= 1 && pos <= Array.length !line_tbl then !line_tbl.(pos - 1) else 0 in
      Printf.printf "VIOL\t%s\t%s\t%s\t%s\t-\t%d\n" path p k (conn_name (int_of_nat v.HttpMon.hv_h)) ln) hvs;
    let vs = Monitors.monitor tr in
    L.iter (fun (v : Monitors.viol) ->
      let (p, k) = vkind_name v.Monitors.v_kind in
      let pos = int_of_nat v.Monitors.v_pos in
      let ln = if pos >= 1 && pos <= Array.length !line_tbl then !line_tbl.(pos - 1) else 0 in
      (* an event for a resource the client does not hold violates C02 (no stray events), C03 ("no event ... before the
         response or event that first hands that resource to the client") and C06 ("no further events for that resource"
         after the unsubscribe event) *)
      let props = if v.Monitors.v_kind = Monitors.VStrayEvent then ["C02"; "C03"; "C06"] else [p] in
      L.iter (fun p ->
        Printf.printf "VIOL\t%s\t%s\t%s\t%s\t%s\t%d\n" path p k (conn_name (int_of_nat v.Monitors.v_c))
          (rid_name (int_of_nat v.Monitors.v_r)) ln) props) vs;
    L.iter (fun (what, ln) -> Printf.printf "VIOL\t%s\tC20\tshutdown-contract\tc0\t%s\t%d\n" path what ln) !stop_bad;
    L.iter (fun (h, what, ln) -> Printf.printf "VIOL\t%s\tC17\t%s\t%s\t-\t%d\n" path what h ln) !http_bad;
    http_bad := [];
    stop_bad := [];
    if st.stall then Printf.printf "STALL\t%s\n" path;
    if !crash_txt <> "" then begin
      let first = (match S.index_opt !crash_txt '\n' with Some i -> S.sub !crash_txt 0 i | None -> !crash_txt) in
      Printf.printf "CRASHED\t%s\t%s\n" path first; crash_txt := "" end;
    Printf.printf "TRACE\t%s\t%d\t%d\t%d\t%d\t%d\t%s\n" path (L.length tr) st.frames st.events st.qs (L.length vs)
      (S.concat "," (L.sort_uniq compare st.sites))) files
