(* Parser from the harness's abstract trace files to the Coq trace alphabet (Spec/Trace.v). *)
open Conv
module L = Stdlib.List
module S = Stdlib.String

let rid_tbl : (string, int) Hashtbl.t = Hashtbl.create 64
let rid_names : (int, string) Hashtbl.t = Hashtbl.create 64
let rid_of (s : string) : Datatypes.nat =
  let n = (match int_of_string_opt s with
    | Some n when n >= 0 && n < 1000 -> n
    | _ -> (try Hashtbl.find rid_tbl s with Not_found ->
              let n = 1000 + Hashtbl.length rid_tbl in Hashtbl.add rid_tbl s n; n)) in
  Hashtbl.replace rid_names n s; nat_of_int n
let rid_name (n : int) : string = try Hashtbl.find rid_names n with Not_found -> string_of_int n

let code_tbl : (string, int) Hashtbl.t = Hashtbl.create 16
let code_names : (int, string) Hashtbl.t = Hashtbl.create 16
let code_of (s : string) : Datatypes.nat =
  let n = (match s with
    | "system.noSubscription" -> 1 | "system.invalidParams" -> 2 | "system.accessDenied" -> 3
    | "system.notFound" -> 4 | "system.timeout" -> 5 | "system.internalError" -> 6 | "system.deleted" -> 7
    | "system.invalidRequest" -> 8
    | _ -> (try Hashtbl.find code_tbl s with Not_found -> let n = 100 + Hashtbl.length code_tbl in Hashtbl.add code_tbl s n; n)) in
  Hashtbl.replace code_names n s; nat_of_int n

let conn_of (s : string) : Datatypes.nat =
  (* c<N> -> N, h<N> -> 500+N *)
  let n = int_of_string (S.sub s 1 (S.length s - 1)) in
  nat_of_int (if S.get s 0 = 'h' then 500 + n else n)
let conn_name (n : int) : string = if n >= 500 then "h" ^ string_of_int (n - 500) else "c" ^ string_of_int n

let other_tbl : (string, int) Hashtbl.t = Hashtbl.create 16
let other_of s = try Hashtbl.find other_tbl s with Not_found -> let n = Hashtbl.length other_tbl in Hashtbl.add other_tbl s n; n

let cvalue_of (s : string) : Trace.cvalue =
  if s = "" then Trace.CU (nat_of_int 0) else
  let rest = S.sub s 1 (S.length s - 1) in
  match S.get s 0 with
  | 'p' -> Trace.CP (nat_of_int (int_of_string rest))
  | 'r' -> Trace.CR (rid_of rest)
  | 's' -> Trace.CS (rid_of rest)
  | 'd' -> Trace.CD (nat_of_int (int_of_string rest))
  | 'x' -> Trace.CX
  | 'S' -> Trace.CLS (rid_of rest)
  | 'D' -> Trace.CLD
  | _ -> Trace.CU (nat_of_int (other_of s))

let ckv_of (s : string) : (Datatypes.nat * Trace.cvalue) list =
  L.map (fun e -> match S.index_opt e ':' with
    | Some i -> (nat_of_int (int_of_string (S.sub e 0 i)), cvalue_of (S.sub e (i + 1) (S.length e - i - 1)))
    | None -> failwith ("kv " ^ s)) (split_on ';' s)
let clist_of (s : string) : Trace.cvalue list = L.map cvalue_of (split_on ',' s)

let rset_of (s : string) : (Datatypes.nat * Trace.rdata) list =
  if s = "-" then [] else
  L.map (fun e -> match S.split_on_char '~' e with
    | ["M"; r; kv] -> (rid_of r, Trace.RModel (ckv_of kv))
    | ["C"; r; l] -> (rid_of r, Trace.RColl (clist_of l))
    | ["E"; r; c] -> (rid_of r, Trace.RErr (code_of c))
    | _ -> failwith ("rset " ^ s)) (S.split_on_char '&' s)

let kind_of = function
  | "subscribe" -> Trace.KSub | "unsubscribe" -> Trace.KUnsub | "get" -> Trace.KGet | "call" -> Trace.KCall
  | "auth" -> Trace.KAuth | "new" -> Trace.KNew | "version" -> Trace.KVersion | _ -> Trace.KOther

let content_of (fs : string list) : Trace.rdata option =
  match fs with
  | ["M"; kv] -> Some (Trace.RModel (ckv_of kv))
  | ["M"] -> Some (Trace.RModel [])
  | ["C"; l] -> Some (Trace.RColl (clist_of l))
  | ["C"] -> Some (Trace.RColl [])
  | _ -> None

type stats = { mutable frames : int; mutable qs : int; mutable events : int; mutable lines : int; mutable sites : string list; mutable stall : bool;
               mutable errlogs : int }

let line_tbl : int array ref = ref [||]
let parse_file (path : string) : Trace.tev list * stats =
  let ic = open_in path in
  let st = { frames = 0; qs = 0; events = 0; lines = 0; sites = []; stall = false; errlogs = 0 } in
  let out = ref [] in
  let linenos = ref [] in
  let push e = out := e :: !out; linenos := st.lines :: !linenos in
  let inq = ref false and truth = ref [] and subs = ref [] in
  (try
    while true do
      let line = input_line ic in
      st.lines <- st.lines + 1;
      let f = S.split_on_char '\t' line in
      if !inq then begin
        match f with
        | "TRUTH" :: r :: rest -> truth := (rid_of r, content_of rest) :: !truth
        | ["SNAPSUB"; c; r; state; direct; indirect; isent; _; _; _; _] ->
          subs := { Trace.ss_c = conn_of c; Trace.ss_r = rid_of r; Trace.ss_state = nat_of_int (int_of_string state);
                    Trace.ss_direct = nat_of_int (max 0 (int_of_string direct)); Trace.ss_indirect = nat_of_int (max 0 (int_of_string indirect));
                    Trace.ss_isent = nat_of_int (max 0 (int_of_string isent)) } :: !subs
        | "ENDQ" :: _ -> inq := false; st.qs <- st.qs + 1; push (Trace.TQ (L.rev !truth, L.rev !subs)); truth := []; subs := []
        | _ -> ()
      end else begin
        match f with
        | ["CONN"; c] -> push (Trace.TConn (conn_of c))
        | ["DISC"; c] -> push (Trace.TDisc (conn_of c))
        | ["REQ"; c; id; kind; r; extra] ->
          let k = if kind = "other" && r = "x76657273696f6e" then Trace.KVersion else kind_of kind in
          let ex = (match extra with "-" -> 0 | "bad" -> -1 | e -> (match int_of_string_opt e with Some n -> if n = 0 then -1 else n | None -> 0)) in
          push (Trace.TReq (conn_of c, nat_of_int (int_of_string id), k, rid_of r, z_of_int ex))
        | ["RESP"; c; id; "ok"; rs] -> st.frames <- st.frames + 1; push (Trace.TRespOk (conn_of c, nat_of_int (int_of_string id), rset_of rs))
        | ["RESP"; c; id; "okrid"; r; rs] -> st.frames <- st.frames + 1; push (Trace.TRespRid (conn_of c, nat_of_int (int_of_string id), rid_of r, rset_of rs))
        | ["RESP"; c; id; "okpayload"; _] -> st.frames <- st.frames + 1; push (Trace.TRespPayload (conn_of c, nat_of_int (int_of_string id)))
        | ["RESP"; c; id; "version"; _] -> st.frames <- st.frames + 1; push (Trace.TRespVersion (conn_of c, nat_of_int (int_of_string id)))
        | ["RESP"; c; id; "err"; code] -> st.frames <- st.frames + 1; push (Trace.TRespErr (conn_of c, nat_of_int (int_of_string id), code_of code))
        | ["EV"; c; r; "change"; kv; rs] -> st.frames <- st.frames + 1; push (Trace.TEvChange (conn_of c, rid_of r, ckv_of kv, rset_of rs))
        | ["EV"; c; r; "add"; idx; v; rs] -> st.frames <- st.frames + 1; push (Trace.TEvAdd (conn_of c, rid_of r, z_of_int (int_of_string idx), cvalue_of v, rset_of rs))
        | ["EV"; c; r; "remove"; idx] -> st.frames <- st.frames + 1; push (Trace.TEvRemove (conn_of c, rid_of r, z_of_int (int_of_string idx)))
        | ["EV"; c; r; "custom"; tag] -> st.frames <- st.frames + 1; push (Trace.TEvCustom (conn_of c, rid_of r, nat_of_int (other_of tag)))
        | ["EV"; c; r; "delete"] -> st.frames <- st.frames + 1; push (Trace.TEvDelete (conn_of c, rid_of r))
        | ["EV"; c; r; "unsub"; code] -> st.frames <- st.frames + 1; push (Trace.TEvUnsub (conn_of c, rid_of r, code_of code))
        | ["MQSUB"; "event"; r] -> push (Trace.TMqSub (rid_of r))
        | ["MQUNSUB"; "event"; r] -> push (Trace.TMqUnsub (rid_of r))
        | ["MQEV"; r; "change"; kv] -> st.events <- st.events + 1; push (Trace.TMqEv (rid_of r, Trace.SChange (ckv_of kv)))
        | ["MQEV"; r; "add"; idx; v] -> st.events <- st.events + 1; push (Trace.TMqEv (rid_of r, Trace.SAdd (z_of_int (int_of_string idx), cvalue_of v)))
        | ["MQEV"; r; "remove"; idx] -> st.events <- st.events + 1; push (Trace.TMqEv (rid_of r, Trace.SRemove (z_of_int (int_of_string idx))))
        | ["MQEV"; r; "custom"; tag] -> st.events <- st.events + 1; push (Trace.TMqEv (rid_of r, Trace.SCustom (nat_of_int (other_of tag))))
        | ["MQEV"; r; "delete"] -> st.events <- st.events + 1; push (Trace.TMqEv (rid_of r, Trace.SDelete))
        | ["MQEV"; r; "reaccess"] -> st.events <- st.events + 1; push (Trace.TMqEv (rid_of r, Trace.SReaccess))
        | "Q" :: _ -> inq := true
        | "SITE" :: id :: _ -> st.sites <- id :: st.sites; push Trace.TOther
        | "STALL" :: _ -> st.stall <- true
        | "ERRLOG" :: _ -> st.errlogs <- st.errlogs + 1; push Trace.TOther
        | _ -> push Trace.TOther
      end
    done
  with End_of_file -> close_in ic);
  line_tbl := Array.of_list (L.rev !linenos);
  (L.rev !out, st)

let vkind_name (k : Monitors.vkind) : string * string = match k with
  | Monitors.VDangling -> ("C02", "dangling-reference")
  | Monitors.VStrayEvent -> ("C02", "stray-event")
  | Monitors.VWrongKind -> ("C02", "wrong-kind-event")
  | Monitors.VBadIndex -> ("C02", "index-out-of-range")
  | Monitors.VDiverged -> ("C01", "diverged-at-quiescence")
  | Monitors.VGap -> ("C03", "event-gap-or-reorder")
  | Monitors.VMissingAtQ -> ("C03", "events-missing-at-quiescence")
  | Monitors.VUnrequested -> ("C07", "unrequested-or-duplicate-response")
  | Monitors.VUnanswered -> ("C07", "request-unanswered-at-quiescence")
  | Monitors.VUnsubOver -> ("C08", "unsubscribe-succeeded-beyond-count")
  | Monitors.VUnsubUnder -> ("C08", "unsubscribe-failed-with-enough-subscriptions")
  | Monitors.VBadCount -> ("C08", "count-validation")
  | Monitors.VLedger -> ("C08", "direct-count-differs-from-ledger")
  | Monitors.VUnsubEventNoDirect -> ("C08", "unsubscribe-event-without-direct-subscription")

let run_traces (files : string list) : unit =
  L.iter (fun path ->
    let (tr, st) = parse_file path in
    let vs = Monitors.monitor tr in
    L.iter (fun (v : Monitors.viol) ->
      let (p, k) = vkind_name v.Monitors.v_kind in
      let pos = int_of_nat v.Monitors.v_pos in
      let ln = if pos >= 1 && pos <= Array.length !line_tbl then !line_tbl.(pos - 1) else 0 in
      Printf.printf "VIOL\t%s\t%s\t%s\t%s\t%s\t%d\n" path p k (conn_name (int_of_nat v.Monitors.v_c))
        (rid_name (int_of_nat v.Monitors.v_r)) ln) vs;
    if st.stall then Printf.printf "STALL\t%s\n" path;
    Printf.printf "TRACE\t%s\t%d\t%d\t%d\t%d\t%d\t%s\n" path (L.length tr) st.frames st.events st.qs (L.length vs)
      (S.concat "," (L.sort_uniq compare st.sites))) files
