(* Lock-step correspondence of the integrated model Comp/Core.v with traces of the real gateway (profile `core`):
   every stimulus and every scheduler grant of the trace is one op of the extracted machine; what the machine emits on it
   must be exactly what the gateway emitted before the next op. *)
open Cnv
module L = Stdlib.List
module S = Stdlib.String

type obs = string   (* canonical text of one output *)

let out_s (o : (Value.kv, Value.kv) Core.out) : obs =
  match o with
  | Core.OMqSub -> "mqsub"
  | Core.OAccessReq c -> "accessreq c" ^ string_of_int (int_of_nat c)
  | Core.OGetReq -> "getreq"
  | Core.OResp (c, id, v) -> Printf.sprintf "resp c%d %d %s" (int_of_nat c) (int_of_nat id) (Absparse.kv_s v)
  | Core.OEvent (c, u) -> Printf.sprintf "change c%d %s" (int_of_nat c) (Absparse.kv_s u)
  | Core.OCustom c -> Printf.sprintf "custom c%d" (int_of_nat c)

let op_s (o : Value.kv Core.op) : string =
  match o with
  | Core.CSub (c, id) -> Printf.sprintf "CSub c%d %d" (int_of_nat c) (int_of_nat id)
  | Core.MqAccess c -> Printf.sprintf "MqAccess c%d" (int_of_nat c)
  | Core.MqGet -> "MqGet"
  | Core.MqEvent u -> "MqEvent " ^ Absparse.kv_s u
  | Core.MqCustom -> "MqCustom"
  | Core.GrantEs -> "GrantEs"
  | Core.GrantConn c -> Printf.sprintf "GrantConn c%d" (int_of_nat c)

exception Out_of_profile of int * string

let cidx (s : string) : int = int_of_string (S.sub s 1 (S.length s - 1))

(* returns (ops, outputs compared, None | Some (line, op, expected, observed)) *)
let check_file (path : string) =
  let ic = open_in path in
  let lines = ref [] in
  (try while true do lines := input_line ic :: !lines done with End_of_file -> ());
  close_in ic;
  let lines = Array.of_list (L.rev !lines) in
  let n = Array.length lines in
  (* initial state of the service: INIT line *)
  let init_truth = ref None in
  Array.iter (fun l -> match S.split_on_char '\t' l with
      | ["INIT"; _; "M"; kv] when !init_truth = None -> init_truth := Some (Absparse.kv_of kv)
      | ["INIT"; _; "M"] when !init_truth = None -> init_truth := Some []
      | _ -> ()) lines;
  let truth0 = match !init_truth with Some t -> t | None -> raise (Out_of_profile (0, "no INIT line")) in
  let st = ref (CoreKv.kinit truth0) in
  let foreign : (int, int) Hashtbl.t = Hashtbl.create 8 in       (* requests outside the model ahead in a connection's queue *)
  let asked : (int, bool) Hashtbl.t = Hashtbl.create 8 in
  let reqs : (int, string * int) Hashtbl.t = Hashtbl.create 16 in  (* messaging request number -> kind, connection *)
  let pending : (int * Value.kv Core.op * obs list) option ref = ref None in  (* line, op, expected outputs *)
  let observed = ref [] in
  let nops = ref 0 and nouts = ref 0 in
  let diff = ref None in
  let flush () =
    (match !pending with
     | Some (ln, o, exp) ->
       let obs = L.rev !observed in
       nouts := !nouts + L.length obs;
       if !diff = None && exp <> obs then diff := Some (ln, op_s o, S.concat " | " exp, S.concat " | " obs)
     | None ->
       if !diff = None && !observed <> [] then diff := Some (0, "(before the first op)", "", S.concat " | " (L.rev !observed)));
    pending := None; observed := [] in
  let do_op ln (o : Value.kv Core.op) =
    flush ();
    incr nops;
    let (s', outs) = CoreKv.kstep !st o in
    st := s';
    pending := Some (ln, o, L.map out_s outs) in
  let see (o : obs) = observed := o :: !observed in
  let i = ref 0 in
  while !i < n && !diff = None do
    let ln = !i + 1 in
    let f = S.split_on_char '\t' lines.(!i) in
    (match f with
     | "REQ" :: c :: id :: "subscribe" :: _ ->
       let ci = cidx c in
       Hashtbl.replace asked ci true;
       do_op ln (Core.CSub (nat_of_int ci, nat_of_int (int_of_string id)))
     | "REQ" :: c :: _ :: _ ->
       let ci = cidx c in
       if Hashtbl.mem asked ci then raise (Out_of_profile (ln, "request other than subscribe after the subscribe request"));
       flush ();
       Hashtbl.replace foreign ci (1 + (try Hashtbl.find foreign ci with Not_found -> 0))
     | ["SCHED"; g] ->
       (match S.index_opt g ':' with
        | Some k ->
          let kind = S.sub g 0 k and id = S.sub g (k + 1) (S.length g - k - 1) in
          if kind = "conn" then begin
            let ci = cidx id in
            let fo = try Hashtbl.find foreign ci with Not_found -> 0 in
            if fo > 0 then (flush (); Hashtbl.replace foreign ci (fo - 1))
            else do_op ln (Core.GrantConn (nat_of_int ci))
          end else if kind = "es" then do_op ln Core.GrantEs
          else raise (Out_of_profile (ln, "grant " ^ g))
        | None -> raise (Out_of_profile (ln, "grant " ^ g)))
     | "MQSUB" :: "event" :: _ -> see "mqsub"
     | "MQREQ" :: num :: "access" :: _ :: _ :: c :: _ ->
       Hashtbl.replace reqs (int_of_string num) ("access", cidx c); see ("accessreq " ^ c)
     | "MQREQ" :: num :: "get" :: _ ->
       Hashtbl.replace reqs (int_of_string num) ("get", 0); see "getreq"
     | "MQREQ" :: _ :: typ :: _ -> see ("mqreq " ^ typ)
     | "MQRESP" :: num :: "access" :: "1" :: _ ->
       (match Hashtbl.find_opt reqs (int_of_string num) with
        | Some ("access", ci) -> do_op ln (Core.MqAccess (nat_of_int ci))
        | _ -> raise (Out_of_profile (ln, "answer to an unknown request")))
     | "MQRESP" :: _ :: "get" :: "M" :: rest ->
       let v = (match rest with kv :: _ -> Absparse.kv_of kv | [] -> []) in
       let t = CoreKv.ktruth !st in
       if Absparse.kv_s v <> Absparse.kv_s t then raise (Out_of_profile (ln, "get answer differs from the service state the model tracks"));
       do_op ln Core.MqGet
     | "MQRESP" :: _ -> raise (Out_of_profile (ln, "service answer: " ^ lines.(!i)))
     | "MQEV" :: _ :: "change" :: kv :: _ -> do_op ln (Core.MqEvent (Absparse.kv_of kv))
     | "MQEV" :: _ :: "custom" :: _ -> do_op ln Core.MqCustom
     | "MQEV" :: _ -> raise (Out_of_profile (ln, "service event: " ^ lines.(!i)))
     | "RESP" :: _ :: _ :: "version" :: _ -> ()
     | "RESP" :: c :: id :: "ok" :: rs :: _ ->
       (match S.split_on_char '~' rs with
        | ["M"; _; kv] -> see (Printf.sprintf "resp %s %s %s" c id (Absparse.kv_s (Absparse.kv_of kv)))
        | ["M"; _] -> see (Printf.sprintf "resp %s %s " c id)
        | _ -> see ("resp " ^ c ^ " " ^ id ^ " ?" ^ rs))
     | "RESP" :: c :: id :: rest -> see ("resp " ^ c ^ " " ^ id ^ " ?" ^ S.concat "," rest)
     | "EV" :: c :: _ :: "change" :: kv :: _ -> see (Printf.sprintf "change %s %s" c (Absparse.kv_s (Absparse.kv_of kv)))
     | "EV" :: c :: _ :: "custom" :: _ -> see ("custom " ^ c)
     | "EV" :: c :: _ :: k :: _ -> see ("event " ^ c ^ " " ^ k)
     | "MQUNSUB" :: _ -> see "mqunsub"
     | "ERRLOG" :: _ -> see "errlog"
     | ("DISC" | "SYSEV" | "CONNEV" | "EVICT" | "STOP" | "HTTP" | "SILENT" | "CRASH" | "STALL") :: _ ->
       raise (Out_of_profile (ln, "line " ^ lines.(!i)))
     | _ -> ());
    incr i
  done;
  flush ();
  (!nops, !nouts, !diff)

let run_core (files : string list) =
  L.iter (fun path ->
      match check_file path with
      | (nops, nouts, None) -> Printf.printf "COREOK\t%s\t%d\t%d\n" path nops nouts
      | (nops, nouts, Some (ln, op, exp, obs)) ->
        Printf.printf "COREDIFF\t%s\t%d\t%s\t%s\t%s\n" path ln op exp obs
      | exception Out_of_profile (ln, msg) -> Printf.printf "COREOUT\t%s\t%d\t%s\n" path ln msg
      | exception e -> Printf.printf "COREOUT\t%s\t0\t%s\n" path (Printexc.to_string e)) files
