(* Lock-step correspondence of the integrated model Comp/Core.v with traces of the real gateway (profile `core`):
   every stimulus and every scheduler grant of the trace is one op of the extracted machine; what the machine emits on it
   must be exactly what the gateway emitted before the next op. *)
open Cnv
module L = Stdlib.List
module S = Stdlib.String

type obs = string   (* canonical text of one output *)

let val_s (v : CoreKv.cval) : string = match v with
  | CoreKv.VM m -> "M " ^ Absparse.kv_s m
  | CoreKv.VC l -> "C " ^ Absparse.list_s l
let upd_s (u : CoreKv.cupd) : string = match u with
  | CoreKv.UChange p -> "change " ^ Absparse.kv_s p
  | CoreKv.UAdd (i, x) -> Printf.sprintf "add %d %s" (int_of_nat i) (Absparse.value_s x)
  | CoreKv.URemove i -> Printf.sprintf "remove %d" (int_of_nat i)
let out_s (o : (CoreKv.cval, CoreKv.cupd) Core.out) : obs =
  match o with
  | Core.OMqSub -> "mqsub"
  | Core.OAccessReq (c, _, t) -> Printf.sprintf "accessreq c%d %s" (int_of_nat c) (if int_of_nat t = 0 then "-" else "t" ^ string_of_int (int_of_nat t - 1))
  | Core.OUnsubEv c -> Printf.sprintf "unsubev c%d" (int_of_nat c)
  | Core.OGetReq -> "getreq"
  | Core.OErr (c, id, e) -> Printf.sprintf "err c%d %d %s" (int_of_nat c) (int_of_nat id)
                              (match e with Core.EDenied -> "system.accessDenied" | Core.ENoSub -> "system.noSubscription" | Core.EInvalid -> "system.invalidParams")
  | Core.OAck (c, id, _) -> Printf.sprintf "resp c%d %d -" (int_of_nat c) (int_of_nat id)
  | Core.OConnUnsub c -> Printf.sprintf "connunsub c%d" (int_of_nat c)
  | Core.OResp (c, id, Some v) -> Printf.sprintf "resp c%d %d %s" (int_of_nat c) (int_of_nat id) (val_s v)
  | Core.OResp (c, id, None) -> Printf.sprintf "resp c%d %d -" (int_of_nat c) (int_of_nat id)
  | Core.OEvent (c, u) -> Printf.sprintf "event c%d %s" (int_of_nat c) (upd_s u)
  | Core.OCustom c -> Printf.sprintf "custom c%d" (int_of_nat c)

let op_s (o : CoreKv.cupd Core.op) : string =
  match o with
  | Core.CSub (c, id) -> Printf.sprintf "CSub c%d %d" (int_of_nat c) (int_of_nat id)
  | Core.MqAccess (i, g) -> Printf.sprintf "MqAccess #%d %b" (int_of_nat i) g
  | Core.CUnsub (c, id, k) -> Printf.sprintf "CUnsub c%d %d %d" (int_of_nat c) (int_of_nat id) (int_of_nat k)
  | Core.Disc c -> Printf.sprintf "Disc c%d" (int_of_nat c)
  | Core.ConnToken (c, t) -> Printf.sprintf "ConnToken c%d %d" (int_of_nat c) (int_of_nat t)
  | Core.MqReacc -> "MqReacc"
  | Core.MqGet -> "MqGet"
  | Core.MqEvent u -> "MqEvent " ^ upd_s u
  | Core.MqCustom -> "MqCustom"
  | Core.GrantEs -> "GrantEs"
  | Core.GrantConn c -> Printf.sprintf "GrantConn c%d" (int_of_nat c)

exception Out_of_profile of int * string

let cover : (string, int) Hashtbl.t = Hashtbl.create 32
let bump k = Hashtbl.replace cover k (1 + (try Hashtbl.find cover k with Not_found -> 0))

let cidx (s : string) : int = int_of_string (S.sub s 1 (S.length s - 1))

(* returns (ops, outputs compared, None | Some (line, op, expected, observed)) *)
let check_file (path : string) =
  let ic = open_in path in
  let lines = ref [] in
  (try while true do lines := input_line ic :: !lines done with End_of_file -> ());
  close_in ic;
  let lines = Array.of_list (L.rev !lines) in
  let n = Array.length lines in
  (* initial state of the service: INIT line *)
  let init_truth = ref None in
  Array.iter (fun l -> match S.split_on_char '\t' l with
      | ["INIT"; _; "M"; kv] when !init_truth = None -> init_truth := Some (CoreKv.VM (Absparse.kv_of kv))
      | ["INIT"; _; "M"] when !init_truth = None -> init_truth := Some (CoreKv.VM [])
      | ["INIT"; _; "C"; l] when !init_truth = None -> init_truth := Some (CoreKv.VC (Absparse.list_of l))
      | ["INIT"; _; "C"] when !init_truth = None -> init_truth := Some (CoreKv.VC [])
      | _ -> ()) lines;
  let truth0 = match !init_truth with Some t -> t | None -> raise (Out_of_profile (0, "no INIT line")) in
  let st = ref (CoreKv.kinit truth0) in
  let foreign : (int, int) Hashtbl.t = Hashtbl.create 8 in       (* requests outside the model ahead in a connection's queue *)
  let asked : (int, bool) Hashtbl.t = Hashtbl.create 8 in
  let reqs : (int, string * int) Hashtbl.t = Hashtbl.create 16 in  (* messaging request number -> kind, connection *)
  let pending : (int * CoreKv.cupd Core.op * obs list) option ref = ref None in  (* line, op, expected outputs *)
  let observed = ref [] in
  let exp_insts = ref [] and obs_nums = ref [] in                 (* access requests of the pending op: instances / request numbers *)
  let inst_of_req : (int, int) Hashtbl.t = Hashtbl.create 16 in
  let nops = ref 0 and nouts = ref 0 in
  let diff = ref None in
  let flush () =
    (match !pending with
     | Some (ln, o, exp) ->
       let obs = L.rev !observed in
       nouts := !nouts + L.length obs;
       if !diff = None && exp <> obs then diff := Some (ln, op_s o, S.concat " | " exp, S.concat " | " obs)
     | None ->
       if !diff = None && !observed <> [] then diff := Some (0, "(before the first op)", "", S.concat " | " (L.rev !observed)));
    (try L.iter2 (fun i n -> Hashtbl.replace inst_of_req n i) (L.rev !exp_insts) (L.rev !obs_nums) with Invalid_argument _ -> ());
    exp_insts := []; obs_nums := [];
    pending := None; observed := [] in
  let do_op ln (o : CoreKv.cupd Core.op) =
    flush ();
    incr nops;
    (match o with
     | Core.GrantEs ->
       (match (!st).Core.cv.Conv.qe with
        | Conv.IRemSub _ :: _ -> bump "release"
        | Conv.INop _ :: _ -> bump "access-through-resource-queue"
        | Conv.IGetResp _ :: _ -> bump "get-response"
        | Conv.IAddSub s :: _ -> bump (if ((!st).Core.cv.Conv.subs s).Conv.closed then "add-subscriber-of-closed-connection" else "add-subscriber")
        | Conv.IEvent _ :: _ -> bump "event" | Conv.ICustom :: _ -> bump "custom" | Conv.IReacc :: _ -> bump "reaccess-event" | [] -> bump "empty-grant")
     | Core.GrantConn c ->
       let x = (!st).Core.conns c in
       let sub i = (!st).Core.cv.Conv.subs i in
       (match x.Core.cqueue with
        | Core.QAccess i :: _ ->
          let y = sub i in
          bump (if y.Conv.gone then "access-answer-after-dispose"
                else let y' = (!st).Core.insts i in
                  let hasval = L.exists (fun b -> b = Core.AVal) y'.Core.acb in
                  match y'.Core.ans with
                  | Some true -> if hasval then (if L.length y'.Core.acb > 1 then "revalidation-granted-with-requests-waiting" else if y'.Core.reflag then "revalidation-granted-another-trigger-waiting" else "revalidation-granted")
                    else if L.length y'.Core.acb > 1 then "access-granted-several-waiting" else "access-granted"
                  | Some false -> if hasval then "revalidation-denied" else "access-denied"
                  | None -> "access-item-without-answer")
        | Core.QSub i :: _ ->
          let y = sub i in
          (match y.Conv.cq with
           | Conv.CLoaded :: _ -> bump (if y.Conv.gone then "loaded-after-dispose" else if L.length ((!st).Core.insts i).Core.rcb > 1 then "loaded-several-waiting" else "loaded")
           | Conv.CEvent _ :: _ -> bump (if y.Conv.gone then "event-after-dispose" else if ((!st).Core.insts i).Core.rq then "event-held-for-revalidation" else if y.Conv.flag then "event-held" else "event-delivered")
           | Conv.CReacc :: _ -> bump (if y.Conv.gone then "reaccess-after-dispose" else if y.Conv.flag then "reaccess-deferred" else "reaccess-handled")
           | [] -> bump "sub-item-missing")
        | Core.QDispose :: _ ->
          (match x.Core.cur with
           | Some i -> bump (if (sub i).Conv.loaded then "close-loaded" else "close-loading")
           | None -> bump "close-idle")
        | Core.QReq _ :: _ ->
          (match x.Core.cur with
           | None -> bump (if int_of_nat (!st).Core.next > 0 && L.exists (fun j -> int_of_nat ((!st).Core.insts (nat_of_int j)).Core.owner = int_of_nat c) (L.init (int_of_nat (!st).Core.next) (fun j -> j)) then "request-resubscribe" else "request-first")
           | Some i -> bump (match ((!st).Core.insts i).Core.acc with
               | Some true -> if (sub i).Conv.loaded then "request-again-served-at-once" else "request-again-waits-for-resource"
               | _ -> "request-again-waits-for-access"))
        | Core.QToken _ :: _ ->
          (match x.Core.cur with
           | Some i -> bump (if not x.Core.tokset then "first-token" else if (sub i).Conv.flag then "token-reaccess-deferred" else "token-reaccess-handled")
           | None -> bump "token-without-subscription")
        | Core.QUnsub (_, k) :: _ ->
          (match x.Core.cur with
           | Some _ -> bump (if int_of_nat k = 0 then "unsubscribe-bad-count" else if int_of_nat k > int_of_nat x.Core.direct then "unsubscribe-too-many"
                             else if int_of_nat k = int_of_nat x.Core.direct then "unsubscribe-last" else "unsubscribe-some")
           | None -> bump "unsubscribe-nothing")
        | [] -> bump "empty-grant")
     | _ -> ());
    let (s', outs) = CoreKv.kstep !st o in
    st := s';
    L.iter (fun o -> match o with Core.OAccessReq (_, i, _) -> exp_insts := int_of_nat i :: !exp_insts | _ -> ()) outs;
    pending := Some (ln, o, L.map out_s outs) in
  let see (o : obs) = observed := o :: !observed in
  let i = ref 0 in
  while !i < n && !diff = None do
    let ln = !i + 1 in
    let f = S.split_on_char '\t' lines.(!i) in
    (match f with
     | "REQ" :: c :: id :: "subscribe" :: _ ->
       let ci = cidx c in
       Hashtbl.replace asked ci true;
       do_op ln (Core.CSub (nat_of_int ci, nat_of_int (int_of_string id)))
     | "REQ" :: c :: id :: "unsubscribe" :: _ :: cnt :: _ ->
       let ci = cidx c in
       Hashtbl.replace asked ci true;
       let k = (if cnt = "-" then 1 else match int_of_string_opt cnt with Some k when k > 0 -> k | _ -> 0) in
       do_op ln (Core.CUnsub (nat_of_int ci, nat_of_int (int_of_string id), nat_of_int k))
     | "REQ" :: c :: _ :: _ ->
       let ci = cidx c in
       if Hashtbl.mem asked ci then raise (Out_of_profile (ln, "request other than subscribe after the subscribe request"));
       flush ();
       Hashtbl.replace foreign ci (1 + (try Hashtbl.find foreign ci with Not_found -> 0))
     | ["SCHED"; g] ->
       (match S.index_opt g ':' with
        | Some k ->
          let kind = S.sub g 0 k and id = S.sub g (k + 1) (S.length g - k - 1) in
          if kind = "conn" then begin
            let ci = cidx id in
            let fo = try Hashtbl.find foreign ci with Not_found -> 0 in
            if fo > 0 then (flush (); Hashtbl.replace foreign ci (fo - 1))
            else do_op ln (Core.GrantConn (nat_of_int ci))
          end else if kind = "es" then do_op ln Core.GrantEs
          else raise (Out_of_profile (ln, "grant " ^ g))
        | None -> raise (Out_of_profile (ln, "grant " ^ g)))
     | "MQSUB" :: "event" :: _ -> see "mqsub"
     | "MQREQ" :: num :: "access" :: _ :: _ :: c :: tokn :: _ ->
       Hashtbl.replace reqs (int_of_string num) ("access", cidx c); obs_nums := int_of_string num :: !obs_nums; see ("accessreq " ^ c ^ " " ^ tokn)
     | "MQREQ" :: num :: "get" :: _ ->
       Hashtbl.replace reqs (int_of_string num) ("get", 0); see "getreq"
     | "MQREQ" :: _ :: typ :: _ -> see ("mqreq " ^ typ)
     | "MQRESP" :: num :: "access" :: g :: _ when g = "1" || g = "0" ->
       (match Hashtbl.find_opt reqs (int_of_string num) with
        | Some ("access", _) ->
          flush ();
          (match Hashtbl.find_opt inst_of_req (int_of_string num) with
           | Some i -> do_op ln (Core.MqAccess (nat_of_int i, g = "1"))
           | None -> raise (Out_of_profile (ln, "answer to an access request the model did not make")))
        | _ -> raise (Out_of_profile (ln, "answer to an unknown request")))
     | "MQRESP" :: num :: "err" :: "system.accessDenied" :: _ when (match Hashtbl.find_opt reqs (int_of_string num) with Some ("access", _) -> true | _ -> false) ->
       (match Hashtbl.find_opt reqs (int_of_string num) with
        | Some ("access", _) ->
          flush ();
          (match Hashtbl.find_opt inst_of_req (int_of_string num) with
           | Some i -> do_op ln (Core.MqAccess (nat_of_int i, false))
           | None -> raise (Out_of_profile (ln, "answer to an access request the model did not make")))
        | _ -> ())
     | "MQRESP" :: _ :: "get" :: (("M" | "C") as k) :: rest ->
       let v = (match k, rest with
           | "M", kv :: _ -> CoreKv.VM (Absparse.kv_of kv) | "M", [] -> CoreKv.VM []
           | _, l :: _ -> CoreKv.VC (Absparse.list_of l) | _, [] -> CoreKv.VC []) in
       let t = CoreKv.ktruth !st in
       if val_s v <> val_s t then raise (Out_of_profile (ln, "get answer differs from the service state the model tracks"));
       do_op ln Core.MqGet
     | "MQRESP" :: _ -> raise (Out_of_profile (ln, "service answer: " ^ lines.(!i)))
     | "MQEV" :: _ :: "change" :: kv :: _ -> do_op ln (Core.MqEvent (CoreKv.UChange (Absparse.kv_of kv)))
     | "MQEV" :: _ :: "add" :: idx :: v :: _ when int_of_string idx >= 0 -> do_op ln (Core.MqEvent (CoreKv.UAdd (nat_of_int (int_of_string idx), Absparse.value_of v)))
     | "MQEV" :: _ :: "remove" :: idx :: _ when int_of_string idx >= 0 -> do_op ln (Core.MqEvent (CoreKv.URemove (nat_of_int (int_of_string idx))))
     | "MQEV" :: _ :: "custom" :: _ -> do_op ln Core.MqCustom
     | "MQEV" :: _ :: "reaccess" :: _ -> do_op ln Core.MqReacc
     | "CONNEV" :: c :: "token" :: tk :: _ when S.length tk > 1 && S.get tk 0 = 't' ->
       do_op ln (Core.ConnToken (nat_of_int (cidx c), nat_of_int (1 + int_of_string (S.sub tk 1 (S.length tk - 1)))))
     | "MQEV" :: _ -> raise (Out_of_profile (ln, "service event: " ^ lines.(!i)))
     | "RESP" :: _ :: _ :: "version" :: _ -> ()
     | "RESP" :: c :: id :: "ok" :: rs :: _ ->
       (match S.split_on_char '~' rs with
        | ["M"; _; kv] -> see (Printf.sprintf "resp %s %s M %s" c id (Absparse.kv_s (Absparse.kv_of kv)))
        | ["M"; _] -> see (Printf.sprintf "resp %s %s M " c id)
        | ["C"; _; l] -> see (Printf.sprintf "resp %s %s C %s" c id (Absparse.list_s (Absparse.list_of l)))
        | ["C"; _] -> see (Printf.sprintf "resp %s %s C " c id)
        | ["-"] -> see (Printf.sprintf "resp %s %s -" c id)
        | _ -> see ("resp " ^ c ^ " " ^ id ^ " ?" ^ rs))
     | "RESP" :: c :: id :: "err" :: code :: _ -> see ("err " ^ c ^ " " ^ id ^ " " ^ code)
     | "RESP" :: c :: id :: rest -> see ("resp " ^ c ^ " " ^ id ^ " ?" ^ S.concat "," rest)
     | "EV" :: c :: _ :: "change" :: kv :: _ -> see (Printf.sprintf "event %s change %s" c (Absparse.kv_s (Absparse.kv_of kv)))
     | "EV" :: c :: _ :: "add" :: idx :: v :: "-" :: _ -> see (Printf.sprintf "event %s add %s %s" c idx v)
     | "EV" :: c :: _ :: "remove" :: idx :: _ -> see (Printf.sprintf "event %s remove %s" c idx)
     | "EV" :: c :: _ :: "custom" :: _ -> see ("custom " ^ c)
     | "EV" :: c :: _ :: "unsub" :: "system.accessDenied" :: _ -> see ("unsubev " ^ c)
     | "EV" :: c :: _ :: k :: _ -> see ("event " ^ c ^ " " ^ k)
     | "MQUNSUB" :: "conn" :: c :: _ -> see ("connunsub " ^ c)
     | "MQUNSUB" :: _ -> see "mqunsub"
     | "DISC" :: c :: _ -> do_op ln (Core.Disc (nat_of_int (cidx c)))
     | "ERRLOG" :: _ -> see "errlog"
     | ("SYSEV" | "CONNEV" | "EVICT" | "STOP" | "HTTP" | "SILENT" | "CRASH" | "STALL") :: _ ->
       raise (Out_of_profile (ln, "line " ^ lines.(!i)))
     | _ -> ());
    incr i
  done;
  flush ();
  (!nops, !nouts, !diff)

let run_core (files : string list) =
  L.iter (fun path ->
      match check_file path with
      | (nops, nouts, None) -> Printf.printf "COREOK\t%s\t%d\t%d\n" path nops nouts
      | (nops, nouts, Some (ln, op, exp, obs)) ->
        Printf.printf "COREDIFF\t%s\t%d\t%s\t%s\t%s\n" path ln op exp obs
      | exception Out_of_profile (ln, msg) -> Printf.printf "COREOUT\t%s\t%d\t%s\n" path ln msg
      | exception e -> Printf.printf "COREOUT\t%s\t0\t%s\n" path (Printexc.to_string e)) files;
  Hashtbl.iter (fun k n -> Printf.printf "CORECOVER\t%s\t%d\n" k n) cover
