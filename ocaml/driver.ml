(* Correspondence driver: evaluates the extracted Coq models (and specs) on the cases the Go
   harness recorded from the implementation, and reports every difference. *)
open Conv
module L = Stdlib.List
module S = Stdlib.String

(* each handler: args (string list) -> impl output -> (model output, spec verdict option) *)
type verdict = { model : string; spec_ok : bool option; nontrivial : bool }

let ev_str (e : int Lcs.event) = match e with
  | Lcs.Remove i -> "r" ^ string_of_int (int_of_z i)
  | Lcs.Add (i, v) -> "a" ^ string_of_int (int_of_z i) ^ ":" ^ string_of_int v
let parse_ev (s : string) : int Lcs.event =
  if s.[0] = 'r' then Lcs.Remove (z_of_int (int_of_string (S.sub s 1 (S.length s - 1))))
  else match S.split_on_char ':' (S.sub s 1 (S.length s - 1)) with
    | [i; v] -> Lcs.Add (z_of_int (int_of_string i), int_of_string v)
    | _ -> failwith "ev"

(* value classes: the Go side maps int k to a codec.Value whose Equal-class is k; two ints denote
   Equal values iff they are the same int *)
let veq (a : int) (b : int) = a = b

let handlers : (string * (string list -> string -> verdict)) list = [
  "can_call", (fun args impl -> match args with
    | [call; act] ->
      let call = chars_of_string (unhex call) and act = chars_of_string (unhex act) in
      let m = CanCall.can_call call act in
      (* spec: call = "*" or (call <> "" and act is an exact entry) *)
      let ents = L.map string_of_chars (CanCall.entries call) in
      let spec = (call = ['*']) || (call <> [] && L.mem (string_of_chars act) ents) in
      { model = bool_s m; spec_ok = Some (impl = bool_s spec); nontrivial = L.length ents > 1 }
    | _ -> failwith "args");
  "valid_rid", (fun args impl -> match args with
    | [rid; aq] ->
      let m = Rid.is_valid_rid (chars_of_string (unhex rid)) (aq = "1") in
      { model = bool_s m; spec_ok = None; nontrivial = m }
    | _ -> failwith "args");
  "lcs", (fun args impl -> match args with
    | [a; b] ->
      let a = ints_of a and b = ints_of b in
      let m = LcsTab.lcs_model veq a b in
      let ms = S.concat "," (L.map ev_str m) in
      (* spec on the implementation's own output: applying it to a yields b, all indices in range *)
      let ievs = L.map parse_ev (split_on ',' impl) in
      let spec = (match Lcs.apply_evs ievs a with Some b' -> b' = b | None -> false)
                 && (a <> b || ievs = []) in
      { model = ms; spec_ok = Some spec; nontrivial = m <> [] }
    | _ -> failwith "args");
]

let () =
  let total = ref 0 and mism = ref 0 and specfail = ref 0 and nontriv = ref 0 in
  let per = Hashtbl.create 16 in
  let seen = Hashtbl.create 1024 in
  (try
    while true do
      let line = input_line stdin in
      if line <> "" then begin
        match S.split_on_char '\t' line with
        | fn :: rest when L.length rest >= 1 ->
          let n = L.length rest in
          let args = L.filteri (fun i _ -> i < n - 1) rest and impl = L.nth rest (n - 1) in
          let h = (try L.assoc fn handlers with Not_found -> failwith ("unknown function " ^ fn)) in
          let v = h args impl in
          incr total;
          let (t, m, s, nt) = (try Hashtbl.find per fn with Not_found -> (0, 0, 0, 0)) in
          let dm = if v.model <> impl then 1 else 0 in
          let ds = (match v.spec_ok with Some false -> 1 | _ -> 0) in
          let key = fn ^ "\t" ^ S.concat "\t" args in
          let dn = if v.nontrivial && not (Hashtbl.mem seen key) then (Hashtbl.add seen key (); 1) else 0 in
          Hashtbl.replace per fn (t + 1, m + dm, s + ds, nt + dn);
          mism := !mism + dm; specfail := !specfail + ds; nontriv := !nontriv + dn;
          if dm = 1 then Printf.printf "MISMATCH\t%s\t%s\timpl=%s\tmodel=%s\n" fn (S.concat "\t" args) impl v.model;
          if ds = 1 then Printf.printf "SPECFAIL\t%s\t%s\timpl=%s\n" fn (S.concat "\t" args) impl
        | _ -> failwith ("bad line: " ^ line)
      end
    done
  with End_of_file -> ());
  Hashtbl.iter (fun fn (t, m, s, nt) -> Printf.printf "FUNC\t%s\t%d\t%d\t%d\t%d\n" fn t m s nt) per;
  Printf.printf "SUMMARY\t%d\t%d\t%d\t%d\n" !total !mism !specfail !nontriv
